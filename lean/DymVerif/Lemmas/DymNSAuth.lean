/-
  Lemmas/DymNSAuth — what an operation can do to a Dym-Name record, and who must have signed it.
-/
import DymVerif.Lemmas.DymNSAlias
namespace DymVerif.DymNS
open AMap

/-- a record handed to a new owner: controller reset, configuration and contact cleared -/
def cleared (owner : Acct) (expireAt : Nat) : DymName :=
  { owner := owner, controller := owner, expireAt := expireAt, configs := [], contact := 0 }

def Op.actor : Op → Acct
  | .fund a _ | .register a .. | .transfer a .. | .setController a .. | .updateResolve a .. | .updateDetails a ..
  | .sellName a .. | .cancelSellName a .. | .completeName a .. | .buyName a .. | .offerName a .. | .cancelOffer a ..
  | .acceptOffer a .. | .createRollapp a .. | .registerAlias a .. | .sellAlias a .. | .cancelSellAlias a ..
  | .completeAlias a .. | .buyAlias a .. | .offerAlias a .. | .transferRollapp a .. => a
  | .advance _ | .trading .. | .setChainAliases _ | .migrateChainIds _ | .updateAliases .. | .setParams .. => 0

/-- every way an accepted operation can rewrite the record `d` of name `n`, with the facts that
    authorise it -/
inductive NameChange (s : State) (n : Name) (d : DymName) : Op → DymName → Prop
  /-- the owner extends an unexpired name: only expiry (and optionally contact) change -/
  | extend (dur pay c : Nat) : d.expired s.now = false →
      NameChange s n d (.register d.owner n dur pay c)
        { d with expireAt := d.expireAt + yearSeconds * dur, contact := if c ≠ 0 then c else d.contact }
  /-- the owner renews an expired name (any time, also inside the grace period) -/
  | renew (dur pay c : Nat) : d.expired s.now = true →
      NameChange s n d (.register d.owner n dur pay c)
        { owner := d.owner, controller := d.owner, expireAt := s.now + yearSeconds * dur, configs := [], contact := c }
  /-- somebody else takes the name over: only after expiry plus the grace period -/
  | takeOver (a : Acct) (dur pay c : Nat) : a ≠ d.owner → d.expired s.now = true → d.expireAt + s.p.grace ≤ s.now →
      NameChange s n d (.register a n dur pay c)
        { owner := a, controller := a, expireAt := s.now + yearSeconds * dur, configs := [], contact := c }
  | transfer (b : Acct) : d.expired s.now = false → AMap.get s.nameSO n = none → b ≠ d.owner →
      NameChange s n d (.transfer d.owner n b) (cleared b d.expireAt)
  | setController (c : Acct) : d.expired s.now = false →
      NameChange s n d (.setController d.owner n c) { d with controller := c }
  /-- address records: only the controller, only while unexpired; nothing else changes -/
  | updateResolve (ch : Chain) (e : Bool) (p : Path) (v : Option Addr) (cfgs : List Config) : d.expired s.now = false →
      ((∃ x, cfgs = upsertConfig d.configs ⟨ch, p, x⟩ ∧ (ch = 0 → x.hrp = 0)) ∨ cfgs = removeConfig d.configs ch p) →
      NameChange s n d (.updateResolve d.controller n ch e p v) { d with configs := cfgs }
  | updateDetails (c : ContactArg) (cl : Bool) (cfgs : List Config) (contact : Nat) : d.expired s.now = false →
      (cfgs = [] ∨ cfgs = d.configs) →
      NameChange s n d (.updateDetails d.controller n c cl) { d with configs := cfgs, contact := contact }
  /-- a bid that reaches the sell price of the open, unexpired sell order the owner placed -/
  | purchase (a : Acct) (offer : Nat) (so : SellOrder) : AMap.get s.nameSO n = some so → so.seller = d.owner →
      so.expired s.now = false → d.expired s.now = false → a ≠ d.owner →
      NameChange s n d (.buyName a n offer) (cleared a d.expireAt)
  /-- completion of a finished sell order by the owner or the highest bidder -/
  | complete (a : Acct) (so : SellOrder) (b : Bid) : AMap.get s.nameSO n = some so → so.seller = d.owner →
      so.bid = some b → d.expired s.now = false → (a = d.owner ∨ a = b.bidder) →
      NameChange s n d (.completeName a n) (cleared b.bidder d.expireAt)
  /-- the owner accepts a buy order -/
  | accept (pfx : Bool) (id m : Nat) (bo : BuyOrder) : AMap.get s.bos id = some bo → bo.isAlias = false → bo.asset = n →
      d.expired s.now = false → AMap.get s.nameSO n = none → bo.buyer ≠ d.owner →
      NameChange s n d (.acceptOffer d.owner pfx id m) (cleared bo.buyer d.expireAt)
  /-- governance (no signer): the chain-id migration rewrites the chain-ids of the address records of an
      unexpired name, and only when the rewritten identities are still pairwise distinct; paths,
      values, owner, controller, expiry and contact stay -/
  | migrate (m : List (Chain × Chain)) : d.expired s.now = false → ((d.configs.map (migConfig m)).map cid).Nodup →
      NameChange s n d (.migrateChainIds m) { d with configs := d.configs.map (migConfig m) }

/-! ### operations that do not touch the name store -/

theorem putBO_ns {s s' : State} {isAlias a asset dst offer ex} (h : putBO s isAlias a asset dst offer ex = .ok s') :
    s'.ns = s.ns := by
  unfold putBO at h
  split at h <;> (obtain ⟨rfl, _⟩ := toModule_ok h; rfl)

theorem registerAliasFor_ns {s s' : State} {c a l cost} (h : registerAliasFor s c a l cost = .ok s') : s'.ns = s.ns := by
  unfold registerAliasFor at h
  mcases' h
  rename (payAndBurn s a cost = Except.ok _) => hp
  obtain ⟨rfl, _⟩ := payAndBurn_ok hp
  rename (setAlias _ c l = Except.ok _) => hs
  obtain ⟨_, _, rfl⟩ := setAlias_ok hs
  injection h with h; subst h; rfl

theorem moveAlias_ns {s s' : State} {src l dst} (h : moveAlias s src l dst = .ok s') : s'.ns = s.ns := by
  unfold moveAlias at h
  mcases' h
  injection h with h; subst h; rfl

theorem completeAliasSO_ns {s s' : State} {l} (h : completeAliasSO s l = .ok s') : s'.ns = s.ns := by
  unfold completeAliasSO at h
  mcases' h
  rename (fromModule s _ _ = Except.ok _) => hf
  obtain ⟨rfl, _⟩ := fromModule_ok hf
  rename (removeAlias _ _ l = Except.ok _) => hr
  obtain ⟨_, _, rfl⟩ := removeAlias_ok hr
  obtain ⟨_, _, rfl⟩ := setAlias_ok h
  rfl

theorem takeBidT_ns' (s : State) (o : Option Bid) (a : Acct) (x : Nat) : (takeBidT s o a x).ns = s.ns := by simp


/-! ### name store after the blocks that rewrite a record -/

theorem pruneNameT_get (s : State) (n m : Name) : (pruneNameT s n).ns.get m = if m = n then none else s.ns.get m := by
  simp [pruneNameT, NameStore.get_delete]

theorem transferOwnershipT_get (s : State) (n m : Name) (d : DymName) (b : Acct) :
    (transferOwnershipT s n d b).ns.get m = if m = n then some (cleared b d.expireAt) else s.ns.get m := by
  simp only [transferOwnershipT, NameStore.get_setAfterBothT, pruneNameT_get, cleared]
  split <;> simp [*]

theorem completeNameSOT_get (s : State) (n m : Name) (d : DymName) (b : Bid) :
    (completeNameSOT s n d b).ns.get m = if m = n then some (cleared b.bidder d.expireAt) else s.ns.get m := by
  simp only [completeNameSOT, fromModuleT, NameStore.get_setAfterBothT, NameStore.get_beforeConfig,
    NameStore.get_beforeOwner, cleared]

theorem NameStore.get_setConfigChangedT (ns : NameStore) (n m : Name) (d : DymName) :
    (ns.setConfigChangedT n d).get m = if m = n then some d else ns.get m := by
  unfold NameStore.setConfigChangedT
  rw [NameStore.get_afterConfigT, NameStore.get_set, NameStore.get_beforeConfig]

theorem regAllowed_ok {s : State} {a : Acct} {n : Name} {v : Unit} (h : regAllowed s a n = .ok v) {d : DymName}
    (hd : getName s n = some d) (hne : d.owner ≠ a) : d.expired s.now = true ∧ d.expireAt + s.p.grace ≤ s.now := by
  unfold regAllowed at h
  simp only [hd, hne, if_false] at h
  mcases' h
  rename (d.expired s.now = true) => h1
  exact ⟨h1, by omega⟩

theorem validatePurchase_ok {s : State} {so : SellOrder} {offer : Nat} {v : Unit}
    (h : validatePurchase s so offer = .ok v) : so.expired s.now = false := by
  unfold validatePurchase at h
  simp only [bind, Except.bind, chk] at h
  cases he : so.expired s.now with
  | false => rfl
  | true => simp [he] at h

theorem getNameLive_some {s : State} {n : Name} {d : DymName} (h : getNameLive s n = some d) :
    getName s n = some d ∧ d.expired s.now = false := by
  unfold getNameLive at h
  cases hg : getName s n with
  | none => simp [hg] at h
  | some d' =>
    simp only [hg] at h
    split at h
    · cases h
    · injection h with h; subst h; exact ⟨rfl, by simpa using ‹¬ d'.expired s.now = true›⟩

/-! ### per message -/

section
variable {s s' : State} {n : Name} {d : DymName}

theorem registerName_change {a m dur pay c} (h : registerName s a m dur pay c = .ok s') (hd : getName s n = some d) :
    ∃ d', getName s' n = some d' ∧ (d' = d ∨ NameChange s n d (.register a m dur pay c) d') := by
  unfold registerName at h
  mcases' h
  all_goals
    rename (regAllowed s a m = Except.ok _) => hr
    rename (payAndBurn s a _ = Except.ok _) => h1
    obtain ⟨rfl, _⟩ := payAndBurn_ok h1
  · rename (pruneName _ m = Except.ok _) => hp
    obtain ⟨rfl, _⟩ := pruneName_ok hp
    rw [setNameAfterBoth_ok] at h
    injection h with h; subst h
    simp only [getName, NameStore.get_setAfterBothT, pruneNameT_get]
    by_cases hnm : n = m
    · subst hnm
      simp only [if_true]
      refine ⟨_, rfl, Or.inr ?_⟩
      have hd0 : getName s n = some d := hd
      by_cases ho : d.owner = a
      · subst ho
        by_cases he : d.expired s.now = true
        · have : (regPlan s d.owner n dur c).record =
              { owner := d.owner, controller := d.owner, expireAt := s.now + yearSeconds * dur, configs := [], contact := c } := by
            simp [regPlan, hd0, he]
          rw [this]; exact NameChange.renew dur pay c he
        · exfalso
          rename ((regPlan s d.owner n dur c).prune = true) => hpr
          simp [regPlan, hd0, he] at hpr
      · have : (regPlan s a n dur c).record =
            { owner := a, controller := a, expireAt := s.now + yearSeconds * dur, configs := [], contact := c } := by
          simp [regPlan, hd0, ho]
        rw [this]
        obtain ⟨he, hg⟩ := regAllowed_ok hr hd0 ho
        exact NameChange.takeOver a dur pay c (fun e => ho e.symm) he hg
    · simp only [hnm, if_false]
      exact ⟨d, hd, Or.inl rfl⟩
  · injection h with h; subst h
    rename (¬ (regPlan s a m dur c).prune = true) => hk
    obtain ⟨d0, hd0, ho, he, _⟩ := regPlan_keep (by simpa using hk)
    simp only [getName, setName, payAndBurnT, NameStore.get_set]
    by_cases hnm : n = m
    · subst hnm
      have : d0 = d := by rw [hd] at hd0; exact (Option.some.inj hd0).symm
      subst this
      subst ho
      simp only [if_true]
      refine ⟨_, rfl, Or.inr ?_⟩
      have : (regPlan s d0.owner n dur c).record =
          { d0 with expireAt := d0.expireAt + yearSeconds * dur, contact := if c ≠ 0 then c else d0.contact } := by
        have he' : ¬ d0.expired s.now = true := by simp [he]
        simp [regPlan, hd, he']
      rw [this]; exact NameChange.extend dur pay c he
    · simp only [hnm, if_false]
      exact ⟨d, hd, Or.inl rfl⟩

theorem transferName_change {a m b} (h : transferName s a m b = .ok s') (hd : getName s n = some d) :
    ∃ d', getName s' n = some d' ∧ (d' = d ∨ NameChange s n d (.transfer a m b) d') := by
  unfold transferName at h
  mcases' h
  obtain ⟨rfl, _⟩ := transferOwnership_ok h
  simp only [getName, transferOwnershipT_get]
  by_cases hnm : n = m
  · subst hnm
    rename (getName s n = some _) => hd0
    rw [hd] at hd0; injection hd0 with hd0; subst hd0
    rename (d.owner = a) => ho; subst ho
    exact ⟨_, if_pos rfl, Or.inr (NameChange.transfer b (by assumption) (by assumption) (by assumption))⟩
  · exact ⟨d, by simp [hnm]; exact hd, Or.inl rfl⟩

theorem setController_change {a m c} (h : setController s a m c = .ok s') (hd : getName s n = some d) :
    ∃ d', getName s' n = some d' ∧ (d' = d ∨ NameChange s n d (.setController a m c) d') := by
  unfold setController at h
  mcases' h
  injection h with h; subst h
  simp only [getName, setName, NameStore.get_set]
  by_cases hnm : n = m
  · subst hnm
    rename (getName s n = some _) => hd0
    rw [hd] at hd0; injection hd0 with hd0; subst hd0
    rename (d.owner = a) => ho; subst ho
    exact ⟨_, if_pos rfl, Or.inr (NameChange.setController c (by assumption))⟩
  · exact ⟨d, by simp [hnm]; exact hd, Or.inl rfl⟩

theorem updateResolve_change {a m ch e p v} (h : updateResolveAddress s a m ch e p v = .ok s') (hd : getName s n = some d) :
    ∃ d', getName s' n = some d' ∧ (d' = d ∨ NameChange s n d (.updateResolve a m ch e p v) d') := by
  unfold updateResolveAddress at h
  mcases' h
  all_goals
    rw [setNameConfigChanged_ok] at h
    injection h with h; subst h
    simp only [getName, NameStore.get_setConfigChangedT]
    by_cases hnm : n = m
    · subst hnm
      rename (getName s n = some _) => hd0
      rw [hd] at hd0; injection hd0 with hd0; subst hd0
      rename (d.controller = a) => ho; subst ho
      exact ⟨_, if_pos rfl, Or.inr (NameChange.updateResolve ch e p _ _ (by assumption) (by first | exact Or.inl ⟨_, rfl, fun h0 => by first | assumption | exact absurd h0 ‹¬ ch = 0›⟩ | exact Or.inr rfl))⟩
    · exact ⟨d, by simp [hnm]; exact hd, Or.inl rfl⟩

theorem updateDetails_change {a m c cl} (h : updateDetails s a m c cl = .ok s') (hd : getName s n = some d) :
    ∃ d', getName s' n = some d' ∧ (d' = d ∨ NameChange s n d (.updateDetails a m c cl) d') := by
  unfold updateDetails at h
  mcases' h
  all_goals
    first
    | (rw [setNameConfigChanged_ok] at h
       injection h with h; subst h
       simp only [getName, NameStore.get_setConfigChangedT])
    | (injection h with h; subst h
       simp only [getName, setName, NameStore.get_set])
    by_cases hnm : n = m
    · subst hnm
      rename (getName s n = some _) => hd0
      rw [hd] at hd0; injection hd0 with hd0; subst hd0
      rename (d.controller = a) => ho; subst ho
      refine ⟨_, if_pos rfl, Or.inr ?_⟩
      first
      | exact NameChange.updateDetails _ cl [] _ (by assumption) (Or.inl rfl)
      | exact NameChange.updateDetails _ cl d.configs d.contact (by assumption) (Or.inr rfl)
      | exact NameChange.updateDetails _ cl d.configs _ (by assumption) (Or.inr rfl)
    · exact ⟨d, by simp [hnm]; exact hd, Or.inl rfl⟩

end


section
variable {s s' : State} {n : Name} {d : DymName}

theorem completeNameSOMsg_change {a m} (hI : Inv s) (h : completeNameSOMsg s a m = .ok s') (hd : getName s n = some d) :
    ∃ d', getName s' n = some d' ∧ (d' = d ∨ NameChange s n d (.completeName a m) d') := by
  unfold completeNameSOMsg at h
  mcases' h
  · rename (refundBid s _ = Except.ok _) => hr
    obtain ⟨rfl, _⟩ := fromModule_ok hr
    injection h with h; subst h
    exact ⟨d, hd, Or.inl rfl⟩
  · rename (s.nameSO.get m = some _) => hso'
    rename (SellOrder.bid _ = some _) => hb'
    rename (getName s m = some _) => hd1
    rename (¬ ((!s.p.tradeName || DymName.expired _ s.now) = true)) => hne
    obtain ⟨d0, so, b, hd0, hso, hb, _, _, rfl⟩ := completeNameSO_ok h
    simp only [getName, completeNameSOT_get]
    by_cases hnm : n = m
    · subst hnm
      rw [hd] at hd0; injection hd0 with hd0; subst hd0
      rw [hso] at hso'; injection hso' with hso'; subst hso'
      rw [hb] at hb'; injection hb' with hb'; subst hb'
      rw [hd] at hd1; injection hd1 with hd1; subst hd1
      have he : d.expired s.now = false := by
        cases hx : d.expired s.now with
        | false => rfl
        | true => simp [hx] at hne
      have hsel : so.seller = d.owner := by
        obtain ⟨d1, hd1', _, hs, _⟩ := hI.so n so hso
        rw [getName] at hd; rw [hd] at hd1'; injection hd1' with hd1'; subst hd1'; exact hs
      exact ⟨_, if_pos rfl, Or.inr (NameChange.complete a so b hso hsel hb he (by rename (d.owner = a ∨ b.bidder = a) => hp; exact hp.imp Eq.symm Eq.symm))⟩
    · exact ⟨d, by simp [hnm]; exact hd, Or.inl rfl⟩

theorem purchaseName_change {a m offer} (hI : Inv s) (h : purchaseName s a m offer = .ok s') (hd : getName s n = some d) :
    ∃ d', getName s' n = some d' ∧ (d' = d ∨ NameChange s n d (.buyName a m offer) d') := by
  unfold purchaseName at h
  mcases' h
  all_goals
    rename (s.nameSO.get m = some _) => hso
    rename (takeBid s _ a offer = Except.ok _) => ht
    obtain ⟨rfl, _, _⟩ := takeBid_ok ht
    simp only [takeBidT_nameSO] at h
  · obtain ⟨d0, so', b, hd0, hso', hb, _, _, rfl⟩ := completeNameSO_ok h
    simp only [getName, completeNameSOT_get, takeBidT_ns]
    by_cases hnm : n = m
    · subst hnm
      simp only [getName, takeBidT_ns] at hd0
      rw [getName] at hd
      rw [hd] at hd0; injection hd0 with hd0; subst hd0
      simp only [AMap.get_set_self] at hso'
      injection hso' with hso'; subst hso'
      simp only at hb
      injection hb with hb; subst hb
      rename (validatePurchase s _ offer = Except.ok _) => hv
      have hse := validatePurchase_ok hv
      obtain ⟨d1, hd1, hlt, hsel, _⟩ := hI.so n _ hso
      rw [hd] at hd1; injection hd1 with hd1; subst hd1
      have he : d.expired s.now = false := by
        simp only [SellOrder.expired, DymName.expired, decide_eq_false_iff_not] at hse ⊢
        omega
      rename (getName s n = some _) => hd2
      rw [getName, hd] at hd2; injection hd2 with hd2; subst hd2
      exact ⟨_, if_pos rfl, Or.inr (NameChange.purchase a offer _ hso hsel hse he (fun e => ‹d.owner ≠ a› e.symm))⟩
    · exact ⟨d, by simp [hnm]; exact hd, Or.inl rfl⟩
  · injection h with h; subst h
    exact ⟨d, by simpa [getName] using hd, Or.inl rfl⟩

theorem acceptBO_change {a pfx id mn} (h : acceptBO s a pfx id mn = .ok s') (hd : getName s n = some d) :
    ∃ d', getName s' n = some d' ∧ (d' = d ∨ NameChange s n d (.acceptOffer a pfx id mn) d') := by
  unfold acceptBO at h
  mcases' h
  all_goals rename (getBO s pfx id = some _) => hg
  · -- alias order: the name store is untouched
    rename (BuyOrder) => bo
    unfold acceptAliasBO at h
    mcases' h
    · rename (fromModule s _ _ = Except.ok _) => hf
      obtain ⟨rfl, _⟩ := fromModule_ok hf
      have := moveAlias_ns h
      exact ⟨d, by rw [getName, this]; exact hd, Or.inl rfl⟩
    · injection h with h; subst h
      exact ⟨d, hd, Or.inl rfl⟩
  · rename (BuyOrder) => bo
    unfold acceptNameBO at h
    mcases' h
    · rename (fromModule s _ _ = Except.ok _) => hf
      obtain ⟨rfl, _⟩ := fromModule_ok hf
      obtain ⟨rfl, _⟩ := transferOwnership_ok h
      rename (getNameLive s bo.asset = some _) => hl
      obtain ⟨hd0, he⟩ := getNameLive_some hl
      simp only [getName, transferOwnershipT_get]
      by_cases hnm : n = bo.asset
      · rw [← hnm] at hd0
        rw [hd] at hd0; injection hd0 with hd0; subst hd0
        rename (d.owner = a) => ho; subst ho
        rename (¬ bo.isAlias = true) => hna
        refine ⟨_, if_pos hnm, Or.inr ?_⟩
        exact NameChange.accept pfx id mn bo (getBO_some hg).1 (by simpa using hna) hnm.symm he (by rw [hnm]; assumption) (by assumption)
      · refine ⟨d, ?_, Or.inl rfl⟩
        simp only [hnm, if_false]
        exact hd
    · injection h with h; subst h
      exact ⟨d, hd, Or.inl rfl⟩

/-- every other message leaves the name store alone -/
theorem exec_ns_frame {op : Op} (h : exec s op = .ok s')
    (hop : match op with
      | .register .. | .transfer .. | .setController .. | .updateResolve .. | .updateDetails .. | .completeName ..
      | .buyName .. | .acceptOffer .. | .migrateChainIds .. => False
      | _ => True) : s'.ns = s.ns := by
  cases op <;> simp only at hop <;> simp only [exec, pure, Except.pure] at h
  case fund => injection h with h; subst h; rfl
  case advance => injection h with h; subst h; rfl
  case trading => injection h with h; subst h; rfl
  case setChainAliases => injection h with h; subst h; rfl
  case sellName => unfold placeNameSO at h; mcases' h; injection h with h; subst h; rfl
  case cancelSellName => unfold cancelNameSO at h; mcases' h; injection h with h; subst h; rfl
  case offerName => unfold placeNameBO at h; mcases' h; exact putBO_ns h
  case cancelOffer =>
    unfold cancelBO at h; mcases' h
    rename (fromModule s _ _ = Except.ok _) => hf
    obtain ⟨rfl, _⟩ := fromModule_ok hf
    injection h with h; subst h; rfl
  case createRollapp => unfold createRollapp at h; mcases' h; have := registerAliasFor_ns h; exact this
  case registerAlias => unfold registerAlias at h; mcases' h; exact registerAliasFor_ns h
  case sellAlias => unfold placeAliasSO at h; mcases' h; injection h with h; subst h; rfl
  case cancelSellAlias => unfold cancelAliasSO at h; mcases' h; injection h with h; subst h; rfl
  case completeAlias =>
    unfold completeAliasSOMsg at h; mcases' h
    · rename (refundBid s _ = Except.ok _) => hr
      obtain ⟨rfl, _⟩ := fromModule_ok hr
      injection h with h; subst h; rfl
    · exact completeAliasSO_ns h
  case buyAlias =>
    unfold purchaseAlias at h; mcases' h
    all_goals
      rename (takeBid s _ _ _ = Except.ok _) => ht
      obtain ⟨rfl, _, _⟩ := takeBid_ok ht
    · have := completeAliasSO_ns h; simpa using this
    · injection h with h; subst h; simp
  case offerAlias => unfold placeAliasBO at h; mcases' h; exact putBO_ns h
  case transferRollapp => obtain ⟨r, _, _, _, rfl⟩ := transferRollapp_ok h; rfl
  case updateAliases => obtain ⟨ca, rfl, _⟩ := updateAliases_ok h; rfl
  case setParams => obtain ⟨rfl, _⟩ := setParams_ok h; rfl

theorem migrateChainIds_change {m : List (Chain × Chain)} (h : migrateChainIds s m = .ok s') (hd : getName s n = some d) :
    ∃ d', getName s' n = some d' ∧ (d' = d ∨ NameChange s n d (.migrateChainIds m) d') := by
  obtain ⟨rfl, _, _⟩ := migrateChainIds_ok h
  refine ⟨migName s.now m d, by rw [getName_migrateT, hd]; rfl, ?_⟩
  rcases migName_cases s.now m d with e | ⟨he, hn, e⟩
  · exact Or.inl e
  · rw [e]; exact Or.inr (NameChange.migrate m he hn)

/-- **who can change what**: an accepted operation either leaves the record of a name as it is, or
    rewrites it in one of the ways listed by `NameChange` (each with its authorisation facts);
    a record is never deleted -/
theorem name_change {op : Op} (hI : Inv s) (h : exec s op = .ok s') (hd : getName s n = some d) :
    ∃ d', getName s' n = some d' ∧ (d' = d ∨ NameChange s n d op d') := by
  cases op
  case register => exact registerName_change h hd
  case transfer => exact transferName_change h hd
  case setController => exact setController_change h hd
  case updateResolve => exact updateResolve_change h hd
  case updateDetails => exact updateDetails_change h hd
  case completeName => exact completeNameSOMsg_change hI h hd
  case buyName => exact purchaseName_change hI h hd
  case acceptOffer => exact acceptBO_change h hd
  case migrateChainIds => exact migrateChainIds_change h hd
  all_goals
    have := exec_ns_frame h trivial
    exact ⟨d, by rw [getName, this]; exact hd, Or.inl rfl⟩

end

end DymVerif.DymNS
