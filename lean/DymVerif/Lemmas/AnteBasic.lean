/-
  Lemmas/AnteBasic — helper lemmas about M-Ante (`checkMsg`/`checkMsgs`/`reach`) and M-Guards.
  Core Lean only.
-/
import DymVerif.Model.Ante
namespace DymVerif.Ante

/-! ## unfolding -/

theorem checkMsgs_nil (c : Config) (d : Nat) : checkMsgs c d [] = none := by
  simp [checkMsgs]

theorem checkMsgs_cons (c : Config) (d : Nat) (m : Msg) (ms : List Msg) :
    checkMsgs c d (m :: ms) =
      match checkMsg c d m with
      | some e => some e
      | none => checkMsgs c d ms := by
  rw [checkMsgs]; rfl

theorem checkMsg_node (c : Config) (d ty : Nat) (inner : List Msg) (auth : Nat) (bad : Bool) :
    checkMsg c d (.node ty inner auth bad) =
      if c.maxDepth ≤ d then some .deep
      else if c.typeRejects.contains ty then some (.invalidType ty)
      else if blocked c ty d then some (.disabled ty)
      else match accOf c ty with
        | some .msgs => if bad then some .unpack else checkMsgs c (d + 1) inner
        | some .grant =>
            if bad then some .unpack
            else if blocked c auth d then some (.disabledGrant auth) else none
        | none => none := by
  rw [checkMsg]; rfl

/-- accepted list ⇒ every element accepted -/
theorem checkMsgs_none_mem {c : Config} {d : Nat} {ms : List Msg}
    (h : checkMsgs c d ms = none) : ∀ m ∈ ms, checkMsg c d m = none := by
  induction ms with
  | nil => intro m hm; cases hm
  | cons x xs ih =>
    rw [checkMsgs_cons] at h
    intro m hm
    cases hx : checkMsg c d x with
    | some e => rw [hx] at h; cases h
    | none =>
      rw [hx] at h
      cases hm with
      | head => exact hx
      | tail _ hm' => exact ih h m hm'

/-- every element accepted ⇒ accepted list -/
theorem checkMsgs_none_of_mem {c : Config} {d : Nat} {ms : List Msg}
    (h : ∀ m ∈ ms, checkMsg c d m = none) : checkMsgs c d ms = none := by
  induction ms with
  | nil => exact checkMsgs_nil c d
  | cons x xs ih =>
    rw [checkMsgs_cons, h x (List.mem_cons_self)]
    exact ih (fun m hm => h m (List.mem_cons_of_mem _ hm))

theorem checkMsgs_none_getElem? {c : Config} {d : Nat} {ms : List Msg}
    (h : checkMsgs c d ms = none) {i : Nat} {m : Msg} (hi : ms[i]? = some m) :
    checkMsg c d m = none :=
  checkMsgs_none_mem h m (List.mem_of_getElem? hi)

/-- what acceptance of one message means, clause by clause -/
structure Accepted (c : Config) (d : Nat) (m : Msg) : Prop where
  depth : d < c.maxDepth
  notTypeRejected : m.ty ∉ c.typeRejects
  notBlocked : blocked c m.ty d = false
  msgs : accOf c m.ty = some .msgs → m.bad = false ∧ checkMsgs c (d + 1) m.inner = none
  grant : accOf c m.ty = some .grant → m.bad = false ∧ blocked c m.auth d = false

theorem checkMsg_none {c : Config} {d : Nat} {m : Msg} (h : checkMsg c d m = none) :
    Accepted c d m := by
  cases m with
  | node ty inner auth bad =>
    rw [checkMsg_node] at h
    by_cases h1 : c.maxDepth ≤ d
    · simp [h1] at h
    · by_cases h2 : ty ∈ c.typeRejects
      · simp [h1, h2] at h
      · by_cases h3 : blocked c ty d = true
        · simp [h1, h2, h3] at h
        · simp only [h1, h2, h3, if_false, Bool.false_eq_true, List.contains_iff_mem] at h
          refine ⟨by omega, h2, by simpa [Msg.ty] using h3, ?_, ?_⟩
          · intro ha
            simp only [Msg.ty] at ha
            rw [ha] at h
            cases bad with
            | true => simp at h
            | false => simpa [Msg.bad, Msg.inner] using h
          · intro ha
            simp only [Msg.ty] at ha
            rw [ha] at h
            cases bad with
            | true => simp at h
            | false =>
              by_cases h4 : blocked c auth d = true
              · simp [h4] at h
              · simpa [Msg.bad, Msg.auth] using h4

theorem checkMsg_none_of {c : Config} {d : Nat} {m : Msg} (h : Accepted c d m) :
    checkMsg c d m = none := by
  cases m with
  | node ty inner auth bad =>
    obtain ⟨h1, h2, h3, h4, h5⟩ := h
    simp only [Msg.ty, Msg.bad, Msg.inner, Msg.auth] at h2 h3 h4 h5
    rw [checkMsg_node]
    have h1' : ¬ c.maxDepth ≤ d := by omega
    simp only [h1', h2, h3, if_false, Bool.false_eq_true, List.contains_iff_mem]
    cases ha : accOf c ty with
    | none => rfl
    | some a =>
      cases a with
      | msgs => have := h4 ha; simp [this.1, this.2]
      | grant => have := h5 ha; simp [this.1, this.2]

/-! ## paths -/

theorem reach_single (W : Nat → Option Acc) (ms : List Msg) (i : Nat) :
    reach W ms [i] = ms[i]? := by
  simp [reach]

theorem reach_cons2 (W : Nat → Option Acc) (ms : List Msg) (i j : Nat) (p : List Nat) :
    reach W ms (i :: j :: p) =
      match ms[i]? with
      | some m => if W m.ty = some .msgs then reach W m.inner (j :: p) else none
      | none => none := by
  rw [reach]; rfl

/-- Central lemma: in an accepted list, every node reachable through the checker's own wrapper
    edges is itself accepted at its depth. -/
theorem accepted_path (c : Config) :
    ∀ (p : List Nat) (d : Nat) (ms : List Msg) (m : Msg),
      checkMsgs c d ms = none → reach (accOf c) ms p = some m →
      Accepted c (d + (p.length - 1)) m := by
  intro p
  induction p with
  | nil => intro d ms m _ h; simp [reach] at h
  | cons i rest ih =>
    intro d ms m hacc hr
    cases rest with
    | nil =>
      rw [reach_single] at hr
      simpa using checkMsg_none (checkMsgs_none_getElem? hacc hr)
    | cons j p =>
      rw [reach_cons2] at hr
      cases hi : ms[i]? with
      | none => rw [hi] at hr; cases hr
      | some x =>
        rw [hi] at hr
        by_cases hw : accOf c x.ty = some .msgs
        · simp only [hw, if_true] at hr
          have hx := checkMsg_none (checkMsgs_none_getElem? hacc hi)
          have hin := (hx.msgs hw).2
          have := ih (d + 1) x.inner m hin hr
          simp only [List.length_cons] at this ⊢
          have e : d + 1 + (p.length + 1 - 1) = d + (p.length + 1 + 1 - 1) := by omega
          rw [e] at this
          exact this
        · simp [hw] at hr

/-! ## blocked -/

theorem blocked_of_rule {c : Config} {r : Rule} (hr : r ∈ c.rules) {ty d : Nat}
    (ht : ty ∈ r.tys) (hd : r.depthMin ≤ d) : blocked c ty d = true := by
  simp only [blocked, List.any_eq_true]
  refine ⟨r, hr, ?_⟩
  simp [Rule.hits, ht, hd]

theorem blocked_mono {c : Config} {ty d d' : Nat} (h : blocked c ty d = true) (hd : d ≤ d') :
    blocked c ty d' = true := by
  simp only [blocked, List.any_eq_true] at h ⊢
  obtain ⟨r, hr, hh⟩ := h
  refine ⟨r, hr, ?_⟩
  simp only [Rule.hits, Bool.and_eq_true, decide_eq_true_eq] at hh ⊢
  exact ⟨hh.1, by omega⟩

/-! ## M-Guards -/

theorem gstep_rejected {s : Owners} {a : Attempt} (h : passes s a = false) :
    gstep s a = (s, false) := by
  simp [gstep, h]

theorem gstep_accepted_passes {s : Owners} {a : Attempt} (h : (gstep s a).2 = true) :
    passes s a = true ∧ a.valid = true := by
  unfold gstep at h
  by_cases hp : (passes s a && a.valid) = true
  · simpa using hp
  · simp [hp] at h

theorem grun_nil (s : Owners) : grun s [] = s := rfl
theorem grun_cons (s : Owners) (a : Attempt) (as : List Attempt) :
    grun s (a :: as) = grun (gstep s a).1 as := rfl



/-! ## the converse: a rejection is always caused by a reachable offending node -/

/-- why a node makes the check fail with error `e` at depth `d` -/
inductive Offends (c : Config) (d : Nat) (m : Msg) : Err → Prop
  | deep : c.maxDepth ≤ d → Offends c d m .deep
  | invalidType : m.ty ∈ c.typeRejects → Offends c d m (.invalidType m.ty)
  | disabled : blocked c m.ty d = true → Offends c d m (.disabled m.ty)
  | unpack : accOf c m.ty ≠ none → m.bad = true → Offends c d m .unpack
  | grant : accOf c m.ty = some .grant → blocked c m.auth d = true →
      Offends c d m (.disabledGrant m.auth)

theorem reach_shift (W : Nat → Option Acc) (m : Msg) (ms : List Msg) (i : Nat) (p : List Nat) :
    reach W (m :: ms) ((i + 1) :: p) = reach W ms (i :: p) := by
  cases p with
  | nil => simp [reach_single]
  | cons j q => simp [reach_cons2]

theorem reach_head_descend (W : Nat → Option Acc) (m : Msg) (ms : List Msg) (j : Nat) (p : List Nat)
    (hw : W m.ty = some .msgs) :
    reach W (m :: ms) (0 :: j :: p) = reach W m.inner (j :: p) := by
  simp [reach_cons2, hw]

mutual
theorem checkMsg_some (c : Config) : ∀ (m : Msg) (d : Nat) (e : Err), checkMsg c d m = some e →
    ∃ p n, reach (accOf c) [m] (0 :: p) = some n ∧ Offends c (d + p.length) n e
  | .node ty inner auth bad, d, e, h => by
    rw [checkMsg_node] at h
    by_cases h1 : c.maxDepth ≤ d
    · simp only [h1, if_true, Option.some.injEq] at h
      subst h
      exact ⟨[], .node ty inner auth bad, by simp [reach_single], .deep (by simpa using h1)⟩
    · by_cases h2 : ty ∈ c.typeRejects
      · simp only [h1, h2, if_true, if_false, List.contains_iff_mem, Option.some.injEq] at h
        subst h
        exact ⟨[], .node ty inner auth bad, by simp [reach_single], .invalidType h2⟩
      · by_cases h3 : blocked c ty d = true
        · simp only [h1, h2, h3, if_true, if_false, List.contains_iff_mem, Option.some.injEq] at h
          subst h
          exact ⟨[], .node ty inner auth bad, by simp [reach_single], .disabled (by simpa [Msg.ty] using h3)⟩
        · simp only [h1, h2, h3, if_false, Bool.false_eq_true, List.contains_iff_mem] at h
          cases ha : accOf c ty with
          | none => rw [ha] at h; cases h
          | some a =>
            rw [ha] at h
            cases a with
            | msgs =>
              cases bad with
              | true =>
                simp only [if_true, Option.some.injEq] at h
                subst h
                exact ⟨[], .node ty inner auth true, by simp [reach_single], .unpack (by simp [Msg.ty, ha]) rfl⟩
              | false =>
                simp only [Bool.false_eq_true, if_false] at h
                obtain ⟨i, p, n, hr, ho⟩ := checkMsgs_some c inner (d + 1) e h
                refine ⟨i :: p, n, ?_, ?_⟩
                · rw [reach_head_descend _ _ _ _ _ (by simpa [Msg.ty] using ha)]
                  exact hr
                · simp only [List.length_cons]
                  have : d + (p.length + 1) = d + 1 + p.length := by omega
                  rw [this]; exact ho
            | grant =>
              cases bad with
              | true =>
                simp only [if_true, Option.some.injEq] at h
                subst h
                exact ⟨[], .node ty inner auth true, by simp [reach_single], .unpack (by simp [Msg.ty, ha]) rfl⟩
              | false =>
                by_cases h4 : blocked c auth d = true
                · simp only [Bool.false_eq_true, if_false, h4, if_true, Option.some.injEq] at h
                  subst h
                  exact ⟨[], .node ty inner auth false, by simp [reach_single],
                    .grant (by simpa [Msg.ty] using ha) (by simpa [Msg.auth] using h4)⟩
                · simp [h4] at h
theorem checkMsgs_some (c : Config) : ∀ (ms : List Msg) (d : Nat) (e : Err), checkMsgs c d ms = some e →
    ∃ i p n, reach (accOf c) ms (i :: p) = some n ∧ Offends c (d + p.length) n e
  | [], d, e, h => by simp [checkMsgs_nil] at h
  | m :: ms, d, e, h => by
    rw [checkMsgs_cons] at h
    cases hm : checkMsg c d m with
    | some e' =>
      rw [hm] at h
      simp only [Option.some.injEq] at h
      subst h
      obtain ⟨p, n, hr, ho⟩ := checkMsg_some c m d e' hm
      refine ⟨0, p, n, ?_, ho⟩
      cases p with
      | nil => simpa [reach_single] using hr
      | cons j q =>
        rw [reach_cons2] at hr ⊢
        simpa using hr
    | none =>
      rw [hm] at h
      obtain ⟨i, p, n, hr, ho⟩ := checkMsgs_some c ms d e h
      exact ⟨i + 1, p, n, by rw [reach_shift]; exact hr, ho⟩
end

end DymVerif.Ante
