/-
  Lemmas/CoreCustody — the sequencer module account holds exactly the sum of all recorded bonds,
  in every reachable state (invariant S3), with the address-uniqueness invariant it needs.
-/
import DymVerif.Lemmas.CoreChainInv2
namespace DymVerif.Core

def tokSum (l : List Seq) : Nat := (l.map (·.tokens)).sum

/-- distinct sequencer records have distinct addresses -/
def AddrNodup (l : List Seq) : Prop := l.Pairwise (fun a b => a.addr ≠ b.addr)

structure Cust (s : St) : Prop where
  nodup : AddrNodup s.seqs
  bal : s.modBal = tokSum s.seqs

theorem AddrNodup.eq_of_mem {l : List Seq} (h : AddrNodup l) {x y : Seq} (hx : x ∈ l) (hy : y ∈ l)
    (e : x.addr = y.addr) : x = y := by
  induction l with
  | nil => cases hx
  | cons a as ih =>
    have hp := List.pairwise_cons.1 h
    rcases List.mem_cons.1 hx with h1 | h1 <;> rcases List.mem_cons.1 hy with h2 | h2
    · rw [h1, h2]
    · subst h1; exact absurd e (hp.1 y h2)
    · subst h2; exact absurd e.symm (hp.1 x h1)
    · exact ih hp.2 h1 h2

/-- replacing the record of address `q.addr` by `q` changes the token sum by the difference -/
theorem tokSum_replace (l : List Seq) (h : AddrNodup l) (q0 q : Seq) (hq0 : q0 ∈ l) (ha : q.addr = q0.addr) :
    tokSum (l.map (fun x => if x.addr == q.addr then q else x)) + q0.tokens = tokSum l + q.tokens := by
  induction l with
  | nil => cases hq0
  | cons a as ih =>
    have hp := List.pairwise_cons.1 h
    simp only [List.map_cons, tokSum, List.sum_cons] at *
    rcases List.mem_cons.1 hq0 with h1 | h1
    · subst h1
      have hrest : as.map (fun x => if x.addr == q.addr then q else x) = as := by
        have : as.map (fun x => if x.addr == q.addr then q else x) = as.map id := by
          apply List.map_congr_left
          intro x hx
          have : x.addr ≠ q0.addr := fun e => hp.1 x hx e.symm
          simp [ha, this]
        simpa using this
      simp only [ha, beq_self_eq_true, if_true]
      rw [show (List.map (fun x => if x.addr == q0.addr then q else x) as) = as by simpa [ha] using hrest]
      omega
    · have hne : a.addr ≠ q0.addr := fun e => hp.1 q0 h1 e
      have := ih hp.2 h1
      simp only [ha] at this ⊢
      simp only [show (a.addr == q0.addr) = false by simp [hne]]
      simp only [Bool.false_eq_true, if_false]
      omega

theorem addrs_replace (l : List Seq) (q : Seq) :
    (l.map (fun x => if x.addr == q.addr then q else x)).map (·.addr) = l.map (·.addr) := by
  induction l with
  | nil => rfl
  | cons a as ih =>
    simp only [List.map_cons, ih]
    by_cases h : (a.addr == q.addr) = true
    · simp [h]; exact (by simpa using h : a.addr = q.addr).symm
    · simp [h]

theorem AddrNodup.of_addrs_eq {l l' : List Seq} (h : AddrNodup l) (e : l'.map (·.addr) = l.map (·.addr)) : AddrNodup l' := by
  unfold AddrNodup at *
  have h1 : (l.map (·.addr)).Pairwise (· ≠ ·) := List.pairwise_map.2 h
  rw [← e] at h1
  exact List.pairwise_map.1 h1

/-- writing back a record whose tokens are unchanged keeps custody -/
theorem Cust.setSeq_same {s : St} {a : Addr} {q0 q : Seq} (h : Cust s) (hg : getSeq s a = some q0)
    (ha : q.addr = a) (ht : q.tokens = q0.tokens) : Cust (setSeq s q) := by
  have hq0a := getSeq_addr hg
  constructor
  · exact h.nodup.of_addrs_eq (addrs_replace s.seqs q)
  · have := tokSum_replace s.seqs h.nodup q0 q (getSeq_mem hg) (by rw [ha, hq0a])
    show s.modBal = tokSum (s.seqs.map (fun x => if x.addr == q.addr then q else x))
    rw [h.bal]; omega

/-- writing back a record after the module balance moved by the same amount -/
theorem Cust.setSeq_moved {s s1 : St} {a : Addr} {q0 q1 : Seq} (h : Cust s) (hg : getSeq s a = some q0)
    (hs : s1.seqs = s.seqs) (ha : q1.addr = a) (hm : s1.modBal + q0.tokens = s.modBal + q1.tokens) :
    Cust (setSeq s1 q1) := by
  have hq0a := getSeq_addr hg
  constructor
  · show AddrNodup ((s1.seqs).map (fun x => if x.addr == q1.addr then q1 else x))
    rw [hs]; exact h.nodup.of_addrs_eq (addrs_replace s.seqs q1)
  · have := tokSum_replace s.seqs h.nodup q0 q1 (getSeq_mem hg) (by rw [ha, hq0a])
    show s1.modBal = tokSum (s1.seqs.map (fun x => if x.addr == q1.addr then q1 else x))
    rw [hs]; have := h.bal; omega

theorem Cust.of_eq {s s' : St} (h : Cust s) (e1 : s'.seqs = s.seqs) (e2 : s'.modBal = s.modBal) : Cust s' :=
  ⟨e1 ▸ h.nodup, by rw [e2, e1]; exact h.bal⟩

-- ---------------------------------------------------------------- rollapp-side functions do not touch bonds

theorem indicateLiveness_seqs (s : St) (r : Rollapp) :
    (indicateLiveness s r).seqs = s.seqs ∧ (indicateLiveness s r).modBal = s.modBal := by
  unfold indicateLiveness resetClock scheduleEvent; exact ⟨rfl, rfl⟩

theorem afterSetRealProposer_seqs (s : St) (ra : Nat) (a : Addr) :
    (afterSetRealProposer s ra a).seqs = s.seqs ∧ (afterSetRealProposer s ra a).modBal = s.modBal := by
  unfold afterSetRealProposer
  split
  · exact ⟨rfl, rfl⟩
  · rename_i r _
    have := indicateLiveness_seqs s r
    split
    · exact this
    · exact ⟨this.1, this.2⟩

theorem recoverFromSentinel_seqs {s s' : St} {ra : Nat} (e : recoverFromSentinel s ra = .ok s') :
    s'.seqs = s.seqs ∧ s'.modBal = s.modBal := by
  unfold recoverFromSentinel at e
  split at e
  · cases e
  · split at e
    · cases e
    · split at e
      · cases e
      · injection e with e; subst e
        exact afterSetRealProposer_seqs _ _ _

theorem setProposer_seqs (s : St) (ra : Nat) (a : Option Addr) :
    (setProposer s ra a).seqs = s.seqs ∧ (setProposer s ra a).modBal = s.modBal := by
  unfold setProposer; split <;> exact ⟨rfl, rfl⟩

theorem setSuccessor_seqs (s : St) (ra : Nat) (a : Option Addr) :
    (setSuccessor s ra a).seqs = s.seqs ∧ (setSuccessor s ra a).modBal = s.modBal := by
  unfold setSuccessor; split <;> exact ⟨rfl, rfl⟩

theorem removeFromNoticeQueue_seqs (s : St) (q : Seq) :
    (removeFromNoticeQueue s q).seqs = s.seqs ∧ (removeFromNoticeQueue s q).modBal = s.modBal := by
  unfold removeFromNoticeQueue; split <;> exact ⟨rfl, rfl⟩

theorem getSeq_congr {s s' : St} (e : s'.seqs = s.seqs) (a : Addr) : getSeq s' a = getSeq s a := by
  unfold getSeq; rw [e]

-- ---------------------------------------------------------------- sequencer-side functions

theorem optOutAll_cust {s : St} {ra : Nat} (h : Cust s) : Cust (optOutAll s ra) := by
  have ha : ∀ x : Seq, (if x.rollapp == ra then { x with optedIn := false } else x).addr = x.addr := by
    intro x; split <;> rfl
  have ht : ∀ x : Seq, (if x.rollapp == ra then { x with optedIn := false } else x).tokens = x.tokens := by
    intro x; split <;> rfl
  unfold optOutAll
  constructor
  · apply h.nodup.of_addrs_eq
    dsimp only
    rw [List.map_map]; apply List.map_congr_left; intro x _; exact ha x
  · dsimp only
    rw [h.bal]; unfold tokSum; rw [List.map_map]; congr 1
    apply List.map_congr_left; intro x _; exact (ht x).symm

theorem abruptRemoveProposer_cust {s : St} {ra : Nat} (h : Cust s) : Cust (abruptRemoveProposer s ra) := by
  unfold abruptRemoveProposer
  split
  · exact h
  · split
    · exact h
    · split
      · exact h
      · rename_i _ a _ _ q hg
        have h1 : Cust (removeFromNoticeQueue s q) := h.of_eq (removeFromNoticeQueue_seqs s q).1 (removeFromNoticeQueue_seqs s q).2
        have hg1 : getSeq (removeFromNoticeQueue s q) a = some q := by
          rw [getSeq_congr (removeFromNoticeQueue_seqs s q).1]; exact hg
        have h2 := h1.setSeq_same hg1 (q := { q with bonded := false }) (show q.addr = a from getSeq_addr hg) rfl
        exact h2.of_eq (setProposer_seqs _ _ _).1 (setProposer_seqs _ _ _).2

theorem seqOnHardFork_cust {s : St} {ra : Nat} (h : Cust s) : Cust (seqOnHardFork s ra) := by
  unfold seqOnHardFork
  exact (abruptRemoveProposer_cust (optOutAll_cust h)).of_eq (setSuccessor_seqs _ _ _).1 (setSuccessor_seqs _ _ _).2

theorem hardFork_cust {s s' : St} {ra lv : Nat} (h : Cust s) (e : hardFork s ra lv = .ok s') : Cust s' := by
  unfold hardFork at e
  split at e
  · cases e
  · split at e
    · cases e
    · split at e
      · cases e
      · split at e
        · cases e
        · dsimp only at e
          injection e with e; subst e
          apply seqOnHardFork_cust
          unfold resetClock
          exact h.of_eq rfl rfl

theorem hardForkToLatest_cust {s s' : St} {ra : Nat} (h : Cust s) (e : hardForkToLatest s ra = .ok s') : Cust s' := by
  unfold hardForkToLatest at e
  split at e
  · cases e
  · split at e
    · cases e
    · exact hardFork_cust h e

theorem onProposerLastBlock_cust {s s' : St} {q : Seq} (h : Cust s) (e : onProposerLastBlock s q = .ok s') : Cust s' := by
  unfold onProposerLastBlock at e
  split at e
  · cases e
  · split at e
    · cases e
    · dsimp only at e
      split at e
      · exact hardForkToLatest_cust (show Cust (setRa s _) from h.of_eq rfl rfl) e
      · injection e with e; subst e
        exact (h.of_eq rfl rfl).of_eq (afterSetRealProposer_seqs (setRa s _) _ _).1 (afterSetRealProposer_seqs (setRa s _) _ _).2

theorem seqAfterUpdate_cust {s s' : St} {m : UpdMsg} {b : Bool} (h : Cust s) (e : seqAfterUpdate s m b = .ok s') : Cust s' := by
  unfold seqAfterUpdate at e
  split at e
  · cases e
  · rename_i prop hg
    dsimp only at e
    have h1 : Cust (setSeq s { prop with dishonor := prop.dishonor - min s.sqp.dishonorSU prop.dishonor }) :=
      Cust.setSeq_same (q0 := prop) (a := m.sender) h hg (show prop.addr = m.sender from getSeq_addr hg) rfl
    split at e
    · exact onProposerLastBlock_cust h1 e
    · injection e with e; subst e; exact h1

theorem updateState_cust {s s' : St} {m : UpdMsg} (h : Cust s) (e : updateState s m = .ok s') : Cust s' := by
  unfold updateState at e
  repeat' split at e
  all_goals first
    | (cases e; done)
    | skip
  rename_i _ s3 h3
  dsimp only at e
  split at e
  · cases e
  injection e with e; subst e
  have h3' := seqAfterUpdate_cust (show Cust (setRa s _) from h.of_eq rfl rfl) h3
  refine Cust.of_eq (s := { s3 with queue := _, seqH := _ }) (h3'.of_eq rfl rfl) (indicateLiveness_seqs _ _).1 (indicateLiveness_seqs _ _).2

end DymVerif.Core
