import DymVerif.Lemmas.LockupOps
/-
  Lemmas/LockupFate — what one step can do to one existing lock (`lock_fate`), and to an owner's
  free + locked total (`owner_total_step`).
-/
namespace DymVerif.Lockup

/-- everything a single step can do to a lock `l` that exists before the step -/
inductive Fate (p : Params) (s : State) (op : Op) (s' : State) (l : Lock) : Prop
  | same : l ∈ s'.locks → Fate p s op s' l
  | topup (amt : Nat) : op = .lock l.owner l.denom amt l.duration → l.endTime = none →
      { l with amount := l.amount + amt } ∈ s'.locks → Fate p s op s' l
  | started (c : Option (Denom × Nat)) : op = .unlock l.owner l.id c → l.endTime = none →
      { l with endTime := some (s.now + l.duration), startedAt := some s.now } ∈ s'.locks → Fate p s op s' l
  | split (x : Nat) : op = .unlock l.owner l.id (some (l.denom, x)) → l.endTime = none → 0 < x → x < l.amount →
      { l with amount := l.amount - x } ∈ s'.locks →
      (⟨s.lastId + 1, l.owner, l.duration, some (s.now + l.duration), l.denom, x, some s.now⟩ : Lock) ∈ s'.locks →
      Fate p s op s' l
  | extended (dur : Nat) : op = .extend l.owner l.id dur → l.endTime = none → l.duration < dur →
      { l with duration := dur } ∈ s'.locks → Fate p s op s' l
  | forcedPart (x : Nat) : op = .force l.owner l.id (some (l.denom, x)) → l.owner ∈ p.allowed → 0 < x →
      x < l.amount → { l with amount := l.amount - x } ∈ s'.locks → Fate p s op s' l
  | forced (c : Option (Denom × Nat)) : op = .force l.owner l.id c → l.owner ∈ p.allowed →
      (∀ l' ∈ s'.locks, l'.id ≠ l.id) → Fate p s op s' l
  | matured : op = .endBlock → minHeightAutoWithdraw ≤ s.height → matured s.now l = true →
      (∀ l' ∈ s'.locks, l'.id ≠ l.id) → Fate p s op s' l

theorem lock_fate (p : Params) {s : State} (h : Inv s) (op : Op) {l : Lock} (hl : l ∈ s.locks) :
    Fate p s op (step p s op).1 l := by
  cases op with
  | lock a d amt dur =>
    simp only [step]
    rcases lockTokens_cases p s a d amt dur with ⟨e, he⟩ | ⟨_, _, _, _, t, ht, hc⟩
    · rw [he]; exact .same hl
    · obtain ⟨fr, _, _⟩ := frame_charge ht
      rcases hc with ⟨lt, hlt, he⟩ | ⟨_, he⟩
      · rw [he]
        have hmem := List.mem_of_find?_eq_some hlt
        obtain ⟨h1, h2, h3, h4⟩ := sameLock_true (List.find?_some hlt)
        by_cases hid : l.id = lt.id
        · have : l = lt := eq_of_id_eq h.nodup hl hmem hid
          subst this
          refine .topup amt (by rw [h1, h2, h3]) h4 ?_
          simp only [addToLock, fr.locks]
          exact mem_setLock_new hl rfl
        · refine .same ?_
          simp only [addToLock, fr.locks]
          exact mem_setLock_other hl hid
      · rw [he]
        refine .same ?_
        simp only [createLock, fr.locks]
        exact List.mem_append_left _ hl
  | unlock a id c =>
    simp only [step]
    rcases beginUnlocking_cases s a id c with ⟨e, he⟩ | ⟨lt, hlt, ho, hn, hv, hex, hc⟩
    · rw [he]; exact .same hl
    · obtain ⟨hmem, hid0⟩ := findLock_some hlt
      by_cases hid : l.id = lt.id
      · have : l = lt := eq_of_id_eq h.nodup hl hmem hid
        subst this
        rcases hc with ⟨hp, he⟩ | ⟨_, he⟩
        · rw [he]
          obtain ⟨x, hcx, hx0, hx1, hr⟩ := partial_facts hv hex hp
          rw [hr]
          refine .split x (by rw [ho, hid0, hcx]) hn hx0 hx1 ?_ ?_
          · simp only [splitUnlock]
            exact List.mem_append_left _ (mem_setLock_new hl rfl)
          · simp only [splitUnlock]
            exact List.mem_append_right _ (by simp)
        · rw [he]
          refine .started c (by rw [ho, hid0]) hn ?_
          simp only [startUnlock]
          exact mem_setLock_new hl rfl
      · rcases hc with ⟨_, he⟩ | ⟨_, he⟩
        · rw [he]
          refine .same ?_
          simp only [splitUnlock]
          exact List.mem_append_left _ (mem_setLock_other hl hid)
        · rw [he]
          refine .same ?_
          simp only [startUnlock]
          exact mem_setLock_other hl hid
  | extend a id dur =>
    simp only [step]
    rcases extendLockup_cases s a id dur with ⟨e, he⟩ | ⟨lt, hlt, ho, hn, hd, he⟩
    · rw [he]; exact .same hl
    · obtain ⟨hmem, hid0⟩ := findLock_some hlt
      rw [he]
      by_cases hid : l.id = lt.id
      · have : l = lt := eq_of_id_eq h.nodup hl hmem hid
        subst this
        refine .extended dur (by rw [ho, hid0]) hn hd ?_
        simp only [extendTo]
        exact mem_setLock_new hl rfl
      · refine .same ?_
        simp only [extendTo]
        exact mem_setLock_other hl hid
  | force a id c =>
    simp only [step]
    rcases forceUnlock_cases p s a id c with ⟨e, he⟩ | ⟨lt, hlt, ho, ha, hv, hex, hc⟩
    · rw [he]; exact .same hl
    · obtain ⟨hmem, hid0⟩ := findLock_some hlt
      by_cases hid : l.id = lt.id
      · have : l = lt := eq_of_id_eq h.nodup hl hmem hid
        subst this
        rcases hc with ⟨hp, t, ht, he⟩ | ⟨_, t, ht, he⟩
        · rw [he]
          obtain ⟨x, hcx, hx0, hx1, hr⟩ := partial_facts hv hex hp
          obtain ⟨_, h1, _⟩ := fromModule_some ht
          rw [hr]
          refine .forcedPart x (by rw [ho, hid0, hcx]) (by rw [ho]; exact ha) hx0 hx1 ?_
          simp only [shrinkLock, h1]
          exact mem_setLock_new hl rfl
        · rw [he]
          obtain ⟨_, h1, _⟩ := fromModule_some ht
          refine .forced c (by rw [ho, hid0]) (by rw [ho]; exact ha) ?_
          intro l' hl'
          simp only [removeLock, h1] at hl'
          exact (mem_delLock.mp hl').2
      · rcases hc with ⟨_, t, ht, he⟩ | ⟨_, t, ht, he⟩
        · rw [he]
          obtain ⟨_, h1, _⟩ := fromModule_some ht
          refine .same ?_
          simp only [shrinkLock, h1]
          exact mem_setLock_other hl hid
        · rw [he]
          obtain ⟨_, h1, _⟩ := fromModule_some ht
          refine .same ?_
          simp only [removeLock, h1]
          exact mem_delLock.mpr ⟨hl, hid⟩
  | beginBlock dt => exact .same hl
  | endBlock =>
    simp only [step]
    by_cases hh : minHeightAutoWithdraw ≤ s.height
    · obtain ⟨s', he, hinv, _, _, _, hlocks, _⟩ := endBlock_spec h hh
      rw [he]
      cases hm : matured s.now l
      · refine .same ?_
        show l ∈ s'.locks
        rw [hlocks]
        exact List.mem_filter.mpr ⟨hl, by simp [hm]⟩
      · refine .matured rfl hh hm ?_
        intro l' hl' hid
        change l' ∈ s'.locks at hl'
        rw [hlocks, List.mem_filter] at hl'
        have := eq_of_id_eq h.nodup hl'.1 hl hid
        rw [this, hm] at hl'
        exact absurd hl'.2 (by simp)
    · have : s.height < minHeightAutoWithdraw := by omega
      unfold endBlock
      simp only [this, if_true]
      exact .same hl

/-! ### an owner's free + locked total -/

theorem total_filter (P Q : Lock → Bool) (ls : List Lock) :
    total P (ls.filter Q) = total (fun l => Q l && P l) ls := by
  induction ls with
  | nil => rfl
  | cons x xs ih =>
    rw [List.filter_cons]
    cases hq : Q x
    · simp [total, hq, ih]
    · simp [total, hq, ih]

theorem total_split (P Q : Lock → Bool) (ls : List Lock) :
    total (fun l => Q l && P l) ls + total (fun l => !Q l && P l) ls = total P ls := by
  induction ls with
  | nil => rfl
  | cons x xs ih =>
    simp only [total]
    by_cases hq : Q x = true <;> by_cases hp : P x = true <;> simp [hq, hp] <;> omega

theorem chargeFee_bal (p : Params) (s : State) (a a' d' : Nat) :
    (chargeFee p s a).bal a' d' =
      if a' = a ∧ d' = p.feeDenom then s.bal a p.feeDenom - p.fee else s.bal a' d' := by
  simp [chargeFee, updBal]

theorem fee_le_cost (p : Params) (d amt : Nat) : p.fee ≤ lockCost p d amt := by
  unfold lockCost; omega

theorem w_own (a' d' : Nat) (l : Lock) :
    w (fun l => l.owner == a' && l.denom == d') l = if a' = l.owner ∧ d' = l.denom then l.amount else 0 := by
  by_cases hh : a' = l.owner ∧ d' = l.denom
  · simp [w, hh.1.symm, hh.2.symm]
  · have : ¬ (l.owner = a' ∧ l.denom = d') := fun e => hh ⟨e.1.symm, e.2.symm⟩
    simp only [w, Bool.and_eq_true, beq_iff_eq, this, hh, if_false]

theorem lock_arith {c1 c2 : Prop} [Decidable c1] [Decidable c2] {tb sb sbf N O X amt fee cost : Nat}
    (hb : tb + (if c1 then amt else 0) = if c2 then sbf - fee else sb)
    (hs : N + (if c1 then X else 0) = O + (if c1 then X + amt else 0))
    (hfee : fee ≤ cost) (hcost : cost ≤ sbf) (hlink : c2 → sb = sbf) :
    tb + N = sb + O ∨ (c2 ∧ tb + N + fee = sb + O) := by
  by_cases h1 : c1 <;> by_cases h2 : c2 <;> simp only [h1, h2, if_true, if_false] at hb hs
  · right; have := hlink h2; exact ⟨h2, by omega⟩
  · left; omega
  · right; have := hlink h2; exact ⟨h2, by omega⟩
  · left; omega

/-- one step changes an owner's free + locked total of a denom by nothing, or (an accepted
    `lock` of that owner, fee denom) by exactly minus the fee -/
theorem owner_total_step (p : Params) {s : State} (h : Inv s) (op : Op) (a' d' : Nat) :
    (step p s op).1.bal a' d' + lockedOwner (step p s op).1.locks a' d' =
        s.bal a' d' + lockedOwner s.locks a' d' ∨
    (∃ d0 amt dur id, op = .lock a' d0 amt dur ∧ (step p s op).2 = .ok id ∧ d' = p.feeDenom ∧
      (step p s op).1.bal a' d' + lockedOwner (step p s op).1.locks a' d' + p.fee =
        s.bal a' d' + lockedOwner s.locks a' d') := by
  cases op with
  | lock a d amt dur =>
    simp only [step]
    rcases lockTokens_cases p s a d amt dur with ⟨e, he⟩ | ⟨_, _, _, hcost, t, ht, hc⟩
    · rw [he]; exact Or.inl rfl
    · obtain ⟨_, h1, _, h3, _, _, _, hb⟩ := toModule_some ht
      have hb' := hb a' d'
      rw [chargeFee_bal] at hb'
      have hfee := fee_le_cost p d amt
      have hlink : a' = a ∧ d' = p.feeDenom → s.bal a' d' = s.bal a p.feeDenom :=
        fun ⟨e1, e2⟩ => by rw [e1, e2]
      simp only [chargeFee] at h1 h3
      rcases hc with ⟨lt, hlt, he⟩ | ⟨_, he⟩
      · have hmem := List.mem_of_find?_eq_some hlt
        obtain ⟨o1, o2, _, _⟩ := sameLock_true (List.find?_some hlt)
        have hs := total_setLock (fun l => l.owner == a' && l.denom == d') h.nodup hmem
          (n := { lt with amount := lt.amount + amt }) rfl
        rw [w_own a' d' lt, w_own a' d' _] at hs
        rw [he]
        simp only [addToLock, lockedOwner, h1]
        generalize total _ (setLock _ _) = N at hs ⊢
        simp only [o1, o2] at hs
        rcases lock_arith hb' hs hfee hcost hlink with hh | ⟨⟨e1, e2⟩, hh⟩
        · exact Or.inl hh
        · exact Or.inr ⟨d, amt, dur, lt.id, by rw [e1], rfl, e2, hh⟩
      · have hs := total_append (fun l => l.owner == a' && l.denom == d') s.locks
          [⟨t.lastId + 1, a, dur, none, d, amt, none⟩]
        rw [total_single, w_own a' d' _] at hs
        simp only [] at hs
        rw [he]
        simp only [createLock, lockedOwner, h1]
        have hs' : total (fun l => l.owner == a' && l.denom == d')
              (s.locks ++ [⟨t.lastId + 1, a, dur, none, d, amt, none⟩]) +
            (if a' = a ∧ d' = d then 0 else 0) =
            total (fun l => l.owner == a' && l.denom == d') s.locks + (if a' = a ∧ d' = d then 0 + amt else 0) := by
          rw [hs]; simp
        rcases lock_arith hb' hs' hfee hcost hlink with hh | ⟨⟨e1, e2⟩, hh⟩
        · exact Or.inl hh
        · exact Or.inr ⟨d, amt, dur, s.lastId + 1, by rw [e1], rfl, e2, hh⟩
  | unlock a id c =>
    left
    simp only [step]
    rcases beginUnlocking_cases s a id c with ⟨e, he⟩ | ⟨lt, hlt, ho, hn, hv, hex, hc⟩
    · rw [he]
    · obtain ⟨hmem, _⟩ := findLock_some hlt
      rcases hc with ⟨hp, he⟩ | ⟨_, he⟩
      · obtain ⟨x, _, hx0, hx1, hr⟩ := partial_facts hv hex hp
        have hs := total_setLock (fun l => l.owner == a' && l.denom == d') h.nodup hmem
          (n := { lt with amount := lt.amount - x }) rfl
        rw [he, hr]
        simp only [splitUnlock, lockedOwner, total_append, total_single, w_own] at hs ⊢
        by_cases c1 : a' = lt.owner ∧ d' = lt.denom
        · simp only [if_pos c1] at hs ⊢; omega
        · simp only [if_neg c1] at hs ⊢; omega
      · have hs := total_setLock (fun l => l.owner == a' && l.denom == d') h.nodup hmem
          (n := { lt with endTime := some (s.now + lt.duration), startedAt := some s.now }) rfl
        rw [he]
        simp only [startUnlock, lockedOwner, w_own] at hs ⊢
        omega
  | extend a id dur =>
    left
    simp only [step]
    rcases extendLockup_cases s a id dur with ⟨e, he⟩ | ⟨lt, hlt, ho, hn, hd, he⟩
    · rw [he]
    · obtain ⟨hmem, _⟩ := findLock_some hlt
      have hs := total_setLock (fun l => l.owner == a' && l.denom == d') h.nodup hmem
        (n := { lt with duration := dur }) rfl
      rw [he]
      simp only [extendTo, lockedOwner, w_own] at hs ⊢
      omega
  | force a id c =>
    left
    simp only [step]
    rcases forceUnlock_cases p s a id c with ⟨e, he⟩ | ⟨lt, hlt, ho, ha, hv, hex, hc⟩
    · rw [he]
    · obtain ⟨hmem, _⟩ := findLock_some hlt
      rcases hc with ⟨hp, t, ht, he⟩ | ⟨_, t, ht, he⟩
      · obtain ⟨x, _, hx0, hx1, hr⟩ := partial_facts hv hex hp
        rw [hr] at ht
        obtain ⟨_, h1, _, _, _, _, _, hb⟩ := fromModule_some ht
        have hs := total_setLock (fun l => l.owner == a' && l.denom == d') h.nodup hmem
          (n := { lt with amount := lt.amount - x }) rfl
        rw [he, hr]
        simp only [shrinkLock, lockedOwner, w_own, h1, hb] at hs ⊢
        by_cases c1 : a' = lt.owner ∧ d' = lt.denom
        · simp only [if_pos c1] at hs ⊢; omega
        · simp only [if_neg c1] at hs ⊢; omega
      · obtain ⟨_, h1, _, _, _, _, _, hb⟩ := fromModule_some ht
        have hs := total_delLock (fun l => l.owner == a' && l.denom == d') h.nodup hmem
        rw [he]
        simp only [removeLock, lockedOwner, w_own, h1, hb] at hs ⊢
        by_cases c1 : a' = lt.owner ∧ d' = lt.denom
        · simp only [if_pos c1] at hs ⊢; omega
        · simp only [if_neg c1] at hs ⊢; omega
  | beginBlock dt => left; rfl
  | endBlock =>
    left
    simp only [step]
    by_cases hh : minHeightAutoWithdraw ≤ s.height
    · obtain ⟨s', he, _, _, _, _, hlocks, hbal⟩ := endBlock_spec h hh
      rw [he]
      show s'.bal a' d' + lockedOwner s'.locks a' d' = _
      rw [hbal, hlocks]
      simp only [lockedOwner, total_filter]
      have := total_split (fun l => l.owner == a' && l.denom == d') (matured s.now) s.locks
      omega
    · have : s.height < minHeightAutoWithdraw := by omega
      unfold endBlock
      simp only [this, if_true]

/-! ### where a lock of the next state comes from -/

theorem mem_setLock_old {ls : List Lock} {n x : Lock} (h : x ∈ setLock ls n) : ∃ l ∈ ls, l.id = x.id := by
  rcases mem_setLock h with ⟨rfl, o, ho, hid⟩ | ⟨hm, _⟩
  · exact ⟨o, ho, hid⟩
  · exact ⟨x, hm, rfl⟩

/-- a lock of the next state continues an existing lock (same id), or has the next fresh id and was
    made by its owner's own `lock` deposit or split off an own lock by the owner's partial `unlock` -/
theorem lock_origin (p : Params) {s : State} (h : Inv s) (op : Op) {l' : Lock}
    (hl' : l' ∈ (step p s op).1.locks) :
    (∃ l ∈ s.locks, l.id = l'.id) ∨
    (l'.id = s.lastId + 1 ∧
      ((∃ amt, op = .lock l'.owner l'.denom amt l'.duration ∧ l'.endTime = none ∧ l'.startedAt = none ∧
          l'.amount = amt ∧ (step p s op).2 = .ok l'.id) ∨
       (∃ id x, op = .unlock l'.owner id (some (l'.denom, x)) ∧ l'.endTime = some (s.now + l'.duration) ∧
          l'.startedAt = some s.now ∧ l'.amount = x ∧
          ∃ l ∈ s.locks, l.id = id ∧ l.owner = l'.owner ∧ l.denom = l'.denom ∧ l.duration = l'.duration ∧
            x < l.amount))) := by
  cases op with
  | lock a d amt dur =>
    simp only [step] at hl' ⊢
    rcases lockTokens_cases p s a d amt dur with ⟨e, he⟩ | ⟨_, _, _, _, t, ht, hc⟩
    · rw [he] at hl'; exact Or.inl ⟨l', hl', rfl⟩
    · obtain ⟨fr, _, _⟩ := frame_charge ht
      rcases hc with ⟨lt, hlt, he⟩ | ⟨_, he⟩
      · rw [he] at hl'
        simp only [addToLock, fr.locks] at hl'
        exact Or.inl (mem_setLock_old hl')
      · rw [he] at hl' ⊢
        simp only [createLock, fr.locks, fr.lastId, List.mem_append, List.mem_singleton] at hl'
        rcases hl' with hm | rfl
        · exact Or.inl ⟨l', hm, rfl⟩
        · exact Or.inr ⟨rfl, Or.inl ⟨amt, rfl, rfl, rfl, rfl, rfl⟩⟩
  | unlock a id c =>
    simp only [step] at hl' ⊢
    rcases beginUnlocking_cases s a id c with ⟨e, he⟩ | ⟨lt, hlt, ho, hn, hv, hex, hc⟩
    · rw [he] at hl'; exact Or.inl ⟨l', hl', rfl⟩
    · obtain ⟨hmem, hid0⟩ := findLock_some hlt
      rcases hc with ⟨hp, he⟩ | ⟨_, he⟩
      · rw [he] at hl'
        obtain ⟨x, hcx, hx0, hx1, hr⟩ := partial_facts hv hex hp
        rw [hr] at hl'
        simp only [splitUnlock, List.mem_append, List.mem_singleton] at hl'
        rcases hl' with hm | rfl
        · exact Or.inl (mem_setLock_old hm)
        · refine Or.inr ⟨rfl, Or.inr ⟨id, x, ?_, rfl, rfl, rfl, lt, hmem, hid0, rfl, rfl, rfl, hx1⟩⟩
          simp only [ho, hcx]
      · rw [he] at hl'
        simp only [startUnlock] at hl'
        exact Or.inl (mem_setLock_old hl')
  | extend a id dur =>
    simp only [step] at hl' ⊢
    rcases extendLockup_cases s a id dur with ⟨e, he⟩ | ⟨lt, hlt, ho, hn, hd, he⟩
    · rw [he] at hl'; exact Or.inl ⟨l', hl', rfl⟩
    · rw [he] at hl'
      simp only [extendTo] at hl'
      exact Or.inl (mem_setLock_old hl')
  | force a id c =>
    simp only [step] at hl' ⊢
    rcases forceUnlock_cases p s a id c with ⟨e, he⟩ | ⟨lt, hlt, ho, ha, hv, hex, hc⟩
    · rw [he] at hl'; exact Or.inl ⟨l', hl', rfl⟩
    · rcases hc with ⟨hp, t, ht, he⟩ | ⟨_, t, ht, he⟩
      · rw [he] at hl'
        obtain ⟨_, h1, _⟩ := fromModule_some ht
        simp only [shrinkLock, h1] at hl'
        exact Or.inl (mem_setLock_old hl')
      · rw [he] at hl'
        obtain ⟨_, h1, _⟩ := fromModule_some ht
        simp only [removeLock, h1] at hl'
        exact Or.inl ⟨l', (mem_delLock.mp hl').1, rfl⟩
  | beginBlock dt => exact Or.inl ⟨l', hl', rfl⟩
  | endBlock =>
    simp only [step] at hl'
    by_cases hh : minHeightAutoWithdraw ≤ s.height
    · obtain ⟨s', he, _, _, _, _, hlocks, _⟩ := endBlock_spec h hh
      rw [he] at hl'
      change l' ∈ s'.locks at hl'
      rw [hlocks] at hl'
      exact Or.inl ⟨l', (List.mem_filter.mp hl').1, rfl⟩
    · have : s.height < minHeightAutoWithdraw := by omega
      unfold endBlock at hl'
      simp only [this, if_true] at hl'
      exact Or.inl ⟨l', hl', rfl⟩

/-- lock ids are never handed out twice: the counter never goes back -/
theorem lastId_mono (p : Params) {s : State} (h : Inv s) (op : Op) : s.lastId ≤ (step p s op).1.lastId := by
  cases op with
  | lock a d amt dur =>
    simp only [step]
    rcases lockTokens_cases p s a d amt dur with ⟨e, he⟩ | ⟨_, _, _, _, t, ht, hc⟩
    · rw [he]; exact Nat.le_refl _
    · obtain ⟨fr, _, _⟩ := frame_charge ht
      rcases hc with ⟨lt, hlt, he⟩ | ⟨_, he⟩
      · rw [he]; simp only [addToLock, fr.lastId]; exact Nat.le_refl _
      · rw [he]; simp only [createLock, fr.lastId]; omega
  | unlock a id c =>
    simp only [step]
    rcases beginUnlocking_cases s a id c with ⟨e, he⟩ | ⟨lt, _, _, _, _, _, hc⟩
    · rw [he]; exact Nat.le_refl _
    · rcases hc with ⟨_, he⟩ | ⟨_, he⟩
      · rw [he]; simp only [splitUnlock]; omega
      · rw [he]; exact Nat.le_refl _
  | extend a id dur =>
    simp only [step]
    rcases extendLockup_cases s a id dur with ⟨e, he⟩ | ⟨lt, _, _, _, _, he⟩
    · rw [he]; exact Nat.le_refl _
    · rw [he]; exact Nat.le_refl _
  | force a id c =>
    simp only [step]
    rcases forceUnlock_cases p s a id c with ⟨e, he⟩ | ⟨lt, _, _, _, _, _, hc⟩
    · rw [he]; exact Nat.le_refl _
    · rcases hc with ⟨_, t, ht, he⟩ | ⟨_, t, ht, he⟩
      · obtain ⟨_, _, _, h3, _⟩ := fromModule_some ht
        rw [he]; simp only [shrinkLock, h3]; omega
      · obtain ⟨_, _, _, h3, _⟩ := fromModule_some ht
        rw [he]; simp only [removeLock, h3]; exact Nat.le_refl _
  | beginBlock dt => exact Nat.le_refl _
  | endBlock =>
    simp only [step]
    by_cases hh : minHeightAutoWithdraw ≤ s.height
    · obtain ⟨s', he, _, _, _, hlast, _⟩ := endBlock_spec h hh
      rw [he]; show s.lastId ≤ s'.lastId; omega
    · have : s.height < minHeightAutoWithdraw := by omega
      unfold endBlock
      simp only [this, if_true]; exact Nat.le_refl _

end DymVerif.Lockup
