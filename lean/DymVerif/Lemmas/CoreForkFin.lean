/-
  Lemmas/CoreForkFin — forks and finalized states, given that finalized states form a prefix of the
  recorded states (`FinPrefix`, an invariant of every reachable state: finalization proceeds in index
  order — property C02): an accepted fork removes and truncates unfinalized states only, and a fork
  below any finalized height is refused.
-/
import DymVerif.Lemmas.CoreForkPlan
namespace DymVerif.Core.Fork

/-- finalized states form a prefix -/
def FinPrefix (l : List SInfo) : Prop :=
  ∀ (i j : Nat) (a b : SInfo), i ≤ j → l[i]? = some a → l[j]? = some b → b.finalized = true → a.finalized = true

/-- every removed state was unfinalized -/
theorem PlanSpec.removed_unfin {r : Rollapp} {n keep : Nat} {kst st l : SInfo} (ps : PlanSpec r n keep kst st l)
    (hc : Chain r.states) (hfp : FinPrefix r.states) :
    ∀ (j : Nat) (x : SInfo), keep ≤ j → r.states[j]? = some x → x.finalized = false := by
  intro j x hj hx
  cases hxf : x.finalized with
  | false => rfl
  | true =>
    exfalso
    obtain ⟨f, l', hf, hl'⟩ := nonempty_first_last ps.hst
    have hll : l' = l := by rw [ps.hl] at hl'; injection hl' with hl'; exact hl'.symm
    subst hll
    have hab := ps.above hc j x hj hx
    have hwx := hc.wf x (List.mem_of_getElem? hx)
    have hwl := hc.wf l' (List.mem_of_getLast? ps.hl)
    have hwk := hc.wf st (List.mem_of_getElem? ps.hst)
    have hxl := hc.le_last ps.hl j x hx
    have hmin := ps.h_min
    have hlo := ps.h_lo
    have hfl := hc.first_le hf (keep - 1) st ps.hst
    have h1 := hwx.num_pos
    have h2 := hwl.num_pos
    have h3 := hwl.last_eq
    have h4 := hwk.start_pos
    have hn1 : 1 ≤ n := by omega
    have hnl : n ≤ l'.last := by omega
    have hkn : kst.last = n - 1 := by omega
    have hll2 : r.states[r.states.length - 1]? = some l' := by rw [← getLast?_getElem?]; exact ps.hl
    obtain ⟨k, c, _, hk, hc1, hc2⟩ := hc.container f hf n (by omega) (r.states.length - 1) l' hll2 (by omega)
    have hwc := hc.wf c (List.mem_of_getElem? hk)
    have hcu := ps.hit_unfin k c hk hc1 (by rw [hwc.last_eq]; exact hc2)
    have hkj : k ≤ j := by
      rcases Nat.lt_or_ge j k with h | h
      · have := hc.mono' j k x c h hx hk
        omega
      · exact h
    have := hfp k j c x hkj hk hx hxf
    rw [hcu] at this; cases this

/-- no finalized state has a height above the new latest height that it loses -/
theorem PlanSpec.no_finalized_above {r : Rollapp} {n keep : Nat} {kst st l : SInfo} (ps : PlanSpec r n keep kst st l)
    (hc : Chain r.states) (hfp : FinPrefix r.states) :
    ∀ (j : Nat) (x : SInfo), r.states[j]? = some x → x.finalized = true → x.last ≤ kst.last := by
  intro j x hx hxf
  rcases Nat.lt_trichotomy (j + 1) keep with h | h | h
  · have := ps.below hc j x h hx
    have := ps.h_lo
    omega
  · have hj : j = keep - 1 := by omega
    subst hj
    have hxs : x = st := by
      have h1 := ps.hst
      rw [hx] at h1; injection h1
    subst hxs
    rcases Nat.lt_or_ge kst.last x.last with h1 | h1
    · have := ps.trunc_unfin h1
      rw [hxf] at this; cases this
    · exact h1
  · have := ps.removed_unfin hc hfp j x (by omega) hx
    rw [hxf] at this; cases this

end DymVerif.Core.Fork
