import DymVerif.Lemmas.SponsBasic
/-
  Lemmas/SponsDist — the distribution invariant (`distribution = Σ over votes`) and its preservation
  by revoke, vote and (under the divisibility hypothesis) the staking hook.
-/
namespace DymVerif.Spons

/-! ### association lists -/

def KeysNodup {κ β : Type} : List (κ × β) → Prop
  | [] => True
  | x :: xs => (∀ y ∈ xs, y.1 ≠ x.1) ∧ KeysNodup xs

theorem mem_aerase {κ β : Type} [DecidableEq κ] {k : κ} {l : List (κ × β)} {y : κ × β} :
    y ∈ aerase k l ↔ y ∈ l ∧ y.1 ≠ k := by
  simp [aerase]

theorem KeysNodup_aerase {κ β : Type} [DecidableEq κ] (k : κ) {l : List (κ × β)} (h : KeysNodup l) :
    KeysNodup (aerase k l) := by
  induction l with
  | nil => trivial
  | cons x xs ih =>
    by_cases hx : x.1 = k
    · have : aerase k (x :: xs) = aerase k xs := by simp [aerase, hx]
      rw [this]; exact ih h.2
    · have : aerase k (x :: xs) = x :: aerase k xs := by simp [aerase, hx]
      rw [this]
      exact ⟨fun y hy => h.1 y (mem_aerase.mp hy).1, ih h.2⟩

theorem KeysNodup_aset {κ β : Type} [DecidableEq κ] (k : κ) (v : β) {l : List (κ × β)} (h : KeysNodup l) :
    KeysNodup (aset k v l) :=
  ⟨fun y hy => (mem_aerase.mp hy).2, KeysNodup_aerase k h⟩

theorem alookup_mem {κ β : Type} [DecidableEq κ] {k : κ} {l : List (κ × β)} {v : β}
    (h : alookup k l = some v) : (k, v) ∈ l := by
  induction l with
  | nil => simp [alookup] at h
  | cons x xs ih =>
    simp only [alookup] at h
    split at h
    · rename_i hx; cases h; simp [← hx]
    · simp [ih h]

theorem aerase_of_none {κ β : Type} [DecidableEq κ] {k : κ} {l : List (κ × β)}
    (h : alookup k l = none) : aerase k l = l := by
  induction l with
  | nil => rfl
  | cons x xs ih =>
    simp only [alookup] at h
    split at h
    · cases h
    · rename_i hx; simp only [aerase, List.filter_cons, hx, ne_eq, not_false_eq_true, decide_true, if_true]
      exact congrArg _ (ih h)

theorem alookup_aerase_self {κ β : Type} [DecidableEq κ] (k : κ) (l : List (κ × β)) :
    alookup k (aerase k l) = none := by
  induction l with
  | nil => rfl
  | cons x xs ih =>
    by_cases hx : x.1 = k
    · simpa [aerase, hx] using ih
    · simp only [aerase, List.filter_cons, hx, ne_eq, not_false_eq_true, decide_true, if_true, alookup, if_false]
      exact ih

theorem alookup_aset_self {κ β : Type} [DecidableEq κ] (k : κ) (v : β) (l : List (κ × β)) :
    alookup k (aset k v l) = some v := by simp [aset, alookup]

theorem alookup_aerase_ne {κ β : Type} [DecidableEq κ] {k k' : κ} (h : k' ≠ k) (l : List (κ × β)) :
    alookup k' (aerase k l) = alookup k' l := by
  induction l with
  | nil => rfl
  | cons x xs ih =>
    by_cases hx : x.1 = k
    · have e : aerase k (x :: xs) = aerase k xs := by simp [aerase, hx]
      have hne : ¬ x.1 = k' := fun e => h (e.symm.trans hx)
      rw [e, ih]; simp [alookup, hne]
    · have e : aerase k (x :: xs) = x :: aerase k xs := by simp [aerase, hx]
      rw [e]; simp only [alookup]; split
      · rfl
      · exact ih

theorem alookup_aset_ne {κ β : Type} [DecidableEq κ] {k k' : κ} (h : k' ≠ k) (v : β) (l : List (κ × β)) :
    alookup k' (aset k v l) = alookup k' l := by
  simp only [aset, alookup]
  rw [if_neg (fun e => h e.symm)]
  exact alookup_aerase_ne h l

/-! ### sums over votes -/

def vsum (f : Vote → Int) : List (Nat × Vote) → Int
  | [] => 0
  | x :: xs => f x.2 + vsum f xs

theorem vsum_aerase (f : Vote → Int) {a : Nat} {l : List (Nat × Vote)} {v : Vote}
    (hk : KeysNodup l) (h : alookup a l = some v) : vsum f l = f v + vsum f (aerase a l) := by
  induction l with
  | nil => simp [alookup] at h
  | cons x xs ih =>
    simp only [alookup] at h
    split at h
    · rename_i hx; cases h
      have hnone : aerase a xs = xs := by
        have : ∀ y ∈ xs, y.1 ≠ a := fun y hy => by rw [← hx]; exact hk.1 y hy
        simp only [aerase, List.filter_eq_self]
        intro y hy; simpa using this y hy
      have e : aerase a (x :: xs) = aerase a xs := by simp [aerase, hx]
      rw [e, hnone]; rfl
    · rename_i hx
      have : aerase a (x :: xs) = x :: aerase a xs := by simp [aerase, hx]
      rw [this]; simp only [vsum]; rw [ih hk.2 h]; omega

theorem vsum_nonneg (f : Vote → Int) {l : List (Nat × Vote)} (h : ∀ x ∈ l, 0 ≤ f x.2) : 0 ≤ vsum f l := by
  induction l with
  | nil => simp [vsum]
  | cons x xs ih =>
    have h1 := h x (by simp)
    have h2 := ih (fun y hy => h y (by simp [hy]))
    simp only [vsum]; omega

/-! ### powers -/

/-- the power vote `v` gives gauge `g` (= `gget v.toDist.gauges g`) -/
def Vote.pow (v : Vote) (g : Nat) : Int := wpow v.vp v.weights g

theorem gget_toDist (v : Vote) (g : Nat) : gget v.toDist.gauges g = v.pow g := gget_applyWeights _ _ _

theorem maxW_pos : 0 < maxW := by decide

theorem gpow_nonneg {vp w : Int} (h1 : 0 ≤ vp) (h2 : 0 ≤ w) : 0 ≤ gpow vp w :=
  Int.tdiv_nonneg (Int.mul_nonneg h1 h2) (Int.le_of_lt maxW_pos)

theorem wpow_nonneg {vp : Int} {ws : List GP} (h1 : 0 ≤ vp) (h2 : ∀ w ∈ ws, 0 < w.2) (g : Nat) : 0 ≤ wpow vp ws g := by
  induction ws with
  | nil => simp [wpow]
  | cons w ws ih =>
    have := ih (fun x hx => h2 x (by simp [hx]))
    have hw := gpow_nonneg h1 (Int.le_of_lt (h2 w (by simp)))
    simp only [wpow]; split <;> omega

structure VoteOK (v : Vote) : Prop where
  vp : 0 ≤ v.vp
  nodup : Nodup v.weights
  pos : ∀ w ∈ v.weights, 0 < w.2

theorem VoteOK.pow_nonneg {v : Vote} (h : VoteOK v) (g : Nat) : 0 ≤ v.pow g := wpow_nonneg h.vp h.pos g

/-- well-formedness carried along every history -/
structure WF (s : State) : Prop where
  minVP : 0 ≤ s.minVP
  sorted : Sorted s.dist.gauges
  keys : KeysNodup s.votes
  votes : ∀ x ∈ s.votes, VoteOK x.2

/-- **the distribution invariant**: gauge by gauge the distribution is the sum over the current votes
    of the vote's power split by its weights; the total is the sum of the votes' powers -/
structure DistInv (s : State) : Prop where
  gauges : ∀ g, gget s.dist.gauges g = vsum (fun v => v.pow g) s.votes
  vp : s.dist.vp = vsum (·.vp) s.votes

theorem validWeights_ok {ws : List GP} (h : validWeights ws = true) : Nodup ws ∧ ∀ w ∈ ws, 0 < w.2 := by
  simp only [validWeights, Bool.and_eq_true, List.all_eq_true, decide_eq_true_eq] at h
  exact ⟨Nodup_of_nodupIds h.1.2, fun w hw => (h.1.1 w hw).1⟩

/-! ### applyUpdate -/

theorem applyUpdate_dist (s : State) (u : Dist) : (s.applyUpdate u).dist = u.merge s.dist := rfl
theorem applyUpdate_votes (s : State) (u : Dist) : (s.applyUpdate u).votes = s.votes := rfl
theorem applyUpdate_minVP (s : State) (u : Dist) : (s.applyUpdate u).minVP = s.minVP := rfl

theorem merge_gget {u d : Dist} (hu : Sorted u.gauges) (hd : Sorted d.gauges) (g : Nat)
    (hs : 0 ≤ gget u.gauges g + gget d.gauges g) :
    gget (u.merge d).gauges g = gget u.gauges g + gget d.gauges g :=
  gget_mergeG _ _ _ g hu hd (Nat.le_refl _) hs

theorem merge_sorted {u d : Dist} (hu : Sorted u.gauges) (hd : Sorted d.gauges) : Sorted (u.merge d).gauges :=
  Sorted_mergeG _ _ _ hu hd (Nat.le_refl _)

/-! ### revoke -/

theorem revokeVote_votes (s : State) (a : Nat) (v : Vote) : (s.revokeVote a v).votes = aerase a s.votes := rfl
theorem revokeVote_dist (s : State) (a : Nat) (v : Vote) : (s.revokeVote a v).dist = v.toDist.negate.merge s.dist := rfl
theorem revokeVote_minVP (s : State) (a : Nat) (v : Vote) : (s.revokeVote a v).minVP = s.minVP := rfl

theorem toDist_sorted {v : Vote} (h : VoteOK v) : Sorted v.toDist.gauges := Sorted_applyWeights h.nodup

theorem revokeVote_inv {s : State} {a : Nat} {v : Vote} (wf : WF s) (inv : DistInv s)
    (hv : alookup a s.votes = some v) : WF (s.revokeVote a v) ∧ DistInv (s.revokeVote a v) := by
  have hvok : VoteOK v := wf.votes _ (alookup_mem hv)
  have hneg : Sorted v.toDist.negate.gauges := Sorted_negate (toDist_sorted hvok)
  have hothers : ∀ g, 0 ≤ vsum (fun v => v.pow g) (aerase a s.votes) := fun g =>
    vsum_nonneg _ (fun x hx => (wf.votes x (mem_aerase.mp hx).1).pow_nonneg g)
  have hsum : ∀ g, gget v.toDist.negate.gauges g + gget s.dist.gauges g
      = vsum (fun v => v.pow g) (aerase a s.votes) := by
    intro g
    have h1 : gget v.toDist.negate.gauges g = - v.pow g := by
      show gget (v.toDist.gauges.map fun x => (x.1, -x.2)) g = _
      rw [gget_negate, gget_toDist]
    rw [h1, inv.gauges g, vsum_aerase _ wf.keys hv]; omega
  refine ⟨⟨wf.minVP, ?_, KeysNodup_aerase a wf.keys, fun x hx => wf.votes x (mem_aerase.mp hx).1⟩, ⟨?_, ?_⟩⟩
  · rw [revokeVote_dist]; exact merge_sorted hneg wf.sorted
  · intro g
    rw [revokeVote_dist, revokeVote_votes, merge_gget hneg wf.sorted g (by rw [hsum]; exact hothers g), hsum]
  · rw [revokeVote_dist, revokeVote_votes]
    show -v.vp + s.dist.vp = _
    rw [inv.vp, vsum_aerase _ wf.keys hv]; omega

/-! ### adding / replacing a vote whose update is merged into the distribution -/

/-- merging update `u` (all powers such that the new sums are non-negative) and storing vote `nv`
    for `a` (who has no vote in `s`) keeps the invariant if `u` is exactly `nv`'s contribution -/
theorem add_vote_inv {s : State} {a : Nat} {u : Dist} {nv : Vote} (wf : WF s) (inv : DistInv s)
    (hnone : alookup a s.votes = none) (hok : VoteOK nv) (hus : Sorted u.gauges)
    (hug : ∀ g, gget u.gauges g = nv.pow g) (huvp : u.vp = nv.vp)
    (s' : State) (hd : s'.dist = u.merge s.dist) (hvs : s'.votes = aset a nv s.votes) (hm : s'.minVP = s.minVP) :
    WF s' ∧ DistInv s' := by
  have herase : aerase a s.votes = s.votes := aerase_of_none hnone
  have hnn : ∀ g, 0 ≤ gget u.gauges g + gget s.dist.gauges g := by
    intro g; rw [hug, inv.gauges]
    have := hok.pow_nonneg g
    have := vsum_nonneg (fun v => v.pow g) (fun x hx => (wf.votes x hx).pow_nonneg g)
    omega
  refine ⟨⟨hm ▸ wf.minVP, ?_, ?_, ?_⟩, ⟨?_, ?_⟩⟩
  · rw [hd]; exact merge_sorted hus wf.sorted
  · rw [hvs]; exact KeysNodup_aset a nv wf.keys
  · rw [hvs]; intro x hx
    rcases List.mem_cons.mp hx with rfl | hx
    · exact hok
    · exact wf.votes x (mem_aerase.mp hx).1
  · intro g
    rw [hd, hvs, merge_gget hus wf.sorted g (hnn g), hug, inv.gauges]
    simp only [aset, vsum, herase]
  · rw [hd, hvs]
    show u.vp + s.dist.vp = _
    rw [huvp, inv.vp]; simp only [aset, vsum, herase]

/-! ### vote -/

theorem castVote_inv {s1 s' : State} {a : Nat} {ws : List GP} (wf : WF s1) (inv : DistInv s1)
    (hnone : alookup a s1.votes = none) (hnd : Nodup ws) (hpos : ∀ w ∈ ws, 0 < w.2)
    (h : s1.castVote a ws = .ok s') : WF s' ∧ DistInv s' := by
  unfold State.castVote at h
  simp only at h
  split at h
  · cases h
  · rename_i hlow
    cases h
    have hvp : 0 ≤ sumP (s1.breakdown a) := by have := wf.minVP; omega
    exact add_vote_inv (nv := ⟨sumP (s1.breakdown a), ws⟩) wf inv hnone ⟨hvp, hnd, hpos⟩
      (Sorted_applyWeights hnd) (fun g => gget_applyWeights _ _ _) rfl _ rfl rfl rfl

theorem vote_inv {s s' : State} {a : Nat} {ws : List GP} (wf : WF s) (inv : DistInv s)
    (h : s.vote a ws = .ok s') : WF s' ∧ DistInv s' := by
  unfold State.vote at h
  split at h
  · cases h
  rename_i hvw
  have hvw' : validWeights ws = true := by simpa using hvw
  have ⟨hnd, hpos⟩ := validWeights_ok hvw'
  split at h
  · cases h
  split at h
  · rename_i v hv
    have := revokeVote_inv wf inv hv
    exact castVote_inv this.1 this.2 (by rw [revokeVote_votes]; exact alookup_aerase_self _ _) hnd hpos h
  · rename_i hv
    exact castVote_inv wf inv hv hnd hpos h

theorem revoke_inv {s s' : State} {a : Nat} (wf : WF s) (inv : DistInv s)
    (h : s.revoke a = .ok s') : WF s' ∧ DistInv s' := by
  unfold State.revoke at h
  split at h
  · cases h
  · rename_i v hv; cases h; exact revokeVote_inv wf inv hv

/-! ### staking hook -/

theorem aerase_idem {κ β : Type} [DecidableEq κ] (k : κ) (l : List (κ × β)) : aerase k (aerase k l) = aerase k l :=
  aerase_of_none (alookup_aerase_self k l)

/-- the hook keeps the invariant for EVERY old/new power: it is a revoke (or: subtract the old
    contribution) followed by adding the contribution of the new power -/
theorem processHook_inv {s : State} {a val : Nat} {v : Vote} {old new : Int} (wf : WF s) (inv : DistInv s)
    (hv : alookup a s.votes = some v) :
    WF (s.processHook a val v old new) ∧ DistInv (s.processHook a val v old new) := by
  unfold State.processHook
  simp only
  split
  · exact revokeVote_inv wf inv hv
  · rename_i hge
    have hvok : VoteOK v := wf.votes _ (alookup_mem hv)
    have hnew : 0 ≤ v.vp + (new - old) := by have := wf.minVP; omega
    have r := revokeVote_inv wf inv hv
    have hnv : VoteOK ⟨v.vp + (new - old), v.weights⟩ := ⟨hnew, hvok.nodup, hvok.pos⟩
    exact add_vote_inv (s := s.revokeVote a v) (nv := ⟨v.vp + (new - old), v.weights⟩) r.1 r.2
      (by rw [revokeVote_votes]; exact alookup_aerase_self _ _) hnv (toDist_sorted hnv)
      (fun g => gget_toDist _ g) rfl _ rfl
      (by show aset a _ s.votes = aset a _ (aerase a s.votes); simp only [aset, aerase_idem]) rfl

end DymVerif.Spons
