import DymVerif.Lemmas.LockupChain
import DymVerif.Model.LockupRefs
/-
  Lemmas/LockupRefs — the reference store of x/lockup (Model/LockupRefs): what the writers
  `addLockRefs` / `deleteLockRefs` do to a sorted store, the image `refsOf` of the lock table under
  `setLock` / `delLock` / append, and the consistency invariant `RefsOk` kept by every composite
  reference move of the keeper (create, begin-unlock, split, extend, remove, force, genesis import).
-/
namespace DymVerif.Lockup
open DymVerif.Genesis

theorem soRef : StrictOrder ltRef :=
  soPair soNat (soPair soNat (soPair soNat (soPair soNat (soPair soNat soNat))))

/-- the lock id a reference ends with -/
def rid (r : RefK) : Nat := r.2.2.2.2.2

@[simp] theorem rid_mkRef (q : Nat) (k : RefKey) (id : Nat) : rid (mkRef q k id) = id := rfl

theorem mkRef_inj {q id : Nat} {k k' : RefKey} (h : mkRef q k id = mkRef q k' id) : k = k' := by
  obtain ⟨a, b, c, d⟩ := k
  obtain ⟨a', b', c', d'⟩ := k'
  simp only [mkRef, Prod.mk.injEq] at h
  obtain ⟨_, h1, h2, h3, h4, _⟩ := h
  simp [h1, h2, h3, h4]

/-- **the reference store is exactly the image of the lock table** -/
structure RefsOk (locks : List Lock) (refs : Refs) : Prop where
  sorted : Sorted ltRef refs
  mem : ∀ e, e ∈ refs ↔ e.1 ∈ refsOf locks

/-! ### the writers on a sorted store -/

theorem foldl_kvDel_spec (f : RefKey → RefK) : ∀ (keys : List RefKey) (refs : Refs), Sorted ltRef refs →
    Sorted ltRef (keys.foldl (fun r k => kvDel (f k) r) refs) ∧
    ∀ e, e ∈ keys.foldl (fun r k => kvDel (f k) r) refs ↔ e ∈ refs ∧ ∀ k ∈ keys, e.1 ≠ f k
  | [], refs, hs => ⟨hs, fun e => by simp⟩
  | k :: ks, refs, hs => by
    have ih := foldl_kvDel_spec f ks (kvDel (f k) refs) (sorted_kvDel _ hs)
    refine ⟨ih.1, fun e => ?_⟩
    rw [List.foldl_cons, ih.2 e, mem_kvDel]
    constructor
    · rintro ⟨⟨h1, h2⟩, h3⟩
      refine ⟨h1, fun k' hk' => ?_⟩
      rcases List.mem_cons.1 hk' with rfl | hk'
      · exact h2
      · exact h3 k' hk'
    · rintro ⟨h1, h2⟩
      exact ⟨⟨h1, h2 k (List.mem_cons_self)⟩, fun k' hk' => h2 k' (List.mem_cons_of_mem _ hk')⟩

theorem deleteLockRefs_spec {refs : Refs} (hs : Sorted ltRef refs) (q : Nat) (l : Lock) :
    Sorted ltRef (deleteLockRefs refs q l) ∧
    ∀ e, e ∈ deleteLockRefs refs q l ↔ e ∈ refs ∧ ∀ k ∈ lockRefKeys l, e.1 ≠ mkRef q k l.id :=
  foldl_kvDel_spec (fun k => mkRef q k l.id) (lockRefKeys l) refs hs

theorem addRefKeys_spec (q id : Nat) : ∀ (keys : List RefKey) (refs : Refs), Sorted ltRef refs → keys.Nodup →
    (∀ e ∈ refs, rid e.1 ≠ id) →
    ∃ r', addRefKeys q id keys refs = some r' ∧ Sorted ltRef r' ∧
      ∀ e, e ∈ r' ↔ e ∈ refs ∨ ∃ k ∈ keys, e.1 = mkRef q k id
  | [], refs, hs, _, _ => ⟨refs, rfl, hs, fun e => by simp⟩
  | k :: ks, refs, hs, hnd, hfr => by
    have hno : kvHas (mkRef q k id) refs = false := by
      cases hh : kvHas (mkRef q k id) refs with
      | false => rfl
      | true =>
        obtain ⟨e, he, hk⟩ := (kvHas_iff _ _).1 hh
        exact absurd (by rw [hk]; rfl) (hfr e he)
    rw [List.nodup_cons] at hnd
    -- after the first insertion the remaining keys are still absent: they differ from k
    have hs1 := sorted_kvSet soRef (mkRef q k id) () hs
    have hmem1 := fun e => mem_setInsU soRef (mkRef q k id) hs e
    -- generalised statement for the tail: allow entries with this id as long as their key is not in ks
    have key : ∀ (ks : List RefKey) (refs : Refs), Sorted ltRef refs → ks.Nodup →
        (∀ e ∈ refs, ∀ k' ∈ ks, e.1 ≠ mkRef q k' id) →
        ∃ r', addRefKeys q id ks refs = some r' ∧ Sorted ltRef r' ∧
          ∀ e, e ∈ r' ↔ e ∈ refs ∨ ∃ k ∈ ks, e.1 = mkRef q k id := by
      intro ks
      induction ks with
      | nil => intro refs hs _ _; exact ⟨refs, rfl, hs, fun e => by simp⟩
      | cons k ks ih =>
        intro refs hs hnd hfr
        rw [List.nodup_cons] at hnd
        have hno : kvHas (mkRef q k id) refs = false := by
          cases hh : kvHas (mkRef q k id) refs with
          | false => rfl
          | true =>
            obtain ⟨e, he, hk⟩ := (kvHas_iff _ _).1 hh
            exact absurd hk (hfr e he k List.mem_cons_self)
        have hs1 := sorted_kvSet soRef (mkRef q k id) () hs
        obtain ⟨r', hr', hsr, hm⟩ := ih (kvSet ltRef (mkRef q k id) () refs) hs1 hnd.2 (by
          intro e he k' hk'
          rcases (mem_setInsU soRef (mkRef q k id) hs e).1 he with h | h
          · rw [h]; intro hc; exact hnd.1 (mkRef_inj hc ▸ hk')
          · exact hfr e h k' (List.mem_cons_of_mem _ hk'))
        refine ⟨r', ?_, hsr, fun e => ?_⟩
        · simp only [addRefKeys, addLockRefByKey, hno]; exact hr'
        · rw [hm e, mem_setInsU soRef _ hs]
          constructor
          · rintro ((h | h) | ⟨k', hk', h⟩)
            · exact Or.inr ⟨k, List.mem_cons_self, h⟩
            · exact Or.inl h
            · exact Or.inr ⟨k', List.mem_cons_of_mem _ hk', h⟩
          · rintro (h | ⟨k', hk', h⟩)
            · exact Or.inl (Or.inr h)
            · rcases List.mem_cons.1 hk' with rfl | hk''
              · exact Or.inl (Or.inl h)
              · exact Or.inr ⟨k', hk'', h⟩
    exact key (k :: ks) refs hs (List.nodup_cons.2 hnd) (by
      intro e he k' _ hc
      exact hfr e he (by rw [hc]; rfl))

theorem refKeysOf_nodup (l : Lock) : (refKeysOf l).Nodup := by
  unfold refKeysOf lockRefKeys durationLockRefKeys
  split <;> simp [fDur, fAccDur, fDenomDur, fAccDenomDur, fTime, fAccTime, fDenomTime, fAccDenomTime]

theorem mem_lockRefs {l : Lock} {r : RefK} :
    r ∈ lockRefs l ↔ ∃ k ∈ refKeysOf l, r = mkRef (queueOf l.isUnlocking) k l.id := by
  simp only [lockRefs, List.mem_map]
  constructor
  · rintro ⟨k, hk, rfl⟩; exact ⟨k, hk, rfl⟩
  · rintro ⟨k, hk, rfl⟩; exact ⟨k, hk, rfl⟩

theorem rid_of_mem_lockRefs {l : Lock} {r : RefK} (h : r ∈ lockRefs l) : rid r = l.id := by
  obtain ⟨k, _, rfl⟩ := mem_lockRefs.1 h; rfl

/-- `addLockRefs` into a store that holds no reference of this id: all the lock's references added -/
theorem addLockRefs_spec {refs : Refs} (hs : Sorted ltRef refs) (n : Lock) (hfr : ∀ e ∈ refs, rid e.1 ≠ n.id) :
    ∃ r', addLockRefs refs n = some r' ∧ Sorted ltRef r' ∧ ∀ e, e ∈ r' ↔ e ∈ refs ∨ e.1 ∈ lockRefs n := by
  obtain ⟨r', h1, h2, h3⟩ := addRefKeys_spec (queueOf n.isUnlocking) n.id (refKeysOf n) refs hs (refKeysOf_nodup n) hfr
  refine ⟨r', h1, h2, fun e => ?_⟩
  rw [h3 e, mem_lockRefs]

/-- the fields the references of a lock depend on -/
def RefSame (a b : Lock) : Prop :=
  a.id = b.id ∧ a.owner = b.owner ∧ a.duration = b.duration ∧ a.endTime = b.endTime ∧ a.denom = b.denom

theorem lockRefs_same {a b : Lock} (h : RefSame a b) : lockRefs a = lockRefs b := by
  obtain ⟨h1, h2, h3, h4, h5⟩ := h
  simp only [lockRefs, refKeysOf, lockRefKeys, durationLockRefKeys, Lock.isUnlocking, h1, h2, h3, h4, h5]
  try rfl

/-- the references a stored lock has are among the eight keys `deleteLockRefs` removes from its queue -/
theorem lockRefs_sub_deleted {l : Lock} {r : RefK} (h : r ∈ lockRefs l) :
    ∃ k ∈ lockRefKeys l, r = mkRef (queueOf l.isUnlocking) k l.id := by
  obtain ⟨k, hk, rfl⟩ := mem_lockRefs.1 h
  refine ⟨k, ?_, rfl⟩
  unfold refKeysOf at hk
  split at hk
  · exact hk
  · unfold lockRefKeys; exact List.mem_append_left _ hk

/-! ### the image of the lock table -/

theorem mem_refsOf {ls : List Lock} {r : RefK} : r ∈ refsOf ls ↔ ∃ l ∈ ls, r ∈ lockRefs l := by
  simp [refsOf, List.mem_flatMap]

theorem mem_refsOf_append {ls : List Lock} {n : Lock} {r : RefK} :
    r ∈ refsOf (ls ++ [n]) ↔ r ∈ refsOf ls ∨ r ∈ lockRefs n := by
  simp [refsOf, List.flatMap_append]

theorem mem_refsOf_delLock {ls : List Lock} {id : Nat} {r : RefK} :
    r ∈ refsOf (delLock ls id) ↔ r ∈ refsOf ls ∧ rid r ≠ id := by
  simp only [mem_refsOf]
  constructor
  · rintro ⟨l, hl, hr⟩
    obtain ⟨hl1, hl2⟩ := mem_delLock.1 hl
    exact ⟨⟨l, hl1, hr⟩, by rw [rid_of_mem_lockRefs hr]; exact hl2⟩
  · rintro ⟨⟨l, hl, hr⟩, hne⟩
    exact ⟨l, mem_delLock.2 ⟨hl, by rw [← rid_of_mem_lockRefs hr]; exact hne⟩, hr⟩

theorem mem_refsOf_setLock {ls : List Lock} {n : Lock} (hex : ∃ o ∈ ls, o.id = n.id) {r : RefK} :
    r ∈ refsOf (setLock ls n) ↔ (r ∈ refsOf ls ∧ rid r ≠ n.id) ∨ r ∈ lockRefs n := by
  simp only [mem_refsOf]
  constructor
  · rintro ⟨x, hx, hr⟩
    rcases mem_setLock hx with ⟨rfl, _⟩ | ⟨hx', hne⟩
    · exact Or.inr hr
    · exact Or.inl ⟨⟨x, hx', hr⟩, by rw [rid_of_mem_lockRefs hr]; exact hne⟩
  · rintro (⟨⟨x, hx, hr⟩, hne⟩ | hr)
    · exact ⟨x, mem_setLock_other hx (by rw [← rid_of_mem_lockRefs hr]; exact hne), hr⟩
    · obtain ⟨o, ho, hid⟩ := hex
      exact ⟨n, mem_setLock_new ho hid, hr⟩

/-! ### `RefsOk` under the keeper's composite reference moves -/

theorem refsOk_nil : RefsOk [] [] := ⟨sorted_nil, fun e => by simp [refsOf]⟩

/-- every reference in a consistent store ends with the id of a stored lock -/
theorem RefsOk.rid_mem {locks : List Lock} {refs : Refs} (h : RefsOk locks refs) {e : RefK × Unit} (he : e ∈ refs) :
    ∃ l ∈ locks, l.id = rid e.1 ∧ e.1 ∈ lockRefs l := by
  obtain ⟨l, hl, hr⟩ := mem_refsOf.1 ((h.mem e).1 he)
  exact ⟨l, hl, (rid_of_mem_lockRefs hr).symm, hr⟩

/-- a lock rewritten without touching the fields its references depend on (top-up, split rest) -/
theorem refsOk_setLock_same {locks : List Lock} {refs : Refs} (h : RefsOk locks refs)
    (hn : (locks.map (·.id)).Nodup) {o n : Lock} (ho : o ∈ locks) (hsame : RefSame o n) :
    RefsOk (setLock locks n) refs := by
  refine ⟨h.sorted, fun e => ?_⟩
  rw [h.mem e, mem_refsOf_setLock ⟨o, ho, hsame.1⟩, ← lockRefs_same hsame]
  constructor
  · intro he
    by_cases hid : rid e.1 = n.id
    · right
      obtain ⟨l, hl, hr⟩ := mem_refsOf.1 he
      have : l = o := eq_of_id_eq hn hl ho (by rw [← rid_of_mem_lockRefs hr, hid, hsame.1])
      rw [← this]; exact hr
    · exact Or.inl ⟨he, hid⟩
  · rintro (⟨he, _⟩ | he)
    · exact he
    · exact mem_refsOf.2 ⟨o, ho, he⟩

/-- CreateLock / the split lock of beginUnlock: a lock with a fresh id, its references added (after
    a `deleteLockRefs` of the same id, which finds nothing) -/
theorem refsOk_add_fresh {locks : List Lock} {refs : Refs} (h : RefsOk locks refs) {n n' d : Lock} (q : Nat)
    (hfresh : ∀ l ∈ locks, l.id ≠ n.id) (hd : d.id = n.id) (hsame : RefSame n n') :
    ∃ r', addLockRefs (deleteLockRefs refs q d) n = some r' ∧ RefsOk (locks ++ [n']) r' := by
  obtain ⟨hs1, hm1⟩ := deleteLockRefs_spec h.sorted q d
  have hfr : ∀ e ∈ deleteLockRefs refs q d, rid e.1 ≠ n.id := by
    intro e he
    obtain ⟨l, hl, hid, _⟩ := h.rid_mem ((hm1 e).1 he).1
    rw [← hid]; exact hfresh l hl
  obtain ⟨r', hr', hs2, hm2⟩ := addLockRefs_spec hs1 n hfr
  refine ⟨r', hr', hs2, fun e => ?_⟩
  rw [hm2 e, hm1 e, mem_refsOf_append, ← lockRefs_same hsame, h.mem e]
  constructor
  · rintro (⟨h1, _⟩ | h1)
    · exact Or.inl h1
    · exact Or.inr h1
  · rintro (h1 | h1)
    · refine Or.inl ⟨h1, fun k _ hc => ?_⟩
      obtain ⟨l, hl, hr⟩ := mem_refsOf.1 h1
      have : rid e.1 = d.id := by rw [hc]; rfl
      rw [rid_of_mem_lockRefs hr, hd] at this
      exact hfresh l hl this
    · exact Or.inr h1

theorem refsOk_create {locks : List Lock} {refs : Refs} (h : RefsOk locks refs) {n : Lock}
    (hfresh : ∀ l ∈ locks, l.id ≠ n.id) :
    ∃ r', addLockRefs refs n = some r' ∧ RefsOk (locks ++ [n]) r' := by
  have hfr : ∀ e ∈ refs, rid e.1 ≠ n.id := by
    intro e he
    obtain ⟨l, hl, hid, _⟩ := h.rid_mem he
    rw [← hid]; exact hfresh l hl
  obtain ⟨r', hr', hs2, hm2⟩ := addLockRefs_spec h.sorted n hfr
  refine ⟨r', hr', hs2, fun e => ?_⟩
  rw [hm2 e, mem_refsOf_append, h.mem e]

/-- what is left after `deleteLockRefs(queue of l, l)` of a stored lock: the references of the others -/
theorem mem_delete_stored {locks : List Lock} {refs : Refs} (h : RefsOk locks refs)
    (hn : (locks.map (·.id)).Nodup) {l : Lock} (hl : l ∈ locks) (e : RefK × Unit) :
    e ∈ deleteLockRefs refs (queueOf l.isUnlocking) l ↔ e.1 ∈ refsOf locks ∧ rid e.1 ≠ l.id := by
  rw [(deleteLockRefs_spec h.sorted _ l).2 e, h.mem e]
  constructor
  · rintro ⟨h1, h2⟩
    refine ⟨h1, fun hid => ?_⟩
    obtain ⟨x, hx, hr⟩ := mem_refsOf.1 h1
    have : x = l := eq_of_id_eq hn hx hl (by rw [← rid_of_mem_lockRefs hr, hid])
    subst this
    obtain ⟨k, hk, he⟩ := lockRefs_sub_deleted hr
    exact h2 k hk he
  · rintro ⟨h1, h2⟩
    exact ⟨h1, fun k _ hc => h2 (by rw [hc]; rfl)⟩

/-- beginUnlock / ExtendLockup of a stored lock: its references deleted from its queue, the
    references of the rewritten lock added -/
theorem refsOk_move {locks : List Lock} {refs : Refs} (h : RefsOk locks refs)
    (hn : (locks.map (·.id)).Nodup) {l n n' : Lock} (hl : l ∈ locks) (hid : n.id = l.id) (hsame : RefSame n n') :
    ∃ r', addLockRefs (deleteLockRefs refs (queueOf l.isUnlocking) l) n = some r' ∧
      RefsOk (setLock locks n') r' := by
  obtain ⟨hs1, _⟩ := deleteLockRefs_spec h.sorted (queueOf l.isUnlocking) l
  have hm1 := mem_delete_stored h hn hl
  have hfr : ∀ e ∈ deleteLockRefs refs (queueOf l.isUnlocking) l, rid e.1 ≠ n.id := by
    intro e he; rw [hid]; exact ((hm1 e).1 he).2
  obtain ⟨r', hr', hs2, hm2⟩ := addLockRefs_spec hs1 n hfr
  refine ⟨r', hr', hs2, fun e => ?_⟩
  rw [hm2 e, hm1 e, mem_refsOf_setLock ⟨l, hl, by rw [← hsame.1, hid]⟩, ← lockRefs_same hsame, ← hsame.1, hid]

/-- unlockMaturedLockInternalLogic of a stored lock: lock deleted, its references deleted -/
theorem refsOk_remove {locks : List Lock} {refs : Refs} (h : RefsOk locks refs)
    (hn : (locks.map (·.id)).Nodup) {l : Lock} (hl : l ∈ locks) :
    RefsOk (delLock locks l.id) (deleteLockRefs refs (queueOf l.isUnlocking) l) := by
  refine ⟨(deleteLockRefs_spec h.sorted _ l).1, fun e => ?_⟩
  rw [mem_delete_stored h hn hl e, mem_refsOf_delLock]

/-- deleting the references of an id no stored lock has changes nothing -/
theorem refsOk_delete_absent {locks : List Lock} {refs : Refs} (h : RefsOk locks refs) (q : Nat) {d : Lock}
    (hfresh : ∀ l ∈ locks, l.id ≠ d.id) : RefsOk locks (deleteLockRefs refs q d) := by
  refine ⟨(deleteLockRefs_spec h.sorted q d).1, fun e => ?_⟩
  rw [(deleteLockRefs_spec h.sorted q d).2 e, h.mem e]
  constructor
  · exact fun h1 => h1.1
  · intro h1
    refine ⟨h1, fun k _ hc => ?_⟩
    obtain ⟨l, hl, hr⟩ := mem_refsOf.1 h1
    have : rid e.1 = d.id := by rw [hc]; rfl
    rw [rid_of_mem_lockRefs hr] at this
    exact hfresh l hl this

end DymVerif.Lockup
