/-
  Lemmas/LCTx — transactions (`Model/LCTx.lean`) versus single ops (`Model/LC.lean`): a transaction of one
  message is exactly `LC.step`; a history of transactions of at most one message each is a run of ops.
-/
import DymVerif.Model.LCTx
import DymVerif.Lemmas.LCGood
namespace DymVerif.LC
open DymVerif.Core (Addr NextP)

theorem handleUpdate_clients (s : St) (c : Nat) (hd : Hdr) : (handleUpdate s c hd).1.clients = s.clients := by
  unfold handleUpdate
  simp only
  repeat' split
  all_goals rfl

theorem finishUpdate_fail_state (s s3 : St) (m : Core.UpdMsg) (ds : List (Nat × Option Nat)) (h : (finishUpdate s s3 m ds).2 ≠ .ok) :
    (finishUpdate s s3 m ds).1 = s := by
  unfold finishUpdate at h ⊢
  repeat' split
  all_goals first
    | rfl
    | (exfalso; simp_all)

theorem coreOp_fail_state (s : St) (o : Core.Op) (ds : List (Nat × Option Nat)) (h : (coreOp s o ds).2 ≠ .ok) :
    (coreOp s o ds).1 = s := by
  unfold coreOp at h ⊢
  cases hstep : Core.step s.core o with
  | mk core1 oe =>
    cases oe with
    | some e => rfl
    | none =>
      simp only [hstep] at h ⊢
      split
      · rfl
      · rename_i hb
        try simp only [hb, if_false] at h
        cases hw : withDescs { s with core := core1 } o ds with
        | none => rfl
        | some s2 =>
          simp only [hw] at h ⊢
          cases hf : applyForks s2 (newForks s.core core1) with
          | mk s3 oe =>
            cases oe with
            | some e => rfl
            | none =>
              simp only [hf] at h ⊢
              cases o with
              | update m => exact finishUpdate_fail_state s s3 m ds h
              | _ => simp at h

/-- a checked message is an ibc core message: a transaction of one message is never refused as mixed -/
theorem isChecked_isIbcCore (m : Op) (h : isChecked m = true) : isIbcCore m = true := by
  cases m with
  | updateClient c w hd ibc => cases w <;> simp_all [isChecked, isIbcCore]
  | misbehaviour c k ibc => cases k <;> simp_all [isChecked, isIbcCore]
  | chanAck ch w ibc => cases w <;> simp_all [isChecked, isIbcCore]
  | _ => simp_all [isChecked]

theorem mixed_single (m : Op) : mixedRefusal [m] = false := by
  unfold mixedRefusal
  by_cases h : isChecked m = true
  · simp [h, isChecked_isIbcCore m h]
  · simp [h]

theorem txStep_core (s : St) (o : Core.Op) (ds : List (Nat × Option Nat)) : txStep s [.core o ds] = step s (.core o ds) := by
  have h := coreOp_fail_state s o ds
  simp only [txStep, List.findSome?, nestedRefusal, signerRefusal, mixed_single, Bool.false_eq_true, if_false, anteAll, anteMsg, execAll, execMsg, step]
  generalize coreOp s o ds = x at h ⊢
  obtain ⟨a, r⟩ := x
  cases r <;> simp_all

theorem txStep_createClient (s : St) (chain : Nat) (p : CParams) (ht : Nat) (cs : Cons) :
    txStep s [.createClient chain p ht cs] = step s (.createClient chain p ht cs) := by
  simp [txStep, List.findSome?, nestedRefusal, signerRefusal, mixed_single, Bool.false_eq_true, if_false, anteAll, anteMsg, execAll, execMsg, step, createClient]

theorem txStep_setCanonical (s : St) (c : Nat) : txStep s [.setCanonical c] = step s (.setCanonical c) := by
  simp only [txStep, List.findSome?, nestedRefusal, signerRefusal, mixed_single, Bool.false_eq_true, if_false, anteAll, anteMsg, execAll, execMsg, step]
  generalize setCanonical s c = x
  obtain ⟨a, r⟩ := x
  cases r <;> simp

theorem txStep_updateClient (s : St) (c : Nat) (w : Wrap) (hd : Hdr) (ibc : Bool) :
    txStep s [.updateClient c w hd ibc] = step s (.updateClient c w hd ibc) := by
  cases w with
  | nested => simp [txStep, List.findSome?, nestedRefusal, step, updateClient]
  | storedProposal => simp [txStep, List.findSome?, nestedRefusal, step, updateClient]
  | wrapped => simp [txStep, List.findSome?, nestedRefusal, signerRefusal, step, updateClient]
  | nestedWrapped => simp [txStep, List.findSome?, nestedRefusal, signerRefusal, mixed_single, Bool.false_eq_true, if_false, anteAll, anteMsg, execAll, execMsg, step, updateClient]
  | top =>
    have hc := handleUpdate_clients s c hd
    simp only [txStep, List.findSome?, nestedRefusal, signerRefusal, mixed_single, Bool.false_eq_true, if_false, anteAll, anteMsg, execAll, execMsg, step, updateClient]
    generalize handleUpdate s c hd = x at hc ⊢
    obtain ⟨s1, oe⟩ := x
    cases oe with
    | some e => simp
    | none =>
      have hg : getClient s1 c = getClient s c := getClient_congr hc c
      simp only [hg]
      cases getClient s c with
      | none => simp
      | some cl => by_cases hb : (ibc && !cl.frozen) = true <;> simp [hb]

theorem txStep_misbehaviour (s : St) (c : Nat) (k : MKind) (ibc : Bool) :
    txStep s [.misbehaviour c k ibc] = step s (.misbehaviour c k ibc) := by
  simp only [txStep, List.findSome?, nestedRefusal, signerRefusal, mixed_single, Bool.false_eq_true, if_false, anteAll, anteMsg, execAll, execMsg, step, misbehaviour]
  cases hg : getClient s c with
  | none => simp [hg]
  | some cl =>
    cases k <;> cases ibc <;> by_cases hcan : (lookup s.c2r c).isSome = true <;> simp [hg, hcan]

theorem txStep_chanInit (s : St) (c : Nat) : txStep s [.chanInit c] = step s (.chanInit c) := by
  simp only [txStep, List.findSome?, nestedRefusal, signerRefusal, mixed_single, Bool.false_eq_true, if_false, anteAll, anteMsg, execAll, execMsg, step, chanInit]
  repeat' split
  all_goals simp_all

theorem txStep_chanAck (s : St) (ch : Nat) (w : ChanRoute) (ibc : Bool) : txStep s [.chanAck ch w ibc] = step s (.chanAck ch w ibc) := by
  cases w with
  | ack =>
    simp only [txStep, List.findSome?, nestedRefusal, signerRefusal, mixed_single, Bool.false_eq_true, if_false, anteAll, anteMsg, execAll, execMsg, step, chanAck]
    cases hf : s.chans.find? (·.id == ch) with
    | none => simp
    | some cc =>
      cases hl : lookup s.c2r cc.client with
      | none => cases ibc <;> simp [hf, hl]
      | some r =>
        by_cases hx : (lookup s.chanOf r).isSome = true
        · simp [hx, hl]
        · cases ibc <;> simp [hx, hf, hl]
  | nestedAck =>
    simp only [txStep, List.findSome?, nestedRefusal, signerRefusal, mixed_single, Bool.false_eq_true, if_false, anteAll, anteMsg, execAll, execMsg, step, chanAck]
    cases hf : s.chans.find? (·.id == ch) with
    | none => simp
    | some cc => cases ibc <;> simp
  | confirm =>
    simp only [txStep, List.findSome?, nestedRefusal, signerRefusal, mixed_single, Bool.false_eq_true, if_false, anteAll, anteMsg, execAll, execMsg, step, chanAck]
    cases hf : s.chans.find? (·.id == ch) with
    | none => simp
    | some cc => cases ibc <;> simp

/-- **txStep_single** — a transaction of one message is the stand-alone op: the split of `updateClient`,
    `misbehaviour`, `chanAck` into an ante part and a message part composes back to `LC.step` -/
theorem txStep_single (s : St) (op : Op) : txStep s [op] = step s op := by
  cases op with
  | core o ds => exact txStep_core s o ds
  | createClient chain p ht cs => exact txStep_createClient s chain p ht cs
  | setCanonical c => exact txStep_setCanonical s c
  | updateClient c w hd ibc => exact txStep_updateClient s c w hd ibc
  | misbehaviour c k ibc => exact txStep_misbehaviour s c k ibc
  | chanInit c => exact txStep_chanInit s c
  | chanAck ch w ibc => exact txStep_chanAck s ch w ibc

/-- the empty transaction changes nothing -/
theorem txStep_nil (s : St) : txStep s [] = (s, .ok) := by
  simp [txStep, anteAll, execAll, mixedRefusal]

/-- every transaction carries at most one message -/
def SingleMsg (txs : List (List Op)) : Prop := ∀ t ∈ txs, t.length ≤ 1

/-- a history of transactions of at most one message each is the run of its messages -/
theorem runTx_single : ∀ (txs : List (List Op)) (s : St), SingleMsg txs → runTx s txs = run s txs.flatten
  | [], _, _ => rfl
  | t :: ts, s, h => by
    have ht : t.length ≤ 1 := h t (by simp)
    have hts : SingleMsg ts := fun x hx => h x (by simp [hx])
    match t, ht with
    | [], _ =>
      simp only [runTx, List.foldl_cons, txStep_nil, List.flatten_cons, List.nil_append]
      exact runTx_single ts s hts
    | [op], _ =>
      simp only [runTx, List.foldl_cons, txStep_single, List.flatten_cons, List.singleton_append, run]
      exact runTx_single ts _ hts

theorem coveredB_sound {s : St} (h : coveredB s = true) (ra : Nat) : DescsCovered s ra := by
  intro ht d hg
  obtain ⟨hmem, hra, hh⟩ := getDesc_mem hg
  unfold coveredB at h
  have hd := List.all_eq_true.1 h d hmem
  rw [hra] at hd
  cases hr : Core.getRa s.core ra with
  | none => simp [hr] at hd
  | some r =>
    simp only [hr] at hd
    obtain ⟨st, hst, hb⟩ := List.any_eq_true.1 hd
    simp only [Bool.and_eq_true, decide_eq_true_eq] at hb
    exact ⟨r, st, rfl, hst, by omega, by omega⟩

/-- every state along the run satisfies the executable coverage check -/
def CoveredRun : St → List Op → Prop
  | s, [] => coveredB s = true
  | s, op :: ops => coveredB s = true ∧ CoveredRun (step s op).1 ops

theorem safeRun_of_covered : ∀ (ops : List Op) (s : St), CoveredRun s ops → SafeRun s ops
  | [], _, _ => trivial
  | op :: ops, s, h => by
    refine ⟨?_, safeRun_of_covered ops _ h.2⟩
    cases op with
    | setCanonical c => exact fun cl _ => coveredB_sound h.1 cl.chain
    | _ => trivial

end DymVerif.LC
