/-
  Lemmas/AnteRoutes — helper lemmas about the route model of `NewAnteHandler` (`runDecs`, `runAnte`,
  `rejectFirst`, `ethGuarded`) and about `reach` on transactions without wrappers at the top.
  Core Lean only.
-/
import DymVerif.Lemmas.AnteBasic
namespace DymVerif.Ante

/-! ## unfolding -/

theorem runDecs_nil (c : Config) (rc : Bool) (tx : List Msg) : runDecs c rc [] tx = none := by
  simp [runDecs]

theorem runDecs_reject (c : Config) (rc : Bool) (ds : List Dec) (tx : List Msg) :
    runDecs c rc (.reject :: ds) tx =
      match anteCheck c tx with
      | some e => some (.ante e)
      | none => runDecs c rc ds tx := by
  rw [runDecs]; rfl

theorem runDecs_ethOnly (c : Config) (rc skip : Bool) (ds : List Dec) (tx : List Msg) :
    runDecs c rc (.ethOnly skip :: ds) tx =
      if skip && rc then runDecs c rc ds tx
      else match tx.find? (fun m => m.ty != tyEthTx) with
        | some m => some (.notEth m.ty)
        | none => runDecs c rc ds tx := by
  rw [runDecs]; rfl

theorem runDecs_setup (c : Config) (rc : Bool) (ds : List Dec) (tx : List Msg) :
    runDecs c rc (.setup :: ds) tx = runDecs c rc ds tx := by
  simp [runDecs]

theorem runDecs_other (c : Config) (rc : Bool) (ds : List Dec) (tx : List Msg) :
    runDecs c rc (.other :: ds) tx = runDecs c rc ds tx := by
  simp [runDecs]

/-- a chain that lets the transaction through lets it through after dropping its head -/
theorem runDecs_none_tail {c : Config} {rc : Bool} {d : Dec} {ds : List Dec} {tx : List Msg}
    (h : runDecs c rc (d :: ds) tx = none) : runDecs c rc ds tx = none := by
  cases d with
  | setup => simpa [runDecs_setup] using h
  | other => simpa [runDecs_other] using h
  | reject =>
    rw [runDecs_reject] at h
    cases ha : anteCheck c tx with
    | some e => rw [ha] at h; cases h
    | none => rw [ha] at h; exact h
  | ethOnly skip =>
    rw [runDecs_ethOnly] at h
    by_cases hs : (skip && rc) = true
    · simpa [hs] using h
    · simp only [hs, if_false, Bool.false_eq_true] at h
      cases hf : tx.find? (fun m => m.ty != tyEthTx) with
      | some m => rw [hf] at h; cases h
      | none => rw [hf] at h; exact h

/-- if the chain contains the reject decorator anywhere, an accepted tx passed `anteCheck` -/
theorem runDecs_none_reject {c : Config} {rc : Bool} :
    ∀ (ds : List Dec) (tx : List Msg), runDecs c rc ds tx = none → Dec.reject ∈ ds →
      anteCheck c tx = none := by
  intro ds
  induction ds with
  | nil => intro tx _ hm; cases hm
  | cons d ds ih =>
    intro tx h hm
    cases hm with
    | head =>
      rw [runDecs_reject] at h
      cases ha : anteCheck c tx with
      | some e => rw [ha] at h; cases h
      | none => rfl
    | tail _ hm' => exact ih tx (runDecs_none_tail h) hm'

/-- if the chain contains a decorator that insists on MsgEthereumTx in every mode, every message of
    an accepted tx is a MsgEthereumTx -/
theorem runDecs_none_eth {c : Config} {rc : Bool} :
    ∀ (ds : List Dec) (tx : List Msg), runDecs c rc ds tx = none → Dec.ethOnly false ∈ ds →
      ∀ m ∈ tx, m.ty = tyEthTx := by
  intro ds
  induction ds with
  | nil => intro tx _ hm; cases hm
  | cons d ds ih =>
    intro tx h hm
    cases hm with
    | head =>
      rw [runDecs_ethOnly] at h
      simp only [Bool.false_and, Bool.false_eq_true, if_false] at h
      cases hf : tx.find? (fun m => m.ty != tyEthTx) with
      | some m => rw [hf] at h; cases h
      | none =>
        intro m hmem
        have := List.find?_eq_none.mp hf m hmem
        simpa using this
    | tail _ hm' => exact ih tx (runDecs_none_tail h) hm'

theorem rejectFirst_mem {ds : List Dec} (h : rejectFirst ds = true) : Dec.reject ∈ ds := by
  unfold rejectFirst at h
  have hsub : ∀ x ∈ ds.dropWhile (fun d => d == Dec.setup), x ∈ ds :=
    fun x hx => (List.dropWhile_sublist _).subset hx
  cases hd : ds.dropWhile (fun d => d == Dec.setup) with
  | nil => rw [hd] at h; cases h
  | cons x xs =>
    rw [hd] at h hsub
    cases x with
    | reject => exact hsub _ List.mem_cons_self
    | setup => cases h
    | other => cases h
    | ethOnly s => cases h

theorem ethGuarded_mem {ds : List Dec} (h : ethGuarded ds = true) : Dec.ethOnly false ∈ ds := by
  simpa [ethGuarded] using h

/-- **route_guard** (any configuration, any chain): a guarded chain that accepts a transaction has
    either run `anteCheck` on it successfully or seen only MsgEthereumTx messages -/
theorem runDecs_guarded {c : Config} {rc : Bool} {ds : List Dec} {tx : List Msg}
    (hg : (rejectFirst ds || ethGuarded ds) = true) (h : runDecs c rc ds tx = none) :
    anteCheck c tx = none ∨ ∀ m ∈ tx, m.ty = tyEthTx := by
  cases hr : rejectFirst ds with
  | true => exact .inl (runDecs_none_reject ds tx h (rejectFirst_mem hr))
  | false =>
    rw [hr, Bool.false_or] at hg
    exact .inr (runDecs_none_eth ds tx h (ethGuarded_mem hg))

/-! ## `reach` on a transaction whose top-level messages are no wrappers -/

/-- when no top-level message is a message-carrying wrapper, only the top level is reachable -/
theorem reach_no_wrapper {W : Nat → Option Acc} {tx : List Msg}
    (hw : ∀ m ∈ tx, W m.ty ≠ some .msgs) {p : List Nat} {n : Msg} (hr : reach W tx p = some n) :
    n ∈ tx ∧ p.length = 1 := by
  cases p with
  | nil => simp [reach] at hr
  | cons i rest =>
    cases rest with
    | nil =>
      rw [reach_single] at hr
      exact ⟨List.mem_of_getElem? hr, rfl⟩
    | cons j q =>
      rw [reach_cons2] at hr
      cases hi : tx[i]? with
      | none => rw [hi] at hr; cases hr
      | some x =>
        rw [hi] at hr
        have := hw x (List.mem_of_getElem? hi)
        simp [this] at hr

end DymVerif.Ante
