/-
  Lemmas/GenEqKeysAddr — tie 1 of the text level of Dym-Name addresses: the pattern sources and length
  limits the validators of Model/KeysAddr were written against are the ones in the Go source
  (regenerated on every run into Gen/KeysAddr.lean), and the statement listings of the validators, of
  `ParseDymNameAddress`, of `ReverseResolvedDymNameAddress.String`, of `validateAliasesOfChainIds` and
  of the two translations through the chains/aliases table are pinned.  A change of any of them makes
  the corresponding `rfl` fail: the model has to be re-read against the new source.
-/
import DymVerif.Gen.KeysAddr
import DymVerif.Model.KeysAddr
import DymVerif.Lemmas.KeysAddr
namespace DymVerif.GenEq
open DymVerif DymVerif.Keys

/-- the patterns `Keys.validDymName`, `validAlias`, `validChainIdFormat`, `hexAddrOk` render -/
theorem addr_patterns_pin :
    Gen.KeysAddr.patternValidateDymNameStep1 = [94, 91, 97, 45, 122, 92, 100, 93, 43, 40, 91, 97, 45, 122, 92, 100, 95, 45, 93, 42, 91, 97, 45, 122, 92, 100, 93, 43, 41, 63, 36] /- ^[a-z\d]+([a-z\d_-]*[a-z\d]+)?$ -/ ∧
    Gen.KeysAddr.patternValidateAlias = [94, 91, 97, 45, 122, 92, 100, 93, 123, 49, 44, 51, 50, 125, 36] /- ^[a-z\d]{1,32}$ -/ ∧
    Gen.KeysAddr.patternValidChainId = [94, 91, 97, 45, 122, 93, 43, 40, 45, 91, 97, 45, 122, 93, 43, 41, 63, 40, 95, 92, 100, 43, 41, 63, 40, 45, 92, 100, 43, 41, 63, 36] /- ^[a-z]+(-[a-z]+)?(_\d+)?(-\d+)?$ -/ ∧
    Gen.KeysAddr.pattern0xHex = [94, 48, 120, 91, 97, 45, 102, 92, 100, 93, 43, 36] /- ^0x[a-f\d]+$ -/ := ⟨rfl, rfl, rfl, rfl⟩

/-- the length limits are the regenerated constants -/
theorem validDymName_length (s : Bytes) (h : validDymName s = true) : s.length ≤ Gen.KeysAddr.maxDymNameLength := by
  simp [validDymName] at h; exact h.1.1.1.1.1
theorem validAlias_length (s : Bytes) (h : validAlias s = true) : s.length ≤ Gen.KeysAddr.maxAliasLength := by
  simp [validAlias] at h; exact h.1.2
theorem addr_limits_pin : Gen.KeysAddr.maxDymNameLength = 20 ∧ Gen.KeysAddr.maxAliasLength = 32 ∧
    Gen.KeysAddr.maxSubNameLength = 66 := ⟨rfl, rfl, rfl⟩

theorem isValidDymName_pin : Gen.KeysAddr.isValidDymNameListing =
  ["func IsValidDymName(dymName string) bool",
   "  if len(dymName) > MaxDymNameLength",
   "    return false",
   "  if dymName == \"\"",
   "    return false",
   "  if !patternValidateDymNameStep1.MatchString(dymName)",
   "    return false",
   "  for i := 0; i < len(dymName)-1; i++",
   "    if (dymName[i] == '-' || dymName[i] == '_') && (dymName[i+1] == '-' || dymName[i+1] == '_')",
   "      return false",
   "  return true"] := rfl

theorem isValidSubDymName_pin : Gen.KeysAddr.isValidSubDymNameListing =
  ["func IsValidSubDymName(subDymName string) bool",
   "  if subDymName == \"\"",
   "    return true",
   "  if len(subDymName) > MaxSubNameLength",
   "    return false",
   "  if strings.HasPrefix(subDymName, \".\") || strings.HasSuffix(subDymName, \".\")",
   "    return false",
   "  spl := strings.Split(subDymName, \".\")",
   "  for _, s := range spl",
   "    if s == \"\"",
   "      return false",
   "    if !IsValidDymName(s)",
   "      return false",
   "  return true"] := rfl

theorem isValidAlias_pin : Gen.KeysAddr.isValidAliasListing =
  ["func IsValidAlias(alias string) bool",
   "  if alias == \"\"",
   "    return false",
   "  if len(alias) > MaxAliasLength",
   "    return false",
   "  return patternValidateAlias.MatchString(alias)"] := rfl

theorem isValidChainIdFormat_pin : Gen.KeysAddr.isValidChainIdFormatListing =
  ["func IsValidChainIdFormat(chainId string) bool",
   "  if len(chainId) < 3 || len(chainId) > cometbfttypes.MaxChainIDLen",
   "    return false",
   "  return patternValidChainId.MatchString(chainId)"] := rfl

theorem isValidHexAddress_pin : Gen.KeysAddr.isValidHexAddressListing =
  ["func IsValidHexAddress(address string) bool",
   "  length := len(address)",
   "  if length != 42 && length != 66",
   "    return false",
   "  address = strings.ToLower(address)",
   "  return pattern0xHex.MatchString(address)"] := rfl

theorem validateAliasesOfChainIds_pin : Gen.KeysAddr.validateAliasesOfChainIdsListing =
  ["func validateAliasesOfChainIds(aliasesOfChainIds []AliasesOfChainId) error",
   "  uniqueChainIdAliasAmongAliasConfig := make(map[string]bool)",
   "  for _, record := range aliasesOfChainIds",
   "    chainID := record.ChainId",
   "    aliases := record.Aliases",
   "    if len(chainID) < 3",
   "      return fmt.Errorf(chainID)",
   "    if !dymnsutils.IsValidChainIdFormat(chainID)",
   "      return fmt.Errorf(chainID)",
   "    _, ok := uniqueChainIdAliasAmongAliasConfig[chainID]",
   "    if ok",
   "      return fmt.Errorf(chainID)",
   "    uniqueChainIdAliasAmongAliasConfig[chainID] = true",
   "    for _, alias := range aliases",
   "      if !dymnsutils.IsValidAlias(alias)",
   "        return fmt.Errorf(alias)",
   "      _, ok := uniqueChainIdAliasAmongAliasConfig[alias]",
   "      if ok",
   "        return fmt.Errorf(alias)",
   "      uniqueChainIdAliasAmongAliasConfig[alias] = true",
   "  return nil"] := rfl

theorem validateChainsParams_pin : Gen.KeysAddr.validateChainsParamsListing =
  ["func validateChainsParams(i interface{}) error",
   "  m, ok := i.(ChainsParams)",
   "  if !ok",
   "    return gerrc.ErrInvalidArgument",
   "  err := validateAliasesOfChainIds(m.AliasesOfChainIds)",
   "  if err != nil",
   "    return errors.Join(gerrc.ErrInvalidArgument, err)",
   "  return nil"] := rfl

theorem reverseResolvedString_pin : Gen.KeysAddr.reverseResolvedStringListing =
  ["func (m ReverseResolvedDymNameAddress) String() string",
   "  var sb strings.Builder",
   "  if m.SubName != \"\"",
   "    sb.WriteString(m.SubName)",
   "    sb.WriteString(\".\")",
   "  sb.WriteString(m.Name)",
   "  sb.WriteString(\"@\")",
   "  sb.WriteString(m.ChainIdOrAlias)",
   "  return sb.String()"] := rfl

theorem parseDymNameAddress_pin : Gen.KeysAddr.parseDymNameAddressListing =
  ["func ParseDymNameAddress(dymNameAddress string) (subName string, dymName string, chainIdOrAlias string, err error)",
   "  dymNameAddress = strings.ToLower(strings.TrimSpace(dymNameAddress))",
   "  lastDotIndex := strings.LastIndex(dymNameAddress, \".\")",
   "  lastAtIndex := strings.LastIndex(dymNameAddress, \"@\")",
   "  if lastAtIndex > -1 && lastDotIndex > -1",
   "    if lastDotIndex > lastAtIndex",
   "      err = dymnstypes.ErrBadDymNameAddress",
   "      return",
   "  firstAtIndex := strings.IndexRune(dymNameAddress, '@')",
   "  if firstAtIndex > -1",
   "    if firstAtIndex != lastAtIndex",
   "      err = dymnstypes.ErrBadDymNameAddress",
   "      return",
   "  firstDotIndex := strings.IndexRune(dymNameAddress, '.')",
   "  if firstDotIndex == 0 || firstAtIndex == 0",
   "    err = dymnstypes.ErrBadDymNameAddress",
   "    return",
   "  lastCharIdx := len(dymNameAddress) - 1",
   "  if firstDotIndex == lastCharIdx || firstAtIndex == lastCharIdx || lastDotIndex == lastCharIdx || lastAtIndex == lastCharIdx",
   "    err = dymnstypes.ErrBadDymNameAddress",
   "    return",
   "  if strings.Contains(strings.ReplaceAll(strings.ReplaceAll(dymNameAddress, \".\", \"|\"), \"@\", \"|\"), \"||\")",
   "    err = dymnstypes.ErrBadDymNameAddress",
   "    return",
   "  chunks := strings.FieldsFunc(dymNameAddress, func#1)",
   "    func#1 (r rune) bool",
   "      return r == '.' || r == '@'",
   "  for i, chunk := range chunks",
   "    normalizedChunk := strings.TrimSpace(chunk)",
   "    if normalizedChunk != chunk",
   "      err = dymnstypes.ErrBadDymNameAddress",
   "      return",
   "    chunks[i] = normalizedChunk",
   "  if len(chunks) == 1",
   "    err = dymnstypes.ErrBadDymNameAddress",
   "    return",
   "  chainIdOrAlias = chunks[len(chunks)-1]",
   "  dymName = chunks[len(chunks)-2]",
   "  if len(chunks) > 2",
   "    subNameParts := chunks[:len(chunks)-2]",
   "    for _, subNamePart := range subNameParts",
   "      if !dymnsutils.IsValidDymName(subNamePart)",
   "        err = dymnstypes.ErrBadDymNameAddress",
   "        return",
   "    subName = strings.Join(subNameParts, \".\")",
   "  if !dymnsutils.IsValidChainIdFormat(chainIdOrAlias) && !dymnsutils.IsValidAlias(chainIdOrAlias)",
   "    err = dymnstypes.ErrBadDymNameAddress",
   "    return",
   "  if subName == \"\"",
   "    if dymnsutils.IsValidHexAddress(dymName)",
   "      return",
   "    if dymnsutils.IsValidBech32AccountAddress(dymName, false)",
   "      return",
   "  if !dymnsutils.IsValidDymName(dymName)",
   "    err = dymnstypes.ErrBadDymNameAddress",
   "    return",
   "  return"] := rfl

theorem tryResolveChainIdOrAliasToChainId_pin : Gen.KeysAddr.tryResolveChainIdOrAliasToChainIdListing =
  ["func (k Keeper) tryResolveChainIdOrAliasToChainId(ctx sdk.Context, chainIdOrAlias string) (resolvedToChainId string, success bool)",
   "  if chainIdOrAlias == ctx.ChainID()",
   "    return chainIdOrAlias, true",
   "  chainsParams := k.ChainsParams(ctx)",
   "  if len(chainsParams.AliasesOfChainIds) > 0",
   "    for _, record := range chainsParams.AliasesOfChainIds",
   "      if chainIdOrAlias == record.ChainId",
   "        return record.ChainId, true",
   "      for _, alias := range record.Aliases",
   "        if alias == chainIdOrAlias",
   "          return record.ChainId, true",
   "  isRollAppId := k.IsRollAppId(ctx, chainIdOrAlias)",
   "  if isRollAppId",
   "    return chainIdOrAlias, true",
   "  rollAppId, found := k.GetRollAppIdByAlias(ctx, chainIdOrAlias)",
   "  if found",
   "    return rollAppId, true",
   "  return"] := rfl

theorem replaceChainIdWithAliasIfPossible_pin : Gen.KeysAddr.replaceChainIdWithAliasIfPossibleListing =
  ["func (k Keeper) ReplaceChainIdWithAliasIfPossible(ctx sdk.Context, reverseResolvedRecords dymnstypes.ReverseResolvedDymNameAddresses) []dymnstypes.ReverseResolvedDymNameAddress",
   "  if len(reverseResolvedRecords) < 1",
   "    return reverseResolvedRecords",
   "  resolvedCache := make(map[string]string)",
   "  for i, reverseResolvedRecord := range reverseResolvedRecords",
   "    chainIdOrAlias := reverseResolvedRecord.ChainIdOrAlias",
   "    if chainIdOrAlias == \"\"",
   "      chainIdOrAlias = ctx.ChainID()",
   "      reverseResolvedRecords[i].ChainIdOrAlias = chainIdOrAlias",
   "    resolvedTo, found := resolvedCache[chainIdOrAlias]",
   "    if found",
   "      if resolvedTo != chainIdOrAlias",
   "        reverseResolvedRecords[i].ChainIdOrAlias = resolvedTo",
   "      continue",
   "    aliases := k.GetEffectiveAliasesByChainId(ctx, chainIdOrAlias)",
   "    if len(aliases) < 1",
   "      resolvedCache[chainIdOrAlias] = chainIdOrAlias",
   "      continue",
   "    defaultAlias := aliases[0]",
   "    reverseResolvedRecords[i].ChainIdOrAlias = defaultAlias",
   "    resolvedCache[chainIdOrAlias] = defaultAlias",
   "  return reverseResolvedRecords"] := rfl

theorem getEffectiveAliasesByChainId_pin : Gen.KeysAddr.getEffectiveAliasesByChainIdListing =
  ["func (k Keeper) GetEffectiveAliasesByChainId(ctx sdk.Context, chainId string) []string",
   "  var effectiveAliases []string",
   "  for _, aliasesOfChainId := range k.ChainsParams(ctx).AliasesOfChainIds",
   "    if aliasesOfChainId.ChainId != chainId",
   "      continue",
   "    effectiveAliases = aliasesOfChainId.Aliases",
   "    break",
   "  if k.IsRollAppId(ctx, chainId)",
   "    aliasesOfRollApp := k.GetAliasesOfRollAppId(ctx, chainId)",
   "    reservedAliases := k.GetAllAliasAndChainIdInParams(ctx)",
   "    aliasesOfRollApp = slices.DeleteFunc(aliasesOfRollApp, func#1)",
   "      func#1 (a string) bool",
   "        _, found := reservedAliases[a]",
   "        return found",
   "    effectiveAliases = append(effectiveAliases, aliasesOfRollApp...)",
   "  return effectiveAliases"] := rfl

end DymVerif.GenEq
