/-
  Lemmas/KeysRange — general facts about store iteration ranges: `storetypes.PrefixEndBytes` /
  collections `nextBytesPrefixKey` computed structurally, exactness of prefix ranges and of their
  sub-ranges, upper bounds against fixed-width big-endian heads.
-/
import DymVerif.Lemmas.Keys
import DymVerif.Lemmas.Keys2
import DymVerif.Lemmas.Keys3
namespace DymVerif.Keys
open DymVerif

theorem prefixEnd_cons (x : Nat) (xs : Bytes) :
    prefixEnd (x :: xs) = match prefixEnd xs with
      | some e => some (x :: e)
      | none => if x = 255 then none else some [x + 1] := by
  unfold prefixEnd
  simp only [List.reverse_cons]
  rw [List.dropWhile_append]
  cases h : List.dropWhile (· == 255) xs.reverse with
  | nil =>
    by_cases hx : x = 255
    · simp [List.dropWhile, hx]
    · have : (x == 255) = false := by simp [hx]
      simp [List.dropWhile, hx, this]
  | cons y ys => simp

/-- upper bound test of an iterator: `k < end`, nil end = unbounded -/
def below (stop : Option Bytes) (k : Bytes) : Bool := match stop with | none => true | some e => lexLt k e

theorem inRangeO_eq (a : Bytes) (e : Option Bytes) (k : Bytes) : inRangeO a e k = (lexLe a k && below e k) := rfl

/-- **`KVStorePrefixIterator` / prefix ranges are exact**: the range `[P, PrefixEndBytes(P))` contains
    exactly the byte strings that start with `P` -/
theorem prefix_range_exact (P K : Bytes) (hK : Bytes.WF K) :
    inRangeO P (prefixEnd P) K = isPrefix P K := by
  induction P generalizing K with
  | nil => cases K <;> simp [inRangeO, prefixEnd, lexLe, lexLt, isPrefix]
  | cons x xs ih =>
    cases K with
    | nil => simp [inRangeO, lexLe, lexLt, isPrefix]
    | cons y ys =>
      have hy : y < 256 := hK y (by simp)
      have hys : Bytes.WF ys := fun c hc => hK c (by simp [hc])
      have ih' := ih ys hys
      rw [prefixEnd_cons]
      cases hp : prefixEnd xs with
      | some e =>
        rw [hp] at ih'
        simp only [inRangeO, lexLe, lexLt, isPrefix] at ih' ⊢
        rcases Nat.lt_trichotomy x y with hxy | hxy | hxy
        · have h1 : ¬ y < x := by omega
          have h2 : (x == y) = false := by simp; omega
          simp [hxy, h1, h2]
        · subst hxy
          simpa using ih'
        · have h1 : ¬ x < y := by omega
          have h2 : (x == y) = false := by simp; omega
          simp [hxy, h1, h2]
      | none =>
        rw [hp] at ih'
        by_cases hx : x = 255
        · simp only [hx, if_true, inRangeO, lexLe, lexLt, isPrefix] at ih' ⊢
          rcases Nat.lt_trichotomy y 255 with hxy | hxy | hxy
          · have h2 : (255 == y) = false := by simp; omega
            simp [hxy, h2]
          · subst hxy
            simpa using ih'
          · omega
        · simp only [hx, if_false, inRangeO, lexLe, lexLt, isPrefix, lexLt_nil_right] at ih' ⊢
          rcases Nat.lt_trichotomy x y with hxy | hxy | hxy
          · have h1 : ¬ y < x := by omega
            have h2 : (x == y) = false := by simp; omega
            have h3 : ¬ y < x + 1 := by omega
            simp [hxy, h1, h2, h3]
          · subst hxy
            simpa using ih'
          · have h1 : ¬ x < y := by omega
            have h2 : (x == y) = false := by simp; omega
            simp [hxy, h1, h2]


theorem prefixEnd_append (p x : Bytes) :
    prefixEnd (p ++ x) = match prefixEnd x with
      | some e => some (p ++ e)
      | none => prefixEnd p := by
  induction p with
  | nil =>
    simp only [List.nil_append]
    cases h : prefixEnd x with
    | some e => rfl
    | none => rfl
  | cons a p ih =>
    rw [List.cons_append, prefixEnd_cons, ih]
    cases h : prefixEnd x with
    | some e => simp
    | none => simp only []; rw [prefixEnd_cons]

/-- every extension of `P` is below `PrefixEndBytes(P)` (no hypothesis) -/
theorem below_prefixEnd_self (P r : Bytes) : below (prefixEnd P) (P ++ r) = true := by
  induction P with
  | nil => simp [prefixEnd, below]
  | cons x xs ih =>
    rw [prefixEnd_cons]
    cases h : prefixEnd xs with
    | some e => rw [h] at ih; simpa [below, lexLt] using ih
    | none =>
      by_cases hx : x = 255
      · simp [hx, below]
      · simp [hx, below, lexLt]

/-- upper bound against a fixed-width head: for `|B| = |P|`, `B ++ r < PrefixEndBytes(P)` iff `B ≤ P` -/
theorem below_prefixEnd_eqlen (P B r : Bytes) (hl : B.length = P.length) (hB : Bytes.WF B) :
    below (prefixEnd P) (B ++ r) = lexLe B P := by
  induction P generalizing B with
  | nil => cases B with
    | nil => simp [prefixEnd, below, lexLe, lexLt]
    | cons _ _ => simp at hl
  | cons x xs ih =>
    cases B with
    | nil => simp at hl
    | cons y ys =>
      have hy : y < 256 := hB y (by simp)
      have hys : Bytes.WF ys := fun c hc => hB c (by simp [hc])
      have ih' := ih ys (by simpa using hl) hys
      rw [prefixEnd_cons]
      cases hp : prefixEnd xs with
      | some e =>
        rw [hp] at ih'
        simp only [below, lexLe, lexLt, List.cons_append] at ih' ⊢
        rcases Nat.lt_trichotomy x y with hxy | hxy | hxy
        · have h1 : ¬ y < x := by omega
          simp [hxy, h1]
        · subst hxy; simpa using ih'
        · have h1 : ¬ x < y := by omega
          simp [hxy, h1]
      | none =>
        rw [hp] at ih'
        by_cases hx : x = 255
        · simp only [hx, if_true, below, lexLe, lexLt, List.cons_append] at ih' ⊢
          rcases Nat.lt_trichotomy y 255 with hxy | hxy | hxy
          · have h1 : ¬ 255 < y := by omega
            simp [hxy, h1]
          · subst hxy; simpa using ih'
          · omega
        · simp only [hx, if_false, below, lexLe, lexLt, List.cons_append, lexLt_nil_right] at ih' ⊢
          rcases Nat.lt_trichotomy x y with hxy | hxy | hxy
          · have h1 : ¬ y < x := by omega
            have h3 : ¬ y < x + 1 := by omega
            simp [hxy, h1, h3]
          · subst hxy
            have : lexLt xs ys = false := by simpa using ih'
            simp [this]
          · have h1 : ¬ x < y := by omega
            have h3 : y < x + 1 := by omega
            simp [hxy, h1, h3]

/-- a non-0xFF-terminated prefix: the range `[q ++ [d], q ++ [d+1])` is exactly the extensions of `q ++ [d]` (no width hypothesis on the key) -/
theorem prefix_range_exact_snoc (q : Bytes) (d : Nat) (K : Bytes) :
    inRange (q ++ [d]) (q ++ [d + 1]) K = isPrefix (q ++ [d]) K := by
  induction q generalizing K with
  | nil =>
    cases K with
    | nil => simp [inRange, lexLe, lexLt, isPrefix]
    | cons y ys =>
      simp only [List.nil_append, inRange, lexLe, lexLt, isPrefix, lexLt_nil_right]
      rcases Nat.lt_trichotomy d y with hxy | hxy | hxy
      · have h1 : ¬ y < d := by omega
        have h2 : (d == y) = false := by simp; omega
        have h3 : ¬ y < d + 1 := by omega
        simp [hxy, h1, h2, h3]
      · subst hxy; simp
      · have h2 : (d == y) = false := by simp; omega
        simp [hxy, h2]
  | cons x q ih =>
    cases K with
    | nil => simp [inRange, lexLe, lexLt, isPrefix]
    | cons y ys =>
      have ih' := ih ys
      simp only [List.cons_append, inRange, lexLe, lexLt, isPrefix] at ih' ⊢
      rcases Nat.lt_trichotomy x y with hxy | hxy | hxy
      · have h1 : ¬ y < x := by omega
        have h2 : (x == y) = false := by simp; omega
        simp [hxy, h1, h2]
      · subst hxy; simpa using ih'
      · have h2 : (x == y) = false := by simp; omega
        simp [hxy, h2]

theorem lexLt_append_right (K P t : Bytes) (h : lexLt K P = true) : lexLt K (P ++ t) = true := by
  induction K generalizing P with
  | nil => cases P with
    | nil => simp [lexLt] at h
    | cons _ _ => simp [lexLt]
  | cons y ys ih =>
    cases P with
    | nil => simp [lexLt] at h
    | cons x xs =>
      simp only [lexLt, List.cons_append] at h ⊢
      by_cases h1 : y < x
      · simp [h1]
      · by_cases h2 : x < y
        · simp [h1, h2] at h
        · simp only [h1, h2, if_false] at h ⊢
          exact ih xs h

/-- `B' < B ++ c :: t` iff `B' ≤ B` for equal-length heads -/
theorem lexLt_eqlen_snoc (B' B : Bytes) (c : Nat) (t : Bytes) (hl : B'.length = B.length) :
    lexLt B' (B ++ c :: t) = lexLe B' B := by
  induction B' generalizing B with
  | nil => cases B with
    | nil => simp [lexLt, lexLe]
    | cons _ _ => simp at hl
  | cons y ys ih =>
    cases B with
    | nil => simp at hl
    | cons x xs =>
      have ih' := ih xs (by simpa using hl)
      simp only [lexLt, lexLe, List.cons_append] at ih' ⊢
      rcases Nat.lt_trichotomy x y with hxy | hxy | hxy
      · have h1 : ¬ y < x := by omega
        simp [hxy, h1]
      · subst hxy; simpa using ih'
      · have h1 : ¬ x < y := by omega
        simp [hxy, h1]

/-- the sub-range `[P ++ t, PrefixEndBytes(P))` of a prefix scan: exactly the extensions `P ++ k` with `t ≤ k` -/
theorem prefix_subrange_exact_snoc (q : Bytes) (d : Nat) (t K : Bytes) :
    inRange (q ++ [d] ++ t) (q ++ [d + 1]) K =
      (isPrefix (q ++ [d]) K && lexLe t (K.drop (q.length + 1))) := by
  have hpr := prefix_range_exact_snoc q d K
  cases hp : isPrefix (q ++ [d]) K with
  | true =>
    obtain ⟨k, rfl⟩ := (isPrefix_iff _ _).1 hp
    rw [hp] at hpr
    simp only [inRange, Bool.and_eq_true] at hpr
    have hd : (q ++ [d] ++ k).drop (q.length + 1) = k := by
      rw [List.drop_left' (by simp)]
    simp only [inRange, hpr.2, hd, lexLe, lexLt_append_left, Bool.and_true, Bool.true_and]
  | false =>
    rw [hp] at hpr
    simp only [inRange, Bool.false_and] at hpr ⊢
    cases hb : lexLt K (q ++ [d + 1]) with
    | false => simp
    | true =>
      rw [hb] at hpr
      have : lexLt K (q ++ [d]) = true := by simpa [lexLe] using hpr
      have h2 := lexLt_append_right K (q ++ [d]) t this
      simp only [List.append_assoc, List.singleton_append] at h2
      simp [lexLe, h2]

end DymVerif.Keys
