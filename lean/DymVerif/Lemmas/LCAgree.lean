/-
  Lemmas/LCAgree — consensus states of a canonical client agree (state root, timestamp) with the
  descriptors of its rollapp: preservation by every op, under the two side conditions the current
  code needs (a sound designation, and header proposers that belong to the client's rollapp).
-/
import DymVerif.Lemmas.LCInv
namespace DymVerif.LC
open DymVerif.Core (Addr NextP)

def Agrees (cs : Cons) (d : Desc) : Prop := cs.root = d.root ∧ ∀ t, d.ts = some t → cs.ts = t

/-- every consensus state of a canonical client at a height with a descriptor agrees with it -/
def AgreeInv (s : St) : Prop :=
  ∀ r c cl h cs d, lookup s.r2c r = some c → getClient s c = some cl → getCons cl h = some cs →
    getDesc s r h = some d → Agrees cs d

/-- consensus states are kept in ascending height order, all at or below the client's latest height -/
def SortedCons (l : List (Nat × Cons)) : Prop := l.Pairwise (fun a b => a.1 < b.1)

structure ClientOk (cl : Client) : Prop where
  sorted : SortedCons cl.cons
  le : ∀ x ∈ cl.cons, x.1 ≤ cl.latest

def ClientsOk (s : St) : Prop := ∀ cl ∈ s.clients, ClientOk cl

-- ---------------------------------------------------------------- sorted consensus-state lists

theorem sorted_insCons {l : List (Nat × Cons)} (hs : SortedCons l) (h : Nat) (c : Cons) : SortedCons (insCons h c l) := by
  induction l with
  | nil => simp [insCons, SortedCons]
  | cons x xs ih =>
    unfold SortedCons at hs ⊢
    rw [List.pairwise_cons] at hs
    unfold insCons
    by_cases h1 : h < x.1
    · simp only [h1, if_true]
      rw [List.pairwise_cons]
      refine ⟨?_, List.pairwise_cons.2 hs⟩
      intro y hy
      simp only [List.mem_cons] at hy
      rcases hy with rfl | hy
      · exact h1
      · exact Nat.lt_trans h1 (hs.1 y hy)
    · simp only [h1, if_false]
      by_cases h2 : (h == x.1) = true
      · simp only [h2, if_true]
        have hx : h = x.1 := by simpa using h2
        rw [List.pairwise_cons]
        refine ⟨?_, hs.2⟩
        intro y hy
        show h < y.1
        rw [hx]; exact hs.1 y hy
      · have h2' : (h == x.1) = false := by simpa using h2
        simp only [h2', Bool.false_eq_true, if_false]
        rw [List.pairwise_cons]
        refine ⟨?_, ih hs.2⟩
        intro y hy
        rcases mem_insCons hy with rfl | hy
        · show x.1 < h
          have : ¬ h = x.1 := by simpa using h2
          omega
        · exact hs.1 y hy

theorem sorted_last_max : ∀ {l : List (Nat × Cons)} {m : Nat × Cons}, SortedCons l → l.getLast? = some m → ∀ x ∈ l, x.1 ≤ m.1
  | [], _, _, h => by simp at h
  | [a], m, _, h => by
    simp only [List.getLast?_singleton, Option.some.injEq] at h
    subst h
    intro x hx
    simp only [List.mem_singleton] at hx
    subst hx; exact Nat.le_refl _
  | a :: b :: rest, m, hs, h => by
    unfold SortedCons at hs
    rw [List.pairwise_cons] at hs
    have h' : (b :: rest).getLast? = some m := by simpa [List.getLast?_cons_cons] using h
    have ih := sorted_last_max (l := b :: rest) hs.2 h'
    intro x hx
    simp only [List.mem_cons] at hx
    rcases hx with rfl | hx
    · have hm : m ∈ b :: rest := List.mem_of_getLast? h'
      exact Nat.le_of_lt (hs.1 m hm)
    · exact ih x (by simpa using hx)

theorem clientOk_ibcApply {cl : Client} (h : ClientOk cl) (hd : Hdr) : ClientOk (ibcApply cl hd) := by
  unfold ibcApply
  repeat' split
  all_goals first
    | exact h
    | exact ⟨h.sorted, h.le⟩
    | (refine ⟨sorted_insCons h.sorted _ _, ?_⟩
       intro x hx
       simp only at hx ⊢
       rcases mem_insCons hx with rfl | hx
       · exact Nat.le_max_right _ _
       · exact Nat.le_trans (h.le x hx) (Nat.le_max_left _ _))

theorem clientOk_rollback {cl : Client} (h : ClientOk cl) (lv : Nat) (l : Nat × Cons)
    (hl : (cl.cons.filter (·.1 ≤ lv)).getLast? = some l) :
    ClientOk { cl with cons := cl.cons.filter (·.1 ≤ lv), latest := l.1, frozen := true } := by
  have hs : SortedCons (cl.cons.filter (·.1 ≤ lv)) := List.Pairwise.filter _ h.sorted
  exact ⟨hs, sorted_last_max hs hl⟩

theorem clientOk_resolve {cl : Client} (h : ClientOk cl) (ht : Nat) (c : Cons) (hlt : cl.latest < ht) :
    ClientOk { cl with cons := insCons ht c cl.cons, latest := ht, frozen := false } := by
  refine ⟨sorted_insCons h.sorted _ _, ?_⟩
  intro x hx
  rcases mem_insCons hx with rfl | hx
  · exact Nat.le_refl _
  · exact Nat.le_of_lt (Nat.lt_of_le_of_lt (h.le x hx) hlt)

theorem ClientsOk.setClient {s : St} {cl : Client} (h : ClientsOk s) (hc : ClientOk cl) : ClientsOk (setClient s cl) := by
  intro x hx
  rcases mem_setClient hx with rfl | hm
  · exact hc
  · exact h x hm

theorem ClientsOk.of_eq {s s' : St} (h : ClientsOk s) (e : s'.clients = s.clients) : ClientsOk s' := by
  intro x hx; rw [e] at hx; exact h x hx

theorem getCons_mem {cl : Client} {h : Nat} {cs : Cons} (hg : getCons cl h = some cs) : (h, cs) ∈ cl.cons := by
  unfold getCons at hg
  cases hf : cl.cons.find? (fun x => x.1 == h) with
  | none => simp [hf] at hg
  | some x =>
    have hk : x.1 = h := by simpa using List.find?_some hf
    have hv : x.2 = cs := by simpa [hf] using hg
    have := List.mem_of_find?_eq_some hf
    rw [← hk, ← hv]; exact this

-- ---------------------------------------------------------------- what the validators establish

theorem compat_none {cs : Cons} {root : Nat} {ts : Option Nat} {q : Addr} (h : compat cs root ts q = none) :
    cs.root = root ∧ ∀ t, ts = some t → cs.ts = t := by
  unfold compat at h
  by_cases h1 : (cs.root != root) = true
  · simp [h1] at h
  · refine ⟨by simpa using h1, ?_⟩
    intro t ht
    subst ht
    simp only [h1, Bool.false_eq_true, if_false] at h
    by_cases h2 : (cs.ts != t) = true
    · simp [h2] at h
    · simpa using h2

theorem validateHeader_none {s : St} {ra : Nat} {st : Core.SInfo} {cs : Cons} {h : Nat} (hv : validateHeader s ra st cs h = none) :
    ∃ d, getDesc s ra h = some d ∧ Agrees cs d := by
  unfold validateHeader at hv
  split at hv
  · exact absurd hv (by simp)
  · cases hd : getDesc s ra h with
    | none => simp [hd] at hv
    | some d =>
      simp only [hd] at hv
      split at hv
      · exact absurd hv (by simp)
      · exact ⟨d, rfl, compat_none hv⟩

theorem validateRange_none {s : St} {cl : Client} {ra : Nat} {st : Core.SInfo} :
    ∀ (hs : List Nat) (m b : Bool), validateRange s cl ra st hs m = (b, none) →
      ∀ h ∈ hs, ∀ cs, getCons cl h = some cs → validateHeader s ra st cs h = none
  | [], _, _, _ => fun _ hh => absurd hh (by simp)
  | x :: xs, m, b, hv => by
    unfold validateRange at hv
    intro h hh cs hcs
    cases hx : getCons cl x with
    | none =>
      simp only [hx] at hv
      simp only [List.mem_cons] at hh
      rcases hh with rfl | hh
      · rw [hx] at hcs; exact absurd hcs (by simp)
      · exact validateRange_none xs m b hv h hh cs hcs
    | some c0 =>
      simp only [hx] at hv
      cases hvh : validateHeader s ra st c0 x with
      | some e => simp [hvh] at hv
      | none =>
        simp only [hvh] at hv
        simp only [List.mem_cons] at hh
        rcases hh with rfl | hh
        · rw [hx] at hcs; cases hcs; exact hvh
        · exact validateRange_none xs true b hv h hh cs hcs

theorem mem_heightsOf {st : Core.SInfo} {h : Nat} (h1 : st.start ≤ h) (h2 : h ≤ st.last) : h ∈ heightsOf st := by
  unfold heightsOf
  simp only [List.mem_map, List.mem_range]
  exact ⟨h - st.start, by omega, by omega⟩

theorem getCons_ibcApply {cl : Client} {hd : Hdr} {h : Nat} {cs : Cons} (hg : getCons (ibcApply cl hd) h = some cs) :
    getCons cl h = some cs ∨ (h = hd.h ∧ cs = hd.cons) := by
  unfold ibcApply at hg
  repeat' split at hg
  all_goals first
    | exact Or.inl hg
    | (rw [getCons_ins] at hg
       split at hg
       · rename_i e; cases hg; exact Or.inr ⟨e, rfl⟩
       · exact Or.inl hg)

theorem ibcApply_id (cl : Client) (hd : Hdr) : (ibcApply cl hd).id = cl.id := by
  unfold ibcApply
  repeat' split
  all_goals rfl

/-- what a successful `HandleMsgUpdateClient` leaves behind and what it has checked -/
theorem handleUpdate_ok {s s1 : St} {c : Nat} {hd : Hdr} (h : handleUpdate s c hd = (s1, none)) :
    s1.clients = s.clients ∧ s1.descs = s.descs ∧ s1.r2c = s.r2c ∧ s1.c2r = s.c2r ∧ s1.core = s.core ∧
    (∀ r, lookup s.c2r c = some r →
      ∃ q, Core.getSeq s.core hd.propData = some q ∧ hd.propSig = hd.propData ∧ q.bonded = true ∧
        (∃ ra, Core.getRa s.core q.rollapp = some ra ∧ hd.rev = Core.latestRev ra) ∧
        (q.rollapp = r → ∀ d, getDesc s r hd.h = some d → Agrees hd.cons d)) := by
  unfold handleUpdate at h
  simp only at h
  split at h
  · simp at h
  · rename_i hps
    cases hq : Core.getSeq s.core hd.propData with
    | none =>
      simp only [hq] at h
      split at h
      · simp at h
      · rename_i hcan
        simp only [Prod.mk.injEq, and_true] at h
        subst h
        refine ⟨rfl, rfl, rfl, rfl, rfl, ?_⟩
        intro r hr
        simp [hr] at hcan
    | some q =>
      simp only [hq] at h
      split at h
      · simp at h
      · rename_i hb
        cases hra : Core.getRa s.core q.rollapp with
        | none => simp [hra] at h
        | some ra =>
          simp only [hra] at h
          split at h
          · simp at h
          · rename_i hrev
            have hps' : hd.propSig = hd.propData := by simpa using hps
            have hb' : q.bonded = true := by simpa using hb
            have hrev' : hd.rev = Core.latestRev ra := by simpa using hrev
            cases hf : Core.findByHeight ra hd.h with
            | none =>
              simp only [hf] at h
              split at h
              · simp at h
              · rename_i hnd
                simp only [Prod.mk.injEq, and_true] at h
                subst h
                refine ⟨rfl, rfl, rfl, rfl, rfl, ?_⟩
                intro r _
                refine ⟨q, rfl, hps', hb', ⟨ra, hra, hrev'⟩, ?_⟩
                intro hqr d hd'
                subst hqr
                simp [hd'] at hnd
            | some i =>
              simp only [hf] at h
              cases hst : ra.states[i - 1]? with
              | none => simp [hst] at h
              | some st =>
                simp only [hst] at h
                cases hv : validateHeader s q.rollapp st hd.cons hd.h with
                | some e => simp [hv] at h
                | none =>
                  simp only [hv, Prod.mk.injEq, and_true] at h
                  subst h
                  refine ⟨rfl, rfl, rfl, rfl, rfl, ?_⟩
                  intro r _
                  refine ⟨q, rfl, hps', hb', ⟨ra, hra, hrev'⟩, ?_⟩
                  intro hqr d hd'
                  subst hqr
                  obtain ⟨d0, hd0, ha⟩ := validateHeader_none hv
                  rw [hd'] at hd0; cases hd0
                  exact ha

end DymVerif.LC

namespace DymVerif.LC
open DymVerif.Core (Addr NextP)

/-- agreement up to an exemption: pairs at exempt (rollapp, height) positions need not agree (yet) -/
def AgreeEx (E : Nat → Nat → Prop) (s : St) : Prop :=
  ∀ r c cl h cs d, lookup s.r2c r = some c → getClient s c = some cl → getCons cl h = some cs →
    getDesc s r h = some d → E r h ∨ Agrees cs d

theorem AgreeInv.toEx {s : St} (h : AgreeInv s) (E : Nat → Nat → Prop) : AgreeEx E s :=
  fun r c cl ht cs d a b e f => Or.inr (h r c cl ht cs d a b e f)

theorem AgreeEx.toInv {s : St} (h : AgreeEx (fun _ _ => False) s) : AgreeInv s :=
  fun r c cl ht cs d a b e f => (h r c cl ht cs d a b e f).elim False.elim id

theorem AgreeEx.of_eq {E : Nat → Nat → Prop} {s s' : St} (h : AgreeEx E s) (e1 : s'.clients = s.clients) (e2 : s'.descs = s.descs)
    (e3 : s'.r2c = s.r2c) : AgreeEx E s' := by
  intro r c cl ht cs d a b e f
  rw [e3] at a
  rw [getClient_congr e1] at b
  rw [getDesc_congr e2] at f
  exact h r c cl ht cs d a b e f

theorem getDesc_mem {s : St} {r h : Nat} {d : Desc} (hg : getDesc s r h = some d) : d ∈ s.descs ∧ d.ra = r ∧ d.h = h := by
  unfold getDesc at hg
  have hk := List.find?_some hg
  simp only [Bool.and_eq_true, beq_iff_eq] at hk
  exact ⟨List.mem_of_find?_eq_some hg, hk.1, hk.2⟩

-- ---------------------------------------------------------------- rollback

theorem rollbackClient_props {s : St} {ra lv c : Nat} {cl : Client} (hcl : getClient s c = some cl) {s' : St}
    (h : rollbackClient s ra lv c cl = (s', none)) :
    ∃ l, (cl.cons.filter (·.1 ≤ lv)).getLast? = some l ∧
      s'.r2c = s.r2c ∧ s'.core = s.core ∧
      s'.descs = s.descs.filter (fun d => !(d.ra == ra && lv < d.h)) ∧
      s'.clients = (setClient s { cl with cons := cl.cons.filter (·.1 ≤ lv), latest := l.1, frozen := true }).clients := by
  unfold rollbackClient at h
  cases hl : (cl.cons.filter (·.1 ≤ lv)).getLast? with
  | none => simp [hl] at h
  | some l =>
    simp only [hl, Prod.mk.injEq, and_true] at h
    subst h
    exact ⟨l, rfl, rfl, rfl, rfl, rfl⟩

theorem rollback_cases (s : St) (ra lv : Nat) :
    ((rollback s ra lv).1 = s ∧ ∃ e, (rollback s ra lv).2 = some e) ∨
    (∃ c cl l, lookup s.r2c ra = some c ∧ getClient s c = some cl ∧ (cl.cons.filter (·.1 ≤ lv)).getLast? = some l ∧
      (rollback s ra lv).2 = none ∧
      (rollback s ra lv).1.r2c = s.r2c ∧ (rollback s ra lv).1.core = s.core ∧
      (rollback s ra lv).1.descs = s.descs.filter (fun d => !(d.ra == ra && lv < d.h)) ∧
      (rollback s ra lv).1.clients = (setClient s { cl with cons := cl.cons.filter (·.1 ≤ lv), latest := l.1, frozen := true }).clients) := by
  unfold rollback
  cases hl : lookup s.r2c ra with
  | none => exact Or.inl ⟨rfl, _, rfl⟩
  | some c =>
    simp only
    cases hcl : getClient s c with
    | none => exact Or.inl ⟨rfl, _, rfl⟩
    | some cl =>
      simp only
      cases hr : rollbackClient s ra lv c cl with
      | mk s' oe =>
        cases oe with
        | some e =>
          left
          have := rollbackClient_err (s := s) (ra := ra) (lv := lv) (c := c) (cl := cl) (e := e) (by rw [hr])
          rw [hr] at this
          exact ⟨this, e, rfl⟩
        | none =>
          right
          obtain ⟨l, a1, a2, a3, a4, a5⟩ := rollbackClient_props hcl hr
          exact ⟨c, cl, l, rfl, hcl, a1, rfl, a2, a3, a4, a5⟩

theorem agreeEx_rollback {E : Nat → Nat → Prop} {s : St} (h : AgreeEx E s) (ra lv : Nat) : AgreeEx E (rollback s ra lv).1 := by
  rcases rollback_cases s ra lv with ⟨e, _⟩ | ⟨c, cl, l, hlk, hcl, hl, _, e1, _, e3, e4⟩
  · rw [e]; exact h
  · intro r c0 cl0 ht cs d a b g f
    rw [e1] at a
    obtain ⟨f', _⟩ := getDesc_filter e3 r ht d f
    have hb : getClient (rollback s ra lv).1 c0 = getClient (setClient s { cl with cons := cl.cons.filter (·.1 ≤ lv), latest := l.1, frozen := true }) c0 :=
      getClient_congr e4 c0
    rw [hb] at b
    by_cases hc : c0 = c
    · subst hc
      have hid := getClient_id hcl
      have : getClient (setClient s { cl with cons := cl.cons.filter (·.1 ≤ lv), latest := l.1, frozen := true }) c0 =
          some { cl with cons := cl.cons.filter (·.1 ≤ lv), latest := l.1, frozen := true } := by
        have := getClient_setClient_self (s := s) (cl := { cl with cons := cl.cons.filter (·.1 ≤ lv), latest := l.1, frozen := true }) (old := cl) (by simpa [hid] using hcl)
        simpa [hid] using this
      rw [this] at b
      cases b
      obtain ⟨g', _⟩ := getCons_filter_sub cl lv ht l.1 true cs g
      exact h r c0 cl ht cs d a hcl g' f'
    · have hne : c0 ≠ ({ cl with cons := cl.cons.filter (·.1 ≤ lv), latest := l.1, frozen := true } : Client).id := by
        simpa [getClient_id hcl] using hc
      rw [getClient_setClient_ne hne] at b
      exact h r c0 cl0 ht cs d a b g f'

theorem clientsOk_rollback {s : St} (h : ClientsOk s) (ra lv : Nat) : ClientsOk (rollback s ra lv).1 := by
  rcases rollback_cases s ra lv with ⟨e, _⟩ | ⟨c, cl, l, _, hcl, hl, _, _, _, _, e4⟩
  · rw [e]; exact h
  · exact ClientsOk.of_eq (ClientsOk.setClient h (clientOk_rollback (h cl (getClient_mem hcl)) lv l hl)) e4

theorem descs_rollback_sub (s : St) (ra lv : Nat) : ∀ d ∈ (rollback s ra lv).1.descs, d ∈ s.descs := by
  rcases rollback_cases s ra lv with ⟨e, _⟩ | ⟨_, _, _, _, _, _, _, _, _, e3, _⟩
  · rw [e]; exact fun d hd => hd
  · rw [e3]; exact fun d hd => (List.mem_filter.1 hd).1

theorem core_rollback (s : St) (ra lv : Nat) : (rollback s ra lv).1.core = s.core := by
  rcases rollback_cases s ra lv with ⟨e, _⟩ | ⟨_, _, _, _, _, _, _, _, e2, _, _⟩
  · rw [e]
  · exact e2

theorem applyForks_props {E : Nat → Nat → Prop} : ∀ (l : List (Nat × Nat)) (s : St), AgreeEx E s → ClientsOk s →
    AgreeEx E (applyForks s l).1 ∧ ClientsOk (applyForks s l).1 ∧ (∀ d ∈ (applyForks s l).1.descs, d ∈ s.descs) ∧ (applyForks s l).1.core = s.core
  | [], s, h1, h2 => ⟨h1, h2, fun _ hd => hd, rfl⟩
  | (ra, lv) :: rest, s, h1, h2 => by
    unfold applyForks
    cases hr : rollback s ra lv with
    | mk s1 oe =>
      cases oe with
      | some e => exact ⟨h1, h2, fun _ hd => hd, rfl⟩
      | none =>
        simp only
        have a1 := agreeEx_rollback h1 ra lv
        have a2 := clientsOk_rollback h2 ra lv
        have a3 := descs_rollback_sub s ra lv
        have a4 := core_rollback s ra lv
        rw [hr] at a1 a2 a3 a4
        obtain ⟨b1, b2, b3, b4⟩ := applyForks_props rest s1 a1 a2
        exact ⟨b1, b2, fun d hd => a3 d (b3 d hd), b4.trans a4⟩

end DymVerif.LC

namespace DymVerif.LC
open DymVerif.Core (Addr NextP)

-- ---------------------------------------------------------------- state updates

/-- positions covered by the descriptors of update `m` -/
def IsNew (m : Core.UpdMsg) (r h : Nat) : Prop := r = m.ra ∧ m.start ≤ h

/-- every stored descriptor of the updated rollapp at or above the update's start height is one of the
    `n` new ones -/
def NewBound (m : Core.UpdMsg) (n : Nat) (s : St) : Prop := ∀ d ∈ s.descs, d.ra = m.ra → m.start ≤ d.h → d.h < m.start + n

theorem mem_zipIdx_desc {ds : List (Nat × Option Nat)} {ra start : Nat} {d : Desc}
    (hd : d ∈ ds.zipIdx.map (fun (x : (Nat × Option Nat) × Nat) => ({ ra := ra, h := start + x.2, root := x.1.1, ts := x.1.2 } : Desc))) :
    d.ra = ra ∧ start ≤ d.h ∧ d.h < start + ds.length := by
  simp only [List.mem_map] at hd
  obtain ⟨⟨a, i⟩, hx, rfl⟩ := hd
  obtain ⟨_, h2, _⟩ := List.mem_zipIdx hx
  refine ⟨rfl, ?_, ?_⟩
  · show start ≤ start + i
    omega
  · show start + i < start + ds.length
    omega

theorem withDescs_update {s1 s2 : St} {m : Core.UpdMsg} {ds : List (Nat × Option Nat)} (h : withDescs s1 (.update m) ds = some s2)
    (ha : AgreeInv s1) :
    AgreeEx (IsNew m) s2 ∧ NewBound m ds.length s2 ∧ s2.clients = s1.clients ∧ s2.r2c = s1.r2c ∧ s2.c2r = s1.c2r ∧ s2.core = s1.core := by
  unfold withDescs at h
  simp only at h
  split at h
  · exact absurd h (by simp)
  · rename_i hany
    simp only [Option.some.injEq] at h
    subst h
    refine ⟨?_, ?_, rfl, rfl, rfl, rfl⟩
    · intro r c cl ht cs d a b g f
      cases ho : getDesc s1 r ht with
      | some d0 =>
        have := getDesc_append_left (s := s1) _ (addDescs s1 m.ra m.start ds) rfl ho
        rw [this] at f
        simp only [Option.some.injEq] at f
        subst f
        exact Or.inr (ha r c cl ht cs d0 a b g ho)
      | none =>
        left
        have := getDesc_append_none (s := s1) _ (addDescs s1 m.ra m.start ds) rfl ho
        rw [this] at f
        have hm := List.mem_of_find?_eq_some f
        have hk := List.find?_some f
        simp only [Bool.and_eq_true, beq_iff_eq] at hk
        obtain ⟨e1, e2, _⟩ := mem_zipIdx_desc hm
        exact ⟨hk.1 ▸ e1, hk.2 ▸ e2⟩
    · intro d hd hra hst
      simp only [addDescs, List.mem_append] at hd
      rcases hd with hd | hd
      · exfalso
        apply hany
        simp only [List.any_eq_true]
        exact ⟨d, hd, by simp [hra, hst]⟩
      · exact (mem_zipIdx_desc hd).2.2

theorem withDescs_other {s1 s2 : St} {o : Core.Op} {ds : List (Nat × Option Nat)} (h : withDescs s1 o ds = some s2)
    (hno : ∀ m, o ≠ .update m) : s2 = s1 := by
  unfold withDescs at h
  split at h
  · rename_i m; exact absurd rfl (hno m)
  · simpa using h.symm

theorem resolveFork_ok {s s4 : St} {ra : Nat} {st : Core.SInfo} {cl : Client} (h : resolveFork s ra st cl = (s4, none)) :
    cl.latest < st.start ∧ ∃ d, getDesc s ra st.start = some d ∧
      s4 = setClient s { cl with cons := insCons st.start ⟨d.root, d.ts.getD 0, valHash st.creator⟩ cl.cons, latest := st.start, frozen := false } := by
  unfold resolveFork at h
  split at h
  · simp at h
  · rename_i hlt
    cases hd : getDesc s ra st.start with
    | none => simp [hd] at h
    | some d =>
      simp only [hd, Prod.mk.injEq, and_true] at h
      exact ⟨by omega, d, rfl, h.symm⟩

theorem validateNew_ok {s s4 : St} {ra : Nat} {st : Core.SInfo} {c : Nat} {cl : Client} (h : validateNew s ra st c cl = (s4, none)) :
    s4 = pruneBelow s c (st.last + 1) ∧ ∃ b, validateStateInfo s cl ra st = (b, none) := by
  unfold validateNew at h
  cases hv : validateStateInfo s cl ra st with
  | mk b oe =>
    cases oe with
    | some e => simp [hv] at h
    | none =>
      simp only [hv, Prod.mk.injEq, and_true] at h
      exact ⟨h.symm, b, rfl⟩

/-- the x/lightclient hook after an accepted update re-establishes full agreement -/
theorem afterUpdate_agree {s3 s4 : St} {m : Core.UpdMsg} {n : Nat} {st : Core.SInfo}
    (hm : MapsInv s3) (hc : ClientsOk s3) (ha : AgreeEx (IsNew m) s3) (hb : NewBound m n s3)
    (hst : st.start = m.start) (hn : st.last + 1 - st.start = n)
    (h : afterUpdate s3 m.ra m.rev st = (s4, none)) : AgreeInv s4 ∧ ClientsOk s4 := by
  unfold afterUpdate at h
  cases hl : lookup s3.r2c m.ra with
  | none =>
    simp only [hl, Prod.mk.injEq, and_true] at h
    subst h
    refine ⟨?_, hc⟩
    intro r c cl ht cs d a b g f
    rcases ha r c cl ht cs d a b g f with ⟨e, _⟩ | h2
    · subst e; rw [hl] at a; exact absurd a (by simp)
    · exact h2
  | some c =>
    simp only [hl] at h
    cases hcl : getClient s3 c with
    | none => simp [hcl] at h
    | some cl =>
      cases hr : Core.getRa s3.core m.ra with
      | none => simp [hcl, hr] at h
      | some r0 =>
        simp only [hcl, hr] at h
        -- the canonical client of any rollapp other than `m.ra` is another client
        have huniq : ∀ r c0, lookup s3.r2c r = some c0 → c0 = c → r = m.ra := by
          intro r c0 a e
          subst e
          have h1 := hm.r2c_c2r r c0 a
          have h2 := hm.r2c_c2r m.ra c0 hl
          rw [h1] at h2; simpa using h2
        split at h
        · -- ResolveHardFork
          obtain ⟨hlt, d0, hd0, e4⟩ := resolveFork_ok h
          subst e4
          have hid := getClient_id hcl
          refine ⟨?_, ClientsOk.setClient hc (clientOk_resolve (hc cl (getClient_mem hcl)) _ _ hlt)⟩
          intro r c0 cl0 ht cs d a b g f
          simp only [setClient_r2c] at a
          rw [getDesc_congr (setClient_descs _ _)] at f
          by_cases hcc : c0 = c
          · subst hcc
            have hr' := huniq r c0 a rfl
            subst hr'
            have : getClient (setClient s3 { cl with cons := insCons st.start ⟨d0.root, d0.ts.getD 0, valHash st.creator⟩ cl.cons, latest := st.start, frozen := false }) c0 =
                some { cl with cons := insCons st.start ⟨d0.root, d0.ts.getD 0, valHash st.creator⟩ cl.cons, latest := st.start, frozen := false } := by
              have := getClient_setClient_self (s := s3) (cl := { cl with cons := insCons st.start ⟨d0.root, d0.ts.getD 0, valHash st.creator⟩ cl.cons, latest := st.start, frozen := false }) (old := cl) (by simpa [hid] using hcl)
              simpa [hid] using this
            rw [this] at b; cases b
            rw [getCons_ins] at g
            split at g
            · rename_i e
              subst e
              cases g
              rw [hd0] at f; cases f
              refine ⟨rfl, ?_⟩
              intro t ht'
              simp [ht']
            · rename_i hne
              rcases ha m.ra c0 cl ht cs d a hcl g f with ⟨_, e2⟩ | h2
              · exfalso
                have := (hc cl (getClient_mem hcl)).le _ (getCons_mem g)
                simp only at this
                omega
              · exact h2
          · have hne : c0 ≠ ({ cl with cons := insCons st.start ⟨d0.root, d0.ts.getD 0, valHash st.creator⟩ cl.cons, latest := st.start, frozen := false } : Client).id := by
              simpa [hid] using hcc
            rw [getClient_setClient_ne hne] at b
            rcases ha r c0 cl0 ht cs d a b g f with ⟨e, _⟩ | h2
            · subst e; rw [hl] at a; simp only [Option.some.injEq] at a; exact absurd a.symm hcc
            · exact h2
        · -- validate against optimistic headers
          obtain ⟨e4, b0, hv⟩ := validateNew_ok h
          subst e4
          refine ⟨?_, ClientsOk.of_eq hc rfl⟩
          intro r c0 cl0 ht cs d a b g f
          have a' : lookup s3.r2c r = some c0 := a
          have b' : getClient s3 c0 = some cl0 := b
          have f' : getDesc s3 r ht = some d := f
          rcases ha r c0 cl0 ht cs d a' b' g f' with ⟨e, hge⟩ | h2
          · subst e
            rw [hl] at a'; simp only [Option.some.injEq] at a'; subst a'
            rw [hcl] at b'; cases b'
            obtain ⟨hdm, hdr, hdh⟩ := getDesc_mem f'
            have hub := hb d hdm hdr (by omega)
            have hmem : ht ∈ heightsOf st := mem_heightsOf (by omega) (by omega)
            unfold validateStateInfo at hv
            have := validateRange_none _ _ _ hv ht hmem cs g
            obtain ⟨d', hd', hag⟩ := validateHeader_none this
            rw [f'] at hd'; cases hd'
            exact hag
          · exact h2

end DymVerif.LC
