/-
  Lemmas/DymNSGov — the governance paths (chain-id migration, alias update, parameter update) and
  the RollApp ownership transfer of x/rollapp: what they change, and that the state invariant
  survives them.  In particular: the chain-id migration rewrites records with `SetDymName` WITHOUT the
  Before/After config hooks, and the three reverse indexes stay exact all the same, because the keys
  of those indexes are computed from the values and the default-ness of the configs only — and the
  migration never turns an empty chain-id into a non-empty one or back.
-/
import DymVerif.Lemmas.DymNSInv2
namespace DymVerif.DymNS
open AMap

/-! ### one config, one record -/

theorem litChain_ne_zero (c : Chain) : litChain c ≠ 0 := by
  unfold litChain hostLit
  split
  · decide
  · assumption

@[simp] theorem migConfig_path (m : List (Chain × Chain)) (c : Config) : (migConfig m c).path = c.path := by
  unfold migConfig; split
  · rfl
  · split <;> rfl

@[simp] theorem migConfig_value (m : List (Chain × Chain)) (c : Config) : (migConfig m c).value = c.value := by
  unfold migConfig; split
  · rfl
  · split <;> rfl

theorem migConfig_chain_zero (m : List (Chain × Chain)) (c : Config) : (migConfig m c).chain = 0 ↔ c.chain = 0 := by
  unfold migConfig
  split
  · rename_i h; simp [h]
  · rename_i h
    split
    · simp [h, litChain_ne_zero]
    · simp [h]

@[simp] theorem migConfig_isDefault (m : List (Chain × Chain)) (c : Config) :
    (migConfig m c).isDefault = c.isDefault := by
  have := migConfig_chain_zero m c
  simp only [Config.isDefault, migConfig_path]
  by_cases h : c.chain = 0
  · simp [h, this.mpr h]
  · have h' : ¬ (migConfig m c).chain = 0 := fun e => h (this.mp e)
    simp [h, h']

/-- a config on the empty chain-id is not touched -/
theorem migConfig_of_zero (m : List (Chain × Chain)) {c : Config} (h : c.chain = 0) : migConfig m c = c := by
  unfold migConfig; simp [h]

theorem any_isDefault_map_mig (m : List (Chain × Chain)) (l : List Config) :
    (l.map (migConfig m)).any Config.isDefault = l.any Config.isDefault := by
  induction l with
  | nil => rfl
  | cons c l ih => simp [List.any_cons, ih]

/-- the configs the reverse mapping works on, after rewriting the chain-ids: the same configs,
    rewritten one by one (the fake default record is on the empty chain-id) -/
theorem revConfigs_mig (m : List (Chain × Chain)) (d : DymName) :
    ({ d with configs := d.configs.map (migConfig m) } : DymName).revConfigs = d.revConfigs.map (migConfig m) := by
  unfold DymName.revConfigs
  simp only [any_isDefault_map_mig]
  split
  · rfl
  · simp [List.map_append, migConfig_of_zero m (c := ⟨0, 0, hostAddr d.owner⟩) rfl]

theorem cfgAddrs_mig (m : List (Chain × Chain)) (d : DymName) :
    ({ d with configs := d.configs.map (migConfig m) } : DymName).cfgAddrs = d.cfgAddrs := by
  unfold DymName.cfgAddrs
  rw [revConfigs_mig, List.map_map]
  congr 1
  funext c; simp

theorem fbAddrs_mig (m : List (Chain × Chain)) (d : DymName) :
    ({ d with configs := d.configs.map (migConfig m) } : DymName).fbAddrs = d.fbAddrs := by
  unfold DymName.fbAddrs
  rw [revConfigs_mig, List.filter_map, List.map_map]
  have h1 : (Config.isDefault ∘ migConfig m) = Config.isDefault := by funext c; simp
  have h2 : ((fun x : Config => x.value.acct) ∘ migConfig m) = (fun x : Config => x.value.acct) := by funext c; simp
  rw [h1, h2]

/-- `migName` rewrites nothing but the list of configs -/
theorem migName_cases (now : Nat) (m : List (Chain × Chain)) (d : DymName) :
    migName now m d = d ∨
    (d.expired now = false ∧ ((d.configs.map (migConfig m)).map cid).Nodup ∧
      migName now m d = { d with configs := d.configs.map (migConfig m) }) := by
  unfold migName
  split
  · exact Or.inl rfl
  · rename_i he
    split
    · rename_i hn
      exact Or.inr ⟨by simpa using he, hn, rfl⟩
    · exact Or.inl rfl

@[simp] theorem migName_owner (now : Nat) (m : List (Chain × Chain)) (d : DymName) : (migName now m d).owner = d.owner := by
  rcases migName_cases now m d with h | ⟨_, _, h⟩ <;> rw [h]
@[simp] theorem migName_controller (now : Nat) (m : List (Chain × Chain)) (d : DymName) :
    (migName now m d).controller = d.controller := by
  rcases migName_cases now m d with h | ⟨_, _, h⟩ <;> rw [h]
@[simp] theorem migName_expireAt (now : Nat) (m : List (Chain × Chain)) (d : DymName) :
    (migName now m d).expireAt = d.expireAt := by
  rcases migName_cases now m d with h | ⟨_, _, h⟩ <;> rw [h]
@[simp] theorem migName_contact (now : Nat) (m : List (Chain × Chain)) (d : DymName) :
    (migName now m d).contact = d.contact := by
  rcases migName_cases now m d with h | ⟨_, _, h⟩ <;> rw [h]

theorem migName_cfgAddrs (now : Nat) (m : List (Chain × Chain)) (d : DymName) : (migName now m d).cfgAddrs = d.cfgAddrs := by
  rcases migName_cases now m d with h | ⟨_, _, h⟩ <;> rw [h]
  exact cfgAddrs_mig m d

theorem migName_fbAddrs (now : Nat) (m : List (Chain × Chain)) (d : DymName) : (migName now m d).fbAddrs = d.fbAddrs := by
  rcases migName_cases now m d with h | ⟨_, _, h⟩ <;> rw [h]
  exact fbAddrs_mig m d

/-! ### the whole name store -/

theorem AMap.get_mapVal {κ ν : Type} [DecidableEq κ] (m : AMap κ ν) (f : ν → ν) (k : κ) :
    AMap.get (m.map (fun e => (e.1, f e.2))) k = (AMap.get m k).map f := by
  induction m with
  | nil => rfl
  | cons e m ih =>
    obtain ⟨k0, v0⟩ := e
    by_cases h : k = k0
    · simp [AMap.get, h]
    · simp [AMap.get, h, ih]

/-- every record rewritten by `f`, the indexes left alone -/
def NameStore.mapRecords (ns : NameStore) (f : DymName → DymName) : NameStore :=
  { ns with names := ns.names.map (fun e => (e.1, f e.2)) }

theorem NameStore.get_mapRecords (ns : NameStore) (f : DymName → DymName) (n : Name) :
    (ns.mapRecords f).get n = (ns.get n).map f := by
  simp [NameStore.mapRecords, NameStore.get, AMap.get_mapVal]

/-- rewriting the records without touching the indexes keeps the indexes exact, as long as the
    rewrite keeps what the index keys are computed from -/
theorem NameStore.idxOK_mapRecords {ns : NameStore} {f : DymName → DymName} (h : IdxOK ns)
    (ho : ∀ d, (f d).owner = d.owner) (hc : ∀ d, (f d).cfgAddrs = d.cfgAddrs) (hf : ∀ d, (f d).fbAddrs = d.fbAddrs) :
    IdxOK (ns.mapRecords f) := by
  refine ⟨fun a n => ?_, fun x n => ?_, fun b n => ?_⟩
  · have : (ns.mapRecords f).ownIdx = ns.ownIdx := rfl
    rw [this, h.own, NameStore.get_mapRecords]
    cases ns.get n with
    | none => simp
    | some d => simp [ho]
  · have : (ns.mapRecords f).cfgIdx = ns.cfgIdx := rfl
    rw [this, h.cfg, NameStore.get_mapRecords]
    cases ns.get n with
    | none => simp
    | some d => simp [hc]
  · have : (ns.mapRecords f).fbIdx = ns.fbIdx := rfl
    rw [this, h.fb, NameStore.get_mapRecords]
    cases ns.get n with
    | none => simp
    | some d => simp [hf]

/-- **the chain-id migration keeps the three reverse indexes exact although it skips the hooks** -/
theorem NameStore.idxOK_migrate {ns : NameStore} (now : Nat) (m : List (Chain × Chain)) (h : IdxOK ns) :
    IdxOK (ns.mapRecords (migName now m)) :=
  NameStore.idxOK_mapRecords h (migName_owner now m) (migName_cfgAddrs now m) (migName_fbAddrs now m)

/-! ### the operations -/

/-- the state after an accepted chain-id migration -/
def migrateT (s : State) (m : List (Chain × Chain)) : State :=
  { s with p := { s.p with chainAliases := migrateCA s.p.chainAliases m },
           ns := s.ns.mapRecords (migName s.now m) }

theorem migrateChainIds_ok {s s' : State} {m : List (Chain × Chain)} (h : migrateChainIds s m = .ok s') :
    s' = migrateT s m ∧ migValid m = true ∧ caValid (migrateCA s.p.chainAliases m) = true := by
  unfold migrateChainIds at h
  mcases' h
  injection h with h
  exact ⟨h.symm, by assumption, by assumption⟩

theorem getName_migrateT (s : State) (m : List (Chain × Chain)) (n : Name) :
    getName (migrateT s m) n = (getName s n).map (migName s.now m) := by
  simp [getName, migrateT, NameStore.get_mapRecords]

theorem migrateChainIds_inv {s s' : State} {m : List (Chain × Chain)} (hI : Inv s)
    (h : migrateChainIds s m = .ok s') : Inv s' := by
  obtain ⟨rfl, _, _⟩ := migrateChainIds_ok h
  refine { wfN := hI.wfN, wfA := hI.wfA, wfB := hI.wfB, esc := hI.esc,
           idx := NameStore.idxOK_migrate s.now m hI.idx, ali := hI.ali, so := ?_, boK := hI.boK }
  intro n so hso
  obtain ⟨d, hd, hlt⟩ := hI.so n so hso
  refine ⟨migName s.now m d, ?_, ?_⟩
  · show (s.ns.mapRecords (migName s.now m)).get n = _
    rw [NameStore.get_mapRecords, hd]; rfl
  · simpa using hlt

/-- an operation that only rewrites the module params -/
theorem paramsChanged_inv {s : State} (p' : Params) (hI : Inv s) : Inv { s with p := p' } :=
  { wfN := hI.wfN, wfA := hI.wfA, wfB := hI.wfB, esc := hI.esc, idx := hI.idx, ali := hI.ali, so := hI.so, boK := hI.boK }

theorem updateAliases_ok {s s' : State} {ad rm : List (Chain × AliasId)} (h : updateAliases s ad rm = .ok s') :
    ∃ ca, s' = { s with p := { s.p with chainAliases := ca } } ∧ caValid ca = true := by
  unfold updateAliases at h
  mcases' h
  injection h with h
  exact ⟨_, h.symm, by assumption⟩

theorem updateAliases_inv {s s' : State} {ad rm : List (Chain × AliasId)} (hI : Inv s)
    (h : updateAliases s ad rm = .ok s') : Inv s' := by
  obtain ⟨ca, rfl, _⟩ := updateAliases_ok h
  exact paramsChanged_inv _ hI

theorem setParams_ok {s s' : State} {g d mo bi : Nat} (h : setParams s g d mo bi = .ok s') :
    s' = { s with p := { s.p with grace := g, soDur := d, minOffer := mo, bidInc := bi } } ∧
      minPriceValue ≤ mo ∧ bi ≤ 10 ∧ 30 * 86400 ≤ g ∧ 1 ≤ d ∧ d ≤ 7 * 86400 := by
  unfold setParams at h
  mcases' h
  injection h with h
  rename (1 ≤ d ∧ d ≤ 7 * 86400) => hd
  exact ⟨h.symm, by assumption, by assumption, by assumption, hd.1, hd.2⟩

theorem setParams_inv {s s' : State} {g d mo bi : Nat} (hI : Inv s) (h : setParams s g d mo bi = .ok s') : Inv s' := by
  obtain ⟨rfl, _⟩ := setParams_ok h
  exact paramsChanged_inv _ hI

/-- the state after an accepted RollApp ownership transfer -/
def transferRollappT (s : State) (c : Chain) (r : Rollapp) (b : Acct) : State :=
  { s with al := { s.al with rollapps := AMap.set s.al.rollapps c { r with owner := b } } }

theorem transferRollapp_ok {s s' : State} {a b : Acct} {c : Chain} (h : transferRollapp s a c b = .ok s') :
    ∃ r, AMap.get s.al.rollapps c = some r ∧ r.owner = a ∧ a ≠ b ∧ s' = transferRollappT s c r b := by
  unfold transferRollapp at h
  mcases' h
  injection h with h
  rename (Rollapp) => r
  rename (r.owner = a) => ho
  rename (r.owner ≠ b) => hne
  exact ⟨r, by assumption, ho, by rw [← ho]; exact hne, h.symm⟩

end DymVerif.DymNS
