/-
  Lemmas/GenEqIBC — the facts regenerated from the Go sources (Gen/IBC.lean, rewritten on every check)
  are the ones M-GB and M-LC are built on.  A change of the Go side breaks one of these lemmas.
-/
import DymVerif.Gen.IBC
import DymVerif.Model.GB
import DymVerif.Model.LC
namespace DymVerif.GenEq
open DymVerif

/-- M-GB uses the account limit and the IRO minimum allocation of the sources -/
theorem maxGenesisAccounts_eq : Gen.IBC.maxAllowedGenesisAccounts = GB.maxGenesisAccounts := rfl
theorem minTokenAllocation_eq : Gen.IBC.minTokenAllocation = GB.minTokenAllocation := rfl
/-- checksum tokens ≥ 1000 of M-GB stand for strings longer than this (the harness uses length + 1) -/
theorem maxGenesisChecksumLength_eq : Gen.IBC.maxGenesisChecksumLength = 64 := rfl
theorem hubRecipient_eq : Gen.IBC.hubRecipient = "dym1mk7pw34ypusacm29m92zshgxee3yreums8avur" := rfl

/-- M-LC `updateClient … .nested = ante nestedDisabled`: ibc `MsgUpdateClient` is refused inside wrappers … -/
theorem nested_update_blocked : Gen.IBC.nestedBlocked = ["ibcclienttypes.MsgUpdateClient"] := rfl
/-- … and that is the only message type refused there: M-LC `misbehaviour … .submitNested` is not stopped by it -/
theorem nested_misbehaviour_not_blocked :
    Gen.IBC.nestedBlocked.all (· != "ibcclienttypes.MsgSubmitMisbehaviour") = true ∧
    Gen.IBC.alwaysBlocked.all (· != "ibcclienttypes.MsgSubmitMisbehaviour") = true := by decide
/-- `IBCMessagesDecorator` handles exactly these three message types, at top level only -/
theorem ante_handled : Gen.IBC.anteHandled =
    ["ibcclienttypes.MsgSubmitMisbehaviour", "ibcclienttypes.MsgUpdateClient", "ibcchanneltypes.MsgChannelOpenAck"] := rfl
theorem ante_top_level_only : Gen.IBC.anteHandlesNested = false := rfl
/-- M-LC `checkList` ranges over the candidate's lists and compares no lengths, as `IsCanonicalClientParamsValid` does -/
theorem params_loops_over_candidate :
    Gen.IBC.paramsLoopsOver = ["got.ProofSpecs", "got.UpgradePath"] ∧ Gen.IBC.paramsComparesLengths = false := ⟨rfl, rfl⟩
theorem expected_upgrade_path_length : Gen.IBC.expectedUpgradePath.length = LC.expPath.length := rfl

end DymVerif.GenEq
