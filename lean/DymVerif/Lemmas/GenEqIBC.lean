/-
  Lemmas/GenEqIBC — the facts regenerated from the Go sources (Gen/IBC.lean, rewritten on every check)
  are the ones M-GB and M-LC are built on.  A change of the Go side breaks one of these lemmas.
-/
import DymVerif.Gen.IBC
import DymVerif.Model.GB
import DymVerif.Model.LC
namespace DymVerif.GenEq
open DymVerif

/-- M-GB uses the account limit and the IRO minimum allocation of the sources -/
theorem maxGenesisAccounts_eq : Gen.IBC.maxAllowedGenesisAccounts = GB.maxGenesisAccounts := rfl
theorem minTokenAllocation_eq : Gen.IBC.minTokenAllocation = GB.minTokenAllocation := rfl
/-- checksum tokens ≥ 1000 of M-GB stand for strings longer than this (the harness uses length + 1) -/
theorem maxGenesisChecksumLength_eq : Gen.IBC.maxGenesisChecksumLength = 64 := rfl
theorem hubRecipient_eq : Gen.IBC.hubRecipient = "dym1mk7pw34ypusacm29m92zshgxee3yreums8avur" := rfl

/-- M-LC `updateClient … .nested` and `misbehaviour … .submitNested` are refused by the ante handler: both ibc
    message types are refused inside wrappers -/
theorem nested_blocked : Gen.IBC.nestedBlocked = ["ibcclienttypes.MsgUpdateClient", "ibcclienttypes.MsgSubmitMisbehaviour"] := rfl
/-- `IBCMessagesDecorator` handles exactly these three message types, at top level only -/
theorem ante_handled : Gen.IBC.anteHandled =
    ["ibcclienttypes.MsgSubmitMisbehaviour", "ibcclienttypes.MsgUpdateClient", "ibcchanneltypes.MsgChannelOpenAck"] := rfl
theorem ante_top_level_only : Gen.IBC.anteHandlesNested = false := rfl
/-- M-LC `mixedRefusal` (Model/LCTx): before it looks at any message the decorator refuses a transaction in which one of
    its three checked message types travels with a message whose type URL does not start with `/ibc.core.` -/
theorem ante_refuses_mixed :
    Gen.IBC.anteRefusesMixedFirst = true ∧
    Gen.IBC.mixedCheckedTypes = ["ibcclienttypes.MsgUpdateClient", "ibcclienttypes.MsgSubmitMisbehaviour", "ibcchanneltypes.MsgChannelOpenAck"] ∧
    Gen.IBC.mixedAllowedPrefixes = ["/ibc.core."] := ⟨rfl, rfl, rfl⟩
/-- M-LC `paramsCheck` compares the lengths of the candidate's lists before their elements, as
    `IsCanonicalClientParamsValid` does -/
theorem params_compares_lengths :
    Gen.IBC.paramsLoopsOver = ["got.ProofSpecs", "got.UpgradePath"] ∧ Gen.IBC.paramsComparesLengths = true := ⟨rfl, rfl⟩
/-- M-LC `firstConsHeight` is the numerically lowest height; `resolveFork` uses `nextSeqFor`; `handleUpdate` checks
    `foreignSeq` and `Hdr.sole` -/
theorem lightclient_shapes :
    Gen.IBC.firstConsHeightNumeric = true ∧ Gen.IBC.resolveUsesNextSequencer = true ∧ Gen.IBC.updateChecksSequencerRollapp = true ∧
    Gen.IBC.updateChecksValidatorSet = true :=
  ⟨rfl, rfl, rfl, rfl⟩
theorem expected_upgrade_path_length : Gen.IBC.expectedUpgradePath.length = LC.expPath.length := rfl

end DymVerif.GenEq
