/-
  Lemmas/GenEqGBPlan — tie 1 for the IRO-plan steps of M-GB (`stepPlan`, `stepEnable`): the statement
  skeletons regenerated from /repo on every run (`Gen/GBPlan.lean`, by translate/gbplan.go: every
  statement of the function body in source order — guards, assignments, calls, returns) are the ones
  the model was written against.

  What the model takes from them:
  * `SetIROPlanToRollapp`: three refusals (launched, sealed, not IRO-ready), then
    `rollapp.GenesisInfo.Sealed = true` UNCONDITIONALLY and BEFORE the trading flag is looked at, then the
    pre-launch time (the plan's, or block time + 10 years when trading is not enabled), one `SetRollapp`,
    no return in between (`stepPlan`: `gi := { ra.gi with sealed := true }` in the only accepting branch);
  * `SetPreLaunchTime` writes the pre-launch time and nothing else;
  * `Keeper.EnableTrading`: plan found, not enabled yet, rollapp found, submitter is the owner, not
    settled — in this order — then `EnableTradingWithStartTime(block time)`, `SetPlan`,
    `SetPreLaunchTime(plan.PreLaunchTime)` (`stepEnable`);
  * `Plan.EnableTradingWithStartTime`: flag, start time, pre-launch time = start + duration (`planPreLaunch`);
  * the head of `Keeper.CreatePlan`: trading enabled at creation starts at max(start time, block time)
    (the harness sends no start time), then `SetIROPlanToRollapp`.
  Moving the sealing line behind a return, dropping the owner check or changing the parking distance
  breaks the corresponding lemma.
-/
import DymVerif.Gen.GBPlan
import DymVerif.Model.GB
namespace DymVerif.GenEq.GBPlan
open DymVerif

/-- `Keeper.SetIROPlanToRollapp` (x/rollapp/keeper/rollapp.go) as mirrored by `GB.stepPlan` -/
theorem setIROPlanToRollapp_skeleton : Gen.GBPlan.setIROPlanToRollapp =
  ["if rollapp.Launched {",
   "return errorsmod.Wrap(gerrc.ErrFailedPrecondition, \"rollapp already launched\")",
   "}",
   "if rollapp.GenesisInfo.Sealed {",
   "return errorsmod.Wrap(gerrc.ErrFailedPrecondition, \"genesis info already sealed\")",
   "}",
   "if !rollapp.GenesisInfo.IROReady() {",
   "return errorsmod.Wrap(gerrc.ErrFailedPrecondition, \"genesis info not set\")",
   "}",
   "set rollapp.GenesisInfo.Sealed = true",
   "let preLaunchTime := plan.PreLaunchTime",
   "if !plan.TradingEnabled {",
   "set preLaunchTime = ctx.BlockTime().Add(time.Hour * 24 * 365 * 10)",
   "}",
   "set rollapp.PreLaunchTime = &preLaunchTime",
   "call k.SetRollapp(ctx, *rollapp)",
   "return nil"] := rfl

/-- `Keeper.SetPreLaunchTime` (x/rollapp/keeper/rollapp.go) -/
theorem setPreLaunchTime_skeleton : Gen.GBPlan.setPreLaunchTime =
  ["set rollapp.PreLaunchTime = &preLaunchTime",
   "call k.SetRollapp(ctx, *rollapp)"] := rfl

/-- `Keeper.EnableTrading` (x/iro/keeper/trade.go) as mirrored by `GB.stepEnable` -/
theorem enableTrading_skeleton : Gen.GBPlan.enableTrading =
  ["let plan, ok := k.GetPlan(ctx, planId)",
   "if !ok {",
   "return types.ErrPlanNotFound",
   "}",
   "if plan.TradingEnabled {",
   "return errorsmod.Wrap(gerrc.ErrFailedPrecondition, \"trading already enabled\")",
   "}",
   "let rollapp, found := k.rk.GetRollapp(ctx, plan.RollappId)",
   "if !found {",
   "return errorsmod.Wrap(gerrc.ErrFailedPrecondition, \"rollapp not found\")",
   "}",
   "let owner := sdk.MustAccAddressFromBech32(rollapp.Owner)",
   "if !owner.Equals(submitter) {",
   "return errorsmod.Wrap(gerrc.ErrPermissionDenied, \"not the owner of the RollApp\")",
   "}",
   "if plan.IsSettled() {",
   "return errorsmod.Wrap(gerrc.ErrFailedPrecondition, \"plan already settled\")",
   "}",
   "call plan.EnableTradingWithStartTime(ctx.BlockTime())",
   "call k.SetPlan(ctx, plan)",
   "call k.rk.SetPreLaunchTime(ctx, &rollapp, plan.PreLaunchTime)",
   "return nil"] := rfl

/-- `msgServer.EnableTrading` (x/iro/keeper/msg_server.go): the signer is handed to the keeper as the submitter -/
theorem msgEnableTrading_skeleton : Gen.GBPlan.msgEnableTrading =
  ["let owner, err := sdk.AccAddressFromBech32(req.Owner)",
   "if err != nil {",
   "return nil, err",
   "}",
   "set err = m.Keeper.EnableTrading(sdk.UnwrapSDKContext(ctx), req.PlanId, owner)",
   "if err != nil {",
   "return nil, err",
   "}",
   "return &types.MsgEnableTradingResponse{}, nil"] := rfl

/-- `Plan.EnableTradingWithStartTime` (x/iro/types/plan.go) as mirrored by `GB.planPreLaunch` -/
theorem enableTradingWithStartTime_skeleton : Gen.GBPlan.enableTradingWithStartTime =
  ["set p.TradingEnabled = true",
   "set p.StartTime = startTime",
   "set p.PreLaunchTime = startTime.Add(p.IroPlanDuration)"] := rfl

/-- head of `Keeper.CreatePlan` (x/iro/keeper/create_plan.go), up to the call of `SetIROPlanToRollapp` -/
theorem createPlanHead_skeleton : Gen.GBPlan.createPlanHead =
  ["let allocation, err := k.MintAllocation(ctx, allocatedAmount, rollapp.RollappId, rollapp.GenesisInfo.NativeDenom.Display, uint64(rollapp.GenesisInfo.NativeDenom.Exponent))",
   "if err != nil {",
   "return \"\", err",
   "}",
   "let plan := types.NewPlan(k.GetNextPlanIdAndIncrement(ctx), rollapp.RollappId, liquidityDenom, allocation, curve, planDuration, incentivesParams, liquidityPart, vestingDuration, vestingStartTimeAfterSettlement)",
   "if tradingEnabled {",
   "if startTime.Before(ctx.BlockTime()) {",
   "set startTime = ctx.BlockTime()",
   "}",
   "call plan.EnableTradingWithStartTime(startTime)",
   "}",
   "let err := plan.ValidateBasic()",
   "if err != nil {",
   "return \"\", errors.Join(gerrc.ErrInvalidArgument, err)",
   "}",
   "set err = k.rk.SetIROPlanToRollapp(ctx, &rollapp, plan)"] := rfl

/-- the sealing assignment comes right after the three refusals and before the look at the trading flag;
    from it to the end there is a single return, the final `return nil` -/
theorem seal_before_trading_flag :
    Gen.GBPlan.setIROPlanToRollapp.idxOf "set rollapp.GenesisInfo.Sealed = true" = 9 ∧
    Gen.GBPlan.setIROPlanToRollapp.idxOf "if !plan.TradingEnabled {" = 11 ∧
    Gen.GBPlan.setIROPlanToRollapp.drop 9 =
      ["set rollapp.GenesisInfo.Sealed = true",
       "let preLaunchTime := plan.PreLaunchTime",
       "if !plan.TradingEnabled {",
       "set preLaunchTime = ctx.BlockTime().Add(time.Hour * 24 * 365 * 10)",
       "}",
       "set rollapp.PreLaunchTime = &preLaunchTime",
       "call k.SetRollapp(ctx, *rollapp)",
       "return nil"] := by decide

/-- `time.Hour * 24 * 365 * 10` is the model's parking distance (in seconds) -/
theorem tenYears_eq : Gen.GBPlan.disabledPreLaunchHours * 3600 = GB.tenYears := rfl

end DymVerif.GenEq.GBPlan
