import DymVerif.Lemmas.LockupRefs
/-
  Lemmas/LockupRefsSim — the index lookups of Model/LockupRefs equal the list-based definitions of
  Model/Lockup under `RefsOk`, and every operation of the reference-level machine (`rstep`, `restartR`)
  projects onto the operation of M-Lockup and keeps the invariant `RInv`.
-/
namespace DymVerif.Lockup
open DymVerif.Genesis

/-- the signer of a message -/
def opSigner : Op → Option Actor
  | .lock a _ _ _ => some a
  | .unlock a _ _ => some a
  | .extend a _ _ => some a
  | .force a _ _ => some a
  | .beginBlock _ => none
  | .endBlock => none

/-- the invariant of the reference-level machine -/
structure RInv (B : Actor → Bool) (rs : RState) : Prop where
  inv : Inv rs.s
  sorted : IdSorted rs.s.locks
  refs : RefsOk rs.s.locks rs.refs
  /-- no lock is owned by a blocked bank recipient -/
  owners : ∀ l ∈ rs.s.locks, B l.owner = false

/-! ### walks -/

theorem mem_walk {refs : Refs} {q : RefK → Bool} {id : Nat} :
    id ∈ walk refs q ↔ ∃ e ∈ refs, q e.1 = true ∧ rid e.1 = id := by
  simp only [walk, List.mem_map, List.mem_filter, rid]
  constructor
  · rintro ⟨e, ⟨he, hq⟩, rfl⟩; exact ⟨e, he, hq, rfl⟩
  · rintro ⟨e, he, hq, rfl⟩; exact ⟨e, ⟨he, hq⟩, rfl⟩

/-- a walk over a consistent store yields exactly the ids of the locks that have a reference in its range -/
theorem mem_walk_iff {locks : List Lock} {refs : Refs} (h : RefsOk locks refs) (q : RefK → Bool) (id : Nat) :
    id ∈ walk refs q ↔ ∃ l ∈ locks, l.id = id ∧ ∃ r ∈ lockRefs l, q r = true := by
  rw [mem_walk]
  constructor
  · rintro ⟨e, he, hq, hid⟩
    obtain ⟨l, hl, hlid, hr⟩ := h.rid_mem he
    exact ⟨l, hl, by rw [hlid, hid], e.1, hr, hq⟩
  · rintro ⟨l, hl, hid, r, hr, hq⟩
    refine ⟨(r, ()), (h.mem (r, ())).2 (mem_refsOf.2 ⟨l, hl, hr⟩), hq, ?_⟩
    rw [← hid]; exact rid_of_mem_lockRefs hr

/-- `getLocksFromIterator` cannot panic when every id of the walk has its lock -/
theorem getLocksFromIterator_total {locks : List Lock} (hn : (locks.map (·.id)).Nodup) :
    ∀ (ids : List Nat), (∀ id ∈ ids, ∃ l ∈ locks, l.id = id) →
      ∃ ls, getLocksFromIterator locks ids = some ls ∧ ls.map (·.id) = ids ∧ ∀ l ∈ ls, l ∈ locks
  | [], _ => ⟨[], rfl, rfl, fun _ h => by cases h⟩
  | id :: ids, h => by
    obtain ⟨l, hl, hid⟩ := h id List.mem_cons_self
    obtain ⟨ls, h1, h2, h3⟩ := getLocksFromIterator_total hn ids (fun i hi => h i (List.mem_cons_of_mem _ hi))
    refine ⟨l :: ls, ?_, by simp [h2, hid], ?_⟩
    · simp only [getLocksFromIterator]
      rw [← hid, findLock_of_mem hn hl, h1]
    · intro x hx
      rcases List.mem_cons.1 hx with rfl | hx
      · exact hl
      · exact h3 x hx

theorem walk_total {locks : List Lock} {refs : Refs} (h : RefsOk locks refs) (hn : (locks.map (·.id)).Nodup)
    (q : RefK → Bool) :
    ∃ ls, getLocksFromIterator locks (walk refs q) = some ls ∧ ls.map (·.id) = walk refs q ∧ ∀ l ∈ ls, l ∈ locks :=
  getLocksFromIterator_total hn _ (fun id hid => by
    obtain ⟨l, hl, hlid, _⟩ := (mem_walk_iff h q id).1 hid
    exact ⟨l, hl, hlid⟩)

/-- `GetLockByID` of the ids of a sub-list of the table returns that sub-list -/
theorem getLocksFromIterator_ids {locks : List Lock} (hn : (locks.map (·.id)).Nodup) :
    ∀ (ls : List Lock), (∀ l ∈ ls, l ∈ locks) → getLocksFromIterator locks (ls.map (·.id)) = some ls
  | [], _ => rfl
  | l :: ls, h => by
    simp only [List.map_cons, getLocksFromIterator]
    rw [findLock_of_mem hn (h l List.mem_cons_self),
      getLocksFromIterator_ids hn ls (fun x hx => h x (List.mem_cons_of_mem _ hx))]

/-- strictly ascending lists of naturals with the same members are equal -/
theorem asc_ext : ∀ {xs ys : List Nat}, xs.Pairwise (· < ·) → ys.Pairwise (· < ·) →
    (∀ x, x ∈ xs ↔ x ∈ ys) → xs = ys
  | [], [], _, _, _ => rfl
  | [], b :: _, _, _, h => absurd ((h b).2 List.mem_cons_self) (by simp)
  | a :: _, [], _, _, h => absurd ((h a).1 List.mem_cons_self) (by simp)
  | a :: s, b :: t, hs, ht, h => by
    rw [List.pairwise_cons] at hs ht
    have hab : a = b := by
      rcases List.mem_cons.1 ((h a).1 List.mem_cons_self) with e | ha
      · exact e
      · rcases List.mem_cons.1 ((h b).2 List.mem_cons_self) with e | hb
        · exact e.symm
        · have h1 := hs.1 _ hb
          have h2 := ht.1 _ ha
          omega
    subst hab
    congr 1
    apply asc_ext hs.2 ht.2
    intro e
    constructor
    · intro he
      rcases List.mem_cons.1 ((h e).1 (List.mem_cons_of_mem _ he)) with rfl | h'
      · have := hs.1 _ he; omega
      · exact h'
    · intro he
      rcases List.mem_cons.1 ((h e).2 (List.mem_cons_of_mem _ he)) with rfl | h'
      · have := ht.1 _ he; omega
      · exact h'

/-- a walk of one exact key yields ascending lock ids (the id is the last key component) -/
theorem walk_exact_asc {refs : Refs} (hs : Sorted ltRef refs) (Q F a d k : Nat) :
    (walk refs (qExact Q F a d k)).Pairwise (· < ·) := by
  unfold walk
  rw [List.pairwise_map]
  have hf : (refs.filter (fun e => qExact Q F a d k e.1)).Pairwise (fun x y => ltRef x.1 y.1 = true) :=
    List.Pairwise.filter _ hs
  refine List.Pairwise.imp_of_mem ?_ hf
  intro x y hx hy hlt
  have qx := (List.mem_filter.1 hx).2
  have qy := (List.mem_filter.1 hy).2
  obtain ⟨⟨x1, x2, x3, x4, x5, x6⟩, _⟩ := x
  obtain ⟨⟨y1, y2, y3, y4, y5, y6⟩, _⟩ := y
  simp only [qExact, Bool.and_eq_true, beq_iff_eq] at qx qy
  obtain ⟨⟨⟨⟨rfl, rfl⟩, rfl⟩, rfl⟩, rfl⟩ := qx
  obtain ⟨⟨⟨⟨rfl, rfl⟩, rfl⟩, rfl⟩, rfl⟩ := qy
  simpa [ltRef, ltPair, ltNat] using hlt

/-! ### the index lookups equal the list-based definitions -/

/-- which locks have a reference under the exact key (not-unlocking queue, account, denom, duration) -/
theorem sameLock_ref (a d dur : Nat) (l : Lock) :
    (∃ r ∈ lockRefs l, qExact (queueOf false) fAccDenomDur a d dur r = true) ↔ sameLock a d dur l = true := by
  unfold lockRefs refKeysOf lockRefKeys durationLockRefKeys sameLock
  cases hu : l.isUnlocking <;>
    simp [hu, mkRef, qExact, queueOf, fDur, fAccDur, fDenomDur, fAccDenomDur, fTime, fAccTime, fDenomTime,
      fAccDenomTime, and_assoc]

/-- **`HasLock` / `AddToExistingLock` by the duration references = `sameLock` on the lock list** -/
theorem sameLock_lookup {B : Actor → Bool} {rs : RState} (h : RInv B rs) (a d dur : Nat) :
    accountLockedDurationNotUnlockingOnly rs a d dur = some (rs.s.locks.filter (sameLock a d dur)) := by
  unfold accountLockedDurationNotUnlockingOnly
  have hw : walk rs.refs (qExact (queueOf false) fAccDenomDur a d dur)
      = (rs.s.locks.filter (sameLock a d dur)).map (·.id) := by
    apply asc_ext (walk_exact_asc h.refs.sorted _ _ _ _ _)
    · exact List.Pairwise.sublist (List.Sublist.map _ List.filter_sublist) h.sorted
    · intro id
      rw [mem_walk_iff h.refs]
      simp only [List.mem_map, List.mem_filter]
      constructor
      · rintro ⟨l, hl, hid, hr⟩; exact ⟨l, ⟨hl, (sameLock_ref a d dur l).1 hr⟩, hid⟩
      · rintro ⟨l, ⟨hl, hsl⟩, hid⟩; exact ⟨l, hl, hid, (sameLock_ref a d dur l).2 hsl⟩
  rw [hw]
  exact getLocksFromIterator_ids h.inv.nodup _ (fun l hl => (List.mem_filter.1 hl).1)

/-- which locks have a reference in the range of `LockIteratorBeforeTime(now)` -/
theorem matured_ref (now : Nat) (l : Lock) :
    (∃ r ∈ lockRefs l, qBefore (queueOf true) fTime 0 0 now r = true) ↔ matured now l = true := by
  unfold lockRefs refKeysOf lockRefKeys durationLockRefKeys matured Lock.isUnlocking
  cases he : l.endTime <;>
    simp [mkRef, qBefore, qAll, queueOf, timeKey, fDur, fAccDur, fDenomDur, fAccDenomDur, fTime, fAccTime,
      fDenomTime, fAccDenomTime]

/-- **the EndBlocker's end-time walk yields exactly the matured locks of the lock list** -/
theorem matured_lookup {B : Actor → Bool} {rs : RState} (h : RInv B rs) {l : Lock} (hl : l ∈ rs.s.locks) :
    (maturedWalk rs.refs rs.s.now).contains l.id = matured rs.s.now l := by
  unfold maturedWalk
  cases hm : matured rs.s.now l
  · apply Bool.eq_false_iff.mpr
    intro hc
    rw [List.contains_iff_mem, mem_walk_iff h.refs] at hc
    obtain ⟨l2, hl2, hid, hr⟩ := hc
    have : l2 = l := eq_of_id_eq h.inv.nodup hl2 hl hid
    subst this
    rw [(matured_ref _ _).1 hr] at hm; cases hm
  · rw [List.contains_iff_mem, mem_walk_iff h.refs]
    exact ⟨l, hl, rfl, (matured_ref _ _).2 hm⟩

/-! ### owners -/

theorem owners_setLock {B : Actor → Bool} {ls : List Lock} {n : Lock} (h : ∀ l ∈ ls, B l.owner = false)
    (hn : B n.owner = false) : ∀ l ∈ setLock ls n, B l.owner = false := by
  intro l hl
  rcases mem_setLock hl with ⟨rfl, _⟩ | ⟨hm, _⟩
  · exact hn
  · exact h l hm

theorem owners_delLock {B : Actor → Bool} {ls : List Lock} (id : Nat) (h : ∀ l ∈ ls, B l.owner = false) :
    ∀ l ∈ delLock ls id, B l.owner = false :=
  fun l hl => h l (mem_delLock.1 hl).1

theorem owners_append {B : Actor → Bool} {ls : List Lock} {n : Lock} (h : ∀ l ∈ ls, B l.owner = false)
    (hn : B n.owner = false) : ∀ l ∈ ls ++ [n], B l.owner = false := by
  intro l hl
  rcases List.mem_append.1 hl with hm | hm
  · exact h l hm
  · rw [List.mem_singleton.1 hm]; exact hn

end DymVerif.Lockup
