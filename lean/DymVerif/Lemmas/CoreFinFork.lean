/-
  Lemmas/CoreFinFork — the general hard fork (fraud proposal) keeps the finalization invariant and
  every finalized state: `revertPlan` refuses finalized heights, so the kept index is ≥ lastFin and a
  finalized kept state is never truncated.
-/
import DymVerif.Lemmas.CoreFinSame2
import DymVerif.Lemmas.CoreSearch
namespace DymVerif.Core

/-- a height inside state `k` (0-based position) is found, at 1-based index `k+1` -/
theorem findByHeight_complete {r : Rollapp} (hc : Chain r.states) (k : Nat) (st : SInfo) (hk : r.states[k]? = some st)
    (h : Nat) (h1 : st.start ≤ h) (h2 : h ≤ st.start + st.num - 1) : findByHeight r h = some (k + 1) := by
  have hwst := hc.wf st (List.mem_of_getElem? hk)
  have hklt := getElem?_lt hk
  unfold findByHeight
  rw [if_neg (by have := hwst.start_pos; omega)]
  cases hl : r.states.getLast? with
  | none =>
    have : r.states = [] := by simpa using hl
    rw [this] at hklt; simp at hklt
  | some l =>
    dsimp only
    have hwl := hc.wf l (List.mem_of_getLast? hl)
    have hll : r.states[r.states.length - 1]? = some l := by rw [← List.getLast?_eq_getElem?]; exact hl
    have hle : st.start + st.num ≤ l.start + l.num := by
      rcases Nat.lt_or_ge k (r.states.length - 1) with h3 | h3
      · have := hc.mono' k (r.states.length - 1) st l h3 hk hll
        have := hwl.num_pos; omega
      · have : k = r.states.length - 1 := by omega
        rw [this, hll] at hk; injection hk with hk; subst hk; exact Nat.le_refl _
    rw [if_neg (by rw [last_of_WF hwl]; have := hwst.num_pos; omega)]
    exact findByHeightAux_complete r.states hc h _ 1 r.states.length (k + 1) st (by simpa using hk)
      ((contains_iff st h hwst).2 ⟨h1, h2⟩) (Nat.le_refl _) (by omega) (by omega) (Nat.le_refl _) (by omega)

/-- what `revertPlan` guarantees about finalization: the kept index is not below the latest finalized
    one, the kept state keeps its finalization fields, and if it is finalized it is kept whole -/
theorem revertPlan_fin {r : Rollapp} {n keep : Nat} {kst : SInfo} (hc : Chain r.states)
    (hpre : ∀ (i : Nat) (st : SInfo), r.states[i]? = some st → (st.finalized = true ↔ i < r.lastFin))
    (hle : r.lastFin ≤ r.states.length) (e : revertPlan r n = .ok (keep, kst)) :
    ∃ st, 1 ≤ keep ∧ r.states[keep - 1]? = some st ∧ r.lastFin ≤ keep ∧ kst.creationHeight = st.creationHeight ∧
      kst.finalized = st.finalized ∧ kst.finalizedAt = st.finalizedAt ∧ (keep ≤ r.lastFin → sKey kst = sKey st) := by
  obtain ⟨st0, hk1, hst0, _⟩ := revertPlan_shape hc e
  refine ⟨st0, hk1, hst0, ?_⟩
  unfold revertPlan at e
  dsimp only at e
  split at e
  · cases e
  · rename_i i hfound
    split at e
    · cases e
    · rename_i st hst
      have hwst := hc.wf st (List.mem_of_getElem? hst)
      have hcase : st.finalized = false ∨ (i = r.states.length ∧ findByHeight r n = none) := by
        split at hfound
        · rename_i j hj
          split at hfound
          · rename_i st' hst'
            split at hfound
            · cases hfound
            · rename_i hnf
              injection hfound with hf; subst hf
              rw [hst] at hst'; injection hst' with hst'; subst hst'
              left; simpa using hnf
          · cases hfound
        · rename_i hnone
          split at hfound
          · cases hfound
          · injection hfound with hf; right; exact ⟨hf.symm, hnone⟩
      -- in the "not found" case the height lies beyond the latest state
      have hbeyond : ∀ (_ : st.start ≤ n) (_ : n ≤ st.start + st.num - 1), st.finalized = false := by
        intro g1 g2
        rcases hcase with h1 | ⟨_, h2⟩
        · exact h1
        · rw [findByHeight_complete hc (i - 1) st hst n g1 g2] at h2; cases h2
      have hlast := last_of_WF hwst
      have hpos := hwst.num_pos
      split at e
      · cases e
      · rename_i hnlt
        split at e
        · -- fork on the first height of state i: the previous state is kept unchanged
          rename_i hs
          split at e
          · cases e
          · rename_i prev hprev
            injection e with e
            injection e with e1 e2
            subst e1; subst e2
            split at hprev
            · cases hprev
            · rename_i hi1
              rw [show i - 1 - 1 = i - 2 by omega, hprev] at hst0
              injection hst0 with hst0; subst hst0
              have hnf := hbeyond (by omega) (by omega)
              have : ¬ (i - 1 < r.lastFin) := by
                intro hc2
                have := (hpre (i - 1) st hst).2 hc2
                rw [hnf] at this; cases this
              exact ⟨by omega, rfl, rfl, rfl, fun _ => rfl⟩
        · split at e
          · -- truncate state i
            rename_i hne hle2
            injection e with e
            injection e with e1 e2
            subst e1; subst e2
            rw [hst] at hst0; injection hst0 with hst0; subst hst0
            have hnf := hbeyond (by omega) (by omega)
            have : ¬ (i - 1 < r.lastFin) := by
              intro hc2
              have := (hpre (i - 1) st hst).2 hc2
              rw [hnf] at this; cases this
            exact ⟨by omega, rfl, rfl, rfl, fun hh => by omega⟩
          · injection e with e
            injection e with e1 e2
            subst e1; subst e2
            rw [hst] at hst0; injection hst0 with hst0; subst hst0
            refine ⟨?_, rfl, rfl, rfl, fun _ => rfl⟩
            rcases hcase with h1 | ⟨h2, _⟩
            · have : ¬ (i - 1 < r.lastFin) := by
                intro hc2
                have := (hpre (i - 1) st hst).2 hc2
                rw [h1] at this; cases this
              omega
            · omega

-- ---------------------------------------------------------------- list facts for the fork

theorem fork_get {α} (l : List α) (k : Nat) (b : α) (hk : k < l.length) (i : Nat) :
    (l.take k ++ [b])[i]? = if i < k then l[i]? else if i = k then some b else none := by
  have hlen : (l.take k).length = k := by rw [List.length_take]; omega
  by_cases h1 : i < k
  · rw [if_pos h1, List.getElem?_append_left (by omega), List.getElem?_take, if_pos h1]
  · rw [if_neg h1, List.getElem?_append_right (by omega), hlen]
    by_cases h2 : i = k
    · rw [if_pos h2, h2]; simp
    · rw [if_neg h2]
      have : i - k = (i - k - 1) + 1 := by omega
      rw [this]; simp

theorem range'_filter_le (k : Nat) : ∀ (n a : Nat), (List.range' a n).filter (· ≤ k) = List.range' a (min n (k + 1 - a)) := by
  intro n
  induction n with
  | zero => intro a; simp
  | succ n ih =>
    intro a
    rw [List.range'_succ, List.filter_cons]
    by_cases h : a ≤ k
    · have : min (n + 1) (k + 1 - a) = min n (k + 1 - (a + 1)) + 1 := by omega
      rw [this, List.range'_succ, ih (a + 1)]
      simp [h]
    · have h1 : min (n + 1) (k + 1 - a) = 0 := by omega
      have h2 : min n (k + 1 - (a + 1)) = 0 := by omega
      rw [h1, ih (a + 1), h2]
      simp [h]

theorem pendingIdx_filter (r : Rollapp) (keep : Nat) (h1 : r.lastFin ≤ keep) (h2 : keep ≤ r.states.length) :
    (pendingIdx r).filter (· ≤ keep) = List.range' (r.lastFin + 1) (keep - r.lastFin) := by
  unfold pendingIdx
  rw [range'_filter_le]
  congr 1
  omega

-- ---------------------------------------------------------------- the state right after the revert

theorem fork_mid {s s1 : St} {ra keep : Nat} {r fr : Rollapp} {st kst : SInfo} (hi : FinInv s) (hg : getRa s ra = some r)
    (h1ras : s1.ras = s.ras) (h1p : s1.p = s.p) (h1h : s1.h = s.h) (h1q : s1.queue = removeIdxAbove s.queue ra keep)
    (hid : fr.id = r.id) (hlf : fr.lastFin = r.lastFin) (hk1 : 1 ≤ keep) (hst : r.states[keep - 1]? = some st)
    (hstates : fr.states = r.states.take (keep - 1) ++ [kst]) (hle : r.lastFin ≤ keep)
    (c1 : kst.creationHeight = st.creationHeight) (c2 : kst.finalized = st.finalized)
    (c3 : kst.finalizedAt = st.finalizedAt) (c4 : keep ≤ r.lastFin → sKey kst = sKey st) :
    FinInv (setRa s1 fr) ∧ Evolves s (setRa s1 fr) ∧ Back s (setRa s1 fr) := by
  have hrid : r.id = ra := getRa_id hg
  have hrmem : r ∈ s.ras := getRa_mem hg
  have old := hi.ras r hrmem
  have hklt : keep - 1 < r.states.length := getElem?_lt hst
  have hget : ∀ i, fr.states[i]? = if i < keep - 1 then r.states[i]? else if i = keep - 1 then some kst else none := by
    intro i; rw [hstates]; exact fork_get _ _ _ hklt i
  have hlen : fr.states.length = keep := by
    rw [hstates, List.length_append, List.length_take]; simp; omega
  have hn1 : IdsNodup s1 := hi.nodup.of_ids (by rw [h1ras])
  refine ⟨?_, ?_, ?_⟩
  rotate_left 2
  · intro r2 hr2 i st' hst' hf
    rcases mem_setRa_strong hr2 with ⟨hm, _⟩ | heq
    · rw [h1ras] at hm; exact ⟨r2, hm, rfl, st', hst', rfl⟩
    · subst heq
      refine ⟨r, hrmem, hid.symm, ?_⟩
      rw [hget i] at hst'
      split at hst'
      · exact ⟨st', hst', rfl⟩
      · split at hst'
        · rename_i _ h2
          injection hst' with hst'; subst hst'
          have : keep - 1 < r.lastFin := (old.pre _ st hst).1 (by rw [← c2]; exact hf)
          exact ⟨st, by rw [h2]; exact hst, (c4 (by omega)).symm⟩
        · cases hst'
  · refine ⟨hn1.setRa fr, ?_, ?_, ?_, ?_⟩
    · show QSorted s1.queue
      rw [h1q]; exact removeIdxAbove_sorted _ _ _ hi.sorted
    rotate_left
    · intro e he
      have he : e ∈ removeIdxAbove s.queue ra keep := by rw [← h1q]; exact he
      obtain ⟨e0, he0, _, k2, _⟩ := mem_removeIdxAbove _ _ _ _ he
      rw [setRa_ids, h1ras, ← k2]; exact hi.qra e0 he0
    rotate_right
    · intro e he
      have he : e ∈ removeIdxAbove s.queue ra keep := by rw [← h1q]; exact he
      obtain ⟨e0, he0, k1, k2, _, k4, k5⟩ := mem_removeIdxAbove _ _ _ _ he
      show e.ch ≤ s1.h ∧ e.idx ≠ []
      rw [h1h, ← k1]
      refine ⟨(hi.ent e0 he0).1, ?_⟩
      by_cases hra : e.ra = ra
      · exact k4 hra
      · rw [k5 hra]; exact (hi.ent e0 he0).2
    · intro r2 hr2
      show RFin s1.queue s1.p.dispute r2
      rw [h1q, h1p]
      rcases mem_setRa_strong hr2 with ⟨hm, hne⟩ | heq
      · -- another rollapp
        rw [h1ras] at hm
        have hne' : r2.id ≠ ra := by rw [hid, hrid] at hne; exact hne
        have o2 := hi.ras r2 hm
        unfold RFin
        rw [flat_removeIdxAbove_other _ _ _ _ hne']
        refine ⟨o2.le, o2.flat_eq, o2.pre, ?_, o2.notEarly⟩
        intro e he hra i hii
        obtain ⟨e0, he0, _, _, _, _, k5⟩ := mem_removeIdxAbove _ _ _ _ he
        have : e = e0 := k5 (by rw [hra]; exact hne')
        subst this
        exact o2.ch e he0 hra i hii
      · subst heq
        have hfl : flat s.queue ra = pendingIdx r := by rw [← hrid]; exact old.flat_eq
        unfold RFin
        rw [hid, hrid, flat_removeIdxAbove_same, hfl, pendingIdx_filter r keep hle (by omega)]
        refine ⟨by rw [hlf, hlen]; exact hle, by unfold pendingIdx; rw [hlf, hlen], ?_, ?_, ?_⟩
        · intro i st' hst'
          rw [hget i] at hst'
          rw [hlf]
          split at hst'
          · exact old.pre i st' hst'
          · split at hst'
            · rename_i _ h2
              injection hst' with hst'; subst hst'
              rw [c2, h2]; exact old.pre _ st hst
            · cases hst'
        · intro e he hra i hii
          obtain ⟨e0, he0, k1, k2, k3, _, _⟩ := mem_removeIdxAbove _ _ _ _ he
          have hra' : e.ra = ra := by rw [hra, hid]; exact hrid
          obtain ⟨hi0, hik⟩ := k3 i hii
          obtain ⟨st1, hst1, hch⟩ := old.ch e0 he0 (by rw [k2, hra', hrid]) i hi0
          have hik := hik hra'
          rw [hget (i - 1)]
          by_cases hlt : i - 1 < keep - 1
          · rw [if_pos hlt]; exact ⟨st1, hst1, by rw [hch, k1]⟩
          · rw [if_neg hlt, if_pos (by omega)]
            have : i - 1 = keep - 1 := by omega
            rw [this, hst] at hst1; injection hst1 with hst1; subst hst1
            exact ⟨kst, rfl, by rw [c1, hch, k1]⟩
        · intro st' hm hf
          rw [hstates] at hm
          rcases List.mem_append.1 hm with hm | hm
          · exact old.notEarly st' (List.mem_of_mem_take hm) hf
          · simp at hm; subst hm
            rw [c1, c3]
            exact old.notEarly st (List.mem_of_getElem? hst) (by rw [← c2]; exact hf)
  · intro r0 hr0
    by_cases h0 : r0.id = ra
    · have : r0 = r := hi.nodup.unique hr0 hrmem (by rw [h0, hrid])
      subst this
      refine ⟨fr, mem_setRa_self (x := r0) (by rw [h1ras]; exact hr0) hid.symm, hid, ?_⟩
      intro i sti hsti hf
      have hlt : i < r0.lastFin := (old.pre i sti hsti).1 hf
      rw [hget i]
      by_cases h2 : i < keep - 1
      · rw [if_pos h2]; exact ⟨sti, hsti, rfl⟩
      · rw [if_neg h2, if_pos (by omega)]
        have : i = keep - 1 := by omega
        rw [this, hst] at hsti; injection hsti with hsti; subst hsti
        exact ⟨kst, rfl, c4 (by omega)⟩
    · refine ⟨r0, mem_setRa_of_ne (by rw [h1ras]; exact hr0) (by rw [hid, hrid]; exact h0), rfl, ?_⟩
      intro i sti hsti _
      exact ⟨sti, hsti, rfl⟩

/-- the state right after `RevertPendingStates` / `UpdateLastStateInfo` / `ResetLivenessClock` -/
def forkMid (s : St) (ra keep : Nat) (r : Rollapp) (kst : SInfo) : St :=
  setRa
    (resetClock { s with queue := removeIdxAbove s.queue ra keep,
                         seqH := pruneSeqHeights s.seqH (kst.creator :: (r.states.drop keep).map (·.creator)) kst.last }
      (forkedRollapp r keep kst)).1
    (resetClock { s with queue := removeIdxAbove s.queue ra keep,
                         seqH := pruneSeqHeights s.seqH (kst.creator :: (r.states.drop keep).map (·.creator)) kst.last }
      (forkedRollapp r keep kst)).2

theorem hardFork_full {s s' : St} {ra lv : Nat} (e : hardFork s ra lv = .ok s') (hc : ChainAll s) (hi : FinInv s) :
    (ChainAll s' ∧ FinInv s' ∧ Evolves s s' ∧ s'.p = s.p) ∧ Back s s' := by
  have hc' := hardFork_chain hc e
  unfold hardFork at e
  split at e
  · cases e
  · rename_i r hg
    split at e
    · cases e
    · split at e
      · cases e
      · split at e
        · cases e
        · rename_i keep kst hplan
          dsimp only at e
          injection e with e
          have e : s' = seqOnHardFork (forkMid s ra keep r kst) ra := e.symm
          subst e
          have old := hi.ras r (getRa_mem hg)
          obtain ⟨st, hk1, hst, hle, c1, c2, c3, c4⟩ := revertPlan_fin (hc.get hg) old.pre old.le hplan
          have hmidc : ChainAll (forkMid s ra keep r kst) := by
            unfold forkMid resetClock
            exact RaAll.setRa (hc.ras_eq rfl) (forkedRollapp_chain (hc.get hg) hplan)
          have hmid : FinInv (forkMid s ra keep r kst) ∧ Evolves s (forkMid s ra keep r kst) ∧
              Back s (forkMid s ra keep r kst) := by
            unfold forkMid resetClock
            exact fork_mid hi hg rfl rfl rfl rfl rfl rfl hk1 hst rfl hle c1 c2 c3 c4
          obtain ⟨p2, s2⟩ := seqOnHardFork_fs _ ra (hmid.1.pre hmidc)
          exact ⟨⟨hc', hmid.1.same s2, hmid.2.1.trans s2.evolves, s2.p⟩, hmid.2.2.trans s2.back⟩

theorem hardFork_good {s s' : St} {ra lv : Nat} (e : hardFork s ra lv = .ok s') : Good s s' :=
  fun hc hi => (hardFork_full e hc hi).1

end DymVerif.Core
