/-
  Lemmas/IncentBound — a stream never hands out more than its coins (after fixes D1, D2; D3 not applied — upcoming streams are `Fresh`, so activation at any epoch start keeps the bound):
  the per-stream invariant `distributed + pending shares of this epoch + (remaining epochs - 1) · (shares
  of one epoch) ≤ coins`, its preservation by the paged distribution (window accounting along the
  iterator) and by epoch ends / starts.
-/
import DymVerif.Lemmas.IncentStreams
import DymVerif.Lemmas.IncentPaging
import DymVerif.Lemmas.IncentShare
namespace DymVerif.Incent
open DymVerif Coins

/-! ### shares of a stream's records -/

/-- what one record of a stream receives per visit (0 when the callback skips the stream) -/
def shareOf (st : Stream) (r : Rec) (i : Nat) : Nat :=
  if st.ecEmpty || st.totalWeight == 0 then 0 else streamShare (amt st.epochCoins i) r.weight st.totalWeight

def sharesOf (st : Stream) (rs : List Rec) (i : Nat) : Nat := (rs.map (fun r => shareOf st r i)).sum

/-- all records' shares of one epoch stay within the epoch coins when the total weight is the sum of the weights -/
theorem sharesOf_all_le (st : Stream) (htw : st.totalWeight = totalWeightOf st.recs) (i : Nat) :
    sharesOf st st.recs i ≤ amt st.epochCoins i := by
  unfold sharesOf shareOf
  by_cases h : (st.ecEmpty || st.totalWeight == 0) = true
  · simp only [h, if_true]
    have : (st.recs.map (fun _ => 0)).sum = 0 := by
      apply sum_zero_of_all_zero; intro x hx; simp at hx; exact hx.2.symm ▸ rfl
    omega
  · simp only [h]
    have := streamShare_sum_le (amt st.epochCoins i) st.totalWeight (st.recs.map (·.weight)) (by rw [htw]; exact Nat.le_refl _)
    simpa [List.map_map, Function.comp_def] using this

theorem sum_sublist_le {α : Type} (f : α → Nat) {l1 l2 : List α} (h : l1.Sublist l2) : (l1.map f).sum ≤ (l2.map f).sum := by
  induction h with
  | slnil => simp
  | cons a _ ih => simp only [List.map_cons, List.sum_cons]; omega
  | cons_cons a _ ih => simp only [List.map_cons, List.sum_cons]; omega

theorem sharesOf_sublist (st : Stream) {l1 l2 : List Rec} (h : l1.Sublist l2) (i : Nat) : sharesOf st l1 i ≤ sharesOf st l2 i :=
  sum_sublist_le _ h

/-- shares only depend on the static part of a stream -/
theorem shareOf_congr {a b : Stream} (h1 : a.ecEmpty = b.ecEmpty) (h2 : a.totalWeight = b.totalWeight) (h3 : a.epochCoins = b.epochCoins)
    (r : Rec) (i : Nat) : shareOf a r i = shareOf b r i := by
  unfold shareOf; rw [h1, h2, h3]

theorem sharesOf_congr {a b : Stream} (h1 : a.ecEmpty = b.ecEmpty) (h2 : a.totalWeight = b.totalWeight) (h3 : a.epochCoins = b.epochCoins)
    (rs : List Rec) (i : Nat) : sharesOf a rs i = sharesOf b rs i := by
  unfold sharesOf
  apply congrArg
  apply List.map_congr_left
  intro r _; exact shareOf_congr h1 h2 h3 r i

/-! ### pending shares in terms of the stored pointer (stream id, gauge id) -/

/-- the pair (sid, gid) is at or after the pointer -/
def ptrLe (p : Pointer) (sid gid : Nat) : Bool :=
  decide (p.streamId < sid) || (p.streamId == sid && decide (p.gaugeId ≤ gid))

/-- shares of the records of `st` still to be served in this epoch when the epoch pointer is `p` -/
def pendId (p : Pointer) (st : Stream) (i : Nat) : Nat := sharesOf st (st.recs.filter (fun r => ptrLe p st.id r.gauge)) i

theorem pendId_le_all (p : Pointer) (st : Stream) (i : Nat) : pendId p st i ≤ sharesOf st st.recs i :=
  sharesOf_sublist st List.filter_sublist i

theorem pendId_last (st : Stream) (h : st.id < maxU64) (i : Nat) : pendId Pointer.last st i = 0 := by
  unfold pendId
  have : st.recs.filter (fun r => ptrLe Pointer.last st.id r.gauge) = [] := by
    apply List.filter_eq_nil_iff.2
    intro r _
    unfold ptrLe Pointer.last
    simp only [Bool.or_eq_true, decide_eq_true_eq, Bool.and_eq_true, beq_iff_eq, not_or, not_and]
    exact ⟨by omega, fun he => by omega⟩
  rw [this]; simp [sharesOf]

theorem pendId_first (st : Stream) (i : Nat) : pendId Pointer.first st i = sharesOf st st.recs i := by
  unfold pendId
  have : st.recs.filter (fun r => ptrLe Pointer.first st.id r.gauge) = st.recs := by
    apply List.filter_eq_self.2
    intro r _
    unfold ptrLe Pointer.first
    simp only [Bool.or_eq_true, decide_eq_true_eq, Bool.and_eq_true, beq_iff_eq]
    by_cases h : 0 < st.id
    · exact Or.inl h
    · exact Or.inr ⟨by omega, Nat.zero_le _⟩
  rw [this]


/-! ### the stream cache as an array aligned with the iterator's data -/

def Shape (data : List SView) (c : Caches) : Prop :=
  c.streams.map Stream.view = data ∧ (c.streams.map (·.id)).Nodup

theorem find_at : ∀ (l : List Stream), (l.map (·.id)).Nodup → ∀ k (hk : k < l.length),
    l.find? (fun x => x.id == l[k].id) = some l[k] := by
  intro l
  induction l with
  | nil => intro _ k hk; simp at hk
  | cons x xs ih =>
    intro hn k hk
    have hn0 : (x.id :: xs.map (·.id)).Nodup := hn
    obtain ⟨h1, h2⟩ := List.nodup_cons.1 hn0
    cases k with
    | zero => simp
    | succ k =>
      have hk' : k < xs.length := by simpa using hk
      have hne : (x.id == xs[k].id) = false := by
        simp only [beq_eq_false_iff_ne, ne_eq]
        intro he
        exact h1 (by rw [he]; exact List.mem_map_of_mem (f := (·.id)) (List.getElem_mem hk'))
      simp only [List.getElem_cons_succ, List.find?_cons, hne]
      exact ih h2 k hk'

theorem upsert_at : ∀ (l : List Stream), (l.map (·.id)).Nodup → ∀ k (hk : k < l.length) (g : Stream), g.id = l[k].id →
    upsertStream l g = l.set k g := by
  intro l
  induction l with
  | nil => intro _ k hk; simp at hk
  | cons x xs ih =>
    intro hn k hk g hg
    have hn0 : (x.id :: xs.map (·.id)).Nodup := hn
    obtain ⟨h1, h2⟩ := List.nodup_cons.1 hn0
    unfold upsertStream
    cases k with
    | zero =>
      simp only [List.getElem_cons_zero] at hg
      rw [if_pos hg.symm]; rfl
    | succ k =>
      have hk' : k < xs.length := by simpa using hk
      simp only [List.getElem_cons_succ] at hg
      have hne : ¬ x.id = g.id := by
        intro he
        exact h1 (by rw [he, hg]; exact List.mem_map_of_mem (f := (·.id)) (List.getElem_mem hk'))
      rw [if_neg hne, ih h2 k hk' g hg]; rfl

/-- effect of the rewards callback on the cache, seen as an array: only slot `k` may change, and only in
    `distributed`, which grows by at most the record's share -/
theorem rewardsCb_effect (s : State) (data : List SView) (c : Caches) (hsh : Shape data c) (k : Nat) (hk : k < c.streams.length)
    (r : Rec) :
    ∃ d', (rewardsCb s c (c.streams[k]).view r).1.streams = c.streams.set k { c.streams[k] with distributed := d' } ∧
      ∀ i, amt (c.streams[k]).distributed i ≤ amt d' i ∧ amt d' i ≤ amt (c.streams[k]).distributed i + shareOf c.streams[k] r i := by
  have hsame : c.streams.set k { c.streams[k] with distributed := (c.streams[k]).distributed } = c.streams := by
    have : ({ c.streams[k] with distributed := (c.streams[k]).distributed } : Stream) = c.streams[k] := rfl
    rw [this]; exact List.set_getElem_self hk
  have unchanged : ∃ d', c.streams = c.streams.set k { c.streams[k] with distributed := d' } ∧
      ∀ i, amt (c.streams[k]).distributed i ≤ amt d' i ∧ amt d' i ≤ amt (c.streams[k]).distributed i + shareOf c.streams[k] r i :=
    ⟨_, hsame.symm, fun i => ⟨Nat.le_refl _, Nat.le_add_right _ _⟩⟩
  unfold rewardsCb
  have hfind : c.getStream (c.streams[k]).view.id = some c.streams[k] := by
    unfold Caches.getStream Stream.view
    exact find_at c.streams hsh.2 k hk
  rw [hfind]
  simp only
  -- the final branch
  have final : ∀ (gs : List Gauge) (dd : Coins),
      (¬ ((c.streams[k]).ecEmpty || (c.streams[k]).totalWeight == 0) = true) →
      ∃ d', upsertStream c.streams { c.streams[k] with distributed := Coins.add (c.streams[k]).distributed (gaugeRewards (c.streams[k]).epochCoins r.weight (c.streams[k]).totalWeight) }
          = c.streams.set k { c.streams[k] with distributed := d' } ∧
        ∀ i, amt (c.streams[k]).distributed i ≤ amt d' i ∧ amt d' i ≤ amt (c.streams[k]).distributed i + shareOf c.streams[k] r i := by
    intro _ _ hne
    refine ⟨_, upsert_at c.streams hsh.2 k hk _ rfl, ?_⟩
    intro i
    rw [amt_add]
    have : amt (gaugeRewards (c.streams[k]).epochCoins r.weight (c.streams[k]).totalWeight) i = shareOf c.streams[k] r i := by
      unfold gaugeRewards shareOf
      rw [amt_map _ (by simp [streamShare])]
      simp only [hne]
      rfl
    omega
  cases hg : c.getGauge r.gauge with
  | some g =>
    simp only
    split
    · exact unchanged
    · next hne => exact final [] [] hne
  | none =>
    simp only
    cases hst : getGauge s r.gauge with
    | none => exact unchanged
    | some g =>
      simp only
      by_cases hf : g.isFinished s.now = true
      · simp only [hf, if_true]; exact unchanged
      · rw [if_neg hf]
        simp only
        split
        · exact unchanged
        · next hne => exact final [] [] hne

theorem shape_set (data : List SView) (c : Caches) (hsh : Shape data c) (k : Nat) (hk : k < c.streams.length) (d' : Coins) (c' : Caches)
    (h : c'.streams = c.streams.set k { c.streams[k] with distributed := d' }) : Shape data c' := by
  obtain ⟨h1, h2⟩ := hsh
  unfold Shape
  rw [h]
  constructor
  · rw [← h1, List.map_set]
    apply List.ext_getElem
    · simp
    · intro j j1 j2
      rw [List.getElem_set]
      split
      · next he => subst he; simp [Stream.view]
      · rfl
  · rw [List.map_set]
    have : (c.streams.map (·.id)).set k (c.streams[k]).id = c.streams.map (·.id) := by
      apply List.ext_getElem
      · simp
      · intro j j1 j2
        rw [List.getElem_set]
        split
        · next he => subst he; simp
        · rfl
    show ((c.streams.map (·.id)).set k (c.streams[k]).id).Nodup
    rw [this]; exact h2


/-! ### window accounting along one `Paginate` call -/

/-- shares of stream `ck` (at data index `k`) still ahead of the iterator position `it` -/
def posPend (ck : Stream) (it : Nat × Nat) (k : Nat) (i : Nat) : Nat :=
  if it.1 < k then sharesOf ck ck.recs i else if it.1 = k then sharesOf ck (ck.recs.drop it.2) i else 0

theorem sharesOf_drop (ck : Stream) (g : Nat) (hg : g < ck.recs.length) (i : Nat) :
    sharesOf ck (ck.recs.drop g) i = shareOf ck ck.recs[g] i + sharesOf ck (ck.recs.drop (g + 1)) i := by
  have h := List.drop_eq_getElem_cons hg
  unfold sharesOf
  rw [h, List.map_cons, List.sum_cons]

/-- `Next` releases at least the share of the record just visited, for the visited stream, and never
    increases what is ahead for any stream -/
theorem posPend_next (data : List SView) (e : Nat) (it : Nat × Nat) (hv : validAt data e it.1 it.2 = true)
    (k : Nat) (ck : Stream) (hrecs : ∀ h : k < data.length, ck.recs = data[k].recs) (hk : k < data.length) (i : Nat) :
    posPend ck (iterNext data e it) k i +
      (if k = it.1 then shareOf ck (ck.recs.getD it.2 default) i else 0) ≤ posPend ck it k i := by
  obtain ⟨hsi, hok, hgi⟩ := (validAt_iff data e it.1 it.2).1 hv
  unfold iterNext
  by_cases hn : validAt data e it.1 (it.2 + 1) = true
  · rw [if_pos hn]
    unfold posPend
    simp only
    by_cases h1 : it.1 < k
    · have : ¬ k = it.1 := by omega
      simp [h1, this]
    · by_cases h2 : it.1 = k
      · subst h2
        have hr := hrecs hk
        have hg : it.2 < ck.recs.length := by rw [hr]; exact hgi
        simp only [Nat.lt_irrefl, if_false, if_true]
        rw [sharesOf_drop ck it.2 hg i]
        have : ck.recs.getD it.2 default = ck.recs[it.2] := by simp [List.getD_eq_getElem?_getD, hg]
        rw [this]; omega
      · have : ¬ k = it.1 := fun x => h2 x.symm
        simp [h1, h2, this]
  · rw [if_neg hn]
    obtain ⟨f1, f2, _, _⟩ := findNext_prop data e it.1
    unfold posPend
    rw [f2]
    by_cases h2 : k = it.1
    · subst h2
      have hr := hrecs hk
      have hg : it.2 < ck.recs.length := by rw [hr]; exact hgi
      have h3 : ¬ (findNextStream data e it.1).1 < it.1 := by omega
      have h4 : ¬ (findNextStream data e it.1).1 = it.1 := by omega
      simp only [h3, h4, if_false, if_true, Nat.lt_irrefl]
      rw [sharesOf_drop ck it.2 hg i]
      have : ck.recs.getD it.2 default = ck.recs[it.2] := by simp [List.getD_eq_getElem?_getD, hg]
      rw [this]; omega
    · simp only [h2, if_false, Nat.add_zero]
      by_cases h1 : it.1 < k
      · simp only [h1, if_true]
        by_cases h5 : (findNextStream data e it.1).1 < k
        · simp [h5]
        · by_cases h6 : (findNextStream data e it.1).1 = k
          · simp [h5, h6]
          · simp [h5, h6]
      · have h7 : ¬ it.1 = k := fun x => h2 x.symm
        have h5 : ¬ (findNextStream data e it.1).1 < k := by omega
        have h6 : ¬ (findNextStream data e it.1).1 = k := by omega
        simp [h1, h7, h5, h6]

/-- relation between the cache before and after some callback steps, slot by slot -/
def Grown (c c' : Caches) : Prop :=
  c'.streams.length = c.streams.length ∧
  ∀ k (h : k < c.streams.length) (h' : k < c'.streams.length),
    c'.streams[k] = { c.streams[k] with distributed := (c'.streams[k]).distributed } ∧
    ∀ i, amt (c.streams[k]).distributed i ≤ amt (c'.streams[k]).distributed i

theorem Grown.refl (c : Caches) : Grown c c := ⟨rfl, fun _ _ _ => ⟨rfl, fun _ => Nat.le_refl _⟩⟩

theorem Grown.trans {a b c : Caches} (h1 : Grown a b) (h2 : Grown b c) : Grown a c := by
  refine ⟨h2.1.trans h1.1, ?_⟩
  intro k h h'
  have hb : k < b.streams.length := by rw [h1.1]; exact h
  obtain ⟨a1, a2⟩ := h1.2 k h hb
  obtain ⟨b1, b2⟩ := h2.2 k hb h'
  refine ⟨?_, fun i => Nat.le_trans (a2 i) (b2 i)⟩
  rw [b1, a1]

def slot (c : Caches) (k : Nat) : Stream := c.streams.getD k default
def distAt (c : Caches) (k i : Nat) : Nat := amt (slot c k).distributed i

theorem slot_eq (c : Caches) (k : Nat) (h : k < c.streams.length) : slot c k = c.streams[k] := by
  unfold slot; simp [List.getD_eq_getElem?_getD, h]

/-- **window accounting**: along one `Paginate` call every cached stream satisfies
    `distributed' + ahead(it') ≤ distributed + ahead(it)` -/
theorem paginate_window (s : State) (data : List SView) (e : Nat) (max : Nat) :
    ∀ fuel it total (c : Caches), Shape data c →
      Shape data (paginate data e (rewardsCb s) max fuel it total c).2.2 ∧
      Grown c (paginate data e (rewardsCb s) max fuel it total c).2.2 ∧
      ∀ k, k < c.streams.length → ∀ i,
        distAt (paginate data e (rewardsCb s) max fuel it total c).2.2 k i +
            posPend (slot c k) (paginate data e (rewardsCb s) max fuel it total c).1 k i
          ≤ distAt c k i + posPend (slot c k) it k i := by
  intro fuel
  induction fuel with
  | zero =>
    intro it total c hsh
    exact ⟨hsh, Grown.refl c, fun k _ i => Nat.le_refl _⟩
  | succ n ih =>
    intro it total c hsh
    unfold paginate
    by_cases hc : (decide (total < max) && validAt data e it.1 it.2) = true
    · simp only [hc, if_true]
      have hv : validAt data e it.1 it.2 = true := by simp at hc; exact hc.2
      obtain ⟨hlt, _, hgi⟩ := (validAt_iff data e it.1 it.2).1 hv
      have hlen : c.streams.length = data.length := by rw [← hsh.1]; simp
      have hk1 : it.1 < c.streams.length := by rw [hlen]; exact hlt
      have hview : data[it.1]? = some (c.streams[it.1]).view := by
        have := hsh.1
        subst this
        simp [hk1]
      simp only [hview]
      obtain ⟨d', hd1, hd2⟩ := rewardsCb_effect s data c hsh it.1 hk1 ((c.streams[it.1]).view.recs.getD it.2 default)
      obtain ⟨c1, w, hres⟩ : ∃ c1 w, rewardsCb s c (c.streams[it.1]).view ((c.streams[it.1]).view.recs.getD it.2 default) = (c1, w) := ⟨_, _, rfl⟩
      rw [hres] at hd1 ⊢
      simp only at hd1 ⊢
      have hsh1 : Shape data c1 := shape_set data c hsh it.1 hk1 d' c1 hd1
      obtain ⟨i1, i2, i3⟩ := ih (iterNext data e it) (total + w) c1 hsh1
      have hg1 : Grown c c1 := by
        refine ⟨by rw [hd1]; simp, ?_⟩
        intro k h h'
        have : c1.streams[k] = (c.streams.set it.1 { c.streams[it.1] with distributed := d' })[k]'(by simpa using h) := by
          simp only [hd1]
        rw [this, List.getElem_set]
        split
        · next he => subst he; exact ⟨rfl, fun i => (hd2 i).1⟩
        · exact ⟨rfl, fun i => Nat.le_refl _⟩
      refine ⟨i1, Grown.trans hg1 i2, ?_⟩
      intro k h i
      have hk1' : k < c1.streams.length := by rw [hg1.1]; exact h
      have h3 := i3 k hk1' i
      obtain ⟨g1, g2⟩ := hg1.2 k h hk1'
      have hpp : ∀ it', posPend (slot c1 k) it' k i = posPend (slot c k) it' k i := by
        intro it'
        rw [slot_eq c1 k hk1', slot_eq c k h]
        unfold posPend
        rw [g1]
        simp only
        rw [sharesOf_congr (a := { c.streams[k] with distributed := (c1.streams[k]).distributed }) (b := c.streams[k]) rfl rfl rfl,
            sharesOf_congr (a := { c.streams[k] with distributed := (c1.streams[k]).distributed }) (b := c.streams[k]) rfl rfl rfl]
      rw [hpp, hpp] at h3
      have hkd : k < data.length := by rw [← hlen]; exact h
      have hn := posPend_next data e it hv k (slot c k)
        (by intro hh; rw [slot_eq c k h]; have := hsh.1; subst this; simp [Stream.view]) hkd i
      have hstep : distAt c1 k i ≤ distAt c k i +
          (if k = it.1 then shareOf (slot c k) ((slot c k).recs.getD it.2 default) i else 0) := by
        unfold distAt
        rw [slot_eq c1 k hk1', slot_eq c k h]
        have : c1.streams[k] = (c.streams.set it.1 { c.streams[it.1] with distributed := d' })[k]'(by simpa using h) := by
          simp only [hd1]
        rw [this, List.getElem_set]
        split
        · next he =>
          subst he
          simp only [if_true]
          exact (hd2 i).2
        · next he =>
          have : ¬ k = it.1 := fun x => he x.symm
          simp [this]
      omega
    · simp only [hc]
      exact ⟨hsh, Grown.refl c, fun k _ i => Nat.le_refl _⟩


/-- streams of other epoch identifiers are not touched by a `Paginate` call for epoch `e` -/
theorem paginate_other (s : State) (data : List SView) (e : Nat) (max : Nat) :
    ∀ fuel it total (c : Caches), Shape data c →
      ∀ k, k < c.streams.length → (slot c k).epochId ≠ e →
        slot (paginate data e (rewardsCb s) max fuel it total c).2.2 k = slot c k := by
  intro fuel
  induction fuel with
  | zero => intro it total c _ k _ _; rfl
  | succ n ih =>
    intro it total c hsh k hk hne
    unfold paginate
    by_cases hc : (decide (total < max) && validAt data e it.1 it.2) = true
    · simp only [hc, if_true]
      have hv : validAt data e it.1 it.2 = true := by simp at hc; exact hc.2
      obtain ⟨hlt, hok, hgi⟩ := (validAt_iff data e it.1 it.2).1 hv
      have hlen : c.streams.length = data.length := by rw [← hsh.1]; simp
      have hk1 : it.1 < c.streams.length := by rw [hlen]; exact hlt
      have hview : data[it.1]? = some (c.streams[it.1]).view := by
        have := hsh.1
        subst this
        simp [hk1]
      simp only [hview]
      obtain ⟨d', hd1, _⟩ := rewardsCb_effect s data c hsh it.1 hk1 ((c.streams[it.1]).view.recs.getD it.2 default)
      obtain ⟨c1, w, hres⟩ : ∃ c1 w, rewardsCb s c (c.streams[it.1]).view ((c.streams[it.1]).view.recs.getD it.2 default) = (c1, w) := ⟨_, _, rfl⟩
      rw [hres] at hd1 ⊢
      simp only at hd1 ⊢
      have hsh1 : Shape data c1 := shape_set data c hsh it.1 hk1 d' c1 hd1
      have hk' : k < c1.streams.length := by rw [hd1]; simpa using hk
      -- slot it.1 has epoch e, so k ≠ it.1
      have hke : k ≠ it.1 := by
        intro he
        apply hne
        rw [he, slot_eq c it.1 hk1]
        have h1 : data[it.1] = (c.streams[it.1]).view := by
          have := List.getElem?_eq_getElem hlt
          rw [hview] at this
          exact (Option.some.inj this).symm
        unfold sOk at hok
        simp only [Bool.and_eq_true, beq_iff_eq] at hok
        rw [h1] at hok
        exact hok.2
      have hs1 : slot c1 k = slot c k := by
        rw [slot_eq c1 k hk', slot_eq c k hk]
        have : c1.streams[k] = (c.streams.set it.1 { c.streams[it.1] with distributed := d' })[k]'(by simpa using hk) := by
          simp only [hd1]
        rw [this, List.getElem_set_ne (fun x => hke x.symm)]
      rw [← hs1]
      exact ih _ _ c1 hsh1 k hk' (by rw [hs1]; exact hne)
    · simp only [hc]
      rfl

/-! ### from iterator positions to the stored pointer and back -/

theorem pendId_all_of_lt (p : Pointer) (st : Stream) (h : p.streamId < st.id) (i : Nat) :
    pendId p st i = sharesOf st st.recs i := by
  unfold pendId
  have : st.recs.filter (fun r => ptrLe p st.id r.gauge) = st.recs := by
    apply List.filter_eq_self.2
    intro r _
    unfold ptrLe
    simp [h]
  rw [this]

theorem drop_le_pendId (p : Pointer) (st : Stream) (g : Nat) (h1 : p.streamId ≤ st.id)
    (h2 : ∀ j, g ≤ j → j < st.recs.length → p.gaugeId ≤ (st.recs.map (·.gauge)).getD j 0) (i : Nat) :
    sharesOf st (st.recs.drop g) i ≤ pendId p st i := by
  unfold pendId
  apply sharesOf_sublist
  have hall : ∀ r ∈ st.recs.drop g, ptrLe p st.id r.gauge = true := by
    intro r hr
    obtain ⟨j, hj, he⟩ := List.getElem_of_mem hr
    rw [List.getElem_drop] at he
    have hj' : g + j < st.recs.length := by simp at hj; omega
    have := h2 (g + j) (by omega) hj'
    have hg : (st.recs.map (·.gauge)).getD (g + j) 0 = r.gauge := by
      simp [List.getD_eq_getElem?_getD, hj', he]
    rw [hg] at this
    unfold ptrLe
    simp only [Bool.or_eq_true, decide_eq_true_eq, Bool.and_eq_true, beq_iff_eq]
    by_cases hh : p.streamId < st.id
    · exact Or.inl hh
    · exact Or.inr ⟨by omega, this⟩
  have : st.recs.drop g = (st.recs.drop g).filter (fun r => ptrLe p st.id r.gauge) := (List.filter_eq_self.2 hall).symm
  rw [this]
  exact (List.drop_sublist g st.recs).filter _

theorem pendId_le_drop (p : Pointer) (st : Stream) (g : Nat) (h1 : p.streamId = st.id)
    (h2 : ∀ j, j < g → j < st.recs.length → (st.recs.map (·.gauge)).getD j 0 < p.gaugeId) (i : Nat) :
    pendId p st i ≤ sharesOf st (st.recs.drop g) i := by
  unfold pendId
  apply sharesOf_sublist
  have hsplit : st.recs = st.recs.take g ++ st.recs.drop g := (List.take_append_drop g st.recs).symm
  have htake : (st.recs.take g).filter (fun r => ptrLe p st.id r.gauge) = [] := by
    apply List.filter_eq_nil_iff.2
    intro r hr
    obtain ⟨j, hj, he⟩ := List.getElem_of_mem hr
    rw [List.getElem_take] at he
    have hj1 : j < g := by simp at hj; omega
    have hj2 : j < st.recs.length := by simp at hj; omega
    have := h2 j hj1 hj2
    have hg : (st.recs.map (·.gauge)).getD j 0 = r.gauge := by
      simp [List.getD_eq_getElem?_getD, hj2, he]
    rw [hg] at this
    unfold ptrLe
    simp only [Bool.or_eq_true, decide_eq_true_eq, Bool.and_eq_true, beq_iff_eq, not_or, not_and]
    exact ⟨by omega, fun _ => by omega⟩
  have : st.recs.filter (fun r => ptrLe p st.id r.gauge) = (st.recs.drop g).filter (fun r => ptrLe p st.id r.gauge) := by
    conv => lhs; rw [hsplit]
    rw [List.filter_append, htake, List.nil_append]
  rw [this]
  exact List.filter_sublist

theorem pendId_zero_of_gt (p : Pointer) (st : Stream) (h : st.id < p.streamId) (i : Nat) : pendId p st i = 0 := by
  unfold pendId
  have : st.recs.filter (fun r => ptrLe p st.id r.gauge) = [] := by
    apply List.filter_eq_nil_iff.2
    intro r _
    unfold ptrLe
    simp only [Bool.or_eq_true, decide_eq_true_eq, Bool.and_eq_true, beq_iff_eq, not_or, not_and]
    exact ⟨by omega, fun he => by omega⟩
  rw [this]; simp [sharesOf]


theorem ids_getD (data : List SView) (k : Nat) (hk : k < data.length) : (data.map (·.id)).getD k 0 = data[k].id := by
  simp [List.getD_eq_getElem?_getD, hk]

theorem gids_getD (rs : List Rec) (j : Nat) (hj : j < rs.length) : (rs.map (·.gauge)).getD j 0 = rs[j].gauge := by
  simp [List.getD_eq_getElem?_getD, hj]

/-- what is ahead of the iterator built from pointer `p` is at most what is pending after `p` -/
theorem newIter_pend_le (data : List SView) (e : Nat) (p : Pointer) (hs : SortedData data) (k : Nat) (hk : k < data.length)
    (st : Stream) (hid : st.id = data[k].id) (hrec : st.recs = data[k].recs) (i : Nat) :
    posPend st (newIter data e p) k i ≤ pendId p st i := by
  obtain ⟨_, lo, hi⟩ := binSearch_spec (data.map (·.id)) p.streamId hs.ids
  have hlenm : (data.map (·.id)).length = data.length := by simp
  have hidk : p.streamId ≤ st.id ∨ k < binSearch (data.map (·.id)) p.streamId := by
    by_cases h : binSearch (data.map (·.id)) p.streamId ≤ k
    · left; have := hi k h (by rw [hlenm]; exact hk); rw [ids_getD data k hk] at this; rw [hid]; exact this
    · right; omega
  -- if the bisection index is below k, the stream is entirely after the pointer
  have hall : ∀ si, binSearch (data.map (·.id)) p.streamId ≤ si → si < k → pendId p st i = sharesOf st st.recs i := by
    intro si h1 h2
    apply pendId_all_of_lt
    have a := hi si h1 (by rw [hlenm]; omega)
    have b := hs.ids si k h2 (by rw [hlenm]; exact hk)
    rw [ids_getD data k hk] at b
    rw [hid]; omega
  unfold newIter
  cases hd : data[binSearch (data.map (·.id)) p.streamId]? with
  | none =>
    simp only [hd]
    have : data.length ≤ binSearch (data.map (·.id)) p.streamId := by
      rcases Nat.lt_or_ge (binSearch (data.map (·.id)) p.streamId) data.length with h | h
      · rw [List.getElem?_eq_getElem h] at hd; simp at hd
      · exact h
    unfold posPend
    have h1 : ¬ binSearch (data.map (·.id)) p.streamId < k := by omega
    have h2 : ¬ binSearch (data.map (·.id)) p.streamId = k := by omega
    simp [h1, h2]
  | some sv =>
    simp only [hd]
    obtain ⟨hsi, hsv⟩ := List.getElem?_eq_some_iff.1 hd
    by_cases hv : validAt data e (binSearch (data.map (·.id)) p.streamId) (binSearch (sv.recs.map (·.gauge)) p.gaugeId) = true
    · rw [if_pos hv]
      unfold posPend
      simp only
      by_cases h1 : binSearch (data.map (·.id)) p.streamId < k
      · simp only [h1, if_true]
        rw [hall _ (Nat.le_refl _) h1]; exact Nat.le_refl _
      · by_cases h2 : binSearch (data.map (·.id)) p.streamId = k
        · simp only [h1, h2, if_false, if_true]
          have hsvk : sv = data[k] := by rw [← hsv]; simp [h2]
          have hmem : data[k] ∈ data := List.getElem_mem hk
          obtain ⟨_, _, ghi⟩ := binSearch_spec (data[k].recs.map (·.gauge)) p.gaugeId (hs.recs _ hmem)
          rw [hsvk]
          simp only [Nat.lt_irrefl, if_false]
          apply drop_le_pendId
          · rcases hidk with h | h
            · exact h
            · omega
          · intro j hj1 hj2
            rw [hrec] at hj2 ⊢
            exact ghi j hj1 (by simpa using hj2)
        · simp [h1, h2]
    · rw [if_neg hv]
      obtain ⟨f1, f2, _, _⟩ := findNext_prop data e (binSearch (data.map (·.id)) p.streamId)
      unfold posPend
      rw [f2]
      by_cases h1 : (findNextStream data e (binSearch (data.map (·.id)) p.streamId)).1 < k
      · simp only [h1, if_true]
        rw [hall _ (Nat.le_refl _) (by omega)]; exact Nat.le_refl _
      · by_cases h2 : (findNextStream data e (binSearch (data.map (·.id)) p.streamId)).1 = k
        · simp only [h2, Nat.lt_irrefl, if_false, if_true, List.drop_zero]
          rw [hall _ (Nat.le_refl _) (by omega)]; exact Nat.le_refl _
        · simp [h1, h2]

/-- what is pending after the saved pointer is at most what is ahead of the iterator it was saved from -/
theorem ptrOf_pend_le (data : List SView) (e : Nat) (it : Nat × Nat) (hs : SortedData data) (k : Nat) (hk : k < data.length)
    (st : Stream) (hid : st.id = data[k].id) (hrec : st.recs = data[k].recs) (i : Nat) :
    pendId (ptrOf data e it) st i ≤ posPend st it k i := by
  have hlenm : (data.map (·.id)).length = data.length := by simp
  unfold ptrOf
  by_cases hv : validAt data e it.1 it.2 = true
  · obtain ⟨hlt, _, hgi⟩ := (validAt_iff data e it.1 it.2).1 hv
    simp only [hv, if_true, List.getElem?_eq_getElem hlt]
    unfold posPend
    by_cases h1 : it.1 < k
    · simp only [h1, if_true]; exact pendId_le_all _ _ _
    · by_cases h2 : it.1 = k
      · have hsk : data[it.1] = data[k] := by simp [h2]
        simp only [h2, Nat.lt_irrefl, if_false, if_true]
        have hmem : data[k] ∈ data := List.getElem_mem hk
        apply pendId_le_drop
        · simp only; rw [hid]
        · intro j hj1 hj2
          simp only
          have hgk : it.2 < data[k].recs.length := by rw [← hsk]; exact hgi
          have := (hs.recs _ hmem) j it.2 hj1 (by simpa using hgk)
          rw [hrec]
          have e2 : (data[k].recs.getD it.2 default).gauge = (data[k].recs.map (·.gauge)).getD it.2 0 := by
            simp [List.getD_eq_getElem?_getD, hgk]
          rw [e2]; exact this
      · simp only [h1, h2, if_false]
        have : pendId ⟨data[it.1].id, (data[it.1].recs.getD it.2 default).gauge⟩ st i = 0 := by
          apply pendId_zero_of_gt
          have := hs.ids k it.1 (by omega) (by rw [hlenm]; exact hlt)
          rw [ids_getD data k hk, ids_getD data it.1 hlt] at this
          simp only; rw [hid]; exact this
        rw [this]; exact Nat.le_refl _
  · have hv' : validAt data e it.1 it.2 = false := by simpa using hv
    simp only [hv', Bool.false_eq_true, if_false]
    have := hs.bound k hk
    rw [ids_getD data k hk] at this
    rw [pendId_last st (by rw [hid]; exact this) i]
    exact Nat.zero_le _


/-! ### one `IterateEpochPointer` call and the loop over the epoch pointers -/

/-- static requirements on the cached stream list (what sorting by id, `validateGauges` and the id counter give) -/
structure GoodCache (c : Caches) : Prop where
  nodup : (c.streams.map (·.id)).Nodup
  sorted : (c.streams.map (·.id)).Pairwise (· ≤ ·)
  recs : ∀ st ∈ c.streams, StrictInc (st.recs.map (·.gauge))
  bound : ∀ st ∈ c.streams, st.id < maxU64

theorem strictInc_of_sorted_nodup (l : List Nat) (h1 : l.Pairwise (· ≤ ·)) (h2 : l.Nodup) : StrictInc l := by
  apply strictInc_of_pairwise
  induction l with
  | nil => exact List.Pairwise.nil
  | cons x xs ih =>
    obtain ⟨a1, a2⟩ := List.pairwise_cons.1 h1
    obtain ⟨b1, b2⟩ := List.nodup_cons.1 h2
    refine List.pairwise_cons.2 ⟨?_, ih a2 b2⟩
    intro y hy
    have := a1 y hy
    have : x ≠ y := fun he => b1 (he ▸ hy)
    omega

theorem GoodCache.sortedData {c : Caches} (h : GoodCache c) : SortedData (c.streams.map Stream.view) := by
  have hids : (c.streams.map Stream.view).map (·.id) = c.streams.map (·.id) := by
    simp [List.map_map, Function.comp_def, Stream.view]
  refine ⟨?_, ?_, ?_⟩
  · rw [hids]; exact strictInc_of_sorted_nodup _ h.sorted h.nodup
  · intro sv hsv
    obtain ⟨st, hst, he⟩ := List.mem_map.1 hsv
    rw [← he]; exact h.recs st hst
  · intro k hk
    rw [hids]
    have hk' : k < c.streams.length := by simpa using hk
    have : (c.streams.map (·.id)).getD k 0 = (c.streams[k]).id := by simp [List.getD_eq_getElem?_getD, hk']
    rw [this]; exact h.bound _ (List.getElem_mem hk')

theorem GoodCache.of_grown {c c' : Caches} (h : GoodCache c) (hg : Grown c c') : GoodCache c' := by
  have hid : c'.streams.map (·.id) = c.streams.map (·.id) := by
    apply List.ext_getElem
    · simp [hg.1]
    · intro k h1 h2
      simp only [List.getElem_map]
      have hk : k < c.streams.length := by simpa using h2
      have hk' : k < c'.streams.length := by simpa using h1
      rw [(hg.2 k hk hk').1]
  refine ⟨by rw [hid]; exact h.nodup, by rw [hid]; exact h.sorted, ?_, ?_⟩
  · intro st hst
    obtain ⟨k, hk, he⟩ := List.getElem_of_mem hst
    have hk0 : k < c.streams.length := by rw [← hg.1]; exact hk
    have := (hg.2 k hk0 hk).1
    rw [← he, this]; exact h.recs c.streams[k] (List.getElem_mem hk0)
  · intro st hst
    obtain ⟨k, hk, he⟩ := List.getElem_of_mem hst
    have hk0 : k < c.streams.length := by rw [← hg.1]; exact hk
    have := (hg.2 k hk0 hk).1
    rw [← he, this]; exact h.bound c.streams[k] (List.getElem_mem hk0)

/-- the quantity the window accounting keeps from growing: distributed + pending after the stream's own pointer -/
def Qv (c : Caches) (ps : List Pointer) (k i : Nat) : Nat :=
  distAt c k i + pendId (ps.getD (slot c k).epochId Pointer.last) (slot c k) i

theorem slot_static {c c' : Caches} (hg : Grown c c') (k : Nat) (hk : k < c.streams.length) :
    slot c' k = { slot c k with distributed := (slot c' k).distributed } := by
  have hk' : k < c'.streams.length := by rw [hg.1]; exact hk
  rw [slot_eq c' k hk', slot_eq c k hk]
  exact (hg.2 k hk hk').1

theorem pendId_static {a b : Stream} (h : a = { b with distributed := a.distributed }) (p : Pointer) (i : Nat) :
    pendId p a i = pendId p b i := by
  unfold pendId
  rw [h]
  simp only
  exact sharesOf_congr rfl rfl rfl _ i

theorem iterate_window (s : State) (e : Nat) (p : Pointer) (max : Nat) (c : Caches) (hgc : GoodCache c) :
    let res := iterateEpochPointer (c.streams.map Stream.view) e p max (rewardsCb s) c
    Grown c res.2.2 ∧
    (∀ k, k < c.streams.length → ∀ i, distAt res.2.2 k i + pendId res.1 (slot c k) i ≤ distAt c k i + pendId p (slot c k) i) ∧
    (∀ k, k < c.streams.length → (slot c k).epochId ≠ e → slot res.2.2 k = slot c k) := by
  intro res
  have hsh : Shape (c.streams.map Stream.view) c := ⟨rfl, hgc.nodup⟩
  have hsd := hgc.sortedData
  have hres1 : res.1 = ptrOf (c.streams.map Stream.view) e
      (paginate (c.streams.map Stream.view) e (rewardsCb s) max (totalRecs (c.streams.map Stream.view) + 1) (newIter (c.streams.map Stream.view) e p) 0 c).1 :=
    iterate_ptr _ e p max (rewardsCb s) c
  have hres2 : res.2.2 = (paginate (c.streams.map Stream.view) e (rewardsCb s) max (totalRecs (c.streams.map Stream.view) + 1) (newIter (c.streams.map Stream.view) e p) 0 c).2.2 := rfl
  obtain ⟨w1, w2, w3⟩ := paginate_window s (c.streams.map Stream.view) e max (totalRecs (c.streams.map Stream.view) + 1) (newIter (c.streams.map Stream.view) e p) 0 c hsh
  refine ⟨by rw [hres2]; exact w2, ?_, ?_⟩
  · intro k hk i
    have hkd : k < (c.streams.map Stream.view).length := by simpa using hk
    have hidk : (slot c k).id = ((c.streams.map Stream.view)[k]).id := by rw [slot_eq c k hk]; simp [Stream.view]
    have hreck : (slot c k).recs = ((c.streams.map Stream.view)[k]).recs := by rw [slot_eq c k hk]; simp [Stream.view]
    have b1 := newIter_pend_le (c.streams.map Stream.view) e p hsd k hkd (slot c k) hidk hreck i
    have b2 := ptrOf_pend_le (c.streams.map Stream.view) e
      (paginate (c.streams.map Stream.view) e (rewardsCb s) max (totalRecs (c.streams.map Stream.view) + 1) (newIter (c.streams.map Stream.view) e p) 0 c).1
      hsd k hkd (slot c k) hidk hreck i
    have := w3 k hk i
    rw [hres1, hres2]
    omega
  · intro k hk hne
    rw [hres2]
    exact paginate_other s _ e max _ _ _ c hsh k hk hne

theorem ptrLoop_window (s : State) (maxOps : Nat) : ∀ (es : List Nat) (total : Nat) (c : Caches) (ps : List Pointer), GoodCache c →
    Grown c (ptrLoop s maxOps es total c ps).2.1 ∧
    ∀ k, k < c.streams.length → ∀ i, Qv (ptrLoop s maxOps es total c ps).2.1 (ptrLoop s maxOps es total c ps).2.2 k i ≤ Qv c ps k i := by
  intro es
  induction es with
  | nil => intro total c ps _; exact ⟨Grown.refl c, fun _ _ _ => Nat.le_refl _⟩
  | cons e rest ih =>
    intro total c ps hgc
    unfold ptrLoop
    by_cases hb : total ≥ maxOps
    · rw [if_pos hb]; exact ⟨Grown.refl c, fun _ _ _ => Nat.le_refl _⟩
    · rw [if_neg hb]
      simp only
      obtain ⟨g1, g2, g3⟩ := iterate_window s e (ps.getD e Pointer.last) (maxOps - total) c hgc
      obtain ⟨p', iters, c', hit⟩ : ∃ p' iters c', iterateEpochPointer (c.streams.map Stream.view) e (ps.getD e Pointer.last) (maxOps - total) (rewardsCb s) c = (p', iters, c') := ⟨_, _, _, rfl⟩
      rw [hit] at g1 g2 g3 ⊢
      simp only at g1 g2 g3 ⊢
      obtain ⟨h1, h2⟩ := ih (total + iters) c' (ps.set e p') (hgc.of_grown g1)
      refine ⟨Grown.trans g1 h1, ?_⟩
      intro k hk i
      have hk' : k < c'.streams.length := by rw [g1.1]; exact hk
      refine Nat.le_trans (h2 k hk' i) ?_
      -- one pointer step does not increase Qv
      unfold Qv
      have hst := slot_static g1 k hk
      have hep : (slot c' k).epochId = (slot c k).epochId := by rw [hst]
      rw [hep, pendId_static hst]
      by_cases he : (slot c k).epochId = e
      · rw [he]
        by_cases hl : e < ps.length
        · have : (ps.set e p').getD e Pointer.last = p' := by simp [List.getD_eq_getElem?_getD, hl]
          rw [this]; exact g2 k hk i
        · have h3 : (ps.set e p').getD e Pointer.last = Pointer.last := by
            rw [List.getD_eq_getElem?_getD, List.getElem?_eq_none (by rw [List.length_set]; omega)]; rfl
          have h4 : ps.getD e Pointer.last = Pointer.last := by
            rw [List.getD_eq_getElem?_getD, List.getElem?_eq_none (by omega)]; rfl
          rw [h3]
          have := g2 k hk i
          rw [h4] at this ⊢
          have hb2 : (slot c k).id < maxU64 := by rw [slot_eq c k hk]; exact hgc.bound _ (List.getElem_mem hk)
          rw [pendId_last _ hb2 i] at this ⊢
          omega
      · have h5 : (ps.set e p').getD (slot c k).epochId Pointer.last = ps.getD (slot c k).epochId Pointer.last := by
          simp only [List.getD_eq_getElem?_getD]
          rw [List.getElem?_set_ne (fun x => he x.symm)]
        rw [h5]
        have := g3 k hk he
        unfold distAt
        rw [this]
        exact Nat.le_refl _


/-! ### what `saveStreams` leaves in the store, exactly -/

/-- the value written for a cached stream -/
def finVal (ee : Bool) (st : Stream) : Stream := if ee then st.atEpochEnd else st
/-- the stream leaves the active list -/
def gone (ee : Bool) (st : Stream) : Prop := ee = true ∧ st.atEpochEnd.numEpochs ≤ st.atEpochEnd.filled

theorem atEpochEnd_id (st : Stream) : st.atEpochEnd.id = st.id := by unfold Stream.atEpochEnd; split <;> rfl
theorem atEpochEnd_start (st : Stream) : st.atEpochEnd.start = st.start := by unfold Stream.atEpochEnd; split <;> rfl

theorem getS_setStream_ne (s : State) (hs : SStruct s) (v : Stream) (hv : ∃ st0, getS s.streams v.id = some st0) (x : Nat) (hx : x ≠ v.id) :
    getS (setStream s v).streams x = getS s.streams x := by
  obtain ⟨st0, h0⟩ := hv
  obtain ⟨h1, _⟩ := getS_some hs.sid h0
  show getS (s.streams.set (v.id - 1) v) x = _
  exact getS_set_ne _ _ _ _ (by omega)

theorem getS_setStream_eq (s : State) (hs : SStruct s) (v : Stream) (hv : ∃ st0, getS s.streams v.id = some st0) :
    getS (setStream s v).streams v.id = some v := by
  obtain ⟨st0, h0⟩ := hv
  obtain ⟨h1, hk, _⟩ := getS_some hs.sid h0
  show getS (s.streams.set (v.id - 1) v) v.id = _
  have := getS_set_eq s.streams (v.id - 1) v hk
  have e : v.id - 1 + 1 = v.id := by omega
  rw [e] at this; exact this

theorem saveOne_exact (ee : Bool) (s : State) (hs : SStruct s) (st : Stream) (hcoh : SCoh s.streams st) (s1 : State)
    (h : (if ee then saveStreamEnd st.atEpochEnd s else .ok (setStream s st)) = .ok s1) :
    s1.ptrs = s.ptrs ∧ s1.streams.length = s.streams.length ∧
    (∀ x, x ≠ st.id → getS s1.streams x = getS s.streams x) ∧
    getS s1.streams st.id = some (finVal ee st) ∧
    (∀ x, x ∈ s1.active.ids ↔ x ∈ s.active.ids ∧ (x = st.id → ¬ gone ee st)) := by
  obtain ⟨st0, hget, _, _⟩ := hcoh
  obtain ⟨n1, _, _⟩ := List.nodup_append.1 hs.nodup
  cases ee with
  | false =>
    simp only [Bool.false_eq_true, if_false, Except.ok.injEq] at h
    subst h
    refine ⟨rfl, by simp [setStream], fun x hx => getS_setStream_ne s hs st ⟨st0, hget⟩ x hx, ?_, ?_⟩
    · unfold finVal; simp only [Bool.false_eq_true, if_false]; exact getS_setStream_eq s hs st ⟨st0, hget⟩
    · intro x; unfold gone; simp [setStream]
  | true =>
    simp only [if_true] at h
    have hex : ∃ st0, getS s.streams st.atEpochEnd.id = some st0 := ⟨st0, by rw [atEpochEnd_id]; exact hget⟩
    unfold saveStreamEnd at h
    by_cases hf : st.atEpochEnd.filled ≥ st.atEpochEnd.numEpochs
    · rw [if_pos hf] at h
      cases hd : Refs.del s.active st.atEpochEnd.start st.atEpochEnd.id with
      | none => simp [hd] at h
      | some a =>
        simp only [hd] at h
        cases hfi : Refs.add s.finished st.atEpochEnd.start st.atEpochEnd.id with
        | none => simp [hfi] at h
        | some f =>
          simp only [hfi, Except.ok.injEq] at h
          subst h
          obtain ⟨_, _, d3⟩ := Refs.del_spec (fun _ => 0) s.active _ _ a hd
          obtain ⟨_, j2⟩ := d3 n1
          have hs' : SStruct { s with active := a, finished := f } := (remove_active s hs _ _ a f hd).1
          refine ⟨rfl, by simp [setStream], ?_, ?_, ?_⟩
          · intro x hx
            exact getS_setStream_ne _ hs' _ hex x (by rw [atEpochEnd_id]; exact hx)
          · unfold finVal; simp only [if_true]
            have := getS_setStream_eq _ hs' _ hex
            rw [atEpochEnd_id] at this; exact this
          · intro x
            show x ∈ a.ids ↔ _
            rw [j2 x, atEpochEnd_id]
            unfold gone
            constructor
            · intro ⟨h1, h2⟩; exact ⟨h1, fun he => absurd he h2⟩
            · intro ⟨h1, h2⟩
              refine ⟨h1, fun he => h2 he ⟨rfl, hf⟩⟩
    · rw [if_neg hf] at h
      simp only [Except.ok.injEq] at h
      subst h
      refine ⟨rfl, by simp [setStream], ?_, ?_, ?_⟩
      · intro x hx
        exact getS_setStream_ne _ hs _ hex x (by rw [atEpochEnd_id]; exact hx)
      · unfold finVal; simp only [if_true]
        have := getS_setStream_eq _ hs _ hex
        rw [atEpochEnd_id] at this; exact this
      · intro x
        show x ∈ s.active.ids ↔ _
        unfold gone
        constructor
        · intro h1; exact ⟨h1, fun _ hg => hf hg.2⟩
        · intro h1; exact h1.1


theorem saveStreams_exact (ee : Bool) : ∀ (l : List Stream) (s s' : State), SStruct s → (l.map (·.id)).Nodup →
    (∀ st ∈ l, SCoh s.streams st ∧ st.id ∈ s.active.ids) → saveStreams ee l s = .ok s' →
    s'.ptrs = s.ptrs ∧ s'.streams.length = s.streams.length ∧
    (∀ x, x ∉ l.map (·.id) → getS s'.streams x = getS s.streams x) ∧
    (∀ st ∈ l, getS s'.streams st.id = some (finVal ee st)) ∧
    (∀ x, x ∈ s'.active.ids ↔ x ∈ s.active.ids ∧ ∀ st ∈ l, st.id = x → ¬ gone ee st) := by
  intro l
  induction l with
  | nil =>
    intro s s' _ _ _ h
    simp only [saveStreams, Except.ok.injEq] at h
    subst h
    exact ⟨rfl, rfl, fun _ _ => rfl, by simp, by simp⟩
  | cons st rest ih =>
    intro s s' hs hnd hall h
    have hnd0 : (st.id :: rest.map (·.id)).Nodup := hnd
    obtain ⟨hn1, hn2⟩ := List.nodup_cons.1 hnd0
    have hne : ∀ y ∈ rest, y.id ≠ st.id := fun y hy he => hn1 (by rw [← he]; exact List.mem_map_of_mem (f := (·.id)) hy)
    obtain ⟨hcoh, hact⟩ := hall st List.mem_cons_self
    have step : ∃ s1, (if ee then saveStreamEnd st.atEpochEnd s else .ok (setStream s st)) = .ok s1 ∧ saveStreams ee rest s1 = .ok s' := by
      unfold saveStreams at h
      by_cases he : ee = true
      · simp only [he, if_true] at h ⊢
        cases hs1 : saveStreamEnd st.atEpochEnd s with
        | error e => simp [hs1] at h
        | ok s1 => simp only [hs1] at h; exact ⟨s1, rfl, h⟩
      · have he' : ee = false := by simpa using he
        simp only [he', Bool.false_eq_true, if_false] at h ⊢
        exact ⟨_, rfl, h⟩
    obtain ⟨s1, hw, hrest⟩ := step
    obtain ⟨e1, e2, e3, e4, e5⟩ := saveOne_exact ee s hs st hcoh s1 hw
    -- structure and coherence carry over (reuse the solvency-side lemma)
    have hw' : setStream s (finVal ee st) = s1 ∨ saveStreamEnd (finVal ee st) s = .ok s1 := by
      cases ee with
      | false => left; simp only [Bool.false_eq_true, if_false, Except.ok.injEq] at hw; unfold finVal; simpa using hw
      | true => right; simp only [if_true] at hw; unfold finVal; simpa using hw
    have hv : finVal ee st = st ∨ finVal ee st = st.atEpochEnd := by
      unfold finVal; cases ee <;> simp
    obtain ⟨a1, _, _, _, _, a6, _⟩ := saveOne s hs st hcoh hact (finVal ee st) hv s1 hw'
    have hall' : ∀ y ∈ rest, SCoh s1.streams y ∧ y.id ∈ s1.active.ids := by
      intro y hy
      obtain ⟨c1, c2⟩ := hall y (List.mem_cons_of_mem _ hy)
      obtain ⟨f1, f2⟩ := a6 y.id (hne y hy)
      exact ⟨SCoh_congr f1 c1, f2 c2⟩
    obtain ⟨b1, b2, b3, b4, b5⟩ := ih s1 s' a1 hn2 hall' hrest
    refine ⟨b1.trans e1, b2.trans e2, ?_, ?_, ?_⟩
    · intro x hx
      simp only [List.map_cons, List.mem_cons, not_or] at hx
      rw [b3 x hx.2, e3 x hx.1]
    · intro y hy
      rcases List.mem_cons.1 hy with h1 | h1
      · rw [h1, b3 st.id hn1]; exact e4
      · exact b4 y h1
    · intro x
      rw [b5 x, e5 x]
      constructor
      · intro ⟨⟨h1, h2⟩, h3⟩
        refine ⟨h1, ?_⟩
        intro y hy hyx
        rcases List.mem_cons.1 hy with h4 | h4
        · rw [h4] at hyx; rw [h4]; exact h2 hyx.symm
        · exact h3 y h4 hyx
      · intro ⟨h1, h2⟩
        exact ⟨⟨h1, fun he => h2 st List.mem_cons_self he.symm⟩, fun y hy hyx => h2 y (List.mem_cons_of_mem _ hy) hyx⟩


/-! ### the state invariant -/

def ptrOfEpoch (s : State) (e : Nat) : Pointer := s.ptrs.getD e Pointer.last

/-- a stream's bound: while active, what it has handed out, plus what is still pending in this epoch, plus
    a full round of shares for every later epoch, fits into its coins -/
def SBst (s : State) (st : Stream) (i : Nat) : Prop :=
  if st.id ∈ s.active.ids then
    amt st.distributed i + pendId (ptrOfEpoch s st.epochId) st i + (st.numEpochs - st.filled - 1) * sharesOf st st.recs i ≤ amt st.coins i
  else amt st.distributed i ≤ amt st.coins i

def SB (s : State) : Prop := ∀ st ∈ s.streams, ∀ i, SBst s st i

/-- static facts about every stream: total weight is the sum of the weights, records sorted by gauge id -/
structure SStat (s : State) : Prop where
  tw : ∀ st ∈ s.streams, st.totalWeight = totalWeightOf st.recs
  recs : ∀ st ∈ s.streams, StrictInc (st.recs.map (·.gauge))

/-- an upcoming stream is still as `CreateStream` stored it -/
def Fresh (s : State) : Prop :=
  ∀ st ∈ s.streams, st.id ∈ s.upcoming.ids →
    st.distributed = [] ∧ st.filled = 0 ∧ st.ecEmpty = false ∧ st.epochCoins = Coins.quo st.coins st.numEpochs ∧ st.numEpochs ≠ 0

theorem Fresh_congr {s s' : State} (h1 : s'.streams = s.streams) (h2 : s'.upcoming = s.upcoming) (h : Fresh s) : Fresh s' := by
  intro st hm hu; rw [h1] at hm; rw [h2] at hu; exact h st hm hu

theorem SB_noOver (s : State) (h : SB s) : NoOver s.streams := by
  intro st hst i
  have := h st hst i
  unfold SBst at this
  split at this
  · omega
  · exact this

theorem getS_of_mem {ss : List Stream} (hid : SidOK ss) {st : Stream} (h : st ∈ ss) : getS ss st.id = some st := by
  obtain ⟨k, hk, he⟩ := List.getElem_of_mem h
  have := hid k hk
  rw [he] at this
  unfold getS
  rw [this]
  simp [he, hk]

theorem ptrLoop_ptrs_other (s : State) (maxOps : Nat) (e' : Nat) : ∀ (es : List Nat) (total : Nat) (c : Caches) (ps : List Pointer),
    e' ∉ es → (ptrLoop s maxOps es total c ps).2.2.getD e' Pointer.last = ps.getD e' Pointer.last := by
  intro es
  induction es with
  | nil => intro total c ps _; rfl
  | cons e rest ih =>
    intro total c ps hne
    unfold ptrLoop
    split
    · rfl
    · simp only
      rw [ih _ _ _ (fun hm => hne (List.mem_cons_of_mem _ hm))]
      simp only [List.getD_eq_getElem?_getD]
      rw [List.getElem?_set_ne (fun x => hne (by rw [x]; exact List.mem_cons_self))]

theorem mem_sortByDuration (es : List Nat) (x : Nat) (h : x ∈ sortByDuration es) : x ∈ es := by
  unfold sortByDuration at h
  simp only [List.mem_append, List.mem_filter] at h
  rcases h with (h | h) | h <;> exact h.1

theorem streamsOf_ids (ss : List Stream) (hid : SidOK ss) : ∀ (ids : List Nat), (∀ x ∈ ids, 1 ≤ x ∧ x ≤ ss.length) →
    (ids.filterMap (getS ss)).map (·.id) = ids := by
  intro ids
  induction ids with
  | nil => intro _; rfl
  | cons x xs ih =>
    intro hv
    obtain ⟨h1, h2⟩ := hv x List.mem_cons_self
    have hk : x - 1 < ss.length := by omega
    have hg : getS ss x = some ss[x - 1] := by
      unfold getS
      have : ¬ x = 0 := by omega
      simp [this, hk]
    have hidx : (ss[x - 1]).id = x := by rw [hid _ hk]; omega
    simp only [List.filterMap_cons, hg, List.map_cons, hidx]
    rw [ih (fun y hy => hv y (List.mem_cons_of_mem _ hy))]

theorem activeStreams_ids (s : State) (hs : SStruct s) : (activeStreams s).map (·.id) = s.active.ids :=
  streamsOf_ids s.streams hs.sid s.active.ids (fun x hx => hs.valid x (List.mem_append_left _ hx))


theorem saveStreamEnd_now (st : Stream) (s s' : State) (h : saveStreamEnd st s = .ok s') : s'.now = s.now := by
  unfold saveStreamEnd at h
  repeat' (first | split at h | dsimp only at h)
  all_goals first | (simp at h; done) | (simp only [Except.ok.injEq] at h; subst h; rfl)

theorem saveStreams_now (ee : Bool) : ∀ (l : List Stream) (s s' : State), saveStreams ee l s = .ok s' → s'.now = s.now := by
  intro l
  induction l with
  | nil => intro s s' h; simp only [saveStreams, Except.ok.injEq] at h; subst h; rfl
  | cons st rest ih =>
    intro s s' h
    unfold saveStreams at h
    by_cases he : ee = true
    · simp only [he, if_true] at h
      cases hs : saveStreamEnd st.atEpochEnd s with
      | error e => simp [hs] at h
      | ok s1 =>
        simp only [hs] at h
        rw [ih _ _ (by rw [he]; exact h), saveStreamEnd_now _ _ _ hs]
    · have he' : ee = false := by simpa using he
      simp only [he', Bool.false_eq_true, if_false] at h
      rw [ih _ _ (by rw [he']; exact h)]; rfl

/-! ### `Keeper.Distribute` of x/streamer, exactly what it leaves in the stream store -/

/-- what `strDistribute_core` establishes -/
def CoreConcl (s : State) (es : List Nat) (streams : List Stream) (ee : Bool) (s' : State) : Prop :=
    ∃ (c : Caches),
      s'.streams.length = s.streams.length ∧ s'.upcoming = s.upcoming ∧ s'.now = s.now ∧
      (∀ e', e' ∉ es → s'.ptrs.getD e' Pointer.last = s.ptrs.getD e' Pointer.last) ∧
      (∀ x, x ∉ streams.map (·.id) → getS s'.streams x = getS s.streams x) ∧
      (∀ v ∈ c.streams, v.id ∈ streams.map (·.id)) ∧
      (∀ x ∈ streams.map (·.id), ∃ v ∈ c.streams, v.id = x) ∧
      (∀ v ∈ c.streams, getS s'.streams v.id = some (finVal ee v)) ∧
      (∀ x, x ∈ s'.active.ids ↔ x ∈ s.active.ids ∧ ∀ v ∈ c.streams, v.id = x → ¬ gone ee v) ∧
      (∀ v ∈ c.streams, ∃ st0, getS s.streams v.id = some st0 ∧ v = { st0 with distributed := v.distributed } ∧
        ∀ i, amt v.distributed i + pendId (s'.ptrs.getD v.epochId Pointer.last) v i
              ≤ amt st0.distributed i + pendId (s.ptrs.getD st0.epochId Pointer.last) st0 i)

theorem strDistribute_core (s : State) (es : List Nat) (streams : List Stream) (maxOps : Nat) (ee : Bool) (s' : State)
    (hg : GInv s) (hs : SStruct s) (hin : GoodInput s streams)
    (hst : ∀ st ∈ streams, StrictInc (st.recs.map (·.gauge)) ∧ st.id < maxU64)
    (h : strDistribute s es streams maxOps ee = .ok s') : CoreConcl s es streams ee s' := by
  have hin0 := hin
  have hin := sortById_good s streams hin
  unfold strDistribute at h
  have hgc0 : GoodCache ⟨sortById streams, [], []⟩ := by
    refine ⟨hin.1, sorted_sortById streams, ?_, ?_⟩
    · intro st hm; exact (hst st ((mem_sortById streams st).1 hm)).1
    · intro st hm; exact (hst st ((mem_sortById streams st).1 hm)).2
  have hci := ptrLoop_CI s hg.ids maxOps (sortByDuration es) 0 ⟨sortById streams, [], []⟩ s.ptrs
    ⟨by simp, by simp, by intro i; simp [extras]⟩
  have hsci := ptrLoop_SCI2 s s.streams ((sortById streams).map (·.id)) maxOps (sortByDuration es) 0 ⟨sortById streams, [], []⟩ s.ptrs
    ⟨⟨hin.1, fun st hst => ⟨st, (hin.2 st hst).1, rfl, fun _ => Nat.le_refl _⟩, by
        intro i
        unfold sExtras
        apply sum_zero_of_all_zero
        intro x hx
        obtain ⟨st, hst, he⟩ := List.mem_map.1 hx
        rw [← he]; unfold sExtra storedDist; rw [(hin.2 st hst).1]; simp⟩, rfl⟩
  have hwin := ptrLoop_window s maxOps (sortByDuration es) 0 ⟨sortById streams, [], []⟩ s.ptrs hgc0
  have hpo : ∀ e', e' ∉ es → (ptrLoop s maxOps (sortByDuration es) 0 ⟨sortById streams, [], []⟩ s.ptrs).2.2.getD e' Pointer.last = s.ptrs.getD e' Pointer.last :=
    fun e' he' => ptrLoop_ptrs_other s maxOps e' _ _ _ _ (fun hm => he' (mem_sortByDuration es e' hm))
  generalize ptrLoop s maxOps (sortByDuration es) 0 ⟨sortById streams, [], []⟩ s.ptrs = res at h hci hsci hwin hpo
  obtain ⟨tot, c, ps⟩ := res
  dsimp only at h hci hsci hwin hpo
  obtain ⟨ci1, ci2, ci3⟩ := hci
  obtain ⟨⟨sc1, sc2, sc3⟩, sc4⟩ := hsci
  obtain ⟨wg, wq⟩ := hwin
  have hne : streamerAddr ≠ incAddr := by decide
  have hidmem : ∀ x, x ∈ (sortById streams).map (·.id) ↔ x ∈ streams.map (·.id) := by
    intro x
    constructor
    · intro hm; obtain ⟨y, hy, he⟩ := List.mem_map.1 hm; rw [← he]; exact List.mem_map_of_mem (f := (·.id)) ((mem_sortById streams y).1 hy)
    · intro hm; obtain ⟨y, hy, he⟩ := List.mem_map.1 hm; rw [← he]; exact List.mem_map_of_mem (f := (·.id)) ((mem_sortById streams y).2 hy)
  have key : ∀ b : Bank, (∀ i, amt (b.get incAddr) i = amt (s.bank.get incAddr) i + amt c.distributed i) →
      ∀ s2, incDistribute { s with ptrs := ps, bank := b } c.gauges ee = .ok s2 → saveStreams ee c.streams s2 = .ok s' → CoreConcl s es streams ee s' := by
    intro b hb1 s2 hinc hsave
    obtain ⟨_, _, r3, _, _, _, _⟩ := incDistribute_spec { s with ptrs := ps, bank := b } c.gauges ee s2
      hg.ids hg.bounded ci1 ci2
      (by intro i; simp only; rw [ci3 i, hb1 i]; have := hg.solvent i; omega) hinc
    have e1 : s2.streams = s.streams := by rw [r3]
    have e2 : s2.active = s.active := by rw [r3]
    have e3 : s2.upcoming = s.upcoming := by rw [r3]
    have e4 : s2.ptrs = ps := by rw [r3]
    have e5 : s2.now = s.now := by rw [r3]
    have hs2 : SStruct s2 := SStruct_congr e1 e2 e3 hs
    have hall : ∀ st ∈ c.streams, SCoh s2.streams st ∧ st.id ∈ s2.active.ids := by
      intro st hst
      refine ⟨by rw [e1]; exact sc2 st hst, ?_⟩
      have : st.id ∈ (sortById streams).map (·.id) := by rw [← sc4]; exact List.mem_map_of_mem (f := (·.id)) hst
      obtain ⟨y, hy, he⟩ := List.mem_map.1 this
      rw [e2, ← he]; exact (hin.2 y hy).2
    obtain ⟨q1, q2, q3, q4, q5⟩ := saveStreams_exact ee c.streams s2 s' hs2 sc1 hall hsave
    have qu := (saveStreams_spec ee c.streams s2 s' hs2 sc1 hall hsave).2.2.2.1
    have qn : s'.now = s2.now := by
      have := saveStreams_same ee _ _ _ hsave
      -- `now` is not part of `Same`; it is untouched by construction
      exact saveStreams_now ee _ _ _ hsave
    refine ⟨c, by rw [q2, e1], by rw [qu, e3], by rw [qn, e5], ?_, ?_, ?_, ?_, ?_, ?_, ?_⟩
    · intro e' he'; rw [q1, e4]; exact hpo e' he'
    · intro x hx
      rw [q3 x (by rw [sc4]; exact fun hm => hx ((hidmem x).1 hm)), e1]
    · intro v hv
      exact (hidmem _).1 (by rw [← sc4]; exact List.mem_map_of_mem (f := (·.id)) hv)
    · intro x hx
      have : x ∈ c.streams.map (·.id) := by rw [sc4]; exact (hidmem x).2 hx
      obtain ⟨v, hv, he⟩ := List.mem_map.1 this
      exact ⟨v, hv, he⟩
    · exact q4
    · intro x; rw [q5 x, e2]
    · intro v hv
      obtain ⟨k, hk, hkv⟩ := List.getElem_of_mem hv
      have hk0 : k < (sortById streams).length := by rw [← wg.1]; exact hk
      have hq := wq k hk0
      -- slot k of the initial cache is the stored stream
      have hslot0 : slot ⟨sortById streams, [], []⟩ k = (sortById streams)[k] := slot_eq ⟨sortById streams, [], []⟩ k hk0
      have hslot : slot c k = v := by rw [slot_eq c k hk]; exact hkv
      have hmem0 : (sortById streams)[k] ∈ sortById streams := List.getElem_mem hk0
      obtain ⟨hget0, _⟩ := hin.2 _ hmem0
      have hstat := slot_static wg k hk0
      rw [hslot, hslot0] at hstat
      have hidv : v.id = ((sortById streams)[k]).id := by rw [hstat]
      refine ⟨(sortById streams)[k], by rw [hidv]; exact hget0, hstat, ?_⟩
      intro i
      have := hq i
      unfold Qv distAt at this
      rw [hslot, hslot0] at this
      have hep : v.epochId = ((sortById streams)[k]).epochId := by rw [hstat]
      rw [q1, e4, hep, pendId_static hstat]
      rw [hep, pendId_static hstat] at this
      exact this
  by_cases hz : c.distributed.isZero = true
  · simp only [hz, if_true] at h
    cases hinc : incDistribute { s with ptrs := ps, bank := s.bank } c.gauges ee with
    | error e => simp [hinc] at h
    | ok s2 =>
      simp only [hinc] at h
      exact key s.bank (by intro i; have := (isZero_iff _).1 hz i; omega) s2 hinc h
  · rw [if_neg hz] at h
    cases hsend : s.bank.send streamerAddr incAddr c.distributed with
    | none => simp [hsend] at h
    | some b =>
      simp only [hsend] at h
      obtain ⟨_, sb⟩ := Bank.send_some hsend hne
      cases hinc : incDistribute { s with ptrs := ps, bank := b } c.gauges ee with
      | error e => simp [hinc] at h
      | ok s2 =>
        simp only [hinc] at h
        refine key b ?_ s2 hinc h
        intro i
        have := sb incAddr i
        rw [if_neg (fun x => hne x.symm), if_pos rfl] at this
        exact this


theorem mem_of_getS {ss : List Stream} {x : Nat} {st : Stream} (h : getS ss x = some st) : st ∈ ss := by
  unfold getS at h
  split at h
  · simp at h
  · exact List.mem_of_getElem? h

/-- every stream of the new store is either an untouched old stream or the saved value of a cached copy -/
theorem core_cases (s : State) (es : List Nat) (streams : List Stream) (ee : Bool) (s' : State)
    (hc : CoreConcl s es streams ee s') (hs : SStruct s) (hs' : SStruct s') (st' : Stream) (hm : st' ∈ s'.streams) :
    (st' ∈ s.streams ∧ st'.id ∉ streams.map (·.id) ∧ (st'.id ∈ s'.active.ids ↔ st'.id ∈ s.active.ids)) ∨
    (∃ v st0, st0 ∈ s.streams ∧ st0.id ∈ streams.map (·.id) ∧ v = { st0 with distributed := v.distributed } ∧ st' = finVal ee v ∧
      (∀ i, amt v.distributed i + pendId (s'.ptrs.getD v.epochId Pointer.last) v i
              ≤ amt st0.distributed i + pendId (s.ptrs.getD st0.epochId Pointer.last) st0 i) ∧
      (st'.id ∈ s'.active.ids ↔ st0.id ∈ s.active.ids ∧ ¬ gone ee v)) := by
  obtain ⟨c, _, _, _, _, c5, c6, c7, c8, c9, c10⟩ := hc
  have hget' := getS_of_mem hs'.sid hm
  by_cases hx : st'.id ∈ streams.map (·.id)
  · right
    obtain ⟨v, hv, hvid⟩ := c7 _ hx
    have h8 := c8 v hv
    rw [hvid, hget'] at h8
    have hst' : st' = finVal ee v := Option.some.inj h8
    obtain ⟨st0, g0, g1, g2⟩ := c10 v hv
    have hid0 : st0.id = v.id := by rw [g1]
    refine ⟨v, st0, mem_of_getS g0, by rw [hid0, hvid]; exact hx, g1, hst', g2, ?_⟩
    rw [c9 st'.id, hid0, hvid]
    constructor
    · intro ⟨h1, h2⟩; exact ⟨h1, h2 v hv hvid⟩
    · intro ⟨h1, h2⟩
      refine ⟨h1, ?_⟩
      intro w hw hwid
      -- cached ids are distinct, so w = v
      have hw8 := c8 w hw
      rw [hwid, hget'] at hw8
      have : finVal ee w = finVal ee v := by rw [← Option.some.inj hw8, hst']
      -- `gone` only depends on the saved value
      unfold gone at h2 ⊢
      unfold finVal at this
      cases ee with
      | false => simp
      | true =>
        simp only [if_true] at this
        rw [this]; exact h2
  · left
    have h5 := c5 _ hx
    rw [hget'] at h5
    refine ⟨mem_of_getS h5.symm, hx, ?_⟩
    rw [c9 st'.id]
    constructor
    · intro h; exact h.1
    · intro h
      refine ⟨h, ?_⟩
      intro v hv hvid
      exact absurd (by rw [← hvid]; exact c6 v hv) hx


theorem core_fresh (s : State) (es : List Nat) (streams : List Stream) (ee : Bool) (s' : State)
    (hc : CoreConcl s es streams ee s') (hs : SStruct s) (hs' : SStruct s') (hin : GoodInput s streams) (hf : Fresh s) : Fresh s' := by
  intro st' hm hu
  have hup : s'.upcoming = s.upcoming := by obtain ⟨_, _, c2, _⟩ := hc; exact c2
  rw [hup] at hu
  obtain ⟨_, _, n3⟩ := List.nodup_append.1 hs.nodup
  rcases core_cases s es streams ee s' hc hs hs' st' hm with ⟨a1, _, _⟩ | ⟨v, st0, _, b2, b3, b4, _, _⟩
  · exact hf st' a1 hu
  · exfalso
    obtain ⟨y, hy, hyid⟩ := List.mem_map.1 b2
    have hact : st0.id ∈ s.active.ids := by rw [← hyid]; exact (hin.2 y hy).2
    have hid : st'.id = st0.id := by
      rw [b4]; unfold finVal
      cases ee with
      | false => simp only [Bool.false_eq_true, if_false]; rw [b3]
      | true => simp only [if_true]; rw [atEpochEnd_id, b3]
    exact n3 st0.id hact st0.id (by rw [← hid]; exact hu) rfl

/-! ### the bound is kept by the streamer's EndBlock and re-established around epoch boundaries -/

theorem id_le_length {ss : List Stream} (hid : SidOK ss) {st : Stream} (h : st ∈ ss) : st.id ≤ ss.length := by
  obtain ⟨k, hk, he⟩ := List.getElem_of_mem h
  have := hid k hk
  rw [he] at this; omega

theorem sharesOf_tw0 (st : Stream) (h : (st.totalWeight != 0) = false) (rs : List Rec) (i : Nat) : sharesOf st rs i = 0 := by
  unfold sharesOf shareOf
  have : (st.totalWeight == 0) = true := by simpa using h
  simp only [this, Bool.or_true, if_true]
  apply sum_zero_of_all_zero
  intro x hx; simp at hx; exact hx.2.symm ▸ rfl

/-- the strong form of the bound for a copy `v` of `st0` with more distributed coins -/
theorem strong_of_window (s s' : State) (st0 v : Stream) (g1 : v = { st0 with distributed := v.distributed }) (i : Nat)
    (h0 : amt st0.distributed i + pendId (ptrOfEpoch s st0.epochId) st0 i + (st0.numEpochs - st0.filled - 1) * sharesOf st0 st0.recs i ≤ amt st0.coins i)
    (hq : amt v.distributed i + pendId (s'.ptrs.getD v.epochId Pointer.last) v i
              ≤ amt st0.distributed i + pendId (s.ptrs.getD st0.epochId Pointer.last) st0 i) :
    amt v.distributed i + pendId (ptrOfEpoch s' v.epochId) v i + (v.numEpochs - v.filled - 1) * sharesOf v v.recs i ≤ amt v.coins i := by
  have e1 : v.numEpochs = st0.numEpochs := by rw [g1]
  have e2 : v.filled = st0.filled := by rw [g1]
  have e3 : v.coins = st0.coins := by rw [g1]
  have e4 : sharesOf v v.recs i = sharesOf st0 st0.recs i := by
    have : v.recs = st0.recs := by rw [g1]
    rw [this]
    rw [g1]; exact sharesOf_congr rfl rfl rfl _ i
  unfold ptrOfEpoch at *
  rw [e1, e2, e3, e4]
  omega

theorem endBlock_SB (s s' : State) (hg : GInv s) (hs : SStruct s) (hstat : SStat s) (hsb : SB s)
    (hlen : s.streams.length < maxU64) (h : streamerEndBlock s = .ok s') : SB s' ∧ SStat s' := by
  unfold streamerEndBlock at h
  have hin := activeStreams_good s hs
  have hst : ∀ st ∈ activeStreams s, StrictInc (st.recs.map (·.gauge)) ∧ st.id < maxU64 := by
    intro st hm
    have hmem := mem_streamsOf hm
    exact ⟨hstat.recs st hmem, by have := id_le_length hs.sid hmem; omega⟩
  have hc := strDistribute_core s _ _ _ _ s' hg hs hin hst h
  have hs' := (strDistribute_streams s _ _ _ _ s' hg hs hin h).1
  have hids := activeStreams_ids s hs
  constructor
  · intro st' hm i
    rcases core_cases s _ _ false s' hc hs hs' st' hm with ⟨a1, a2, a3⟩ | ⟨v, st0, b1, b2, b3, b4, b5, b6⟩
    · rw [hids] at a2
      have hna : st'.id ∉ s'.active.ids := fun hx => a2 (a3.1 hx)
      unfold SBst; rw [if_neg hna]
      have := hsb st' a1 i
      unfold SBst at this; rw [if_neg a2] at this; exact this
    · rw [hids] at b2
      have hv : st' = v := by rw [b4]; rfl
      have hact : st'.id ∈ s'.active.ids := b6.2 ⟨b2, fun hg' => by unfold gone at hg'; simp at hg'⟩
      unfold SBst; rw [if_pos hact, hv]
      have h0 := hsb st0 b1 i
      unfold SBst at h0; rw [if_pos b2] at h0
      exact strong_of_window s s' st0 v b3 i h0 (b5 i)
  · constructor
    · intro st' hm
      rcases core_cases s _ _ false s' hc hs hs' st' hm with ⟨a1, _, _⟩ | ⟨v, st0, b1, _, b3, b4, _, _⟩
      · exact hstat.tw st' a1
      · have hv : st' = v := by rw [b4]; rfl
        rw [hv, b3]; exact hstat.tw st0 b1
    · intro st' hm
      rcases core_cases s _ _ false s' hc hs hs' st' hm with ⟨a1, _, _⟩ | ⟨v, st0, b1, _, b3, b4, _, _⟩
      · exact hstat.recs st' a1
      · have hv : st' = v := by rw [b4]; rfl
        rw [hv, b3]; exact hstat.recs st0 b1


theorem mem_activeStreamsFor (s : State) (hs : SStruct s) (e : Nat) (st : Stream) (hm : st ∈ s.streams)
    (ha : st.id ∈ s.active.ids) (he : st.epochId = e) : st.id ∈ (activeStreamsFor s e).map (·.id) := by
  have : st.id ∈ (activeStreams s).map (·.id) := by rw [activeStreams_ids s hs]; exact ha
  obtain ⟨y, hy, hyid⟩ := List.mem_map.1 this
  have hgy := ((activeStreams_good s hs).2 y hy).1
  have hgs := getS_of_mem hs.sid hm
  rw [hyid, hgs] at hgy
  have : y = st := (Option.some.inj hgy).symm
  subst this
  unfold activeStreamsFor
  have hf : (y.epochId == e) = true := by rw [he]; exact beq_self_eq_true e
  have hmem : y ∈ List.filter (fun x => x.epochId == e) (activeStreams s) := List.mem_filter.2 ⟨hy, hf⟩
  exact List.mem_map_of_mem (f := (·.id)) hmem

theorem activeStreamsFor_epoch (s : State) (e : Nat) (st : Stream) (h : st ∈ activeStreamsFor s e) : st.epochId = e := by
  unfold activeStreamsFor at h
  have := (List.mem_filter.1 h).2
  simpa using this

theorem atEpochEnd_static (st : Stream) :
    st.atEpochEnd = { st with filled := st.atEpochEnd.filled } ∧
    (st.atEpochEnd.filled = if st.totalWeight != 0 then st.filled + 1 else st.filled) := by
  unfold Stream.atEpochEnd
  split <;> exact ⟨rfl, rfl⟩

theorem pendId_filled (p : Pointer) (st : Stream) (f : Nat) (i : Nat) : pendId p { st with filled := f } i = pendId p st i := by
  unfold pendId
  simp only
  exact sharesOf_congr rfl rfl rfl _ i

theorem afterEpochEnd_SB (s s' : State) (e : Nat) (hg : GInv s) (hs : SStruct s) (hstat : SStat s) (hsb : SB s)
    (hlen : s.streams.length < maxU64) (h : streamerAfterEpochEnd s e = .ok s') : SB s' ∧ SStat s' := by
  unfold streamerAfterEpochEnd at h
  by_cases hemp : (activeStreamsFor s e).isEmpty = true
  · rw [if_pos hemp] at h
    simp only [Except.ok.injEq] at h; subst h; exact ⟨hsb, hstat⟩
  rw [if_neg hemp] at h
  cases hd : strDistribute s [e] (activeStreamsFor s e) maxU64 true with
  | error x => simp [hd] at h
  | ok s1 =>
    simp only [hd, Except.ok.injEq] at h
    have hin := activeStreamsFor_good s hs e
    have hst : ∀ st ∈ activeStreamsFor s e, StrictInc (st.recs.map (·.gauge)) ∧ st.id < maxU64 := by
      intro st hm
      have hmem : st ∈ s.streams := mem_of_getS (hin.2 st hm).1
      exact ⟨hstat.recs st hmem, by have := id_le_length hs.sid hmem; omega⟩
    have hc := strDistribute_core s _ _ _ _ s1 hg hs hin hst hd
    have hs1 := (strDistribute_streams s _ _ _ _ s1 hg hs hin hd).1
    have hptr_other : ∀ e', e' ≠ e → ptrOfEpoch s' e' = ptrOfEpoch s e' := by
      intro e' hne
      obtain ⟨_, _, _, _, c4, _⟩ := hc
      rw [← h]
      unfold ptrOfEpoch
      simp only [List.getD_eq_getElem?_getD]
      rw [List.getElem?_set_ne (fun x => hne x.symm)]
      have := c4 e' (by simp only [List.mem_singleton]; exact hne)
      simpa [List.getD_eq_getElem?_getD] using this
    have hact : s'.active = s1.active := by rw [← h]
    have hstr : s'.streams = s1.streams := by rw [← h]
    constructor
    · intro st' hm i
      rw [hstr] at hm
      rcases core_cases s _ _ true s1 hc hs hs1 st' hm with ⟨a1, a2, a3⟩ | ⟨v, st0, b1, b2, b3, b4, b5, b6⟩
      · unfold SBst
        rw [hact]
        by_cases ha : st'.id ∈ s1.active.ids
        · rw [if_pos ha]
          have ha0 := a3.1 ha
          have hne : st'.epochId ≠ e := fun he => a2 (mem_activeStreamsFor s hs e st' a1 ha0 he)
          rw [hptr_other _ hne]
          have := hsb st' a1 i
          unfold SBst at this; rw [if_pos ha0] at this; exact this
        · rw [if_neg ha]
          have ha0 : st'.id ∉ s.active.ids := fun hx => ha (a3.2 hx)
          have := hsb st' a1 i
          unfold SBst at this; rw [if_neg ha0] at this; exact this
      · obtain ⟨y, hy, hyid⟩ := List.mem_map.1 b2
        have hy0 : y = st0 := by
          have := (hin.2 y hy).1
          rw [hyid, getS_of_mem hs.sid b1] at this
          exact (Option.some.inj this).symm
        have hep : st0.epochId = e := by rw [← hy0]; exact activeStreamsFor_epoch s e y hy
        have hact0 : st0.id ∈ s.active.ids := by rw [← hy0]; exact (hin.2 y hy).2
        have h0 := hsb st0 b1 i
        unfold SBst at h0; rw [if_pos hact0] at h0
        have hstrong := strong_of_window s s1 st0 v b3 i h0 (b5 i)
        have hv : st' = v.atEpochEnd := by rw [b4]; rfl
        obtain ⟨hst1, hst2⟩ := atEpochEnd_static v
        have hall : sharesOf st' st'.recs i = sharesOf v v.recs i := by
          rw [hv, hst1]; exact sharesOf_congr rfl rfl rfl _ i
        have hcoins : st'.coins = v.coins := by rw [hv, hst1]
        have hdist : st'.distributed = v.distributed := by rw [hv, hst1]
        have hn : st'.numEpochs = v.numEpochs := by rw [hv, hst1]
        unfold SBst
        rw [hact]
        by_cases ha : st'.id ∈ s1.active.ids
        · rw [if_pos ha]
          have hng := (b6.1 ha).2
          unfold gone at hng
          simp only [true_and, Nat.not_le] at hng
          have hpend := pendId_le_all (ptrOfEpoch s' st'.epochId) st' i
          rw [hall] at hpend ⊢
          rw [hcoins, hdist, hn]
          have hf : st'.filled = v.atEpochEnd.filled := by rw [hv]
          rw [hf]
          by_cases htw : (v.totalWeight != 0) = true
          · simp only [htw, if_true] at hst2
            rw [hst2] at hng ⊢
            have hge : 1 ≤ v.numEpochs - v.filled - 1 := by
              have : v.atEpochEnd.numEpochs = v.numEpochs := by rw [hst1]
              omega
            have hmul : sharesOf v v.recs i + (v.numEpochs - (v.filled + 1) - 1) * sharesOf v v.recs i
                = (v.numEpochs - v.filled - 1) * sharesOf v v.recs i := by
              have : v.numEpochs - v.filled - 1 = (v.numEpochs - (v.filled + 1) - 1) + 1 := by omega
              rw [this, Nat.add_mul, Nat.one_mul, Nat.add_comm]
            omega
          · have htw' : (v.totalWeight != 0) = false := by simpa using htw
            have hz := sharesOf_tw0 v htw' v.recs i
            rw [hz] at hpend ⊢
            simp only [Nat.mul_zero, Nat.add_zero]
            omega
        · rw [if_neg ha, hcoins, hdist]
          omega
    · constructor
      · intro st' hm
        rw [hstr] at hm
        rcases core_cases s _ _ true s1 hc hs hs1 st' hm with ⟨a1, _, _⟩ | ⟨v, st0, b1, _, b3, b4, _, _⟩
        · exact hstat.tw st' a1
        · have hv : st' = v.atEpochEnd := by rw [b4]; rfl
          rw [hv, (atEpochEnd_static v).1]; simp only
          rw [b3]; exact hstat.tw st0 b1
      · intro st' hm
        rw [hstr] at hm
        rcases core_cases s _ _ true s1 hc hs hs1 st' hm with ⟨a1, _, _⟩ | ⟨v, st0, b1, _, b3, b4, _, _⟩
        · exact hstat.recs st' a1
        · have hv : st' = v.atEpochEnd := by rw [b4]; rfl
          rw [hv, (atEpochEnd_static v).1]; simp only
          rw [b3]; exact hstat.recs st0 b1


theorem activateDue_exact : ∀ (l : List Stream) (s s1 : State), activateDue l s = .ok s1 →
    s1.streams = s.streams ∧ s1.ptrs = s.ptrs ∧ s1.now = s.now ∧
    (∀ x, x ∈ s1.active.ids → x ∈ s.active.ids ∨ ∃ st ∈ l, st.id = x) ∧
    (∀ x, x ∈ s.active.ids → x ∈ s1.active.ids) ∧
    (∀ x, x ∈ s1.upcoming.ids → x ∈ s.upcoming.ids) := by
  intro l
  induction l with
  | nil =>
    intro s s1 h
    simp only [activateDue, Except.ok.injEq] at h
    subst h
    exact ⟨rfl, rfl, rfl, fun x hx => Or.inl hx, fun x hx => hx, fun x hx => hx⟩
  | cons st rest ih =>
    intro s s1 h
    unfold activateDue at h
    by_cases hc : st.start ≤ s.now
    · rw [if_pos hc] at h
      cases hd : Refs.del s.upcoming st.start st.id with
      | none => simp [hd] at h
      | some u =>
        simp only [hd] at h
        cases hf : Refs.add s.active st.start st.id with
        | none => simp [hf] at h
        | some a =>
          simp only [hf] at h
          obtain ⟨r1, r2, r3, r4, r5, r6⟩ := ih _ _ h
          refine ⟨r1, r2, r3, ?_, ?_, ?_⟩
          · intro x hx
            rcases r4 x hx with h1 | ⟨y, hy, hy2⟩
            · rcases (Refs.add_mem hf x).1 h1 with h2 | h2
              · exact Or.inl h2
              · exact Or.inr ⟨st, List.mem_cons_self, h2.symm⟩
            · exact Or.inr ⟨y, List.mem_cons_of_mem _ hy, hy2⟩
          · intro x hx
            exact r5 x ((Refs.add_mem hf x).2 (Or.inl hx))
          · intro x hx
            have := r6 x hx
            -- deletion only removes
            obtain ⟨_, _, _⟩ := Refs.del_spec (fun _ => 0) s.upcoming _ _ u hd
            exact Refs.del_subset hd x this
    · rw [if_neg hc] at h
      obtain ⟨r1, r2, r3, r4, r5, r6⟩ := ih _ _ h
      refine ⟨r1, r2, r3, ?_, r5, r6⟩
      intro x hx
      rcases r4 x hx with h1 | ⟨y, hy, hy2⟩
      · exact Or.inl h1
      · exact Or.inr ⟨y, List.mem_cons_of_mem _ hy, hy2⟩

/-- the value `UpdateStreamAtEpochStart` writes for a stream whose records are settled (for a sponsored stream:
    after `Stream.retarget`, i.e. `started (st.retarget distr)`) -/
def started (st : Stream) : Stream :=
  { st with epochCoins := Coins.quo (Coins.sub st.coins st.distributed) (st.numEpochs - st.filled),
            ecEmpty := (Coins.sub st.coins st.distributed).isZero }

theorem startStreams_exact : ∀ (l : List Stream) (s s' : State), SStruct s → (l.map (·.id)).Nodup →
    (∀ st ∈ l, getS s.streams st.id = some st) → startStreams l s = .ok s' →
    s'.ptrs = s.ptrs ∧ s'.active = s.active ∧ s'.now = s.now ∧
    (∀ x, x ∉ l.map (·.id) → getS s'.streams x = getS s.streams x) ∧
    s'.distr = s.distr ∧
    (∀ st ∈ l, getS s'.streams st.id = some (started (st.retarget s.distr)) ∧ st.numEpochs - st.filled ≠ 0 ∧ ∀ i, amt st.distributed i ≤ amt st.coins i) := by
  intro l
  induction l with
  | nil =>
    intro s s' _ _ _ h
    simp only [startStreams, Except.ok.injEq] at h
    subst h
    exact ⟨rfl, rfl, rfl, fun _ _ => rfl, rfl, by simp⟩
  | cons st rest ih =>
    intro s s' hs hnd hall h
    have hnd0 : (st.id :: rest.map (·.id)).Nodup := hnd
    obtain ⟨hn1, hn2⟩ := List.nodup_cons.1 hnd0
    unfold startStreams at h
    cases hsub : Coins.sub? st.coins st.distributed with
    | none => simp [hsub] at h
    | some remain =>
      simp only [hsub] at h
      obtain ⟨hr, hle⟩ := sub?_some hsub
      by_cases hre : st.numEpochs - st.filled = 0
      · rw [if_pos hre] at h; simp at h
      · rw [if_neg hre] at h
        have hget := hall st List.mem_cons_self
        obtain ⟨q1, q2, q3, _, _, q6, q7, _⟩ := retarget_static st s.distr
        have hstarted : ({ st.retarget s.distr with epochCoins := Coins.quo remain (st.numEpochs - st.filled), ecEmpty := remain.isZero } : Stream) = started (st.retarget s.distr) := by
          unfold started; simp only [hr, q2, q3, q6, q7]
        rw [hstarted] at h
        have hidst : (started (st.retarget s.distr)).id = st.id := q1
        obtain ⟨w1, _, _⟩ := write_same s hs st (started (st.retarget s.distr)) (by rw [hidst]; exact hget) q2 q3
        have hall' : ∀ y ∈ rest, getS (setStream s (started (st.retarget s.distr))).streams y.id = some y := by
          intro y hy
          have hne : y.id ≠ st.id := fun he => hn1 (by rw [← he]; exact List.mem_map_of_mem (f := (·.id)) hy)
          rw [getS_setStream_ne s hs (started (st.retarget s.distr)) ⟨st, by rw [hidst]; exact hget⟩ y.id (by rw [hidst]; exact hne)]
          exact hall y (List.mem_cons_of_mem _ hy)
        obtain ⟨r1, r2, r3, r4, r5, r6⟩ := ih _ _ w1 hn2 hall' h
        refine ⟨r1, r2, r3, ?_, r5, ?_⟩
        · intro x hx
          simp only [List.map_cons, List.mem_cons, not_or] at hx
          rw [r4 x hx.2]
          exact getS_setStream_ne s hs (started (st.retarget s.distr)) ⟨st, by rw [hidst]; exact hget⟩ x (by rw [hidst]; exact hx.1)
        · intro y hy
          rcases List.mem_cons.1 hy with h1 | h1
          · rw [h1]
            refine ⟨?_, hre, hle⟩
            rw [r4 st.id hn1]
            have := getS_setStream_eq s hs (started (st.retarget s.distr)) ⟨st, by rw [hidst]; exact hget⟩
            rw [hidst] at this; exact this
          · exact r6 y h1

/-- a re-targeted stream's total weight is the sum of its weights (`DistrInfoFromDistribution` sums the powers) -/
theorem retarget_tw (st : Stream) (d : List Rec) (h : st.totalWeight = totalWeightOf st.recs) :
    (st.retarget d).totalWeight = totalWeightOf (st.retarget d).recs := by
  unfold Stream.retarget; split
  · rfl
  · exact h

theorem retarget_recs (st : Stream) (d : List Rec) (h : StrictInc (st.recs.map (·.gauge))) (hd : StrictInc (d.map (·.gauge))) :
    StrictInc ((st.retarget d).recs.map (·.gauge)) := by
  unfold Stream.retarget; split
  · exact hd
  · exact h

theorem activateDue_distr : ∀ (l : List Stream) (s s1 : State), activateDue l s = .ok s1 → s1.distr = s.distr := by
  intro l
  induction l with
  | nil => intro s s1 h; simp only [activateDue, Except.ok.injEq] at h; subst h; rfl
  | cons st rest ih =>
    intro s s1 h
    unfold activateDue at h
    split at h
    · cases hd : Refs.del s.upcoming st.start st.id with
      | none => simp [hd] at h
      | some u =>
        simp only [hd] at h
        cases hf : Refs.add s.active st.start st.id with
        | none => simp [hf] at h
        | some a =>
          simp only [hf] at h
          rw [ih _ _ h]
    · exact ih _ _ h

theorem started_strong (st : Stream) (p : Pointer) (htw : st.totalWeight = totalWeightOf st.recs)
    (hre : st.numEpochs - st.filled ≠ 0) (hle : ∀ i, amt st.distributed i ≤ amt st.coins i) (i : Nat) :
    amt (started st).distributed i + pendId p (started st) i +
      ((started st).numEpochs - (started st).filled - 1) * sharesOf (started st) (started st).recs i ≤ amt (started st).coins i := by
  have hall := sharesOf_all_le (started st) (by show st.totalWeight = totalWeightOf st.recs; exact htw) i
  have hpend := pendId_le_all p (started st) i
  have hec : amt (started st).epochCoins i = (amt st.coins i - amt st.distributed i) / (st.numEpochs - st.filled) := by
    show amt (Coins.quo (Coins.sub st.coins st.distributed) (st.numEpochs - st.filled)) i = _
    rw [amt_quo, amt_sub]
  rw [hec] at hall
  show amt st.distributed i + pendId p (started st) i + (st.numEpochs - st.filled - 1) * sharesOf (started st) (started st).recs i ≤ amt st.coins i
  generalize sharesOf (started st) (started st).recs i = A at *
  generalize pendId p (started st) i = P at *
  have hmul : (st.numEpochs - st.filled) * A ≤ (st.numEpochs - st.filled) * ((amt st.coins i - amt st.distributed i) / (st.numEpochs - st.filled)) :=
    Nat.mul_le_mul_left _ hall
  have hdiv := Nat.mul_div_le (amt st.coins i - amt st.distributed i) (st.numEpochs - st.filled)
  have hsplit : (st.numEpochs - st.filled) * A = A + (st.numEpochs - st.filled - 1) * A := by
    have : st.numEpochs - st.filled = (st.numEpochs - st.filled - 1) + 1 := by omega
    rw [this, Nat.add_mul, Nat.one_mul, Nat.add_comm]
    simp
  have := hle i
  omega

theorem startStreams_upcoming : ∀ (l : List Stream) (s s' : State), startStreams l s = .ok s' → s'.upcoming = s.upcoming := by
  intro l
  induction l with
  | nil => intro s s' h; simp only [startStreams, Except.ok.injEq] at h; subst h; rfl
  | cons st rest ih =>
    intro s s' h
    unfold startStreams at h
    cases hsub : Coins.sub? st.coins st.distributed with
    | none => simp [hsub] at h
    | some remain =>
      simp only [hsub] at h
      split at h
      · simp at h
      · rw [ih _ _ h]; rfl

/-- a fresh stream that has just become active satisfies the bound whatever the pointer is -/
theorem fresh_strong (st : Stream) (p : Pointer) (htw : st.totalWeight = totalWeightOf st.recs)
    (hf : st.distributed = [] ∧ st.filled = 0 ∧ st.ecEmpty = false ∧ st.epochCoins = Coins.quo st.coins st.numEpochs ∧ st.numEpochs ≠ 0) (i : Nat) :
    amt st.distributed i + pendId p st i + (st.numEpochs - st.filled - 1) * sharesOf st st.recs i ≤ amt st.coins i := by
  obtain ⟨h1, h2, _, h4, h5⟩ := hf
  have hall := sharesOf_all_le st htw i
  have hpend := pendId_le_all p st i
  rw [h4, amt_quo] at hall
  rw [h1, h2]
  simp only [amt_nil, Nat.zero_add, Nat.sub_zero]
  generalize sharesOf st st.recs i = A at *
  generalize pendId p st i = P at *
  have hmul : st.numEpochs * A ≤ st.numEpochs * (amt st.coins i / st.numEpochs) := Nat.mul_le_mul_left _ hall
  have hdiv := Nat.mul_div_le (amt st.coins i) st.numEpochs
  have hsplit : st.numEpochs * A = A + (st.numEpochs - 1) * A := by
    have : st.numEpochs = (st.numEpochs - 1) + 1 := by omega
    conv => lhs; rw [this]
    rw [Nat.add_mul, Nat.one_mul, Nat.add_comm]
  omega

theorem beforeEpochStart_SB (s s' : State) (e : Nat) (hs : SStruct s) (hstat : SStat s) (hfresh : Fresh s) (hsb : SB s)
    (hdist : StrictInc (s.distr.map (·.gauge)))
    (h : streamerBeforeEpochStart s e = .ok s') : SB s' ∧ SStat s' ∧ Fresh s' ∧ s'.distr = s.distr := by
  unfold streamerBeforeEpochStart at h
  cases ha : activateDue (upcomingStreams s) s with
  | error x => simp [ha] at h
  | ok s1 =>
    simp only [ha] at h
    obtain ⟨a1, a2, _, a4, a5, a6⟩ := activateDue_exact _ _ _ ha
    obtain ⟨hs1, _, _, _⟩ := activateDue_spec _ _ _ hs ha
    obtain ⟨gi1, gi2⟩ := activeStreamsFor_good s1 hs1 e
    obtain ⟨b1, b2, _, b4, b6, b5⟩ := startStreams_exact _ _ _ hs1 gi1 (fun st hst => (gi2 st hst).1) h
    have hd1 : s1.distr = s.distr := activateDue_distr _ _ _ ha
    obtain ⟨hs', _, _, _⟩ := startStreams_spec _ _ _ hs1 gi1 (fun st hst => (gi2 st hst).1) h
    have hup1 : s'.upcoming = s1.upcoming := (startStreams_upcoming _ _ _ h)
    -- upcoming streams handed to activateDue are stored copies with upcoming ids
    have hup : ∀ st ∈ upcomingStreams s, getS s.streams st.id = some st ∧ st.id ∈ s.upcoming.ids := by
      obtain ⟨_, n2, _⟩ := List.nodup_append.1 hs.nodup
      exact fun st hst => (streamsOf_spec s.streams hs.sid s.upcoming.ids n2).2 st hst
    have classify : ∀ st' ∈ s'.streams,
        (st' ∈ s.streams ∧ st'.id ∉ (activeStreamsFor s1 e).map (·.id)) ∨
        (∃ st ∈ activeStreamsFor s1 e, st ∈ s.streams ∧ st' = started (st.retarget s1.distr) ∧ st.numEpochs - st.filled ≠ 0 ∧ ∀ i, amt st.distributed i ≤ amt st.coins i) := by
      intro st' hm
      have hget' := getS_of_mem hs'.sid hm
      by_cases hx : st'.id ∈ (activeStreamsFor s1 e).map (·.id)
      · right
        obtain ⟨st, hst, hid⟩ := List.mem_map.1 hx
        obtain ⟨c1, c2, c3⟩ := b5 st hst
        rw [hid, hget'] at c1
        exact ⟨st, hst, by rw [← a1]; exact mem_of_getS (gi2 st hst).1, Option.some.inj c1, c2, c3⟩
      · left
        have := b4 _ hx
        rw [hget', a1] at this
        exact ⟨mem_of_getS this.symm, hx⟩
    refine ⟨?_, ?_, ?_, by rw [b6, hd1]⟩
    · intro st' hm i
      rcases classify st' hm with ⟨c1, c2⟩ | ⟨st, hst, c1, c2, c3, c4⟩
      · unfold SBst
        rw [b2]
        by_cases hact : st'.id ∈ s1.active.ids
        · rw [if_pos hact]
          unfold ptrOfEpoch
          rw [b1, a2]
          rcases a4 _ hact with h1 | ⟨y, hy, hy1⟩
          · have := hsb st' c1 i
            unfold SBst ptrOfEpoch at this; rw [if_pos h1] at this; exact this
          · -- just activated: it was an untouched upcoming stream
            obtain ⟨hgy, hyu⟩ := hup y hy
            rw [hy1, getS_of_mem hs.sid c1] at hgy
            have hyst : st' = y := Option.some.inj hgy
            have hfr := hfresh st' c1 (by rw [hyst]; exact hyu)
            exact fresh_strong st' _ (hstat.tw st' c1) hfr i
        · rw [if_neg hact]
          have hact0 : st'.id ∉ s.active.ids := fun hx => hact (a5 _ hx)
          have := hsb st' c1 i
          unfold SBst at this; rw [if_neg hact0] at this; exact this
      · obtain ⟨q1, q2, q3, _, _, q6, q7, _⟩ := retarget_static st s1.distr
        have hact : st'.id ∈ s'.active.ids := by
          rw [b2, c2]; show (st.retarget s1.distr).id ∈ _; rw [q1]; exact (gi2 st hst).2
        unfold SBst; rw [if_pos hact, c2]
        exact started_strong (st.retarget s1.distr) _ (retarget_tw st _ (hstat.tw st c1)) (by rw [q6, q7]; exact c3)
          (by intro i; rw [q2, q3]; exact c4 i) i
    · constructor
      · intro st' hm
        rcases classify st' hm with ⟨c1, _⟩ | ⟨st, _, c1, c2, _, _⟩
        · exact hstat.tw st' c1
        · rw [c2]; exact retarget_tw st _ (hstat.tw st c1)
      · intro st' hm
        rcases classify st' hm with ⟨c1, _⟩ | ⟨st, _, c1, c2, _, _⟩
        · exact hstat.recs st' c1
        · rw [c2]; exact retarget_recs st _ (hstat.recs st c1) (by rw [hd1]; exact hdist)
    · intro st' hm hu
      rw [hup1] at hu
      have hu0 := a6 _ hu
      rcases classify st' hm with ⟨c1, _⟩ | ⟨st, hst, c1, c2, _, _⟩
      · exact hfresh st' c1 hu0
      · -- a restarted stream is active in s1, hence not upcoming
        exfalso
        have hact1 : st.id ∈ s1.active.ids := (gi2 st hst).2
        obtain ⟨_, _, n3⟩ := List.nodup_append.1 hs1.nodup
        have hid : st'.id = st.id := by rw [c2]; exact (retarget_static st s1.distr).1
        exact n3 st.id hact1 st.id (by rw [← hid]; exact hu) rfl

/-! ### frames, messages, blocks -/

theorem SB_congr {s s' : State} (h1 : s'.streams = s.streams) (h2 : s'.active = s.active) (h3 : s'.ptrs = s.ptrs) (h : SB s) : SB s' := by
  intro st hm i
  rw [h1] at hm
  have := h st hm i
  unfold SBst ptrOfEpoch at *
  rw [h2, h3]; exact this

theorem SStat_congr {s s' : State} (h1 : s'.streams = s.streams) (h : SStat s) : SStat s' :=
  ⟨by rw [h1]; exact h.tw, by rw [h1]; exact h.recs⟩

theorem incLoop_frame (ee : Bool) : ∀ (gs : List Gauge) (s : State) (tr : Tracker) (s' : State) (tr' : Tracker),
    incLoop ee gs s tr = .ok (s', tr') → s' = { s with gauges := s'.gauges } := by
  intro gs
  induction gs with
  | nil => intro s tr s' tr' h; simp only [incLoop, Except.ok.injEq, Prod.mk.injEq] at h; rw [← h.1]
  | cons g rest ih =>
    intro s tr s' tr' h
    unfold incLoop at h
    cases hc : calcGauge s g tr with
    | err => simp [hc] at h
    | panic => simp [hc] at h
    | ok t2 c =>
      simp only [hc] at h
      split at h
      · exact ih _ _ _ _ h
      · have := ih _ _ _ _ h
        rw [this]; rfl

theorem incDistribute_frame (s : State) (gs : List Gauge) (ee : Bool) (s' : State) (h : incDistribute s gs ee = .ok s') :
    s' = { s with gauges := s'.gauges, bank := s'.bank } := by
  unfold incDistribute at h
  cases hl : incLoop ee gs s [] with
  | error e => simp [hl] at h
  | ok p =>
    obtain ⟨s1, tr⟩ := p
    simp only [hl] at h
    cases hp : payAll tr s1.bank with
    | none => simp [hp] at h
    | some b =>
      simp only [hp, Except.ok.injEq] at h
      subst h
      have := incLoop_frame ee gs s [] s1 tr hl
      simp only; rw [this]

theorem checkFinished_frame2 : ∀ (l : List Gauge) (s : State), checkFinished l s = { s with gauges := (checkFinished l s).gauges } := by
  intro l
  induction l with
  | nil => intro s; rfl
  | cons g rest ih =>
    intro s
    unfold checkFinished
    split
    · cases hc : getGauge s g.id with
      | none => simp only; exact ih s
      | some cur =>
        simp only
        have := ih (setGauge s { cur with status := .finished })
        rw [this]; rfl
    · exact ih s

theorem incAfterEpochEnd_frame (s : State) (e : Nat) (s' : State) (h : incAfterEpochEnd s e = .ok s') :
    s'.streams = s.streams ∧ s'.active = s.active ∧ s'.ptrs = s.ptrs ∧ s'.upcoming = s.upcoming := by
  unfold incAfterEpochEnd at h
  split at h
  · simp only [Except.ok.injEq] at h; subst h; exact ⟨rfl, rfl, rfl, rfl⟩
  · simp only at h
    generalize hf : (fun g : Gauge => if (g.status == GStatus.upcoming && decide (g.start ≤ s.now)) = true then { g with status := GStatus.active } else g) = f at h
    cases hd : incDistribute { s with gauges := s.gauges.map f } (List.filter (fun x => x.status == GStatus.active) (s.gauges.map f)) true with
    | error x => simp [hd] at h
    | ok s2 =>
      simp only [hd, Except.ok.injEq] at h
      have f1 := incDistribute_frame _ _ _ _ hd
      have f2 := checkFinished_frame2 (List.filter (fun x => x.status == GStatus.active) (s.gauges.map f)) s2
      rw [← h, f2]
      simp only
      rw [f1]
      exact ⟨rfl, rfl, rfl, rfl⟩

/-- `validateGauges` accepted the records: gauge ids strictly increasing -/
theorem validateRecs_strict (s : State) : ∀ (rs : List Rec) (last : Nat) (seen : List Nat), validateRecs s rs last seen = true →
    (∀ r ∈ rs, last ≤ r.gauge ∧ r.gauge ∉ seen) ∧ (rs.map (·.gauge)).Pairwise (· < ·) := by
  intro rs
  induction rs with
  | nil => intro _ _ _; exact ⟨by simp, List.Pairwise.nil⟩
  | cons r rest ih =>
    intro last seen h
    unfold validateRecs at h
    by_cases h1 : seen.contains r.gauge = true
    · rw [if_pos h1] at h; simp at h
    · rw [if_neg h1] at h
      by_cases h2 : r.gauge < last
      · rw [if_pos h2] at h; simp at h
      · rw [if_neg h2] at h
        cases hg : getGauge s r.gauge with
        | none => simp [hg] at h
        | some g =>
          simp only [hg] at h
          by_cases h3 : (!g.perpetual) = true
          · rw [if_pos h3] at h; simp at h
          · rw [if_neg h3] at h
            obtain ⟨i1, i2⟩ := ih _ _ h
            have hns : r.gauge ∉ seen := by simpa using h1
            constructor
            · intro x hx
              rcases List.mem_cons.1 hx with hh | hh
              · rw [hh]; exact ⟨by omega, hns⟩
              · obtain ⟨j1, j2⟩ := i1 x hh
                exact ⟨by omega, fun hm => j2 (List.mem_cons_of_mem _ hm)⟩
            · simp only [List.map_cons]
              refine List.pairwise_cons.2 ⟨?_, i2⟩
              intro y hy
              obtain ⟨x, hx, he⟩ := List.mem_map.1 hy
              obtain ⟨j1, j2⟩ := i1 x hx
              have : x.gauge ≠ r.gauge := fun hh => j2 (by rw [hh]; exact List.mem_cons_self)
              rw [← he]; omega


theorem startStreams_len : ∀ (l : List Stream) (s s' : State), startStreams l s = .ok s' → s'.streams.length = s.streams.length := by
  intro l
  induction l with
  | nil => intro s s' h; simp only [startStreams, Except.ok.injEq] at h; subst h; rfl
  | cons st rest ih =>
    intro s s' h
    unfold startStreams at h
    cases hsub : Coins.sub? st.coins st.distributed with
    | none => simp [hsub] at h
    | some remain =>
      simp only [hsub] at h
      split at h
      · simp at h
      · rw [ih _ _ h]; simp [setStream]

/-! ### the stored sponsorship distribution is only changed by the `distribution` input -/

theorem saveStreamEnd_distr (st : Stream) (s s' : State) (h : saveStreamEnd st s = .ok s') : s'.distr = s.distr := by
  unfold saveStreamEnd at h
  repeat' (first | split at h | dsimp only at h)
  all_goals first | (simp at h; done) | (simp only [Except.ok.injEq] at h; subst h; rfl)

theorem saveStreams_distr (ee : Bool) : ∀ (l : List Stream) (s s' : State), saveStreams ee l s = .ok s' → s'.distr = s.distr := by
  intro l
  induction l with
  | nil => intro s s' h; simp only [saveStreams, Except.ok.injEq] at h; subst h; rfl
  | cons st rest ih =>
    intro s s' h
    unfold saveStreams at h
    by_cases he : ee = true
    · simp only [he, if_true] at h
      cases hs : saveStreamEnd st.atEpochEnd s with
      | error e => simp [hs] at h
      | ok s1 =>
        simp only [hs] at h
        rw [ih _ _ (by rw [he]; exact h), saveStreamEnd_distr _ _ _ hs]
    · have he' : ee = false := by simpa using he
      simp only [he', Bool.false_eq_true, if_false] at h
      rw [ih _ _ (by rw [he']; exact h)]; rfl

theorem strDistribute_distr (s : State) (es : List Nat) (streams : List Stream) (maxOps : Nat) (ee : Bool) (s' : State)
    (h : strDistribute s es streams maxOps ee = .ok s') : s'.distr = s.distr := by
  unfold strDistribute at h
  generalize ptrLoop s maxOps (sortByDuration es) 0 ⟨sortById streams, [], []⟩ s.ptrs = res at h
  obtain ⟨tot, c, ps⟩ := res
  dsimp only at h
  split at h
  · simp at h
  · next b _ =>
    cases hd : incDistribute { s with ptrs := ps, bank := b } c.gauges ee with
    | error x => simp [hd] at h
    | ok s2 =>
      simp only [hd] at h
      rw [saveStreams_distr _ _ _ _ h, incDistribute_frame _ _ _ _ hd]

theorem incAfterEpochEnd_distr (s : State) (e : Nat) (s' : State) (h : incAfterEpochEnd s e = .ok s') : s'.distr = s.distr := by
  unfold incAfterEpochEnd at h
  split at h
  · simp only [Except.ok.injEq] at h; subst h; rfl
  · simp only at h
    generalize hf : (fun g : Gauge => if (g.status == GStatus.upcoming && decide (g.start ≤ s.now)) = true then { g with status := GStatus.active } else g) = f at h
    cases hd : incDistribute { s with gauges := s.gauges.map f } (List.filter (fun x => x.status == GStatus.active) (s.gauges.map f)) true with
    | error x => simp [hd] at h
    | ok s2 =>
      simp only [hd, Except.ok.injEq] at h
      have f1 := incDistribute_frame _ _ _ _ hd
      have f2 := checkFinished_frame2 (List.filter (fun x => x.status == GStatus.active) (s.gauges.map f)) s2
      rw [← h, f2]
      simp only
      rw [f1]

theorem streamerAfterEpochEnd_distr (s : State) (e : Nat) (s' : State) (h : streamerAfterEpochEnd s e = .ok s') : s'.distr = s.distr := by
  unfold streamerAfterEpochEnd at h
  split at h
  · simp only [Except.ok.injEq] at h; subst h; rfl
  · cases hd : strDistribute s [e] (activeStreamsFor s e) maxU64 true with
    | error x => simp [hd] at h
    | ok s1 =>
      simp only [hd, Except.ok.injEq] at h
      rw [← h]; exact strDistribute_distr s _ _ _ _ s1 hd

theorem poolGaugesLoop_frame (denom : Nat) (hsup : Bool) : ∀ (ds : List Nat) (s : State),
    (poolGaugesLoop denom hsup ds s).2.streams = s.streams ∧ (poolGaugesLoop denom hsup ds s).2.active = s.active ∧
    (poolGaugesLoop denom hsup ds s).2.upcoming = s.upcoming ∧ (poolGaugesLoop denom hsup ds s).2.ptrs = s.ptrs ∧
    (poolGaugesLoop denom hsup ds s).2.distr = s.distr := by
  intro ds
  induction ds with
  | nil => intro s; exact ⟨rfl, rfl, rfl, rfl, rfl⟩
  | cons d rest ih =>
    intro s
    unfold poolGaugesLoop
    have h1 : (createGauge s streamerAddr true denom d hsup [] s.now 1).2.streams = s.streams ∧ (createGauge s streamerAddr true denom d hsup [] s.now 1).2.active = s.active ∧
        (createGauge s streamerAddr true denom d hsup [] s.now 1).2.upcoming = s.upcoming ∧ (createGauge s streamerAddr true denom d hsup [] s.now 1).2.ptrs = s.ptrs ∧
        (createGauge s streamerAddr true denom d hsup [] s.now 1).2.distr = s.distr := by
      unfold createGauge; repeat' (first | split | dsimp only)
      all_goals exact ⟨rfl, rfl, rfl, rfl, rfl⟩
    generalize createGauge s streamerAddr true denom d hsup [] s.now 1 = res at h1
    obtain ⟨o, s1⟩ := res
    obtain ⟨a1, a2, a3, a4, a5⟩ := h1
    obtain ⟨b1, b2, b3, b4, b5⟩ := ih s1
    cases o
    · exact ⟨b1.trans a1, b2.trans a2, b3.trans a3, b4.trans a4, b5.trans a5⟩
    all_goals exact ⟨a1, a2, a3, a4, a5⟩

/-- the full invariant of M-Incent (gauge side, stream structure, stream bound, static facts, id range, and the
    sponsorship distribution's gauges in strictly ascending order) -/
structure Inv (s : State) : Prop where
  ginv : GInv s
  struct : SStruct s
  sb : SB s
  stat : SStat s
  fresh : Fresh s
  len : s.streams.length < maxU64
  dist : StrictInc (s.distr.map (·.gauge))

theorem streamerAfterEpochEnd_inv (s : State) (e : Nat) (s' : State) (hi : Inv s) (h : streamerAfterEpochEnd s e = .ok s') : Inv s' := by
  obtain ⟨a, b⟩ := afterEpochEnd_SB s s' e hi.ginv hi.struct hi.stat hi.sb hi.len h
  have hst := (streamerAfterEpochEnd_sstep s e s' hi.ginv hi.struct h).struct
  refine ⟨(streamerAfterEpochEnd_spec s e s' hi.ginv h).1, hst, a, b, ?_, ?_, by rw [streamerAfterEpochEnd_distr s e s' h]; exact hi.dist⟩
  · unfold streamerAfterEpochEnd at h
    by_cases hemp : (activeStreamsFor s e).isEmpty = true
    · rw [if_pos hemp] at h
      simp only [Except.ok.injEq] at h; subst h; exact hi.fresh
    rw [if_neg hemp] at h
    cases hd : strDistribute s [e] (activeStreamsFor s e) maxU64 true with
    | error x => simp [hd] at h
    | ok s1 =>
      simp only [hd, Except.ok.injEq] at h
      have hin := activeStreamsFor_good s hi.struct e
      have hst2 : ∀ st ∈ activeStreamsFor s e, StrictInc (st.recs.map (·.gauge)) ∧ st.id < maxU64 := by
        intro st hm
        have hmem : st ∈ s.streams := mem_of_getS (hin.2 st hm).1
        exact ⟨hi.stat.recs st hmem, by have := id_le_length hi.struct.sid hmem; have := hi.len; omega⟩
      have hc := strDistribute_core s _ _ _ _ s1 hi.ginv hi.struct hin hst2 hd
      have hs1 := (strDistribute_streams s _ _ _ _ s1 hi.ginv hi.struct hin hd).1
      have := core_fresh s _ _ true s1 hc hi.struct hs1 hin hi.fresh
      rw [← h]; exact Fresh_congr rfl rfl this
  have hm := (streamerAfterEpochEnd_sstep s e s' hi.ginv hi.struct h).mono
  -- length is unchanged: derive it from the exact characterisation
  unfold streamerAfterEpochEnd at h
  by_cases hemp : (activeStreamsFor s e).isEmpty = true
  · rw [if_pos hemp] at h
    simp only [Except.ok.injEq] at h; subst h; exact hi.len
  rw [if_neg hemp] at h
  cases hd : strDistribute s [e] (activeStreamsFor s e) maxU64 true with
  | error x => simp [hd] at h
  | ok s1 =>
    simp only [hd, Except.ok.injEq] at h
    have hin := activeStreamsFor_good s hi.struct e
    have hst : ∀ st ∈ activeStreamsFor s e, StrictInc (st.recs.map (·.gauge)) ∧ st.id < maxU64 := by
      intro st hm
      have hmem : st ∈ s.streams := mem_of_getS (hin.2 st hm).1
      exact ⟨hi.stat.recs st hmem, by have := id_le_length hi.struct.sid hmem; have := hi.len; omega⟩
    obtain ⟨_, c1, _⟩ := strDistribute_core s _ _ _ _ s1 hi.ginv hi.struct hin hst hd
    rw [← h]; simp only; rw [c1]; exact hi.len

theorem incAfterEpochEnd_inv (s : State) (e : Nat) (s' : State) (hi : Inv s) (h : incAfterEpochEnd s e = .ok s') : Inv s' := by
  obtain ⟨f1, f2, f3, f4⟩ := incAfterEpochEnd_frame s e s' h
  exact ⟨(incAfterEpochEnd_spec s e s' hi.ginv h).1, (incAfterEpochEnd_sstep s e s' hi.ginv hi.struct h).struct,
    SB_congr f1 f2 f3 hi.sb, SStat_congr f1 hi.stat, Fresh_congr f1 f4 hi.fresh, by rw [f1]; exact hi.len,
    by rw [incAfterEpochEnd_distr s e s' h]; exact hi.dist⟩

theorem streamerBeforeEpochStart_inv (s : State) (e : Nat) (s' : State) (hi : Inv s) (h : streamerBeforeEpochStart s e = .ok s') : Inv s' := by
  obtain ⟨a, b, c, d⟩ := beforeEpochStart_SB s s' e hi.struct hi.stat hi.fresh hi.sb hi.dist h
  refine ⟨(streamerBeforeEpochStart_same s e s' h).ginv hi.ginv, (streamerBeforeEpochStart_sstep s e s' hi.struct h).struct, a, b, c, ?_, by rw [d]; exact hi.dist⟩
  unfold streamerBeforeEpochStart at h
  cases ha : activateDue (upcomingStreams s) s with
  | error x => simp [ha] at h
  | ok s1 =>
    simp only [ha] at h
    rw [startStreams_len _ _ _ h, (activateDue_exact _ _ _ ha).1]; exact hi.len

theorem applyHook_inv (f : State → Res) (s : State) (hi : Inv s) (hf : ∀ s', f s = .ok s' → Inv s') : Inv (applyHook f s) := by
  unfold applyHook
  cases h : f s with
  | ok s' => exact hf s' h
  | error e => exact hi

theorem Inv_frame {s s' : State} (hi : Inv s) (h1 : s'.streams = s.streams) (h2 : s'.active = s.active) (h3 : s'.upcoming = s.upcoming)
    (h4 : s'.ptrs = s.ptrs) (hg : GInv s') (h5 : s'.distr = s.distr := by rfl) : Inv s' :=
  ⟨hg, SStruct_congr h1 h2 h3 hi.struct, SB_congr h1 h2 h4 hi.sb, SStat_congr h1 hi.stat, Fresh_congr h1 h3 hi.fresh, by rw [h1]; exact hi.len,
   by rw [h5]; exact hi.dist⟩

theorem epochTick_inv (s : State) (e : Nat) (hi : Inv s) : Inv (epochTick s e) := by
  unfold epochTick
  cases he : s.epochs[e]? with
  | none => exact hi
  | some ep =>
    simp only
    split
    · exact hi
    · split
      · exact hi
      · split
        · have h1 : Inv { s with epochs := s.epochs.set e { ep with started := true, curStart := ep.startTime } } :=
            Inv_frame hi rfl rfl rfl rfl (Same.ginv (s := s) ⟨rfl, rfl, rfl, rfl⟩ hi.ginv)
          exact applyHook_inv _ _ h1 (fun s' h => streamerBeforeEpochStart_inv _ e s' h1 h)
        · have a1 := applyHook_inv (fun x => streamerAfterEpochEnd x e) s hi (fun s' h => streamerAfterEpochEnd_inv s e s' hi h)
          have a2 := applyHook_inv (fun x => incAfterEpochEnd x e) _ a1 (fun s' h => incAfterEpochEnd_inv _ e s' a1 h)
          generalize applyHook (fun x => incAfterEpochEnd x e) (applyHook (fun x => streamerAfterEpochEnd x e) s) = s2 at a2 ⊢
          have h1 : Inv { s2 with epochs := s2.epochs.set e { ep with curStart := ep.curStart + ep.dur } } :=
            Inv_frame a2 rfl rfl rfl rfl (Same.ginv (s := s2) ⟨rfl, rfl, rfl, rfl⟩ a2.ginv)
          exact applyHook_inv _ _ h1 (fun s' h => streamerBeforeEpochStart_inv _ e s' h1 h)

theorem beginBlock_inv (s : State) (dt : Nat) (hi : Inv s) : Inv (beginBlock s dt) := by
  unfold beginBlock
  have h0 : Inv { s with now := s.now + dt } := Inv_frame hi rfl rfl rfl rfl (Same.ginv (s := s) ⟨rfl, rfl, rfl, rfl⟩ hi.ginv)
  exact epochTick_inv _ 2 (epochTick_inv _ 1 (epochTick_inv _ 0 h0))

theorem endBlock_inv (s s' : State) (hi : Inv s) (h : streamerEndBlock s = .ok s') : Inv s' := by
  obtain ⟨a, b⟩ := endBlock_SB s s' hi.ginv hi.struct hi.stat hi.sb hi.len h
  have h' := h
  unfold streamerEndBlock at h'
  have hin := activeStreams_good s hi.struct
  have hst : ∀ st ∈ activeStreams s, StrictInc (st.recs.map (·.gauge)) ∧ st.id < maxU64 := by
    intro st hm
    have hmem := mem_streamsOf hm
    exact ⟨hi.stat.recs st hmem, by have := id_le_length hi.struct.sid hmem; have := hi.len; omega⟩
  have hc := strDistribute_core s _ _ _ _ s' hi.ginv hi.struct hin hst h'
  have hs' := (strDistribute_streams s _ _ _ _ s' hi.ginv hi.struct hin h').1
  have hfr := core_fresh s _ _ false s' hc hi.struct hs' hin hi.fresh
  obtain ⟨_, c1, _⟩ := hc
  exact ⟨(strDistribute_spec _ _ _ _ _ _ hi.ginv h').1, hs', a, b, hfr, by rw [c1]; exact hi.len,
    by rw [strDistribute_distr _ _ _ _ _ _ h']; exact hi.dist⟩


/-- the stream `CreateStream` stores -/
def newStream (s : State) (sp : Bool) (c : Coins) (rs : List Rec) (start' e n : Nat) : Stream :=
  ⟨s.streams.length + 1, rs, totalWeightOf rs, c, [], start', e, n, 0, Coins.quo c n, false, sp⟩

/-- `createStream` either leaves the state alone or appends a fresh upcoming stream whose records are the
    validated records of the proposal or (sponsored) the current sponsorship distribution -/
theorem createStream_shape (s : State) (sp : Bool) (c : Coins) (rs : List Rec) (st e n : Nat) :
    (createStream s sp c rs st e n).2 = s ∨
    ((sp = false → validateRecs s rs 0 [] = true) ∧ ∃ u start', n ≠ 0 ∧ Refs.add s.upcoming start' (s.streams.length + 1) = some u ∧
      (createStream s sp c rs st e n).2 =
        { s with streams := s.streams ++ [newStream s sp c (if sp then s.distr else rs) start' e n], upcoming := u }) := by
  unfold createStream
  by_cases h1 : (c.isZero || decide (n = 0)) = true
  · rw [if_pos h1]; exact Or.inl rfl
  · rw [if_neg h1]
    by_cases h2 : (!sp && !validateRecs s rs 0 []) = true
    · rw [if_pos h2]; exact Or.inl rfl
    · rw [if_neg h2]
      have hv : sp = false → validateRecs s rs 0 [] = true := by
        intro hsp; rw [hsp] at h2; simpa using h2
      by_cases h3 : (!sp && decide (totalWeightOf rs = 0)) = true
      · rw [if_pos h3]; exact Or.inl rfl
      · rw [if_neg h3]
        dsimp only
        cases hm : moduleToDistribute s with
        | none => exact Or.inl rfl
        | some alloc =>
          simp only
          cases hf : Coins.sub? (s.bank.get streamerAddr) alloc with
          | none => exact Or.inl rfl
          | some free =>
            simp only
            by_cases h4 : (!Coins.le c free) = true
            · rw [if_pos h4]; exact Or.inl rfl
            · rw [if_neg h4]
              by_cases h5 : e > 2
              · rw [if_pos h5]; exact Or.inl rfl
              · rw [if_neg h5]
                cases hadd : Refs.add s.upcoming (if st < s.now then s.now else st) (s.streams.length + 1) with
                | none => exact Or.inl rfl
                | some u => exact Or.inr ⟨hv, u, _, by simp at h1; exact h1.2, hadd, rfl⟩

theorem createStream_distr (s : State) (sp : Bool) (c : Coins) (rs : List Rec) (st e n : Nat) :
    (createStream s sp c rs st e n).2.distr = s.distr := by
  rcases createStream_shape s sp c rs st e n with h | ⟨_, u, start', _, _, h⟩ <;> rw [h]

theorem createStream_inv (s : State) (hi : Inv s) (sp : Bool) (c : Coins) (rs : List Rec) (st e n : Nat)
    (hlen : (createStream s sp c rs st e n).2.streams.length < maxU64) : Inv (createStream s sp c rs st e n).2 := by
  have hsame := createStream_same s sp c rs st e n
  have hstruct := (createStream_sstep s hi.struct sp c rs st e n).struct
  have hdist := createStream_distr s sp c rs st e n
  rcases createStream_shape s sp c rs st e n with h | ⟨hv, u, start', hn0, hadd0, h⟩
  · rw [h]; exact hi
  · refine ⟨hsame.ginv hi.ginv, hstruct, ?_, ?_, ?_, hlen, by rw [hdist]; exact hi.dist⟩
    rotate_left 2
    · -- Fresh
      rw [h]
      intro st' hm hu
      simp only at hm hu
      rcases List.mem_append.1 hm with h1 | h1
      · -- an old stream: its id is below the new one, so it was upcoming before
        have hidle := id_le_length hi.struct.sid h1
        have hu0 : st'.id ∈ s.upcoming.ids := by
          have hadd := hadd0
          rcases (Refs.add_mem hadd st'.id).1 hu with h2 | h2
          · exact h2
          · omega
        exact hi.fresh st' h1 hu0
      · simp only [List.mem_singleton] at h1; rw [h1]
        exact ⟨rfl, rfl, rfl, rfl, hn0⟩
    · rw [h]
      intro st' hm i
      simp only at hm
      unfold SBst ptrOfEpoch
      simp only
      rcases List.mem_append.1 hm with h1 | h1
      · have := hi.sb st' h1 i
        unfold SBst ptrOfEpoch at this; exact this
      · simp only [List.mem_singleton] at h1
        have hna : st'.id ∉ s.active.ids := by
          intro hx
          have := (hi.struct.valid _ (List.mem_append_left _ hx)).2
          rw [h1] at this
          have hid : (newStream s sp c (if sp then s.distr else rs) start' e n).id = s.streams.length + 1 := rfl
          omega
        rw [if_neg hna, h1]
        show amt ([] : Coins) i ≤ amt c i
        simp
    · rw [h]
      constructor
      · intro st' hm
        rcases List.mem_append.1 hm with h1 | h1
        · exact hi.stat.tw st' h1
        · simp only [List.mem_singleton] at h1; rw [h1]; rfl
      · intro st' hm
        rcases List.mem_append.1 hm with h1 | h1
        · exact hi.stat.recs st' h1
        · simp only [List.mem_singleton] at h1; rw [h1]
          show StrictInc ((if sp then s.distr else rs).map (·.gauge))
          cases sp with
          | true => exact hi.dist
          | false => exact strictInc_of_pairwise _ (validateRecs_strict s rs 0 [] (hv rfl)).2

theorem moveToFinished_inv (s : State) (hi : Inv s) (b : Bool) (st : Stream) (s' : State) (h : moveToFinished s b st = some s') : Inv s' := by
  have hsame := moveToFinished_same s b st s' h
  have hstruct := (moveToFinished_sstep s hi.struct b st s' h).struct
  have f6 : s'.distr = s.distr := by
    unfold moveToFinished at h
    repeat' (first | split at h | dsimp only at h)
    all_goals first | (simp at h; done) | (simp only [Option.some.injEq] at h; subst h; rfl)
  have hfacts : s'.streams = s.streams ∧ s'.ptrs = s.ptrs ∧ (∀ x, x ∈ s'.active.ids → x ∈ s.active.ids) ∧ (∀ x, x ∈ s'.upcoming.ids → x ∈ s.upcoming.ids) := by
    unfold moveToFinished at h
    cases b with
    | true =>
      simp only [if_true] at h
      cases hd : Refs.del s.active st.start st.id with
      | none => simp [hd] at h
      | some r =>
        simp only [hd] at h
        cases hf : Refs.add s.finished st.start st.id with
        | none => simp [hf] at h
        | some f =>
          simp only [hf, Option.some.injEq] at h
          subst h
          obtain ⟨n1, _, _⟩ := List.nodup_append.1 hi.struct.nodup
          obtain ⟨_, _, d3⟩ := Refs.del_spec (fun _ => 0) s.active _ _ r hd
          exact ⟨rfl, rfl, fun x hx => (((d3 n1).2 x).1 hx).1, fun x hx => hx⟩
    | false =>
      simp only [Bool.false_eq_true, if_false] at h
      cases hd : Refs.del s.upcoming st.start st.id with
      | none => simp [hd] at h
      | some r =>
        simp only [hd] at h
        cases hf : Refs.add s.finished st.start st.id with
        | none => simp [hf] at h
        | some f =>
          simp only [hf, Option.some.injEq] at h
          subst h
          exact ⟨rfl, rfl, fun x hx => hx, fun x hx => Refs.del_subset hd x hx⟩
  obtain ⟨f1, f2, f3, f5⟩ := hfacts
  refine ⟨hsame.ginv hi.ginv, hstruct, ?_, SStat_congr f1 hi.stat, ?_, by rw [f1]; exact hi.len, by rw [f6]; exact hi.dist⟩
  rotate_left
  · intro st' hm hu; rw [f1] at hm; exact hi.fresh st' hm (f5 _ hu)
  intro st' hm i
  rw [f1] at hm
  have := hi.sb st' hm i
  unfold SBst ptrOfEpoch at *
  rw [f2]
  by_cases ha' : st'.id ∈ s'.active.ids
  · rw [if_pos ha']; rw [if_pos (f3 _ ha')] at this; exact this
  · rw [if_neg ha']
    by_cases ha : st'.id ∈ s.active.ids
    · rw [if_pos ha] at this; omega
    · rw [if_neg ha] at this; exact this

theorem terminateStream_inv (s : State) (hi : Inv s) (id : Nat) : Inv (terminateStream s id).2 := by
  unfold terminateStream
  repeat' (first | split | dsimp only)
  all_goals first | exact hi | (exact moveToFinished_inv _ hi _ _ _ (by assumption))

/-- re-targeting a stream's records (a governance proposal outside the property's quantifier) is the one
    operation that can break the stream bound: it may add pending shares in the middle of an epoch -/
def Op.noRetarget : Op → Prop
  | .replaceDistr _ _ => False
  | .updateDistr _ _ => False
  | _ => True

instance (op : Op) : Decidable op.noRetarget := by
  cases op <;> (unfold Op.noRetarget; infer_instance)

theorem step_inv (s : State) (op : Op) (hi : Inv s) (hw : op.wf) (hw2 : op.wfS) (hr : op.noRetarget)
    (hlen : (step s op).2.streams.length < maxU64) : Inv (step s op).2 := by
  have hg := step_ginv s op hi.ginv hw
  have hst := (step_sstep s op hi.ginv hi.struct hw hw2).struct
  unfold step at hlen hg hst ⊢
  split
  · exact hi
  · rename_i hh
    rw [if_neg hh] at hlen hg hst
    cases op with
    | begin dt => exact beginBlock_inv s dt hi
    | end_ =>
      simp only at hlen hg hst ⊢
      cases h : streamerEndBlock s with
      | ok s' => exact endBlock_inv s s' hi h
      | error e => exact Inv_frame (s' := { s with halted := true }) hi rfl rfl rfl rfl (Same.ginv (s := s) ⟨rfl, rfl, rfl, rfl⟩ hi.ginv)
    | setMaxIter n => exact Inv_frame (s' := { s with maxIter := n }) hi rfl rfl rfl rfl hg
    | fund a c => exact Inv_frame (s' := { s with bank := s.bank.credit a c }) hi rfl rfl rfl rfl hg
    | locks ls => exact Inv_frame (s' := { s with locks := ls }) hi rfl rfl rfl rfl hg
    | rollapp r o l => exact Inv_frame (s' := { s with rollapps := setRollapp s.rollapps r ⟨true, o, l⟩ }) hi rfl rfl rfl rfl hg
    | rollappGauge r =>
      simp only at hg ⊢
      have : (createRollappGauge s r).2.streams = s.streams ∧ (createRollappGauge s r).2.active = s.active ∧
          (createRollappGauge s r).2.upcoming = s.upcoming ∧ (createRollappGauge s r).2.ptrs = s.ptrs ∧ (createRollappGauge s r).2.distr = s.distr := by
        unfold createRollappGauge; repeat' (first | split | dsimp only)
        all_goals exact ⟨rfl, rfl, rfl, rfl, rfl⟩
      exact Inv_frame hi this.1 this.2.1 this.2.2.1 this.2.2.2.1 hg this.2.2.2.2
    | createGauge o p d du hsup c st n =>
      simp only at hg ⊢
      have : (createGauge s o p d du hsup c st n).2.streams = s.streams ∧ (createGauge s o p d du hsup c st n).2.active = s.active ∧
          (createGauge s o p d du hsup c st n).2.upcoming = s.upcoming ∧ (createGauge s o p d du hsup c st n).2.ptrs = s.ptrs ∧ (createGauge s o p d du hsup c st n).2.distr = s.distr := by
        unfold createGauge; repeat' (first | split | dsimp only)
        all_goals exact ⟨rfl, rfl, rfl, rfl, rfl⟩
      exact Inv_frame hi this.1 this.2.1 this.2.2.1 this.2.2.2.1 hg this.2.2.2.2
    | addToGauge o gid c =>
      simp only at hg ⊢
      have : (addToGauge s o gid c).2.streams = s.streams ∧ (addToGauge s o gid c).2.active = s.active ∧
          (addToGauge s o gid c).2.upcoming = s.upcoming ∧ (addToGauge s o gid c).2.ptrs = s.ptrs ∧ (addToGauge s o gid c).2.distr = s.distr := by
        unfold addToGauge; repeat' (first | split | dsimp only)
        all_goals exact ⟨rfl, rfl, rfl, rfl, rfl⟩
      exact Inv_frame hi this.1 this.2.1 this.2.2.1 this.2.2.2.1 hg this.2.2.2.2
    | createStream sp c rs st e n => exact createStream_inv s hi sp c rs st e n hlen
    | terminateStream id => exact terminateStream_inv s hi id
    | replaceDistr id rs => exact absurd hr (by unfold Op.noRetarget; exact fun h => h)
    | updateDistr id rs => exact absurd hr (by unfold Op.noRetarget; exact fun h => h)
    | distribution rs =>
      simp only at hg ⊢
      exact ⟨hg, SStruct_congr (s := s) (s' := { s with distr := rs }) rfl rfl rfl hi.struct, SB_congr (s := s) (s' := { s with distr := rs }) rfl rfl rfl hi.sb,
        SStat_congr (s := s) (s' := { s with distr := rs }) rfl hi.stat, Fresh_congr (s := s) (s' := { s with distr := rs }) rfl rfl hi.fresh, hi.len,
        strictInc_of_pairwise _ hw2⟩
    | poolGauges d hsup =>
      simp only at hg ⊢
      obtain ⟨a1, a2, a3, a4, a5⟩ := poolGaugesLoop_frame d hsup lockableDurations s
      exact Inv_frame hi a1 a2 a3 a4 hg a5

theorem init_inv (now mi : Nat) : Inv (init now mi) :=
  ⟨init_ginv now mi, init_sstruct now mi, by intro st hm; simp [init] at hm, ⟨by intro st hm; simp [init] at hm, by intro st hm; simp [init] at hm⟩,
   by intro st hm; simp [init] at hm, by simp [init, maxU64], by intro i j _ hj; simp [init] at hj⟩

/-- **the full invariant holds along every history** without re-targeting, as long as fewer than 2^64-1
    streams have been created -/
theorem run_inv : ∀ (ops : List Op) (s : State), Inv s → (∀ op ∈ ops, op.wf ∧ op.wfS ∧ op.noRetarget) →
    (run s ops).streams.length < maxU64 → Inv (run s ops) := by
  intro ops
  induction ops with
  | nil => intro s h _ _; exact h
  | cons op rest ih =>
    intro s hi hw hlen
    unfold run at hlen ⊢
    obtain ⟨w1, w2, w3⟩ := hw op List.mem_cons_self
    have hw' : ∀ o ∈ rest, o.wf ∧ o.wfS ∧ o.noRetarget := fun o ho => hw o (List.mem_cons_of_mem _ ho)
    have hst := step_sstep s op hi.ginv hi.struct w1 w2
    have hg1 := step_ginv s op hi.ginv w1
    have hm := (run_struct_mono rest _ hg1 hst.struct (fun o ho => ⟨(hw' o ho).1, (hw' o ho).2.1⟩)).2
    have hl1 : (step s op).2.streams.length < maxU64 := Nat.lt_of_le_of_lt hm.1 hlen
    exact ih _ (step_inv s op hi w1 w2 w3 hl1) hw' hlen

end DymVerif.Incent
