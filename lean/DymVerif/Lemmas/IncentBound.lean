/-
  Lemmas/IncentBound — a stream never hands out more than its coins (after fixes D1, D2, D3):
  the per-stream invariant `distributed + pending shares of this epoch + (remaining epochs - 1) · (shares
  of one epoch) ≤ coins`, its preservation by the paged distribution (window accounting along the
  iterator) and by epoch ends / starts.
-/
import DymVerif.Lemmas.IncentStreams
import DymVerif.Lemmas.IncentPaging
import DymVerif.Lemmas.IncentShare
namespace DymVerif.Incent
open DymVerif Coins

/-! ### shares of a stream's records -/

/-- what one record of a stream receives per visit (0 when the callback skips the stream) -/
def shareOf (st : Stream) (r : Rec) (i : Nat) : Nat :=
  if st.ecEmpty || st.totalWeight == 0 then 0 else streamShare (amt st.epochCoins i) r.weight st.totalWeight

def sharesOf (st : Stream) (rs : List Rec) (i : Nat) : Nat := (rs.map (fun r => shareOf st r i)).sum

/-- all records' shares of one epoch stay within the epoch coins when the total weight is the sum of the weights -/
theorem sharesOf_all_le (st : Stream) (htw : st.totalWeight = totalWeightOf st.recs) (i : Nat) :
    sharesOf st st.recs i ≤ amt st.epochCoins i := by
  unfold sharesOf shareOf
  by_cases h : (st.ecEmpty || st.totalWeight == 0) = true
  · simp only [h, if_true]
    have : (st.recs.map (fun _ => 0)).sum = 0 := by
      apply sum_zero_of_all_zero; intro x hx; simp at hx; exact hx.2.symm ▸ rfl
    omega
  · simp only [h]
    have := streamShare_sum_le (amt st.epochCoins i) st.totalWeight (st.recs.map (·.weight)) (by rw [htw]; exact Nat.le_refl _)
    simpa [List.map_map, Function.comp_def] using this

theorem sum_sublist_le {α : Type} (f : α → Nat) {l1 l2 : List α} (h : l1.Sublist l2) : (l1.map f).sum ≤ (l2.map f).sum := by
  induction h with
  | slnil => simp
  | cons a _ ih => simp only [List.map_cons, List.sum_cons]; omega
  | cons_cons a _ ih => simp only [List.map_cons, List.sum_cons]; omega

theorem sharesOf_sublist (st : Stream) {l1 l2 : List Rec} (h : l1.Sublist l2) (i : Nat) : sharesOf st l1 i ≤ sharesOf st l2 i :=
  sum_sublist_le _ h

/-- shares only depend on the static part of a stream -/
theorem shareOf_congr {a b : Stream} (h1 : a.ecEmpty = b.ecEmpty) (h2 : a.totalWeight = b.totalWeight) (h3 : a.epochCoins = b.epochCoins)
    (r : Rec) (i : Nat) : shareOf a r i = shareOf b r i := by
  unfold shareOf; rw [h1, h2, h3]

theorem sharesOf_congr {a b : Stream} (h1 : a.ecEmpty = b.ecEmpty) (h2 : a.totalWeight = b.totalWeight) (h3 : a.epochCoins = b.epochCoins)
    (rs : List Rec) (i : Nat) : sharesOf a rs i = sharesOf b rs i := by
  unfold sharesOf
  apply congrArg
  apply List.map_congr_left
  intro r _; exact shareOf_congr h1 h2 h3 r i

/-! ### pending shares in terms of the stored pointer (stream id, gauge id) -/

/-- the pair (sid, gid) is at or after the pointer -/
def ptrLe (p : Pointer) (sid gid : Nat) : Bool :=
  decide (p.streamId < sid) || (p.streamId == sid && decide (p.gaugeId ≤ gid))

/-- shares of the records of `st` still to be served in this epoch when the epoch pointer is `p` -/
def pendId (p : Pointer) (st : Stream) (i : Nat) : Nat := sharesOf st (st.recs.filter (fun r => ptrLe p st.id r.gauge)) i

theorem pendId_le_all (p : Pointer) (st : Stream) (i : Nat) : pendId p st i ≤ sharesOf st st.recs i :=
  sharesOf_sublist st List.filter_sublist i

theorem pendId_last (st : Stream) (h : st.id < maxU64) (i : Nat) : pendId Pointer.last st i = 0 := by
  unfold pendId
  have : st.recs.filter (fun r => ptrLe Pointer.last st.id r.gauge) = [] := by
    apply List.filter_eq_nil_iff.2
    intro r _
    unfold ptrLe Pointer.last
    simp only [Bool.or_eq_true, decide_eq_true_eq, Bool.and_eq_true, beq_iff_eq, not_or, not_and]
    exact ⟨by omega, fun he => by omega⟩
  rw [this]; simp [sharesOf]

theorem pendId_first (st : Stream) (i : Nat) : pendId Pointer.first st i = sharesOf st st.recs i := by
  unfold pendId
  have : st.recs.filter (fun r => ptrLe Pointer.first st.id r.gauge) = st.recs := by
    apply List.filter_eq_self.2
    intro r _
    unfold ptrLe Pointer.first
    simp only [Bool.or_eq_true, decide_eq_true_eq, Bool.and_eq_true, beq_iff_eq]
    by_cases h : 0 < st.id
    · exact Or.inl h
    · exact Or.inr ⟨by omega, Nat.zero_le _⟩
  rw [this]


/-! ### the stream cache as an array aligned with the iterator's data -/

def Shape (data : List SView) (c : Caches) : Prop :=
  c.streams.map Stream.view = data ∧ (c.streams.map (·.id)).Nodup

theorem find_at : ∀ (l : List Stream), (l.map (·.id)).Nodup → ∀ k (hk : k < l.length),
    l.find? (fun x => x.id == l[k].id) = some l[k] := by
  intro l
  induction l with
  | nil => intro _ k hk; simp at hk
  | cons x xs ih =>
    intro hn k hk
    have hn0 : (x.id :: xs.map (·.id)).Nodup := hn
    obtain ⟨h1, h2⟩ := List.nodup_cons.1 hn0
    cases k with
    | zero => simp
    | succ k =>
      have hk' : k < xs.length := by simpa using hk
      have hne : (x.id == xs[k].id) = false := by
        simp only [beq_eq_false_iff_ne, ne_eq]
        intro he
        exact h1 (by rw [he]; exact List.mem_map_of_mem (f := (·.id)) (List.getElem_mem hk'))
      simp only [List.getElem_cons_succ, List.find?_cons, hne]
      exact ih h2 k hk'

theorem upsert_at : ∀ (l : List Stream), (l.map (·.id)).Nodup → ∀ k (hk : k < l.length) (g : Stream), g.id = l[k].id →
    upsertStream l g = l.set k g := by
  intro l
  induction l with
  | nil => intro _ k hk; simp at hk
  | cons x xs ih =>
    intro hn k hk g hg
    have hn0 : (x.id :: xs.map (·.id)).Nodup := hn
    obtain ⟨h1, h2⟩ := List.nodup_cons.1 hn0
    unfold upsertStream
    cases k with
    | zero =>
      simp only [List.getElem_cons_zero] at hg
      rw [if_pos hg.symm]; rfl
    | succ k =>
      have hk' : k < xs.length := by simpa using hk
      simp only [List.getElem_cons_succ] at hg
      have hne : ¬ x.id = g.id := by
        intro he
        exact h1 (by rw [he, hg]; exact List.mem_map_of_mem (f := (·.id)) (List.getElem_mem hk'))
      rw [if_neg hne, ih h2 k hk' g hg]; rfl

/-- effect of the rewards callback on the cache, seen as an array: only slot `k` may change, and only in
    `distributed`, which grows by at most the record's share -/
theorem rewardsCb_effect (s : State) (data : List SView) (c : Caches) (hsh : Shape data c) (k : Nat) (hk : k < c.streams.length)
    (r : Rec) :
    ∃ d', (rewardsCb s c (c.streams[k]).view r).1.streams = c.streams.set k { c.streams[k] with distributed := d' } ∧
      ∀ i, amt (c.streams[k]).distributed i ≤ amt d' i ∧ amt d' i ≤ amt (c.streams[k]).distributed i + shareOf c.streams[k] r i := by
  have hsame : c.streams.set k { c.streams[k] with distributed := (c.streams[k]).distributed } = c.streams := by
    have : ({ c.streams[k] with distributed := (c.streams[k]).distributed } : Stream) = c.streams[k] := rfl
    rw [this]; exact List.set_getElem_self hk
  have unchanged : ∃ d', c.streams = c.streams.set k { c.streams[k] with distributed := d' } ∧
      ∀ i, amt (c.streams[k]).distributed i ≤ amt d' i ∧ amt d' i ≤ amt (c.streams[k]).distributed i + shareOf c.streams[k] r i :=
    ⟨_, hsame.symm, fun i => ⟨Nat.le_refl _, Nat.le_add_right _ _⟩⟩
  unfold rewardsCb
  have hfind : c.getStream (c.streams[k]).view.id = some c.streams[k] := by
    unfold Caches.getStream Stream.view
    exact find_at c.streams hsh.2 k hk
  rw [hfind]
  simp only
  -- the final branch
  have final : ∀ (gs : List Gauge) (dd : Coins),
      (¬ ((c.streams[k]).ecEmpty || (c.streams[k]).totalWeight == 0) = true) →
      ∃ d', upsertStream c.streams { c.streams[k] with distributed := Coins.add (c.streams[k]).distributed (gaugeRewards (c.streams[k]).epochCoins r.weight (c.streams[k]).totalWeight) }
          = c.streams.set k { c.streams[k] with distributed := d' } ∧
        ∀ i, amt (c.streams[k]).distributed i ≤ amt d' i ∧ amt d' i ≤ amt (c.streams[k]).distributed i + shareOf c.streams[k] r i := by
    intro _ _ hne
    refine ⟨_, upsert_at c.streams hsh.2 k hk _ rfl, ?_⟩
    intro i
    rw [amt_add]
    have : amt (gaugeRewards (c.streams[k]).epochCoins r.weight (c.streams[k]).totalWeight) i = shareOf c.streams[k] r i := by
      unfold gaugeRewards shareOf
      rw [amt_map _ (by simp [streamShare])]
      simp only [hne]
      rfl
    omega
  cases hg : c.getGauge r.gauge with
  | some g =>
    simp only
    split
    · exact unchanged
    · next hne => exact final [] [] hne
  | none =>
    simp only
    cases hst : getGauge s r.gauge with
    | none => exact unchanged
    | some g =>
      simp only
      by_cases hf : g.isFinished s.now = true
      · simp only [hf, if_true]; exact unchanged
      · rw [if_neg hf]
        simp only
        split
        · exact unchanged
        · next hne => exact final [] [] hne

theorem shape_set (data : List SView) (c : Caches) (hsh : Shape data c) (k : Nat) (hk : k < c.streams.length) (d' : Coins) (c' : Caches)
    (h : c'.streams = c.streams.set k { c.streams[k] with distributed := d' }) : Shape data c' := by
  obtain ⟨h1, h2⟩ := hsh
  unfold Shape
  rw [h]
  constructor
  · rw [← h1, List.map_set]
    apply List.ext_getElem
    · simp
    · intro j j1 j2
      rw [List.getElem_set]
      split
      · next he => subst he; simp [Stream.view]
      · rfl
  · rw [List.map_set]
    have : (c.streams.map (·.id)).set k (c.streams[k]).id = c.streams.map (·.id) := by
      apply List.ext_getElem
      · simp
      · intro j j1 j2
        rw [List.getElem_set]
        split
        · next he => subst he; simp
        · rfl
    show ((c.streams.map (·.id)).set k (c.streams[k]).id).Nodup
    rw [this]; exact h2


/-! ### window accounting along one `Paginate` call -/

/-- shares of stream `ck` (at data index `k`) still ahead of the iterator position `it` -/
def posPend (ck : Stream) (it : Nat × Nat) (k : Nat) (i : Nat) : Nat :=
  if it.1 < k then sharesOf ck ck.recs i else if it.1 = k then sharesOf ck (ck.recs.drop it.2) i else 0

theorem sharesOf_drop (ck : Stream) (g : Nat) (hg : g < ck.recs.length) (i : Nat) :
    sharesOf ck (ck.recs.drop g) i = shareOf ck ck.recs[g] i + sharesOf ck (ck.recs.drop (g + 1)) i := by
  have h := List.drop_eq_getElem_cons hg
  unfold sharesOf
  rw [h, List.map_cons, List.sum_cons]

/-- `Next` releases at least the share of the record just visited, for the visited stream, and never
    increases what is ahead for any stream -/
theorem posPend_next (data : List SView) (e : Nat) (it : Nat × Nat) (hv : validAt data e it.1 it.2 = true)
    (k : Nat) (ck : Stream) (hrecs : ∀ h : k < data.length, ck.recs = data[k].recs) (hk : k < data.length) (i : Nat) :
    posPend ck (iterNext data e it) k i +
      (if k = it.1 then shareOf ck (ck.recs.getD it.2 default) i else 0) ≤ posPend ck it k i := by
  obtain ⟨hsi, hok, hgi⟩ := (validAt_iff data e it.1 it.2).1 hv
  unfold iterNext
  by_cases hn : validAt data e it.1 (it.2 + 1) = true
  · rw [if_pos hn]
    unfold posPend
    simp only
    by_cases h1 : it.1 < k
    · have : ¬ k = it.1 := by omega
      simp [h1, this]
    · by_cases h2 : it.1 = k
      · subst h2
        have hr := hrecs hk
        have hg : it.2 < ck.recs.length := by rw [hr]; exact hgi
        simp only [Nat.lt_irrefl, if_false, if_true]
        rw [sharesOf_drop ck it.2 hg i]
        have : ck.recs.getD it.2 default = ck.recs[it.2] := by simp [List.getD_eq_getElem?_getD, hg]
        rw [this]; omega
      · have : ¬ k = it.1 := fun x => h2 x.symm
        simp [h1, h2, this]
  · rw [if_neg hn]
    obtain ⟨f1, f2, _, _⟩ := findNext_prop data e it.1
    unfold posPend
    rw [f2]
    by_cases h2 : k = it.1
    · subst h2
      have hr := hrecs hk
      have hg : it.2 < ck.recs.length := by rw [hr]; exact hgi
      have h3 : ¬ (findNextStream data e it.1).1 < it.1 := by omega
      have h4 : ¬ (findNextStream data e it.1).1 = it.1 := by omega
      simp only [h3, h4, if_false, if_true, Nat.lt_irrefl]
      rw [sharesOf_drop ck it.2 hg i]
      have : ck.recs.getD it.2 default = ck.recs[it.2] := by simp [List.getD_eq_getElem?_getD, hg]
      rw [this]; omega
    · simp only [h2, if_false, Nat.add_zero]
      by_cases h1 : it.1 < k
      · simp only [h1, if_true]
        by_cases h5 : (findNextStream data e it.1).1 < k
        · simp [h5]
        · by_cases h6 : (findNextStream data e it.1).1 = k
          · simp [h5, h6]
          · simp [h5, h6]
      · have h7 : ¬ it.1 = k := fun x => h2 x.symm
        have h5 : ¬ (findNextStream data e it.1).1 < k := by omega
        have h6 : ¬ (findNextStream data e it.1).1 = k := by omega
        simp [h1, h7, h5, h6]

/-- relation between the cache before and after some callback steps, slot by slot -/
def Grown (c c' : Caches) : Prop :=
  c'.streams.length = c.streams.length ∧
  ∀ k (h : k < c.streams.length) (h' : k < c'.streams.length),
    c'.streams[k] = { c.streams[k] with distributed := (c'.streams[k]).distributed } ∧
    ∀ i, amt (c.streams[k]).distributed i ≤ amt (c'.streams[k]).distributed i

theorem Grown.refl (c : Caches) : Grown c c := ⟨rfl, fun _ _ _ => ⟨rfl, fun _ => Nat.le_refl _⟩⟩

theorem Grown.trans {a b c : Caches} (h1 : Grown a b) (h2 : Grown b c) : Grown a c := by
  refine ⟨h2.1.trans h1.1, ?_⟩
  intro k h h'
  have hb : k < b.streams.length := by rw [h1.1]; exact h
  obtain ⟨a1, a2⟩ := h1.2 k h hb
  obtain ⟨b1, b2⟩ := h2.2 k hb h'
  refine ⟨?_, fun i => Nat.le_trans (a2 i) (b2 i)⟩
  rw [b1, a1]

def slot (c : Caches) (k : Nat) : Stream := c.streams.getD k default
def distAt (c : Caches) (k i : Nat) : Nat := amt (slot c k).distributed i

theorem slot_eq (c : Caches) (k : Nat) (h : k < c.streams.length) : slot c k = c.streams[k] := by
  unfold slot; simp [List.getD_eq_getElem?_getD, h]

/-- **window accounting**: along one `Paginate` call every cached stream satisfies
    `distributed' + ahead(it') ≤ distributed + ahead(it)` -/
theorem paginate_window (s : State) (data : List SView) (e : Nat) (max : Nat) :
    ∀ fuel it total (c : Caches), Shape data c →
      Shape data (paginate data e (rewardsCb s) max fuel it total c).2.2 ∧
      Grown c (paginate data e (rewardsCb s) max fuel it total c).2.2 ∧
      ∀ k, k < c.streams.length → ∀ i,
        distAt (paginate data e (rewardsCb s) max fuel it total c).2.2 k i +
            posPend (slot c k) (paginate data e (rewardsCb s) max fuel it total c).1 k i
          ≤ distAt c k i + posPend (slot c k) it k i := by
  intro fuel
  induction fuel with
  | zero =>
    intro it total c hsh
    exact ⟨hsh, Grown.refl c, fun k _ i => Nat.le_refl _⟩
  | succ n ih =>
    intro it total c hsh
    unfold paginate
    by_cases hc : (decide (total < max) && validAt data e it.1 it.2) = true
    · simp only [hc, if_true]
      have hv : validAt data e it.1 it.2 = true := by simp at hc; exact hc.2
      obtain ⟨hlt, _, hgi⟩ := (validAt_iff data e it.1 it.2).1 hv
      have hlen : c.streams.length = data.length := by rw [← hsh.1]; simp
      have hk1 : it.1 < c.streams.length := by rw [hlen]; exact hlt
      have hview : data[it.1]? = some (c.streams[it.1]).view := by
        have := hsh.1
        subst this
        simp [hk1]
      simp only [hview]
      obtain ⟨d', hd1, hd2⟩ := rewardsCb_effect s data c hsh it.1 hk1 ((c.streams[it.1]).view.recs.getD it.2 default)
      obtain ⟨c1, w, hres⟩ : ∃ c1 w, rewardsCb s c (c.streams[it.1]).view ((c.streams[it.1]).view.recs.getD it.2 default) = (c1, w) := ⟨_, _, rfl⟩
      rw [hres] at hd1 ⊢
      simp only at hd1 ⊢
      have hsh1 : Shape data c1 := shape_set data c hsh it.1 hk1 d' c1 hd1
      obtain ⟨i1, i2, i3⟩ := ih (iterNext data e it) (total + w) c1 hsh1
      have hg1 : Grown c c1 := by
        refine ⟨by rw [hd1]; simp, ?_⟩
        intro k h h'
        have : c1.streams[k] = (c.streams.set it.1 { c.streams[it.1] with distributed := d' })[k]'(by simpa using h) := by
          simp only [hd1]
        rw [this, List.getElem_set]
        split
        · next he => subst he; exact ⟨rfl, fun i => (hd2 i).1⟩
        · exact ⟨rfl, fun i => Nat.le_refl _⟩
      refine ⟨i1, Grown.trans hg1 i2, ?_⟩
      intro k h i
      have hk1' : k < c1.streams.length := by rw [hg1.1]; exact h
      have h3 := i3 k hk1' i
      obtain ⟨g1, g2⟩ := hg1.2 k h hk1'
      have hpp : ∀ it', posPend (slot c1 k) it' k i = posPend (slot c k) it' k i := by
        intro it'
        rw [slot_eq c1 k hk1', slot_eq c k h]
        unfold posPend
        rw [g1]
        simp only
        rw [sharesOf_congr (a := { c.streams[k] with distributed := (c1.streams[k]).distributed }) (b := c.streams[k]) rfl rfl rfl,
            sharesOf_congr (a := { c.streams[k] with distributed := (c1.streams[k]).distributed }) (b := c.streams[k]) rfl rfl rfl]
      rw [hpp, hpp] at h3
      have hkd : k < data.length := by rw [← hlen]; exact h
      have hn := posPend_next data e it hv k (slot c k)
        (by intro hh; rw [slot_eq c k h]; have := hsh.1; subst this; simp [Stream.view]) hkd i
      have hstep : distAt c1 k i ≤ distAt c k i +
          (if k = it.1 then shareOf (slot c k) ((slot c k).recs.getD it.2 default) i else 0) := by
        unfold distAt
        rw [slot_eq c1 k hk1', slot_eq c k h]
        have : c1.streams[k] = (c.streams.set it.1 { c.streams[it.1] with distributed := d' })[k]'(by simpa using h) := by
          simp only [hd1]
        rw [this, List.getElem_set]
        split
        · next he =>
          subst he
          simp only [if_true]
          exact (hd2 i).2
        · next he =>
          have : ¬ k = it.1 := fun x => he x.symm
          simp [this]
      omega
    · simp only [hc]
      exact ⟨hsh, Grown.refl c, fun k _ i => Nat.le_refl _⟩


/-- streams of other epoch identifiers are not touched by a `Paginate` call for epoch `e` -/
theorem paginate_other (s : State) (data : List SView) (e : Nat) (max : Nat) :
    ∀ fuel it total (c : Caches), Shape data c →
      ∀ k, k < c.streams.length → (slot c k).epochId ≠ e →
        slot (paginate data e (rewardsCb s) max fuel it total c).2.2 k = slot c k := by
  intro fuel
  induction fuel with
  | zero => intro it total c _ k _ _; rfl
  | succ n ih =>
    intro it total c hsh k hk hne
    unfold paginate
    by_cases hc : (decide (total < max) && validAt data e it.1 it.2) = true
    · simp only [hc, if_true]
      have hv : validAt data e it.1 it.2 = true := by simp at hc; exact hc.2
      obtain ⟨hlt, hok, hgi⟩ := (validAt_iff data e it.1 it.2).1 hv
      have hlen : c.streams.length = data.length := by rw [← hsh.1]; simp
      have hk1 : it.1 < c.streams.length := by rw [hlen]; exact hlt
      have hview : data[it.1]? = some (c.streams[it.1]).view := by
        have := hsh.1
        subst this
        simp [hk1]
      simp only [hview]
      obtain ⟨d', hd1, _⟩ := rewardsCb_effect s data c hsh it.1 hk1 ((c.streams[it.1]).view.recs.getD it.2 default)
      obtain ⟨c1, w, hres⟩ : ∃ c1 w, rewardsCb s c (c.streams[it.1]).view ((c.streams[it.1]).view.recs.getD it.2 default) = (c1, w) := ⟨_, _, rfl⟩
      rw [hres] at hd1 ⊢
      simp only at hd1 ⊢
      have hsh1 : Shape data c1 := shape_set data c hsh it.1 hk1 d' c1 hd1
      have hk' : k < c1.streams.length := by rw [hd1]; simpa using hk
      -- slot it.1 has epoch e, so k ≠ it.1
      have hke : k ≠ it.1 := by
        intro he
        apply hne
        rw [he, slot_eq c it.1 hk1]
        have h1 : data[it.1] = (c.streams[it.1]).view := by
          have := List.getElem?_eq_getElem hlt
          rw [hview] at this
          exact (Option.some.inj this).symm
        unfold sOk at hok
        simp only [Bool.and_eq_true, beq_iff_eq] at hok
        rw [h1] at hok
        exact hok.2
      have hs1 : slot c1 k = slot c k := by
        rw [slot_eq c1 k hk', slot_eq c k hk]
        have : c1.streams[k] = (c.streams.set it.1 { c.streams[it.1] with distributed := d' })[k]'(by simpa using hk) := by
          simp only [hd1]
        rw [this, List.getElem_set_ne (fun x => hke x.symm)]
      rw [← hs1]
      exact ih _ _ c1 hsh1 k hk' (by rw [hs1]; exact hne)
    · simp only [hc]
      rfl

/-! ### from iterator positions to the stored pointer and back -/

theorem pendId_all_of_lt (p : Pointer) (st : Stream) (h : p.streamId < st.id) (i : Nat) :
    pendId p st i = sharesOf st st.recs i := by
  unfold pendId
  have : st.recs.filter (fun r => ptrLe p st.id r.gauge) = st.recs := by
    apply List.filter_eq_self.2
    intro r _
    unfold ptrLe
    simp [h]
  rw [this]

theorem drop_le_pendId (p : Pointer) (st : Stream) (g : Nat) (h1 : p.streamId ≤ st.id)
    (h2 : ∀ j, g ≤ j → j < st.recs.length → p.gaugeId ≤ (st.recs.map (·.gauge)).getD j 0) (i : Nat) :
    sharesOf st (st.recs.drop g) i ≤ pendId p st i := by
  unfold pendId
  apply sharesOf_sublist
  have hall : ∀ r ∈ st.recs.drop g, ptrLe p st.id r.gauge = true := by
    intro r hr
    obtain ⟨j, hj, he⟩ := List.getElem_of_mem hr
    rw [List.getElem_drop] at he
    have hj' : g + j < st.recs.length := by simp at hj; omega
    have := h2 (g + j) (by omega) hj'
    have hg : (st.recs.map (·.gauge)).getD (g + j) 0 = r.gauge := by
      simp [List.getD_eq_getElem?_getD, hj', he]
    rw [hg] at this
    unfold ptrLe
    simp only [Bool.or_eq_true, decide_eq_true_eq, Bool.and_eq_true, beq_iff_eq]
    by_cases hh : p.streamId < st.id
    · exact Or.inl hh
    · exact Or.inr ⟨by omega, this⟩
  have : st.recs.drop g = (st.recs.drop g).filter (fun r => ptrLe p st.id r.gauge) := (List.filter_eq_self.2 hall).symm
  rw [this]
  exact (List.drop_sublist g st.recs).filter _

theorem pendId_le_drop (p : Pointer) (st : Stream) (g : Nat) (h1 : p.streamId = st.id)
    (h2 : ∀ j, j < g → j < st.recs.length → (st.recs.map (·.gauge)).getD j 0 < p.gaugeId) (i : Nat) :
    pendId p st i ≤ sharesOf st (st.recs.drop g) i := by
  unfold pendId
  apply sharesOf_sublist
  have hsplit : st.recs = st.recs.take g ++ st.recs.drop g := (List.take_append_drop g st.recs).symm
  have htake : (st.recs.take g).filter (fun r => ptrLe p st.id r.gauge) = [] := by
    apply List.filter_eq_nil_iff.2
    intro r hr
    obtain ⟨j, hj, he⟩ := List.getElem_of_mem hr
    rw [List.getElem_take] at he
    have hj1 : j < g := by simp at hj; omega
    have hj2 : j < st.recs.length := by simp at hj; omega
    have := h2 j hj1 hj2
    have hg : (st.recs.map (·.gauge)).getD j 0 = r.gauge := by
      simp [List.getD_eq_getElem?_getD, hj2, he]
    rw [hg] at this
    unfold ptrLe
    simp only [Bool.or_eq_true, decide_eq_true_eq, Bool.and_eq_true, beq_iff_eq, not_or, not_and]
    exact ⟨by omega, fun _ => by omega⟩
  have : st.recs.filter (fun r => ptrLe p st.id r.gauge) = (st.recs.drop g).filter (fun r => ptrLe p st.id r.gauge) := by
    conv => lhs; rw [hsplit]
    rw [List.filter_append, htake, List.nil_append]
  rw [this]
  exact List.filter_sublist

theorem pendId_zero_of_gt (p : Pointer) (st : Stream) (h : st.id < p.streamId) (i : Nat) : pendId p st i = 0 := by
  unfold pendId
  have : st.recs.filter (fun r => ptrLe p st.id r.gauge) = [] := by
    apply List.filter_eq_nil_iff.2
    intro r _
    unfold ptrLe
    simp only [Bool.or_eq_true, decide_eq_true_eq, Bool.and_eq_true, beq_iff_eq, not_or, not_and]
    exact ⟨by omega, fun he => by omega⟩
  rw [this]; simp [sharesOf]


theorem ids_getD (data : List SView) (k : Nat) (hk : k < data.length) : (data.map (·.id)).getD k 0 = data[k].id := by
  simp [List.getD_eq_getElem?_getD, hk]

theorem gids_getD (rs : List Rec) (j : Nat) (hj : j < rs.length) : (rs.map (·.gauge)).getD j 0 = rs[j].gauge := by
  simp [List.getD_eq_getElem?_getD, hj]

/-- what is ahead of the iterator built from pointer `p` is at most what is pending after `p` -/
theorem newIter_pend_le (data : List SView) (e : Nat) (p : Pointer) (hs : SortedData data) (k : Nat) (hk : k < data.length)
    (st : Stream) (hid : st.id = data[k].id) (hrec : st.recs = data[k].recs) (i : Nat) :
    posPend st (newIter data e p) k i ≤ pendId p st i := by
  obtain ⟨_, lo, hi⟩ := binSearch_spec (data.map (·.id)) p.streamId hs.ids
  have hlenm : (data.map (·.id)).length = data.length := by simp
  have hidk : p.streamId ≤ st.id ∨ k < binSearch (data.map (·.id)) p.streamId := by
    by_cases h : binSearch (data.map (·.id)) p.streamId ≤ k
    · left; have := hi k h (by rw [hlenm]; exact hk); rw [ids_getD data k hk] at this; rw [hid]; exact this
    · right; omega
  -- if the bisection index is below k, the stream is entirely after the pointer
  have hall : ∀ si, binSearch (data.map (·.id)) p.streamId ≤ si → si < k → pendId p st i = sharesOf st st.recs i := by
    intro si h1 h2
    apply pendId_all_of_lt
    have a := hi si h1 (by rw [hlenm]; omega)
    have b := hs.ids si k h2 (by rw [hlenm]; exact hk)
    rw [ids_getD data k hk] at b
    rw [hid]; omega
  unfold newIter
  cases hd : data[binSearch (data.map (·.id)) p.streamId]? with
  | none =>
    simp only [hd]
    have : data.length ≤ binSearch (data.map (·.id)) p.streamId := by
      rcases Nat.lt_or_ge (binSearch (data.map (·.id)) p.streamId) data.length with h | h
      · rw [List.getElem?_eq_getElem h] at hd; simp at hd
      · exact h
    unfold posPend
    have h1 : ¬ binSearch (data.map (·.id)) p.streamId < k := by omega
    have h2 : ¬ binSearch (data.map (·.id)) p.streamId = k := by omega
    simp [h1, h2]
  | some sv =>
    simp only [hd]
    obtain ⟨hsi, hsv⟩ := List.getElem?_eq_some_iff.1 hd
    by_cases hv : validAt data e (binSearch (data.map (·.id)) p.streamId) (binSearch (sv.recs.map (·.gauge)) p.gaugeId) = true
    · rw [if_pos hv]
      unfold posPend
      simp only
      by_cases h1 : binSearch (data.map (·.id)) p.streamId < k
      · simp only [h1, if_true]
        rw [hall _ (Nat.le_refl _) h1]; exact Nat.le_refl _
      · by_cases h2 : binSearch (data.map (·.id)) p.streamId = k
        · simp only [h1, h2, if_false, if_true]
          have hsvk : sv = data[k] := by rw [← hsv]; simp [h2]
          have hmem : data[k] ∈ data := List.getElem_mem hk
          obtain ⟨_, _, ghi⟩ := binSearch_spec (data[k].recs.map (·.gauge)) p.gaugeId (hs.recs _ hmem)
          rw [hsvk]
          simp only [Nat.lt_irrefl, if_false]
          apply drop_le_pendId
          · rcases hidk with h | h
            · exact h
            · omega
          · intro j hj1 hj2
            rw [hrec] at hj2 ⊢
            exact ghi j hj1 (by simpa using hj2)
        · simp [h1, h2]
    · rw [if_neg hv]
      obtain ⟨f1, f2, _, _⟩ := findNext_prop data e (binSearch (data.map (·.id)) p.streamId)
      unfold posPend
      rw [f2]
      by_cases h1 : (findNextStream data e (binSearch (data.map (·.id)) p.streamId)).1 < k
      · simp only [h1, if_true]
        rw [hall _ (Nat.le_refl _) (by omega)]; exact Nat.le_refl _
      · by_cases h2 : (findNextStream data e (binSearch (data.map (·.id)) p.streamId)).1 = k
        · simp only [h2, Nat.lt_irrefl, if_false, if_true, List.drop_zero]
          rw [hall _ (Nat.le_refl _) (by omega)]; exact Nat.le_refl _
        · simp [h1, h2]

/-- what is pending after the saved pointer is at most what is ahead of the iterator it was saved from -/
theorem ptrOf_pend_le (data : List SView) (e : Nat) (it : Nat × Nat) (hs : SortedData data) (k : Nat) (hk : k < data.length)
    (st : Stream) (hid : st.id = data[k].id) (hrec : st.recs = data[k].recs) (i : Nat) :
    pendId (ptrOf data e it) st i ≤ posPend st it k i := by
  have hlenm : (data.map (·.id)).length = data.length := by simp
  unfold ptrOf
  by_cases hv : validAt data e it.1 it.2 = true
  · obtain ⟨hlt, _, hgi⟩ := (validAt_iff data e it.1 it.2).1 hv
    simp only [hv, if_true, List.getElem?_eq_getElem hlt]
    unfold posPend
    by_cases h1 : it.1 < k
    · simp only [h1, if_true]; exact pendId_le_all _ _ _
    · by_cases h2 : it.1 = k
      · have hsk : data[it.1] = data[k] := by simp [h2]
        simp only [h2, Nat.lt_irrefl, if_false, if_true]
        have hmem : data[k] ∈ data := List.getElem_mem hk
        apply pendId_le_drop
        · simp only; rw [hid]
        · intro j hj1 hj2
          simp only
          have hgk : it.2 < data[k].recs.length := by rw [← hsk]; exact hgi
          have := (hs.recs _ hmem) j it.2 hj1 (by simpa using hgk)
          rw [hrec]
          have e2 : (data[k].recs.getD it.2 default).gauge = (data[k].recs.map (·.gauge)).getD it.2 0 := by
            simp [List.getD_eq_getElem?_getD, hgk]
          rw [e2]; exact this
      · simp only [h1, h2, if_false]
        have : pendId ⟨data[it.1].id, (data[it.1].recs.getD it.2 default).gauge⟩ st i = 0 := by
          apply pendId_zero_of_gt
          have := hs.ids k it.1 (by omega) (by rw [hlenm]; exact hlt)
          rw [ids_getD data k hk, ids_getD data it.1 hlt] at this
          simp only; rw [hid]; exact this
        rw [this]; exact Nat.le_refl _
  · have hv' : validAt data e it.1 it.2 = false := by simpa using hv
    simp only [hv', Bool.false_eq_true, if_false]
    have := hs.bound k hk
    rw [ids_getD data k hk] at this
    rw [pendId_last st (by rw [hid]; exact this) i]
    exact Nat.zero_le _


/-! ### one `IterateEpochPointer` call and the loop over the epoch pointers -/

/-- static requirements on the cached stream list (what sorting by id, `validateGauges` and the id counter give) -/
structure GoodCache (c : Caches) : Prop where
  nodup : (c.streams.map (·.id)).Nodup
  sorted : (c.streams.map (·.id)).Pairwise (· ≤ ·)
  recs : ∀ st ∈ c.streams, StrictInc (st.recs.map (·.gauge))
  bound : ∀ st ∈ c.streams, st.id < maxU64

theorem strictInc_of_sorted_nodup (l : List Nat) (h1 : l.Pairwise (· ≤ ·)) (h2 : l.Nodup) : StrictInc l := by
  apply strictInc_of_pairwise
  induction l with
  | nil => exact List.Pairwise.nil
  | cons x xs ih =>
    obtain ⟨a1, a2⟩ := List.pairwise_cons.1 h1
    obtain ⟨b1, b2⟩ := List.nodup_cons.1 h2
    refine List.pairwise_cons.2 ⟨?_, ih a2 b2⟩
    intro y hy
    have := a1 y hy
    have : x ≠ y := fun he => b1 (he ▸ hy)
    omega

theorem GoodCache.sortedData {c : Caches} (h : GoodCache c) : SortedData (c.streams.map Stream.view) := by
  have hids : (c.streams.map Stream.view).map (·.id) = c.streams.map (·.id) := by
    simp [List.map_map, Function.comp_def, Stream.view]
  refine ⟨?_, ?_, ?_⟩
  · rw [hids]; exact strictInc_of_sorted_nodup _ h.sorted h.nodup
  · intro sv hsv
    obtain ⟨st, hst, he⟩ := List.mem_map.1 hsv
    rw [← he]; exact h.recs st hst
  · intro k hk
    rw [hids]
    have hk' : k < c.streams.length := by simpa using hk
    have : (c.streams.map (·.id)).getD k 0 = (c.streams[k]).id := by simp [List.getD_eq_getElem?_getD, hk']
    rw [this]; exact h.bound _ (List.getElem_mem hk')

theorem GoodCache.of_grown {c c' : Caches} (h : GoodCache c) (hg : Grown c c') : GoodCache c' := by
  have hid : c'.streams.map (·.id) = c.streams.map (·.id) := by
    apply List.ext_getElem
    · simp [hg.1]
    · intro k h1 h2
      simp only [List.getElem_map]
      have hk : k < c.streams.length := by simpa using h2
      have hk' : k < c'.streams.length := by simpa using h1
      rw [(hg.2 k hk hk').1]
  refine ⟨by rw [hid]; exact h.nodup, by rw [hid]; exact h.sorted, ?_, ?_⟩
  · intro st hst
    obtain ⟨k, hk, he⟩ := List.getElem_of_mem hst
    have hk0 : k < c.streams.length := by rw [← hg.1]; exact hk
    have := (hg.2 k hk0 hk).1
    rw [← he, this]; exact h.recs c.streams[k] (List.getElem_mem hk0)
  · intro st hst
    obtain ⟨k, hk, he⟩ := List.getElem_of_mem hst
    have hk0 : k < c.streams.length := by rw [← hg.1]; exact hk
    have := (hg.2 k hk0 hk).1
    rw [← he, this]; exact h.bound c.streams[k] (List.getElem_mem hk0)

/-- the quantity the window accounting keeps from growing: distributed + pending after the stream's own pointer -/
def Qv (c : Caches) (ps : List Pointer) (k i : Nat) : Nat :=
  distAt c k i + pendId (ps.getD (slot c k).epochId Pointer.last) (slot c k) i

theorem slot_static {c c' : Caches} (hg : Grown c c') (k : Nat) (hk : k < c.streams.length) :
    slot c' k = { slot c k with distributed := (slot c' k).distributed } := by
  have hk' : k < c'.streams.length := by rw [hg.1]; exact hk
  rw [slot_eq c' k hk', slot_eq c k hk]
  exact (hg.2 k hk hk').1

theorem pendId_static {a b : Stream} (h : a = { b with distributed := a.distributed }) (p : Pointer) (i : Nat) :
    pendId p a i = pendId p b i := by
  unfold pendId
  rw [h]
  simp only
  exact sharesOf_congr rfl rfl rfl _ i

theorem iterate_window (s : State) (e : Nat) (p : Pointer) (max : Nat) (c : Caches) (hgc : GoodCache c) :
    let res := iterateEpochPointer (c.streams.map Stream.view) e p max (rewardsCb s) c
    Grown c res.2.2 ∧
    (∀ k, k < c.streams.length → ∀ i, distAt res.2.2 k i + pendId res.1 (slot c k) i ≤ distAt c k i + pendId p (slot c k) i) ∧
    (∀ k, k < c.streams.length → (slot c k).epochId ≠ e → slot res.2.2 k = slot c k) := by
  intro res
  have hsh : Shape (c.streams.map Stream.view) c := ⟨rfl, hgc.nodup⟩
  have hsd := hgc.sortedData
  have hres1 : res.1 = ptrOf (c.streams.map Stream.view) e
      (paginate (c.streams.map Stream.view) e (rewardsCb s) max (totalRecs (c.streams.map Stream.view) + 1) (newIter (c.streams.map Stream.view) e p) 0 c).1 :=
    iterate_ptr _ e p max (rewardsCb s) c
  have hres2 : res.2.2 = (paginate (c.streams.map Stream.view) e (rewardsCb s) max (totalRecs (c.streams.map Stream.view) + 1) (newIter (c.streams.map Stream.view) e p) 0 c).2.2 := rfl
  obtain ⟨w1, w2, w3⟩ := paginate_window s (c.streams.map Stream.view) e max (totalRecs (c.streams.map Stream.view) + 1) (newIter (c.streams.map Stream.view) e p) 0 c hsh
  refine ⟨by rw [hres2]; exact w2, ?_, ?_⟩
  · intro k hk i
    have hkd : k < (c.streams.map Stream.view).length := by simpa using hk
    have hidk : (slot c k).id = ((c.streams.map Stream.view)[k]).id := by rw [slot_eq c k hk]; simp [Stream.view]
    have hreck : (slot c k).recs = ((c.streams.map Stream.view)[k]).recs := by rw [slot_eq c k hk]; simp [Stream.view]
    have b1 := newIter_pend_le (c.streams.map Stream.view) e p hsd k hkd (slot c k) hidk hreck i
    have b2 := ptrOf_pend_le (c.streams.map Stream.view) e
      (paginate (c.streams.map Stream.view) e (rewardsCb s) max (totalRecs (c.streams.map Stream.view) + 1) (newIter (c.streams.map Stream.view) e p) 0 c).1
      hsd k hkd (slot c k) hidk hreck i
    have := w3 k hk i
    rw [hres1, hres2]
    omega
  · intro k hk hne
    rw [hres2]
    exact paginate_other s _ e max _ _ _ c hsh k hk hne

theorem ptrLoop_window (s : State) (maxOps : Nat) : ∀ (es : List Nat) (total : Nat) (c : Caches) (ps : List Pointer), GoodCache c →
    Grown c (ptrLoop s maxOps es total c ps).2.1 ∧
    ∀ k, k < c.streams.length → ∀ i, Qv (ptrLoop s maxOps es total c ps).2.1 (ptrLoop s maxOps es total c ps).2.2 k i ≤ Qv c ps k i := by
  intro es
  induction es with
  | nil => intro total c ps _; exact ⟨Grown.refl c, fun _ _ _ => Nat.le_refl _⟩
  | cons e rest ih =>
    intro total c ps hgc
    unfold ptrLoop
    by_cases hb : total ≥ maxOps
    · rw [if_pos hb]; exact ⟨Grown.refl c, fun _ _ _ => Nat.le_refl _⟩
    · rw [if_neg hb]
      simp only
      obtain ⟨g1, g2, g3⟩ := iterate_window s e (ps.getD e Pointer.last) (maxOps - total) c hgc
      obtain ⟨p', iters, c', hit⟩ : ∃ p' iters c', iterateEpochPointer (c.streams.map Stream.view) e (ps.getD e Pointer.last) (maxOps - total) (rewardsCb s) c = (p', iters, c') := ⟨_, _, _, rfl⟩
      rw [hit] at g1 g2 g3 ⊢
      simp only at g1 g2 g3 ⊢
      obtain ⟨h1, h2⟩ := ih (total + iters) c' (ps.set e p') (hgc.of_grown g1)
      refine ⟨Grown.trans g1 h1, ?_⟩
      intro k hk i
      have hk' : k < c'.streams.length := by rw [g1.1]; exact hk
      refine Nat.le_trans (h2 k hk' i) ?_
      -- one pointer step does not increase Qv
      unfold Qv
      have hst := slot_static g1 k hk
      have hep : (slot c' k).epochId = (slot c k).epochId := by rw [hst]
      rw [hep, pendId_static hst]
      by_cases he : (slot c k).epochId = e
      · rw [he]
        by_cases hl : e < ps.length
        · have : (ps.set e p').getD e Pointer.last = p' := by simp [List.getD_eq_getElem?_getD, hl]
          rw [this]; exact g2 k hk i
        · have h3 : (ps.set e p').getD e Pointer.last = Pointer.last := by
            rw [List.getD_eq_getElem?_getD, List.getElem?_eq_none (by rw [List.length_set]; omega)]; rfl
          have h4 : ps.getD e Pointer.last = Pointer.last := by
            rw [List.getD_eq_getElem?_getD, List.getElem?_eq_none (by omega)]; rfl
          rw [h3]
          have := g2 k hk i
          rw [h4] at this ⊢
          have hb2 : (slot c k).id < maxU64 := by rw [slot_eq c k hk]; exact hgc.bound _ (List.getElem_mem hk)
          rw [pendId_last _ hb2 i] at this ⊢
          omega
      · have h5 : (ps.set e p').getD (slot c k).epochId Pointer.last = ps.getD (slot c k).epochId Pointer.last := by
          simp only [List.getD_eq_getElem?_getD]
          rw [List.getElem?_set_ne (fun x => he x.symm)]
        rw [h5]
        have := g3 k hk he
        unfold distAt
        rw [this]
        exact Nat.le_refl _

end DymVerif.Incent
