/-
  Lemmas/CoreFinSame2 — message handlers and block hooks that are finalization-neutral (`FS`).
-/
import DymVerif.Lemmas.CoreFinSame
namespace DymVerif.Core

theorem onProposerLastBlock_fs {s s' : St} {q : Seq} (e : onProposerLastBlock s q = .ok s') : FS s s' := by
  unfold onProposerLastBlock at e
  split at e
  · cases e
  · split at e
    · cases e
    · rename_i r hg
      dsimp only at e
      have h1 : FS s (setRa s { r with successor := none, proposer := r.successor }) := FS.setRa hg rfl
      split at e
      · exact h1.trans (hardForkToLatest_fs e)
      · injection e with e; subst e
        exact h1.trans (afterSetRealProposer_fs _ _ _)

theorem seqAfterUpdate_fs {s s' : St} {m : UpdMsg} {b : Bool} (e : seqAfterUpdate s m b = .ok s') : FS s s' := by
  unfold seqAfterUpdate at e
  split at e
  · cases e
  · dsimp only at e
    have h1 : ∀ q : Seq, FS s (setSeq s q) := fun q => FS.of_ras_eq rfl rfl rfl rfl
    split at e
    · exact (h1 _).trans (onProposerLastBlock_fs e)
    · injection e with e; subst e; exact h1 _

-- ---------------------------------------------------------------- bank / bonds

theorem sendToModule_frame {s s1 : St} {q q1 : Seq} {amt : Nat} (e : sendToModule s q amt = .ok (s1, q1)) : Frame s s1 := by
  unfold sendToModule at e; split at e
  · cases e
  · injection e with e; injection e with e1 _; subst e1; exact ⟨rfl, rfl, rfl, rfl⟩

theorem sendFromModule_frame {s s1 : St} {q q1 : Seq} {amt : Nat} {to : Addr}
    (e : sendFromModule s q amt to = .ok (s1, q1)) : Frame s s1 := by
  unfold sendFromModule at e; split at e
  · cases e
  · split at e
    · cases e
    · split at e
      · cases e
      · injection e with e; injection e with e1 _; subst e1; exact ⟨rfl, rfl, rfl, rfl⟩

theorem burn_frame {s s1 : St} {q q1 : Seq} {amt : Nat} (e : burn s q amt = .ok (s1, q1)) : Frame s s1 := by
  unfold burn at e; split at e
  · cases e
  · split at e
    · cases e
    · injection e with e; injection e with e1 _; subst e1; exact ⟨rfl, rfl, rfl, rfl⟩

theorem slash_frame {s s1 : St} {q q1 : Seq} {amt : Nat} {mul : Dec} {rw : Option Addr}
    (e : slash s q amt mul rw = .ok (s1, q1)) : Frame s s1 := by
  unfold slash at e
  dsimp only at e
  split at e
  · cases e
  · rename_i s0 q0 h0
    have : Frame s s0 := by
      split at h0
      · injection h0 with h0; injection h0 with h1 _; subst h1; exact Frame.refl s
      · split at h0
        · exact sendFromModule_frame h0
        · cases h0
    exact this.trans (burn_frame e)

theorem tryUnbond_frame {s s1 : St} {q q1 : Seq} {amt : Nat} (e : tryUnbond s q amt = .ok (s1, q1)) : Frame s s1 := by
  unfold tryUnbond at e
  split at e
  · cases e
  · split at e
    · cases e
    · split at e
      · cases e
      · dsimp only at e
        split at e
        · cases e
        · split at e
          · cases e
          · rename_i s0 q0 h0
            injection e with e; injection e with e1 _; subst e1
            exact sendFromModule_frame h0

theorem Frame.setSeq {s s1 : St} (h : Frame s s1) (q : Seq) : Frame s (setSeq s1 q) := h.trans ⟨rfl, rfl, rfl, rfl⟩

theorem createSeq_fs {s s' : St} {a : Addr} {ra bond : Nat} {d : Bool}
    (e : createSeq s a ra bond d = .ok s') : FS s s' := by
  unfold createSeq at e
  split at e
  · cases e
  · rename_i r hg
    split at e
    · cases e
    · split at e
      · cases e
      · split at e
        · cases e
        · split at e
          · cases e
          · dsimp only at e
            have h0 : FS s (if r.launched = true then s else setRa s { r with launched := true }) := by
              split
              · exact FS.refl s
              · exact FS.setRa hg rfl
            split at e
            · cases e
            · rename_i s1 q1 hs
              have h1 := h0.trans (sendToModule_frame hs).fs
              have h2 : FS s { s1 with seqs := insertSorted (fun x y => decide (x.addr < y.addr)) q1 s1.seqs } :=
                h1.trans (FS.of_ras_eq rfl rfl rfl rfl)
              split at e
              · cases e
              · split at e
                · exact h2.trans (recoverFromSentinel_fs e)
                · injection e with e; subst e; exact h2

theorem increaseBond_fs {s s' : St} {a : Addr} {amt : Nat} {d : Bool}
    (e : increaseBond s a amt d = .ok s') : FS s s' := by
  unfold increaseBond at e
  split at e
  · cases e
  · split at e
    · cases e
    · split at e
      · cases e
      · split at e
        · cases e
        · rename_i s1 q1 hs
          injection e with e; subst e
          exact ((sendToModule_frame hs).setSeq _).fs

theorem decreaseBond_fs {s s' : St} {a : Addr} {amt : Nat} (e : decreaseBond s a amt = .ok s') : FS s s' := by
  unfold decreaseBond at e
  split at e
  · cases e
  · split at e
    · cases e
    · split at e
      · cases e
      · rename_i s1 q1 hs
        injection e with e; subst e
        exact ((tryUnbond_frame hs).setSeq _).fs

theorem unbond_fs {s s' : St} {a : Addr} (e : unbond s a = .ok s') : FS s s' := by
  unfold unbond at e
  repeat' split at e
  all_goals first
    | (injection e with e; subst e; exact FS.of_ras_eq rfl rfl rfl rfl)
    | (rename_i s1 q1 hs; injection e with e; subst e; exact ((tryUnbond_frame hs).setSeq _).fs)
    | (cases e; done)

theorem optIn_fs {s s' : St} {a : Addr} {v : Bool} (e : optIn s a v = .ok s') : FS s s' := by
  unfold optIn at e
  split at e
  · cases e
  · split at e
    · cases e
    · dsimp only at e
      have h1 : ∀ q : Seq, FS s (setSeq s q) := fun q => FS.of_ras_eq rfl rfl rfl rfl
      split at e
      · cases e
      · split at e
        · exact (h1 _).trans (recoverFromSentinel_fs e)
        · injection e with e; subst e; exact h1 _

theorem kick_fs {s s' : St} {a : Addr} (e : kick s a = .ok s') : FS s s' := by
  unfold kick at e
  split at e
  · cases e
  · split at e
    · cases e
    · split at e
      · cases e
      · split at e
        · cases e
        · split at e
          · cases e
          · split at e
            · cases e
            · split at e
              · cases e
              · dsimp only at e
                split at e
                · cases e
                · rename_i s3 h3
                  have h1 := (abruptRemoveProposer_fs _ _).trans (hardForkToLatest_fs h3)
                  have h2 : ∀ q : Seq, FS s3 (setSeq s3 q) := fun q => FS.of_ras_eq rfl rfl rfl rfl
                  exact (h1.trans (h2 _)).trans (recoverFromSentinel_fs e)

theorem punish_fs {s s' : St} {a : Addr} {rw : Option Addr} (e : punish s a rw = .ok s') : FS s s' := by
  unfold punish at e
  split at e
  · cases e
  · dsimp only at e
    split at e
    · cases e
    · rename_i s1 q1 hs
      injection e with e; subst e
      exact ((slash_frame hs).setSeq _).fs

theorem markObsolete_fs {s s' : St} {au : Bool} {vs : List Nat} (e : markObsolete s au vs = .ok s') : FS s s' := by
  unfold markObsolete at e
  split at e
  · cases e
  · split at e
    · cases e
    · dsimp only at e
      injection e with e; subst e
      refine FS.trans (b := { s with obsolete := vs.foldl (fun acc v => if acc.contains v then acc else acc ++ [v]) s.obsolete })
        (FS.of_ras_eq rfl rfl rfl rfl) ?_
      apply FS.foldl
      intro b r0
      split
      · exact FS.refl b
      · split
        · exact FS.refl b
        · split
          · split
            · rename_i a ha; exact hardForkToLatest_fs ha
            · exact FS.refl b
          · exact FS.refl b

/-- the part of `BeginBlock` after the height / time bump -/
theorem beginBlock_fs (s : St) (dt : Nat) : FS { s with h := s.h + 1, t := s.t + dt } (beginBlock s dt) := by
  unfold beginBlock
  dsimp only
  apply FS.foldl
  intro b e
  have hb1 : FS b { b with nq := b.nq.filter (fun x => !(x.1 == e.1 && x.2 == e.2)) } := FS.of_ras_eq rfl rfl rfl rfl
  split
  · exact hb1
  · split
    · exact hb1
    · rename_i r hg
      exact hb1.trans (FS.setRa hg rfl)

theorem slashLiveness_frame {s s1 : St} {r : Rollapp} (e : slashLiveness s r = .ok s1) : Frame s s1 := by
  unfold slashLiveness at e
  split at e
  · injection e with e; subst e; exact Frame.refl s
  · split at e
    · injection e with e; subst e; exact Frame.refl s
    · split at e
      · cases e
      · rename_i s2 q2 hsl
        injection e with e; subst e
        exact (slash_frame hsl).setSeq _

theorem handleLivenessEvent_fs (s : St) (ra : Nat) : FS s (handleLivenessEvent s ra) := by
  unfold handleLivenessEvent
  split
  · exact FS.refl s
  · split
    · exact FS.refl s
    · rename_i s1 hs1
      have hf := slashLiveness_frame hs1
      split
      · exact FS.refl s
      · rename_i r1 hg1
        unfold scheduleEvent
        have hg1' : getRa s ra = some r1 := by
          unfold getRa at *; rw [← hf.ras]; exact hg1
        exact FS.setRa' (hf.trans ⟨rfl, rfl, rfl, rfl⟩) hg1' rfl

theorem checkLiveness_fs (s : St) : FS s (checkLiveness s) := by
  unfold checkLiveness
  apply FS.foldl
  intro b e
  exact handleLivenessEvent_fs b e.2

end DymVerif.Core
