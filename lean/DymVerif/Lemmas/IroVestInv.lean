/-
  Lemmas/IroVestInv — the owner's cumulative vesting claims never run ahead of `vestedBy now`
  (the amount `VestedAmt` makes available by a given time), along every run with monotone time.
-/
import DymVerif.Lemmas.IroVesting
import DymVerif.Lemmas.IroInv
namespace DymVerif.Iro
open DymVerif

/-- total released by `now` according to `VestedAmt` (claimed + claimable) -/
def vestedBy (v : Vest) (now : Int) : Int :=
  if now < v.start then 0 else if v.stop < now then v.amount
  else if v.stop = v.start then 0 else vestedTotal v now

theorem vestedBy_bounds (v : Vest) (now : Int) (ha : 0 ≤ v.amount) (hs : v.start ≤ v.stop) :
    0 ≤ vestedBy v now ∧ vestedBy v now ≤ v.amount := by
  unfold vestedBy
  split
  · omega
  · split
    · omega
    · split
      · omega
      · exact vestedTotal_bounds v now ha (by omega) (by omega) (by omega)

theorem vestedBy_mono (v : Vest) (now now' : Int) (ha : 0 ≤ v.amount) (hs : v.start ≤ v.stop) (h : now ≤ now') :
    vestedBy v now ≤ vestedBy v now' := by
  have hb := vestedBy_bounds v now' ha hs
  have hb0 := vestedBy_bounds v now ha hs
  by_cases c1 : now < v.start
  · have : vestedBy v now = 0 := by unfold vestedBy; rw [if_pos c1]
    rw [this]; exact hb.1
  · by_cases c2 : v.stop < now'
    · have : vestedBy v now' = v.amount := by unfold vestedBy; rw [if_neg (by omega), if_pos c2]
      rw [this]; exact hb0.2
    · by_cases c3 : v.stop = v.start
      · have : vestedBy v now = 0 := by unfold vestedBy; rw [if_neg c1, if_neg (by omega), if_pos c3]
        rw [this]; exact hb.1
      · have e1 : vestedBy v now = vestedTotal v now := by
          unfold vestedBy; rw [if_neg c1, if_neg (by omega), if_neg c3]
        have e2 : vestedBy v now' = vestedTotal v now' := by
          unfold vestedBy; rw [if_neg (by omega), if_neg c2, if_neg c3]
        rw [e1, e2]
        exact vestedTotal_mono v now now' ha (by omega) h (by omega)

/-- the part of a pool split never exceeds the whole: `0 ≤ trunc(x·part) ≤ x` for `0 ≤ part ≤ 1` -/
theorem poolTokens_bounds (x : Int) (lp : Dec) (hx : 0 ≤ x) (h0 : 0 ≤ lp.raw) (h1 : lp.raw ≤ decP) :
    0 ≤ ((Dec.ofInt x).mul lp).truncateInt ∧ ((Dec.ofInt x).mul lp).truncateInt ≤ x := by
  have hd := decP_pos
  simp only [Dec.truncateInt, chopTrunc, ofInt_mul_raw]
  have hn : 0 ≤ x * lp.raw := Int.mul_nonneg hx h0
  obtain ⟨b1, _⟩ := tdiv_decP_of_nonneg _ hn
  constructor
  · exact Int.tdiv_nonneg hn (Int.le_of_lt hd)
  · have : decP * (x * lp.raw).tdiv decP ≤ decP * x := by nlinarith
    exact Int.le_of_mul_le_mul_left this hd

structure VInv (st : State) : Prop where
  vest : ∀ p, st.plan = some p → p.settled = true →
      0 ≤ p.vest.amount ∧ 0 ≤ p.vest.claimed ∧ p.vest.claimed ≤ vestedBy p.vest st.now ∧ p.vest.start ≤ p.vest.stop

theorem vinv_init (cfg : Cfg) : VInv (init cfg) := ⟨by intro p hp; simp [init] at hp⟩

theorem vinv_step {I : Int → Int} {T : Int → Int → Option Int} {st : State} (op : Op)
    (hi : Inv st) (hv : VInv st) : VInv (step I T st op).1 := by
  rcases step_cases I T st op with h | ⟨hact, h⟩
  · rw [h]; exact hv
  · generalize (step I T st op).1 = st' at h
    constructor
    cases op with
    | create alloc m n c L en stt pd lp vd vs =>
      obtain ⟨_, rfl⟩ := doCreate_ok h
      intro p hp hs
      simp only [Option.some.injEq] at hp
      subst hp
      simp at hs
    | time dt =>
      simp only [exec] at h
      split at h
      · cases h
      · cases h
        intro p hp hs
        obtain ⟨h1, h2, h3, h4⟩ := hv.vest p hp hs
        exact ⟨h1, h2, Int.le_trans h3 (vestedBy_mono _ _ _ h1 h4 (by simp only []; omega)), h4⟩
    | fund a amt =>
      simp only [exec] at h
      split at h
      · cases h
      · cases h; exact hv.vest
    | buy a amt mc =>
      obtain ⟨p, tot, fee, l1, ht, _, _, _, _, _, _, rfl⟩ := doBuy_ok h
      obtain ⟨hp, hns, _⟩ := tradeable_ok ht
      intro q hq hs
      simp only [Option.some.injEq] at hq
      subst hq
      simp [hns] at hs
    | bes a sp mt =>
      obtain ⟨p, net, fee, tokens, l1, ht, _, _, _, _, _, _, _, _, rfl⟩ := doBes_ok h
      obtain ⟨hp, hns, _⟩ := tradeable_ok ht
      intro q hq hs
      simp only [Option.some.injEq] at hq
      subst hq
      simp [hns] at hs
    | sell a amt mi =>
      obtain ⟨p, net, fee, l1, ht, _, _, _, _, _, rfl⟩ := doSell_ok h
      obtain ⟨hp, hns, _⟩ := tradeable_ok ht
      intro q hq hs
      simp only [Option.some.injEq] at hq
      subst hq
      simp [hns] at hs
    | enable a =>
      obtain ⟨p, hp, _, _, hns, rfl⟩ := doEnable_ok h
      intro q hq hs
      simp only [Option.some.injEq] at hq
      subst hq
      simp [hns] at hs
    | settle rf ok =>
      rcases doSettle_ok h with ⟨hn, rfl⟩ | ⟨p, hp, hns, _, rfl⟩
      · intro q hq; simp [hn] at hq
      · intro q hq _
        simp only [Option.some.injEq] at hq
        subst hq
        obtain ⟨_, _, _, _, hpl, hc0⟩ := hi.pre p hp hns
        obtain ⟨_, _, l0, l1, hdur, _, _, _, _, _⟩ := hi.all p hp
        obtain ⟨b0, b1⟩ := poolTokens_bounds st.planLiq p.liqPart hpl l0 l1
        simp only []
        have ha : 0 ≤ st.planLiq - ((Dec.ofInt st.planLiq).mul p.liqPart).truncateInt := by omega
        refine ⟨ha, by omega, ?_, by omega⟩
        rw [hc0]
        exact (vestedBy_bounds _ _ ha (by simp only []; omega)).1
    | claim a =>
      obtain ⟨p, hp, hset, _, _, rfl⟩ := doClaim_ok h
      intro q hq _
      simp only [Option.some.injEq] at hq
      subst hq
      exact hv.vest p hp hset
    | claimv a =>
      obtain ⟨p, amt, hp, hset, _, hva, hpos, _, rfl⟩ := doClaimVested_ok h
      intro q hq _
      simp only [Option.some.injEq] at hq
      subst hq
      obtain ⟨h1, h2, h3, h4⟩ := hv.vest p hp hset
      simp only []
      refine ⟨h1, by omega, ?_, h4⟩
      unfold vestedAmt at hva
      simp only [] at hva
      unfold vestedBy
      simp only []
      split at hva
      · simp at hva; omega
      · split at hva
        · simp at hva; omega
        · rename_i hn1
          split at hva
          · rename_i hn2
            simp only [Option.some.injEq] at hva
            rw [if_neg hn1, if_pos hn2]; omega
          · rename_i hn2
            split at hva
            · cases hva
            · rename_i hn3
              simp only [Option.some.injEq] at hva
              rw [if_neg hn1, if_neg hn2, if_neg (by omega)]
              have : vestedTotal { p.vest with claimed := p.vest.claimed + amt } st.now = vestedTotal p.vest st.now := rfl
              rw [this]; omega
    | xfer a b amt =>
      obtain ⟨_, _, rfl⟩ := doXfer_ok h
      exact hv.vest
    | chown a b =>
      obtain ⟨_, _, rfl⟩ := doChown_ok h
      exact hv.vest

theorem inv_vinv_run {I : Int → Int} {T : Int → Int → Option Int} (ops : List Op) :
    ∀ st, Inv st → VInv st → Inv (run I T st ops) ∧ VInv (run I T st ops) := by
  induction ops with
  | nil => intro st h1 h2; exact ⟨h1, h2⟩
  | cons o ops ih => intro st h1 h2; exact ih _ (inv_step o h1) (vinv_step o h1 h2)

end DymVerif.Iro
