/-
  Lemmas/IncentBlocks — what can be proved about the streamer / incentives block functions of M-Incent
  never failing (feeds property C11, "block processing never fails"), after fixes D1, D2 (D3 not applied):
    * `incDistribute_ok`   x/incentives `Keeper.Distribute` succeeds when no recipient is a blocked address
                            and every rollapp gauge's rollapp exists;
    * `streamer_endBlock_ok`  the streamer EndBlock succeeds in every state satisfying the invariant
                            (stream bound, gauge invariant, streamer solvency) with no blocked recipients;
    * `streamer_endBlock_ok_reachable`  … hence after every admissible history;
    * `incentives_epochEnd_ok`  the incentives epoch hook does not fail under the same conditions;
    * `endblock_blocked_owner_counterexample`  F4: a rollapp owner that is a blocked module account makes
                            the streamer EndBlock return an error (the block fails).
  The streamer epoch hooks (`AfterEpochEnd`, `BeforeEpochStart`) can additionally fail on inconsistent
  reference-list keys; their failure is swallowed by the epochs module and does not fail the block — no
  theorem about them here.
-/
import DymVerif.Lemmas.IncentBound
namespace DymVerif.Incent
open DymVerif Coins

/-- no lock owner and no rollapp owner is an address the bank refuses to credit -/
def NoBlocked (s : State) : Prop :=
  (∀ l ∈ s.locks, blocked l.owner = false) ∧ (∀ ra ∈ s.rollapps, blocked ra.owner = false)

/-- every rollapp gauge refers to a registered rollapp -/
def RollOK (s : State) : Prop :=
  ∀ k ∈ s.gauges.map (·.kind), ∀ r, k = .rollapp r → ∃ ra, s.rollapps[r]? = some ra ∧ ra.exists_ = true

theorem calcGauge_ok (s : State) (g : Gauge) (tr : Tracker) (hb : ∀ i, amt g.distributed i ≤ amt g.coins i)
    (hr : ∀ r, g.kind = .rollapp r → ∃ ra, s.rollapps[r]? = some ra ∧ ra.exists_ = true) :
    ∃ tr' c, calcGauge s g tr = .ok tr' c := by
  have hsub : ∃ rem, Coins.sub? g.coins g.distributed = some rem := by
    unfold Coins.sub?
    rw [if_pos ((le_iff _ _).2 hb)]
    exact ⟨_, rfl⟩
  obtain ⟨rem, hrem⟩ := hsub
  unfold calcGauge
  cases hk : g.kind with
  | asset d dur =>
    simp only
    have hsome : ∃ p, calcAsset g (gaugeLocks s g) tr = some p := by
      unfold calcAsset
      rw [hrem]
      simp only
      repeat' split
      all_goals exact ⟨_, rfl⟩
    obtain ⟨⟨t2, c⟩, hp⟩ := hsome
    rw [hp]
    exact ⟨_, _, rfl⟩
  | rollapp r =>
    simp only
    obtain ⟨ra, h1, h2⟩ := hr r hk
    unfold calcRollapp
    rw [h1]
    simp only [h2, Bool.not_true, Bool.false_eq_true, if_false, hrem]
    repeat' split
    all_goals exact ⟨_, _, rfl⟩

theorem incLoop_ok (ee : Bool) : ∀ (gs : List Gauge) (s : State) (tr : Tracker),
    IdsOK s.gauges → Bounded s.gauges → (gs.map (·.id)).Nodup → (∀ g ∈ gs, Coh s.gauges g) →
    (∀ g ∈ gs, ∀ r, g.kind = .rollapp r → ∃ ra, s.rollapps[r]? = some ra ∧ ra.exists_ = true) →
    ∃ res, incLoop ee gs s tr = .ok res := by
  intro gs
  induction gs with
  | nil => intro s tr _ _ _ _ _; exact ⟨_, rfl⟩
  | cons g rest ih =>
    intro s tr hid hb hnd hcoh hroll
    have hnd0 : (g.id :: rest.map (·.id)).Nodup := hnd
    have hnd' : (rest.map (·.id)).Nodup := (List.nodup_cons.1 hnd0).2
    have hgnot : ∀ x ∈ rest, x.id ≠ g.id := by
      intro x hx he
      exact (List.nodup_cons.1 hnd0).1 (by rw [← he]; exact List.mem_map_of_mem (f := (·.id)) hx)
    obtain ⟨g0, hg0, hd, hkind, hcoins⟩ := hcoh g List.mem_cons_self
    obtain ⟨hid1, hk, hget, hg0id, hg0mem⟩ := getG_some hid hg0
    have hbg : ∀ i, amt g.distributed i ≤ amt g.coins i := by
      intro i; rw [hd]; exact Nat.le_trans (hb g0 hg0mem i) (hcoins i)
    obtain ⟨t2, c, hc⟩ := calcGauge_ok s g tr hbg (hroll g List.mem_cons_self)
    obtain ⟨c1, _, _⟩ := calcGauge_spec s g tr t2 c hc
    unfold incLoop
    rw [hc]
    simp only
    by_cases hz : c.isZero = true
    · rw [if_pos hz]
      exact ih s t2 hid hb hnd' (fun x hx => hcoh x (List.mem_cons_of_mem _ hx)) (fun x hx => hroll x (List.mem_cons_of_mem _ hx))
    · rw [if_neg hz]
      have hbound : ∀ i, amt (Coins.add g.distributed c) i ≤ amt g.coins i := by
        intro i
        rw [amt_add]
        rcases c1 i with h1 | h1
        · omega
        · have := hbg i; omega
      have hs1 : setGauge s { g with filled := if ee then g.filled + 1 else g.filled, distributed := Coins.add g.distributed c }
          = { s with gauges := s.gauges.set (g.id - 1) { g with filled := if ee then g.filled + 1 else g.filled, distributed := Coins.add g.distributed c } } := rfl
      apply ih
      · rw [hs1]; exact idsOK_set hid _ _ (by show g.id = g.id - 1 + 1; omega)
      · rw [hs1]; exact bounded_set hb _ _ hbound
      · exact hnd'
      · intro x hx
        obtain ⟨x0, hx0, r⟩ := hcoh x (List.mem_cons_of_mem _ hx)
        refine ⟨x0, ?_, r⟩
        rw [hs1]; simp only
        rw [getG_set_ne _ _ _ _ (by have := hgnot x hx; omega)]
        exact hx0
      · intro x hx; rw [hs1]; exact hroll x (List.mem_cons_of_mem _ hx)

theorem payAll_ok : ∀ (tr : Tracker) (b : Bank), (∀ a ∈ tr.map (·.1), blocked a = false) →
    (∀ i, trSum tr i ≤ amt (b.get incAddr) i) → ∃ b', payAll tr b = some b' := by
  intro tr
  induction tr with
  | nil => intro b _ _; exact ⟨b, rfl⟩
  | cons p rest ih =>
    intro b hbl hsum
    obtain ⟨o, c⟩ := p
    unfold payAll
    have hbo : blocked o = false := hbl o (by simp)
    rw [hbo]
    simp only [Bool.false_eq_true, if_false]
    have hne : incAddr ≠ o := by
      intro he
      have : blocked incAddr = true := by decide
      rw [he] at this; rw [this] at hbo; simp at hbo
    have hle : Coins.le c (b.get incAddr) = true := by
      apply (le_iff _ _).2
      intro i
      have := hsum i
      simp only [trSum, List.map_cons, List.sum_cons] at this
      omega
    cases hs : b.send incAddr o c with
    | none =>
      unfold Bank.send at hs
      rw [if_pos hle] at hs
      simp at hs
    | some b1 =>
      simp only
      obtain ⟨_, s2⟩ := Bank.send_some hs hne
      apply ih
      · intro a ha; exact hbl a (by simp only [List.map_cons, List.mem_cons]; exact Or.inr ha)
      · intro i
        have h2 := s2 incAddr i
        simp only [if_true] at h2
        have := hsum i
        simp only [trSum, List.map_cons, List.sum_cons] at this
        rw [h2]
        unfold trSum
        omega

/-- every address `LegitFor` allows is a lock owner or a rollapp owner -/
theorem legit_not_blocked (s : State) (hnb : NoBlocked s) (k : GKind) (a : Nat) (h : LegitFor s.locks s.rollapps k a) : blocked a = false := by
  unfold LegitFor at h
  cases k with
  | asset d dur =>
    obtain ⟨l, hl, ho, _⟩ := h
    rw [← ho]; exact hnb.1 l hl
  | rollapp r =>
    obtain ⟨ra, hr, _, _, ho⟩ := h
    rw [← ho]; exact hnb.2 ra (List.mem_of_getElem? hr)

/-- x/incentives `Keeper.Distribute` does not fail -/
theorem incDistribute_ok (s : State) (gs : List Gauge) (ee : Bool)
    (hid : IdsOK s.gauges) (hb : Bounded s.gauges) (hnd : (gs.map (·.id)).Nodup) (hcoh : ∀ g ∈ gs, Coh s.gauges g)
    (hsol : ∀ i, owed s.gauges i + extras s.gauges gs i ≤ amt (s.bank.get incAddr) i)
    (hroll : ∀ g ∈ gs, ∀ r, g.kind = .rollapp r → ∃ ra, s.rollapps[r]? = some ra ∧ ra.exists_ = true)
    (hnb : NoBlocked s) : ∃ s', incDistribute s gs ee = .ok s' := by
  obtain ⟨⟨s1, tr⟩, hl⟩ := incLoop_ok ee gs s [] hid hb hnd hcoh hroll
  obtain ⟨_, _, r3, _, r5, r6⟩ := incLoop_spec ee gs s [] s1 tr hid hb hnd hcoh hl
  unfold incDistribute
  rw [hl]
  simp only
  have hbank : s1.bank = s.bank := by rw [r3]
  obtain ⟨b', hp⟩ := payAll_ok tr s1.bank
    (by
      intro a ha
      rcases r6 a ha with h1 | ⟨g, _, hl⟩
      · simp at h1
      · exact legit_not_blocked s hnb g.kind a hl)
    (by
      intro i
      have := r5 i
      have h0 := hsol i
      have hnil : trSum ([] : Tracker) i = 0 := by simp [trSum]
      rw [hbank]; omega)
  rw [hp]
  exact ⟨_, rfl⟩


theorem saveStreams_false_ok : ∀ (l : List Stream) (s : State), ∃ s', saveStreams false l s = .ok s' := by
  intro l
  induction l with
  | nil => intro s; exact ⟨s, rfl⟩
  | cons st rest ih =>
    intro s
    unfold saveStreams
    simp only [Bool.false_eq_true, if_false]
    exact ih _

theorem sum_insertById (f : Stream → Nat) (st : Stream) (l : List Stream) : ((insertById st l).map f).sum = f st + (l.map f).sum := by
  obtain ⟨a, b, e1, e2, _, _⟩ := insertById_spec st l
  rw [e2, e1]
  simp only [List.map_append, List.sum_append, List.map_cons, List.sum_cons, List.map_nil, List.sum_nil]
  omega

theorem sum_sortById (f : Stream → Nat) (l : List Stream) : ((sortById l).map f).sum = (l.map f).sum := by
  induction l with
  | nil => rfl
  | cons x xs ih => unfold sortById; rw [sum_insertById, ih]; simp

theorem sum_le_sum_map {α : Type} (f g : α → Nat) (l : List α) (h : ∀ x ∈ l, f x ≤ g x) : (l.map f).sum ≤ (l.map g).sum := by
  induction l with
  | nil => simp
  | cons x xs ih =>
    have := h x List.mem_cons_self
    have := ih (fun y hy => h y (List.mem_cons_of_mem _ hy))
    simp only [List.map_cons, List.sum_cons]; omega

/-- **the streamer EndBlock does not fail** in a state satisfying the invariant in which the streamer
    account covers its open streams, every rollapp gauge's rollapp exists and no recipient is blocked -/
theorem streamer_endBlock_ok (s : State) (hi : Inv s) (hsolv : Solv s) (hroll : RollOK s) (hnb : NoBlocked s) :
    ∃ s', streamerEndBlock s = .ok s' := by
  unfold streamerEndBlock strDistribute
  have hin0 := activeStreams_good s hi.struct
  have hin := sortById_good s (activeStreams s) hin0
  have hstc : ∀ st ∈ activeStreams s, StrictInc (st.recs.map (·.gauge)) ∧ st.id < maxU64 := by
    intro st hm
    have hmem := mem_streamsOf hm
    exact ⟨hi.stat.recs st hmem, by have := id_le_length hi.struct.sid hmem; have := hi.len; omega⟩
  have hgc0 : GoodCache ⟨sortById (activeStreams s), [], []⟩ := by
    refine ⟨hin.1, sorted_sortById _, ?_, ?_⟩
    · intro st hm; exact (hstc st ((mem_sortById _ st).1 hm)).1
    · intro st hm; exact (hstc st ((mem_sortById _ st).1 hm)).2
  have hci := ptrLoop_CI s hi.ginv.ids s.maxIter (sortByDuration [0, 1, 2]) 0 ⟨sortById (activeStreams s), [], []⟩ s.ptrs
    ⟨by simp, by simp, by intro i; simp [extras]⟩
  have hsci := ptrLoop_SCI2 s s.streams ((sortById (activeStreams s)).map (·.id)) s.maxIter (sortByDuration [0, 1, 2]) 0 ⟨sortById (activeStreams s), [], []⟩ s.ptrs
    ⟨⟨hin.1, fun st hst => ⟨st, (hin.2 st hst).1, rfl, fun _ => Nat.le_refl _⟩, by
        intro i
        unfold sExtras
        apply sum_zero_of_all_zero
        intro x hx
        obtain ⟨st, hst, he⟩ := List.mem_map.1 hx
        rw [← he]; unfold sExtra storedDist; rw [(hin.2 st hst).1]; simp⟩, rfl⟩
  have hwin := ptrLoop_window s s.maxIter (sortByDuration [0, 1, 2]) 0 ⟨sortById (activeStreams s), [], []⟩ s.ptrs hgc0
  generalize ptrLoop s s.maxIter (sortByDuration [0, 1, 2]) 0 ⟨sortById (activeStreams s), [], []⟩ s.ptrs = res at hci hsci hwin ⊢
  obtain ⟨tot, c, ps⟩ := res
  dsimp only at hci hsci hwin ⊢
  obtain ⟨ci1, ci2, ci3⟩ := hci
  obtain ⟨⟨sc1, sc2, sc3⟩, sc4⟩ := hsci
  obtain ⟨wg, wq⟩ := hwin
  have hne : streamerAddr ≠ incAddr := by decide
  -- what is about to be transferred is covered by the streamer account
  have hcover : ∀ i, amt c.distributed i ≤ amt (s.bank.get streamerAddr) i := by
    intro i
    rw [← sc3 i]
    unfold sExtras
    have h1 : (c.streams.map (sExtra s.streams · i)).sum ≤ (c.streams.map (fun v => termS s.streams v.id i)).sum := by
      apply sum_le_sum_map
      intro v hv
      obtain ⟨k, hk, hkv⟩ := List.getElem_of_mem hv
      have hk0 : k < (sortById (activeStreams s)).length := by rw [← wg.1]; exact hk
      have hq := wq k hk0 i
      have hslot0 : slot ⟨sortById (activeStreams s), [], []⟩ k = (sortById (activeStreams s))[k] := slot_eq ⟨sortById (activeStreams s), [], []⟩ k hk0
      have hslot : slot c k = v := by rw [slot_eq c k hk]; exact hkv
      have hmem0 : (sortById (activeStreams s))[k] ∈ sortById (activeStreams s) := List.getElem_mem hk0
      obtain ⟨hget0, hact0⟩ := hin.2 _ hmem0
      have hstat := slot_static wg k hk0
      rw [hslot, hslot0] at hstat
      have hidv : v.id = ((sortById (activeStreams s))[k]).id := by rw [hstat]
      have hsb := hi.sb _ (mem_of_getS hget0) i
      unfold SBst at hsb; rw [if_pos hact0] at hsb
      unfold Qv distAt at hq
      rw [hslot, hslot0] at hq
      unfold sExtra storedDist termS
      rw [hidv, hget0]
      simp only
      unfold ptrOfEpoch at hsb
      omega
    have h2 : (c.streams.map (fun v => termS s.streams v.id i)).sum = ((activeStreams s).map (fun v => termS s.streams v.id i)).sum := by
      have e1 : c.streams.map (fun v => termS s.streams v.id i) = (c.streams.map (·.id)).map (termS s.streams · i) := by
        simp [List.map_map, Function.comp_def]
      have e2 : (sortById (activeStreams s)).map (fun v => termS s.streams v.id i) = ((sortById (activeStreams s)).map (·.id)).map (termS s.streams · i) := by
        simp [List.map_map, Function.comp_def]
      rw [e1, sc4, ← e2, sum_sortById]
    have h3 : ((activeStreams s).map (fun v => termS s.streams v.id i)).sum = (s.active.ids.map (termS s.streams · i)).sum := by
      have e1 : (activeStreams s).map (fun v => termS s.streams v.id i) = ((activeStreams s).map (·.id)).map (termS s.streams · i) := by
        simp [List.map_map, Function.comp_def]
      rw [e1, activeStreams_ids s hi.struct]
    have h4 : (s.active.ids.map (termS s.streams · i)).sum ≤ owedL s i := by
      unfold owedL openIds
      simp only [List.map_append, List.sum_append]
      omega
    have := hsolv i
    omega
  -- the bank step
  have hbank : ∃ b, (if c.distributed.isZero = true then some s.bank else s.bank.send streamerAddr incAddr c.distributed) = some b ∧
      ∀ i, amt (b.get incAddr) i = amt (s.bank.get incAddr) i + amt c.distributed i := by
    by_cases hz : c.distributed.isZero = true
    · rw [if_pos hz]
      exact ⟨s.bank, rfl, fun i => by have := (isZero_iff _).1 hz i; omega⟩
    · rw [if_neg hz]
      cases hsend : s.bank.send streamerAddr incAddr c.distributed with
      | none =>
        unfold Bank.send at hsend
        rw [if_pos ((le_iff _ _).2 hcover)] at hsend
        simp at hsend
      | some b =>
        obtain ⟨_, sb⟩ := Bank.send_some hsend hne
        refine ⟨b, rfl, fun i => ?_⟩
        have := sb incAddr i
        rw [if_neg (fun x => hne x.symm), if_pos rfl] at this
        exact this
  obtain ⟨b, hb0, hb1⟩ := hbank
  rw [hb0]
  simp only
  -- the incentives side
  have hrollc : ∀ g ∈ c.gauges, ∀ r, g.kind = .rollapp r → ∃ ra, s.rollapps[r]? = some ra ∧ ra.exists_ = true := by
    intro g hg r hk
    obtain ⟨g0, a1, _, a3, _⟩ := ci2 g hg
    obtain ⟨_, _, _, _, hmem⟩ := getG_some hi.ginv.ids a1
    exact hroll g0.kind (List.mem_map_of_mem (f := (·.kind)) hmem) r (by rw [← a3]; exact hk)
  obtain ⟨s2, hinc⟩ := incDistribute_ok { s with ptrs := ps, bank := b } c.gauges false hi.ginv.ids hi.ginv.bounded ci1 ci2
    (by intro i; simp only; rw [ci3 i, hb1 i]; have := hi.ginv.solvent i; omega) hrollc hnb
  rw [hinc]
  simp only
  exact saveStreams_false_ok _ _


/-! ### along every admissible history -/

theorem setRollapp_get (l : List Rollapp) (r : Nat) (x : Rollapp) (r' : Nat) (ra : Rollapp) (h : l[r']? = some ra) (hra : ra.exists_ = true)
    (hx : x.exists_ = true) : ∃ ra', (setRollapp l r x)[r']? = some ra' ∧ ra'.exists_ = true := by
  obtain ⟨hlt, hget⟩ := List.getElem?_eq_some_iff.1 h
  unfold setRollapp
  by_cases hr : r < l.length
  · rw [if_pos hr]
    by_cases he : r = r'
    · subst he; exact ⟨x, by simp [hr], hx⟩
    · rw [List.getElem?_set_ne he]; exact ⟨ra, h, hra⟩
  · rw [if_neg hr]
    refine ⟨ra, ?_, hra⟩
    rw [List.append_assoc, List.getElem?_append_left hlt]; exact h

theorem RollOK_of_pay {s s' : State} (h : RollOK s) (hp : Pay s s') : RollOK s' := by
  intro k hk r hkr
  rw [hp.kinds] at hk
  rw [hp.rollapps]
  exact h k hk r hkr

theorem RollOK_of_same {s s' : State} (h : RollOK s) (hp : Same s s') : RollOK s' := RollOK_of_pay h hp.pay

theorem createGauge_rollok (s : State) (h : RollOK s) (o : Nat) (p : Bool) (d du : Nat) (hsup : Bool) (c : Coins) (st n : Nat) :
    RollOK (createGauge s o p d du hsup c st n).2 := by
  unfold createGauge
  repeat' (first | split | dsimp only)
  all_goals first | exact h | skip
  intro k hk r' hkr
  simp only [List.map_append, List.map_cons, List.map_nil, List.mem_append, List.mem_singleton] at hk
  rcases hk with h1 | h1
  · exact h k h1 r' hkr
  · rw [h1] at hkr; injection hkr

theorem poolGaugesLoop_rollok (denom : Nat) (hsup : Bool) : ∀ (ds : List Nat) (s : State), RollOK s → RollOK (poolGaugesLoop denom hsup ds s).2 := by
  intro ds
  induction ds with
  | nil => intro s h; exact h
  | cons d rest ih =>
    intro s h
    unfold poolGaugesLoop
    have h1 := createGauge_rollok s h streamerAddr true denom d hsup [] s.now 1
    generalize createGauge s streamerAddr true denom d hsup [] s.now 1 = res at h1
    obtain ⟨o, s'⟩ := res
    cases o <;> first | exact ih s' h1 | exact h1

theorem step_rollok (s : State) (op : Op) (hg : GInv s) (h : RollOK s) : RollOK (step s op).2 := by
  unfold step
  split
  · exact h
  · cases op with
    | begin dt => exact RollOK_of_pay h (beginBlock_spec s dt hg).2
    | end_ =>
      simp only
      cases he : streamerEndBlock s with
      | ok s' => exact RollOK_of_pay h (strDistribute_spec _ _ _ _ _ _ hg he).2
      | error e => exact RollOK_of_same (s' := { s with halted := true }) h ⟨rfl, rfl, rfl, rfl⟩
    | setMaxIter n => exact RollOK_of_same (s' := { s with maxIter := n }) h ⟨rfl, rfl, rfl, rfl⟩
    | fund a c => intro k hk r hkr; exact h k hk r hkr
    | locks ls => intro k hk r hkr; exact h k hk r hkr
    | rollapp r o l =>
      intro k hk r' hkr
      obtain ⟨ra, h1, h2⟩ := h k hk r' hkr
      exact setRollapp_get s.rollapps r ⟨true, o, l⟩ r' ra h1 h2 rfl
    | rollappGauge r =>
      simp only
      unfold createRollappGauge
      cases hr : s.rollapps[r]? with
      | none => exact h
      | some ra =>
        simp only
        by_cases he : ra.exists_ = true
        · simp only [he, Bool.not_true, Bool.false_eq_true, if_false]
          intro k hk r' hkr
          simp only [List.map_append, List.map_cons, List.map_nil, List.mem_append, List.mem_singleton] at hk
          rcases hk with h1 | h1
          · exact h k h1 r' hkr
          · rw [h1] at hkr
            have : r = r' := by injection hkr
            rw [← this]; exact ⟨ra, hr, he⟩
        · have he' : ra.exists_ = false := by simpa using he
          simp only [he', Bool.not_false, if_true]; exact h
    | createGauge o p d du hsup c st n => exact createGauge_rollok s h o p d du hsup c st n
    | addToGauge o gid c =>
      simp only
      unfold addToGauge
      split
      · exact h
      · cases hgg : getGauge s gid with
        | none => exact h
        | some g =>
          simp only
          split
          · exact h
          · cases hsend : s.bank.send o incAddr c with
            | none => exact h
            | some b =>
              simp only
              rw [getGauge_eq] at hgg
              obtain ⟨_, hk, hget, hgid, _⟩ := getG_some hg.ids hgg
              have hk' : g.id - 1 < s.gauges.length := by rw [hgid]; exact hk
              have hget' : s.gauges[g.id - 1] = g := by
                have : g.id - 1 = gid - 1 := by rw [hgid]
                simp only [this]; exact hget
              intro k hkk r' hkr
              have hkinds : (setGauge { s with bank := b } { g with coins := Coins.add g.coins c }).gauges.map (·.kind) = s.gauges.map (·.kind) :=
                kinds_set s.gauges (g.id - 1) { g with coins := Coins.add g.coins c } hk' (by rw [hget'])
              rw [hkinds] at hkk
              exact h k hkk r' hkr
    | createStream sp c rs st e n => exact RollOK_of_same h (createStream_same s sp c rs st e n)
    | terminateStream id => exact RollOK_of_same h (terminateStream_same s id)
    | replaceDistr id rs => exact RollOK_of_same h (replaceDistr_same s id rs)
    | updateDistr id rs => exact RollOK_of_same h (updateDistr_same s id rs)
    | distribution rs => exact RollOK_of_same (s' := { s with distr := rs }) h ⟨rfl, rfl, rfl, rfl⟩
    | poolGauges d hsup => exact poolGaugesLoop_rollok d hsup lockableDurations s h

theorem run_rollok : ∀ (ops : List Op) (s : State), GInv s → RollOK s → (∀ op ∈ ops, op.wf) → RollOK (run s ops) := by
  intro ops
  induction ops with
  | nil => intro s _ h _; exact h
  | cons op rest ih =>
    intro s hg h hw
    unfold run
    exact ih _ (step_ginv s op hg (hw op List.mem_cons_self)) (step_rollok s op hg h) (fun o ho => hw o (List.mem_cons_of_mem _ ho))

theorem init_rollok (now mi : Nat) : RollOK (init now mi) := by
  intro k hk; simp [init] at hk

/-- **after every admissible history** (no re-targeting, module accounts do not sign, fewer than 2^64-1
    streams) in whose final state no lock owner or rollapp owner is a blocked address, the streamer
    EndBlock succeeds: block processing does not fail in x/streamer -/
theorem streamer_endBlock_ok_reachable (now mi : Nat) (ops : List Op)
    (hw : ∀ op ∈ ops, op.wf ∧ op.wfS ∧ op.noRetarget)
    (hlen : (run (init now mi) ops).streams.length < maxU64) (hnb : NoBlocked (run (init now mi) ops)) :
    ∃ s', streamerEndBlock (run (init now mi) ops) = .ok s' := by
  have hi := run_inv ops _ (init_inv now mi) hw hlen
  have hsolv := run_solvent ops _ (init_ginv now mi) (init_sstruct now mi) (init_solv now mi)
    (fun op ho => ⟨(hw op ho).1, (hw op ho).2.1⟩) (SB_noOver _ hi.sb)
  have hroll := run_rollok ops _ (init_ginv now mi) (init_rollok now mi) (fun op ho => (hw op ho).1)
  exact streamer_endBlock_ok _ hi hsolv hroll hnb

/-- the `end` operation of the model therefore succeeds (does not halt the chain) under these conditions -/
theorem end_does_not_halt (now mi : Nat) (ops : List Op)
    (hw : ∀ op ∈ ops, op.wf ∧ op.wfS ∧ op.noRetarget)
    (hlen : (run (init now mi) ops).streams.length < maxU64) (hnb : NoBlocked (run (init now mi) ops))
    (hh : (run (init now mi) ops).halted = false) :
    (step (run (init now mi) ops) .end_).1 = .ok := by
  obtain ⟨s', h⟩ := streamer_endBlock_ok_reachable now mi ops hw hlen hnb
  unfold step
  rw [hh]
  simp only [Bool.false_eq_true, if_false, h]

/-- **the incentives epoch hook does not fail** (x/incentives `AfterEpochEnd`) when every rollapp gauge's
    rollapp exists and no recipient is blocked -/
theorem incentives_epochEnd_ok (s : State) (e : Nat) (hg : GInv s) (hroll : RollOK s) (hnb : NoBlocked s) :
    ∃ s', incAfterEpochEnd s e = .ok s' := by
  unfold incAfterEpochEnd
  split
  · exact ⟨s, rfl⟩
  · simp only
    generalize hf : (fun g : Gauge => if (g.status == GStatus.upcoming && decide (g.start ≤ s.now)) = true then { g with status := GStatus.active } else g) = f
    have hfp : ∀ g, (f g).id = g.id ∧ (f g).coins = g.coins ∧ (f g).distributed = g.distributed ∧ (f g).kind = g.kind := by
      intro g; rw [← hf]; simp only; split <;> exact ⟨rfl, rfl, rfl, rfl⟩
    have g1 : GInv { s with gauges := s.gauges.map f } := by
      refine ⟨?_, ?_, ?_⟩
      · intro k hk
        simp only [List.getElem_map]
        rw [(hfp _).1]; exact hg.ids k (by simpa using hk)
      · intro g hgm i
        obtain ⟨g0, hg0, he⟩ := List.mem_map.1 hgm
        rw [← he, (hfp g0).2.1, (hfp g0).2.2.1]; exact hg.bounded g0 hg0 i
      · intro i
        have : owed (s.gauges.map f) i = owed s.gauges i := by
          unfold owed
          rw [List.map_map]
          apply congrArg
          apply List.map_congr_left
          intro g _
          simp only [Function.comp, owedG, (hfp g).2.1, (hfp g).2.2.1]
        simp only; rw [this]; exact hg.solvent i
    have hsub : ∀ g ∈ List.filter (fun x => x.status == GStatus.active) (s.gauges.map f), g ∈ s.gauges.map f :=
      fun g hgm => (List.mem_filter.1 hgm).1
    obtain ⟨s2, h2⟩ := incDistribute_ok { s with gauges := s.gauges.map f } (List.filter (fun x => x.status == GStatus.active) (s.gauges.map f)) true
      g1.ids g1.bounded ((idsOK_nodup _ g1.ids).sublist ((List.filter_sublist).map _))
      (fun g hgm => ⟨g, getG_of_mem g1.ids (hsub g hgm), rfl, rfl, fun _ => Nat.le_refl _⟩)
      (by
        intro i
        have : extras (s.gauges.map f) (List.filter (fun x => x.status == GStatus.active) (s.gauges.map f)) i = 0 := by
          unfold extras
          apply sum_zero_of_all_zero
          intro x hx
          obtain ⟨g, hgm, he⟩ := List.mem_map.1 hx
          rw [← he]; exact extra_self g1.ids (hsub g hgm) i
        simp only; rw [this]; exact g1.solvent i)
      (by
        intro g hgm r hk
        obtain ⟨g0, hg0, he⟩ := List.mem_map.1 (hsub g hgm)
        exact hroll g0.kind (List.mem_map_of_mem (f := (·.kind)) hg0) r (by rw [← (hfp g0).2.2.2, he]; exact hk))
      hnb
    rw [h2]
    exact ⟨_, rfl⟩

/-- F4: the owner of a launched rollapp with a gauge is a blocked module account (address 102); a stream
    feeds the gauge; the payout to the owner fails and the streamer EndBlock returns an error — the
    block fails.  (`MsgTransferOwnership` accepted such an owner before fix F4.) -/
def blockedOwnerHistory : List Op :=
  [.begin 1, .end_, .rollapp 0 2 true, .rollappGauge 0, .fund streamerAddr [9000],
   .createStream false [9000] [⟨1, 1⟩] 101 1 3, .rollapp 0 102 true, .begin 3601, .end_, .begin 7201]

theorem endblock_blocked_owner_counterexample :
    (match streamerEndBlock (run (init 100 500) blockedOwnerHistory) with | .error .err => true | _ => false) = true ∧
    (step (run (init 100 500) blockedOwnerHistory) .end_).2.halted = true ∧
    (∀ op ∈ blockedOwnerHistory, op.wf ∧ op.wfS ∧ op.noRetarget) ∧
    ¬ NoBlocked (run (init 100 500) blockedOwnerHistory) := by
  refine ⟨by decide, by decide, by decide, ?_⟩
  intro h
  have := h.2 ⟨true, 102, true⟩ (by decide)
  revert this; decide

end DymVerif.Incent
