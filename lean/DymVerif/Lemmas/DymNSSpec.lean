/-
  Lemmas/DymNSSpec — total ("T") versions of the model's building blocks and specification lemmas:
  success of the monadic block gives the guard facts and the result state as an explicit term.
-/
import DymVerif.Lemmas.DymNSBasic
namespace DymVerif.DymNS
open AMap

/-- split a hypothesis `f … = .ok s'` about a `do` block into its success path(s) -/
syntax "mcases " ident : tactic
macro_rules
  | `(tactic| mcases $h:ident) => `(tactic|
      (simp only [bind, Except.bind, chk, pure, Except.pure] at $h:ident
       repeat' split at $h:ident
       all_goals (first | (cases $h:ident; done) | skip)))

theorem chk_eq_ok (c : Bool) (e : Err) (v : Unit) : (chk c e = Except.ok v) = (c = true) := by
  unfold chk; cases c <;> simp

theorem soBasic_eq_ok (mn sl : Nat) (v : Unit) : (soBasic mn sl = Except.ok v) = (mn ≠ 0 ∧ (sl = 0 ∨ mn ≤ sl)) := by
  unfold soBasic chk
  simp only [bind, Except.bind]
  by_cases h1 : mn ≠ 0 <;> by_cases h2 : (sl = 0 ∨ mn ≤ sl) <;> simp [h1, h2]

/-- split `f … = .ok s'` into its success paths and normalise the guard facts -/
syntax "mcases' " ident : tactic
macro_rules
  | `(tactic| mcases' $h:ident) => `(tactic|
      (simp only [bind, Except.bind, pure, Except.pure] at $h:ident
       repeat' split at $h:ident
       all_goals (first | (cases $h:ident; done) | skip)
       all_goals (try simp only [chk_eq_ok, soBasic_eq_ok, decide_eq_true_eq, Bool.not_eq_true', Option.isNone_iff_eq_none] at *)))

theorem chk_ok {c : Bool} {e : Err} {v : Unit} (h : (if c = true then Except.ok () else Except.error e) = Except.ok v) :
    c = true := by
  split at h
  · assumption
  · cases h

theorem del_of_get_none {κ ν : Type} [DecidableEq κ] (m : AMap κ ν) (k : κ) (h : AMap.get m k = none) :
    AMap.del m k = m := by
  induction m with
  | nil => rfl
  | cons e m ih =>
    obtain ⟨k0, v0⟩ := e
    by_cases hk : k = k0
    · subst hk; simp [AMap.get] at h
    · simp only [AMap.get, hk, if_false] at h
      simp [AMap.del, hk, ih h]

/-! ### bank -/

def toModuleT (s : State) (a : Acct) (amt : Nat) : State :=
  { s with bal := AMap.set s.bal a (balOf s a - amt), modBal := s.modBal + amt }
def fromModuleT (s : State) (a : Acct) (amt : Nat) : State :=
  { s with bal := AMap.set s.bal a (balOf s a + amt), modBal := s.modBal - amt }
def payAndBurnT (s : State) (a : Acct) (amt : Nat) : State :=
  { s with bal := AMap.set s.bal a (balOf s a - amt) }

theorem toModule_ok {s s' : State} {a amt} (h : toModule s a amt = .ok s') :
    s' = toModuleT s a amt ∧ amt ≤ balOf s a := by
  unfold toModule at h
  split at h
  · cases h
  · injection h with h; exact ⟨h.symm, by omega⟩

theorem fromModule_ok {s s' : State} {a amt} (h : fromModule s a amt = .ok s') :
    s' = fromModuleT s a amt ∧ amt ≤ s.modBal := by
  unfold fromModule at h
  split at h
  · cases h
  · injection h with h; exact ⟨h.symm, by omega⟩

theorem payAndBurn_ok {s s' : State} {a amt} (h : payAndBurn s a amt = .ok s') :
    s' = payAndBurnT s a amt ∧ amt ≤ balOf s a := by
  unfold payAndBurn at h
  split at h
  · cases h
  · injection h with h; exact ⟨h.symm, by omega⟩

/-- refund of an optional bid -/
def refundOptT (s : State) : Option Bid → State
  | none => s
  | some b => fromModuleT s b.bidder b.price

def bidAmt : Option Bid → Nat
  | none => 0
  | some b => b.price

theorem bidOf_eq (so : SellOrder) : bidOf so = bidAmt so.bid := by
  unfold bidOf bidAmt; cases so.bid <;> rfl

/-! ### name store -/

namespace NameStore

def afterOwnerT (ns : NameStore) (n : Name) : NameStore :=
  match ns.get n with
  | none => ns
  | some d => { ns with ownIdx := ns.ownIdx.add d.owner n }

def afterConfigT (ns : NameStore) (n : Name) : NameStore :=
  match ns.get n with
  | none => ns
  | some d =>
    { ns with cfgIdx := d.cfgAddrs.foldl (fun i a => i.add a n) ns.cfgIdx,
              fbIdx := d.fbAddrs.foldl (fun i a => i.add a n) ns.fbIdx }

def setAfterBothT (ns : NameStore) (n : Name) (d : DymName) : NameStore :=
  afterConfigT (afterOwnerT (ns.set n d) n) n

def setConfigChangedT (ns : NameStore) (n : Name) (d : DymName) : NameStore :=
  afterConfigT ((ns.beforeConfig n).set n d) n

theorem get_set (ns : NameStore) (n m : Name) (d : DymName) :
    (ns.set n d).get m = if m = n then some d else ns.get m := by
  simp [get, set, AMap.get_set]

theorem get_afterOwnerT (ns : NameStore) (n m : Name) : (afterOwnerT ns n).get m = ns.get m := by
  unfold afterOwnerT; split <;> rfl

theorem get_afterConfigT (ns : NameStore) (n m : Name) : (afterConfigT ns n).get m = ns.get m := by
  unfold afterConfigT; split <;> rfl

theorem get_beforeConfig (ns : NameStore) (n m : Name) : (ns.beforeConfig n).get m = ns.get m := by
  unfold beforeConfig; split <;> rfl

theorem get_beforeOwner (ns : NameStore) (n m : Name) : (ns.beforeOwner n).get m = ns.get m := by
  unfold beforeOwner; split <;> rfl

theorem get_delete (ns : NameStore) (n m : Name) : (ns.delete n).get m = if m = n then none else ns.get m := by
  have : (ns.delete n).get m = AMap.get (AMap.del ((ns.beforeOwner n).beforeConfig n).names n) m := rfl
  rw [this, AMap.get_del]
  split
  · rfl
  · exact (get_beforeConfig _ n m).trans (get_beforeOwner _ n m)

theorem setAfterBoth_ok (ns : NameStore) (n : Name) (d : DymName) :
    ns.setAfterBoth n d = .ok (ns.setAfterBothT n d) := by
  have h1 : (ns.set n d).get n = some d := by simp [get_set]
  have h2 : (afterOwnerT (ns.set n d) n).get n = some d := by rw [get_afterOwnerT, h1]
  simp only [setAfterBoth, setAfterBothT, bind, Except.bind, afterOwner, afterOwnerT, afterConfig, afterConfigT, h1]
  simp only [afterOwnerT, h1] at h2
  simp only [h2]

theorem setConfigChanged_ok (ns : NameStore) (n : Name) (d : DymName) :
    ns.setConfigChanged n d = .ok (ns.setConfigChangedT n d) := by
  have h1 : ((ns.beforeConfig n).set n d).get n = some d := by simp [get_set]
  simp only [setConfigChanged, setConfigChangedT, afterConfig, afterConfigT, h1]

end NameStore

theorem setNameAfterBoth_ok (s : State) (n : Name) (d : DymName) :
    setNameAfterBoth s n d = .ok { s with ns := s.ns.setAfterBothT n d } := by
  simp [setNameAfterBoth, NameStore.setAfterBoth_ok, bind, Except.bind, pure, Except.pure]

theorem setNameConfigChanged_ok (s : State) (n : Name) (d : DymName) :
    setNameConfigChanged s n d = .ok { s with ns := s.ns.setConfigChangedT n d } := by
  simp [setNameConfigChanged, NameStore.setConfigChanged_ok, bind, Except.bind, pure, Except.pure]

/-- the highest bid of the sell order of name `n`, if any -/
def nameBid (s : State) (n : Name) : Option Bid := (AMap.get s.nameSO n).bind (·.bid)
def aliasBid (s : State) (l : AliasId) : Option Bid := (AMap.get s.aliasSO l).bind (·.bid)

/-- `PruneDymName` as a total function -/
def pruneNameT (s : State) (n : Name) : State :=
  { refundOptT s (nameBid s n) with nameSO := AMap.del s.nameSO n, ns := s.ns.delete n }

theorem NameStore.delete_of_none (ns : NameStore) (n : Name) (h : ns.get n = none) : ns.delete n = ns := by
  unfold NameStore.delete NameStore.beforeOwner
  simp only [h]
  unfold NameStore.beforeConfig
  simp only [h]
  have : AMap.del ns.names n = ns.names := del_of_get_none _ _ h
  rw [this]

theorem pruneName_ok {s s' : State} {n : Name} (h : pruneName s n = .ok s') :
    s' = pruneNameT s n ∧ bidAmt (nameBid s n) ≤ s.modBal := by
  unfold pruneName at h
  unfold pruneNameT nameBid
  have key : ∀ (t : State), t.ns = s.ns →
      (match getName t n with
        | none => (pure t : M State)
        | some _ => pure { t with ns := t.ns.delete n }) = .ok { t with ns := s.ns.delete n } := by
    intro t ht
    cases hn : getName t n with
    | none =>
      have : s.ns.delete n = t.ns := by rw [← ht]; exact NameStore.delete_of_none _ _ hn
      simp [this, pure, Except.pure]
    | some d => simp [ht, pure, Except.pure]
  cases hso : AMap.get s.nameSO n with
  | none =>
    simp only [hso, bind, Except.bind, pure, Except.pure] at h
    have hk := key s rfl
    simp only [pure, Except.pure] at hk
    replace h := hk.symm.trans h
    injection h with h
    simp only [Option.bind, refundOptT, bidAmt, Nat.zero_le, and_true, del_of_get_none _ _ hso]
    exact h.symm
  | some so =>
    simp only [hso, bind, Except.bind, pure, Except.pure] at h
    cases hb : so.bid with
    | none =>
      simp only [hb] at h
      have hk := key { s with nameSO := AMap.del s.nameSO n } rfl
      simp only [pure, Except.pure] at hk
      replace h := hk.symm.trans h
      injection h with h
      simp only [Option.bind, hb, refundOptT, bidAmt, Nat.zero_le, and_true]
      exact h.symm
    | some b =>
      simp only [hb, refundBid] at h
      cases hf : fromModule s b.bidder b.price with
      | error e => simp [hf] at h
      | ok s1 =>
        obtain ⟨rfl, hle⟩ := fromModule_ok hf
        simp only [hf] at h
        have hk := key { fromModuleT s b.bidder b.price with nameSO := AMap.del s.nameSO n } rfl
        simp only [pure, Except.pure] at hk
        replace h := hk.symm.trans h
        injection h with h
        simp only [Option.bind, hb, refundOptT, bidAmt]
        exact ⟨h.symm, hle⟩

/-- `transferDymNameOwnership` as a total function -/
def transferOwnershipT (s : State) (n : Name) (d : DymName) (newOwner : Acct) : State :=
  let s1 := pruneNameT s n
  let d' : DymName := { owner := newOwner, controller := newOwner, expireAt := d.expireAt, configs := [], contact := 0 }
  { s1 with ns := s1.ns.setAfterBothT n d' }

theorem transferOwnership_ok {s s' : State} {n : Name} {d : DymName} {b : Acct}
    (h : transferOwnership s n d b = .ok s') :
    s' = transferOwnershipT s n d b ∧ bidAmt (nameBid s n) ≤ s.modBal := by
  unfold transferOwnership at h
  simp only [bind, Except.bind] at h
  cases hp : pruneName s n with
  | error e => simp [hp] at h
  | ok s1 =>
    obtain ⟨rfl, hle⟩ := pruneName_ok hp
    simp only [hp, setNameAfterBoth_ok] at h
    injection h with h
    exact ⟨by rw [← h]; rfl, hle⟩

/-- `CompleteDymNameSellOrder` as a total function (given the record and the winning bid) -/
def completeNameSOT (s : State) (n : Name) (d : DymName) (b : Bid) : State :=
  let s1 := fromModuleT s d.owner b.price
  let d' : DymName := { d with owner := b.bidder, controller := b.bidder, configs := [], contact := 0 }
  { s1 with nameSO := AMap.del s1.nameSO n, ns := ((s1.ns.beforeOwner n).beforeConfig n).setAfterBothT n d' }

theorem completeNameSO_ok {s s' : State} {n : Name} (h : completeNameSO s n = .ok s') :
    ∃ d so b, getName s n = some d ∧ AMap.get s.nameSO n = some so ∧ so.bid = some b ∧
      so.finished s.now = true ∧ b.price ≤ s.modBal ∧ s' = completeNameSOT s n d b := by
  unfold completeNameSO at h
  cases hd : getName s n with
  | none => simp [hd] at h
  | some d =>
    cases hso : AMap.get s.nameSO n with
    | none => simp [hd, hso] at h
    | some so =>
      cases hb : so.bid with
      | none =>
        simp only [hd, hso, hb, bind, Except.bind, chk] at h
        split at h <;> simp at h
      | some b =>
        simp only [hd, hso, hb, bind, Except.bind, chk] at h
        by_cases hfin : so.finished s.now = true
        · simp only [hfin, if_true] at h
          cases hf : fromModule s d.owner b.price with
          | error e => simp [hf] at h
          | ok s1 =>
            obtain ⟨rfl, hle⟩ := fromModule_ok hf
            simp only [hf, setNameAfterBoth_ok] at h
            injection h with h
            exact ⟨d, so, b, rfl, rfl, hb, hfin, hle, by rw [← h]; rfl⟩
        · simp [hfin] at h

/-- refund the previous bidder, take the new bid -/
def takeBidT (s : State) (old : Option Bid) (a : Acct) (offer : Nat) : State :=
  toModuleT (refundOptT s old) a offer

theorem takeBid_ok {s s' : State} {so : SellOrder} {a : Acct} {offer : Nat} (h : takeBid s so a offer = .ok s') :
    s' = takeBidT s so.bid a offer ∧ bidAmt so.bid ≤ s.modBal ∧ offer ≤ balOf (refundOptT s so.bid) a := by
  unfold takeBid at h
  cases hb : so.bid with
  | none =>
    simp only [hb, bind, Except.bind, pure, Except.pure] at h
    obtain ⟨rfl, hle⟩ := toModule_ok h
    exact ⟨rfl, Nat.zero_le _, hle⟩
  | some b =>
    simp only [hb, bind, Except.bind, refundBid] at h
    cases hf : fromModule s b.bidder b.price with
    | error e => simp [hf] at h
    | ok s1 =>
      obtain ⟨rfl, hle⟩ := fromModule_ok hf
      simp only [hf] at h
      obtain ⟨rfl, hle2⟩ := toModule_ok h
      exact ⟨rfl, hle, hle2⟩

end DymVerif.DymNS
