/-
  Lemmas/DymNSSpec — total ("T") versions of the model's building blocks and, for every block and
  message handler, a specification lemma: success of the monadic function gives the guard facts and
  the result state as an explicit term.  All invariant proofs work on these terms.
-/
import DymVerif.Lemmas.DymNSBasic
namespace DymVerif.DymNS
open AMap

/-- split a hypothesis `f … = .ok s'` about a `do` block into its success path(s) -/
syntax "mcases " ident : tactic
macro_rules
  | `(tactic| mcases $h:ident) => `(tactic|
      (simp only [bind, Except.bind, chk, pure, Except.pure] at $h:ident
       repeat' split at $h:ident
       all_goals (first | (cases $h:ident; done) | skip)))

/-! ### bank -/

def toModuleT (s : State) (a : Acct) (amt : Nat) : State :=
  { s with bal := AMap.set s.bal a (balOf s a - amt), modBal := s.modBal + amt }
def fromModuleT (s : State) (a : Acct) (amt : Nat) : State :=
  { s with bal := AMap.set s.bal a (balOf s a + amt), modBal := s.modBal - amt }
def payAndBurnT (s : State) (a : Acct) (amt : Nat) : State :=
  { s with bal := AMap.set s.bal a (balOf s a - amt) }

theorem toModule_ok {s s' : State} {a amt} (h : toModule s a amt = .ok s') :
    s' = toModuleT s a amt ∧ amt ≤ balOf s a := by
  unfold toModule at h
  split at h
  · cases h
  · injection h with h; exact ⟨h.symm, by omega⟩

theorem fromModule_ok {s s' : State} {a amt} (h : fromModule s a amt = .ok s') :
    s' = fromModuleT s a amt ∧ amt ≤ s.modBal := by
  unfold fromModule at h
  split at h
  · cases h
  · injection h with h; exact ⟨h.symm, by omega⟩

theorem payAndBurn_ok {s s' : State} {a amt} (h : payAndBurn s a amt = .ok s') :
    s' = payAndBurnT s a amt ∧ amt ≤ balOf s a := by
  unfold payAndBurn at h
  split at h
  · cases h
  · injection h with h; exact ⟨h.symm, by omega⟩

/-- refund of an optional bid -/
def refundOptT (s : State) : Option Bid → State
  | none => s
  | some b => fromModuleT s b.bidder b.price

def bidAmt : Option Bid → Nat
  | none => 0
  | some b => b.price

/-! ### names -/

def afterOwnerT (s : State) (n : Name) : State :=
  match getName s n with
  | none => s
  | some d => { s with ownIdx := s.ownIdx.add d.owner n }

def afterConfigT (s : State) (n : Name) : State :=
  match getName s n with
  | none => s
  | some d =>
    { s with cfgIdx := d.cfgAddrs.foldl (fun i a => i.add a n) s.cfgIdx,
             fbIdx := d.fbAddrs.foldl (fun i a => i.add a n) s.fbIdx }

def setNameAfterBothT (s : State) (n : Name) (d : DymName) : State :=
  afterConfigT (afterOwnerT (setName s n d) n) n

theorem getName_setName (s : State) (n m : Name) (d : DymName) :
    getName (setName s n d) m = if m = n then some d else getName s m := by
  simp [getName, setName, AMap.get_set]

theorem getName_afterOwnerT (s : State) (n m : Name) : getName (afterOwnerT s n) m = getName s m := by
  unfold afterOwnerT; split <;> rfl

theorem setNameAfterBoth_ok (s : State) (n : Name) (d : DymName) :
    setNameAfterBoth s n d = .ok (setNameAfterBothT s n d) := by
  have h1 : getName (setName s n d) n = some d := by simp [getName_setName]
  have h2 : getName (afterOwnerT (setName s n d) n) n = some d := by rw [getName_afterOwnerT, h1]
  simp only [setNameAfterBoth, setNameAfterBothT, bind, Except.bind, afterOwner, afterOwnerT, afterConfig, afterConfigT, h1]
  simp only [afterOwnerT, h1] at h2
  simp only [h2]

def setNameConfigChangedT (s : State) (n : Name) (d : DymName) : State :=
  afterConfigT (setName (beforeConfig s n) n d) n

theorem getName_beforeConfig (s : State) (n m : Name) : getName (beforeConfig s n) m = getName s m := by
  unfold beforeConfig; split <;> rfl

theorem getName_beforeOwner (s : State) (n m : Name) : getName (beforeOwner s n) m = getName s m := by
  unfold beforeOwner; split <;> rfl

theorem setNameConfigChanged_ok (s : State) (n : Name) (d : DymName) :
    setNameConfigChanged s n d = .ok (setNameConfigChangedT s n d) := by
  have h1 : getName (setName (beforeConfig s n) n d) n = some d := by simp [getName_setName]
  simp only [setNameConfigChanged, setNameConfigChangedT, bind, Except.bind, afterConfig, afterConfigT, h1]

/-- `PruneDymName` as a total function -/
def pruneNameT (s : State) (n : Name) : State :=
  let s1 := match AMap.get s.nameSO n with
    | none => s
    | some so => { refundOptT s so.bid with nameSO := AMap.del s.nameSO n }
  match getName s n with
  | none => s1
  | some _ => deleteName s1 n

theorem pruneName_ok {s s' : State} {n : Name} (h : pruneName s n = .ok s') :
    s' = pruneNameT s n ∧ bidAmt ((AMap.get s.nameSO n).bind (·.bid)) ≤ s.modBal := by
  unfold pruneName at h
  unfold pruneNameT
  cases hso : AMap.get s.nameSO n with
  | none =>
    simp only [hso, bind, Except.bind, pure, Except.pure] at h
    simp only [Option.bind, bidAmt, Nat.zero_le, and_true]
    split at h <;> rename_i hn <;> simp only [hn] <;> injection h with h <;> exact h.symm
  | some so =>
    simp only [hso, bind, Except.bind, pure, Except.pure] at h
    cases hb : so.bid with
    | none =>
      simp only [hb, refundOptT, Option.bind, bidAmt, Nat.zero_le, and_true] at h ⊢
      have hg : ∀ (x : AMap Nat SellOrder), getName { s with nameSO := x } n = getName s n := fun _ => rfl
      split at h <;> rename_i hn <;> rw [hg] at hn <;> simp only [hn] <;> injection h with h <;> exact h.symm
    | some b =>
      simp only [hb, refundBid] at h
      cases hf : fromModule s b.bidder b.price with
      | error e => simp [hf] at h
      | ok s1 =>
        obtain ⟨rfl, hle⟩ := fromModule_ok hf
        simp only [hf] at h
        simp only [refundOptT, Option.bind, hb, bidAmt]
        refine ⟨?_, hle⟩
        have hg : ∀ (x : AMap Nat SellOrder), getName { fromModuleT s b.bidder b.price with nameSO := x } n = getName s n := fun _ => rfl
        split at h <;> rename_i hn <;> rw [hg] at hn <;> simp only [hn] <;> injection h with h <;> exact h.symm

end DymVerif.DymNS
