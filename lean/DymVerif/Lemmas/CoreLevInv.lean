/-
  Lemmas/CoreLevInv — the liveness-event invariants of M-Core for every reachable state:
  `Lev` (events ↔ records, one event per rollapp), `IdsNodup` (one record per rollapp id) and the
  timing invariant `Fut` (countdown start in the past, event in the future), through messages,
  `beginBlock` and `endBlock` (finalization + `checkLiveness`).
-/
import DymVerif.Lemmas.CoreLevWalk
import DymVerif.Lemmas.CoreLiveness
namespace DymVerif.Core.LevNs

-- ---------------------------------------------------------------- inserting a fresh rollapp

theorem mem_insertRa (x : Rollapp) (l : List Rollapp) (y : Rollapp)
    (h : y ∈ insertSorted (fun a b => decide (a.id < b.id)) x l) : y = x ∨ y ∈ l :=
  insertSorted_mem' _ _ _ _ h

theorem find_insertRa_other (x : Rollapp) (l : List Rollapp) (id : Nat) (hx : x.id ≠ id)
    (hf : ∀ y ∈ l, y.id ≠ x.id) :
    (insertSorted (fun a b => decide (a.id < b.id)) x l).find? (·.id == id) = l.find? (·.id == id) := by
  induction l with
  | nil => simp [insertSorted, hx]
  | cons a as ih =>
    have ha : a.id ≠ x.id := hf a (by simp)
    have ih' := ih (fun y hy => hf y (by simp [hy]))
    unfold insertSorted
    by_cases h1 : x.id < a.id
    · have hb : (x.id == id) = false := by simp [hx]
      simp only [h1, decide_true, if_true]
      rw [List.find?_cons, hb]
    · have h2 : a.id < x.id := Nat.lt_of_le_of_ne (Nat.le_of_not_lt h1) ha
      simp only [h1, h2, decide_false, decide_true, Bool.false_eq_true, if_false, if_true]
      rw [List.find?_cons, List.find?_cons, ih']

theorem ids_insertRa (x : Rollapp) (l : List Rollapp) (hn : (l.map (·.id)).Nodup) (hf : ∀ y ∈ l, y.id ≠ x.id) :
    ((insertSorted (fun a b => decide (a.id < b.id)) x l).map (·.id)).Nodup := by
  induction l with
  | nil => simp [insertSorted]
  | cons a as ih =>
    have hp := List.nodup_cons.1 (by simpa using hn : (a.id :: as.map (·.id)).Nodup)
    have ha : a.id ≠ x.id := hf a (by simp)
    have hxs : ∀ y ∈ as, y.id ≠ x.id := fun y hy => hf y (by simp [hy])
    unfold insertSorted
    by_cases h1 : x.id < a.id
    · simp only [h1, decide_true, if_true, List.map_cons]
      apply List.nodup_cons.2
      refine ⟨?_, by simpa using hn⟩
      intro hm
      rcases List.mem_cons.1 hm with h | h
      · exact ha h.symm
      · obtain ⟨y, hy, e⟩ := List.mem_map.1 h
        exact hxs y hy e
    · have h2 : a.id < x.id := Nat.lt_of_le_of_ne (Nat.le_of_not_lt h1) ha
      simp only [h1, h2, decide_false, decide_true, Bool.false_eq_true, if_false, if_true, List.map_cons]
      apply List.nodup_cons.2
      refine ⟨?_, ih hp.2 hxs⟩
      intro hm
      obtain ⟨y, hy, e⟩ := List.mem_map.1 hm
      rcases mem_insertRa _ _ _ hy with h | h
      · subst h; exact ha e.symm
      · exact hp.1 (List.mem_map.2 ⟨y, h, e⟩)

-- ---------------------------------------------------------------- Lev is closed

theorem lev_closed : LClosed Lev where
  of_same := fun h hs => h.of_eq hs.1 hs.2.1
  set_same := fun h hg hid he _ => h.setRa_same hg hid he
  indicate := fun h hg => h.indicate hg
  reset := fun h hg hid he => h.reset hg hid he
  create := by
    intro s id o mb h hnone
    have hfresh := getRa_none hnone
    constructor
    · intro e he
      obtain ⟨r, hr, h0⟩ := h.ev_ra e he
      refine ⟨r, ?_, h0⟩
      have hne : (newRollapp id o mb).id ≠ e.2 := by
        intro hc
        have : getRa s id = some r := by rw [show id = e.2 from hc]; exact hr
        rw [hnone] at this; cases this
      unfold getRa at hr ⊢
      show (insertSorted _ (newRollapp id o mb) s.ras).find? _ = some r
      rw [find_insertRa_other _ _ _ hne hfresh]; exact hr
    · exact h.one
    · intro r hr
      rcases mem_insertRa _ _ _ hr with h1 | h1
      · subst h1; exact Or.inl rfl
      · exact h.ra_ev r h1

-- ---------------------------------------------------------------- one record per rollapp id

def IdsNodup (s : St) : Prop := (s.ras.map (·.id)).Nodup

theorem ids_closed : LClosed IdsNodup where
  of_same := by intro s s' h hs; unfold IdsNodup; rw [hs.1]; exact h
  set_same := by intro s id r r' h _ _ _ _; unfold IdsNodup; rw [setRa_ids]; exact h
  indicate := by intro s id r h _; unfold IdsNodup; rw [indicateLiveness_ras, setRa_ids]; exact h
  reset := by
    intro s id r r' h _ _ _
    unfold IdsNodup; rw [setRa_ids]; exact h
  create := by
    intro s id o mb h hnone
    exact ids_insertRa _ _ h (getRa_none hnone)

theorem find_of_ids_nodup (l : List Rollapp) (h : (l.map (·.id)).Nodup) {r : Rollapp} (hr : r ∈ l) :
    l.find? (·.id == r.id) = some r := by
  induction l with
  | nil => cases hr
  | cons a as ih =>
    have hp := List.nodup_cons.1 (by simpa using h : (a.id :: as.map (·.id)).Nodup)
    rw [List.find?_cons]
    rcases List.mem_cons.1 hr with h1 | h1
    · subst h1; simp
    · have hne : a.id ≠ r.id := fun e => hp.1 (List.mem_map.2 ⟨r, h1, e.symm⟩)
      have : (a.id == r.id) = false := by simp [hne]
      rw [this]; exact ih hp.2 h1

theorem IdsNodup.getRa_of_mem {s : St} (h : IdsNodup s) {r : Rollapp} (hr : r ∈ s.ras) : getRa s r.id = some r :=
  find_of_ids_nodup s.ras h hr

-- ---------------------------------------------------------------- timing

/-- countdown starts lie in the past, scheduled events `d` blocks from the strict future
    (`d = 0` between blocks: strictly in the future; `d = 1` inside a block: not in the past) -/
structure Fut (d : Nat) (s : St) : Prop where
  iv : 1 ≤ s.p.lsInterval
  cd : ∀ r ∈ s.ras, r.cdStart ≤ s.h
  ev : ∀ r ∈ s.ras, r.evH = 0 ∨ s.h < r.evH + d

theorem fut_closed (d : Nat) : LClosed (Fut d) where
  of_same := by
    intro s s' h hs
    obtain ⟨e1, _, e3, e4⟩ := hs
    exact ⟨e4 ▸ h.iv, by rw [e1, e3]; exact h.cd, by rw [e1, e3]; exact h.ev⟩
  set_same := by
    intro s id r r' h hg _ he hc
    refine ⟨h.iv, ?_, ?_⟩
    · intro x hx
      rcases mem_setRa_ne hx with h1 | ⟨h1, _⟩
      · subst h1; rw [hc]; exact h.cd r (getRa_mem hg)
      · exact h.cd x h1
    · intro x hx
      rcases mem_setRa_ne hx with h1 | ⟨h1, _⟩
      · subst h1; rw [he]; exact h.ev r (getRa_mem hg)
      · exact h.ev x h1
  indicate := by
    intro s id r h _
    have hf := nextSlashHeight_future s.p.lsBlocks s.p.lsInterval s.h s.h h.iv (Nat.le_refl _)
    refine ⟨h.iv, ?_, ?_⟩
    · intro x hx
      rw [indicateLiveness_ras] at hx
      rcases mem_setRa_ne hx with h1 | ⟨h1, _⟩
      · subst h1; exact Nat.le_refl _
      · exact h.cd x h1
    · intro x hx
      rw [indicateLiveness_ras] at hx
      rcases mem_setRa_ne hx with h1 | ⟨h1, _⟩
      · subst h1; right; show s.h < nextSlashHeight _ _ _ _ + d; omega
      · exact h.ev x h1
  reset := by
    intro s id r r' h _ _ _
    refine ⟨h.iv, ?_, ?_⟩
    · intro x hx
      rcases mem_setRa_ne hx with h1 | ⟨h1, _⟩
      · subst h1; exact Nat.le_refl _
      · exact h.cd x h1
    · intro x hx
      rcases mem_setRa_ne hx with h1 | ⟨h1, _⟩
      · subst h1; exact Or.inl rfl
      · exact h.ev x h1
  create := by
    intro s id o mb h _
    refine ⟨h.iv, ?_, ?_⟩
    · intro x hx
      rcases mem_insertRa _ _ _ hx with h1 | h1
      · subst h1; exact Nat.zero_le _
      · exact h.cd x h1
    · intro x hx
      rcases mem_insertRa _ _ _ hx with h1 | h1
      · subst h1; exact Or.inl rfl
      · exact h.ev x h1

theorem Fut.weaken {s : St} (h : Fut 0 s) : Fut 1 s :=
  ⟨h.iv, h.cd, fun r hr => (h.ev r hr).imp id (fun h1 => by omega)⟩

-- ---------------------------------------------------------------- beginBlock

theorem beginBlock_lev {s : St} {dt : Nat} (h : Lev s) : Lev (beginBlock s dt) :=
  beginBlock_cl lev_closed (h.of_eq rfl rfl)

theorem beginBlock_ids {s : St} {dt : Nat} (h : IdsNodup s) : IdsNodup (beginBlock s dt) :=
  beginBlock_cl ids_closed (show IdsNodup { s with h := s.h + 1, t := s.t + dt } from h)

/-- the height bump turns "strictly in the future" into "not in the past" -/
theorem beginBlock_fut {s : St} {dt : Nat} (h : Fut 0 s) : Fut 1 (beginBlock s dt) := by
  apply beginBlock_cl (fut_closed 1)
  refine ⟨h.iv, ?_, ?_⟩
  · intro r hr; have := h.cd r hr; show r.cdStart ≤ s.h + 1; omega
  · intro r hr
    rcases h.ev r hr with h1 | h1
    · exact Or.inl h1
    · right; show s.h + 1 < r.evH + 1; omega

-- ---------------------------------------------------------------- the liveness slash

theorem tokSum_ge_mem {l : List Seq} {q : Seq} (h : q ∈ l) : q.tokens ≤ tokSum l := by
  induction l with
  | nil => cases h
  | cons a as ih =>
    have hc : tokSum (a :: as) = a.tokens + tokSum as := by simp [tokSum]
    rw [hc]
    rcases List.mem_cons.1 h with h1 | h1
    · subst h1; omega
    · have := ih h1; omega

/-- `min(bond, max(absolute minimum, ⌊multiplier · bond⌋))` -/
def livSlashAmt (p : SeqParams) (tokens : Nat) : Nat :=
  min tokens (max p.lsAbs ((p.lsMul.mulInt tokens).truncateInt).toNat)

theorem livSlashAmt_le (p : SeqParams) (tokens : Nat) : livSlashAmt p tokens ≤ tokens := Nat.min_le_left _ _

/-- a slash without reward burns exactly `amt` whenever the module account covers it -/
theorem slash_noreward {s : St} {q : Seq} {amt : Nat} (h1 : amt ≤ q.tokens) (h2 : amt ≤ s.modBal) :
    slash s q amt ⟨0⟩ none =
      .ok ({ s with modBal := s.modBal - amt, burned := s.burned + amt }, { q with tokens := q.tokens - amt }) := by
  unfold slash
  have hr : ((Dec.mulInt ⟨0⟩ (amt : Int)).truncateInt).toNat = 0 := by
    simp [Dec.mulInt, Dec.truncateInt, chopTrunc]
  dsimp only
  rw [hr]
  simp only [if_true, Nat.sub_zero]
  unfold burn
  rw [if_neg (by omega), if_neg (by omega)]

/-- exact effect of `SlashLiveness` on a real proposer, in a state where bonds are backed -/
theorem slashLiveness_spec {s : St} {r : Rollapp} {a : Addr} {q : Seq} (hc : Cust s)
    (hp : r.proposer = some a) (hq : getSeq s a = some q) :
    slashLiveness s r =
      .ok (setSeq { s with modBal := s.modBal - livSlashAmt s.sqp q.tokens, burned := s.burned + livSlashAmt s.sqp q.tokens }
            { q with tokens := q.tokens - livSlashAmt s.sqp q.tokens, dishonor := q.dishonor + s.sqp.dishonorL }) := by
  have hle := livSlashAmt_le s.sqp q.tokens
  have hmod : livSlashAmt s.sqp q.tokens ≤ s.modBal := by
    have := tokSum_ge_mem (getSeq_mem hq); rw [← hc.bal] at this; omega
  unfold slashLiveness
  rw [hp]; dsimp only
  rw [hq]; dsimp only
  have := slash_noreward (s := s) (q := q) hle hmod
  unfold livSlashAmt at this
  rw [this]
  rfl

theorem slashLiveness_ok {s : St} (hc : Cust s) (r : Rollapp) : ∃ s1, slashLiveness s r = .ok s1 := by
  cases hp : r.proposer with
  | none => exact ⟨s, by unfold slashLiveness; rw [hp]⟩
  | some a =>
    cases hq : getSeq s a with
    | none => exact ⟨s, by unfold slashLiveness; rw [hp]; dsimp only; rw [hq]⟩
    | some q => exact ⟨_, slashLiveness_spec hc hp hq⟩

-- ---------------------------------------------------------------- handleLivenessEvent

/-- the successful path of `HandleLivenessEvent`, in closed form -/
theorem handleLivenessEvent_eq {s s1 : St} {ra : Nat} {r : Rollapp} (hg : getRa s ra = some r)
    (hs : slashLiveness s r = .ok s1) :
    handleLivenessEvent s ra =
      setRa { s1 with lev := insertSorted ltPair (nextSlashHeight s1.p.lsBlocks s1.p.lsInterval s1.h r.cdStart, r.id)
                                (delEvent s1.lev s1.h ra) }
            { r with evH := nextSlashHeight s1.p.lsBlocks s1.p.lsInterval s1.h r.cdStart } := by
  have hg1 : getRa s1 ra = some r := by rw [getRa_congr (slashLiveness_same hs).1]; exact hg
  unfold handleLivenessEvent
  rw [hg]; dsimp only
  rw [hs]; dsimp only
  rw [hg1]; rfl

theorem handleLivenessEvent_err {s : St} {ra : Nat} {r : Rollapp} {e : Err} (hg : getRa s ra = some r)
    (hs : slashLiveness s r = .error e) : handleLivenessEvent s ra = s := by
  unfold handleLivenessEvent
  rw [hg]; dsimp only
  rw [hs]

theorem handleLivenessEvent_none {s : St} {ra : Nat} (hg : getRa s ra = none) : handleLivenessEvent s ra = s := by
  unfold handleLivenessEvent
  rw [hg]

theorem handleLivenessEvent_h (s : St) (ra : Nat) : (handleLivenessEvent s ra).h = s.h := by
  cases hg : getRa s ra with
  | none => rw [handleLivenessEvent_none hg]
  | some r =>
    cases hs : slashLiveness s r with
    | error e => rw [handleLivenessEvent_err hg hs]
    | ok s1 => rw [handleLivenessEvent_eq hg hs]; exact (slashLiveness_same hs).2.2.1

theorem handleLivenessEvent_p (s : St) (ra : Nat) : (handleLivenessEvent s ra).p = s.p := by
  cases hg : getRa s ra with
  | none => rw [handleLivenessEvent_none hg]
  | some r =>
    cases hs : slashLiveness s r with
    | error e => rw [handleLivenessEvent_err hg hs]
    | ok s1 => rw [handleLivenessEvent_eq hg hs]; exact (slashLiveness_same hs).peq

theorem handleLivenessEvent_sqp (s : St) (ra : Nat) : (handleLivenessEvent s ra).sqp = s.sqp := by
  cases hg : getRa s ra with
  | none => rw [handleLivenessEvent_none hg]
  | some r =>
    cases hs : slashLiveness s r with
    | error e => rw [handleLivenessEvent_err hg hs]
    | ok s1 =>
      rw [handleLivenessEvent_eq hg hs]
      show s1.sqp = s.sqp
      exact slashLiveness_sqp hs

/-- events of other rollapps stay queued -/
theorem handleLivenessEvent_lev_other {s : St} {ra : Nat} {e : Nat × Nat} (he : e ∈ s.lev) (hne : e.2 ≠ ra) :
    e ∈ (handleLivenessEvent s ra).lev := by
  cases hg : getRa s ra with
  | none => rw [handleLivenessEvent_none hg]; exact he
  | some r =>
    cases hs : slashLiveness s r with
    | error e => rw [handleLivenessEvent_err hg hs]; exact he
    | ok s1 =>
      rw [handleLivenessEvent_eq hg hs, setRa_lev]
      apply mem_insertSorted_of_mem
      rw [(slashLiveness_same hs).2.1]
      exact mem_delEvent.2 ⟨he, fun hc => hne hc.2⟩

/-- records of other rollapps are untouched -/
theorem handleLivenessEvent_getRa_other {s : St} {ra id : Nat} (hne : ra ≠ id) :
    getRa (handleLivenessEvent s ra) id = getRa s id := by
  cases hg : getRa s ra with
  | none => rw [handleLivenessEvent_none hg]
  | some r =>
    cases hs : slashLiveness s r with
    | error e => rw [handleLivenessEvent_err hg hs]
    | ok s1 =>
      rw [handleLivenessEvent_eq hg hs]
      rw [getRa_setRa_other (show ({ r with evH := _ } : Rollapp).id ≠ id from by rw [getRa_id hg]; exact hne)]
      exact getRa_congr (slashLiveness_same hs).1 id

theorem handleLivenessEvent_lev {s : St} {ra : Nat} (h : Lev s) (hm : (s.h, ra) ∈ s.lev) :
    Lev (handleLivenessEvent s ra) := by
  obtain ⟨r, hg, hev⟩ := h.ev_ra _ hm
  have hg : getRa s ra = some r := hg
  have hev : r.evH = s.h := hev
  cases hs : slashLiveness s r with
  | error e => rw [handleLivenessEvent_err hg hs]; exact h
  | ok s1 =>
    have hsame := slashLiveness_same hs
    have h1 : Lev s1 := h.of_eq hsame.1 hsame.2.1
    have hg1 : getRa s1 ra = some r := by rw [getRa_congr hsame.1]; exact hg
    rw [handleLivenessEvent_eq hg hs]
    refine Lev.sched_gen (r' := { r with evH := nextSlashHeight s1.p.lsBlocks s1.p.lsInterval s1.h r.cdStart })
      h1 hg1 rfl rfl ?_
    show insertSorted ltPair (_, r.id) (delEvent s1.lev s1.h ra) = insertSorted ltPair (_, ra) (delEvent s1.lev r.evH ra)
    rw [getRa_id hg, hev, hsame.2.2.1]

-- ---------------------------------------------------------------- folding over the due events

/-- generic fold over the events due at the current height: `Lev` is carried along, a predicate
    `Q` on (state, events still to handle) is threaded through -/
theorem foldl_handle (Q : St → List (Nat × Nat) → Prop)
    (hstep : ∀ (s : St) (e : Nat × Nat) (es : List (Nat × Nat)), Lev s → e ∈ s.lev → e.1 = s.h →
      (∀ e' ∈ es, e'.2 ≠ e.2) → Q s (e :: es) → Q (handleLivenessEvent s e.2) es) :
    ∀ (l : List (Nat × Nat)) (s : St), Lev s → (∀ e ∈ l, e ∈ s.lev ∧ e.1 = s.h) → (l.map (·.2)).Nodup → Q s l →
      Lev (l.foldl (fun acc e => handleLivenessEvent acc e.2) s) ∧
      Q (l.foldl (fun acc e => handleLivenessEvent acc e.2) s) [] := by
  intro l
  induction l with
  | nil => intro s h _ _ hq; exact ⟨h, hq⟩
  | cons e es ih =>
    intro s h hl hn hq
    have hp := List.nodup_cons.1 (by simpa using hn : (e.2 :: es.map (·.2)).Nodup)
    have he := hl e (by simp)
    have hne : ∀ e' ∈ es, e'.2 ≠ e.2 := fun e' he' hc => hp.1 (List.mem_map.2 ⟨e', he', hc⟩)
    have hm : (s.h, e.2) ∈ s.lev := by rw [← he.2]; exact he.1
    rw [List.foldl_cons]
    apply ih _ (handleLivenessEvent_lev h hm)
    · intro e' he'
      have := hl e' (by simp [he'])
      exact ⟨handleLivenessEvent_lev_other this.1 (hne e' he'), by rw [handleLivenessEvent_h]; exact this.2⟩
    · exact hp.2
    · exact hstep s e es h he.1 he.2 hne hq

theorem due_events {s : St} : ∀ e ∈ s.lev.filter (fun e => e.1 == s.h), e ∈ s.lev ∧ e.1 = s.h := by
  intro e he
  obtain ⟨h1, h2⟩ := List.mem_filter.1 he
  exact ⟨h1, by simpa using h2⟩

theorem due_nodup {s : St} (h : Lev s) : ((s.lev.filter (fun e => e.1 == s.h)).map (·.2)).Nodup :=
  List.Nodup.sublist (List.Sublist.map _ List.filter_sublist) h.one

theorem checkLiveness_lev {s : St} (h : Lev s) : Lev (checkLiveness s) := by
  unfold checkLiveness
  exact (foldl_handle (fun _ _ => True) (fun _ _ _ _ _ _ _ _ => trivial) _ s h due_events (due_nodup h) trivial).1

theorem endBlock_lev {s : St} {f : List (Nat × Nat)} (h : Lev s) : Lev (endBlock s f) := by
  unfold endBlock
  exact checkLiveness_lev (finalizeRollappStates_cl lev_closed h)

theorem handleLivenessEvent_ids {s : St} {ra : Nat} (h : IdsNodup s) : IdsNodup (handleLivenessEvent s ra) := by
  cases hg : getRa s ra with
  | none => rw [handleLivenessEvent_none hg]; exact h
  | some r =>
    cases hs : slashLiveness s r with
    | error e => rw [handleLivenessEvent_err hg hs]; exact h
    | ok s1 =>
      rw [handleLivenessEvent_eq hg hs]
      unfold IdsNodup
      rw [setRa_ids]
      show (s1.ras.map (·.id)).Nodup
      rw [(slashLiveness_same hs).1]; exact h

theorem endBlock_ids {s : St} {f : List (Nat × Nat)} (h : IdsNodup s) : IdsNodup (endBlock s f) := by
  unfold endBlock checkLiveness
  apply foldl_inv IdsNodup
  · exact finalizeRollappStates_cl ids_closed h
  · intro b e hb; exact handleLivenessEvent_ids hb

-- ---------------------------------------------------------------- endBlock: events move to the strict future

/-- fold predicate: bonds backed, interval positive, every record's event is in the strict future
    or still in the list of events to handle -/
structure FutQ (s : St) (rest : List (Nat × Nat)) : Prop where
  cust : Cust s
  iv : 1 ≤ s.p.lsInterval
  cd : ∀ r ∈ s.ras, r.cdStart ≤ s.h
  ev : ∀ r ∈ s.ras, r.evH = 0 ∨ s.h < r.evH ∨ (r.evH, r.id) ∈ rest

theorem handle_futQ (s : St) (e : Nat × Nat) (es : List (Nat × Nat)) (h : Lev s) (he : e ∈ s.lev) (_h1 : e.1 = s.h)
    (_ : ∀ e' ∈ es, e'.2 ≠ e.2) (hq : FutQ s (e :: es)) : FutQ (handleLivenessEvent s e.2) es := by
  obtain ⟨r, hg, hev⟩ := h.ev_ra e he
  obtain ⟨s1, hs⟩ := slashLiveness_ok hq.cust r
  have hsame := slashLiveness_same hs
  have hcust := handleLivenessEvent_cust (ra := e.2) hq.cust
  have hcd := hq.cd r (getRa_mem hg)
  have hfut := nextSlashHeight_future s.p.lsBlocks s.p.lsInterval s.h r.cdStart hq.iv hcd
  refine ⟨hcust, by rw [handleLivenessEvent_p]; exact hq.iv, ?_, ?_⟩
  · intro x hx
    rw [handleLivenessEvent_h]
    rw [handleLivenessEvent_eq hg hs] at hx
    rcases mem_setRa_ne hx with h2 | ⟨h2, _⟩
    · subst h2; exact hcd
    · exact hq.cd x (by rw [← hsame.1]; exact h2)
  · intro x hx
    rw [handleLivenessEvent_h]
    rw [handleLivenessEvent_eq hg hs] at hx
    rcases mem_setRa_ne hx with h2 | ⟨h2, h3⟩
    · subst h2
      right; left
      show s.h < nextSlashHeight s1.p.lsBlocks s1.p.lsInterval s1.h r.cdStart
      rw [hsame.peq, hsame.2.2.1]; exact hfut
    · have hx' : x ∈ s.ras := by rw [← hsame.1]; exact h2
      have hid : x.id ≠ e.2 := by
        intro hc; apply h3; show x.id = r.id; rw [getRa_id hg]; exact hc
      rcases hq.ev x hx' with h4 | h4 | h4
      · exact Or.inl h4
      · exact Or.inr (Or.inl h4)
      · right; right
        rcases List.mem_cons.1 h4 with h5 | h5
        · exact absurd (by rw [← h5] : x.id = e.2) hid
        · exact h5

theorem checkLiveness_fut {s : St} {d : Nat} (hd : d ≤ 1) (hl : Lev s) (hc : Cust s) (h : Fut d s) :
    Fut 0 (checkLiveness s) := by
  unfold checkLiveness
  have hq0 : FutQ s (s.lev.filter (fun e => e.1 == s.h)) := by
    refine ⟨hc, h.iv, h.cd, ?_⟩
    intro r hr
    rcases h.ev r hr with h1 | h1
    · exact Or.inl h1
    · rcases Nat.lt_or_ge s.h r.evH with h2 | h2
      · exact Or.inr (Or.inl h2)
      · rcases hl.ra_ev r hr with h3 | h3
        · exact Or.inl h3
        · right; right
          have heq : r.evH = s.h := by omega
          exact List.mem_filter.2 ⟨h3, by simp [heq]⟩
  have := (foldl_handle FutQ handle_futQ _ s hl due_events (due_nodup hl) hq0).2
  refine ⟨this.iv, this.cd, ?_⟩
  intro r hr
  rcases this.ev r hr with h1 | h1 | h1
  · exact Or.inl h1
  · exact Or.inr (by omega)
  · cases h1

theorem finalizeRollappStates_seqs (s : St) (f : List (Nat × Nat)) :
    (finalizeRollappStates s f).seqs = s.seqs ∧ (finalizeRollappStates s f).modBal = s.modBal := by
  unfold finalizeRollappStates
  split
  · exact ⟨rfl, rfl⟩
  · exact finalizeAll_seqs _ _ _ _

theorem endBlock_fut {s : St} {d : Nat} {f : List (Nat × Nat)} (hd : d ≤ 1) (hl : Lev s) (hc : Cust s) (h : Fut d s) :
    Fut 0 (endBlock s f) := by
  unfold endBlock
  exact checkLiveness_fut hd (finalizeRollappStates_cl lev_closed hl)
    (hc.of_eq (finalizeRollappStates_seqs s f).1 (finalizeRollappStates_seqs s f).2)
    (finalizeRollappStates_cl (fut_closed d) h)

-- ---------------------------------------------------------------- all transitions, all runs

theorem apply_lev {s s' : St} {o : Op} (h : Lev s) (e : apply s o = .ok s') : Lev s' := by
  cases hm : o.isMsg with
  | true => exact apply_msg_cl lev_closed h e hm
  | false =>
    cases o with
    | begin_ dt => simp only [apply] at e; injection e with e; subst e; exact beginBlock_lev h
    | end_ f => simp only [apply] at e; injection e with e; subst e; exact endBlock_lev h
    | _ => cases hm

theorem apply_ids {s s' : St} {o : Op} (h : IdsNodup s) (e : apply s o = .ok s') : IdsNodup s' := by
  cases hm : o.isMsg with
  | true => exact apply_msg_cl ids_closed h e hm
  | false =>
    cases o with
    | begin_ dt => simp only [apply] at e; injection e with e; subst e; exact beginBlock_ids h
    | end_ f => simp only [apply] at e; injection e with e; subst e; exact endBlock_ids h
    | _ => cases hm

theorem step_lev {s : St} {o : Op} (h : Lev s) : Lev (step s o).1 := by
  unfold step
  split
  · rename_i s' e; exact apply_lev h e
  · exact h

theorem step_ids {s : St} {o : Op} (h : IdsNodup s) : IdsNodup (step s o).1 := by
  unfold step
  split
  · rename_i s' e; exact apply_ids h e
  · exact h

theorem init_lev (p : Params) : Lev (init p) :=
  ⟨by intro e he; simp [init] at he, by simp [init], by intro r hr; simp [init] at hr⟩

theorem run_lev (p : Params) (ops : List Op) : Lev (run p ops) := by
  unfold run
  apply foldl_inv Lev
  · exact init_lev p
  · intro b o hb; exact step_lev hb

theorem run_ids (p : Params) (ops : List Op) : IdsNodup (run p ops) := by
  unfold run
  apply foldl_inv IdsNodup
  · simp [IdsNodup, init]
  · intro b o hb; exact step_ids hb

-- ---------------------------------------------------------------- consecutive blocks

/-- block phase automaton: `some true` = a block is open (`begin_` seen, `end_` not yet),
    `some false` = between blocks, `none` = two `begin_` without an `end_` in between (the hub
    height would skip a block end) -/
def opPhase (b : Bool) : Op → Option Bool
  | .begin_ _ => if b then none else some true
  | .end_ _ => some false
  | _ => some b

def phaseStep (ph : Option Bool) (o : Op) : Option Bool := ph.bind (fun b => opPhase b o)

/-- hub blocks are consecutive: every `begin_` is followed by an `end_` before the next `begin_`
    (messages may appear anywhere; the initial state is "between blocks" at height 1) -/
def BlocksOk (ops : List Op) : Prop := (ops.foldl phaseStep (some false)).isSome = true

instance (ops : List Op) : Decidable (BlocksOk ops) := by unfold BlocksOk; infer_instance

/-- the timing invariant indexed by the phase -/
def FutPh (s : St) : Option Bool → Prop
  | some true => Fut 1 s
  | some false => Fut 0 s
  | none => True

structure LCF (s : St) (ph : Option Bool) : Prop where
  lev : Lev s
  cust : Cust s
  fut : FutPh s ph

theorem step_lcf {s : St} {ph : Option Bool} {o : Op} (h : LCF s ph) : LCF (step s o).1 (phaseStep ph o) := by
  refine ⟨step_lev h.lev, step_cust h.cust, ?_⟩
  cases ph with
  | none => exact trivial
  | some b =>
    have hf := h.fut
    cases hm : o.isMsg with
    | true =>
      have hph : phaseStep (some b) o = some b := by
        cases o <;> first | rfl | cases hm
      rw [hph]
      unfold step
      split
      · rename_i s' e
        cases b with
        | true => exact apply_msg_cl (fut_closed 1) hf e hm
        | false => exact apply_msg_cl (fut_closed 0) hf e hm
      · exact hf
    | false =>
      cases o with
      | begin_ dt =>
        cases b with
        | true => exact trivial
        | false =>
          show Fut 1 (step s (.begin_ dt)).1
          exact beginBlock_fut hf
      | end_ f =>
        show Fut 0 (endBlock s f)
        cases b with
        | true => exact endBlock_fut (Nat.le_refl 1) h.lev h.cust hf
        | false => exact endBlock_fut (Nat.zero_le 1) h.lev h.cust hf
      | _ => cases hm

theorem foldl_lcf (ops : List Op) : ∀ (s : St) (ph : Option Bool), LCF s ph →
    LCF (ops.foldl (fun s o => (step s o).1) s) (ops.foldl phaseStep ph) := by
  induction ops with
  | nil => intro s ph h; exact h
  | cons o os ih => intro s ph h; exact ih _ _ (step_lcf h)

theorem init_fut (p : Params) (hI : 1 ≤ p.lsInterval) : Fut 0 (init p) :=
  ⟨hI, by intro r hr; simp [init] at hr, by intro r hr; simp [init] at hr⟩

theorem run_lcf (p : Params) (hI : 1 ≤ p.lsInterval) (ops : List Op) :
    LCF (run p ops) (ops.foldl phaseStep (some false)) := by
  unfold run
  exact foldl_lcf ops _ _ ⟨init_lev p, ⟨List.Pairwise.nil, rfl⟩, init_fut p hI⟩

/-- with consecutive blocks, events are never in the past -/
theorem run_fut (p : Params) (hI : 1 ≤ p.lsInterval) (ops : List Op) (hb : BlocksOk ops) : Fut 1 (run p ops) := by
  have := (run_lcf p hI ops).fut
  unfold BlocksOk at hb
  cases hph : ops.foldl phaseStep (some false) with
  | none => rw [hph] at hb; cases hb
  | some b =>
    rw [hph] at this
    cases b with
    | true => exact this
    | false => exact Fut.weaken this

end DymVerif.Core.LevNs
