import DymVerif.Lemmas.SponsRun
import DymVerif.Lemmas.GenesisSpons
import DymVerif.Lemmas.GenesisLinkDa
/-
  Lemmas/GenesisLinkSpons — x/sponsorship: C18's store invariant `SponsInv` PROVED for the projection
  `toSponsState` of every M-Spons state in which power records exist only for voters (`DvpClean`, a
  conjunct of M-Spons' `Tracked`, kept by every slash-free history whose staking ops are faithful:
  `power_tracks_staking_partial`, C16).  M-Spons keeps votes and per-validator powers as association
  lists; the projection rebuilds them as KV sections from the first entry of every key.
-/
namespace DymVerif.GenesisLink
open DymVerif DymVerif.Genesis

/-- the first entries of an association list are exactly what `alookup` answers (for any injective
    re-encoding of the keys) -/
theorem mem_firstsBy_alookup {κ β κ' : Type} [DecidableEq κ] [DecidableEq κ'] (enc : κ → κ')
    (hinj : ∀ a b, enc a = enc b → a = b) :
    ∀ (l : List (κ × β)) (e : κ × β),
      e ∈ firstsBy (fun x : κ × β => enc x.1) l ↔ Spons.alookup e.1 l = some e.2
  | [], e => by
    constructor
    · intro h; cases h
    · intro h; simp [Spons.alookup] at h
  | a :: l, e => by
    simp only [firstsBy, List.mem_cons, List.mem_filter, decide_eq_true_eq, Spons.alookup]
    by_cases h : a.1 = e.1
    · rw [if_pos h]
      constructor
      · rintro (rfl | ⟨_, hne⟩)
        · rfl
        · exact absurd (by rw [h]) hne
      · intro he
        left
        injection he with he
        exact Prod.ext h.symm he.symm
    · rw [if_neg h]
      constructor
      · rintro (rfl | ⟨hm, _⟩)
        · exact absurd rfl h
        · exact (mem_firstsBy_alookup enc hinj l e).1 hm
      · intro hl
        right
        exact ⟨(mem_firstsBy_alookup enc hinj l e).2 hl, fun hc => h (hinj _ _ hc).symm⟩

theorem alookup_of_mem {κ β : Type} [DecidableEq κ] : ∀ (l : List (κ × β)) (x : κ × β), x ∈ l →
    ∃ v, Spons.alookup x.1 l = some v
  | [], _, h => by cases h
  | a :: l, x, h => by
    simp only [Spons.alookup]
    by_cases hk : a.1 = x.1
    · exact ⟨a.2, by rw [if_pos hk]⟩
    · rw [if_neg hk]
      rcases List.mem_cons.1 h with rfl | h
      · exact absurd rfl hk
      · exact alookup_of_mem l x h

/-! ### the projection -/

def voterKey (e : Nat × Spons.Vote) : Bytes := [e.1]
def dvpKey (e : (Nat × Nat) × Int) : Bytes × Bytes := ([e.1.1], [e.1.2])

/-- M-Spons' module state as C18's `SponsState` -/
def toSponsState (params : Nat) (s : Spons.State) : SponsState :=
  { params := params,
    votes := importWith lexLt voterKey (·.2) (firstsBy voterKey s.votes),
    dvp := importWith ltBB dvpKey (·.2) (firstsBy dvpKey s.dvp),
    dist := s.dist,
    endorsements := s.endorsements.map fun e => ([e.r], e.gaugeId),
    blacklist := s.blacklist.map fun a => [a] }

theorem mem_toSpons_votes (params : Nat) (s : Spons.State) (e : Bytes × Spons.Vote) :
    e ∈ (toSponsState params s).votes ↔ ∃ a v, Spons.alookup a s.votes = some v ∧ e = ([a], v) := by
  show e ∈ importWith lexLt voterKey (·.2) (firstsBy voterKey s.votes) ↔ _
  rw [mem_importWith soBytes _ _ _ (firstsBy_nodup _ s.votes)]
  have hinj : ∀ a b : Nat, ([a] : Bytes) = [b] → a = b := fun a b h => by injection h
  constructor
  · rintro ⟨x, hx, rfl⟩
    exact ⟨x.1, x.2, (mem_firstsBy_alookup (fun a : Nat => ([a] : Bytes)) hinj s.votes x).1 hx, rfl⟩
  · rintro ⟨a, v, hl, rfl⟩
    exact ⟨(a, v), (mem_firstsBy_alookup (fun a : Nat => ([a] : Bytes)) hinj s.votes (a, v)).2 hl, rfl⟩

/-- **`SponsInv` from `DvpClean`** -/
theorem sponsInv_of_clean (params : Nat) {s : Spons.State} (hc : Spons.DvpClean s) :
    SponsInv (toSponsState params s) where
  sv := sorted_importWith soBytes _ _ _ (firstsBy_nodup _ s.votes)
  sd := sorted_importWith (soPair soBytes soBytes) _ _ _ (firstsBy_nodup _ s.dvp)
  own := by
    intro e he
    have he' : e ∈ importWith ltBB dvpKey (·.2) (firstsBy dvpKey s.dvp) := he
    rw [mem_importWith (soPair soBytes soBytes) _ _ _ (firstsBy_nodup _ s.dvp)] at he'
    obtain ⟨x, hx, rfl⟩ := he'
    have hx' := firstsBy_sub _ _ _ hx
    obtain ⟨p, hp⟩ := alookup_of_mem s.dvp x hx'
    cases hv : Spons.alookup x.1.1 s.votes with
    | none =>
      have := hc x.1.1 x.1.2 hv
      rw [show ((x.1.1, x.1.2) : Nat × Nat) = x.1 from rfl, hp] at this
      cases this
    | some v =>
      exact ⟨v, (mem_toSpons_votes params s _).2 ⟨x.1.1, v, hv, rfl⟩⟩

end DymVerif.GenesisLink
