/-
  Lemmas/DymNSResolve — forward and reverse resolution against the records.
-/
import DymVerif.Lemmas.DymNSLedger
namespace DymVerif.DymNS
open AMap

theorem mem_revConfigs_of_mem {d : DymName} {c : Config} (h : c ∈ d.configs) : c ∈ d.revConfigs := by
  unfold DymName.revConfigs
  split
  · exact h
  · exact List.mem_append_left _ h

theorem mem_liveNames {s : State} {l : List Name} {n : Name} {d : DymName} (hn : n ∈ l)
    (hl : getNameLive s n = some d) : (n, d) ∈ liveNames s l := by
  unfold liveNames
  rw [List.mem_filterMap]
  exact ⟨n, hn, by simp [hl]⟩

theorem of_mem_liveNames {s : State} {l : List Name} {n : Name} {d : DymName} (h : (n, d) ∈ liveNames s l) :
    n ∈ l ∧ getNameLive s n = some d := by
  unfold liveNames at h
  rw [List.mem_filterMap] at h
  obtain ⟨m, hm, he⟩ := h
  cases hg : getNameLive s m with
  | none => simp [hg] at he
  | some d' =>
    simp only [hg, Option.map_some, Option.some.injEq, Prod.mk.injEq] at he
    obtain ⟨rfl, rfl⟩ := he
    exact ⟨hm, hg⟩

/-- **reverse resolution is complete for the stored address records**: every record
    `path.name@chain -> value` of a live name is found when `value` is reverse-resolved on `chain` -/
theorem revByConfig_complete {s : State} (hI : IdxOK s.ns) {n : Name} {d : DymName} {c : Config}
    (hl : getNameLive s n = some d) (hc : c ∈ d.configs) : (c.path, n) ∈ revByConfig s c.value c.chain := by
  have hd : getName s n = some d := by
    unfold getNameLive at hl
    cases hg : getName s n with
    | none => simp [hg] at hl
    | some d' =>
      simp only [hg] at hl
      split at hl
      · cases hl
      · injection hl with hl; subst hl; rfl
  have hr := mem_revConfigs_of_mem hc
  have hidx : n ∈ s.ns.cfgIdx.lookup c.value :=
    (hI.cfg c.value n).mpr ⟨d, hd, List.mem_map.mpr ⟨c, hr, rfl⟩⟩
  unfold revByConfig
  rw [List.mem_flatMap]
  refine ⟨(n, d), mem_liveNames hidx hl, ?_⟩
  simp only [List.mem_map, List.mem_filter]
  exact ⟨c, ⟨hr, by simp⟩, rfl⟩

theorem reverse_complete {s : State} (hI : IdxOK s.ns) {n : Name} {d : DymName} {c : Config}
    (hl : getNameLive s n = some d) (hc : c ∈ d.configs) :
    (c.path, n, prettyChain s c.chain) ∈ reverse s c.value c.chain := by
  have h := revByConfig_complete hI hl hc
  have hne : (revByConfig s c.value c.chain).isEmpty = false := by
    cases hx : revByConfig s c.value c.chain with
    | nil => rw [hx] at h; cases h
    | cons a l => rfl
  unfold reverse reverseRaw
  simp only [hne, Bool.not_false, if_true]
  exact List.mem_map.mpr ⟨(c.path, n), h, rfl⟩

end DymVerif.DymNS
