/-
  Lemmas/DymNSResolve — forward and reverse resolution against the records.
-/
import DymVerif.Lemmas.DymNSLedger
namespace DymVerif.DymNS
open AMap

theorem mem_revConfigs_of_mem {d : DymName} {c : Config} (h : c ∈ d.configs) : c ∈ d.revConfigs := by
  unfold DymName.revConfigs
  split
  · exact h
  · exact List.mem_append_left _ h

theorem mem_liveNames {s : State} {l : List Name} {n : Name} {d : DymName} (hn : n ∈ l)
    (hl : getNameLive s n = some d) : (n, d) ∈ liveNames s l := by
  unfold liveNames
  rw [List.mem_filterMap]
  exact ⟨n, hn, by simp [hl]⟩

theorem of_mem_liveNames {s : State} {l : List Name} {n : Name} {d : DymName} (h : (n, d) ∈ liveNames s l) :
    n ∈ l ∧ getNameLive s n = some d := by
  unfold liveNames at h
  rw [List.mem_filterMap] at h
  obtain ⟨m, hm, he⟩ := h
  cases hg : getNameLive s m with
  | none => simp [hg] at he
  | some d' =>
    simp only [hg, Option.map_some, Option.some.injEq, Prod.mk.injEq] at he
    obtain ⟨rfl, rfl⟩ := he
    exact ⟨hm, hg⟩

/-- **reverse resolution is complete for the stored address records**: every record
    `path.name@chain -> value` of a live name is found when `value` is reverse-resolved on `chain` -/
theorem revByConfig_complete {s : State} (hI : IdxOK s.ns) {n : Name} {d : DymName} {c : Config}
    (hl : getNameLive s n = some d) (hc : c ∈ d.configs) : (c.path, n) ∈ revByConfig s c.value (cfgText c.chain) := by
  have hd : getName s n = some d := by
    unfold getNameLive at hl
    cases hg : getName s n with
    | none => simp [hg] at hl
    | some d' =>
      simp only [hg] at hl
      split at hl
      · cases hl
      · injection hl with hl; subst hl; rfl
  have hr := mem_revConfigs_of_mem hc
  have hidx : n ∈ s.ns.cfgIdx.lookup c.value :=
    (hI.cfg c.value n).mpr ⟨d, hd, List.mem_map.mpr ⟨c, hr, rfl⟩⟩
  unfold revByConfig
  rw [List.mem_flatMap]
  refine ⟨(n, d), mem_liveNames hidx hl, ?_⟩
  simp only [List.mem_map, List.mem_filter]
  exact ⟨c, ⟨hr, by simp⟩, rfl⟩

theorem reverse_complete {s : State} (hI : IdxOK s.ns) {n : Name} {d : DymName} {c : Config}
    (hl : getNameLive s n = some d) (hc : c ∈ d.configs) :
    (c.path, n, prettyChain s (cfgText c.chain)) ∈ reverse s c.value (cfgText c.chain) := by
  have h := revByConfig_complete hI hl hc
  have hne : (revByConfig s c.value (cfgText c.chain)).isEmpty = false := by
    cases hx : revByConfig s c.value (cfgText c.chain) with
    | nil => rw [hx] at h; cases h
    | cons a l => rfl
  unfold reverse reverseRaw
  simp only [hne, Bool.not_false, if_true]
  exact List.mem_map.mpr ⟨(c.path, n), h, rfl⟩


/-! ### soundness of the configured-address stage -/

/-- the identities (chain, path) of the stored records are pairwise distinct — what
    `DymName.Validate` enforces on every write -/
def CfgUniq (d : DymName) : Prop :=
  ∀ c ∈ d.configs, ∀ c' ∈ d.configs, c.chain = c'.chain → c.path = c'.path → c = c'

theorem findConfig_of_mem {d : DymName} {c : Config} (hU : CfgUniq d) (hc : c ∈ d.configs) :
    findConfig d c.chain c.path = some c.value := by
  unfold findConfig
  cases hf : d.configs.find? (sameId · c.chain c.path) with
  | none =>
    have := List.find?_eq_none.mp hf c hc
    simp [sameId] at this
  | some c0 =>
    have hm := List.mem_of_find?_eq_some hf
    have hp := List.find?_some hf
    simp only [sameId, Bool.decide_and, Bool.and_eq_true, decide_eq_true_eq] at hp
    have := hU c0 hm c hc hp.1 hp.2
    subst this; rfl

theorem findConfig_none_of_no_default {d : DymName} (h : d.configs.any Config.isDefault = false) :
    findConfig d 0 0 = none := by
  unfold findConfig
  have : d.configs.find? (sameId · 0 0) = none := by
    rw [List.find?_eq_none]
    intro c hc
    have := List.any_eq_false.mp h c hc
    simpa [sameId, Config.isDefault] using this
  rw [this]; rfl

/-- a candidate of the configured-address stage comes from a record of a live name -/
theorem of_mem_revByConfig {s : State} {addr : Addr} {wc : Chain} {p : Path} {n : Name}
    (h : (p, n) ∈ revByConfig s addr wc) :
    ∃ d c, getNameLive s n = some d ∧ c ∈ d.revConfigs ∧ c.value = addr ∧ cfgText c.chain = wc ∧ c.path = p := by
  unfold revByConfig at h
  rw [List.mem_flatMap] at h
  obtain ⟨⟨m, d⟩, hl, hm⟩ := h
  simp only [List.mem_map, List.mem_filter, decide_eq_true_eq, Prod.mk.injEq] at hm
  obtain ⟨c, ⟨hc, hv, hch⟩, hp, rfl⟩ := hm
  exact ⟨d, c, (of_mem_liveNames hl).2, hc, hv, hch, hp⟩

/-- no address record of the name is stored under the literal host chain-id (`hostLit`) -/
def NoLitName (s : State) (n : Name) : Prop :=
  ∀ d, getNameLive s n = some d → ∀ c ∈ d.configs, c.chain ≠ hostLit

/-- **candidates found through a stored record resolve back to the queried address** (given that
    the pretty handle of the working chain translates back to it) — *provided* the record is not one
    stored under the literal host chain-id (`hNL`), which only a chain-id migration onto the host
    chain-id can create: forward resolution never looks such a record up -/
theorem revByConfig_sound {s : State} {addr : Addr} {wc : Chain} {p : Path} {n : Name}
    (hU : ∀ d, getNameLive s n = some d → CfgUniq d)
    (hNL : NoLitName s n)
    (hH : handleChain s (prettyChain s wc) = some wc)
    (hP : ∀ c, prettyChain s wc = .chain c → c = wc)
    (h : (p, n) ∈ revByConfig s addr wc) : resolve s p n (prettyChain s wc) = some addr := by
  obtain ⟨d, c, hl, hc, rfl, hch, rfl⟩ := of_mem_revByConfig h
  have hcl : c.chain ≠ hostLit := by
    unfold DymName.revConfigs at hc
    split at hc
    · exact hNL d hl c hc
    · rcases List.mem_append.mp hc with hc | hc
      · exact hNL d hl c hc
      · simp only [List.mem_singleton] at hc
        subst hc; simp [hostLit]
  have hcw : c.chain = wc := by rw [← hch]; simp [cfgText, hcl]
  subst hcw
  have hu := hU d hl
  -- the record found at (chain, path) of c is c's value, or c is the implicit default record
  have key : findConfig d c.chain c.path = some c.value ∨
      (findConfig d c.chain c.path = none ∧ c.chain = 0 ∧ c.path = 0 ∧ c.value = hostAddr d.owner) := by
    unfold DymName.revConfigs at hc
    split at hc
    · exact Or.inl (findConfig_of_mem hu hc)
    · rename_i hnd
      rcases List.mem_append.mp hc with hc | hc
      · exact Or.inl (findConfig_of_mem hu hc)
      · simp only [List.mem_singleton] at hc
        subst hc
        exact Or.inr ⟨findConfig_none_of_no_default (by simpa using hnd), rfl, rfl, rfl⟩
  unfold resolve
  simp only [hl]
  cases hh : prettyChain s c.chain with
  | chain c' =>
    have := hP c' hh; subst this
    rcases key with hk | ⟨hk, h0, hp0, hv⟩
    · simp [hk]
    · rw [hh] at hH
      rw [h0] at hH
      rw [h0, hp0] at hk
      simp [hk, hH, hp0, h0, hv]
  | alias l =>
    rw [hh] at hH
    rcases key with hk | ⟨hk, h0, hp0, hv⟩
    · simp [hH, hk]
    · rw [h0] at hH
      rw [h0, hp0] at hk
      simp [hk, hH, hp0, h0, hv]

/-! ### the fallback stage -/

theorem of_mem_revByFallback {s : State} {addr : Addr} {p : Path} {n : Name} (h : (p, n) ∈ revByFallback s addr) :
    p = 0 ∧ ∃ d, getNameLive s n = some d ∧ ∃ c ∈ d.revConfigs, c.isDefault = true ∧ c.value.acct = addr.acct := by
  unfold revByFallback at h
  rw [List.mem_filterMap] at h
  obtain ⟨⟨m, d⟩, hl, hm⟩ := h
  cases hf : d.revConfigs.filter (fun c => c.isDefault ∧ c.value.acct = addr.acct) with
  | nil => simp only [hf, List.isEmpty_nil, if_true] at hm; cases hm
  | cons c rest =>
    simp only [hf, List.isEmpty_cons, Bool.false_eq_true, if_false, Option.some.injEq, Prod.mk.injEq] at hm
    obtain ⟨rfl, rfl⟩ := hm
    have hc : c ∈ d.revConfigs.filter (fun c => c.isDefault ∧ c.value.acct = addr.acct) := by rw [hf]; simp
    rw [List.mem_filter] at hc
    exact ⟨rfl, d, (of_mem_liveNames hl).2, c, hc.1, by simpa using hc.2⟩

/-- the account the fallback of forward resolution converts: the default record's, else the owner's -/
theorem default_acct {d : DymName} {c : Config} (hU : CfgUniq d) (hc : c ∈ d.revConfigs) (hd : c.isDefault = true) :
    (match findConfig d 0 0 with | some v => v.acct | none => d.owner) = c.value.acct := by
  have hid : c.chain = 0 ∧ c.path = 0 := by simpa [Config.isDefault] using hd
  unfold DymName.revConfigs at hc
  split at hc
  · have := findConfig_of_mem hU hc
    rw [hid.1, hid.2] at this
    simp [this]
  · rename_i hnd
    rcases List.mem_append.mp hc with hc | hc
    · have := List.any_eq_false.mp (by simpa using hnd) c hc
      rw [hd] at this; exact absurd rfl this
    · simp only [List.mem_singleton] at hc
      subst hc
      simp [findConfig_none_of_no_default (by simpa using hnd), hostAddr]

/-- **resolve_agree_partial (fallback stage)**: a fallback candidate on a RollApp that declares a
    bech32 prefix resolves back to the queried address — *provided* the name has no explicit record
    for that RollApp (`hNo`), the hypothesis the code as it is violates -/
theorem revByFallback_sound_partial {s : State} {addr : Addr} {wc : Chain} {p : Path} {n : Name}
    (hU : ∀ d, getNameLive s n = some d → CfgUniq d)
    (hH : handleChain s (prettyChain s wc) = some wc)
    (hP : ∀ c, prettyChain s wc = .chain c → c = wc)
    (hwc : wc ≠ 0) (hR : isRollapp s wc = true) (hpre : rollappHrp s wc ≠ 0) (hfmt : addr.hrp = rollappHrp s wc)
    (hNo : ∀ d, getNameLive s n = some d → findConfig d wc 0 = none)
    (h : (p, n) ∈ revByFallback s addr) : resolve s p n (prettyChain s wc) = some addr := by
  obtain ⟨rfl, d, hl, c, hc, hd, hacct⟩ := of_mem_revByFallback h
  have hto := default_acct (hU d hl) hc hd
  have hno := hNo d hl
  unfold resolve
  simp only [hl]
  have hfin : (if (0 : Path) ≠ 0 then (none : Option Addr)
      else if wc = 0 then some (hostAddr d.owner)
      else if (!isRollapp s wc) = true then none
      else if rollappHrp s wc = 0 then none
      else some ⟨rollappHrp s wc, match findConfig d 0 0 with | some v => v.acct | none => d.owner⟩) = some addr := by
    simp only [ne_eq, not_true_eq_false, if_false, hwc, hR, Bool.not_true, Bool.false_eq_true, hpre, hto, hacct]
    cases addr; simp_all
  cases hh : prettyChain s wc with
  | chain c' =>
    have := hP c' hh; subst this
    rw [hh] at hH
    simp only [hno, hH]
    exact hfin
  | alias l =>
    rw [hh] at hH
    simp only [hH, hno]
    exact hfin


/-! ### the pretty handle of a chain translates back to the chain -/

/-- no alias is listed for two different chain-ids in the params (`validateAliasesOfChainIds`) -/
def ParamsWF (p : Params) : Prop :=
  ∀ r ∈ p.chainAliases, ∀ r' ∈ p.chainAliases, ∀ l, l ∈ r.2 → l ∈ r'.2 → r.1 = r'.1

theorem prettyChain_chain {s : State} {wc c : Chain} (h : prettyChain s wc = .chain c) : c = wc := by
  unfold prettyChain at h
  split at h
  · cases h
  · injection h with h; exact h.symm

theorem handle_roundtrip {s : State} (wc : Chain) (hP : ParamsWF s.p) (hA : AliasOK s.al) :
    handleChain s (prettyChain s wc) = some wc := by
  unfold prettyChain
  cases he : effectiveAliases s wc with
  | nil =>
    simp only
    unfold handleChain resolveHandle
    by_cases h0 : wc = 0
    · subst h0; simp
    · have hne : ¬ (Handle.chain wc = Handle.chain 0) := fun e => h0 (by injection e)
      simp only [hne, if_false]
      cases hf : s.p.chainAliases.find? (fun r => decide (Handle.chain wc = Handle.chain r.1) || false) with
      | none =>
        simp only
        cases hr : isRollapp s wc <;> simp
      | some r =>
        have := List.find?_some hf
        simp only [Bool.or_false, decide_eq_true_eq] at this
        injection this with this
        simp [this]
  | cons l rest =>
    simp only
    have hl : l ∈ effectiveAliases s wc := by rw [he]; simp
    unfold handleChain resolveHandle
    have hne : ¬ (Handle.alias l = Handle.chain 0) := fun e => by cases e
    simp only [hne, if_false]
    -- where does l come from?
    unfold effectiveAliases at hl
    cases hfp : s.p.chainAliases.find? (fun r => r.1 = wc) with
    | some r0 =>
      by_cases hin : l ∈ r0.2
      · have hr0 : r0 ∈ s.p.chainAliases := List.mem_of_find?_eq_some hfp
        have hr0c : r0.1 = wc := by simpa using List.find?_some hfp
        cases hf : s.p.chainAliases.find? (fun r => decide (Handle.alias l = Handle.chain r.1) || r.2.contains l) with
        | none =>
          have := List.find?_eq_none.mp hf r0 hr0
          simp [hin] at this
        | some r1 =>
          have hr1 : r1 ∈ s.p.chainAliases := List.mem_of_find?_eq_some hf
          have hp1 := List.find?_some hf
          have hin1 : l ∈ r1.2 := by simpa using hp1
          have := hP r1 hr1 r0 hr0 l hin1 hin
          simp [this, hr0c]
      · -- l is an alias of the RollApp that is not reserved
        simp only [hfp] at hl
        have hl' : l ∈ (aliasesOf s wc).filter (fun l => !reserved s.p l) := by
          split at hl
          · rcases List.mem_append.mp hl with h | h
            · exact absurd h hin
            · exact h
          · exact absurd hl hin
        rw [List.mem_filter] at hl'
        have hres : reserved s.p l = false := by simpa using hl'.2
        have hf : s.p.chainAliases.find? (fun r => decide (Handle.alias l = Handle.chain r.1) || r.2.contains l) = none := by
          rw [List.find?_eq_none]
          intro r hr
          have hres' : ∀ (a : Chain) (b : List AliasId), (a, b) ∈ s.p.chainAliases → ¬ l ∈ b := by
            simpa [reserved] using hres
          have := hres' r.1 r.2 hr
          simp [this]
        simp only [hf]
        have := (hA.iff l wc).mpr hl'.1
        simp [this]
    | none =>
      simp only [hfp] at hl
      have hl' : l ∈ (aliasesOf s wc).filter (fun l => !reserved s.p l) := by
        split at hl
        · simpa using hl
        · simp at hl
      rw [List.mem_filter] at hl'
      have hres : reserved s.p l = false := by simpa using hl'.2
      have hf : s.p.chainAliases.find? (fun r => decide (Handle.alias l = Handle.chain r.1) || r.2.contains l) = none := by
        rw [List.find?_eq_none]
        intro r hr
        have hres' : ∀ (a : Chain) (b : List AliasId), (a, b) ∈ s.p.chainAliases → ¬ l ∈ b := by
          simpa [reserved] using hres
        have := hres' r.1 r.2 hr
        simp [this]
      simp only [hf]
      have := (hA.iff l wc).mpr hl'.1
      simp [this]

end DymVerif.DymNS
