/-
  Lemmas/GenEqKeysColl — pins for the collections part of C19: the map prefixes the driver uses are the
  regenerated constants; the statement listings of the hub functions that build the scanned ranges
  (and of the constructor that chooses the eibc key codecs) are what `Model/KeysColl` was written
  against.  A change of a range builder, a codec or a prefix changes the generated term and breaks
  the corresponding lemma here.
-/
import DymVerif.Gen.Keys
import DymVerif.Model.KeysColl
namespace DymVerif.GenEq
open DymVerif DymVerif.Keys

theorem collSeqToUnfinalizedHeightPrefix_eq : Gen.Keys.collSeqToUnfinalizedHeightPrefix = [115, 101, 113, 84, 111, 70, 105, 110, 97, 108, 105, 122, 101, 72, 101, 105, 103, 104, 116, 47] /- 'seqToFinalizeHeight/' -/ := rfl
theorem collFinalizationQueuePrefix_eq : Gen.Keys.collFinalizationQueuePrefix = [72, 101, 105, 103, 104, 116, 82, 111, 108, 108, 97, 112, 112, 84, 111, 70, 105, 110, 97, 108, 105, 122, 97, 116, 105, 111, 110, 81, 117, 101, 117, 101, 47, 118, 97, 108, 117, 101, 47] /- 'HeightRollappToFinalizationQueue/value/' -/ := rfl
theorem collLPsByAddrPrefix_eq : Gen.Keys.collLPsByAddrPrefix = [108, 112, 115, 51] /- 'lps3' -/ := rfl
theorem collLPsByRollAppDenomPrefix_eq : Gen.Keys.collLPsByRollAppDenomPrefix = [108, 112, 115, 48] /- 'lps0' -/ := rfl
theorem collPendingPacketsByAddressPrefix_eq : Gen.Keys.collPendingPacketsByAddressPrefix = [1] := rfl
theorem collClientHeightToSignerPrefix_eq : Gen.Keys.collClientHeightToSignerPrefix = [99, 108, 105, 101, 110, 116, 72, 101, 105, 103, 104, 116, 84, 111, 83, 105, 103, 110, 101, 114, 47] /- 'clientHeightToSigner/' -/ := rfl

theorem canUnbond_pin : Gen.Keys.canUnbondListing =
  ["func (k Keeper) CanUnbond(ctx sdk.Context, seq sequencertypes.Sequencer) error",
   "  rng := collections.NewPrefixedPairRange[string, uint64](seq.Address)",
   "  return k.seqToUnfinalizedHeight.Walk(ctx, rng, func#1)",
   "    func#1 (key collections.Pair[string, uint64]) (stop bool, err error)",
   "      return true, sequencertypes.ErrUnbondNotAllowed"] := rfl

theorem pruneSequencerHeights_pin : Gen.Keys.pruneSequencerHeightsListing =
  ["func (k Keeper) PruneSequencerHeights(ctx sdk.Context, sequencers []string, h uint64) error",
   "  for _, seqAddr := range sequencers",
   "    rng := collections.NewPrefixedPairRange[string, uint64](seqAddr).StartExclusive(h)",
   "    err := k.seqToUnfinalizedHeight.Clear(ctx, rng)",
   "    if err != nil",
   "      return err",
   "  return nil"] := rfl

theorem saveSequencerHeight_pin : Gen.Keys.saveSequencerHeightListing =
  ["func (k Keeper) SaveSequencerHeight(ctx sdk.Context, seqAddr string, height uint64) error",
   "  return k.seqToUnfinalizedHeight.Set(ctx, collections.Join(seqAddr, height))"] := rfl

theorem getFinalizationQueueUntilHeightInclusive_pin : Gen.Keys.getFinalizationQueueUntilHeightInclusiveListing =
  ["func (k Keeper) GetFinalizationQueueUntilHeightInclusive(ctx sdk.Context, height uint64) ([]types.BlockHeightToFinalizationQueue, error)",
   "  rng := collections.NewPrefixUntilPairRange[uint64, string](height)",
   "  iter, err := k.finalizationQueue.Iterate(ctx, rng)",
   "  if err != nil",
   "    return nil, err",
   "  defer iter.Close()",
   "  return iter.Values()"] := rfl

theorem lpsGetByAddr_pin : Gen.Keys.lpsGetByAddrListing =
  ["func (s LPs) GetByAddr(ctx sdk.Context, addr sdk.AccAddress) ([]*types.OnDemandLPRecord, error)",
   "  var ret []*types.OnDemandLPRecord",
   "  rng := collections.NewPrefixedPairRange[string, uint64](addr.String())",
   "  iter, err := s.byAddr.Iterate(ctx, rng)",
   "  if err != nil",
   "    return nil, err",
   "  for ; iter.Valid(); iter.Next()",
   "    key, err := iter.Key()",
   "    if err != nil",
   "      return nil, err",
   "    id := key.K2()",
   "    lp, err := s.byID.Get(ctx, id)",
   "    if err != nil",
   "      return nil, err",
   "    ret = append(ret, &lp)",
   "  return ret, err"] := rfl

theorem lpsGetOrderCompatibleLPs_pin : Gen.Keys.lpsGetOrderCompatibleLPsListing =
  ["func (s LPs) GetOrderCompatibleLPs(ctx sdk.Context, o types.DemandOrder) ([]types.OnDemandLPRecord, error)",
   "  rol := o.RollappId",
   "  denom := o.Denom()",
   "  ranger := collections.NewSuperPrefixedTripleRange[string, string, uint64](rol, denom)",
   "  iter, err := s.byRollAppDenom.Iterate(ctx, ranger)",
   "  if err != nil",
   "    return nil, err",
   "  defer iter.Close()",
   "  var compat []types.OnDemandLPRecord",
   "  for ; iter.Valid(); iter.Next()",
   "    key, err := iter.Key()",
   "    if err != nil",
   "      return nil, err",
   "    id := key.K3()",
   "    lpr, err := s.byID.Get(ctx, id)",
   "    if err != nil",
   "      return nil, err",
   "    if lpr.Accepts(uint64(ctx.BlockHeight()), o)",
   "      compat = append(compat, lpr)",
   "  return compat, nil"] := rfl

theorem makeLPsStore_pin : Gen.Keys.makeLPsStoreListing =
  ["func makeLPsStore(sb *collections.SchemaBuilder, cdc codec.BinaryCodec) LPs",
   "  return LPs{byRollAppDenom: collections.NewKeySet[collections.Triple[string, string, uint64]](sb, LPsByRollAppDenomPrefix, \"byRollAppDenom\", collections.TripleKeyCodec[string, string, uint64](collections.StringKey, collections.StringKey, collections.Uint64Key)), byID: collections.NewMap[uint64, types.OnDemandLPRecord](sb, LPsByIDPrefix, \"byID\", collections.Uint64Key, codec.CollValue[types.OnDemandLPRecord](cdc)), byAddr: collections.NewKeySet[collections.Pair[string, uint64]](sb, LPsByAddrPrefix, \"byAddr\", collections.PairKeyCodec[string, uint64](collections.StringKey, collections.Uint64Key)), nextID: collections.NewSequence(sb, LPsNextIDPrefix, \"nextID\")}"] := rfl

theorem getPendingPacketsByAddress_pin : Gen.Keys.getPendingPacketsByAddressListing =
  ["func (k Keeper) GetPendingPacketsByAddress(ctx sdk.Context, receiver string) ([]commontypes.RollappPacket, error)",
   "  var packets []commontypes.RollappPacket",
   "  rng := collections.NewPrefixedPairRange[string, []byte](receiver)",
   "  err := k.pendingPacketsByAddress.Walk(ctx, rng, func#1)",
   "    func#1 (key collections.Pair[string, []byte]) (stop bool, err error)",
   "      packet, err := k.GetRollappPacket(ctx, string(key.K2()))",
   "      if err != nil",
   "        return true, err",
   "      packets = append(packets, *packet)",
   "      return false, nil",
   "  if err != nil",
   "    return nil, err",
   "  return packets, nil"] := rfl

end DymVerif.GenEq
