/-
  Lemmas/CoreFinSame — the operations that do not touch anything finalization looks at: sequencer
  messages, rotation, liveness, and `HardForkToLatest` (which prunes nothing and only clears `next`
  of the latest state).  Each is shown to satisfy `FS` (well-formedness kept, `Same` state).
-/
import DymVerif.Lemmas.CoreFinDefs
namespace DymVerif.Core

/-- the step changes nothing but sequencers / balances / liveness bookkeeping -/
structure Frame (s s1 : St) : Prop where
  ras : s1.ras = s.ras
  p : s1.p = s.p
  h : s1.h = s.h
  queue : s1.queue = s.queue

theorem Frame.refl (s : St) : Frame s s := ⟨rfl, rfl, rfl, rfl⟩

theorem Frame.trans {a b c : St} (h1 : Frame a b) (h2 : Frame b c) : Frame a c :=
  ⟨h2.ras.trans h1.ras, h2.p.trans h1.p, h2.h.trans h1.h, h2.queue.trans h1.queue⟩

theorem Frame.fs {s s1 : St} (h : Frame s s1) : FS s s1 := FS.of_ras_eq h.ras h.p h.h h.queue

theorem FS.setRa' {s s1 : St} {id : Nat} {r r' : Rollapp} (hf : Frame s s1) (hg : getRa s id = some r)
    (hk : rKey r' = rKey r) : FS s (Core.setRa s1 r') := by
  refine hf.fs.trans (FS.setRa (id := id) (r := r) ?_ hk)
  unfold getRa at *; rw [hf.ras]; exact hg

-- ---------------------------------------------------------------- liveness / proposer bookkeeping

theorem indicateLiveness_fs {s : St} {id : Nat} {r : Rollapp} (hg : getRa s id = some r) : FS s (indicateLiveness s r) := by
  unfold indicateLiveness resetClock scheduleEvent
  exact FS.setRa' ⟨rfl, rfl, rfl, rfl⟩ hg rfl

theorem setLastNext_sKey (l : List SInfo) (n : NextP) : (setLastNext l n).map sKey = l.map sKey := by
  unfold setLastNext
  split
  · rfl
  · rename_i x rest e
    have : l = (x :: rest).reverse := by rw [← e, List.reverse_reverse]
    rw [this]; simp [sKey]

theorem afterSetRealProposer_fs (s : St) (ra : Nat) (a : Addr) : FS s (afterSetRealProposer s ra a) := by
  unfold afterSetRealProposer
  split
  · exact FS.refl s
  · rename_i r hg
    have h1 := indicateLiveness_fs hg
    split
    · exact h1
    · rename_i r1 hg1
      refine h1.trans (FS.setRa hg1 ?_)
      unfold rKey
      rw [show ({ r1 with states := setLastNext r1.states (NextP.addr a) } : Rollapp).states = setLastNext r1.states (NextP.addr a) from rfl,
        setLastNext_sKey]

theorem recoverFromSentinel_fs {s s' : St} {ra : Nat} (e : recoverFromSentinel s ra = .ok s') : FS s s' := by
  unfold recoverFromSentinel at e
  split at e
  · cases e
  · rename_i r hg
    split at e
    · cases e
    · split at e
      · cases e
      · injection e with e; subst e
        rename_i a _
        exact (FS.setRa (r' := { r with proposer := some a }) hg rfl).trans (afterSetRealProposer_fs _ _ _)

theorem setProposer_fs (s : St) (ra : Nat) (a : Option Addr) : FS s (setProposer s ra a) := by
  unfold setProposer
  split
  · exact FS.refl s
  · rename_i r hg; exact FS.setRa hg rfl

theorem setSuccessor_fs (s : St) (ra : Nat) (a : Option Addr) : FS s (setSuccessor s ra a) := by
  unfold setSuccessor
  split
  · exact FS.refl s
  · rename_i r hg; exact FS.setRa hg rfl

theorem removeFromNoticeQueue_frame (s : St) (q : Seq) : Frame s (removeFromNoticeQueue s q) := by
  unfold removeFromNoticeQueue; split <;> exact ⟨rfl, rfl, rfl, rfl⟩

theorem abruptRemoveProposer_fs (s : St) (ra : Nat) : FS s (abruptRemoveProposer s ra) := by
  unfold abruptRemoveProposer
  split
  · exact FS.refl s
  · split
    · exact FS.refl s
    · split
      · exact FS.refl s
      · rename_i q _
        have hf : Frame s (setSeq (removeFromNoticeQueue s q) { q with bonded := false }) :=
          (removeFromNoticeQueue_frame s q).trans ⟨rfl, rfl, rfl, rfl⟩
        exact hf.fs.trans (setProposer_fs _ _ _)

theorem seqOnHardFork_fs (s : St) (ra : Nat) : FS s (seqOnHardFork s ra) := by
  unfold seqOnHardFork
  have hf : Frame s (optOutAll s ra) := ⟨rfl, rfl, rfl, rfl⟩
  exact hf.fs.trans ((abruptRemoveProposer_fs _ _).trans (setSuccessor_fs _ _ _))

-- ---------------------------------------------------------------- HardForkToLatest prunes nothing

theorem removeIdxAbove_id (q : List QEntry) (ra keep : Nat)
    (h : ∀ e ∈ q, e.ra = ra → e.idx ≠ [] ∧ ∀ i ∈ e.idx, i ≤ keep) : removeIdxAbove q ra keep = q := by
  induction q with
  | nil => rfl
  | cons x xs ih =>
    rw [removeIdxAbove_cons, ih (fun e he => h e (by simp [he]))]
    by_cases hx : (x.ra == ra) = true
    · rw [if_pos hx]
      obtain ⟨h1, h2⟩ := h x (by simp) (by simpa using hx)
      have hf : x.idx.filter (· ≤ keep) = x.idx := List.filter_eq_self.2 (fun a ha => by simpa using h2 a ha)
      rw [hf]
      have : x.idx.isEmpty = false := by
        cases hxi : x.idx with
        | nil => exact absurd hxi h1
        | cons a b => rfl
      rw [this]
      simp
    · rw [if_neg hx]

theorem take_concat_map {α β} (f : α → β) (l : List α) (k : Nat) (a b : α) (hk : l[k]? = some a) (hf : f b = f a) :
    (l.take k ++ [b]).map f = (l.take (k + 1)).map f := by
  rw [List.take_add_one, hk]; simp [hf]

theorem take_last_map {α β} (f : α → β) (l : List α) (a b : α) (hl : l.getLast? = some a) (hf : f b = f a) :
    (l.take (l.length - 1) ++ [b]).map f = l.map f := by
  rw [List.getLast?_eq_getElem?] at hl
  have hlt := getElem?_lt hl
  rw [take_concat_map f l _ a b hl hf, show l.length - 1 + 1 = l.length by omega, List.take_length]

theorem last_of_WF {l : SInfo} (hw : l.WF) : l.last = l.start + l.num - 1 := by
  unfold SInfo.last; rw [if_pos (by have := hw.num_pos; omega)]

/-- forking to the latest height keeps every state; only `next` of the latest one is cleared -/
theorem revertPlan_latest {r : Rollapp} {l : SInfo} (hc : Chain r.states) (hl : r.states.getLast? = some l)
    {keep : Nat} {kst : SInfo} (e : revertPlan r ((l.last + 1) % 2 ^ 64) = .ok (keep, kst)) :
    keep = r.states.length ∧ kst = { l with next := NextP.empty } := by
  have hw := hc.wf l (List.mem_of_getLast? hl)
  have hlast := last_of_WF hw
  have hpos := hw.num_pos
  have hov := hw.no_overflow
  have hmod : (l.last + 1) % 2 ^ 64 = l.start + l.num := by
    rw [Nat.mod_eq_of_lt (by omega)]; omega
  rw [hmod] at e
  have hfind : findByHeight r (l.start + l.num) = none := by
    unfold findByHeight
    rw [if_neg (by omega), hl]
    dsimp only
    rw [if_pos (by omega)]
  have hidx : r.states[r.states.length - 1]? = some l := by rw [← List.getLast?_eq_getElem?]; exact hl
  have hemp : r.states.isEmpty = false := by
    cases hs : r.states with
    | nil => rw [hs] at hl; cases hl
    | cons a b => rfl
  unfold revertPlan at e
  simp only [hfind, hemp, hidx, Bool.false_eq_true, if_false] at e
  rw [if_neg (by omega), if_neg (by omega), if_neg (by omega)] at e
  injection e with e
  injection e with e1 e2
  exact ⟨e1.symm, e2.symm⟩

theorem hardForkToLatest_fs {s s' : St} {ra : Nat} (e : hardForkToLatest s ra = .ok s') : FS s s' := by
  intro hp
  revert hp
  show FS s s'
  unfold hardForkToLatest at e
  split at e
  · cases e
  · rename_i r hg
    split at e
    · cases e
    · rename_i h hh
      unfold latestHeight at hh
      cases hl : r.states.getLast? with
      | none => rw [hl] at hh; cases hh
      | some l =>
        rw [hl] at hh
        simp only [Option.map_some, Option.some.injEq] at hh
        subst hh
        unfold hardFork at e
        rw [hg] at e
        dsimp only at e
        split at e
        · cases e
        · split at e
          · cases e
          · split at e
            · cases e
            · rename_i keep kst hplan
              injection e with e; subst e
              intro hp
              obtain ⟨hk, hkst⟩ := revertPlan_latest (hp.chain.get hg) hl hplan
              subst hk; subst hkst
              have hq : removeIdxAbove s.queue ra r.states.length = s.queue := by
                apply removeIdxAbove_id
                intro e he hra
                exact hp.qb r (getRa_mem hg) e he (by rw [getRa_id hg]; exact hra)
              refine (FS.trans ?_ (seqOnHardFork_fs _ _)) hp
              unfold resetClock forkedRollapp
              refine FS.setRa' ?_ hg ?_
              · exact ⟨rfl, rfl, rfl, hq⟩
              · unfold rKey
                dsimp only
                have := take_last_map sKey r.states l { l with next := NextP.empty } hl rfl
                rw [this]

end DymVerif.Core
