/-
  Lemmas/GenEqSpons — the regenerated translation of the Go expressions and facts M-Spons hinges on
  (`Gen/Spons.lean`, rewritten from /repo's working tree by every check) equals what the hand-written
  model uses.  A semantic change in the Go source (e.g. the hook going back to merging
  `applyWeights(new − old)`, the epoch hook ignoring the identifier again, a cap in `EstimateClaim`) changes the generated term and breaks the corresponding lemma here.
-/
import DymVerif.Gen.Spons
import DymVerif.Model.Spons
namespace DymVerif.GenEq
open DymVerif DymVerif.Spons

theorem spons_maxW_eq : Gen.Spons.maxAllocationWeight = maxW := rfl

/-- `ApplyWeights` gauge power = the model's `gpow` -/
theorem spons_applyWeightsPower_eq : Gen.Spons.applyWeightsPower = gpow := rfl

/-- `Vote.GetGaugePower` uses the same expression -/
theorem spons_getGaugePower_eq : Gen.Spons.getGaugePower = gpow := rfl

/-- the model pays exactly `EstimateClaim`'s amount -/
theorem spons_claimAmount_eq (s : State) (a : Nat) (g : Gauge) (e : Endorsement) (pw er : Int)
    (h1 : g.epochRewards = some er) (h2 : e.epoch ≠ 0) (h3 : 0 < Gen.Spons.claimAmount pw er e.epoch)
    (h4 : Gen.Spons.claimAmount pw er e.epoch ≤ s.incBal) :
    s.pay a g e pw = .ok (s.paid a g (Gen.Spons.claimAmount pw er e.epoch), Gen.Spons.claimAmount pw er e.epoch) := by
  unfold Gen.Spons.claimAmount at *
  unfold State.pay
  rw [h1]
  simp only [h2, if_false]
  rw [if_neg (by omega), if_neg (by omega)]

/-- `processHook` when the vote is kept: the source subtracts the old vote's distribution, sets the new
    power and adds the new vote's distribution (distribution and endorsement shares each time) -/
theorem spons_hookScript_eq : Gen.Spons.hookScript =
    ["oldUpdate := vote.ToDistribution().Negate()",
     "UpdateDistribution(oldUpdate.Merge)",
     "UpdateTotalSharesWithDistribution(oldUpdate)",
     "vote.VotingPower = newTotalVP",
     "update := vote.ToDistribution()",
     "UpdateDistribution(update.Merge)",
     "UpdateTotalSharesWithDistribution(update)"] := rfl

/-- … and the model's `processHook` is that script, with the source's comparison value -/
theorem spons_processHook_eq (s : State) (a val : Nat) (v : Vote) (old new : Int) :
    s.processHook a val v old new =
      if Gen.Spons.hookNewTotal v.vp old new < s.minVP then s.revokeVote a v else
        let nv : Vote := ⟨Gen.Spons.hookNewTotal v.vp old new, v.weights⟩
        let s1 := (s.applyUpdate v.toDist.negate).applyUpdate nv.toDist
        { s1 with votes := aset a nv s1.votes,
                  dvp := if new = 0 then aerase (a, val) s1.dvp else aset (a, val) new s1.dvp } := rfl

/-- the model's sponsorship epoch hook acts at the end of the x/incentives distribution epoch only,
    because the source returns early for every other identifier -/
theorem spons_epochHook_only_distr_identifier :
    Gen.Spons.epochHookOnlyOnDistrIdentifier = true ∧ Gen.Spons.epochHookIgnoresIdentifier = false ∧
    ∀ s : State, s.epochEnd false = s :=
  ⟨rfl, rfl, fun _ => rfl⟩

/-- the model's slash fires no hook because `BeforeValidatorSlashed` is a no-op -/
theorem spons_slash_no_hook :
    Gen.Spons.slashHookIsNoop = true ∧
    ∀ (s : State) fin, (step s (.slash fin)).1 = { s with stk := setStk s.stk fin } := ⟨rfl, fun _ _ => rfl⟩

/-- hook order at epoch end: incentives (new `EpochRewards`) before sponsorship (snapshot) -/
theorem spons_epoch_hook_order :
    Gen.Spons.incentivesHookBeforeSponsorship = true ∧
    ∀ s : State, s.epochEnd true = s.incentivesEpochEnd.sponsEpochEnd := ⟨rfl, fun _ => rfl⟩

theorem spons_default_params :
    Gen.Spons.defaultMinAllocationWeight = 1000000000000000000 ∧ Gen.Spons.defaultMinVotingPower = 1000000000000000000 :=
  ⟨rfl, rfl⟩

end DymVerif.GenEq
