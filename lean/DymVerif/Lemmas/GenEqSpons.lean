/-
  Lemmas/GenEqSpons — the regenerated translation of the Go expressions and facts M-Spons hinges on
  (`Gen/Spons.lean`, rewritten from /repo's working tree by every check) equals what the hand-written
  model uses.  A semantic change in the Go source (e.g. the hook merging
  `applyWeights(new) − applyWeights(old)`, the epoch hook looking at the identifier, a cap in
  `EstimateClaim`) changes the generated term and breaks the corresponding lemma here.
-/
import DymVerif.Gen.Spons
import DymVerif.Model.Spons
namespace DymVerif.GenEq
open DymVerif DymVerif.Spons

theorem spons_maxW_eq : Gen.Spons.maxAllocationWeight = maxW := rfl

/-- `ApplyWeights` gauge power = the model's `gpow` -/
theorem spons_applyWeightsPower_eq : Gen.Spons.applyWeightsPower = gpow := rfl

/-- `Vote.GetGaugePower` uses the same expression -/
theorem spons_getGaugePower_eq : Gen.Spons.getGaugePower = gpow := rfl

/-- the model pays exactly `EstimateClaim`'s amount -/
theorem spons_claimAmount_eq (s : State) (a : Nat) (g : Gauge) (e : Endorsement) (pw er : Int)
    (h1 : g.epochRewards = some er) (h2 : e.epoch ≠ 0) (h3 : 0 < Gen.Spons.claimAmount pw er e.epoch)
    (h4 : Gen.Spons.claimAmount pw er e.epoch ≤ s.incBal) :
    s.pay a g e pw = .ok (s.paid a g (Gen.Spons.claimAmount pw er e.epoch), Gen.Spons.claimAmount pw er e.epoch) := by
  unfold Gen.Spons.claimAmount at *
  unfold State.pay
  rw [h1]
  simp only [h2, if_false]
  rw [if_neg (by omega), if_neg (by omega)]

/-- `processHook`: the comparison value and the power handed to `ApplyWeights` are the source's -/
theorem spons_processHook_eq (s : State) (a val : Nat) (v : Vote) (old new : Int) :
    s.processHook a val v old new =
      if Gen.Spons.hookNewTotal v.vp old new < s.minVP then s.revokeVote a v else
        let s1 := s.applyUpdate (applyWeights (Gen.Spons.hookUpdatePower v.vp old new) v.weights)
        { s1 with votes := aset a ⟨Gen.Spons.hookNewTotal v.vp old new, v.weights⟩ s1.votes,
                  dvp := if new = 0 then aerase (a, val) s1.dvp else aset (a, val) new s1.dvp } := rfl

/-- the model clears the blacklist and re-snapshots at the end of an epoch of ANY identifier because
    the source ignores the identifier -/
theorem spons_epochHook_any_identifier :
    Gen.Spons.epochHookIgnoresIdentifier = true ∧
    ∀ s : State, (s.epochEnd false).blacklist = [] ∧
      (s.epochEnd false).endorsements = s.endorsements.map (fun e => { e with epoch := e.total }) :=
  ⟨rfl, fun _ => ⟨rfl, rfl⟩⟩

/-- the model's slash fires no hook because `BeforeValidatorSlashed` is a no-op -/
theorem spons_slash_no_hook :
    Gen.Spons.slashHookIsNoop = true ∧
    ∀ (s : State) fin, (step s (.slash fin)).1 = { s with stk := setStk s.stk fin } := ⟨rfl, fun _ _ => rfl⟩

/-- hook order at epoch end: incentives (new `EpochRewards`) before sponsorship (snapshot) -/
theorem spons_epoch_hook_order :
    Gen.Spons.incentivesHookBeforeSponsorship = true ∧
    ∀ s : State, s.epochEnd true = s.incentivesEpochEnd.sponsEpochEnd := ⟨rfl, fun _ => rfl⟩

theorem spons_default_params :
    Gen.Spons.defaultMinAllocationWeight = 1000000000000000000 ∧ Gen.Spons.defaultMinVotingPower = 1000000000000000000 :=
  ⟨rfl, rfl⟩

end DymVerif.GenEq
