/-
  Lemmas/CoreRolesMono — per-sequencer monotonicity through every operation: the rollapp of a sequencer
  never changes, a started notice is never reset, an unbonded sequencer is never bonded again.
-/
import DymVerif.Lemmas.CoreRolesP
namespace DymVerif.Core.Roles

def Mono (s s' : St) : Prop :=
  ∀ a q, getSeq s a = some q → ∃ q', getSeq s' a = some q' ∧ q'.rollapp = q.rollapp ∧
    (q.notice.isSome = true → q'.notice = q.notice) ∧ (q.bonded = false → q'.bonded = false)

theorem Mono.refl (s : St) : Mono s s := fun _ q hq => ⟨q, hq, rfl, fun _ => rfl, id⟩

theorem Mono.trans {s1 s2 s3 : St} (h1 : Mono s1 s2) (h2 : Mono s2 s3) : Mono s1 s3 := by
  intro a q hq
  obtain ⟨q2, hq2, r2, n2, b2⟩ := h1 a q hq
  obtain ⟨q3, hq3, r3, n3, b3⟩ := h2 a q2 hq2
  refine ⟨q3, hq3, r3.trans r2, ?_, fun hb => b3 (b2 hb)⟩
  intro hn
  have e2 := n2 hn
  rw [n3 (by rw [e2]; exact hn), e2]

theorem Mono.of_seqs {s s' : St} (e : s'.seqs = s.seqs) : Mono s s' := by
  intro a q hq; exact ⟨q, by rw [getSeq_congr e]; exact hq, rfl, fun _ => rfl, id⟩

theorem Frame.mono {s s' : St} (f : Frame s s') : Mono s s' := by
  intro a q hq
  obtain ⟨q', hq', e1, e2, _, e4⟩ := f.sq_some hq
  exact ⟨q', hq', e1, fun _ => e4, fun hb => e2.trans hb⟩

theorem Mono.of_setSeq {s : St} {a0 : Addr} {q q0 : Seq} (hg : getSeq s a0 = some q0) (ha : q.addr = q0.addr)
    (hr : q.rollapp = q0.rollapp) (hn : q0.notice.isSome = true → q.notice = q0.notice)
    (hb : q0.bonded = false → q.bonded = false) : Mono s (setSeq s q) := by
  intro a x hx
  by_cases hc : q.addr = a
  · subst hc
    have hg' : getSeq s q.addr = some q0 := by rw [ha, getSeq_addr hg]; exact hg
    rw [hg'] at hx; injection hx with hx; subst hx
    exact ⟨q, getSeq_setSeq_same hg', hr, hn, hb⟩
  · exact ⟨x, by rw [getSeq_setSeq_other hc]; exact hx, rfl, fun _ => rfl, id⟩

theorem Mono.of_mapSeqs (s : St) (f : Seq → Seq) (ha : ∀ x, (f x).addr = x.addr) (hr : ∀ x, (f x).rollapp = x.rollapp)
    (hb : ∀ x, (f x).bonded = x.bonded) (hn : ∀ x, (f x).notice = x.notice) : Mono s { s with seqs := s.seqs.map f } := by
  intro a q hq
  exact ⟨f q, by rw [getSeq_mapSeqs s f ha, hq]; rfl, hr q, fun _ => hn q, fun h => (hb q).trans h⟩

theorem Mono.of_insertSeq {s : St} {q : Seq} (hf : getSeq s q.addr = none) :
    Mono s { s with seqs := insertSorted (fun x y => decide (x.addr < y.addr)) q s.seqs } := by
  intro a x hx
  refine ⟨x, ?_, rfl, fun _ => rfl, id⟩
  rw [getSeq_insert_other]; exact hx
  intro e; rw [e, hx] at hf; cases hf

-- ---------------------------------------------------------------- removal, fork

theorem abruptRemoveProposer_mono (s : St) (ra : Nat) : Mono s (abruptRemoveProposer s ra) := by
  unfold abruptRemoveProposer
  split
  · exact Mono.refl s
  · split
    · exact Mono.refl s
    · split
      · exact Mono.refl s
      · rename_i _ a _ _ q hg
        have f1 : Mono s (removeFromNoticeQueue s q) := Mono.of_seqs (removeFromNoticeQueue_seqs s q).1
        have hg1 : getSeq (removeFromNoticeQueue s q) a = some q := by
          rw [getSeq_congr (removeFromNoticeQueue_seqs s q).1]; exact hg
        have f2 : Mono (removeFromNoticeQueue s q) (setSeq (removeFromNoticeQueue s q) { q with bonded := false }) :=
          Mono.of_setSeq hg1 rfl rfl (fun _ => rfl) (fun _ => rfl)
        exact (f1.trans f2).trans (Mono.of_seqs (setProposer_seqs _ _ _).1)

theorem seqOnHardFork_mono (s : St) (ra : Nat) : Mono s (seqOnHardFork s ra) := by
  unfold seqOnHardFork
  have f1 : Mono s (optOutAll s ra) := by
    unfold optOutAll
    exact Mono.of_mapSeqs s _ (by intro x; split <;> rfl) (by intro x; split <;> rfl) (by intro x; split <;> rfl)
      (by intro x; split <;> rfl)
  exact (f1.trans (abruptRemoveProposer_mono _ _)).trans (Mono.of_seqs (setSuccessor_seqs _ _ _).1)

theorem hardFork_mono {s s' : St} {ra lv : Nat} (e : hardFork s ra lv = .ok s') : Mono s s' := by
  unfold hardFork at e
  split at e
  · cases e
  · split at e
    · cases e
    · split at e
      · cases e
      · split at e
        · cases e
        · dsimp only at e
          injection e with e; subst e
          unfold resetClock
          refine Mono.trans ?_ (seqOnHardFork_mono _ _)
          exact Mono.of_seqs rfl

theorem hardForkToLatest_mono {s s' : St} {ra : Nat} (e : hardForkToLatest s ra = .ok s') : Mono s s' := by
  unfold hardForkToLatest at e
  split at e
  · cases e
  · split at e
    · cases e
    · exact hardFork_mono e

-- ---------------------------------------------------------------- handlers

theorem onProposerLastBlock_mono {s s' : St} {q : Seq} (e : onProposerLastBlock s q = .ok s') : Mono s s' := by
  unfold onProposerLastBlock at e
  split at e
  · cases e
  · split at e
    · cases e
    · dsimp only at e
      split at e
      · exact (Mono.of_seqs (s := s) (by rfl)).trans (hardForkToLatest_mono e)
      · injection e with e; subst e
        exact Mono.of_seqs (afterSetRealProposer_seqs (setRa s _) _ _).1

theorem seqAfterUpdate_mono {s s' : St} {m : UpdMsg} {b : Bool} (e : seqAfterUpdate s m b = .ok s') : Mono s s' := by
  unfold seqAfterUpdate at e
  split at e
  · cases e
  · rename_i prop hg
    dsimp only at e
    have f1 : Mono s (setSeq s { prop with dishonor := prop.dishonor - min s.sqp.dishonorSU prop.dishonor }) :=
      Mono.of_setSeq hg (by rfl) (by rfl) (fun _ => rfl) id
    split at e
    · exact f1.trans (onProposerLastBlock_mono e)
    · injection e with e; subst e; exact f1

theorem updateState_mono {s s' : St} {m : UpdMsg} (e : updateState s m = .ok s') : Mono s s' := by
  unfold updateState at e
  repeat' split at e
  all_goals first
    | (cases e; done)
    | skip
  rename_i _ s3 h3
  dsimp only at e
  split at e
  · cases e
  injection e with e; subst e
  have h3' := seqAfterUpdate_mono h3
  exact ((Mono.of_seqs (s := s) (by rfl)).trans h3').trans (Mono.of_seqs (indicateLiveness_seqs _ _).1)

theorem createSeq_mono {s s' : St} {a : Addr} {ra bond : Nat} {d : Bool} (e : createSeq s a ra bond d = .ok s') :
    Mono s s' := by
  unfold createSeq at e
  split at e
  · cases e
  · rename_i r hg
    split at e
    · cases e
    · rename_i hex
      have hnone : getSeq s a = none := by
        cases hx : getSeq s a with
        | none => rfl
        | some _ => simp [hx] at hex
      split at e
      · cases e
      · split at e
        · cases e
        · split at e
          · cases e
          · dsimp only at e
            have hs0 : (if r.launched = true then s else setRa s { r with launched := true }).seqs = s.seqs := by
              split <;> rfl
            split at e
            · cases e
            · rename_i s1 q1 hs
              have sp := sendToModule_same hs
              have hk := sp.2
              simp only [skey, Prod.mk.injEq] at hk
              have e1 : s1.seqs = s.seqs := sp.1.seqs.trans hs0
              have hfresh : getSeq s1 q1.addr = none := by
                rw [getSeq_congr e1, hk.1]; exact hnone
              have m2 : Mono s { s1 with seqs := insertSorted (fun x y => decide (x.addr < y.addr)) q1 s1.seqs } :=
                (Mono.of_seqs e1).trans (Mono.of_insertSeq hfresh)
              split at e
              · cases e
              · split at e
                · exact m2.trans (Mono.of_seqs (recoverFromSentinel_seqs e).1)
                · injection e with e; subst e; exact m2

theorem tryUnbond_write_mono {s s1 : St} {a : Addr} {q0 q q1 : Seq} {amt : Nat}
    (hg : getSeq s a = some q0) (ha : q.addr = q0.addr) (hr : q.rollapp = q0.rollapp) (hn : q.notice = q0.notice)
    (hb : q.bonded = q0.bonded) (e : tryUnbond s q amt = .ok (s1, q1)) : Mono s (setSeq s1 q1) := by
  obtain ⟨sm, _, _, e1, e2, _, e4, e5⟩ := tryUnbond_same e
  have hg1 : getSeq s1 a = some q0 := by rw [getSeq_congr sm.seqs]; exact hg
  apply (Mono.of_seqs sm.seqs).trans
  apply Mono.of_setSeq hg1 (e1.trans ha) (e2.trans hr)
  · intro _; rw [e4, hn]
  · intro hb0
    cases hq : q1.bonded with
    | false => rfl
    | true => rw [e5 hq] at hb; rw [← hb] at hb0; cases hb0

theorem decreaseBond_mono {s s' : St} {a : Addr} {amt : Nat} (e : decreaseBond s a amt = .ok s') : Mono s s' := by
  unfold decreaseBond at e
  split at e
  · cases e
  · rename_i q hg
    split at e
    · cases e
    · split at e
      · cases e
      · rename_i s1 q1 hs
        injection e with e; subst e
        exact tryUnbond_write_mono hg rfl rfl rfl rfl hs

theorem unbond_mono {s s' : St} {a : Addr} (e : unbond s a = .ok s') : Mono s s' := by
  unfold unbond at e
  split at e
  · cases e
  · rename_i q hg
    have hqa := getSeq_addr hg
    split at e
    · cases e
    · rename_i r hgr
      split at e
      · cases e
      · rename_i hrot
        split at e
        · rename_i hisp
          split at e
          · cases e
          · split at e
            · cases e
            · rename_i hnip
              injection e with e; subst e
              have hpr : r.proposer = some a := by
                unfold isProposer at hisp; rw [hgr] at hisp; rw [← hqa]; simpa using hisp
              have hnn : q.notice = none := by
                have haw : awaitingLast s r = false := by
                  cases hc : awaitingLast s r with
                  | false => rfl
                  | true => simp [hc, hisp] at hrot
                unfold awaitingLast at haw
                rw [hpr] at haw
                simp only [hg] at haw
                unfold noticeElapsed at haw
                unfold noticeInProgress at hnip
                cases hn : q.notice with
                | none => rfl
                | some t =>
                  rw [hn] at haw hnip
                  simp at haw hnip
                  omega
              apply (Mono.of_seqs (s := s) (s' := { s with nq := insertSorted ltPair (s.t + s.sqp.noticePeriod, a) s.nq }) rfl).trans
              apply Mono.of_setSeq (q0 := q) (a0 := a) hg (by rfl) (by rfl)
              · intro hc; rw [hnn] at hc; cases hc
              · exact id
        · split at e
          · cases e
          · rename_i s1 q1 hs
            injection e with e; subst e
            exact tryUnbond_write_mono (q := { q with optedIn := false }) hg rfl rfl rfl rfl hs

theorem optIn_mono {s s' : St} {a : Addr} {v : Bool} (e : optIn s a v = .ok s') : Mono s s' := by
  unfold optIn at e
  split at e
  · cases e
  · rename_i q hg
    split at e
    · cases e
    · dsimp only at e
      have f1 : Mono s (setSeq s { q with optedIn := v }) := Mono.of_setSeq hg (by rfl) (by rfl) (fun _ => rfl) id
      split at e
      · cases e
      · split at e
        · exact f1.trans (Mono.of_seqs (recoverFromSentinel_seqs e).1)
        · injection e with e; subst e; exact f1

theorem kick_mono {s s' : St} {a : Addr} (e : kick s a = .ok s') : Mono s s' := by
  unfold kick at e
  split at e
  · cases e
  · rename_i kicker hgk
    split at e
    · cases e
    · split at e
      · cases e
      · rename_i r hgr
        split at e
        · cases e
        · split at e
          · cases e
          · split at e
            · cases e
            · split at e
              · cases e
              · dsimp only at e
                split at e
                · cases e
                · rename_i s3 h3
                  have m3 : Mono s s3 := (abruptRemoveProposer_mono s r.id).trans (hardForkToLatest_mono h3)
                  have hseqs := (recoverFromSentinel_seqs e).1
                  obtain ⟨q3, hq3, _⟩ := m3 a kicker hgk
                  have hka : kicker.addr = q3.addr := by rw [getSeq_addr hgk, getSeq_addr hq3]
                  have hka2 : kicker.addr = a := getSeq_addr hgk
                  subst hka2
                  intro b x hx
                  by_cases hc : kicker.addr = b
                  · subst hc
                    rw [hgk] at hx; injection hx with hx; subst hx
                    refine ⟨{ kicker with optedIn := true }, ?_, rfl, fun _ => rfl, id⟩
                    rw [getSeq_congr hseqs]
                    exact getSeq_setSeq_same' (q := { kicker with optedIn := true }) hq3 hka
                  · obtain ⟨x3, hx3, r3, n3, b3⟩ := m3 b x hx
                    refine ⟨x3, ?_, r3, n3, b3⟩
                    rw [getSeq_congr hseqs, getSeq_setSeq_other]
                    · exact hx3
                    · exact hc

theorem fraud_mono {s s' : St} {au : Bool} {ra hh rev : Nat} {p rw : Option Addr} (u : Uniq s)
    (e : fraud s au ra hh rev p rw = .ok s') : Mono s s' := by
  unfold fraud at e
  split at e
  · cases e
  · split at e
    · cases e
    · split at e
      · cases e
      · split at e
        · cases e
        · dsimp only at e
          split at e
          · cases e
          · rename_i s1 h1
            have hf : Frame s s1 := by
              split at h1
              · exact punish_frame u h1
              · injection h1 with h1; subst h1; exact Frame.refl s
            exact hf.mono.trans (hardFork_mono e)

theorem markObsolete_mono {s s' : St} {au : Bool} {vs : List Nat} (e : markObsolete s au vs = .ok s') : Mono s s' := by
  unfold markObsolete at e
  split at e
  · cases e
  · split at e
    · cases e
    · dsimp only at e
      injection e with e; subst e
      apply foldl_inv (fun acc => Mono s acc)
      · exact Mono.of_seqs rfl
      · intro b r0 hb
        split
        · exact hb
        · split
          · exact hb
          · split
            · split
              · rename_i a ha; exact hb.trans (hardForkToLatest_mono ha)
              · exact hb
            · exact hb

theorem beginStep_seqs (acc : St) (e : Nat × Addr) : (beginStep acc e).seqs = acc.seqs := by
  unfold beginStep
  split
  · rfl
  · split <;> rfl

theorem beginBlock_seqs (s : St) (dt : Nat) : (beginBlock s dt).seqs = s.seqs := by
  rw [beginBlock_eq]
  apply foldl_inv (fun acc : St => acc.seqs = s.seqs)
  · rfl
  · intro b e hb; rw [beginStep_seqs]; exact hb

theorem apply_mono {s s' : St} {o : Op} (h : Roles s) (e : apply s o = .ok s') : Mono s s' := by
  cases o with
  | createRollapp id owner mb =>
    simp only [apply] at e
    split at e
    · cases e
    · injection e with e; subst e; exact Mono.of_seqs rfl
  | bridge ra hh =>
    simp only [apply] at e
    split at e
    · cases e
    · split at e
      · cases e
      · split at e
        · cases e
        · injection e with e; subst e; exact Mono.of_seqs rfl
  | fund a amt => simp only [apply] at e; injection e with e; subst e; exact Mono.of_seqs rfl
  | createSeq a ra b d => exact createSeq_mono e
  | bondInc a amt d => exact (increaseBond_frame h.core.uniq e).mono
  | bondDec a amt => exact decreaseBond_mono e
  | unbond a => exact unbond_mono e
  | optIn a v => exact optIn_mono e
  | kick a => exact kick_mono e
  | update m => exact updateState_mono e
  | fraud au ra hh rev p rw => exact fraud_mono h.core.uniq e
  | obsolete au vs => exact markObsolete_mono e
  | punish au a rw => exact (punish_frame h.core.uniq (punishProposal_ok e).2).mono
  | transferOwner sg ra' no =>
    obtain ⟨r, hg, _, _, _, rfl⟩ := transferOwner_ok e
    exact Mono.of_seqs rfl
  | setSeqParams au sp =>
    obtain ⟨_, hnp, _, rfl⟩ := setSeqParams_ok e
    exact Mono.of_seqs rfl
  | begin_ dt => simp only [apply] at e; injection e with e; subst e; exact Mono.of_seqs (beginBlock_seqs s dt)
  | end_ f => simp only [apply] at e; injection e with e; subst e; exact (endBlock_frame h.core.uniq).mono

/-- the sequencer has started a notice or is unbonded -/
def Marked (s : St) (a : Addr) : Prop := ∃ q, getSeq s a = some q ∧ (q.notice.isSome = true ∨ q.bonded = false)

theorem Mono.marked {s s' : St} (m : Mono s s') {a : Addr} (h : Marked s a) : Marked s' a := by
  obtain ⟨q, hq, hm⟩ := h
  obtain ⟨q', hq', _, n, b⟩ := m a q hq
  refine ⟨q', hq', ?_⟩
  rcases hm with hm | hm
  · left; rw [n hm]; exact hm
  · right; exact b hm

/-- a marked sequencer is never the result of the proposer choice -/
theorem choose_ne_marked {s : St} (h : RolesCore s) {a : Addr} (hm : Marked s a) (ra : Nat) : choose s ra ≠ some a := by
  intro hc
  obtain ⟨q, hq, hmk⟩ := hm
  obtain ⟨q', hq', ha', _, hb', ho', _⟩ := choose_mem hc
  have := getSeq_of_mem h.uniq.addrs hq'
  rw [ha', hq] at this; injection this with this; subst this
  rcases hmk with hmk | hmk
  · have := h.optOut q hq' hmk
    rw [ho'] at this; cases this
  · rw [hb'] at hmk; cases hmk

theorem step_mono {s : St} {o : Op} (h : Roles s) : Mono s (step s o).1 := by
  unfold step
  split
  · rename_i s' e; exact apply_mono h e
  · exact Mono.refl s

/-- runs from an arbitrary state -/
def runFrom (s : St) (ops : List Op) : St := ops.foldl (fun s o => (step s o).1) s

theorem run_append (p : Params) (ops ops2 : List Op) : run p (ops ++ ops2) = runFrom (run p ops) ops2 := by
  unfold run runFrom; rw [List.foldl_append]

theorem runFrom_roles_mono {s : St} (h : Roles s) (ops : List Op) : Roles (runFrom s ops) ∧ Mono s (runFrom s ops) := by
  unfold runFrom
  apply foldl_inv (fun acc => Roles acc ∧ Mono s acc)
  · exact ⟨h, Mono.refl s⟩
  · intro b o hb; exact ⟨step_roles hb.1, hb.2.trans (step_mono hb.1)⟩

end DymVerif.Core.Roles
