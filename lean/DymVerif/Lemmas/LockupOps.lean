import DymVerif.Lemmas.LockupInv
/-
  Lemmas/LockupOps — case analysis of every operation of M-Lockup (what a successful op did, in
  terms of the state transformers), and preservation of the invariant by `step`.
-/
namespace DymVerif.Lockup

theorem isUnlocking_false {l : Lock} : l.isUnlocking = false ↔ l.endTime = none := by
  unfold Lock.isUnlocking; cases l.endTime <;> simp

theorem partial_facts {c : Option (Denom × Nat)} {l : Lock} (hv : coinsInvalid c = false)
    (he : exceeds c l = false) (hp : isPartial c l = true) :
    ∃ x, c = some (l.denom, x) ∧ 0 < x ∧ x < l.amount ∧ reqAmt c = x := by
  cases c with
  | none => simp [isPartial] at hp
  | some dx =>
    obtain ⟨d, x⟩ := dx
    simp only [coinsInvalid, exceeds, isPartial, reqAmt, beq_eq_false_iff_ne, ne_eq, Bool.or_eq_false_iff,
      bne_eq_false_iff_eq, decide_eq_false_iff_not, Nat.not_lt, bne_iff_ne] at *
    refine ⟨x, by rw [he.1], by omega, by omega, rfl⟩

theorem full_facts {c : Option (Denom × Nat)} {l : Lock}
    (he : exceeds c l = false) (hp : isPartial c l = false) :
    c = none ∨ c = some (l.denom, l.amount) := by
  cases c with
  | none => exact Or.inl rfl
  | some dx =>
    obtain ⟨d, x⟩ := dx
    simp only [exceeds, isPartial, Bool.or_eq_false_iff, bne_eq_false_iff_eq,
      decide_eq_false_iff_not, Nat.not_lt] at *
    right; rw [he.1, hp]

/-! ### what each message did -/

theorem lockTokens_cases (p : Params) (s : State) (a d amt dur : Nat) :
    (∃ e, lockTokens p s a d amt dur = (s, .err e)) ∨
    (0 < dur ∧ 0 < amt ∧ p.minDur ≤ dur ∧ lockCost p d amt ≤ s.bal a p.feeDenom ∧
      ∃ t, toModule (chargeFee p s a) a d amt = some t ∧
        ((∃ l, s.locks.find? (sameLock a d dur) = some l ∧
            lockTokens p s a d amt dur = (addToLock t l amt, .ok l.id)) ∨
         (s.locks.find? (sameLock a d dur) = none ∧
            lockTokens p s a d amt dur = (createLock t a d amt dur, .ok (s.lastId + 1))))) := by
  unfold lockTokens
  split
  · exact Or.inl ⟨_, rfl⟩
  split
  · exact Or.inl ⟨_, rfl⟩
  split
  · exact Or.inl ⟨_, rfl⟩
  split
  · exact Or.inl ⟨_, rfl⟩
  · rename_i h1 h2 h3 t ht
    right
    refine ⟨by omega, by omega, by omega, by omega, t, ht, ?_⟩
    split
    · rename_i l hl; exact Or.inl ⟨l, hl, rfl⟩
    · rename_i hl; exact Or.inr ⟨hl, rfl⟩

theorem sameLock_true {a d dur : Nat} {l : Lock} (h : sameLock a d dur l = true) :
    l.owner = a ∧ l.denom = d ∧ l.duration = dur ∧ l.endTime = none := by
  simp only [sameLock, Bool.and_eq_true, beq_iff_eq, Bool.not_eq_true'] at h
  exact ⟨h.1.1.1, h.1.1.2, h.1.2, isUnlocking_false.mp h.2⟩

theorem beginUnlocking_cases (s : State) (a id : Nat) (c : Option (Denom × Nat)) :
    (∃ e, beginUnlocking s a id c = (s, .err e)) ∨
    (∃ l, findLock s.locks id = some l ∧ l.owner = a ∧ l.endTime = none ∧ coinsInvalid c = false ∧
      exceeds c l = false ∧
      ((isPartial c l = true ∧ beginUnlocking s a id c = (splitUnlock s l (reqAmt c), .ok (s.lastId + 1))) ∨
       (isPartial c l = false ∧ beginUnlocking s a id c = (startUnlock s l, .ok l.id)))) := by
  unfold beginUnlocking
  split
  · exact Or.inl ⟨_, rfl⟩
  split
  · exact Or.inl ⟨_, rfl⟩
  rename_i hv _ l hl
  split
  · exact Or.inl ⟨_, rfl⟩
  split
  · exact Or.inl ⟨_, rfl⟩
  split
  · exact Or.inl ⟨_, rfl⟩
  rename_i ho he hu
  right
  refine ⟨l, hl, by simpa using ho, isUnlocking_false.mp (by simpa using hu), ?_, by simpa using he, ?_⟩
  · cases hc : coinsInvalid c
    · rfl
    · exact absurd (Or.inr hc) hv
  · split
    · rename_i hp; exact Or.inl ⟨hp, rfl⟩
    · rename_i hp; exact Or.inr ⟨by simpa using hp, rfl⟩

theorem extendLockup_cases (s : State) (a id dur : Nat) :
    (∃ e, extendLockup s a id dur = (s, .err e)) ∨
    (∃ l, findLock s.locks id = some l ∧ l.owner = a ∧ l.endTime = none ∧ l.duration < dur ∧
      extendLockup s a id dur = (extendTo s l dur, .ok 0)) := by
  unfold extendLockup
  split
  · exact Or.inl ⟨_, rfl⟩
  split
  · exact Or.inl ⟨_, rfl⟩
  rename_i hv _ l hl
  split
  · exact Or.inl ⟨_, rfl⟩
  split
  · exact Or.inl ⟨_, rfl⟩
  split
  · exact Or.inl ⟨_, rfl⟩
  rename_i ho hu hd
  exact Or.inr ⟨l, hl, by simpa using ho, isUnlocking_false.mp (by simpa using hu), by omega, rfl⟩

theorem forceUnlock_cases (p : Params) (s : State) (a id : Nat) (c : Option (Denom × Nat)) :
    (∃ e, forceUnlock p s a id c = (s, .err e)) ∨
    (∃ l, findLock s.locks id = some l ∧ l.owner = a ∧ a ∈ p.allowed ∧ coinsInvalid c = false ∧
      exceeds c l = false ∧
      ((isPartial c l = true ∧ ∃ t, fromModule s l.owner l.denom (reqAmt c) = some t ∧
          forceUnlock p s a id c = (shrinkLock t l (reqAmt c), .ok 0)) ∨
       (isPartial c l = false ∧ ∃ t, fromModule s l.owner l.denom l.amount = some t ∧
          forceUnlock p s a id c = (removeLock t l, .ok 0)))) := by
  unfold forceUnlock
  split
  · exact Or.inl ⟨_, rfl⟩
  split
  · exact Or.inl ⟨_, rfl⟩
  rename_i hv _ l hl
  split
  · exact Or.inl ⟨_, rfl⟩
  split
  · exact Or.inl ⟨_, rfl⟩
  split
  · exact Or.inl ⟨_, rfl⟩
  rename_i ho ha he
  have hcv : coinsInvalid c = false := by
    cases hc : coinsInvalid c
    · rfl
    · exact absurd (Or.inr hc) hv
  split
  · rename_i hp
    split
    · exact Or.inl ⟨_, rfl⟩
    · rename_i t ht
      exact Or.inr ⟨l, hl, by simpa using ho, by simpa using ha, hcv, by simpa using he, Or.inl ⟨hp, t, ht, rfl⟩⟩
  · rename_i hp
    split
    · exact Or.inl ⟨_, rfl⟩
    · rename_i t ht
      exact Or.inr ⟨l, hl, by simpa using ho, by simpa using ha, hcv, by simpa using he,
        Or.inr ⟨by simpa using hp, t, ht, rfl⟩⟩

/-! ### the invariant is preserved by every message -/

theorem frame_charge {p : Params} {s t : State} {a d amt : Nat}
    (h : toModule (chargeFee p s a) a d amt = some t) :
    Frame s t ∧ (∀ d', t.modBal d' = s.modBal d' + (if d' = d then amt else 0)) ∧ t.height = s.height := by
  obtain ⟨_, h1, h2, h3, h4, h5, h6, _⟩ := toModule_some h
  exact ⟨⟨h1, h2, h3, h4⟩, h6, h5⟩

theorem lockTokens_inv (p : Params) {s : State} (h : Inv s) (a d amt dur : Nat) :
    Inv (lockTokens p s a d amt dur).1 := by
  rcases lockTokens_cases p s a d amt dur with ⟨e, he⟩ | ⟨_, hamt, _, _, t, ht, hc⟩
  · rw [he]; exact h
  · obtain ⟨fr, hmod, _⟩ := frame_charge ht
    rcases hc with ⟨l, hl, he⟩ | ⟨_, he⟩
    · rw [he]
      have hmem := List.mem_of_find?_eq_some hl
      have hs := sameLock_true (List.find?_some hl)
      exact inv_addToLock h fr hmem amt (by rw [hs.2.1]; exact hmod)
    · rw [he]
      exact inv_createLock h fr a d amt dur hamt hmod

theorem beginUnlocking_inv {s : State} (h : Inv s) (a id : Nat) (c : Option (Denom × Nat)) :
    Inv (beginUnlocking s a id c).1 := by
  rcases beginUnlocking_cases s a id c with ⟨e, he⟩ | ⟨l, hl, _, _, hv, hex, hc⟩
  · rw [he]; exact h
  · have hmem := (findLock_some hl).1
    rcases hc with ⟨hp, he⟩ | ⟨_, he⟩
    · rw [he]
      obtain ⟨x, _, hx0, hx1, hr⟩ := partial_facts hv hex hp
      rw [hr]
      exact inv_splitUnlock h hmem x hx0 hx1
    · rw [he]; exact inv_startUnlock h hmem

theorem extendLockup_inv {s : State} (h : Inv s) (a id dur : Nat) :
    Inv (extendLockup s a id dur).1 := by
  rcases extendLockup_cases s a id dur with ⟨e, he⟩ | ⟨l, hl, _, hn, _, he⟩
  · rw [he]; exact h
  · rw [he]; exact inv_extendTo h (findLock_some hl).1 dur hn

theorem forceUnlock_inv (p : Params) {s : State} (h : Inv s) (a id : Nat) (c : Option (Denom × Nat)) :
    Inv (forceUnlock p s a id c).1 := by
  rcases forceUnlock_cases p s a id c with ⟨e, he⟩ | ⟨l, hl, _, _, hv, hex, hc⟩
  · rw [he]; exact h
  · have hmem := (findLock_some hl).1
    rcases hc with ⟨hp, t, ht, he⟩ | ⟨_, t, ht, he⟩
    · rw [he]
      obtain ⟨x, _, _, hx1, hr⟩ := partial_facts hv hex hp
      rw [hr] at ht ⊢
      obtain ⟨_, h1, h2, h3, h4, _, h6, _⟩ := fromModule_some ht
      exact inv_shrinkLock h ⟨h1, h2, h3, h4⟩ hmem x hx1 h6
    · rw [he]
      obtain ⟨_, h1, h2, h3, h4, _, h6, _⟩ := fromModule_some ht
      exact inv_removeLock h ⟨h1, h2, h3, h4⟩ hmem h6

/-! ### EndBlocker -/

theorem matured_unlocking {now : Nat} {l : Lock} (h : matured now l = true) :
    ∃ e, l.endTime = some e ∧ e ≤ now := by
  unfold matured at h
  cases he : l.endTime with
  | none => simp [he] at h
  | some e => exact ⟨e, rfl, by simpa [he] using h⟩

/-- a matured lock of a state satisfying the invariant can always be paid out -/
theorem unlockMatured_spec {s : State} (h : Inv s) {l : Lock} (hl : l ∈ s.locks)
    (hm : matured s.now l = true) :
    ∃ t, fromModule s l.owner l.denom l.amount = some t ∧ unlockMatured s l.id = some (removeLock t l) := by
  have hle : l.amount ≤ s.modBal l.denom := by
    rw [h.custody]
    have := le_total_of_mem (fun x => x.denom == l.denom) s.locks l hl
    simpa [w, lockedDenom] using this
  obtain ⟨t, ht⟩ := fromModule_ok l.owner l.denom l.amount hle
  refine ⟨t, ht, ?_⟩
  obtain ⟨e, he, _⟩ := matured_unlocking hm
  unfold unlockMatured
  rw [findLock_of_mem h.nodup hl]
  simp [Lock.isUnlocking, he, hm, ht]

theorem withdrawAll_spec : ∀ (ids : List Nat) (s : State), Inv s → ids.Nodup →
    (∀ id ∈ ids, ∃ l ∈ s.locks, l.id = id ∧ matured s.now l = true) →
    ∃ s', withdrawAll ids s = some s' ∧ Inv s' ∧ s'.now = s.now ∧ s'.height = s.height ∧
      s'.lastId = s.lastId ∧
      s'.locks = s.locks.filter (fun l => !ids.contains l.id) ∧
      ∀ a d, s'.bal a d = s.bal a d +
        total (fun l => ids.contains l.id && (l.owner == a && l.denom == d)) s.locks := by
  intro ids
  induction ids with
  | nil =>
    intro s h _ _
    refine ⟨s, rfl, h, rfl, rfl, rfl, ?_, ?_⟩
    · exact (List.filter_eq_self.mpr (fun x _ => by simp)).symm
    · intro a d
      have : total (fun l => ([] : List Nat).contains l.id && (l.owner == a && l.denom == d)) s.locks = 0 :=
        total_eq_zero _ _ (fun x _ => by simp)
      omega
  | cons id rest ih =>
    intro s h hnd hall
    obtain ⟨l, hl, hid, hm⟩ := hall id (by simp)
    obtain ⟨t, ht, hu⟩ := unlockMatured_spec h hl hm
    obtain ⟨_, h1, h2, h3, h4, h5, h6, h7⟩ := fromModule_some ht
    have hinv1 : Inv (removeLock t l) := inv_removeLock h ⟨h1, h2, h3, h4⟩ hl h6
    simp only [List.nodup_cons] at hnd
    have hall1 : ∀ id' ∈ rest, ∃ l' ∈ (removeLock t l).locks, l'.id = id' ∧ matured (removeLock t l).now l' = true := by
      intro id' hid'
      obtain ⟨l', hl', hid2, hm'⟩ := hall id' (by simp [hid'])
      refine ⟨l', ?_, hid2, ?_⟩
      · simp only [removeLock, h1]
        apply mem_delLock.mpr
        refine ⟨hl', ?_⟩
        rw [hid2, hid]
        intro e
        exact hnd.1 (e ▸ hid')
      · simpa [removeLock, h4] using hm'
    obtain ⟨s', hw, hinv', hnow, hh, hlast, hlocks, hbal⟩ := ih (removeLock t l) hinv1 hnd.2 hall1
    refine ⟨s', ?_, hinv', ?_, ?_, ?_, ?_, ?_⟩
    · simp only [withdrawAll]
      rw [← hid, hu]
      exact hw
    · simpa [removeLock, h4] using hnow
    · simpa [removeLock, h5] using hh
    · simpa [removeLock, h3] using hlast
    · rw [hlocks]
      simp only [removeLock, h1, delLock, List.filter_filter]
      apply List.filter_congr
      intro x _
      simp only [List.contains_cons, hid]
      cases rest.contains x.id <;> cases hx : (x.id == id) <;> simp [hx, bne]
    · intro a d
      rw [hbal a d]
      simp only [removeLock, h1, h7]
      have hdel := total_delLock (fun x => (id :: rest).contains x.id && (x.owner == a && x.denom == d)) h.nodup hl
      have hcongr : total (fun x => (id :: rest).contains x.id && (x.owner == a && x.denom == d)) (delLock s.locks l.id)
          = total (fun x => rest.contains x.id && (x.owner == a && x.denom == d)) (delLock s.locks l.id) := by
        apply total_congr
        intro x hx
        have hne := (mem_delLock.mp hx).2
        rw [hid] at hne
        simp [hne]
      rw [hcongr] at hdel
      have hw : w (fun x => (id :: rest).contains x.id && (x.owner == a && x.denom == d)) l
          = (if a = l.owner ∧ d = l.denom then l.amount else 0) := by
        simp only [w, List.contains_cons, hid, beq_self_eq_true, Bool.true_or, Bool.true_and,
          Bool.and_eq_true, beq_iff_eq]
        by_cases hc : a = l.owner ∧ d = l.denom
        · simp [hc]
        · have : ¬ (l.owner = a ∧ l.denom = d) := fun e => hc ⟨e.1.symm, e.2.symm⟩
          simp [hc, this]
      rw [hw] at hdel
      omega

theorem endBlock_spec {s : State} (h : Inv s) (hh : minHeightAutoWithdraw ≤ s.height) :
    ∃ s', endBlock s = (s', .ok 0) ∧ Inv s' ∧ s'.now = s.now ∧ s'.height = s.height ∧
      s'.lastId = s.lastId ∧
      s'.locks = s.locks.filter (fun l => !matured s.now l) ∧
      ∀ a d, s'.bal a d = s.bal a d +
        total (fun l => matured s.now l && (l.owner == a && l.denom == d)) s.locks := by
  have hnd : ((s.locks.filter (matured s.now)).map (·.id)).Nodup :=
    List.Nodup.sublist (List.Sublist.map _ List.filter_sublist) h.nodup
  have hall : ∀ id ∈ (s.locks.filter (matured s.now)).map (·.id),
      ∃ l ∈ s.locks, l.id = id ∧ matured s.now l = true := by
    intro id hid
    rcases List.mem_map.mp hid with ⟨l, hl, rfl⟩
    rw [List.mem_filter] at hl
    exact ⟨l, hl.1, rfl, hl.2⟩
  obtain ⟨s', hw, hinv, hnow, hhe, hlast, hlocks, hbal⟩ := withdrawAll_spec _ s h hnd hall
  have hiff : ∀ l ∈ s.locks, ((s.locks.filter (matured s.now)).map (·.id)).contains l.id = matured s.now l := by
    intro l hl
    cases hm : matured s.now l
    · apply Bool.eq_false_iff.mpr
      intro hc
      rw [List.contains_iff_mem] at hc
      rcases List.mem_map.mp hc with ⟨l2, hl2, hid⟩
      rw [List.mem_filter] at hl2
      have := eq_of_id_eq h.nodup hl2.1 hl hid
      rw [this, hm] at hl2
      exact absurd hl2.2 (by simp)
    · rw [List.contains_iff_mem]
      exact List.mem_map.mpr ⟨l, List.mem_filter.mpr ⟨hl, hm⟩, rfl⟩
  refine ⟨s', ?_, hinv, hnow, hhe, hlast, ?_, ?_⟩
  · unfold endBlock
    have : ¬ s.height < minHeightAutoWithdraw := by omega
    simp only [this, if_false, hw]
  · rw [hlocks]
    apply List.filter_congr
    intro l hl
    rw [hiff l hl]
  · intro a d
    rw [hbal a d]
    congr 1
    apply total_congr
    intro l hl
    rw [hiff l hl]

theorem endBlock_inv {s : State} (h : Inv s) : Inv (endBlock s).1 := by
  by_cases hh : minHeightAutoWithdraw ≤ s.height
  · obtain ⟨s', he, hinv, _⟩ := endBlock_spec h hh
    rw [he]; exact hinv
  · unfold endBlock
    have : s.height < minHeightAutoWithdraw := by omega
    simp only [this, if_true]; exact h

theorem beginBlock_inv {s : State} (h : Inv s) (dt : Nat) : Inv (beginBlock s dt).1 := by
  constructor
  · exact h.custody
  · exact h.accum
  · exact h.nodup
  · exact h.idle
  · exact h.pos
  · intro l hl
    obtain ⟨g1, g2⟩ := h.ghost l hl
    refine ⟨g1, ?_⟩
    intro e he
    obtain ⟨t0, a1, a2, a3⟩ := g2 e he
    exact ⟨t0, a1, a2, by simp only [beginBlock]; omega⟩

theorem step_inv (p : Params) {s : State} (h : Inv s) (op : Op) : Inv (step p s op).1 := by
  cases op with
  | lock a d amt dur => exact lockTokens_inv p h a d amt dur
  | unlock a id c => exact beginUnlocking_inv h a id c
  | extend a id dur => exact extendLockup_inv h a id dur
  | force a id c => exact forceUnlock_inv p h a id c
  | beginBlock dt => exact beginBlock_inv h dt
  | endBlock => exact endBlock_inv h

theorem run_inv (p : Params) : ∀ (ops : List Op) {s : State}, Inv s → Inv (run p s ops)
  | [], _, h => h
  | op :: ops, _, h => run_inv p ops (step_inv p h op)

end DymVerif.Lockup
