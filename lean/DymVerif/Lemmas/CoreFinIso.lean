/-
  Lemmas/CoreFinIso — the liveness hook of `EndBlock` (`CheckLiveness`) neither reads nor writes the
  finalization data (states / lastFin of the rollapps, the finalization queue, the sequencer-height
  index): running it on two states that differ only there gives results that differ only there.
  Consequence: the whole rollapp record after `EndBlock` depends only on the failure oracle
  restricted to that rollapp's due indices.
-/
import DymVerif.Lemmas.CoreFinComplete
namespace DymVerif.Core

/-- override the finalization data of a state -/
def ov (s : St) (R : List Rollapp) (Q : List QEntry) (H : List (Addr × Nat)) : St :=
  { s with ras := R, queue := Q, seqH := H }

/-- everything of a rollapp record except states / lastFin -/
def livKey (r : Rollapp) : Nat × Addr × Nat × Bool × List (Nat × Nat) × Nat × Nat × Nat × Option Addr × Option Addr :=
  (r.id, r.owner, r.minBond, r.launched, r.revs, r.tph, r.evH, r.cdStart, r.proposer, r.successor)

def ovM (R : List Rollapp) (Q : List QEntry) (H : List (Addr × Nat)) (x : M (St × Seq)) : M (St × Seq) :=
  match x with
  | .ok (s, q) => .ok (ov s R Q H, q)
  | .error e => .error e

theorem sendFromModule_ov (s : St) (R : List Rollapp) (Q : List QEntry) (H : List (Addr × Nat)) (q : Seq) (amt : Nat) (to : Addr) :
    sendFromModule (ov s R Q H) q amt to = ovM R Q H (sendFromModule s q amt to) := by
  unfold sendFromModule
  by_cases h1 : q.tokens < amt
  · rw [if_pos h1, if_pos h1]; rfl
  · rw [if_neg h1, if_neg h1]
    by_cases hb : blockedAddr to = true
    · rw [if_pos hb, if_pos hb]; rfl
    · rw [if_neg hb, if_neg hb]
      by_cases h2 : s.modBal < amt
      · rw [if_pos h2, if_pos (show (ov s R Q H).modBal < amt from h2)]; rfl
      · rw [if_neg h2, if_neg (show ¬ (ov s R Q H).modBal < amt from h2)]; rfl

theorem burn_ov (s : St) (R : List Rollapp) (Q : List QEntry) (H : List (Addr × Nat)) (q : Seq) (amt : Nat) :
    burn (ov s R Q H) q amt = ovM R Q H (burn s q amt) := by
  unfold burn
  by_cases h1 : q.tokens < amt
  · rw [if_pos h1, if_pos h1]; rfl
  · rw [if_neg h1, if_neg h1]
    by_cases h2 : s.modBal < amt
    · rw [if_pos h2, if_pos (show (ov s R Q H).modBal < amt from h2)]; rfl
    · rw [if_neg h2, if_neg (show ¬ (ov s R Q H).modBal < amt from h2)]; rfl

theorem slash_ov (s : St) (R : List Rollapp) (Q : List QEntry) (H : List (Addr × Nat)) (q : Seq) (amt : Nat) (mul : Dec)
    (rw : Option Addr) : slash (ov s R Q H) q amt mul rw = ovM R Q H (slash s q amt mul rw) := by
  unfold slash
  dsimp only
  by_cases h0 : ((mul.mulInt amt).truncateInt).toNat = 0
  · rw [if_pos h0, if_pos h0]
    dsimp only
    exact burn_ov s R Q H q _
  · rw [if_neg h0, if_neg h0]
    cases rw with
    | none => rfl
    | some to =>
      dsimp only
      rw [sendFromModule_ov]
      cases sendFromModule s q ((mul.mulInt amt).truncateInt).toNat to with
      | error e => rfl
      | ok x =>
        obtain ⟨s1, q1⟩ := x
        show burn (ov s1 R Q H) q1 _ = ovM R Q H (burn s1 q1 _)
        exact burn_ov s1 R Q H q1 _

def ovS (R : List Rollapp) (Q : List QEntry) (H : List (Addr × Nat)) (x : M St) : M St :=
  match x with
  | .ok s => .ok (ov s R Q H)
  | .error e => .error e

theorem slashLiveness_ov (s : St) (R : List Rollapp) (Q : List QEntry) (H : List (Addr × Nat)) (r r' : Rollapp)
    (hp : r'.proposer = r.proposer) : slashLiveness (ov s R Q H) r' = ovS R Q H (slashLiveness s r) := by
  unfold slashLiveness
  rw [hp]
  cases r.proposer with
  | none => rfl
  | some a =>
    dsimp only
    have hgs : getSeq (ov s R Q H) a = getSeq s a := rfl
    rw [hgs]
    cases getSeq s a with
    | none => rfl
    | some q =>
      dsimp only
      have : (ov s R Q H).sqp = s.sqp := rfl
      rw [this, slash_ov]
      cases slash s q (min q.tokens (max s.sqp.lsAbs ((s.sqp.lsMul.mulInt q.tokens).truncateInt).toNat)) ⟨0⟩ none with
      | error e => rfl
      | ok x => obtain ⟨s1, q1⟩ := x; rfl

theorem find_livKey (R1 R2 : List Rollapp) (h : R1.map livKey = R2.map livKey) (id : Nat) :
    (R1.find? (·.id == id)).map livKey = (R2.find? (·.id == id)).map livKey := by
  induction R1 generalizing R2 with
  | nil =>
    cases R2 with
    | nil => rfl
    | cons y ys => simp at h
  | cons x xs ih =>
    cases R2 with
    | nil => simp at h
    | cons y ys =>
      simp only [List.map_cons, List.cons.injEq] at h
      have hid : x.id = y.id := by
        have := congrArg (fun k => k.1) h.1
        exact this
      simp only [List.find?_cons, hid]
      cases (y.id == id) with
      | true => simp [h.1]
      | false => exact ih ys h.2

theorem getRa_livKey {s1 s2 : St} (h : s1.ras.map livKey = s2.ras.map livKey) (id : Nat) :
    (getRa s1 id).map livKey = (getRa s2 id).map livKey := find_livKey _ _ h id

theorem livKey_fields {a b : Rollapp} (h : livKey a = livKey b) :
    a.id = b.id ∧ a.cdStart = b.cdStart ∧ a.proposer = b.proposer := by
  unfold livKey at h
  simp only [Prod.mk.injEq] at h
  exact ⟨h.1, h.2.2.2.2.2.2.2.1, h.2.2.2.2.2.2.2.2.1⟩

theorem setRa_livKey (s1 s2 : St) (r1 r2 : Rollapp) (h : s1.ras.map livKey = s2.ras.map livKey) (hk : livKey r1 = livKey r2) :
    (setRa s1 r1).ras.map livKey = (setRa s2 r2).ras.map livKey := by
  unfold setRa
  simp only [List.map_map]
  have hid : r1.id = r2.id := (livKey_fields hk).1
  rw [hid]
  generalize s1.ras = R1 at h
  generalize s2.ras = R2 at h
  induction R1 generalizing R2 with
  | nil =>
    cases R2 with
    | nil => rfl
    | cons y ys => simp at h
  | cons x xs ih =>
    cases R2 with
    | nil => simp at h
    | cons y ys =>
      simp only [List.map_cons, List.cons.injEq] at h
      have hxy : x.id = y.id := (livKey_fields h.1).1
      simp only [List.map_cons, Function.comp, hxy]
      have := ih ys h.2
      rw [this]
      cases (y.id == r2.id) with
      | true => simp [hk]
      | false => simp [h.1]

/-- the relation kept by the liveness hook: equal except for the finalization data -/
def LivEq (s1 s2 : St) : Prop :=
  ∃ R Q H, s2 = ov s1 R Q H ∧ R.map livKey = s1.ras.map livKey

theorem handleLivenessEvent_livEq {s1 s2 : St} (h : LivEq s1 s2) (ra : Nat) :
    LivEq (handleLivenessEvent s1 ra) (handleLivenessEvent s2 ra) := by
  obtain ⟨R, Q, H, rfl, hR⟩ := h
  have hk := getRa_livKey (s1 := ov s1 R Q H) (s2 := s1) hR ra
  unfold handleLivenessEvent
  cases hg1 : getRa s1 ra with
  | none =>
    rw [hg1] at hk
    cases hg2 : getRa (ov s1 R Q H) ra with
    | none => exact ⟨R, Q, H, rfl, hR⟩
    | some r2 => rw [hg2] at hk; cases hk
  | some r1 =>
    rw [hg1] at hk
    cases hg2 : getRa (ov s1 R Q H) ra with
    | none => rw [hg2] at hk; cases hk
    | some r2 =>
      rw [hg2] at hk
      simp only [Option.map_some, Option.some.injEq] at hk
      dsimp only
      rw [slashLiveness_ov s1 R Q H r1 r2 (livKey_fields hk).2.2]
      cases hsl : slashLiveness s1 r1 with
      | error e => exact ⟨R, Q, H, rfl, hR⟩
      | ok s1' =>
        have hras : s1'.ras = s1.ras := (slashLiveness_frame hsl).ras
        have hg1' : getRa s1' ra = some r1 := by rw [getRa_frame hras]; exact hg1
        have hg2' : getRa (ov s1' R Q H) ra = some r2 := hg2
        simp only [ovS, hg1', hg2']
        unfold scheduleEvent
        dsimp only
        have hcd : r2.cdStart = r1.cdStart := (livKey_fields hk).2.1
        have hid : r2.id = r1.id := (livKey_fields hk).1
        refine ⟨(setRa (ov s1' R Q H) { r2 with evH := nextSlashHeight s1'.p.lsBlocks s1'.p.lsInterval s1'.h r1.cdStart }).ras,
          Q, H, ?_, ?_⟩
        · show setRa _ _ = _
          unfold setRa ov
          rw [hcd, hid]
        · apply setRa_livKey
          · show R.map livKey = s1'.ras.map livKey
            rw [hras]; exact hR
          · unfold livKey at hk ⊢
            simp only [Prod.mk.injEq] at hk ⊢
            refine ⟨hk.1, hk.2.1, hk.2.2.1, hk.2.2.2.1, hk.2.2.2.2.1, hk.2.2.2.2.2.1, trivial, hk.2.2.2.2.2.2.2⟩

theorem checkLiveness_livEq {s1 s2 : St} (h : LivEq s1 s2) : LivEq (checkLiveness s1) (checkLiveness s2) := by
  unfold checkLiveness
  obtain ⟨R, Q, H, rfl, hR⟩ := h
  have hl : (ov s1 R Q H).lev = s1.lev := rfl
  have hh : (ov s1 R Q H).h = s1.h := rfl
  rw [hl, hh]
  have : ∀ (l : List (Nat × Nat)) (a b : St), LivEq a b →
      LivEq (l.foldl (fun acc e => handleLivenessEvent acc e.2) a) (l.foldl (fun acc e => handleLivenessEvent acc e.2) b) := by
    intro l
    induction l with
    | nil => intro a b hab; exact hab
    | cons x xs ih => intro a b hab; exact ih _ _ (handleLivenessEvent_livEq hab x.2)
  exact this _ _ _ ⟨R, Q, H, rfl, hR⟩

theorem rollapp_ext_keys {a b : Rollapp} (h1 : livKey a = livKey b) (h2 : finPart a = finPart b) : a = b := by
  cases a; cases b
  unfold livKey at h1
  unfold finPart at h2
  simp only [Prod.mk.injEq] at h1 h2
  simp only [Rollapp.mk.injEq]
  exact ⟨h1.1, h1.2.1, h1.2.2.1, h1.2.2.2.1, h1.2.2.2.2.1, h2.1, h2.2, h1.2.2.2.2.2.1, h1.2.2.2.2.2.2.1,
    h1.2.2.2.2.2.2.2.1, h1.2.2.2.2.2.2.2.2.1, h1.2.2.2.2.2.2.2.2.2⟩

theorem LivEq.refl (s : St) : LivEq s s := ⟨s.ras, s.queue, s.seqH, rfl, rfl⟩

theorem LivEq.trans {a b c : St} (h1 : LivEq a b) (h2 : LivEq b c) : LivEq a c := by
  obtain ⟨R, Q, H, rfl, hR⟩ := h1
  obtain ⟨R', Q', H', rfl, hR'⟩ := h2
  exact ⟨R', Q', H', rfl, hR'.trans hR⟩

theorem LivEq.symm {a b : St} (h : LivEq a b) : LivEq b a := by
  obtain ⟨R, Q, H, rfl, hR⟩ := h
  exact ⟨a.ras, a.queue, a.seqH, rfl, hR.symm⟩

theorem setRa_livKey_self {s : St} (hn : IdsNodup s) {id : Nat} {r r' : Rollapp} (hg : getRa s id = some r)
    (hk : livKey r' = livKey r) : (setRa s r').ras.map livKey = s.ras.map livKey := by
  unfold setRa
  simp only [List.map_map]
  apply List.map_congr_left
  intro x hx
  simp only [Function.comp]
  by_cases hc : (x.id == r'.id) = true
  · have hxid : x.id = r'.id := by simpa using hc
    have : x = r := hn.unique hx (getRa_mem hg) (by rw [hxid, (livKey_fields hk).1])
    rw [if_pos hc, hk, this]
  · rw [if_neg hc]

theorem finalizeOne_livEq {s s' : St} {fails : List (Nat × Nat)} {ra idx : Nat} (hn : IdsNodup s)
    (e : finalizeOne s fails ra idx = some s') : LivEq s s' := by
  unfold finalizeOne at e
  split at e
  · cases e
  · split at e
    · cases e
    · rename_i r hg
      split at e
      · cases e
      · rename_i st hst
        split at e
        · cases e
        · dsimp only at e
          injection e with e; subst e
          refine ⟨(setRa { s with seqH := s.seqH.filter (fun p => !(p.1 == st.creator && st.bds.any (·.height == p.2))) }
              { r with states := r.states.set (idx - 1) { st with finalized := true, finalizedAt := s.h }, lastFin := idx }).ras,
            s.queue, s.seqH.filter (fun p => !(p.1 == st.creator && st.bds.any (·.height == p.2))), rfl, ?_⟩
          exact setRa_livKey_self (s := { s with seqH := s.seqH.filter (fun p => !(p.1 == st.creator && st.bds.any (·.height == p.2))) })
            hn hg rfl

theorem go_livEq (fails : List (Nat × Nat)) (e : QEntry) : ∀ (l : List Nat) (s : St), IdsNodup s →
    LivEq s (finalizeEntry.go fails e s l).1 := by
  intro l
  induction l with
  | nil => intro s _; unfold finalizeEntry.go; exact ⟨s.ras, _, s.seqH, rfl, rfl⟩
  | cons i tl ih =>
    intro s hn
    unfold finalizeEntry.go
    split
    · rename_i s1 h1
      exact (finalizeOne_livEq hn h1).trans (ih s1 (finalizeOne_rel hn h1).2)
    · exact ⟨s.ras, _, s.seqH, rfl, rfl⟩

theorem finalizeAll_livEq (fails : List (Nat × Nat)) : ∀ (es : List QEntry) (failed : List Nat) (s : St), IdsNodup s →
    LivEq s (finalizeAll s fails es failed) := by
  intro es
  induction es with
  | nil => intro failed s _; unfold finalizeAll; exact LivEq.refl s
  | cons e es ih =>
    intro failed s hn
    rw [finalizeAll_cons]
    split
    · exact ih failed s hn
    · exact (go_livEq fails e e.idx s hn).trans (ih _ _ (go_rel fails e e.idx s hn).2)

theorem finalizeRollappStates_livEq (s : St) (fails : List (Nat × Nat)) (hn : IdsNodup s) :
    LivEq s (finalizeRollappStates s fails) := by
  unfold finalizeRollappStates
  split
  · exact LivEq.refl s
  · exact finalizeAll_livEq fails _ _ s hn

/-- **isolation, whole record**: the record of rollapp `id` after `EndBlock` is the same under two
    oracles that agree on `id`'s due indices -/
theorem endBlock_iso_full (s : St) (hn : IdsNodup s) (f1 f2 : List (Nat × Nat)) (id : Nat)
    (hag : ∀ e ∈ s.queue, e.ra = id → e.ch + s.p.dispute ≤ s.h → ∀ j ∈ e.idx, f1.contains (id, j) = f2.contains (id, j)) :
    getRa (endBlock s f1) id = getRa (endBlock s f2) id := by
  have h1 := endBlock_iso s f1 f2 id hag
  have hl : LivEq (endBlock s f1) (endBlock s f2) := by
    unfold endBlock
    exact checkLiveness_livEq ((finalizeRollappStates_livEq s f1 hn).symm.trans (finalizeRollappStates_livEq s f2 hn))
  obtain ⟨R, Q, H, h2, hR⟩ := hl
  have h3 := getRa_livKey (s1 := endBlock s f2) (s2 := endBlock s f1) (by rw [h2]; exact hR) id
  cases ha : getRa (endBlock s f1) id with
  | none =>
    rw [ha] at h1 h3
    cases hb : getRa (endBlock s f2) id with
    | none => rfl
    | some b => rw [hb] at h1; cases h1
  | some a =>
    rw [ha] at h1 h3
    cases hb : getRa (endBlock s f2) id with
    | none => rw [hb] at h1; cases h1
    | some b =>
      rw [hb] at h1 h3
      simp only [Option.map_some, Option.some.injEq] at h1 h3
      rw [rollapp_ext_keys h3.symm h1]

end DymVerif.Core
