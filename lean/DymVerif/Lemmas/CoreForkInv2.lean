/-
  Lemmas/CoreForkInv2 — the invariants `PropRa` / `Liab` through the three transitions that are not
  `Good`: the hard fork (states and revisions change, liabilities pruned), finalization of one state
  (flag set, liabilities cleared) and the append of a new state.
-/
import DymVerif.Lemmas.CoreForkInv
namespace DymVerif.Core.Fork

/-- everything the step lemmas need of the pre-state -/
structure Inv (s : St) : Prop where
  chain : ChainAll s
  cust : Cust s
  j : J s

theorem PropRa.congr {s s' : St} (h : PropRa s) (e1 : s'.ras = s.ras) (e2 : s'.seqs = s.seqs) : PropRa s' := by
  intro id r hg
  rw [getRa_congr e1] at hg
  exact (h id r hg).congr e2

-- ---------------------------------------------------------------- weak step: sequencers stay, states stay up to NextProposer

def StatesKeep (s s' : St) : Prop :=
  ∀ id r, getRa s id = some r → ∃ r', getRa s' id = some r' ∧ r'.states.map eraseNext = r.states.map eraseNext

structure Weak (s s' : St) : Prop where
  seqMono : SeqMono s s'
  statesKeep : StatesKeep s s'

theorem Weak.refl (s : St) : Weak s s := ⟨SeqMono.refl s, fun _ r h => ⟨r, h, rfl⟩⟩

theorem Weak.trans {s1 s2 s3 : St} (a : Weak s1 s2) (b : Weak s2 s3) : Weak s1 s3 := by
  refine ⟨a.seqMono.trans b.seqMono, ?_⟩
  intro id r hg
  obtain ⟨r', h1, h2⟩ := a.statesKeep id r hg
  obtain ⟨r'', h3, h4⟩ := b.statesKeep id r' h1
  exact ⟨r'', h3, h4.trans h2⟩

theorem Good.weak {s s' : St} (g : Good s s') : Weak s s' := by
  refine ⟨g.seqMono, ?_⟩
  intro id r hg
  obtain ⟨r', h1, h2, _⟩ := g.keep id r hg
  exact ⟨r', h1, congrArg Prod.snd h2⟩

-- ---------------------------------------------------------------- hard fork

theorem forkMid_J {s : St} {ra n keep : Nat} {r : Rollapp} {kst : SInfo} (hc : Chain r.states)
    (hg : getRa s ra = some r) (hplan : revertPlan r n = .ok (keep, kst)) (h : J s) :
    J (forkMid s ra r keep kst) := by
  obtain ⟨stk, l, ps⟩ := revertPlan_spec hc hplan
  have hkp := ps.keep_pos
  have hklen := getElem?_lt ps.hst
  have hseqs : (forkMid s ra r keep kst).seqs = s.seqs := rfl
  have hsame := forkMid_getRa_same (keep := keep) (kst := kst) hg
  constructor
  · intro id r' hg'
    by_cases hid : id = ra
    · subst hid
      rw [hsame] at hg'; injection hg' with hg'; subst hg'
      exact ((h.prop id r hg).of_fields rfl rfl rfl).congr hseqs
    · rw [forkMid_getRa_other hg hid] at hg'
      exact (h.prop id r' hg').congr hseqs
  · intro p hp
    have hp' : p ∈ pruneSeqHeights s.seqH (kst.creator :: (r.states.drop keep).map (·.creator)) kst.last := hp
    rw [mem_pruneSeqHeights] at hp'
    obtain ⟨ra0, r0, i, st, h1, h2, h3, h4, h5, h6, h7⟩ := h.liab p hp'.1
    by_cases hra : ra0 = ra
    · subst hra
      rw [hg] at h2; injection h2 with h2; subst h2
      have hstates : ∀ j : Nat, ({ forkedRollapp r keep kst with evH := 0, cdStart := s.h } : Rollapp).states[j]? =
          (r.states.take (keep - 1) ++ [kst])[j]? := fun _ => rfl
      rcases Nat.lt_trichotomy (i + 1) keep with hlt | heq | hgt
      · refine ⟨ra0, _, i, st, h1.congr hseqs, hsame, ?_, h4, h5, h6, h7⟩
        rw [hstates, List.getElem?_append_left (by rw [List.length_take]; omega), List.getElem?_take_of_lt (by omega)]
        exact h3
      · have hi : i = keep - 1 := by omega
        subst hi
        rw [ps.hst] at h3; injection h3 with h3; subst h3
        have hle : p.2 ≤ kst.last := hp'.2 (by rw [ps.kst_creator, h4]; simp)
        refine ⟨ra0, _, keep - 1, kst, h1.congr hseqs, hsame, ?_, ps.kst_creator.trans h4,
          ps.kst_finalized.trans h5, by rw [ps.kst_start]; exact h6, hle⟩
        rw [hstates, List.getElem?_append_right (by rw [List.length_take]; omega)]
        rw [List.length_take, Nat.min_eq_left (by omega)]; simp
      · exfalso
        have hab := ps.above hc i st (by omega) h3
        have hmem : st ∈ r.states.drop keep := by
          have hlen := getElem?_lt h3
          apply List.mem_iff_getElem?.2
          refine ⟨i - keep, ?_⟩
          rw [List.getElem?_drop, show keep + (i - keep) = i by omega]; exact h3
        have hle : p.2 ≤ kst.last := hp'.2 (by
          simp only [List.mem_cons, List.mem_map]
          exact Or.inr ⟨st, hmem, h4⟩)
        omega
    · exact ⟨ra0, r0, i, st, h1.congr hseqs, by rw [forkMid_getRa_other hg hra]; exact h2, h3, h4, h5, h6, h7⟩
  · intro id r' hg' st hst
    by_cases hid : id = ra
    · subst hid
      rw [hsame] at hg'; injection hg' with hg'; subst hg'
      have hst : st ∈ r.states.take (keep - 1) ++ [kst] := hst
      rcases List.mem_append.1 hst with h1 | h1
      · exact (h.creators id r hg st (List.mem_of_mem_take h1)).congr hseqs
      · have : st = kst := by simpa using h1
        subst this
        rw [ps.kst_creator]
        exact (h.creators id r hg stk (List.mem_of_getElem? ps.hst)).congr hseqs
    · rw [forkMid_getRa_other hg hid] at hg'
      exact (h.creators id r' hg' st hst).congr hseqs

theorem hardFork_J {s s' : St} {ra lv : Nat} (hc : ChainAll s) (h : J s) (e : hardFork s ra lv = .ok s') : J s' := by
  obtain ⟨r, keep, kst, hg, _, _, _, hplan, hs⟩ := hardFork_ok_elim e
  subst hs
  exact (seqOnHardFork_good _ _).J (forkMid_J (hc.get hg) hg hplan h)

theorem hardFork_seqMono {s s' : St} {ra lv : Nat} (e : hardFork s ra lv = .ok s') : SeqMono s s' := by
  obtain ⟨r, keep, kst, hg, _, _, _, hplan, hs⟩ := hardFork_ok_elim e
  subst hs
  exact (SeqMono.of_seqs (s := s) (s' := forkMid s ra r keep kst) rfl).trans (seqOnHardFork_good _ _).seqMono

theorem hardForkToLatest_J {s s' : St} {ra : Nat} (hc : ChainAll s) (h : J s) (e : hardForkToLatest s ra = .ok s') : J s' := by
  obtain ⟨r, lh, _, _, hf⟩ := hardForkToLatest_ok_elim e
  exact hardFork_J hc h hf

/-- the plan of a fork to the latest height: keep every state, clear the last `NextProposer` -/
theorem hardForkToLatest_plan {s s' : St} {ra : Nat} (e : hardForkToLatest s ra = .ok s') :
    ∃ r lh, getRa s ra = some r ∧ latestHeight r = some lh ∧ hardFork s ra lh = .ok s' ∧
      (Chain r.states → ∃ l, r.states.getLast? = some l ∧ (lh + 1) % 2 ^ 64 = lh + 1 ∧
        revertPlan r ((lh + 1) % 2 ^ 64) = .ok (r.states.length, { l with next := NextP.empty })) := by
  obtain ⟨r, lh, hg, hl, hf⟩ := hardForkToLatest_ok_elim e
  refine ⟨r, lh, hg, hl, hf, ?_⟩
  intro hc
  obtain ⟨r1, keep, kst, hg1, _, _, _, hplan, _⟩ := hardFork_ok_elim hf
  rw [hg] at hg1; injection hg1 with hg1; subst hg1
  obtain ⟨st, l, ps⟩ := revertPlan_spec hc hplan
  have hlh : lh = l.last := by
    unfold latestHeight at hl; rw [ps.hl] at hl; injection hl with hl; exact hl.symm
  have hwl := hc.wf l (List.mem_of_getLast? ps.hl)
  have hov := hwl.no_overflow
  have hnp := hwl.num_pos
  have hll := hwl.last_eq
  have hmod : (lh + 1) % 2 ^ 64 = lh + 1 := Nat.mod_eq_of_lt (by omega)
  have hkl : kst.last = l.last := by
    have := ps.h_min
    rw [hmod] at this
    omega
  have hlen := getElem?_lt ps.hst
  have hkp := ps.keep_pos
  have hkeep : keep = r.states.length := by
    rcases Nat.lt_or_ge keep r.states.length with h1 | h1
    · exfalso
      have hll2 : r.states[r.states.length - 1]? = some l := by rw [← getLast?_getElem?]; exact ps.hl
      have := ps.above hc (r.states.length - 1) l (by omega) hll2
      have := hwl.start_pos
      omega
    · omega
  subst hkeep
  have hsl : st = l := by
    have h1 := ps.hst
    rw [← getLast?_getElem?, ps.hl] at h1
    injection h1 with h1; exact h1.symm
  subst hsl
  refine ⟨st, ps.hl, hmod, ?_⟩
  rw [hplan]
  have := ps.kst_eq
  rw [hkl, hll, show st.start + st.num - 1 + 1 - st.start = st.num by omega, take_num_bds hwl] at this
  rw [this]

theorem hardForkToLatest_weak {s s' : St} {ra : Nat} (hc : ChainAll s) (e : hardForkToLatest s ra = .ok s') : Weak s s' := by
  obtain ⟨r, lh, hg, hl, hf, hp⟩ := hardForkToLatest_plan e
  obtain ⟨l, hlast, _, hplan⟩ := hp (hc.get hg)
  refine ⟨hardFork_seqMono hf, ?_⟩
  intro id r0 hg0
  by_cases hid : id = ra
  · subst hid
    rw [hg] at hg0; injection hg0 with hg0; subst hg0
    obtain ⟨p', h1, _⟩ := hardFork_getRa_same hg hplan hf
    refine ⟨_, h1, ?_⟩
    show (r.states.take (r.states.length - 1) ++ [{ l with next := NextP.empty }]).map eraseNext = r.states.map eraseNext
    obtain ⟨ys, hys⟩ := List.getLast?_eq_some_iff.1 hlast
    rw [hys]
    simp [eraseNext]
  · exact ⟨r0, by rw [hardFork_getRa_other hf hid]; exact hg0, rfl⟩

-- ---------------------------------------------------------------- finalization of one state

theorem _root_.DymVerif.Core.SInfo.WF.bd_at {st : SInfo} (hw : st.WF) {h : Nat} (h1 : st.start ≤ h) (h2 : h ≤ st.last) :
    ∃ b ∈ st.bds, b.height = h := by
  rw [hw.last_eq] at h2
  have hlen := hw.bds_len
  have hnp := hw.num_pos
  have hi : h - st.start < st.bds.length := by omega
  refine ⟨st.bds[h - st.start], List.getElem_mem hi, ?_⟩
  rw [hw.bds_seq (h - st.start) _ (by simp [hi])]
  omega

theorem finalizeOne_J {s s' : St} {fails : List (Nat × Nat)} {ra idx : Nat} (hc : ChainAll s) (h : J s)
    (e : finalizeOne s fails ra idx = some s') : J s' := by
  unfold finalizeOne at e
  split at e
  · cases e
  · split at e
    · cases e
    · rename_i r hg
      split at e
      · cases e
      · rename_i st hst
        split at e
        · cases e
        · dsimp only at e
          injection e with e; subst e
          have hid := getRa_id hg
          have hgr : getRa { s with seqH := s.seqH.filter (fun p => !(p.1 == st.creator && st.bds.any (·.height == p.2))) } r.id = some r := by
            show getRa s r.id = some r; rw [hid]; exact hg
          have hsame := getRa_setRa_same (r := { r with states := r.states.set (idx - 1) { st with finalized := true, finalizedAt := s.h }, lastFin := idx }) hgr
          have hoth : ∀ x, x ≠ r.id → getRa (setRa { s with seqH := s.seqH.filter (fun p => !(p.1 == st.creator && st.bds.any (·.height == p.2))) }
              { r with states := r.states.set (idx - 1) { st with finalized := true, finalizedAt := s.h }, lastFin := idx }) x = getRa s x :=
            fun x hx => getRa_setRa_other hx
          constructor
          · intro id r' hg'
            by_cases hx : id = r.id
            · subst hx
              rw [hsame] at hg'; injection hg' with hg'; subst hg'
              exact ((h.prop ra r hg).of_fields rfl rfl rfl).congr rfl
            · rw [hoth id hx] at hg'
              exact (h.prop id r' hg').congr rfl
          · intro p hp
            have hp' : p ∈ s.seqH.filter (fun p => !(p.1 == st.creator && st.bds.any (·.height == p.2))) := hp
            rw [List.mem_filter] at hp'
            obtain ⟨ra0, r0, i, st0, h1, h2, h3, h4, h5, h6, h7⟩ := h.liab p hp'.1
            by_cases hra : ra0 = r.id
            · subst hra
              rw [hid, hg] at h2; injection h2 with h2; subst h2
              by_cases hi : idx - 1 = i
              · exfalso
                subst hi
                rw [hst] at h3; injection h3 with h3; subst h3
                have hw := (hc.get hg).wf st (List.mem_of_getElem? hst)
                obtain ⟨b, hb, hbh⟩ := hw.bd_at h6 h7
                have h8 := hp'.2
                have hany : st.bds.any (·.height == p.2) = true := List.any_eq_true.2 ⟨b, hb, by simp [hbh]⟩
                rw [hany] at h8
                simp [h4] at h8
              · refine ⟨r.id, _, i, st0, h1.congr rfl, hsame, ?_, h4, h5, h6, h7⟩
                show (r.states.set (idx - 1) _)[i]? = some st0
                rw [List.getElem?_set_ne hi]; exact h3
            · exact ⟨ra0, r0, i, st0, h1.congr rfl, by rw [hoth ra0 hra]; exact h2, h3, h4, h5, h6, h7⟩
          · intro id r' hg' x hx
            by_cases hxid : id = r.id
            · subst hxid
              rw [hsame] at hg'; injection hg' with hg'; subst hg'
              have hx : x ∈ r.states.set (idx - 1) { st with finalized := true, finalizedAt := s.h } := hx
              rcases List.mem_or_eq_of_mem_set hx with h1 | h1
              · rw [hid]; exact (h.creators ra r hg x h1).congr rfl
              · subst h1
                rw [hid]; exact (h.creators ra r hg st (List.mem_of_getElem? hst)).congr rfl
            · rw [hoth id hxid] at hg'
              exact (h.creators id r' hg' x hx).congr rfl

-- ---------------------------------------------------------------- appending a state

theorem appendState_J {s : St} {id : Nat} {r : Rollapp} {new : SInfo} (hg : getRa s id = some r) (h : J s)
    (hnew : SeqOf s new.creator id) :
    J (setRa s { r with states := r.states ++ [new] }) := by
  have hid := getRa_id hg
  have hsame := getRa_setRa_same (r := { r with states := r.states ++ [new] }) (r0 := r)
    (by show getRa s r.id = some r; rw [hid]; exact hg)
  have hoth : ∀ x, x ≠ r.id → getRa (setRa s { r with states := r.states ++ [new] }) x = getRa s x :=
    fun x hx => getRa_setRa_other hx
  constructor
  · intro id' r' hg'
    by_cases hx : id' = r.id
    · subst hx
      rw [hsame] at hg'; injection hg' with hg'; subst hg'
      exact ((h.prop id r hg).of_fields rfl rfl rfl).congr rfl
    · rw [hoth id' hx] at hg'
      exact (h.prop id' r' hg').congr rfl
  · intro p hp
    obtain ⟨ra0, r0, i, st0, h1, h2, h3, h4, h5, h6, h7⟩ := h.liab p hp
    by_cases hra : ra0 = r.id
    · subst hra
      rw [hid, hg] at h2; injection h2 with h2; subst h2
      refine ⟨r.id, _, i, st0, h1.congr rfl, hsame, ?_, h4, h5, h6, h7⟩
      show (r.states ++ [new])[i]? = some st0
      rw [List.getElem?_append_left (getElem?_lt h3)]; exact h3
    · exact ⟨ra0, r0, i, st0, h1.congr rfl, by rw [hoth ra0 hra]; exact h2, h3, h4, h5, h6, h7⟩
  · intro id' r' hg' x hx
    by_cases hxid : id' = r.id
    · subst hxid
      rw [hsame] at hg'; injection hg' with hg'; subst hg'
      have hx : x ∈ r.states ++ [new] := hx
      rcases List.mem_append.1 hx with h1 | h1
      · rw [hid]; exact (h.creators id r hg x h1).congr rfl
      · have : x = new := by simpa using h1
        subst this
        rw [hid]; exact hnew.congr rfl
    · rw [hoth id' hxid] at hg'
      exact (h.creators id' r' hg' x hx).congr rfl

theorem mem_addSeqHeights (a : Addr) (bds : List BD) (sh : List (Addr × Nat)) (p : Addr × Nat)
    (h : p ∈ addSeqHeights sh a bds) : p ∈ sh ∨ ∃ b ∈ bds, p = (a, b.height) := by
  unfold addSeqHeights at h
  induction bds generalizing sh with
  | nil => exact Or.inl h
  | cons b bs ih =>
    rw [List.foldl_cons] at h
    rcases ih _ h with h1 | ⟨b', hb', hp⟩
    · rcases insertSorted_mem' _ _ _ _ h1 with h2 | h2
      · exact Or.inr ⟨b, by simp, h2⟩
      · exact Or.inl h2
    · exact Or.inr ⟨b', by simp [hb'], hp⟩

end DymVerif.Core.Fork
