/-
  Lemmas/GenEqAnteLC — the facts about the hub's nested-message filter (app/ante/reject_msgs.go +
  cosmos_handler.go, regenerated into Gen/Ante.lean on every check) that M-LC's `Wrap.nested` /
  `Wrap.storedProposal` / `MKind.*Nested` / `MKind.*Stored` refusals rest on: an ibc `MsgUpdateClient` /
  `MsgSubmitMisbehaviour` is refused at every depth ≥ 1, and the filter descends into authz.MsgExec, gov v1 and
  x/group `MsgSubmitProposal` UNCONDITIONALLY (whatever the proposal's `Exec` field says: a proposal stored now
  and executed later by a vote runs through the message router only, never through the ante handler).
-/
import DymVerif.Gen.Ante
namespace DymVerif.LC
open DymVerif.Ante

/-- the text of `checkMsg` that is not extracted as data is the modelled one: in particular the `switch` cases
    carry no extra condition (such as `m.Exec == EXEC_TRY`) -/
theorem ante_filter_shape : Gen.Ante.shapeOk = true := by decide

/-- x/group and gov proposals and authz.MsgExec are unwrapped (inner messages checked one level deeper) -/
theorem ante_filter_unwraps_stored_proposals :
    accOf Gen.Ante.config tyGroupSubmit = some .msgs ∧ accOf Gen.Ante.config tyGovSubmit = some .msgs ∧
    accOf Gen.Ante.config tyExec = some .msgs := by decide

/-- the two ibc client messages are refused at every depth ≥ 1 (table fact, all depths up to the filter's maximum) -/
theorem ante_filter_blocks_client_msgs_nested :
    ∀ d ∈ List.range (Gen.Ante.config.maxDepth + 1), 1 ≤ d →
      blocked Gen.Ante.config tyUpdateClient d = true ∧ blocked Gen.Ante.config tyMisbehaviour d = true := by decide

theorem ante_filter_type_names :
    Gen.Ante.typeNames.lookup tyGroupSubmit = some "github.com/cosmos/cosmos-sdk/x/group.MsgSubmitProposal" ∧
    Gen.Ante.typeNames.lookup tyUpdateClient = some "github.com/cosmos/ibc-go/v8/modules/core/02-client/types.MsgUpdateClient" ∧
    Gen.Ante.typeNames.lookup tyMisbehaviour = some "github.com/cosmos/ibc-go/v8/modules/core/02-client/types.MsgSubmitMisbehaviour" := by decide

end DymVerif.LC
