/-
  Lemmas/CoreXLiable — the moment a sequencer becomes liable: an accepted state update records a
  (sequencer, height) pair for every block descriptor it carries (helper of Props/C06X
  `update_makes_liable`).
-/
import DymVerif.Lemmas.CoreLevBasic
namespace DymVerif.Core.XLiable

theorem mem_addSeqHeights_old (a : Addr) (bds : List BD) (sh : List (Addr × Nat)) (p : Addr × Nat)
    (h : p ∈ sh) : p ∈ addSeqHeights sh a bds := by
  unfold addSeqHeights
  induction bds generalizing sh with
  | nil => exact h
  | cons b bs ih =>
    rw [List.foldl_cons]
    exact ih _ (LevNs.mem_insertSorted_of_mem _ _ _ h)

theorem mem_addSeqHeights_new (a : Addr) (bds : List BD) (sh : List (Addr × Nat)) (b : BD) (hb : b ∈ bds) :
    (a, b.height) ∈ addSeqHeights sh a bds := by
  induction bds generalizing sh with
  | nil => cases hb
  | cons x xs ih =>
    have e : addSeqHeights sh a (x :: xs) = addSeqHeights (insertSorted ltPair (a, x.height) sh) a xs := by
      unfold addSeqHeights; rw [List.foldl_cons]
    rw [e]
    rcases List.mem_cons.1 hb with h | h
    · subst h
      exact mem_addSeqHeights_old _ _ _ _ (LevNs.mem_insertSorted_self _ _)
    · exact ih _ h

/-- an accepted `MsgUpdateState` carries at least one block descriptor and leaves a
    (sender, height) liability for each of them -/
theorem updateState_liable {s s' : St} {m : UpdMsg} (e : updateState s m = .ok s') :
    m.bds ≠ [] ∧ ∀ b ∈ m.bds, (m.sender, b.height) ∈ s'.seqH := by
  unfold updateState at e
  split at e
  · cases e
  · rename_i hvb
    have hne : m.bds ≠ [] := by
      unfold updValidateBasic at hvb
      split at hvb
      · cases hvb
      · rename_i h0
        split at hvb
        · cases hvb
        · split at hvb
          · cases hvb
          · rename_i hlen
            intro hnil
            apply h0
            have : m.bds.length = m.num := by simpa using hlen
            rw [← this, hnil]; rfl
    refine ⟨hne, ?_⟩
    split at e
    · cases e
    · split at e
      · cases e
      · split at e
        · cases e
        · split at e
          · cases e
          · split at e
            · cases e
            · split at e
              · cases e
              · split at e
                · cases e
                · rename_i s3 h3
                  dsimp only at e
                  split at e
                  · cases e
                  · rename_i r4 hg4
                    injection e with e; subst e
                    intro b hb
                    show (m.sender, b.height) ∈ addSeqHeights s3.seqH m.sender m.bds
                    exact mem_addSeqHeights_new _ _ _ _ hb

end DymVerif.Core.XLiable
