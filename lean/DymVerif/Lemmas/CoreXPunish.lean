/-
  Lemmas/CoreXPunish — what `PunishSequencer` does to the punished record: the bond goes to zero and
  NOTHING else changes (status stays Bonded, opt-in flag, notice, rollapp, dishonor as they were).
  Helper of Props/C07X (a punished non-proposer remains a potential proposer with a zero bond).
-/
import DymVerif.Lemmas.CoreCustody4
import DymVerif.Lemmas.CoreLevWalk
namespace DymVerif.Core.XPunish

theorem sendFromModule_rec {s s1 : St} {q q1 : Seq} {amt : Nat} {to : Addr}
    (e : sendFromModule s q amt to = .ok (s1, q1)) : q1 = { q with tokens := q.tokens - amt } := by
  unfold sendFromModule at e
  split at e
  · cases e
  · split at e
    · cases e
    · split at e
      · cases e
      · injection e with e; injection e with _ e2; exact e2.symm

theorem burn_rec {s s1 : St} {q q1 : Seq} {amt : Nat} (e : burn s q amt = .ok (s1, q1)) :
    q1 = { q with tokens := q.tokens - amt } := by
  unfold burn at e
  split at e
  · cases e
  · split at e
    · cases e
    · injection e with e; injection e with _ e2; exact e2.symm

/-- a slash rewrites the `tokens` field of the record it is given and nothing else -/
theorem slash_rec {s s1 : St} {q q1 : Seq} {amt : Nat} {mul : Dec} {rw : Option Addr}
    (e : slash s q amt mul rw = .ok (s1, q1)) : q1 = { q with tokens := q1.tokens } := by
  unfold slash at e
  dsimp only at e
  split at e
  · cases e
  · rename_i s0 q0 h0
    have hb := burn_rec e
    have h0' : q0 = { q with tokens := q0.tokens } := by
      split at h0
      · injection h0 with h0; injection h0 with _ h2; subst h2; rfl
      · split at h0
        · have := sendFromModule_rec h0; rw [this]
        · cases h0
    rw [hb, h0']

/-- **`PunishSequencer`**: the punished record ends with zero tokens and is otherwise unchanged — in
    particular a Bonded sequencer stays Bonded (the code never calls `unbond` on this path) and keeps
    its opt-in flag and (absent) notice; no rollapp record is touched. -/
theorem punish_record {s s' : St} {a : Addr} {rw : Option Addr} (e : punish s a rw = .ok s') :
    ∃ q, getSeq s a = some q ∧ getSeq s' a = some { q with tokens := 0 } ∧ s'.ras = s.ras ∧
      ∀ b, b ≠ a → getSeq s' b = getSeq s b := by
  unfold punish at e
  split at e
  · cases e
  · rename_i q hg
    dsimp only at e
    split at e
    · cases e
    · rename_i s1 q1 hs
      have hqa : q.addr = a := getSeq_addr hg
      obtain ⟨paid, hp, hseqs, hq1a, htok, _, _, _⟩ := slash_money hs
      have hrec := slash_rec hs
      injection e with e; subst e
      have hple : paid ≤ q.tokens := by
        rcases hp with h | h
        · omega
        · have := punishShare_le rw q.tokens
          unfold punishShare at this
          rw [h]; omega
      have ht : q1.tokens = 0 := by omega
      have hq1a' : q1.addr = a := hq1a.trans hqa
      have hras : s1.ras = s.ras := (LevNs.slash_same hs).1
      refine ⟨q, hg, ?_, hras, ?_⟩
      · have : getSeq s1 q1.addr = some q := by rw [getSeq_congr hseqs, hq1a']; exact hg
        have h2 := getSeq_setSeq_self this
        rw [hq1a'] at h2
        rw [h2, hrec, ht]
      · intro b hb
        rw [getSeq_setSeq_other (by rw [hq1a']; exact Ne.symm hb), getSeq_congr hseqs]

end DymVerif.Core.XPunish
