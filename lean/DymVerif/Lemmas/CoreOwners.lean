/-
  Lemmas/CoreOwners — `OwnersNotBlocked`: in every reachable state of M-Core no rollapp is owned by an
  address the bank refuses as a recipient (`blockedAddr`, the module accounts of the app's blocked list),
  provided the creators of rollapps are not such addresses (a module account signs no message).
  The owner field is written by `createRollapp` (the signer) and by `transferOwner` only — which refuses
  a blocked new owner (/repo fix 64b101c36); every other handler rewrites rollapp records with
  `{ r with … }` updates that keep the owner.  One walk through every handler, as for the chain invariant.
-/
import DymVerif.Lemmas.CoreChainInv2
namespace DymVerif.Core

/-- the owner of the rollapp record can be paid by the bank -/
def OwQ (r : Rollapp) : Prop := blockedAddr r.owner = false

/-- **OwnersNotBlocked** -/
abbrev OwnersNotBlocked (s : St) : Prop := RaAll OwQ s

theorem OwQ.of_owner {r r' : Rollapp} (h : OwQ r) (e : r'.owner = r.owner) : OwQ r' := by
  unfold OwQ at *; rw [e]; exact h

namespace Owners

theorem ras_eq {s s' : St} (h : OwnersNotBlocked s) (e : s'.ras = s.ras) : OwnersNotBlocked s' :=
  RaAll.of_ras_eq h e

theorem indicateLiveness_ow {s : St} {r : Rollapp} (h : OwnersNotBlocked s) (hr : OwQ r) :
    OwnersNotBlocked (indicateLiveness s r) := by
  unfold indicateLiveness resetClock scheduleEvent
  exact RaAll.setRa (RaAll.of_ras_eq h rfl) hr

theorem afterSetRealProposer_ow {s : St} {ra : Nat} {a : Addr} (h : OwnersNotBlocked s) :
    OwnersNotBlocked (afterSetRealProposer s ra a) := by
  unfold afterSetRealProposer
  split
  · exact h
  · rename_i r hg
    have h1 := indicateLiveness_ow h (h.get hg)
    split
    · exact h1
    · rename_i r1 hg1
      exact RaAll.setRa h1 ((h1.get hg1).of_owner rfl)

theorem recoverFromSentinel_ow {s s' : St} {ra : Nat} (h : OwnersNotBlocked s)
    (e : recoverFromSentinel s ra = .ok s') : OwnersNotBlocked s' := by
  unfold recoverFromSentinel at e
  split at e
  · cases e
  · rename_i r hg
    split at e
    · cases e
    · split at e
      · cases e
      · injection e with e; subst e
        exact afterSetRealProposer_ow (RaAll.setRa h ((h.get hg).of_owner rfl))

theorem setProposer_ow {s : St} {ra : Nat} {a : Option Addr} (h : OwnersNotBlocked s) :
    OwnersNotBlocked (setProposer s ra a) := by
  unfold setProposer
  split
  · exact h
  · rename_i r hg; exact RaAll.setRa h ((h.get hg).of_owner rfl)

theorem setSuccessor_ow {s : St} {ra : Nat} {a : Option Addr} (h : OwnersNotBlocked s) :
    OwnersNotBlocked (setSuccessor s ra a) := by
  unfold setSuccessor
  split
  · exact h
  · rename_i r hg; exact RaAll.setRa h ((h.get hg).of_owner rfl)

theorem abruptRemoveProposer_ow {s : St} {ra : Nat} (h : OwnersNotBlocked s) :
    OwnersNotBlocked (abruptRemoveProposer s ra) := by
  unfold abruptRemoveProposer
  split
  · exact h
  · split
    · exact h
    · split
      · exact h
      · exact setProposer_ow (ras_eq h (by simp [removeFromNoticeQueue_ras]))

theorem seqOnHardFork_ow {s : St} {ra : Nat} (h : OwnersNotBlocked s) : OwnersNotBlocked (seqOnHardFork s ra) := by
  unfold seqOnHardFork
  exact setSuccessor_ow (abruptRemoveProposer_ow (ras_eq h rfl))

theorem hardFork_ow {s s' : St} {ra lv : Nat} (h : OwnersNotBlocked s) (e : hardFork s ra lv = .ok s') :
    OwnersNotBlocked s' := by
  unfold hardFork at e
  split at e
  · cases e
  · rename_i r hg
    split at e
    · cases e
    · split at e
      · cases e
      · split at e
        · cases e
        · rename_i keep kst hplan
          dsimp only at e
          injection e with e; subst e
          apply seqOnHardFork_ow
          unfold resetClock
          exact RaAll.setRa (ras_eq h rfl) ((h.get hg).of_owner rfl)

theorem hardForkToLatest_ow {s s' : St} {ra : Nat} (h : OwnersNotBlocked s)
    (e : hardForkToLatest s ra = .ok s') : OwnersNotBlocked s' := by
  unfold hardForkToLatest at e
  split at e
  · cases e
  · split at e
    · cases e
    · exact hardFork_ow h e

theorem onProposerLastBlock_ow {s s' : St} {q : Seq} (h : OwnersNotBlocked s)
    (e : onProposerLastBlock s q = .ok s') : OwnersNotBlocked s' := by
  unfold onProposerLastBlock at e
  split at e
  · cases e
  · split at e
    · cases e
    · rename_i r hg
      dsimp only at e
      have h1 : OwnersNotBlocked (setRa s { r with successor := none, proposer := r.successor }) :=
        RaAll.setRa h ((h.get hg).of_owner rfl)
      split at e
      · exact hardForkToLatest_ow h1 e
      · injection e with e; subst e
        exact afterSetRealProposer_ow h1

theorem seqAfterUpdate_ow {s s' : St} {m : UpdMsg} {b : Bool} (h : OwnersNotBlocked s)
    (e : seqAfterUpdate s m b = .ok s') : OwnersNotBlocked s' := by
  unfold seqAfterUpdate at e
  split at e
  · cases e
  · dsimp only at e
    split at e
    · exact onProposerLastBlock_ow (show OwnersNotBlocked (setSeq s _) from ras_eq h rfl) e
    · injection e with e; subst e; exact ras_eq h rfl

theorem updateState_ow {s s' : St} {m : UpdMsg} (h : OwnersNotBlocked s) (e : updateState s m = .ok s') :
    OwnersNotBlocked s' := by
  unfold updateState at e
  split at e
  · cases e
  · split at e
    · cases e
    · rename_i r hg
      split at e
      · cases e
      · split at e
        · cases e
        · split at e
          · cases e
          · split at e
            · cases e
            · split at e
              · cases e
              · split at e
                · cases e
                · rename_i s3 h3
                  dsimp only at e
                  split at e
                  · cases e
                  · rename_i r4 hg4
                    injection e with e; subst e
                    have hnew : OwnersNotBlocked (setRa s { r with states := r.states ++ [newSInfo s m (updSucc r m)] }) :=
                      RaAll.setRa h ((h.get hg).of_owner rfl)
                    have h3' := seqAfterUpdate_ow hnew h3
                    exact indicateLiveness_ow (RaAll.of_ras_eq h3' rfl) ((RaAll.of_ras_eq h3' rfl).get hg4)

theorem createSeq_ow {s s' : St} {a : Addr} {ra bond : Nat} {d : Bool} (h : OwnersNotBlocked s)
    (e : createSeq s a ra bond d = .ok s') : OwnersNotBlocked s' := by
  unfold createSeq at e
  split at e
  · cases e
  · rename_i r hg
    split at e
    · cases e
    · split at e
      · cases e
      · split at e
        · cases e
        · split at e
          · cases e
          · dsimp only at e
            have h0 : OwnersNotBlocked (if r.launched = true then s else setRa s { r with launched := true }) := by
              split
              · exact h
              · exact RaAll.setRa h ((h.get hg).of_owner rfl)
            split at e
            · cases e
            · rename_i s1 q1 hs
              have h1 : OwnersNotBlocked s1 := ras_eq h0 (sendToModule_ras hs)
              have h2 : OwnersNotBlocked { s1 with seqs := insertSorted (fun x y => decide (x.addr < y.addr)) q1 s1.seqs } :=
                ras_eq h1 rfl
              split at e
              · cases e
              · split at e
                · exact recoverFromSentinel_ow h2 e
                · injection e with e; subst e; exact h2

theorem increaseBond_ow {s s' : St} {a : Addr} {amt : Nat} {d : Bool} (h : OwnersNotBlocked s)
    (e : increaseBond s a amt d = .ok s') : OwnersNotBlocked s' := by
  unfold increaseBond at e
  split at e
  · cases e
  · split at e
    · cases e
    · split at e
      · cases e
      · split at e
        · cases e
        · rename_i s1 q1 hs
          injection e with e; subst e
          exact ras_eq (ras_eq h (sendToModule_ras hs)) rfl

theorem decreaseBond_ow {s s' : St} {a : Addr} {amt : Nat} (h : OwnersNotBlocked s)
    (e : decreaseBond s a amt = .ok s') : OwnersNotBlocked s' := by
  unfold decreaseBond at e
  split at e
  · cases e
  · split at e
    · cases e
    · split at e
      · cases e
      · rename_i s1 q1 hs
        injection e with e; subst e
        exact ras_eq (ras_eq h (tryUnbond_ras hs)) rfl

theorem unbond_ow {s s' : St} {a : Addr} (h : OwnersNotBlocked s) (e : unbond s a = .ok s') :
    OwnersNotBlocked s' := by
  unfold unbond at e
  repeat' split at e
  all_goals first
    | (injection e with e; subst e; exact ras_eq h rfl)
    | (rename_i s1 q1 hs; injection e with e; subst e; exact ras_eq (ras_eq h (tryUnbond_ras hs)) rfl)
    | (cases e; done)

theorem optIn_ow {s s' : St} {a : Addr} {v : Bool} (h : OwnersNotBlocked s) (e : optIn s a v = .ok s') :
    OwnersNotBlocked s' := by
  unfold optIn at e
  split at e
  · cases e
  · split at e
    · cases e
    · dsimp only at e
      have h1 : ∀ q : Seq, OwnersNotBlocked (setSeq s q) := fun q => ras_eq h rfl
      split at e
      · cases e
      · split at e
        · exact recoverFromSentinel_ow (h1 _) e
        · injection e with e; subst e; exact h1 _

theorem kick_ow {s s' : St} {a : Addr} (h : OwnersNotBlocked s) (e : kick s a = .ok s') : OwnersNotBlocked s' := by
  unfold kick at e
  split at e
  · cases e
  · split at e
    · cases e
    · split at e
      · cases e
      · split at e
        · cases e
        · split at e
          · cases e
          · split at e
            · cases e
            · split at e
              · cases e
              · dsimp only at e
                split at e
                · cases e
                · rename_i s3 h3
                  have := hardForkToLatest_ow (abruptRemoveProposer_ow h) h3
                  exact recoverFromSentinel_ow (show OwnersNotBlocked (setSeq s3 _) from ras_eq this rfl) e

theorem punish_ow {s s' : St} {a : Addr} {rw : Option Addr} (h : OwnersNotBlocked s) (e : punish s a rw = .ok s') :
    OwnersNotBlocked s' := by
  unfold punish at e
  split at e
  · cases e
  · dsimp only at e
    split at e
    · cases e
    · rename_i s1 q1 hs
      injection e with e; subst e
      exact ras_eq (ras_eq h (slash_ras hs)) rfl

theorem fraud_ow {s s' : St} {au : Bool} {ra hh rev : Nat} {p rw : Option Addr} (h : OwnersNotBlocked s)
    (e : fraud s au ra hh rev p rw = .ok s') : OwnersNotBlocked s' := by
  unfold fraud at e
  split at e
  · cases e
  · split at e
    · cases e
    · split at e
      · cases e
      · split at e
        · cases e
        · dsimp only at e
          split at e
          · cases e
          · rename_i s1 h1
            have : OwnersNotBlocked s1 := by
              split at h1
              · exact punish_ow h h1
              · injection h1 with h1; subst h1; exact h
            exact hardFork_ow this e

theorem markObsolete_ow {s s' : St} {au : Bool} {vs : List Nat} (h : OwnersNotBlocked s)
    (e : markObsolete s au vs = .ok s') : OwnersNotBlocked s' := by
  unfold markObsolete at e
  split at e
  · cases e
  · split at e
    · cases e
    · dsimp only at e
      injection e with e; subst e
      apply foldl_inv OwnersNotBlocked
      · exact ras_eq h rfl
      · intro b r0 hb
        split
        · exact hb
        · split
          · exact hb
          · split
            · split
              · rename_i a ha; exact hardForkToLatest_ow hb ha
              · exact hb
            · exact hb

theorem beginBlock_ow {s : St} {dt : Nat} (h : OwnersNotBlocked s) : OwnersNotBlocked (beginBlock s dt) := by
  unfold beginBlock
  dsimp only
  apply foldl_inv OwnersNotBlocked
  · exact ras_eq h rfl
  · intro b e hb
    have hb1 : OwnersNotBlocked { b with nq := b.nq.filter (fun x => !(x.1 == e.1 && x.2 == e.2)) } := ras_eq hb rfl
    split
    · exact hb1
    · split
      · exact hb1
      · rename_i r hg
        exact RaAll.setRa hb1 ((hb1.get hg).of_owner rfl)

theorem finalizeOne_ow {s s' : St} {fails : List (Nat × Nat)} {ra idx : Nat} (h : OwnersNotBlocked s)
    (e : finalizeOne s fails ra idx = some s') : OwnersNotBlocked s' := by
  unfold finalizeOne at e
  split at e
  · cases e
  · split at e
    · cases e
    · rename_i r hg
      split at e
      · cases e
      · split at e
        · cases e
        · dsimp only at e
          injection e with e; subst e
          exact RaAll.setRa (ras_eq h rfl) ((h.get hg).of_owner rfl)

theorem finalizeEntry_go_ow (fails : List (Nat × Nat)) (e : QEntry) (l : List Nat) (s : St)
    (h : OwnersNotBlocked s) : OwnersNotBlocked (finalizeEntry.go fails e s l).1 := by
  induction l generalizing s with
  | nil => unfold finalizeEntry.go; exact ras_eq h rfl
  | cons i rest ih =>
    unfold finalizeEntry.go
    split
    · rename_i s1 h1; exact ih s1 (finalizeOne_ow h h1)
    · exact ras_eq h rfl

theorem finalizeAll_ow (fails : List (Nat × Nat)) (es : List QEntry) (failed : List Nat) (s : St)
    (h : OwnersNotBlocked s) : OwnersNotBlocked (finalizeAll s fails es failed) := by
  induction es generalizing s failed with
  | nil => unfold finalizeAll; exact h
  | cons e es ih =>
    unfold finalizeAll
    split
    · exact ih _ _ h
    · have := finalizeEntry_go_ow fails e e.idx s h
      unfold finalizeEntry
      exact ih _ _ this

theorem handleLivenessEvent_ow {s : St} {ra : Nat} (h : OwnersNotBlocked s) :
    OwnersNotBlocked (handleLivenessEvent s ra) := by
  unfold handleLivenessEvent
  split
  · exact h
  · split
    · exact h
    · rename_i s1 hs1
      have h1 : OwnersNotBlocked s1 := ras_eq h (slashLiveness_ras hs1)
      split
      · exact h
      · rename_i r1 hg1
        unfold scheduleEvent
        exact RaAll.setRa (ras_eq h1 rfl) ((h1.get hg1).of_owner rfl)

theorem endBlock_ow {s : St} {fails : List (Nat × Nat)} (h : OwnersNotBlocked s) :
    OwnersNotBlocked (endBlock s fails) := by
  unfold endBlock checkLiveness
  apply foldl_inv OwnersNotBlocked
  · unfold finalizeRollappStates
    split
    · exact h
    · exact finalizeAll_ow _ _ _ _ h
  · intro b e hb; exact handleLivenessEvent_ow hb

/-- the creator named by a `createRollapp` op is not a blocked (module) account — module accounts have
    no key and sign no message; every other op is unconstrained -/
def creatorOk : Op → Prop
  | .createRollapp _ owner _ => blockedAddr owner = false
  | _ => True

/-- every accepted transition keeps all owners payable -/
theorem apply_ow {s s' : St} {o : Op} (h : OwnersNotBlocked s) (ho : creatorOk o) (e : apply s o = .ok s') :
    OwnersNotBlocked s' := by
  cases o with
  | createRollapp id owner mb =>
    simp only [apply] at e
    split at e
    · cases e
    · injection e with e; subst e
      intro r hr
      rcases insertSorted_mem _ _ _ _ hr with h1 | h1
      · subst h1; exact ho
      · exact h r h1
  | bridge ra hh =>
    simp only [apply] at e
    split at e
    · cases e
    · rename_i r hg
      split at e
      · cases e
      · split at e
        · cases e
        · injection e with e; subst e
          exact RaAll.setRa h ((h.get hg).of_owner rfl)
  | fund a amt => simp only [apply] at e; injection e with e; subst e; exact ras_eq h rfl
  | createSeq a ra b d => exact createSeq_ow h e
  | bondInc a amt d => exact increaseBond_ow h e
  | bondDec a amt => exact decreaseBond_ow h e
  | unbond a => exact unbond_ow h e
  | optIn a v => exact optIn_ow h e
  | kick a => exact kick_ow h e
  | update m => exact updateState_ow h e
  | fraud au ra hh rev p rw => exact fraud_ow h e
  | obsolete au vs => exact markObsolete_ow h e
  | punish au a rw => exact punish_ow h (punishProposal_ok e).2
  | transferOwner sg ra no =>
    obtain ⟨r, hg, _, _, hnb, rfl⟩ := transferOwner_ok e
    exact RaAll.setRa h hnb
  | setSeqParams au sp =>
    obtain ⟨_, hnp, _, rfl⟩ := setSeqParams_ok e
    exact ras_eq h rfl
  | begin_ dt => simp only [apply] at e; injection e with e; subst e; exact beginBlock_ow h
  | end_ f => simp only [apply] at e; injection e with e; subst e; exact endBlock_ow h

theorem step_ow {s : St} {o : Op} (h : OwnersNotBlocked s) (ho : creatorOk o) : OwnersNotBlocked (step s o).1 := by
  unfold step
  split
  · rename_i s' e; exact apply_ow h ho e
  · exact h

/-- **OwnersNotBlocked in every reachable state**: whatever the op sequence — transfers of ownership
    included — as long as rollapps are created by non-module accounts. -/
theorem run_owners (p : Params) (ops : List Op) (hc : ∀ o ∈ ops, creatorOk o) :
    OwnersNotBlocked (run p ops) := by
  unfold run
  have : ∀ (l : List Op) (s : St), OwnersNotBlocked s → (∀ o ∈ l, creatorOk o) →
      OwnersNotBlocked (l.foldl (fun s o => (step s o).1) s) := by
    intro l
    induction l with
    | nil => intro s h _; exact h
    | cons o rest ih =>
      intro s h hl
      exact ih _ (step_ow h (hl o (by simp))) (fun o' ho' => hl o' (by simp [ho']))
  exact this ops (init p) (by intro r hr; simp [init] at hr) hc

end Owners
end DymVerif.Core
