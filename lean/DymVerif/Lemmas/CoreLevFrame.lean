/-
  Lemmas/CoreLevFrame — frame lemmas for the liveness view of a rollapp (`evH`, `cdStart`,
  `proposer`) through block processing, height/parameter preservation by messages, the grid
  invariant (`evH ≥ cdStart + LivenessSlashBlocks`), and the exact effect of `handleLivenessEvent`
  on its own rollapp and on the others.
-/
import DymVerif.Lemmas.CoreLevInv
namespace DymVerif.Core.LevNs

/-- the liveness view of a rollapp record -/
def liv (r : Rollapp) : Nat × Nat × Option Addr := (r.evH, r.cdStart, r.proposer)

/-- the liveness-relevant parts of two states agree (height aside) -/
structure LFrame (s s' : St) : Prop where
  lev : s'.lev = s.lev
  seqs : s'.seqs = s.seqs
  modBal : s'.modBal = s.modBal
  burned : s'.burned = s.burned
  p : pp s' = pp s
  ra : ∀ id, (getRa s' id).map liv = (getRa s id).map liv

theorem LFrame.refl (s : St) : LFrame s s := ⟨rfl, rfl, rfl, rfl, rfl, fun _ => rfl⟩

theorem LFrame.trans {a b c : St} (h1 : LFrame a b) (h2 : LFrame b c) : LFrame a c :=
  ⟨h2.lev.trans h1.lev, h2.seqs.trans h1.seqs, h2.modBal.trans h1.modBal, h2.burned.trans h1.burned,
   h2.p.trans h1.p, fun id => (h2.ra id).trans (h1.ra id)⟩

theorem LFrame.of_ras {s s' : St} (e1 : s'.ras = s.ras) (e2 : s'.lev = s.lev) (e3 : s'.seqs = s.seqs)
    (e4 : s'.modBal = s.modBal) (e5 : s'.burned = s.burned) (e6 : pp s' = pp s) : LFrame s s' :=
  ⟨e2, e3, e4, e5, e6, fun id => by rw [getRa_congr e1]⟩

theorem LFrame.setRa {s : St} {id : Nat} {r r' : Rollapp} (hg : getRa s id = some r) (hid : r'.id = r.id)
    (hl : liv r' = liv r) : LFrame s (setRa s r') := by
  have hid' : r'.id = id := hid.trans (getRa_id hg)
  refine ⟨rfl, rfl, rfl, rfl, rfl, ?_⟩
  intro id'
  by_cases hc : r'.id = id'
  · subst hc
    rw [getRa_setRa_same (r := r) (by rw [hid']; exact hg), hid', hg]
    simp [hl]
  · rw [getRa_setRa_other hc]

theorem LFrame.getSeq {s s' : St} (h : LFrame s s') (a : Addr) : getSeq s' a = getSeq s a :=
  getSeq_congr h.seqs a

/-- a record with the same liveness view exists in the framed state -/
theorem LFrame.getRa {s s' : St} (h : LFrame s s') {id : Nat} {v : Nat × Nat × Option Addr}
    (hg : (getRa s id).map liv = some v) : (getRa s' id).map liv = some v := by
  rw [h.ra id]; exact hg

-- ---------------------------------------------------------------- block processing frames

theorem beginBlock_frame (s : St) (dt : Nat) : LFrame s (beginBlock s dt) ∧ (beginBlock s dt).h = s.h + 1 := by
  unfold beginBlock
  dsimp only
  apply foldl_inv (fun x => LFrame s x ∧ x.h = s.h + 1)
  · exact ⟨LFrame.of_ras rfl rfl rfl rfl rfl rfl, rfl⟩
  · intro b e hb
    have hb1 : LFrame s { b with nq := b.nq.filter (fun x => !(x.1 == e.1 && x.2 == e.2)) } ∧
        ({ b with nq := b.nq.filter (fun x => !(x.1 == e.1 && x.2 == e.2)) } : St).h = s.h + 1 :=
      ⟨hb.1.trans (LFrame.of_ras rfl rfl rfl rfl rfl rfl), hb.2⟩
    split
    · exact hb1
    · split
      · exact hb1
      · rename_i r hg
        exact ⟨hb1.1.trans (LFrame.setRa hg rfl rfl), hb1.2⟩

theorem finalizeOne_frame {s s' : St} {fails : List (Nat × Nat)} {ra idx : Nat}
    (e : finalizeOne s fails ra idx = some s') : LFrame s s' ∧ s'.h = s.h := by
  unfold finalizeOne at e
  split at e
  · cases e
  · split at e
    · cases e
    · rename_i r hg
      split at e
      · cases e
      · rename_i st hst
        split at e
        · cases e
        · dsimp only at e
          injection e with e; subst e
          have f1 : LFrame s { s with seqH := s.seqH.filter (fun p => !(p.1 == st.creator && st.bds.any (·.height == p.2))) } :=
            LFrame.of_ras rfl rfl rfl rfl rfl rfl
          exact ⟨f1.trans (LFrame.setRa (r := r) hg rfl rfl), rfl⟩

theorem finalizeEntry_go_frame (fails : List (Nat × Nat)) (e : QEntry) (l : List Nat) (s : St) :
    LFrame s (finalizeEntry.go fails e s l).1 ∧ (finalizeEntry.go fails e s l).1.h = s.h := by
  induction l generalizing s with
  | nil => unfold finalizeEntry.go; exact ⟨LFrame.of_ras rfl rfl rfl rfl rfl rfl, rfl⟩
  | cons i rest ih =>
    unfold finalizeEntry.go
    split
    · rename_i s1 h1
      have a := finalizeOne_frame h1
      have b := ih s1
      exact ⟨a.1.trans b.1, b.2.trans a.2⟩
    · exact ⟨LFrame.of_ras rfl rfl rfl rfl rfl rfl, rfl⟩

theorem finalizeAll_frame (fails : List (Nat × Nat)) (es : List QEntry) (failed : List Nat) (s : St) :
    LFrame s (finalizeAll s fails es failed) ∧ (finalizeAll s fails es failed).h = s.h := by
  induction es generalizing s failed with
  | nil => unfold finalizeAll; exact ⟨LFrame.refl s, rfl⟩
  | cons e es ih =>
    unfold finalizeAll
    split
    · exact ih _ _
    · have a := finalizeEntry_go_frame fails e e.idx s
      unfold finalizeEntry
      have b := ih (if (finalizeEntry.go fails e s e.idx).2 = true then failed else e.ra :: failed)
        (finalizeEntry.go fails e s e.idx).1
      exact ⟨a.1.trans b.1, b.2.trans a.2⟩

theorem finalizeRollappStates_frame (s : St) (f : List (Nat × Nat)) :
    LFrame s (finalizeRollappStates s f) ∧ (finalizeRollappStates s f).h = s.h := by
  unfold finalizeRollappStates
  split
  · exact ⟨LFrame.refl s, rfl⟩
  · exact finalizeAll_frame _ _ _ _

-- ---------------------------------------------------------------- height and parameters

theorem hp_closed (h0 : Nat) (p0 : Params) : LClosed (fun x => x.h = h0 ∧ x.p = p0) where
  of_same := fun h hs => ⟨hs.2.2.1.trans h.1, hs.peq.trans h.2⟩
  set_same := fun h _ _ _ _ => h
  indicate := fun h _ => h
  reset := fun h _ _ _ => h
  create := fun h _ => h

/-- messages change neither the hub height nor the parameters -/
theorem apply_msg_hp {s s' : St} {o : Op} (e : apply s o = .ok s') (hm : o.isMsg = true) :
    s'.h = s.h ∧ s'.p = s.p :=
  apply_msg_cl (hp_closed s.h s.p) ⟨rfl, rfl⟩ e hm

theorem endBlock_h (s : St) (f : List (Nat × Nat)) : (endBlock s f).h = s.h := by
  unfold endBlock checkLiveness
  exact foldl_inv (fun x : St => x.h = s.h) _ _ _ (finalizeRollappStates_frame s f).2
    (fun b e hb => by rw [handleLivenessEvent_h]; exact hb)

theorem endBlock_p (s : St) (f : List (Nat × Nat)) : (endBlock s f).p = s.p := by
  unfold endBlock checkLiveness
  exact foldl_inv (fun x : St => x.p = s.p) _ _ _ (pp_p (finalizeRollappStates_frame s f).1.p)
    (fun b e hb => by rw [handleLivenessEvent_p]; exact hb)

theorem step_p (s : St) (o : Op) : (step s o).1.p = s.p := by
  unfold step
  split
  · rename_i s' e
    cases hm : o.isMsg with
    | true => exact (apply_msg_hp e hm).2
    | false =>
      cases o with
      | begin_ dt => simp only [apply] at e; injection e with e; subst e; exact pp_p (beginBlock_frame s dt).1.p
      | end_ f => simp only [apply] at e; injection e with e; subst e; exact endBlock_p s f
      | _ => cases hm
  · rfl

theorem run_p (p : Params) (ops : List Op) : (run p ops).p = p := by
  unfold run
  exact foldl_inv (fun x : St => x.p = p) _ _ _ rfl (fun b o hb => by rw [step_p]; exact hb)

-- ---------------------------------------------------------------- grid invariant

/-- the hub height is positive and every scheduled event lies at least `LivenessSlashBlocks`
    after the countdown start -/
structure Grid (s : St) : Prop where
  hpos : 1 ≤ s.h
  ev : ∀ r ∈ s.ras, r.evH = 0 ∨ r.cdStart + s.p.lsBlocks ≤ r.evH

theorem nextSlashHeight_ge (N I hub last : Nat) : last + N ≤ nextSlashHeight N I hub last := by
  obtain ⟨k, hk⟩ := nextSlashHeight_grid N I hub last
  rw [hk]; omega

theorem grid_closed : LClosed Grid where
  of_same := by
    intro s s' h hs
    obtain ⟨e1, _, e3, e4⟩ := hs
    exact ⟨e3 ▸ h.hpos, by rw [e1, e4]; exact h.ev⟩
  set_same := by
    intro s id r r' h hg _ he hc
    refine ⟨h.hpos, ?_⟩
    intro x hx
    rcases mem_setRa_ne hx with h1 | ⟨h1, _⟩
    · subst h1; rw [he, hc]; exact h.ev r (getRa_mem hg)
    · exact h.ev x h1
  indicate := by
    intro s id r h _
    refine ⟨h.hpos, ?_⟩
    intro x hx
    rw [indicateLiveness_ras] at hx
    rcases mem_setRa_ne hx with h1 | ⟨h1, _⟩
    · subst h1; right; exact nextSlashHeight_ge _ _ _ _
    · exact h.ev x h1
  reset := by
    intro s id r r' h _ _ _
    refine ⟨h.hpos, ?_⟩
    intro x hx
    rcases mem_setRa_ne hx with h1 | ⟨h1, _⟩
    · subst h1; exact Or.inl rfl
    · exact h.ev x h1
  create := by
    intro s id o mb h _
    refine ⟨h.hpos, ?_⟩
    intro x hx
    rcases mem_insertRa _ _ _ hx with h1 | h1
    · subst h1; exact Or.inl rfl
    · exact h.ev x h1

theorem handleLivenessEvent_grid {s : St} {ra : Nat} (h : Grid s) : Grid (handleLivenessEvent s ra) := by
  cases hg : getRa s ra with
  | none => rw [handleLivenessEvent_none hg]; exact h
  | some r =>
    cases hs : slashLiveness s r with
    | error e => rw [handleLivenessEvent_err hg hs]; exact h
    | ok s1 =>
      have hsame := slashLiveness_same hs
      refine ⟨by rw [handleLivenessEvent_h]; exact h.hpos, ?_⟩
      rw [handleLivenessEvent_p]
      intro x hx
      rw [handleLivenessEvent_eq hg hs] at hx
      rcases mem_setRa_ne hx with h1 | ⟨h1, _⟩
      · subst h1; right
        show r.cdStart + s.p.lsBlocks ≤ nextSlashHeight s1.p.lsBlocks s1.p.lsInterval s1.h r.cdStart
        rw [hsame.peq]; exact nextSlashHeight_ge _ _ _ _
      · exact h.ev x (by rw [← hsame.1]; exact h1)

theorem apply_grid {s s' : St} {o : Op} (h : Grid s) (e : apply s o = .ok s') : Grid s' := by
  cases hm : o.isMsg with
  | true => exact apply_msg_cl grid_closed h e hm
  | false =>
    cases o with
    | begin_ dt =>
      simp only [apply] at e; injection e with e; subst e
      apply beginBlock_cl grid_closed
      exact ⟨by show 1 ≤ s.h + 1; omega, h.ev⟩
    | end_ f =>
      simp only [apply] at e; injection e with e; subst e
      unfold endBlock checkLiveness
      apply foldl_inv Grid
      · exact finalizeRollappStates_cl grid_closed h
      · intro b e hb; exact handleLivenessEvent_grid hb
    | _ => cases hm

theorem run_grid (p : Params) (ops : List Op) : Grid (run p ops) := by
  unfold run
  apply foldl_inv Grid
  · exact ⟨Nat.le_refl 1, by intro r hr; simp [init] at hr⟩
  · intro b o hb
    unfold step
    split
    · rename_i s' e; exact apply_grid hb e
    · exact hb

-- ---------------------------------------------------------------- handleLivenessEvent: own rollapp, other rollapps

theorem getSeq_setSeq_same {s : St} {q0 q : Seq} (hg : getSeq s q.addr = some q0) :
    getSeq (setSeq s q) q.addr = some q := by
  unfold getSeq setSeq
  dsimp only
  unfold getSeq at hg
  revert hg
  induction s.seqs with
  | nil => intro h; cases h
  | cons x xs ih =>
    intro h
    simp only [List.map_cons, List.find?_cons] at h ⊢
    by_cases hx : (x.addr == q.addr) = true
    · simp [hx]
    · simp only [hx] at h ⊢
      simp only [Bool.false_eq_true, if_false]
      simp only [hx]
      exact ih h

theorem getRa_setRa_lev {s : St} {L : List (Nat × Nat)} {id : Nat} {r r' : Rollapp} (hg : getRa s id = some r)
    (hid : r'.id = id) : getRa (setRa { s with lev := L } r') id = some r' := by
  subst hid
  exact getRa_setRa_same (s := { s with lev := L }) (r := r) hg

/-- the proposer's record after one liveness slash -/
def slashOnce (p : SeqParams) (q : Seq) : Seq :=
  { q with tokens := q.tokens - livSlashAmt p q.tokens, dishonor := q.dishonor + p.dishonorL }

/-- exact effect of a liveness event on its own rollapp and proposer -/
theorem handleLivenessEvent_self {s : St} {ra : Nat} {r : Rollapp} {a : Addr} {q : Seq} (hc : Cust s)
    (hg : getRa s ra = some r) (hp : r.proposer = some a) (hq : getSeq s a = some q) :
    getRa (handleLivenessEvent s ra) ra =
      some { r with evH := nextSlashHeight s.p.lsBlocks s.p.lsInterval s.h r.cdStart } ∧
    getSeq (handleLivenessEvent s ra) a = some (slashOnce s.sqp q) ∧
    (handleLivenessEvent s ra).modBal + livSlashAmt s.sqp q.tokens = s.modBal ∧
    (handleLivenessEvent s ra).burned = s.burned + livSlashAmt s.sqp q.tokens := by
  have hid := getRa_id hg
  subst hid
  have hspec := slashLiveness_spec hc hp hq
  have hqa : q.addr = a := getSeq_addr hq
  have hmod : livSlashAmt s.sqp q.tokens ≤ s.modBal := by
    have := tokSum_ge_mem (getSeq_mem hq); rw [← hc.bal] at this
    have := livSlashAmt_le s.sqp q.tokens; omega
  rw [handleLivenessEvent_eq hg hspec]
  refine ⟨?_, ?_, ?_, rfl⟩
  · exact getRa_setRa_same (r := r)
      (r' := { r with evH := nextSlashHeight s.p.lsBlocks s.p.lsInterval s.h r.cdStart }) hg
  · show getSeq (setSeq { s with modBal := _, burned := _ } (slashOnce s.sqp q)) a = some (slashOnce s.sqp q)
    rw [← hqa]
    exact getSeq_setSeq_same (q := slashOnce s.sqp q) (q0 := q) (by show getSeq _ q.addr = some q; rw [hqa]; exact hq)
  · show s.modBal - livSlashAmt s.sqp q.tokens + livSlashAmt s.sqp q.tokens = s.modBal
    omega

/-- a liveness slash of a rollapp whose proposer is not `a` leaves `a`'s record alone -/
theorem slashLiveness_getSeq_other {s s1 : St} {r : Rollapp} {a : Addr} (hne : r.proposer ≠ some a)
    (e : slashLiveness s r = .ok s1) : getSeq s1 a = getSeq s a := by
  unfold slashLiveness at e
  split at e
  · injection e with e; subst e; rfl
  · rename_i a' hp
    split at e
    · injection e with e; subst e; rfl
    · rename_i q hq
      split at e
      · cases e
      · rename_i s2 q2 hsl
        injection e with e; subst e
        have sp := slash_spec hsl
        have hne' : q2.addr ≠ a := by
          rw [sp.2.2.1, getSeq_addr hq]
          intro hc; apply hne; rw [hp, hc]
        rw [getSeq_setSeq_other (q := { q2 with dishonor := q2.dishonor + s2.sqp.dishonorL }) hne']
        exact getSeq_congr sp.1 a

/-- `a` proposes for no rollapp other than `ra` -/
def Uniq (s : St) (a : Addr) (ra : Nat) : Prop :=
  ∀ id r, getRa s id = some r → r.proposer = some a → id = ra

theorem handleLivenessEvent_proposer (s : St) (ra id : Nat) :
    (getRa (handleLivenessEvent s ra) id).map (·.proposer) = (getRa s id).map (·.proposer) := by
  by_cases hne : ra = id
  · subst hne
    cases hg : getRa s ra with
    | none => rw [handleLivenessEvent_none hg, hg]
    | some r =>
      cases hs : slashLiveness s r with
      | error e => rw [handleLivenessEvent_err hg hs, hg]
      | ok s1 =>
        have hg1 : getRa s1 ra = some r := by rw [getRa_congr (slashLiveness_same hs).1]; exact hg
        have hid := getRa_id hg
        subst hid
        rw [handleLivenessEvent_eq hg hs]
        generalize nextSlashHeight s1.p.lsBlocks s1.p.lsInterval s1.h r.cdStart = n
        rw [getRa_setRa_lev (r' := { r with evH := n }) hg1 rfl]
        rfl
  · rw [handleLivenessEvent_getRa_other hne]

theorem handleLivenessEvent_uniq {s : St} {a : Addr} {ra ra' : Nat} (h : Uniq s a ra) :
    Uniq (handleLivenessEvent s ra') a ra := by
  intro id r hg hp
  have := handleLivenessEvent_proposer s ra' id
  rw [hg] at this
  cases hg0 : getRa s id with
  | none => rw [hg0] at this; cases this
  | some r0 =>
    rw [hg0] at this
    have hp0 : r0.proposer = some a := by
      have : some r.proposer = some r0.proposer := this
      injection this with this; rw [← this]; exact hp
    exact h id r0 hg0 hp0

/-- an event of another rollapp touches neither `ra`'s record nor the record of `ra`'s exclusive proposer -/
theorem handleLivenessEvent_other {s : St} {a : Addr} {ra ra' : Nat} (hu : Uniq s a ra) (hne : ra' ≠ ra) :
    getRa (handleLivenessEvent s ra') ra = getRa s ra ∧ getSeq (handleLivenessEvent s ra') a = getSeq s a := by
  refine ⟨handleLivenessEvent_getRa_other hne, ?_⟩
  cases hg : getRa s ra' with
  | none => rw [handleLivenessEvent_none hg]
  | some r =>
    cases hs : slashLiveness s r with
    | error e => rw [handleLivenessEvent_err hg hs]
    | ok s1 =>
      rw [handleLivenessEvent_eq hg hs]
      have hnp : r.proposer ≠ some a := fun hp => hne (hu ra' r hg hp)
      show getSeq s1 a = getSeq s a
      exact slashLiveness_getSeq_other hnp hs

theorem Uniq.frame {s s' : St} {a : Addr} {ra : Nat} (h : Uniq s a ra) (f : LFrame s s') : Uniq s' a ra := by
  intro id r hg hp
  have := f.ra id
  rw [hg] at this
  cases hg0 : getRa s id with
  | none => rw [hg0] at this; cases this
  | some r0 =>
    rw [hg0] at this
    have hl : liv r = liv r0 := by
      have : some (liv r) = some (liv r0) := this
      injection this
    have hp0 : r0.proposer = some a := by
      have : r.proposer = r0.proposer := congrArg (fun x => x.2.2) hl
      rw [← this]; exact hp
    exact h id r0 hg0 hp0

end DymVerif.Core.LevNs
