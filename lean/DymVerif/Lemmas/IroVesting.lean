/-
  Lemmas/IroVesting — `IROVestingPlan.VestedAmt` with the SDK's exact roundings: bounded by the
  amount, monotone in time, and never ahead of the linear schedule (the ratio is truncated).
-/
import DymVerif.Lemmas.IroArith
import Mathlib.Tactic.Linarith
namespace DymVerif.Iro
open DymVerif

theorem chopRound_nonneg_eq (d : Int) (h : 0 ≤ d) :
    chopRound d = if d % decP < decHalf then d / decP else if decHalf < d % decP then d / decP + 1
      else if (d / decP) % 2 = 0 then d / decP else d / decP + 1 := by
  unfold chopRound decP decPN decHalf
  simp only []
  have h1 : ¬ d < 0 := by omega
  simp only [h1, if_false]
  repeat' split
  all_goals omega

theorem chopRound_mono (d d' : Int) (h : 0 ≤ d) (hle : d ≤ d') : chopRound d ≤ chopRound d' := by
  rw [chopRound_nonneg_eq d h, chopRound_nonneg_eq d' (by omega)]
  unfold decP decHalf
  repeat' split
  all_goals omega

theorem chopRound_nonneg (d : Int) (h : 0 ≤ d) : 0 ≤ chopRound d := by
  rw [chopRound_nonneg_eq d h]
  unfold decP decHalf
  repeat' split
  all_goals omega

/-- half-even rounding is at most half a unit above the exact quotient -/
theorem chopRound_le_half (d : Int) (h : 0 ≤ d) : 2 * decP * chopRound d ≤ 2 * d + decP := by
  rw [chopRound_nonneg_eq d h]
  unfold decP decHalf
  repeat' split
  all_goals omega

/-- the raw vesting ratio `NewDec(x).QuoTruncate(NewDec(y))` -/
def ratio (x y : Int) : Int := ((Dec.ofInt x).quoTruncate (Dec.ofInt y)).raw

theorem ratio_eq (x y : Int) : ratio x y = (x * decP * decP).tdiv (y * decP) := by
  simp [ratio, Dec.quoTruncate, Dec.ofInt]

/-- the truncated ratio is the floor of `x·10^18 / y` -/
theorem ratio_floor (x y : Int) (hx : 0 ≤ x) (hy : 0 < y) :
    0 ≤ ratio x y ∧ y * ratio x y ≤ x * decP := by
  rw [ratio_eq]
  have hd := decP_pos
  have hn : 0 ≤ x * decP * decP := by positivity
  have hyd : 0 < y * decP := by positivity
  rw [Int.tdiv_eq_ediv_of_nonneg hn]
  constructor
  · exact Int.ediv_nonneg hn (by omega)
  · have h1 := Int.ediv_mul_le (x * decP * decP) (Int.ne_of_gt hyd)
    have h2 : decP * (y * ((x * decP * decP) / (y * decP))) ≤ decP * (x * decP) := by nlinarith
    exact Int.le_of_mul_le_mul_left h2 hd

theorem ratio_nonneg (x y : Int) (hx : 0 ≤ x) (hy : 0 < y) : 0 ≤ ratio x y := (ratio_floor x y hx hy).1

theorem ratio_mono (x x' y : Int) (hx : 0 ≤ x) (hxx : x ≤ x') (hy : 0 < y) : ratio x y ≤ ratio x' y := by
  rw [ratio_eq, ratio_eq]
  have hd := decP_pos
  have hn : 0 ≤ x * decP * decP := by positivity
  have hx' : 0 ≤ x' := by omega
  have hn' : 0 ≤ x' * decP * decP := by positivity
  have hyd : 0 < y * decP := by positivity
  rw [Int.tdiv_eq_ediv_of_nonneg hn, Int.tdiv_eq_ediv_of_nonneg hn']
  apply Int.ediv_le_ediv hyd
  nlinarith [Int.mul_nonneg (Int.le_of_lt hd) (Int.le_of_lt hd)]

theorem ratio_le_one (x y : Int) (hx : 0 ≤ x) (hxy : x ≤ y) (hy : 0 < y) : ratio x y ≤ decP := by
  obtain ⟨_, h1⟩ := ratio_floor x y hx hy
  have hd := decP_pos
  have : y * ratio x y ≤ y * decP := by nlinarith
  exact Int.le_of_mul_le_mul_left this hy

theorem vestedTotal_eq (v : Vest) (now : Int) :
    vestedTotal v now = (ratio (now - v.start) (v.stop - v.start) * v.amount).tdiv decP := by
  simp [vestedTotal, ratio, Dec.truncateInt, chopTrunc, mul_ofInt_raw]

theorem vestedTotal_bounds (v : Vest) (now : Int) (ha : 0 ≤ v.amount) (h1 : v.start ≤ now) (h2 : now ≤ v.stop)
    (hy : v.start < v.stop) : 0 ≤ vestedTotal v now ∧ vestedTotal v now ≤ v.amount := by
  rw [vestedTotal_eq]
  have hd := decP_pos
  have hr0 := ratio_nonneg (now - v.start) (v.stop - v.start) (by omega) (by omega)
  have hr1 := ratio_le_one (now - v.start) (v.stop - v.start) (by omega) (by omega) (by omega)
  have hn : 0 ≤ ratio (now - v.start) (v.stop - v.start) * v.amount := Int.mul_nonneg hr0 ha
  obtain ⟨b1, b2⟩ := tdiv_decP_of_nonneg _ hn
  constructor
  · exact Int.tdiv_nonneg hn (Int.le_of_lt hd)
  · have : decP * (ratio (now - v.start) (v.stop - v.start) * v.amount).tdiv decP ≤ decP * v.amount := by nlinarith
    exact Int.le_of_mul_le_mul_left this hd

theorem vestedTotal_mono (v : Vest) (now now' : Int) (ha : 0 ≤ v.amount) (h1 : v.start ≤ now) (h2 : now ≤ now')
    (hy : v.start < v.stop) : vestedTotal v now ≤ vestedTotal v now' := by
  rw [vestedTotal_eq, vestedTotal_eq]
  have hd := decP_pos
  have hr0 := ratio_nonneg (now - v.start) (v.stop - v.start) (by omega) (by omega)
  have hm := ratio_mono (now - v.start) (now' - v.start) (v.stop - v.start) (by omega) (by omega) (by omega)
  have hn : 0 ≤ ratio (now - v.start) (v.stop - v.start) * v.amount := Int.mul_nonneg hr0 ha
  have hn' : 0 ≤ ratio (now' - v.start) (v.stop - v.start) * v.amount := Int.mul_nonneg (by omega) ha
  rw [Int.tdiv_eq_ediv_of_nonneg hn, Int.tdiv_eq_ediv_of_nonneg hn']
  exact Int.ediv_le_ediv hd (Int.mul_le_mul_of_nonneg_right hm ha)

/-- **never ahead of the linear schedule**, exactly: with x = now − start, y = stop − start,
    `y · vested ≤ amount · x` -/
theorem vestedTotal_linear (v : Vest) (now : Int) (ha : 0 ≤ v.amount) (h1 : v.start ≤ now) (hy : v.start < v.stop) :
    (v.stop - v.start) * vestedTotal v now ≤ v.amount * (now - v.start) := by
  rw [vestedTotal_eq]
  have hd := decP_pos
  obtain ⟨hr0, hfl⟩ := ratio_floor (now - v.start) (v.stop - v.start) (by omega) (by omega)
  have hn : 0 ≤ ratio (now - v.start) (v.stop - v.start) * v.amount := Int.mul_nonneg hr0 ha
  obtain ⟨b1, _⟩ := tdiv_decP_of_nonneg _ hn
  have hy0 : 0 < v.stop - v.start := by omega
  generalize ratio (now - v.start) (v.stop - v.start) = r at *
  generalize (r * v.amount).tdiv decP = w at *
  generalize v.stop - v.start = y at *
  generalize now - v.start = x at *
  -- decP*w ≤ r*A ;  y*r ≤ x*decP
  have e1 : y * (decP * w) ≤ y * (r * v.amount) := Int.mul_le_mul_of_nonneg_left b1 (Int.le_of_lt hy0)
  have e2 : y * r * v.amount ≤ x * decP * v.amount := Int.mul_le_mul_of_nonneg_right hfl ha
  have e3 : decP * (y * w) ≤ decP * (v.amount * x) := by nlinarith
  exact Int.le_of_mul_le_mul_left e3 hd

end DymVerif.Iro
