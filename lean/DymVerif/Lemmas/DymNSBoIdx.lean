/-
  Lemmas/DymNSBoIdx — the three buy-order reverse indexes (by buyer, by Dym-Name, by alias) are
  exactly the image of the open buy orders; balance equation of accepting an alias buy order.
-/
import DymVerif.Lemmas.DymNSLedgerAlias
namespace DymVerif.DymNS
open AMap

structure BoIdxOK (s : State) : Prop where
  buyer : ∀ a id, id ∈ s.boBuyer.lookup a ↔ ∃ bo, AMap.get s.bos id = some bo ∧ bo.buyer = a
  name : ∀ n id, id ∈ s.boName.lookup n ↔ ∃ bo, AMap.get s.bos id = some bo ∧ bo.isAlias = false ∧ bo.asset = n
  alias : ∀ l id, id ∈ s.boAlias.lookup l ↔ ∃ bo, AMap.get s.bos id = some bo ∧ bo.isAlias = true ∧ bo.asset = l

/-- the buy-order part of the state -/
def boPart (s : State) : AMap Nat BuyOrder × Idx Acct × Idx Name × Idx AliasId := (s.bos, s.boBuyer, s.boName, s.boAlias)

theorem boIdxOK_congr {s t : State} (h : boPart t = boPart s) (hs : BoIdxOK s) : BoIdxOK t := by
  simp only [boPart, Prod.mk.injEq] at h
  obtain ⟨h1, h2, h3, h4⟩ := h
  exact ⟨by rw [h1, h2]; exact hs.buyer, by rw [h1, h3]; exact hs.name, by rw [h1, h4]; exact hs.alias⟩

theorem removeBO_boIdxOK {s : State} {id : Nat} {bo : BuyOrder} (hs : BoIdxOK s) (hg : AMap.get s.bos id = some bo) :
    BoIdxOK (removeBO s id bo) := by
  refine ⟨fun a i => ?_, fun n i => ?_, fun l i => ?_⟩
  · simp only [removeBO, Idx.mem_remove, AMap.get_del, hs.buyer]
    by_cases hi : i = id
    · subst hi; simp [hg]; exact fun e => e.symm
    · simp [hi]
  · cases hb : bo.isAlias
    · simp only [removeBO, hb, Bool.false_eq_true, if_false, Idx.mem_remove, AMap.get_del, hs.name]
      by_cases hi : i = id
      · subst hi; simp [hg, hb]; exact fun e => e.symm
      · simp [hi]
    · simp only [removeBO, hb, if_true, AMap.get_del, hs.name]
      by_cases hi : i = id
      · subst hi; simp [hg, hb]
      · simp [hi]
  · cases hb : bo.isAlias
    · simp only [removeBO, hb, Bool.false_eq_true, if_false, AMap.get_del, hs.alias]
      by_cases hi : i = id
      · subst hi; simp [hg, hb]
      · simp [hi]
    · simp only [removeBO, hb, if_true, Idx.mem_remove, AMap.get_del, hs.alias]
      by_cases hi : i = id
      · subst hi; simp [hg, hb]; exact fun e => e.symm
      · simp [hi]

theorem removeBO_paid_boIdxOK {s : State} {id : Nat} {bo : BuyOrder} (x : Acct) (amt : Nat) (hs : BoIdxOK s)
    (hg : AMap.get s.bos id = some bo) : BoIdxOK (removeBO (fromModuleT s x amt) id bo) :=
  removeBO_boIdxOK (s := fromModuleT s x amt) (boIdxOK_congr (by rfl) hs) hg

/-- rewriting an order without touching buyer, type and asset -/
theorem setBO_same_boIdxOK {s : State} {id : Nat} {bo bo' : BuyOrder} (hs : BoIdxOK s) (hg : AMap.get s.bos id = some bo)
    (h1 : bo'.buyer = bo.buyer) (h2 : bo'.isAlias = bo.isAlias) (h3 : bo'.asset = bo.asset) :
    BoIdxOK { s with bos := AMap.set s.bos id bo' } := by
  refine ⟨fun a i => ?_, fun n i => ?_, fun l i => ?_⟩
  · simp only [AMap.get_set, hs.buyer]
    by_cases hi : i = id
    · subst hi; simp [hg, h1]
    · simp [hi]
  · simp only [AMap.get_set, hs.name]
    by_cases hi : i = id
    · subst hi; simp [hg, h2, h3]
    · simp [hi]
  · simp only [AMap.get_set, hs.alias]
    by_cases hi : i = id
    · subst hi; simp [hg, h2, h3]
    · simp [hi]

theorem putBO_boIdxOK {s s' : State} {isAlias : Bool} {a : Acct} {asset : Nat} {dst : Chain} {offer : Nat}
    {ex : Option (Nat × BuyOrder)} (hI : Inv s) (hs : BoIdxOK s)
    (hex : ∀ id bo, ex = some (id, bo) → AMap.get s.bos id = some bo ∧ bo.offer < offer ∧ bo.buyer = a)
    (h : putBO s isAlias a asset dst offer ex = .ok s') : BoIdxOK s' := by
  unfold putBO at h
  cases ex with
  | some e =>
    obtain ⟨id, bo⟩ := e
    obtain ⟨hg, _, _⟩ := hex id bo rfl
    simp only at h
    obtain ⟨rfl, _⟩ := toModule_ok h
    have h2 := setBO_same_boIdxOK (bo' := { bo with offer := offer }) hs hg rfl rfl rfl
    exact boIdxOK_congr (by rfl) h2
  | none =>
    simp only at h
    obtain ⟨rfl, _⟩ := toModule_ok h
    have hnone : AMap.get s.bos (s.boCount + 1) = none := by
      cases hg : AMap.get s.bos (s.boCount + 1) with
      | none => rfl
      | some b => have := hI.boK _ _ hg; omega
    refine ⟨fun x i => ?_, fun n i => ?_, fun l i => ?_⟩
    · simp only [toModuleT, Idx.mem_add, AMap.get_set, hs.buyer]
      by_cases hi : i = s.boCount + 1
      · subst hi; simp [hnone]; exact eq_comm
      · simp [hi]
    · cases isAlias
      · simp only [toModuleT, Bool.false_eq_true, if_false, Idx.mem_add, AMap.get_set, hs.name]
        by_cases hi : i = s.boCount + 1
        · subst hi; simp [hnone]; exact eq_comm
        · simp [hi]
      · simp only [toModuleT, if_true, AMap.get_set, hs.name]
        by_cases hi : i = s.boCount + 1
        · subst hi; simp [hnone]
        · simp [hi]
    · cases isAlias
      · simp only [toModuleT, Bool.false_eq_true, if_false, AMap.get_set, hs.alias]
        by_cases hi : i = s.boCount + 1
        · subst hi; simp [hnone]
        · simp [hi]
      · simp only [toModuleT, if_true, Idx.mem_add, AMap.get_set, hs.alias]
        by_cases hi : i = s.boCount + 1
        · subst hi; simp [hnone]; exact eq_comm
        · simp [hi]


/-! ### blocks that do not touch the buy-order stores -/

theorem boPart_refundOptT (s : State) (b : Option Bid) : boPart (refundOptT s b) = boPart s := by
  cases b <;> rfl

theorem boPart_takeBidT (s : State) (o : Option Bid) (a : Acct) (x : Nat) : boPart (takeBidT s o a x) = boPart s := by
  have : boPart (takeBidT s o a x) = boPart (refundOptT s o) := rfl
  rw [this, boPart_refundOptT]

theorem boPart_pruneNameT (s : State) (n : Name) : boPart (pruneNameT s n) = boPart s := by
  have : boPart (pruneNameT s n) = boPart (refundOptT s (nameBid s n)) := rfl
  rw [this, boPart_refundOptT]

theorem boPart_transferOwnershipT (s : State) (n : Name) (d : DymName) (b : Acct) :
    boPart (transferOwnershipT s n d b) = boPart s := by
  have : boPart (transferOwnershipT s n d b) = boPart (pruneNameT s n) := rfl
  rw [this, boPart_pruneNameT]

theorem boPart_completeNameSO {s s' : State} {n : Name} (h : completeNameSO s n = .ok s') : boPart s' = boPart s := by
  obtain ⟨d, so, b, _, _, _, _, _, rfl⟩ := completeNameSO_ok h
  rfl

theorem boPart_registerAliasFor {s s' : State} {c a l cost} (h : registerAliasFor s c a l cost = .ok s') :
    boPart s' = boPart s := by
  unfold registerAliasFor at h
  mcases' h
  rename (payAndBurn s a cost = Except.ok _) => hp
  obtain ⟨rfl, _⟩ := payAndBurn_ok hp
  rename (setAlias _ c l = Except.ok _) => hs
  obtain ⟨_, _, rfl⟩ := setAlias_ok hs
  injection h with h; subst h; rfl

theorem boPart_completeAliasSO {s s' : State} {l} (h : completeAliasSO s l = .ok s') : boPart s' = boPart s := by
  unfold completeAliasSO at h
  mcases' h
  rename (fromModule s _ _ = Except.ok _) => hf
  obtain ⟨rfl, _⟩ := fromModule_ok hf
  rename (removeAlias _ _ l = Except.ok _) => hr
  obtain ⟨_, _, rfl⟩ := removeAlias_ok hr
  obtain ⟨_, _, rfl⟩ := setAlias_ok h
  rfl

theorem boPart_moveAlias {s s' : State} {src l dst} (h : moveAlias s src l dst = .ok s') : boPart s' = boPart s := by
  unfold moveAlias at h
  mcases' h
  injection h with h; subst h; rfl

/-- every operation other than place / cancel / accept buy order leaves the buy-order stores alone -/
theorem exec_bo_frame {s s' : State} {op : Op} (h : exec s op = .ok s')
    (hop : match op with
      | .offerName .. | .offerAlias .. | .cancelOffer .. | .acceptOffer .. => False
      | _ => True) : boPart s' = boPart s := by
  cases op <;> simp only at hop <;> simp only [exec, pure, Except.pure] at h
  case fund => injection h with h; subst h; rfl
  case advance => injection h with h; subst h; rfl
  case trading => injection h with h; subst h; rfl
  case setChainAliases => injection h with h; subst h; rfl
  case transferRollapp => obtain ⟨r, _, _, _, rfl⟩ := transferRollapp_ok h; rfl
  case migrateChainIds => obtain ⟨rfl, _, _⟩ := migrateChainIds_ok h; rfl
  case updateAliases => obtain ⟨ca, rfl, _⟩ := updateAliases_ok h; rfl
  case setParams => obtain ⟨rfl, _⟩ := setParams_ok h; rfl
  case register a n dur pay c =>
    unfold registerName at h
    mcases' h
    all_goals
      rename (payAndBurn s a _ = Except.ok _) => h1
      obtain ⟨rfl, _⟩ := payAndBurn_ok h1
    · rename (pruneName _ n = Except.ok _) => hp
      obtain ⟨rfl, _⟩ := pruneName_ok hp
      rw [setNameAfterBoth_ok] at h
      injection h with h; subst h
      exact (boPart_pruneNameT _ n).trans rfl
    · injection h with h; subst h; rfl
  case transfer a n b =>
    unfold transferName at h
    mcases' h
    obtain ⟨rfl, _⟩ := transferOwnership_ok h
    exact boPart_transferOwnershipT _ _ _ _
  case setController => unfold setController at h; mcases' h; injection h with h; subst h; rfl
  case updateResolve =>
    unfold updateResolveAddress at h
    mcases' h
    all_goals (rw [setNameConfigChanged_ok] at h; injection h with h; subst h; rfl)
  case updateDetails =>
    unfold updateDetails at h
    mcases' h
    all_goals first
      | (rw [setNameConfigChanged_ok] at h; injection h with h; subst h; rfl)
      | (injection h with h; subst h; rfl)
  case sellName => unfold placeNameSO at h; mcases' h; injection h with h; subst h; rfl
  case cancelSellName => unfold cancelNameSO at h; mcases' h; injection h with h; subst h; rfl
  case completeName =>
    unfold completeNameSOMsg at h
    mcases' h
    · rename (refundBid s _ = Except.ok _) => hr
      obtain ⟨rfl, _⟩ := fromModule_ok hr
      injection h with h; subst h; rfl
    · exact boPart_completeNameSO h
  case buyName a n offer =>
    unfold purchaseName at h
    mcases' h
    all_goals
      rename (takeBid s _ a offer = Except.ok _) => ht
      obtain ⟨rfl, _, _⟩ := takeBid_ok ht
    · exact (boPart_completeNameSO h).trans ((show boPart _ = boPart (takeBidT s _ a offer) from rfl).trans (boPart_takeBidT _ _ _ _))
    · injection h with h; subst h
      exact (show boPart _ = boPart (takeBidT s _ a offer) from rfl).trans (boPart_takeBidT _ _ _ _)
  case createRollapp => unfold createRollapp at h; mcases' h; have := boPart_registerAliasFor h; exact this
  case registerAlias => unfold registerAlias at h; mcases' h; exact boPart_registerAliasFor h
  case sellAlias => unfold placeAliasSO at h; mcases' h; injection h with h; subst h; rfl
  case cancelSellAlias => unfold cancelAliasSO at h; mcases' h; injection h with h; subst h; rfl
  case completeAlias =>
    unfold completeAliasSOMsg at h
    mcases' h
    · rename (refundBid s _ = Except.ok _) => hr
      obtain ⟨rfl, _⟩ := fromModule_ok hr
      injection h with h; subst h; rfl
    · exact boPart_completeAliasSO h
  case buyAlias a l offer dst =>
    unfold purchaseAlias at h
    mcases' h
    all_goals
      rename (takeBid s _ a offer = Except.ok _) => ht
      obtain ⟨rfl, _, _⟩ := takeBid_ok ht
    · exact (boPart_completeAliasSO h).trans ((show boPart _ = boPart (takeBidT s _ a offer) from rfl).trans (boPart_takeBidT _ _ _ _))
    · injection h with h; subst h
      exact (show boPart _ = boPart (takeBidT s _ a offer) from rfl).trans (boPart_takeBidT _ _ _ _)

theorem exec_boIdxOK {s s' : State} {op : Op} (hI : Inv s) (hs : BoIdxOK s) (h : exec s op = .ok s') : BoIdxOK s' := by
  cases op
  case offerName a n o c =>
    simp only [exec] at h
    unfold placeNameBO at h
    mcases' h
    rename (validateContinue s false a n o c = Except.ok _) => hv
    exact putBO_boIdxOK hI hs (validateContinue_ok hv) h
  case offerAlias a l o c d =>
    simp only [exec] at h
    unfold placeAliasBO at h
    mcases' h
    rename (validateContinue s true a l o c = Except.ok _) => hv
    exact putBO_boIdxOK hI hs (validateContinue_ok hv) h
  case cancelOffer a pfx id =>
    simp only [exec] at h
    unfold cancelBO at h
    mcases' h
    rename (getBO s pfx id = some _) => hg
    rename (fromModule s _ _ = Except.ok _) => hf
    obtain ⟨rfl, _⟩ := fromModule_ok hf
    injection h with h; subst h
    exact removeBO_paid_boIdxOK _ _ hs (getBO_some hg).1
  case acceptOffer a pfx id m =>
    simp only [exec] at h
    unfold acceptBO at h
    mcases' h
    all_goals
      rename (getBO s pfx id = some _) => hg
      have hg' := (getBO_some hg).1
    · unfold acceptAliasBO at h
      mcases' h
      · rename (fromModule s _ _ = Except.ok _) => hf
        obtain ⟨rfl, _⟩ := fromModule_ok hf
        exact boIdxOK_congr (boPart_moveAlias h) (removeBO_paid_boIdxOK _ _ hs hg')
      · injection h with h; subst h
        exact setBO_same_boIdxOK hs hg' rfl rfl rfl
    · unfold acceptNameBO at h
      mcases' h
      · rename (fromModule s _ _ = Except.ok _) => hf
        obtain ⟨rfl, _⟩ := fromModule_ok hf
        obtain ⟨rfl, _⟩ := transferOwnership_ok h
        exact boIdxOK_congr (boPart_transferOwnershipT _ _ _ _) (removeBO_paid_boIdxOK _ _ hs hg')
      · injection h with h; subst h
        exact setBO_same_boIdxOK hs hg' rfl rfl rfl
  all_goals exact boIdxOK_congr (exec_bo_frame h trivial) hs

theorem run_boIdxOK {s : State} (ops : List Op) (hI : Inv s) (hs : BoIdxOK s) : BoIdxOK (run s ops) := by
  induction ops generalizing s with
  | nil => exact hs
  | cons op ops ih =>
    have hI' := step_inv op hI
    have hs' : BoIdxOK (step s op) := by
      unfold step
      cases h : exec s op with
      | ok s' => exact exec_boIdxOK hI hs h
      | error e => exact hs
    exact ih hI' hs'

/-! ### accepting a buy order on an alias -/

/-- **accepting an alias buy order** at its offered price: the owner of the source RollApp receives
    exactly the escrowed offer, the alias moves to the buyer's RollApp, the order is closed -/
theorem acceptAliasBO_ledger {s s' : State} {a : Acct} {pfx : Bool} {id : Nat} {bo : BuyOrder}
    (hg : AMap.get s.bos id = some bo) (hal : bo.isAlias = true) (h : acceptBO s a pfx id bo.offer = .ok s') :
    ∃ src r, AMap.get s.al.aliasTo bo.asset = some src ∧ AMap.get s.al.rollapps src = some r ∧ r.owner = a ∧
      AMap.get s'.al.aliasTo bo.asset = some bo.dst ∧ AMap.get s'.bos id = none ∧
      ∀ x, balOf s' x = balOf s x + (if x = a then bo.offer else 0) := by
  unfold acceptBO at h
  mcases' h
  all_goals
    rename (getBO s pfx id = some _) => hg'
    have := (getBO_some hg').1
    rw [hg] at this; injection this with this; subst this
  · unfold acceptAliasBO at h
    mcases' h
    · rename (fromModule s _ _ = Except.ok _) => hf
      obtain ⟨rfl, _⟩ := fromModule_ok hf
      rename (AMap.get s.al.aliasTo bo.asset = some _) => hsrc
      rename (AMap.get s.al.rollapps _ = some _) => hr
      rename (isCreator s _ a = true) => hcr
      rename (Rollapp) => r
      rename (Chain) => src
      have hown : r.owner = a := by simpa [isCreator, hr] using hcr
      -- the alias store after the move
      unfold moveAlias at h
      simp only [bind, Except.bind, pure, Except.pure] at h
      cases hm : AliasStore.moveAlias (removeBO (fromModuleT s r.owner bo.offer) id bo).al src bo.asset bo.dst with
      | error e => simp [hm] at h
      | ok al' =>
        simp only [hm] at h
        injection h with h; subst h
        have hto : AMap.get al'.aliasTo bo.asset = some bo.dst := by
          unfold AliasStore.moveAlias at hm
          mcases' hm
          rename (AliasStore.removeAlias _ _ bo.asset = Except.ok _) => hrm
          obtain ⟨_, _, rfl⟩ := AliasStore.removeAlias_ok hrm
          obtain ⟨_, _, rfl⟩ := AliasStore.setAlias_ok hm
          simp [AliasStore.setAliasT]
        refine ⟨_, r, hsrc, hr, hown, hto, by simp [removeBO, fromModuleT], fun x => ?_⟩
        have e : balOf { removeBO (fromModuleT s r.owner bo.offer) id bo with al := al' } x
            = balOf (fromModuleT s r.owner bo.offer) x := balOf_congr rfl x
        rw [e, balOf_fromModuleT, hown]
        split
        · rename_i hx; subst hx; rfl
        · rfl
    · simp_all
  · rename (¬ bo.isAlias = true) => hn
    exact absurd hal hn

end DymVerif.DymNS
