/-
  Lemmas/GenEqLockupChain — tie 1 for Model/LockupChain (C14: restart, setParams): the genesis and
  params functions of x/lockup, re-extracted from /repo's working tree on every check
  (`Gen/Lockup.lean`, bodies as whitespace-normalised source text), are the ones the model was written
  against.  `Keeper.InitializeAllLocks` itself (and `setLockAndAddLockRefs`, `addLockRefs`,
  `accumulationStore`, `SetLastLockID`) is pinned statement by statement in `GenEqSkLockup`
  (`k_Keeper_InitializeAllLocks_listing`, also a tie-lemma file of C14).

  Model ↔ source:
    `Lockup.restart`             InitGenesis ∘ ExportGenesis
    `Lockup.exportGenesis`       ExportGenesis: `GetPeriodLocks` (`periodLocks`) + `GetLastLockID`
    `Lockup.initGenesis`         InitGenesis: `SetParams(DefaultParams())`, `SetLastLockID`, `InitializeAllLocks`, error dropped
    `Lockup.defaultParams`       DefaultParams: no allowed address, `DefaultLockFee` = DYM / 20 = 10^18 / 20, minimum 0
    `Lockup.setParams`           Keeper.SetParams: the whole set written to the subspace
-/
import DymVerif.Gen.Lockup
import DymVerif.Model.LockupChain
namespace DymVerif.GenEq.LockupChain
open DymVerif

theorem initGenesis_body : Gen.Lockup.initGenesisBody =
  "{ k.SetParams(ctx, types.DefaultParams()) k.SetLastLockID(ctx, genState.LastLockId) if err := k.InitializeAllLocks(ctx, genState.Locks); err != nil { return } }" := rfl

theorem exportGenesis_body : Gen.Lockup.exportGenesisBody =
  "{ locks, err := k.GetPeriodLocks(ctx) if err != nil { panic(err) } return &types.GenesisState{ LastLockId: k.GetLastLockID(ctx), Locks: locks, } }" := rfl

theorem getPeriodLocks_body : Gen.Lockup.getPeriodLocksBody =
  "{ unlockings := k.getLocksFromIterator(ctx, k.LockIterator(ctx, true)) notUnlockings := k.getLocksFromIterator(ctx, k.LockIterator(ctx, false)) return combineLocks(notUnlockings, unlockings), nil }" := rfl

theorem combineLocks_body : Gen.Lockup.combineLocksBody = "{ return append(pl1, pl2...) }" := rfl

theorem defaultParams_body : Gen.Lockup.defaultParamsBody =
  "{ return Params{ ForceUnlockAllowedAddresses: []string{}, LockCreationFee: DefaultLockFee, MinLockDuration: 0, } }" := rfl

theorem setParams_body : Gen.Lockup.setParamsBody = "{ k.paramSpace.SetParamSet(ctx, &params) }" := rfl

theorem getParams_body : Gen.Lockup.getParamsBody =
  "{ k.paramSpace.GetParamSetIfExists(ctx, &params) return params }" := rfl

theorem defaultLockFee_init : Gen.Lockup.defaultLockFeeInit = "types.DYM.QuoRaw(20)" := rfl

theorem dym_init : Gen.Lockup.dymInit = "math.NewIntWithDecimal(1, 18)" := rfl

/-- the model's default fee is the value of those two initialisers: 1·10^18 / 20 -/
theorem defaultLockFee_value : Lockup.defaultLockFee = 1 * 10 ^ 18 / 20 := by decide

/-- the model's default parameters are the fields of `DefaultParams()` -/
theorem defaultParams_fields (fd : Nat) :
    (Lockup.defaultParams fd).minDur = 0 ∧ (Lockup.defaultParams fd).fee = Lockup.defaultLockFee ∧
    (Lockup.defaultParams fd).allowed = [] ∧ (Lockup.defaultParams fd).feeDenom = fd := ⟨rfl, rfl, rfl, rfl⟩

end DymVerif.GenEq.LockupChain
