/-
  Lemmas/DymNSLedger — exact balance equations of the market messages: refunds in full, deposits,
  proceeds of a sale.
-/
import DymVerif.Lemmas.DymNSAuth
namespace DymVerif.DymNS
open AMap

/-- what account `x` gets back when the bid `b` is refunded -/
def refundTo (b : Option Bid) (x : Acct) : Nat :=
  match b with
  | some b => if x = b.bidder then b.price else 0
  | none => 0

theorem balOf_set (s : State) (a x : Acct) (v : Nat) (t : State) (ht : t.bal = AMap.set s.bal a v) :
    balOf t x = if x = a then v else balOf s x := by
  unfold balOf; rw [ht, AMap.get_set]; split <;> rfl

@[simp] theorem balOf_toModuleT (s : State) (a x : Acct) (amt : Nat) :
    balOf (toModuleT s a amt) x = if x = a then balOf s a - amt else balOf s x :=
  balOf_set s a x _ _ rfl

@[simp] theorem balOf_fromModuleT (s : State) (a x : Acct) (amt : Nat) :
    balOf (fromModuleT s a amt) x = if x = a then balOf s a + amt else balOf s x :=
  balOf_set s a x _ _ rfl

@[simp] theorem balOf_payAndBurnT (s : State) (a x : Acct) (amt : Nat) :
    balOf (payAndBurnT s a amt) x = if x = a then balOf s a - amt else balOf s x :=
  balOf_set s a x _ _ rfl

theorem balOf_refundOptT (s : State) (b : Option Bid) (x : Acct) :
    balOf (refundOptT s b) x = balOf s x + refundTo b x := by
  cases b with
  | none => simp [refundOptT, refundTo]
  | some b =>
    simp only [refundOptT, balOf_fromModuleT, refundTo]
    split
    · rename_i h; subst h; rfl
    · rfl

theorem balOf_congr {s t : State} (h : t.bal = s.bal) (x : Acct) : balOf t x = balOf s x := by
  unfold balOf; rw [h]

theorem balOf_pruneNameT (s : State) (n : Name) (x : Acct) :
    balOf (pruneNameT s n) x = balOf s x + refundTo (nameBid s n) x := by
  rw [← balOf_refundOptT]; exact balOf_congr rfl x

theorem balOf_transferOwnershipT (s : State) (n : Name) (d : DymName) (b x : Acct) :
    balOf (transferOwnershipT s n d b) x = balOf s x + refundTo (nameBid s n) x := by
  rw [← balOf_pruneNameT]; exact balOf_congr rfl x

theorem balOf_completeNameSOT (s : State) (n : Name) (d : DymName) (b : Bid) (x : Acct) :
    balOf (completeNameSOT s n d b) x = if x = d.owner then balOf s x + b.price else balOf s x := by
  have : balOf (completeNameSOT s n d b) x = balOf (fromModuleT s d.owner b.price) x := balOf_congr rfl x
  rw [this, balOf_fromModuleT]
  split
  · rename_i h; subst h; rfl
  · rfl

theorem balOf_takeBidT (s : State) (o : Option Bid) (a x : Acct) (offer : Nat) :
    balOf (takeBidT s o a offer) x =
      if x = a then balOf s a + refundTo o a - offer else balOf s x + refundTo o x := by
  simp only [takeBidT, balOf_toModuleT, balOf_refundOptT]


/-- the state right after a bid was recorded on the sell order of name `n` -/
def bidStateN (s : State) (so : SellOrder) (a : Acct) (offer : Nat) (n : Name) : State :=
  let s1 := takeBidT s so.bid a offer
  { s1 with nameSO := AMap.set s1.nameSO n { so with bid := some ⟨a, offer, 0⟩ } }

theorem balOf_bidStateN (s : State) (so : SellOrder) (a : Acct) (offer : Nat) (n : Name) (x : Acct) :
    balOf (bidStateN s so a offer n) x =
      if x = a then balOf s a + refundTo so.bid a - offer else balOf s x + refundTo so.bid x := by
  rw [← balOf_takeBidT]; exact balOf_congr rfl x

/-- **a bid on a name**: the buyer pays exactly the offer, the previous bidder is refunded in full,
    and if the bid completes the order the seller receives exactly the offer and the buyer the
    name with the configuration cleared -/
theorem purchaseName_ledger {s s' : State} {a : Acct} {n : Name} {offer : Nat} {d : DymName} {so : SellOrder}
    (h : purchaseName s a n offer = .ok s') (hd : getName s n = some d) (hso : AMap.get s.nameSO n = some so) :
    (∀ x, balOf s' x + (if x = a then offer else 0) =
        balOf s x + refundTo so.bid x +
          (if ({ so with bid := some ⟨a, offer, 0⟩ } : SellOrder).finished s.now = true ∧ x = d.owner then offer else 0)) ∧
    (if ({ so with bid := some ⟨a, offer, 0⟩ } : SellOrder).finished s.now = true
     then getName s' n = some (cleared a d.expireAt) ∧ AMap.get s'.nameSO n = none
     else getName s' n = some d ∧ AMap.get s'.nameSO n = some { so with bid := some ⟨a, offer, 0⟩ }) := by
  unfold purchaseName at h
  mcases' h
  all_goals
    rename (s.nameSO.get n = some _) => hso'
    rw [hso] at hso'; injection hso' with hso'; subst hso'
    rename (getName s n = some _) => hd'
    rw [hd] at hd'; injection hd' with hd'; subst hd'
    rename (d.owner ≠ a) => hoa
    rename (takeBid s _ a offer = Except.ok _) => ht
    obtain ⟨rfl, _, hle⟩ := takeBid_ok ht
    rw [balOf_refundOptT] at hle
  · rename (SellOrder.finished _ _ = true) => hfin
    have hfin' : ({ so with bid := some ⟨a, offer, 0⟩ } : SellOrder).finished s.now = true := by simpa using hfin
    change completeNameSO (bidStateN s so a offer n) n = .ok s' at h
    obtain ⟨d0, so0, b, hd0, hso0, hb, _, _, rfl⟩ := completeNameSO_ok h
    have hd0' : getName s n = some d0 := by simpa [getName, bidStateN] using hd0
    rw [hd] at hd0'; injection hd0' with hd0'; subst hd0'
    have hso0' : some ({ so with bid := some ⟨a, offer, 0⟩ } : SellOrder) = some so0 := by
      simpa [bidStateN] using hso0
    injection hso0' with hso0'; subst hso0'
    simp only at hb
    injection hb with hb; subst hb
    simp only [hfin', true_and, if_true]
    refine ⟨fun x => ?_, ?_, ?_⟩
    · rw [balOf_completeNameSOT]
      simp only [balOf_bidStateN]
      by_cases hxa : x = a
      · subst hxa
        have : ¬ x = d.owner := fun e => hoa e.symm
        simp only [this, if_false, if_true]; omega
      · by_cases hxo : x = d.owner <;> simp [hxa, hxo, hoa]
    · simp [getName, completeNameSOT_get]
    · simp [completeNameSOT, fromModuleT]
  · rename (¬ SellOrder.finished _ _ = true) => hfin
    have hfin' : ¬ ({ so with bid := some ⟨a, offer, 0⟩ } : SellOrder).finished s.now = true := by simpa using hfin
    injection h with h
    have h' : s' = bidStateN s so a offer n := h.symm
    subst h'
    simp only [hfin', Bool.false_eq_true, false_and, if_false]
    refine ⟨fun x => ?_, ?_, ?_⟩
    · rw [balOf_bidStateN]
      by_cases hxa : x = a
      · subst hxa; simp only [if_true]; omega
      · simp [hxa]
    · simpa [getName, bidStateN] using hd
    · simp [bidStateN]

/-- **cancelling a buy order** refunds exactly the escrowed offer to its maker -/
theorem cancelBO_ledger {s s' : State} {a : Acct} {pfx : Bool} {id : Nat} (h : cancelBO s a pfx id = .ok s') :
    ∃ bo, AMap.get s.bos id = some bo ∧ bo.buyer = a ∧ AMap.get s'.bos id = none ∧
      ∀ x, balOf s' x = balOf s x + (if x = a then bo.offer else 0) := by
  unfold cancelBO at h
  mcases' h
  rename (getBO s pfx id = some _) => hg
  rename (fromModule s _ _ = Except.ok _) => hf
  obtain ⟨rfl, _⟩ := fromModule_ok hf
  injection h with h; subst h
  rename (BuyOrder.buyer _ = a) => hb
  refine ⟨_, (getBO_some hg).1, hb, by simp [removeBO], fun x => ?_⟩
  have e : ∀ (t : State) (bo : BuyOrder), balOf (removeBO t id bo) x = balOf t x := fun t bo => balOf_congr rfl x
  rw [e, balOf_fromModuleT, hb]
  split
  · rename_i hx; subst hx; rfl
  · rfl


/-- **completing a finished sell order of a name**: with trading disabled or the name expired the
    bid is refunded in full and nothing else changes; otherwise the seller receives exactly the
    winning bid and the winning bidder the name with the configuration cleared -/
theorem completeNameSOMsg_ledger {s s' : State} {a : Acct} {n : Name} (h : completeNameSOMsg s a n = .ok s') :
    ∃ d so b, getName s n = some d ∧ AMap.get s.nameSO n = some so ∧ so.bid = some b ∧ so.finished s.now = true ∧
      AMap.get s'.nameSO n = none ∧
      (if (!s.p.tradeName || d.expired s.now) = true
       then getName s' n = some d ∧ ∀ x, balOf s' x = balOf s x + refundTo (some b) x
       else getName s' n = some (cleared b.bidder d.expireAt) ∧
            ∀ x, balOf s' x = balOf s x + (if x = d.owner then b.price else 0)) := by
  unfold completeNameSOMsg at h
  mcases' h
  · rename (s.nameSO.get n = some _) => hso
    rename (SellOrder.bid _ = some _) => hb
    rename (getName s n = some _) => hd
    rename ((!s.p.tradeName || DymName.expired _ s.now) = true) => hr
    rename (refundBid s _ = Except.ok _) => hf
    obtain ⟨rfl, _⟩ := fromModule_ok hf
    injection h with h; subst h
    refine ⟨_, _, _, hd, hso, hb, by assumption, by simp, ?_⟩
    simp only [hr, if_true]
    refine ⟨hd, fun x => ?_⟩
    rw [← balOf_refundOptT]; exact balOf_congr rfl x
  · rename (s.nameSO.get n = some _) => hso
    rename (SellOrder.bid _ = some _) => hb
    rename (getName s n = some _) => hd
    rename (¬ (!s.p.tradeName || DymName.expired _ s.now) = true) => hr
    obtain ⟨d0, so0, b0, hd0, hso0, hb0, hfin, _, rfl⟩ := completeNameSO_ok h
    rw [hd] at hd0; injection hd0 with hd0; subst hd0
    rw [hso] at hso0; injection hso0 with hso0; subst hso0
    rw [hb] at hb0; injection hb0 with hb0; subst hb0
    refine ⟨_, _, _, hd, hso, hb, hfin, by simp [completeNameSOT, fromModuleT], ?_⟩
    simp only [hr, if_false]
    refine ⟨by simp [getName, completeNameSOT_get], fun x => ?_⟩
    rw [balOf_completeNameSOT]; split <;> rfl

/-- **registration that prunes the previous record** (new registration, renewal of an expired
    name, take-over): the payer pays exactly the confirmed price and the highest bidder of the
    pruned sell order is refunded in full -/
theorem registerName_prune_ledger {s s' : State} {a : Acct} {n : Name} {dur pay c : Nat}
    (h : registerName s a n dur pay c = .ok s') (hp : (regPlan s a n dur c).prune = true) :
    AMap.get s'.nameSO n = none ∧
    ∀ x, balOf s' x + (if x = a then pay else 0) = balOf s x + refundTo (nameBid s n) x := by
  unfold registerName at h
  mcases' h
  · rename (payAndBurn s a _ = Except.ok _) => h1
    obtain ⟨rfl, hle⟩ := payAndBurn_ok h1
    rename (pruneName _ n = Except.ok _) => hpr
    obtain ⟨rfl, _⟩ := pruneName_ok hpr
    rw [setNameAfterBoth_ok] at h
    injection h with h; subst h
    rename ((regPlan s a n dur c).cost = pay) => hc
    refine ⟨by simp [pruneNameT], fun x => ?_⟩
    have e : balOf { pruneNameT (payAndBurnT s a (regPlan s a n dur c).cost) n with
        ns := (pruneNameT (payAndBurnT s a (regPlan s a n dur c).cost) n).ns.setAfterBothT n (regPlan s a n dur c).record } x
        = balOf (pruneNameT (payAndBurnT s a (regPlan s a n dur c).cost) n) x := balOf_congr rfl x
    rw [e, balOf_pruneNameT, balOf_payAndBurnT]
    have : nameBid (payAndBurnT s a (regPlan s a n dur c).cost) n = nameBid s n := rfl
    rw [this, hc] at *
    by_cases hxa : x = a
    · subst hxa; simp only [if_true]; omega
    · simp [hxa]
  · rename (¬ (regPlan s a n dur c).prune = true) => hk
    exact absurd hp hk

/-- **placing or raising a buy order on a name**: a new order escrows exactly the offer, a raise
    only the difference to the previous offer; nobody else's balance moves -/
theorem placeNameBO_ledger {s s' : State} {a : Acct} {n : Name} {offer : Nat} {cont : Option (Bool × Nat)}
    (h : placeNameBO s a n offer cont = .ok s') :
    (∀ x, x ≠ a → balOf s' x = balOf s x) ∧
    (match cont with
     | none => balOf s' a + offer = balOf s a ∧
               AMap.get s'.bos (s.boCount + 1) = some ⟨false, n, 0, a, offer, 0⟩
     | some (_, id) => ∃ bo, AMap.get s.bos id = some bo ∧ bo.buyer = a ∧ bo.offer < offer ∧
               balOf s' a + (offer - bo.offer) = balOf s a ∧ AMap.get s'.bos id = some { bo with offer := offer }) := by
  unfold placeNameBO at h
  mcases' h
  rename (validateContinue s false a n offer cont = Except.ok _) => hv
  unfold putBO at h
  rcases validateContinue_cases hv with ⟨rfl, rfl⟩ | ⟨pfx, id, bo, rfl, rfl, hg, hlt, hbuy, _, _⟩
  · simp only at h
    obtain ⟨rfl, hle⟩ := toModule_ok h
    refine ⟨fun x hx => ?_, ?_, ?_⟩
    · rw [balOf_toModuleT]; simp only [hx, if_false]; exact balOf_congr rfl x
    · rw [balOf_toModuleT]; simp only [if_true]
      simp only [balOf] at hle ⊢; omega
    · simp [toModuleT]
  · simp only at h
    obtain ⟨rfl, hle⟩ := toModule_ok h
    refine ⟨fun x hx => ?_, bo, hg, hbuy, hlt, ?_, ?_⟩
    · rw [balOf_toModuleT]; simp only [hx, if_false]; exact balOf_congr rfl x
    · rw [balOf_toModuleT]; simp only [if_true]
      simp only [balOf] at hle ⊢; omega
    · simp [toModuleT]

/-- **accepting a buy order on a name** at its offered price: the seller receives exactly the
    escrowed offer, the buyer gets the name with the configuration cleared, the order is closed -/
theorem acceptNameBO_ledger {s s' : State} {a : Acct} {pfx : Bool} {id : Nat} {bo : BuyOrder}
    (hg : AMap.get s.bos id = some bo) (hna : bo.isAlias = false)
    (h : acceptBO s a pfx id bo.offer = .ok s') :
    ∃ d, getName s bo.asset = some d ∧ d.owner = a ∧ d.expired s.now = false ∧
      getName s' bo.asset = some (cleared bo.buyer d.expireAt) ∧ AMap.get s'.bos id = none ∧
      ∀ x, balOf s' x = balOf s x + (if x = a then bo.offer else 0) := by
  unfold acceptBO at h
  mcases' h
  all_goals
    rename (getBO s pfx id = some _) => hg'
    have := (getBO_some hg').1
    rw [hg] at this; injection this with this; subst this
  · rename (bo.isAlias = true) => ht; rw [hna] at ht; cases ht
  · unfold acceptNameBO at h
    mcases' h
    · rename (fromModule s _ _ = Except.ok _) => hf
      obtain ⟨rfl, _⟩ := fromModule_ok hf
      obtain ⟨rfl, _⟩ := transferOwnership_ok h
      rename (getNameLive s bo.asset = some _) => hl
      obtain ⟨hd0, he⟩ := getNameLive_some hl
      rename (DymName.owner _ = a) => ho
      rename (s.nameSO.get bo.asset = none) => hso
      rename (DymName) => d0
      refine ⟨_, hd0, ho, he, by simp [getName, transferOwnershipT_get], ?_, fun x => ?_⟩
      · simp [transferOwnershipT, pruneNameT, removeBO, fromModuleT]
      · rw [balOf_transferOwnershipT]
        have : nameBid (removeBO (fromModuleT s d0.owner bo.offer) id bo) bo.asset = none := by
          simp [nameBid, removeBO, fromModuleT, hso]
        rw [this]
        have e : ∀ (t : State), balOf (removeBO t id bo) x = balOf t x := fun t => balOf_congr rfl x
        rw [e, balOf_fromModuleT, ho]
        simp only [refundTo, Nat.add_zero]
        split
        · rename_i hx; subst hx; rfl
        · rfl
    · simp_all

end DymVerif.DymNS
