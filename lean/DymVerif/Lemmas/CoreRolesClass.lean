/-
  Lemmas/CoreRolesClass — classification of every change of a proposer slot by the operation that
  caused it (from a state satisfying the roles invariant).
-/
import DymVerif.Lemmas.CoreRolesMark
namespace DymVerif.Core.Roles

theorem apply_classify {s s' : St} {o : Op} {id : Nat} {r r' : Rollapp} (h : Roles s)
    (e : apply s o = .ok s') (hr : getRa s id = some r) (hr' : getRa s' id = some r')
    (hne : r'.proposer ≠ r.proposer) :
    (∃ m q, o = .update m ∧ m.ra = id ∧ m.last = true ∧ r.proposer = some m.sender ∧
        getSeq s m.sender = some q ∧ noticeElapsed q s.t = true ∧ r'.proposer = r.successor) ∨
    (∃ a k pa pq, o = .kick a ∧ getSeq s a = some k ∧ k.bonded = true ∧ k.optedIn = true ∧ k.rollapp = id ∧
        r.proposer = some pa ∧ a ≠ pa ∧ getSeq s pa = some pq ∧ s.sqp.kickThr ≤ pq.dishonor ∧
        r'.proposer = choose s' id ∧ r'.proposer.isSome = true) ∨
    (r'.proposer = none ∧
        ((∃ au hh rev pun rw, o = .fraud au id hh rev pun rw) ∨ (∃ au vs, o = .obsolete au vs))) ∨
    (r.proposer = none ∧ r'.proposer = choose s' id ∧ r'.proposer.isSome = true ∧
        ((∃ a b d, o = .createSeq a id b d) ∨
         (∃ a v q, o = .optIn a v ∧ getSeq s a = some q ∧ q.rollapp = id))) := by
  have hps : propOf s id = some r.proposer := propOf_get hr
  have hps' : propOf s' id = some r'.proposer := propOf_get hr'
  have contra : ∀ {P : Prop}, propOf s' id = propOf s id → P := by
    intro P hc
    rw [hps, hps'] at hc
    injection hc with hc
    exact absurd hc hne
  cases o with
  | createRollapp id' owner mb =>
    simp only [apply] at e
    split at e
    · cases e
    · rename_i hex
      injection e with e; subst e
      have hnone : getRa s id' = none := by
        cases hx : getRa s id' with
        | none => rfl
        | some _ => simp [hx] at hex
      have hid : id' ≠ id := by intro hh; rw [hh, hr] at hnone; cases hnone
      apply contra
      unfold propOf
      rw [getRa_insert_other (r := newRollapp id' owner mb) (by exact hid)]
  | bridge ra hh =>
    simp only [apply] at e
    split at e
    · cases e
    · rename_i r1 hg1
      split at e
      · cases e
      · split at e
        · cases e
        · injection e with e; subst e
          exact contra (psame_setRa (r0 := r1) hg1 (by rfl) (by rfl) id)
  | fund a' amt => simp only [apply] at e; injection e with e; subst e; exact contra rfl
  | createSeq a' ra b d =>
    rcases createSeq_p e with ps | ⟨pf, pn, pc, pi⟩
    · exact contra (ps id)
    · by_cases hc : id = ra
      · subst hc
        rw [hps] at pn; injection pn with pn
        rw [hps'] at pc; injection pc with pc
        right; right; right
        exact ⟨pn, pc, by rw [pc]; exact pi, Or.inl ⟨a', b, d, rfl⟩⟩
      · exact contra (pf id hc)
  | bondInc a' amt d => exact contra ((increaseBond_frame h.core.uniq e).psame id)
  | bondDec a' amt => exact contra (PSame.of_ras (decreaseBond_ras e) id)
  | unbond a' => exact contra (PSame.of_ras (unbond_ras e) id)
  | optIn a' v =>
    obtain ⟨q, hq, hcase⟩ := optIn_p e
    rcases hcase with ps | ⟨pf, pn, pc, pi⟩
    · exact contra (ps id)
    · by_cases hc : id = q.rollapp
      · subst hc
        rw [hps] at pn; injection pn with pn
        rw [hps'] at pc; injection pc with pc
        right; right; right
        exact ⟨pn, pc, by rw [pc]; exact pi, Or.inr ⟨a', v, q, rfl, hq, rfl⟩⟩
      · exact contra (pf id hc)
  | kick a' =>
    obtain ⟨k, r1, pa, pq, hk1, hkb, hko, hk2, hk3, hk4, hk5, hk6, pf, pc, pi⟩ := kick_p h e
    by_cases hc : id = k.rollapp
    · subst hc
      rw [hr] at hk2; injection hk2 with hk2; subst hk2
      rw [hps'] at pc; injection pc with pc
      right; left
      exact ⟨a', k, pa, pq, rfl, hk1, hkb, hko, rfl, hk3, hk4, hk5, hk6, pc, by rw [pc]; exact pi⟩
    · exact contra (pf id hc)
  | update m =>
    obtain ⟨r1, hr1, hp1, hcase⟩ := updateState_p h e
    rcases hcase with ps | ⟨hl, pf, pc, q, hq, hel⟩
    · exact contra (ps id)
    · by_cases hc : id = m.ra
      · subst hc
        rw [hr] at hr1; injection hr1 with hr1; subst hr1
        rw [hps'] at pc; injection pc with pc
        left
        exact ⟨m, q, rfl, rfl, hl, hp1, hq, hel, pc⟩
      · exact contra (pf id hc)
  | fraud au ra hh rev p rw =>
    have fp := fraud_p h e
    by_cases hc : id = ra
    · subst hc
      have pc := fp.2
      rw [hps'] at pc; injection pc with pc
      right; right; left
      exact ⟨pc, Or.inl ⟨au, hh, rev, p, rw, rfl⟩⟩
    · exact contra (fp.1 id hc)
  | obsolete au vs =>
    rcases markObsolete_p h e id with h1 | h1
    · exact contra h1
    · rw [hps'] at h1; injection h1 with h1
      right; right; left
      exact ⟨h1, Or.inr ⟨au, vs, rfl⟩⟩
  | punish au a' rw => exact contra ((punish_frame h.core.uniq (punishProposal_ok e).2).psame id)
  | transferOwner sg ra' no =>
    obtain ⟨r1, hg1, _, _, _, rfl⟩ := transferOwner_ok e
    exact contra (psame_setRa (r0 := r1) hg1 (by rfl) (by rfl) id)
  | setSeqParams au sp =>
    obtain ⟨_, hnp, _, rfl⟩ := setSeqParams_ok e
    exact contra rfl
  | begin_ dt => simp only [apply] at e; injection e with e; subst e; exact contra (beginBlock_psame s dt id)
  | end_ f => simp only [apply] at e; injection e with e; subst e; exact contra ((endBlock_frame h.core.uniq).psame id)

end DymVerif.Core.Roles
