/-
  Lemmas/IroPlans — the multi-plan layer M-IRO-PLANS: every slot of a multi-plan history (restarts
  included) is a single-plan history of M-IRO (`slot_run`); the store skeleton keeps `Genesis.IroInv`
  (`tinv_step`), under which a restart is the identity, a new plan's id is fresh, nothing stored is
  ever replaced, and every rollapp's plan id resolves to that rollapp's own plan (`routed_of_inv`).
-/
import DymVerif.Model.IroPlans
import DymVerif.Lemmas.GenesisIro
import DymVerif.Lemmas.IroSteps
namespace DymVerif.IroPlans
open DymVerif DymVerif.Iro DymVerif.Genesis

theorem raKey_inj {a b : Nat} (h : raKey a = raKey b) : a = b := by
  unfold raKey at h
  exact decKey_inj (List.cons.inj h).2

theorem raKey_ne_foreign (a b : Nat) : raKey a ≠ foreignKey b := by
  unfold raKey foreignKey
  intro h
  have := (List.cons.inj h).1
  omega

/-! ### slots -/

/-- what one multi-plan op does to slot `k`: the single-plan step of `slotOp`, or nothing -/
theorem mstep_slot (I : Nat → Int → Int) (T : Nat → Int → Int → Option Int) (m : MState) (o : MOp) (k : Nat) :
    (mstep I T m o).1.slot k =
      match slotOp m k o with
      | some op => (step (I k) (T k) (m.slot k) op).1
      | none => m.slot k := by
  cases o with
  | newra => rfl
  | sel j =>
    simp only [mstep, slotOp]
    split <;> rfl
  | restart => rfl
  | on op =>
    simp only [mstep, slotOp]
    by_cases ht : isTime op = true
    · simp [ht]
    · simp only [ht, if_false, Bool.false_eq_true]
      by_cases hk : m.cur = k
      · subst hk
        simp only [ne_eq, not_true_eq_false, if_false]
        by_cases hc : isCreate op = true
        · simp only [hc, if_true]
          by_cases hh : kvHas (plansByRollappKey (raKey m.cur)) m.tab.byRollapp = true
          · simp [hh]
          · simp [hh, updSlot]
        · simp only [hc, if_false, Bool.false_eq_true]
          by_cases hv : (viaStore op && !routed m m.cur) = true
          · simp [hv]
          · simp [hv, updSlot]
      · have hk' : m.cur ≠ k := hk
        simp only [ne_eq, hk', not_false_eq_true, if_true]
        by_cases hc : isCreate op = true
        · simp only [hc, if_true]
          by_cases hh : kvHas (plansByRollappKey (raKey m.cur)) m.tab.byRollapp = true
          · simp [hh]
          · have : k ≠ m.cur := fun e => hk e.symm
            simp [hh, updSlot, this]
        · simp only [hc, if_false, Bool.false_eq_true]
          by_cases hv : (viaStore op && !routed m m.cur) = true
          · simp [hv]
          · have : k ≠ m.cur := fun e => hk e.symm
            simp [hv, updSlot, this]

/-- **every slot of a multi-plan history is a single-plan history** of M-IRO: the messages applied
    to slot `k` are exactly `slotOps … k` -/
theorem slot_run (I : Nat → Int → Int) (T : Nat → Int → Int → Option Int) (k : Nat) (ops : List MOp) :
    ∀ m : MState, (mrun I T m ops).slot k = run (I k) (T k) (m.slot k) (slotOps I T k m ops) := by
  induction ops with
  | nil => intro m; rfl
  | cons o os ih =>
    intro m
    show (mrun I T (mstep I T m o).1 os).slot k = _
    rw [ih, mstep_slot]
    simp only [slotOps]
    cases slotOp m k o <;> rfl

/-- a message for another slot, a restart, a new rollapp: slot `k` is untouched -/
theorem mstep_other_slot (I : Nat → Int → Int) (T : Nat → Int → Int → Option Int) (m : MState) (o : MOp) (k : Nat)
    (h : slotOp m k o = none) : (mstep I T m o).1.slot k = m.slot k := by
  rw [mstep_slot, h]

theorem slotOp_restart (m : MState) (k : Nat) : slotOp m k .restart = none := rfl
theorem slotOp_newra (m : MState) (k : Nat) : slotOp m k .newra = none := rfl
theorem slotOp_sel (m : MState) (k j : Nat) : slotOp m k (.sel j) = none := rfl
/-- creating a plan for another rollapp does not touch slot `k` -/
theorem slotOp_other_create (m : MState) (k : Nat) (op : Op) (hk : m.cur ≠ k) (hc : isCreate op = true) :
    slotOp m k (.on op) = none := by
  have ht : isTime op = false := by cases op <;> simp_all [isTime, isCreate]
  simp [slotOp, ht, hk]

/-! ### the store -/

/-- the three things a multi-plan op can do to the store -/
theorem mstep_tab (I : Nat → Int → Int) (T : Nat → Int → Int → Option Int) (m : MState) (o : MOp) :
    (mstep I T m o).1.tab = m.tab ∨ (mstep I T m o).1.tab = importIro (exportIro m.tab) ∨
    (kvHas (plansByRollappKey (raKey m.cur)) m.tab.byRollapp = false ∧
      (mstep I T m o).1.tab = iroStep m.tab (.create (raKey m.cur) m.cur)) := by
  cases o with
  | newra => exact Or.inl rfl
  | sel j => simp only [mstep]; split <;> exact Or.inl rfl
  | restart => exact Or.inr (Or.inl rfl)
  | on op =>
    simp only [mstep]
    by_cases ht : isTime op = true
    · simp [ht]
    · simp only [ht, if_false, Bool.false_eq_true]
      by_cases hc : isCreate op = true
      · simp only [hc, if_true]
        by_cases hh : kvHas (plansByRollappKey (raKey m.cur)) m.tab.byRollapp = true
        · simp [hh]
        · simp only [hh, if_false, Bool.false_eq_true]
          by_cases hr : (step (I m.cur) (T m.cur) (m.slot m.cur) op).2 = .ok
          · refine Or.inr (Or.inr ⟨by simpa using hh, ?_⟩)
            simp [hr]
          · simp [hr]
      · simp only [hc, if_false, Bool.false_eq_true]
        by_cases hv : (viaStore op && !routed m m.cur) = true
        · simp [hv]
        · simp [hv]

theorem tinv_init (base : Nat) : IroInv (baseTab base) := iroInv_run _

theorem tinv_step {I : Nat → Int → Int} {T : Nat → Int → Int → Option Int} {m : MState} (o : MOp)
    (h : IroInv m.tab) : IroInv (mstep I T m o).1.tab := by
  rcases mstep_tab I T m o with e | e | ⟨_, e⟩
  · rw [e]; exact h
  · rw [e, iro_import_export h]; exact h
  · rw [e]; exact iroInv_step h _

theorem tinv_run {I : Nat → Int → Int} {T : Nat → Int → Int → Option Int} (ops : List MOp) :
    ∀ m : MState, IroInv m.tab → IroInv (mrun I T m ops).tab := by
  induction ops with
  | nil => intro m h; exact h
  | cons o os ih => intro m h; exact ih _ (tinv_step o h)

/-- under the store invariant a restart rebuilds exactly the store it exported -/
theorem restart_tab {m : MState} (h : IroInv m.tab) : importIro (exportIro m.tab) = m.tab :=
  iro_import_export h

/-- the id `GetNextPlanIdAndIncrement` hands out is not in use -/
theorem next_id_fresh {s : IroState} (h : IroInv s) :
    ∀ x ∈ s.plans, x.2.id ≠ nextPlanId s ∧ x.1 ≠ planKey (nextPlanId s) := by
  intro x hx
  have hub := h.ub x hx
  refine ⟨by unfold nextPlanId; omega, ?_⟩
  intro he
  rw [h.kp x hx] at he
  have := planKey_inj he
  unfold nextPlanId at this; omega

/-- `CreatePlan` of a rollapp without a plan keeps every stored plan and every index entry -/
theorem create_keeps {s : IroState} (h : IroInv s) (r : Bytes) (b : Nat)
    (hf : kvHas (plansByRollappKey r) s.byRollapp = false) :
    (∀ x ∈ s.plans, x ∈ (iroStep s (.create r b)).plans) ∧
    (∀ e ∈ s.byRollapp, e ∈ (iroStep s (.create r b)).byRollapp) ∧
    (planKey (nextPlanId s), (⟨nextPlanId s, r, b⟩ : Genesis.Plan)) ∈ (iroStep s (.create r b)).plans ∧
    (plansByRollappKey r, nextPlanId s) ∈ (iroStep s (.create r b)).byRollapp := by
  have e : iroStep s (.create r b) = setPlan { s with lastPlanId := nextPlanId s } ⟨nextPlanId s, r, b⟩ := by
    simp [iroStep, hf]
  rw [e]
  have hmemP := mem_kvSet (β := Genesis.Plan) soBytes (planKey (nextPlanId s)) ⟨nextPlanId s, r, b⟩ h.sp
  have hmemR := mem_kvSet (β := Nat) soBytes (plansByRollappKey r) (nextPlanId s) h.sr
  refine ⟨?_, ?_, ?_, ?_⟩
  · intro x hx
    exact (hmemP x).2 (Or.inr ⟨hx, (next_id_fresh h x hx).2⟩)
  · intro x hx
    exact (hmemR x).2 (Or.inr ⟨hx, kvHas_false hf x hx⟩)
  · exact (hmemP _).2 (Or.inl rfl)
  · exact (hmemR _).2 (Or.inl rfl)

/-- **nothing stored is ever replaced**: every plan record and every by-rollapp entry survives
    every multi-plan op (creation of other plans and restarts included) -/
theorem mstep_keeps {I : Nat → Int → Int} {T : Nat → Int → Int → Option Int} {m : MState} (o : MOp)
    (h : IroInv m.tab) :
    (∀ x ∈ m.tab.plans, x ∈ (mstep I T m o).1.tab.plans) ∧
    (∀ e ∈ m.tab.byRollapp, e ∈ (mstep I T m o).1.tab.byRollapp) := by
  rcases mstep_tab I T m o with e | e | ⟨hf, e⟩
  · rw [e]; exact ⟨fun _ hx => hx, fun _ hx => hx⟩
  · rw [e, iro_import_export h]; exact ⟨fun _ hx => hx, fun _ hx => hx⟩
  · rw [e]
    obtain ⟨h1, h2, _, _⟩ := create_keeps h (raKey m.cur) m.cur hf
    exact ⟨h1, h2⟩

/-- under the store invariant the id known for a rollapp resolves to that rollapp's own plan -/
theorem routed_of_inv {m : MState} (h : IroInv m.tab) (k : Nat) : routed m k = true := by
  unfold routed slotPlanId
  cases hg : kvGet (plansByRollappKey (raKey k)) m.tab.byRollapp with
  | none => rfl
  | some id =>
    simp only []
    have hmem := kvGet_some hg
    obtain ⟨x, hx, hxe⟩ := (h.idx _).1 hmem
    have h1 : plansByRollappKey (raKey k) = plansByRollappKey x.2.rollapp := (Prod.mk.inj hxe).1
    have h2 : id = x.2.id := (Prod.mk.inj hxe).2
    have hkey : x.1 = planKey id := by rw [h.kp x hx, h2]
    have hget : kvGet (planKey id) m.tab.plans = some x.2 :=
      (kvGet_eq_some_iff soBytes h.sp (planKey id) x.2).2 (by rw [← hkey]; exact hx)
    rw [hget]
    simp [plansByRollappKey_inj h1]

/-- so a message for the current slot is never `lost` and always reaches the slot's own world -/
theorem slotOp_cur_of_inv {m : MState} (h : IroInv m.tab) (op : Op) (hc : isCreate op = false) :
    slotOp m m.cur (.on op) = some op := by
  simp only [slotOp]
  by_cases ht : isTime op = true
  · simp [ht]
  · simp [ht, hc, routed_of_inv h]

theorem mstep_on_of_inv {I : Nat → Int → Int} {T : Nat → Int → Int → Option Int} {m : MState}
    (h : IroInv m.tab) (op : Op) (hc : isCreate op = false) (ht : isTime op = false) :
    mstep I T m (.on op) =
      ({ m with slot := updSlot m.slot m.cur (step (I m.cur) (T m.cur) (m.slot m.cur) op).1 },
       .r (step (I m.cur) (T m.cur) (m.slot m.cur) op).2) := by
  simp [mstep, ht, hc, routed_of_inv h]

end DymVerif.IroPlans
