/-
  Lemmas/PacketsIndex — the pending-by-address index of M-Packets is exact in every history: it lists
  every pending packet under its current beneficiary (the fulfiller / LP after a fulfilment) and
  nothing else.  (True since `RestoreOriginalTransferTarget` stopped rewriting the caller's packet.)

  The proof needs that a newly recorded packet never lands on a key already in the store; this is
  where C19's injectivity of the packet key enters (rollapp and channel ids without '/', uint64
  heights and sequences), together with the channel table being well formed (one canonical channel
  per rollapp).
-/
import DymVerif.Lemmas.PacketsOrders
import DymVerif.Props.C19
namespace DymVerif.Packets
open DymVerif DymVerif.Keys

def raIds (s : St) : List Bytes := s.ras.map (·.id)

theorem chanRollapp_ids {s s' : St} (h1 : s'.chans = s.chans) (h2 : raIds s' = raIds s) (c : Nat) :
    chanRollapp s' c = chanRollapp s c := by
  unfold chanRollapp
  rw [h1]
  cases s.chans[c]? with
  | none => rfl
  | some ch =>
    simp only
    cases ch.rollapp with
    | none => rfl
    | some r =>
      simp only
      have e : (s'.ras[r]?).map (·.id) = (s.ras[r]?).map (·.id) := by
        have := congrArg (fun l => l[r]?) h2
        simpa [raIds, List.getElem?_map] using this
      cases h3 : s'.ras[r]? with
      | none =>
        cases h4 : s.ras[r]? with
        | none => rfl
        | some y => rw [h3, h4] at e; cases e
      | some x =>
        cases h4 : s.ras[r]? with
        | none => rw [h3, h4] at e; cases e
        | some y =>
          rw [h3, h4] at e
          have : x.id = y.id := by simpa using e
          simp only [this]

theorem raIds_setRa (s : St) (r : Rollapp) : raIds (setRa s r) = raIds s := by
  unfold raIds setRa
  simp only [List.map_map]
  apply List.map_congr_left
  intro x _
  simp only [Function.comp]
  split
  · rename_i h; simpa using (by simpa using h : x.id = r.id).symm
  · rfl

/-- the channel table is well formed -/
structure CfgOk (s : St) : Prop where
  raSep : ∀ id ∈ raIds s, sep ∉ id
  chSep : ∀ c ∈ s.chans, sep ∉ c.cpId ∧ sep ∉ c.hubId
  canon : ∀ i j rid, chanRollapp s i = .ok (some rid) → chanRollapp s j = .ok (some rid) → i = j
  raNe : ∀ id ∈ raIds s, id ≠ []
  chNe : ∀ c ∈ s.chans, c.cpId ≠ [] ∧ c.hubId ≠ []

theorem CfgOk.congr {s s' : St} (h1 : s'.chans = s.chans) (h2 : raIds s' = raIds s) (h : CfgOk s) : CfgOk s' where
  raSep := by rw [h2]; exact h.raSep
  chSep := by rw [h1]; exact h.chSep
  canon := by
    intro i j rid hi hj
    rw [chanRollapp_ids h1 h2] at hi hj
    exact h.canon i j rid hi hj
  raNe := by rw [h2]; exact h.raNe
  chNe := by rw [h1]; exact h.chNe

/-- a stored packet agrees with the channel table and has uint64 height and sequence -/
def PktOk (s : St) (q : Packet) : Prop :=
  chanRollapp s q.chan = .ok (some q.rollappId) ∧
  q.srcChan = (if q.ptype == .onRecv then cpIdOf s q.chan else hubIdOf s q.chan) ∧
  q.proofHeight < 2 ^ 64 ∧ q.seq < 2 ^ 64

theorem PktOk.congr {s s' : St} (h1 : s'.chans = s.chans) (h2 : raIds s' = raIds s) {q : Packet} (h : PktOk s q) : PktOk s' q := by
  unfold PktOk at *
  rw [chanRollapp_ids h1 h2]
  unfold cpIdOf hubIdOf at *
  rw [h1]; exact h

theorem chanRollapp_some {s : St} {c : Nat} {rid : Bytes} (h : chanRollapp s c = .ok (some rid)) :
    rid ∈ raIds s ∧ ∃ ch, s.chans[c]? = some ch := by
  unfold chanRollapp at h
  cases hc : s.chans[c]? with
  | none => rw [hc] at h; cases h
  | some ch =>
    rw [hc] at h
    simp only at h
    cases hr : ch.rollapp with
    | none => rw [hr] at h; cases h
    | some r =>
      rw [hr] at h
      simp only at h
      cases hx : s.ras[r]? with
      | none => rw [hx] at h; cases h
      | some ra =>
        rw [hx] at h
        simp only at h
        split at h
        · cases h
          exact ⟨List.mem_map.mpr ⟨ra, List.mem_of_getElem? hx, rfl⟩, ch, rfl⟩
        · cases h

/-- the separators are absent from the ids a well-formed packet carries -/
theorem PktOk.noSep {s : St} {q : Packet} (hc : CfgOk s) (h : PktOk s q) : sep ∉ q.rollappId ∧ sep ∉ q.srcChan := by
  obtain ⟨h1, h2, _, _⟩ := h
  obtain ⟨hm, ch, hch⟩ := chanRollapp_some h1
  refine ⟨hc.raSep _ hm, ?_⟩
  rw [h2]
  have hmem := List.mem_of_getElem? hch
  unfold cpIdOf hubIdOf
  rw [hch]
  split
  · exact (hc.chSep ch hmem).1
  · exact (hc.chSep ch hmem).2

/-- the ids a well-formed packet carries are not empty (what `MsgFinalizePacket.ValidateBasic` asks for) -/
theorem PktOk.nonEmpty {s : St} {q : Packet} (hc : CfgOk s) (h : PktOk s q) : q.rollappId ≠ [] ∧ q.srcChan ≠ [] := by
  obtain ⟨h1, h2, _, _⟩ := h
  obtain ⟨hm, ch, hch⟩ := chanRollapp_some h1
  refine ⟨hc.raNe _ hm, ?_⟩
  rw [h2]
  have hmem := List.mem_of_getElem? hch
  unfold cpIdOf hubIdOf
  rw [hch]
  split
  · exact (hc.chNe ch hmem).1
  · exact (hc.chNe ch hmem).2

/-- two well-formed packets under the same key have the same identity -/
theorem key_determines_uid {s : St} {p q : Packet} (hc : CfgOk s) (hp : PktOk s p) (hq : PktOk s q) (h : pkey q = pkey p) :
    q.uid = p.uid ∧ q.status = p.status := by
  obtain ⟨sp1, sp2⟩ := hp.noSep hc
  obtain ⟨sq1, sq2⟩ := hq.noSep hc
  unfold pkey at h
  obtain ⟨e1, e2, _, e4, _, e6⟩ := C19.packet_key_injective _ _ _ _ _ _ _ _ _ _ _ _ sq1 sp1 sq2 sp2 hq.2.2.1 hp.2.2.1 hq.2.2.2 hp.2.2.2 h
  have hchan : q.chan = p.chan := hc.canon _ _ p.rollappId (e2 ▸ hq.1) hp.1
  exact ⟨by unfold Packet.uid; rw [e4, hchan, e6], e1⟩

-- ------------------------------------------------------------------ the index invariant

structure IdxInv (s : St) : Prop where
  cfg : CfgOk s
  pk : ∀ q ∈ s.packets, PktOk s q
  fwd : ∀ p ∈ s.packets, p.status = .pending → (p.target, pkey p) ∈ s.byAddr
  bwd : ∀ e ∈ s.byAddr, ∃ p ∈ s.packets, pkey p = e.2 ∧ p.status = .pending ∧ p.target = e.1

/-- packets, index, channel table and rollapp ids agree -/
structure IFrame (s s' : St) : Prop where
  packets : s'.packets = s.packets
  byAddr : s'.byAddr = s.byAddr
  chans : s'.chans = s.chans
  ids : raIds s' = raIds s

theorem IFrame.refl (s : St) : IFrame s s := ⟨rfl, rfl, rfl, rfl⟩
theorem IFrame.trans {a b c : St} (h1 : IFrame a b) (h2 : IFrame b c) : IFrame a c :=
  ⟨h2.packets.trans h1.packets, h2.byAddr.trans h1.byAddr, h2.chans.trans h1.chans, h2.ids.trans h1.ids⟩
theorem IFrame.ofD {s s' : St} (f : DFrame s s') : IFrame s s' := ⟨f.packets, f.byAddr, f.chans, by unfold raIds; rw [f.ras]⟩

theorem IdxInv.of_frame {s s' : St} (f : IFrame s s') (h : IdxInv s) : IdxInv s' where
  cfg := h.cfg.congr f.chans f.ids
  pk := by rw [f.packets]; exact fun q hq => (h.pk q hq).congr f.chans f.ids
  fwd := by rw [f.packets, f.byAddr]; exact h.fwd
  bwd := by rw [f.packets, f.byAddr]; exact h.bwd

/-- recording a new pending packet under a key not yet in the store -/
theorem IdxInv.record {s : St} (h : IdxInv s) (p : Packet) (hs : p.status = .pending) (hp : PktOk s p)
    (fresh : ∀ q ∈ s.packets, pkey q ≠ pkey p) :
    IdxInv (setPacket (addByAddr s p.target (pkey p)) p) where
  cfg := CfgOk.congr (s := s) rfl rfl h.cfg
  pk := by
    intro q hq
    rcases mem_setPacket.mp hq with rfl | ⟨hq', _⟩
    · exact PktOk.congr (s := s) rfl rfl hp
    · exact PktOk.congr (s := s) rfl rfl (h.pk q hq')
  fwd := by
    intro q hq hqs
    show (q.target, pkey q) ∈ (addByAddr s p.target (pkey p)).byAddr
    rcases mem_setPacket.mp hq with rfl | ⟨hq', _⟩
    · exact mem_addByAddr.mpr (Or.inl rfl)
    · exact mem_addByAddr.mpr (Or.inr (h.fwd q hq' hqs))
  bwd := by
    intro e he
    have he' : e ∈ (addByAddr s p.target (pkey p)).byAddr := he
    rcases mem_addByAddr.mp he' with rfl | he''
    · exact ⟨p, mem_setPacket.mpr (Or.inl rfl), rfl, hs, rfl⟩
    · obtain ⟨q, hq, h1, h2, h3⟩ := h.bwd e he''
      exact ⟨q, mem_setPacket.mpr (Or.inr ⟨hq, fresh q hq⟩), h1, h2, h3⟩

/-- deleting a stored packet together with its own index entry -/
theorem IdxInv.delete {s : St} (h : IdxInv s) (hk : KeysNodup s.packets) (p : Packet) (hp : p ∈ s.packets) :
    IdxInv (delByAddr (delPacket s (pkey p)) p.target (pkey p)) where
  cfg := CfgOk.congr (s := s) rfl rfl h.cfg
  pk := fun q hq => PktOk.congr (s := s) rfl rfl (h.pk q (mem_delPacket.mp hq).1)
  fwd := by
    intro q hq hqs
    obtain ⟨hq1, hq2⟩ := mem_delPacket.mp hq
    refine mem_delByAddr.mpr ⟨h.fwd q hq1 hqs, ?_⟩
    intro e
    exact hq2 (congrArg Prod.snd e)
  bwd := by
    intro e he
    obtain ⟨he1, he2⟩ := mem_delByAddr.mp he
    obtain ⟨q, hq, h1, h2, h3⟩ := h.bwd e he1
    refine ⟨q, mem_delPacket.mpr ⟨hq, ?_⟩, h1, h2, h3⟩
    intro hqp
    have : q = p := keysNodup_eq hk hp hq hqp
    subst this
    exact he2 (Prod.ext h3.symm h1.symm)

theorem iframe_writeAck (s : St) (c q : Nat) (b : Bool) : IFrame s (writeAck s c q b) := ⟨rfl, rfl, rfl, rfl⟩
theorem iframe_logRelease (s : St) (p : Packet) (ra : Option Bytes) (v : Bool) : IFrame s (logRelease s p ra v) := ⟨rfl, rfl, rfl, rfl⟩

/-- ops that leave packets and index alone -/
theorem iframe_receipts (s : St) (x) : IFrame s { s with receipts := s.receipts ++ [x] } := ⟨rfl, rfl, rfl, rfl⟩

theorem idx_deletePacket {s : St} (h : IdxInv s) (hk : KeysNodup s.packets) (p : Packet) (hp : p ∈ s.packets) :
    IdxInv (deletePacket s p) := by
  unfold deletePacket
  exact IdxInv.of_frame (IFrame.ofD ((frame_delOrder _ _ _).trans (frame_delOrder _ _ _))) (h.delete hk p hp)

theorem idx_foldl_delete : ∀ (l : List Packet) {s : St}, Inv04 s → IdxInv s → (∀ p ∈ l, p ∈ s.packets) →
    l.Pairwise (fun a b => pkey a ≠ pkey b) → IdxInv (l.foldl deletePacket s)
  | [], _, _, hi, _, _ => hi
  | p :: rest, s, h, hi, hl, hpw => by
    rw [List.pairwise_cons] at hpw
    have hp := hl p List.mem_cons_self
    apply idx_foldl_delete rest (inv_deletePacket p h) (idx_deletePacket hi (InvF.keys h) p hp)
    · intro q hq
      rw [deletePacket_packets]
      refine List.mem_filter.mpr ⟨hl q (List.mem_cons_of_mem _ hq), ?_⟩
      simpa using (hpw.1 q hq).symm
    · exact hpw.2

theorem iframe_revertIbc (s : St) (p : Packet) : IFrame s (revertIbc s p) := by
  unfold revertIbc; split <;> exact ⟨rfl, rfl, rfl, rfl⟩

theorem idx_revertPacket {s : St} (h : IdxInv s) (hk : KeysNodup s.packets) (p : Packet) (hp : p ∈ s.packets) :
    IdxInv (revertPacket s p) := by
  unfold revertPacket
  have f := iframe_revertIbc s p
  exact idx_deletePacket (IdxInv.of_frame f h) (by rw [f.packets]; exact hk) p (by rw [f.packets]; exact hp)

theorem idx_foldl_revert : ∀ (l : List Packet) {s : St}, Inv04 s → IdxInv s → (∀ p ∈ l, p ∈ s.packets ∧ p.status = .pending) →
    l.Pairwise (fun a b => pkey a ≠ pkey b) → IdxInv (l.foldl revertPacket s)
  | [], _, _, hi, _, _ => hi
  | p :: rest, s, h, hi, hl, hpw => by
    rw [List.pairwise_cons] at hpw
    have hp := hl p List.mem_cons_self
    apply idx_foldl_revert rest (inv_revertPacket h hp.1 hp.2) (idx_revertPacket hi (InvF.keys h) p hp.1)
    · intro q hq
      refine ⟨?_, (hl q (List.mem_cons_of_mem _ hq)).2⟩
      rw [revertPacket_packets]
      refine List.mem_filter.mpr ⟨(hl q (List.mem_cons_of_mem _ hq)).1, ?_⟩
      simpa using (hpw.1 q hq).symm
    · exact hpw.2

/-- storing the finalized version of a packet -/
theorem IdxInv.setFinalized {s : St} (h : IdxInv s) (p : Packet) (hs : p.status = .finalized) (hp : PktOk s p) :
    IdxInv (setPacket s p) where
  cfg := CfgOk.congr (s := s) rfl rfl h.cfg
  pk := by
    intro q hq
    rcases mem_setPacket.mp hq with rfl | ⟨hq', _⟩
    · exact PktOk.congr (s := s) rfl rfl hp
    · exact PktOk.congr (s := s) rfl rfl (h.pk q hq')
  fwd := by
    intro q hq hqs
    rcases mem_setPacket.mp hq with rfl | ⟨hq', _⟩
    · rw [hs] at hqs; cases hqs
    · exact h.fwd q hq' hqs
  bwd := by
    intro e he
    obtain ⟨q, hq, h1, h2, h3⟩ := h.bwd e he
    refine ⟨q, mem_setPacket.mpr (Or.inr ⟨hq, ?_⟩), h1, h2, h3⟩
    intro hk
    have := (pkey_eq_parts hk).1
    rw [h2, hs] at this
    cases this

theorem PktOk.of_fields {s : St} {p q : Packet} (h : PktOk s p) (h1 : q.chan = p.chan) (h2 : q.rollappId = p.rollappId)
    (h3 : q.srcChan = p.srcChan) (h4 : q.ptype = p.ptype) (h5 : q.proofHeight = p.proofHeight) (h6 : q.seq = p.seq) : PktOk s q := by
  unfold PktOk at *
  rw [h1, h2, h3, h4, h5, h6]; exact h

-- ------------------------------------------------------------------ operations (no fulfilment)

/-- `UpdateRollappPacketTransferAddress`: the packet and its index entry move to the new beneficiary -/
theorem idx_updateTransferAddress {s s' : St} {k : Bytes} {a : Addr} (h : IdxInv s) (hk : KeysNodup s.packets)
    (hu : updateTransferAddress s k a = .ok s') : IdxInv s' := by
  obtain ⟨p, hp, hst, rfl⟩ := updateTransferAddress_ok hu
  obtain ⟨hmem, hkey⟩ := getPacket_some hp
  subst hkey
  refine ⟨CfgOk.congr (s := s) rfl rfl h.cfg, ?_, ?_, ?_⟩
  · intro q hq
    rcases mem_setPacket.mp hq with rfl | ⟨hq', _⟩
    · exact PktOk.congr (s := s) rfl rfl (PktOk.of_fields (h.pk p hmem) rfl rfl rfl rfl rfl rfl)
    · exact PktOk.congr (s := s) rfl rfl (h.pk q hq')
  · intro q hq hqs
    show (q.target, pkey q) ∈ (addByAddr (delByAddr s p.target (pkey p)) a (pkey (retarget p a))).byAddr
    rcases mem_setPacket.mp hq with rfl | ⟨hq', hne⟩
    · exact mem_addByAddr.mpr (Or.inl rfl)
    · refine mem_addByAddr.mpr (Or.inr (mem_delByAddr.mpr ⟨h.fwd q hq' hqs, ?_⟩))
      intro e
      exact hne (congrArg Prod.snd e)
  · intro e he
    have he' : e ∈ (addByAddr (delByAddr s p.target (pkey p)) a (pkey (retarget p a))).byAddr := he
    rcases mem_addByAddr.mp he' with rfl | he''
    · exact ⟨retarget p a, mem_setPacket.mpr (Or.inl rfl), rfl, hst, rfl⟩
    · obtain ⟨he1, he2⟩ := mem_delByAddr.mp he''
      obtain ⟨q, hq, h1, h2, h3⟩ := h.bwd e he1
      refine ⟨q, mem_setPacket.mpr (Or.inr ⟨hq, ?_⟩), h1, h2, h3⟩
      intro hqp
      have : q = p := keysNodup_eq hk hmem hq hqp
      subst this
      exact he2 (Prod.ext h3.symm h1.symm)

theorem idx_setOrderFulfilled {s s' : St} {o f c} (h4 : Inv04 s) (h : IdxInv s) (hu : setOrderFulfilled s o f c = .ok s') : IdxInv s' := by
  unfold setOrderFulfilled at hu
  have fr := frame_setOrder s { o with fulfiller := some f }
  exact idx_updateTransferAddress (IdxInv.of_frame (IFrame.ofD fr) h) (InvF.keys (Inv04.of_frame fr h4)) hu

theorem idx_fulfillCore {s s' : St} {o f} (h4 : Inv04 s) (h : IdxInv s) (hu : fulfillCore s o f = .ok s') : IdxInv s' := by
  unfold fulfillCore at hu
  split at hu
  · cases hu
  · split at hu
    · cases hu
    · rename_i s1 hs
      have fr := frame_sendCoins hs
      exact idx_setOrderFulfilled (Inv04.of_frame fr h4) (IdxInv.of_frame (IFrame.ofD fr) h) hu

theorem idx_onDemandLoop {o : Order} : ∀ (l : List LP) {s s' : St}, Inv04 s → IdxInv s → onDemandLoop s o l = .ok s' → IdxInv s'
  | [], s, s', _, _, hu => by unfold onDemandLoop at hu; cases hu
  | x :: rest, s, s', h4, h, hu => by
    unfold onDemandLoop at hu
    split at hu
    · split at hu
      · cases hu
      · have fr := frame_delLp s x.id
        exact idx_onDemandLoop rest (Inv04.of_frame fr h4) (IdxInv.of_frame (IFrame.ofD fr) h) hu
    · cases hu
    · rename_i s1 hf
      cases hu
      exact IdxInv.of_frame (IFrame.ofD (frame_setLp s1 _)) (idx_fulfillCore h4 h hf)

theorem idx_fulfillAuthorizedCore {s s' : St} {m} (h4 : Inv04 s) (h : IdxInv s) (hu : fulfillAuthorizedCore s m = .ok s') : IdxInv s' := by
  obtain ⟨o, _, _, s1, s2, hs1, hs2, hf⟩ := fulfillAuthorizedCore_ok hu
  have fr := (frame_sendCoins hs1).trans (frame_payOperator hs2)
  exact idx_setOrderFulfilled (Inv04.of_frame fr h4) (IdxInv.of_frame (IFrame.ofD fr) h) hf

theorem idx_finalizePacket {s s' : St} {k : Bytes} (h4 : Inv04 s) (h : IdxInv s) (hf : finalizePacket s k = .ok s') : IdxInv s' := by
  unfold finalizePacket at hf
  split at hf
  · cases hf
  · rename_i p hp
    obtain ⟨hmem, -⟩ := getPacket_some hp
    split at hf
    · cases hf
    · unfold updateAfterFinalization at hf
      split at hf
      · cases hf
      · cases hf
        apply IdxInv.of_frame (IFrame.ofD (frame_afterPacketStatusUpdated _ _ _ _))
        have fA : IFrame s (logRelease (releaseEffect s p).1 p (some p.rollappId) true) :=
          (IFrame.ofD (frame_releaseEffect s p)).trans (iframe_logRelease _ _ _ _)
        have hA := IdxInv.of_frame fA h
        have hkA : KeysNodup (logRelease (releaseEffect s p).1 p (some p.rollappId) true).packets := by
          rw [fA.packets]; exact InvF.keys h4
        have hmA : p ∈ (logRelease (releaseEffect s p).1 p (some p.rollappId) true).packets := by
          rw [fA.packets]; exact hmem
        have hD := hA.delete hkA p hmA
        have hP : PktOk (logRelease (releaseEffect s p).1 p (some p.rollappId) true) p := hA.pk p hmA
        exact IdxInv.setFinalized hD _ rfl (PktOk.congr (s := logRelease (releaseEffect s p).1 p (some p.rollappId) true) rfl rfl
          (PktOk.of_fields hP rfl rfl rfl rfl rfl rfl))

theorem iframe_sendOpen {s s' : St} {a c d amt} (e : sendOpen s a c d amt = .ok s') : IFrame s s' := by
  unfold sendOpen at e
  split at e
  · cases e
  · split at e
    · cases e
    · split at e
      · cases e
      · cases e
        unfold recordSent lockCoins
        split <;> exact ⟨rfl, rfl, rfl, rfl⟩

theorem idx_recvAuth {s0 : St} (c seq ph : Nat) (d : RecvData) (h0 : IdxInv s0) (hnp : ¬ pendL s0.packets (true, c, seq))
    (hph : ph < 2 ^ 64) (hseq : seq < 2 ^ 64) : IdxInv (recvAuth s0 c seq ph d).1 := by
  have hfail : IdxInv (recvFail s0 c seq).1 := IdxInv.of_frame (iframe_writeAck s0 c seq false) h0
  unfold recvAuth
  split
  · exact hfail
  · rename_i ra hra
    split
    · exact hfail
    · split
      · exact hfail
      · rename_i tgt htgt
        split
        · unfold recvPass
          split
          · exact hfail
          · rename_i s1 hi
            exact IdxInv.of_frame (((IFrame.ofD (frame_icsRecv hi)).trans (iframe_logRelease _ _ _ _)).trans (iframe_writeAck _ _ _ _)) h0
        · rename_i hdel
          unfold recvDelay
          split
          · exact hfail
          · split
            · exact hfail
            · rename_i s2 he
              refine IdxInv.of_frame (IFrame.ofD (frame_eibcOnRecv he)) ?_
              -- the channel belongs to a rollapp
              obtain ⟨rid, hrid⟩ : ∃ rid, ra = some rid := by
                cases ra with
                | none => simp at hdel
                | some r => exact ⟨r, rfl⟩
              subst hrid
              have hP : PktOk s0 (mkRecvPacket s0 c seq ph ((some rid).getD []) d tgt) := by
                refine ⟨hra, ?_, hph, hseq⟩
                simp [mkRecvPacket]
              apply IdxInv.record h0 _ rfl hP
              intro q hq hk
              obtain ⟨hu, hst⟩ := key_determines_uid h0.cfg hP (h0.pk q hq) hk
              exact hnp ⟨q, hq, hst, hu⟩

theorem idx_recvForward {s0 : St} (c seq ph : Nat) (d : RecvData) (k : Nat) (h0 : IdxInv s0) (hnp : ¬ pendL s0.packets (true, c, seq))
    (hph : ph < 2 ^ 64) (hseq : seq < 2 ^ 64) : IdxInv (recvForward s0 c seq ph d k).1 := by
  have hfail : IdxInv (recvFail s0 c seq).1 := IdxInv.of_frame (iframe_writeAck s0 c seq false) h0
  unfold recvForward
  have ha := idx_recvAuth c seq ph { d with target := some (pfmAddr c), memo := .none } h0 hnp hph hseq
  split
  · rename_i s1 hr
    rw [hr] at ha
    split
    · rename_i s2 hs
      have f1 : IFrame s1 { s1 with acks := s0.acks } := ⟨rfl, rfl, rfl, rfl⟩
      have f2 : IFrame s2 (markFwd s2 k (getNextSeq s1 k) (c, seq)) := ⟨rfl, rfl, rfl, rfl⟩
      exact IdxInv.of_frame ((f1.trans (iframe_sendOpen (sendTransfer_ok hs))).trans f2) ha
    · exact hfail
  · exact hfail

theorem idx_recvOpen {s : St} (c seq ph : Nat) (d : RecvData) (h4 : Inv04 s) (h : IdxInv s) (hph : ph < 2 ^ 64) (hseq : seq < 2 ^ 64) :
    IdxInv (recvOpen s c seq ph d).1 := by
  unfold recvOpen
  split
  · exact h
  · rename_i hc
    have hnr : (c, seq) ∉ s.receipts := by simpa using hc
    have hnp : ¬ pendL s.packets (true, c, seq) := fun hp => hnr (InvF.rcv h4 c seq (Or.inr hp))
    have h0 : IdxInv { s with receipts := s.receipts ++ [(c, seq)] } := IdxInv.of_frame (iframe_receipts s (c, seq)) h
    split
    · exact idx_recvForward c seq ph d _ h0 hnp hph hseq
    · exact idx_recvAuth c seq ph d h0 hnp hph hseq

theorem idx_ackOpen {s s' : St} {c seq ph : Nat} {isTimeout isErr : Bool} (h4 : Inv04 s) (h : IdxInv s)
    (hph : ph < 2 ^ 64) (hseq : seq < 2 ^ 64) (ha : ackOpen s c seq ph isTimeout isErr = .ok (some s')) : IdxInv s' := by
  unfold ackOpen at ha
  split at ha
  · cases ha
  · rename_i hc
    have hmem : (c, seq) ∈ s.commits := by simpa using hc
    have hnp : ¬ pendL s.packets (false, c, seq) := fun hp => (InvF.snt h4 c seq (Or.inr hp)).1 hmem
    split at ha
    · cases ha
    · rename_i x hx
      obtain ⟨rfl, rfl⟩ := getSent_some hx
      generalize hs0 : ({ s with commits := s.commits.filter (· != (x.chan, x.seq)) } : St) = s0 at ha
      have f0 : IFrame s s0 := by subst hs0; exact ⟨rfl, rfl, rfl, rfl⟩
      have h0 : IdxInv s0 := IdxInv.of_frame f0 h
      unfold ackAuth at ha
      split at ha
      · cases ha
      · rename_i ra hra
        split at ha
        · unfold ackPass at ha
          split at ha
          · split at ha
            · cases ha
            · rename_i s1 hi
              cases ha
              exact IdxInv.of_frame ((IFrame.ofD (frame_icsRefund hi)).trans (iframe_logRelease _ _ _ _)) h0
          · cases ha
            exact IdxInv.of_frame (iframe_logRelease _ _ _ _) h0
        · rename_i hdel
          obtain ⟨rid, hrid⟩ : ∃ rid, ra = some rid := by
            cases ra with
            | none => simp at hdel
            | some r => exact ⟨r, rfl⟩
          subst hrid
          have hP : PktOk s0 (mkSentPacket s0 x (sentType isTimeout) ph ((some rid).getD []) (!isTimeout && isErr)) := by
            refine ⟨hra, ?_, hph, hseq⟩
            simp [mkSentPacket, sentType_ne_recv]
          have key : IdxInv (setPacket (addByAddr s0 (mkSentPacket s0 x (sentType isTimeout) ph ((some rid).getD []) (!isTimeout && isErr)).target
              (pkey (mkSentPacket s0 x (sentType isTimeout) ph ((some rid).getD []) (!isTimeout && isErr))))
              (mkSentPacket s0 x (sentType isTimeout) ph ((some rid).getD []) (!isTimeout && isErr))) := by
            apply IdxInv.record h0 _ rfl hP
            intro q hq hk
            obtain ⟨hu, hst⟩ := key_determines_uid h0.cfg hP (h0.pk q hq) hk
            rw [f0.packets] at hq
            rw [mkSentPacket_uid] at hu
            exact hnp ⟨q, hq, hst, hu⟩
          unfold ackDelay at ha
          split at ha
          · cases ha
          · split at ha
            · split at ha
              · cases ha
              · rename_i s2 he
                cases ha
                exact IdxInv.of_frame (IFrame.ofD (frame_eibcOnRefund (eibcRefundHandler_ok he))) key
            · cases ha
              exact key

/-- packet operations carry uint64 proof heights and sequences -/
def BoundedOp : Op → Prop
  | .recv _ seq ph _ => ph < 2 ^ 64 ∧ seq < 2 ^ 64
  | .ack _ seq ph _ => ph < 2 ^ 64 ∧ seq < 2 ^ 64
  | .timeout _ seq ph => ph < 2 ^ 64 ∧ seq < 2 ^ 64
  | _ => True

theorem idx_setRa {s : St} (r : Rollapp) (h : IdxInv s) : IdxInv (setRa s r) :=
  IdxInv.of_frame (s := s) (s' := setRa s r) ⟨rfl, rfl, rfl, raIds_setRa s r⟩ h

theorem idx_ofM {s : St} {m : M St} (h : IdxInv s) (hm : ∀ s', m = .ok s' → IdxInv s') : IdxInv (ofM s m).1 := by
  cases m with
  | ok s' => exact hm s' rfl
  | error e => exact h

theorem idx_step {s : St} (o : Op) (hp : BoundedOp o) (h4 : Inv04 s) (h : IdxInv s) : IdxInv (step s o).1 := by
  cases o with
  | recv c seq ph d =>
    show IdxInv (recvPacket s c seq ph d).1
    rcases recvPacket_cases s c seq ph d with e | e <;> rw [e]
    · exact h
    · exact idx_recvOpen c seq ph d h4 h hp.1 hp.2
  | send a c d amt =>
    apply idx_ofM h
    intro s' e0
    have e := sendTransfer_ok e0
    unfold sendOpen at e
    split at e
    · cases e
    · split at e
      · cases e
      · split at e
        · cases e
        · cases e
          refine IdxInv.of_frame ?_ h
          unfold recordSent lockCoins
          split <;> exact ⟨rfl, rfl, rfl, rfl⟩
  | ack c seq ph isErr =>
    simp only [step]
    split
    · exact h
    · rename_i s' e; exact idx_ackOpen h4 h hp.1 hp.2 (ackPacket_ok e)
    · exact h
  | timeout c seq ph =>
    simp only [step]
    split
    · exact h
    · rename_i s' e; exact idx_ackOpen h4 h hp.1 hp.2 (ackPacket_ok e)
    · exact h
  | finalize a rid ph t src seq =>
    apply idx_ofM h
    intro s' e
    unfold msgFinalize at e
    split at e
    · cases e
    · exact idx_finalizePacket h4 h e
  | finalizeByKey a b =>
    apply idx_ofM h
    intro s' e
    unfold msgFinalizeByKey at e
    split at e
    · cases e
    · split at e
      · cases e
      · exact idx_finalizePacket h4 h e
  | fulfill a oid fee =>
    apply idx_ofM h
    intro s' e
    obtain ⟨o, _, _, hc⟩ := msgFulfill_ok e
    exact idx_fulfillCore h4 h hc
  | fulfillAuth g m =>
    apply idx_ofM h
    intro s' e
    obtain ⟨_, hcase⟩ := msgFulfillAuthorized_ok e
    rcases hcase with ⟨_, hc⟩ | ⟨_, gr, r, _, _, hc⟩
    · exact idx_fulfillAuthorizedCore h4 h hc
    · cases r with
      | none =>
        have fr := frame_delGrant s m.lp g
        exact idx_fulfillAuthorizedCore (s := delGrant s m.lp g) (Inv04.of_frame fr h4) (IdxInv.of_frame (IFrame.ofD fr) h) hc
      | some g' =>
        have fr := frame_setGrant s g'
        exact idx_fulfillAuthorizedCore (s := setGrant s g') (Inv04.of_frame fr h4) (IdxInv.of_frame (IFrame.ofD fr) h) hc
  | onDemand a oid perm =>
    apply idx_ofM h
    intro s' e
    unfold msgOnDemand at e
    split at e
    · cases e
    · exact idx_onDemandLoop _ h4 h e
  | updateFee a id fee => exact idx_ofM h (fun _ e => IdxInv.of_frame (IFrame.ofD (frame_msgUpdateFee e)) h)
  | createLp l ok => exact idx_ofM h (fun _ e => IdxInv.of_frame (IFrame.ofD (frame_msgCreateLp e)) h)
  | deleteLps a ids => exact idx_ofM h (fun _ e => IdxInv.of_frame (IFrame.ofD (frame_msgDeleteLps ids e)) h)
  | grant g => exact idx_ofM h (fun _ e => IdxInv.of_frame (IFrame.ofD (frame_msgGrant e)) h)
  | addState rid n =>
    apply idx_ofM h
    intro s' e
    unfold addState at e
    split at e
    · cases e
    · split at e
      · cases e
      · cases e; exact idx_setRa _ h
  | finalizeState rid =>
    apply idx_ofM h
    intro s' e
    unfold finalizeState at e
    split at e
    · cases e
    · split at e
      · cases e; exact idx_setRa _ h
      · cases e
  | fork rid lv =>
    apply idx_ofM h
    intro s' e
    unfold forkRollapp at e
    split at e
    · cases e
    · split at e
      · cases e
      · split at e
        · cases e
        · split at e
          · cases e
          · cases e
            unfold onHardFork
            apply idx_foldl_revert _ (inv_setRa _ h4) (idx_setRa _ h)
            · intro p hp'
              have := List.mem_filter.mp hp'
              exact ⟨this.1, forkRange_pending this.2⟩
            · exact List.Pairwise.filter _ (InvF.keys h4)
  | epoch =>
    show IdxInv (epochCleanup s)
    unfold epochCleanup
    apply idx_foldl_delete _ h4 h
    · intro p hp'; exact (List.mem_filter.mp hp').1
    · exact List.Pairwise.filter _ (InvF.keys h4)
  | block => exact IdxInv.of_frame (s := s) (s' := { s with h := s.h + 1 }) ⟨rfl, rfl, rfl, rfl⟩ h
  | chanClose c => exact idx_ofM h (fun _ e => IdxInv.of_frame (IFrame.ofD (frame_setChanClosed e)) h)
  | chanOpen c => exact idx_ofM h (fun _ e => IdxInv.of_frame (IFrame.ofD (frame_setChanClosed e)) h)
  | timeoutOnClose c seq => exact idx_ofM h (fun _ e => by unfold timeoutOnClose at e; split at e <;> cases e; exact h)
  | sendBlk a c d amt =>
    exact idx_ofM h (fun _ e => by
      obtain ⟨s1, hs, rfl⟩ := sendBlk_ok e
      exact IdxInv.of_frame ((iframe_sendOpen hs).trans (⟨rfl, rfl, rfl, rfl⟩ : IFrame s1 (markBlk s1 c (getNextSeq s c)))) h)

theorem idx_run : ∀ (ops : List Op) {s : St}, (∀ o ∈ ops, BoundedOp o) → Inv04 s → IdxInv s → IdxInv (run s ops)
  | [], _, _, _, h => h
  | o :: rest, s, hp, h4, h => by
    show IdxInv (run (step s o).1 rest)
    exact idx_run rest (fun o' ho' => hp o' (List.mem_cons_of_mem _ ho')) (inv_step o h4)
      (idx_step o (hp o List.mem_cons_self) h4 h)

end DymVerif.Packets
