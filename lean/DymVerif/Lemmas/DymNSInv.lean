/-
  Lemmas/DymNSInv — the state invariant of M-DymNS and its preservation by every operation.
-/
import DymVerif.Lemmas.DymNSIdx
namespace DymVerif.DymNS
open AMap

/-- alias -> RollApp and RollApp -> aliases are inverse of each other -/
structure AliasOK (al : AliasStore) : Prop where
  iff : ∀ l c, AMap.get al.aliasTo l = some c ↔ l ∈ al.aliases c
  roll : ∀ l c, AMap.get al.aliasTo l = some c → al.isRollapp c = true

/-- an open sell order of a name ends before the name does, was placed by the name's owner, and its
    highest bidder is not the owner (`MsgPurchaseOrder` refuses the owner, and the owner cannot change
    while the order is open) -/
def SOOK (s : State) : Prop :=
  ∀ n so, AMap.get s.nameSO n = some so → ∃ d, s.ns.get n = some d ∧ so.expireAt < d.expireAt ∧ so.seller = d.owner ∧
    ∀ b, so.bid = some b → b.bidder ≠ d.owner

structure Inv (s : State) : Prop where
  wfN : NoDupKeys s.nameSO
  wfA : NoDupKeys s.aliasSO
  wfB : NoDupKeys s.bos
  esc : s.modBal = escrowed s
  idx : IdxOK s.ns
  ali : AliasOK s.al
  so : SOOK s
  /-- buy-order ids never exceed the all-time counter -/
  boK : ∀ id bo, AMap.get s.bos id = some bo → id ≤ s.boCount

theorem escrowed_def (s : State) :
    escrowed s = vsum bidOf s.nameSO + vsum bidOf s.aliasSO + vsum (·.offer) s.bos := rfl

theorem fOpt_bidOf (o : Option SellOrder) : fOpt bidOf o = bidAmt (o.bind (·.bid)) := by
  cases o with
  | none => rfl
  | some so => simp [fOpt, bidOf_eq]

theorem sum_setNameSO (s : State) (n : Name) (so : SellOrder) :
    vsum bidOf (AMap.set s.nameSO n so) + bidAmt (nameBid s n) = vsum bidOf s.nameSO + bidAmt so.bid := by
  have := vsum_set bidOf s.nameSO n so
  rw [fOpt_bidOf, bidOf_eq] at this
  exact this

theorem sum_delNameSO (s : State) (n : Name) (h : NoDupKeys s.nameSO) :
    vsum bidOf (AMap.del s.nameSO n) + bidAmt (nameBid s n) = vsum bidOf s.nameSO := by
  have := vsum_del bidOf s.nameSO n h
  rw [fOpt_bidOf] at this
  exact this

theorem sum_setAliasSO (s : State) (l : AliasId) (so : SellOrder) :
    vsum bidOf (AMap.set s.aliasSO l so) + bidAmt (aliasBid s l) = vsum bidOf s.aliasSO + bidAmt so.bid := by
  have := vsum_set bidOf s.aliasSO l so
  rw [fOpt_bidOf, bidOf_eq] at this
  exact this

theorem sum_delAliasSO (s : State) (l : AliasId) (h : NoDupKeys s.aliasSO) :
    vsum bidOf (AMap.del s.aliasSO l) + bidAmt (aliasBid s l) = vsum bidOf s.aliasSO := by
  have := vsum_del bidOf s.aliasSO l h
  rw [fOpt_bidOf] at this
  exact this

def offerAmt : Option BuyOrder → Nat
  | none => 0
  | some bo => bo.offer

theorem sum_setBO (s : State) (id : Nat) (bo : BuyOrder) :
    vsum (·.offer) (AMap.set s.bos id bo) + offerAmt (AMap.get s.bos id) = vsum (·.offer) s.bos + bo.offer := by
  have := vsum_set (·.offer) s.bos id bo
  cases h : AMap.get s.bos id <;> simp [h, fOpt, offerAmt] at this ⊢ <;> exact this

theorem sum_delBO (s : State) (id : Nat) (h : NoDupKeys s.bos) :
    vsum (·.offer) (AMap.del s.bos id) + offerAmt (AMap.get s.bos id) = vsum (·.offer) s.bos := by
  have := vsum_del (·.offer) s.bos id h
  cases h : AMap.get s.bos id <;> simp [h, fOpt, offerAmt] at this ⊢ <;> exact this

/-! ### simple facts about the T blocks -/

@[simp] theorem refundOptT_nameSO (s : State) (b : Option Bid) : (refundOptT s b).nameSO = s.nameSO := by
  cases b <;> rfl
@[simp] theorem refundOptT_aliasSO (s : State) (b : Option Bid) : (refundOptT s b).aliasSO = s.aliasSO := by
  cases b <;> rfl
@[simp] theorem refundOptT_bos (s : State) (b : Option Bid) : (refundOptT s b).bos = s.bos := by
  cases b <;> rfl
@[simp] theorem refundOptT_ns (s : State) (b : Option Bid) : (refundOptT s b).ns = s.ns := by
  cases b <;> rfl
@[simp] theorem refundOptT_al (s : State) (b : Option Bid) : (refundOptT s b).al = s.al := by
  cases b <;> rfl
@[simp] theorem refundOptT_p (s : State) (b : Option Bid) : (refundOptT s b).p = s.p := by
  cases b <;> rfl
@[simp] theorem refundOptT_now (s : State) (b : Option Bid) : (refundOptT s b).now = s.now := by
  cases b <;> rfl
@[simp] theorem refundOptT_boCount (s : State) (b : Option Bid) : (refundOptT s b).boCount = s.boCount := by
  cases b <;> rfl
@[simp] theorem takeBidT_nameSO (s : State) (o : Option Bid) (a : Acct) (x : Nat) : (takeBidT s o a x).nameSO = s.nameSO := by
  simp [takeBidT, toModuleT]
@[simp] theorem takeBidT_aliasSO (s : State) (o : Option Bid) (a : Acct) (x : Nat) : (takeBidT s o a x).aliasSO = s.aliasSO := by
  simp [takeBidT, toModuleT]
@[simp] theorem takeBidT_bos (s : State) (o : Option Bid) (a : Acct) (x : Nat) : (takeBidT s o a x).bos = s.bos := by
  simp [takeBidT, toModuleT]
@[simp] theorem takeBidT_ns (s : State) (o : Option Bid) (a : Acct) (x : Nat) : (takeBidT s o a x).ns = s.ns := by
  simp [takeBidT, toModuleT]
@[simp] theorem takeBidT_al (s : State) (o : Option Bid) (a : Acct) (x : Nat) : (takeBidT s o a x).al = s.al := by
  simp [takeBidT, toModuleT]
@[simp] theorem takeBidT_p (s : State) (o : Option Bid) (a : Acct) (x : Nat) : (takeBidT s o a x).p = s.p := by
  simp [takeBidT, toModuleT]
@[simp] theorem takeBidT_now (s : State) (o : Option Bid) (a : Acct) (x : Nat) : (takeBidT s o a x).now = s.now := by
  simp [takeBidT, toModuleT]
@[simp] theorem takeBidT_boCount (s : State) (o : Option Bid) (a : Acct) (x : Nat) : (takeBidT s o a x).boCount = s.boCount := by
  simp [takeBidT, toModuleT]
theorem refundOptT_modBal (s : State) (b : Option Bid) : (refundOptT s b).modBal = s.modBal - bidAmt b := by
  cases b <;> rfl
theorem takeBidT_modBal (s : State) (o : Option Bid) (a : Acct) (x : Nat) :
    (takeBidT s o a x).modBal = s.modBal - bidAmt o + x := by
  simp [takeBidT, toModuleT, refundOptT_modBal]


theorem NameStore.get_setAfterBothT (ns : NameStore) (n m : Name) (d : DymName) :
    (ns.setAfterBothT n d).get m = if m = n then some d else ns.get m := by
  rw [NameStore.setAfterBothT_eq]; simp [NameStore.get, AMap.get_set]

theorem bid_le_sum (s : State) (n : Name) (h : NoDupKeys s.nameSO) : bidAmt (nameBid s n) ≤ vsum bidOf s.nameSO := by
  have := sum_delNameSO s n h; omega

theorem abid_le_sum (s : State) (l : AliasId) (h : NoDupKeys s.aliasSO) : bidAmt (aliasBid s l) ≤ vsum bidOf s.aliasSO := by
  have := sum_delAliasSO s l h; omega

theorem offer_le_sum (s : State) (id : Nat) (h : NoDupKeys s.bos) : offerAmt (AMap.get s.bos id) ≤ vsum (·.offer) s.bos := by
  have := sum_delBO s id h; omega

/-! ### blocks -/

theorem pruneNameT_inv {s : State} (n : Name) (hI : Inv s) : Inv (pruneNameT s n) := by
  have hle := bid_le_sum s n hI.wfN
  refine { wfN := noDup_del _ _ hI.wfN, wfA := ?_, wfB := ?_, esc := ?_, idx := NameStore.idxOK_delete n hI.idx, ali := ?_, so := ?_, boK := by simpa [pruneNameT] using hI.boK }
  · simpa [pruneNameT] using hI.wfA
  · simpa [pruneNameT] using hI.wfB
  · have := sum_delNameSO s n hI.wfN
    have e := hI.esc
    simp only [escrowed_def, pruneNameT, refundOptT_modBal, refundOptT_aliasSO, refundOptT_bos] at this e ⊢
    omega
  · simpa [pruneNameT] using hI.ali
  · intro m so hm
    simp only [pruneNameT, AMap.get_del] at hm
    split at hm
    · cases hm
    · rename_i hne
      obtain ⟨d, hd, hlt⟩ := hI.so m so hm
      exact ⟨d, by simp [pruneNameT, NameStore.get_delete, hne, hd], hlt⟩

theorem pruneNameT_get_self (s : State) (n : Name) : (pruneNameT s n).ns.get n = none := by
  simp [pruneNameT, NameStore.get_delete]

theorem pruneNameT_so_self (s : State) (n : Name) : AMap.get (pruneNameT s n).nameSO n = none := by
  simp [pruneNameT]

/-- writing a record for a name that has neither a record nor a sell order -/
theorem setAfterBoth_inv {s : State} {n : Name} (d : DymName) (hI : Inv s) (hn : s.ns.get n = none)
    (hso : AMap.get s.nameSO n = none) : Inv { s with ns := s.ns.setAfterBothT n d } := by
  refine { wfN := hI.wfN, wfA := hI.wfA, wfB := hI.wfB, esc := hI.esc,
           idx := NameStore.idxOK_setAfterBothT d (NameStore.idxOKBut_of_none hI.idx hn), ali := hI.ali, so := ?_, boK := hI.boK }
  intro m so hm
  by_cases hmn : m = n
  · subst hmn; simp only [hso] at hm; cases hm
  · obtain ⟨d', hd', hlt⟩ := hI.so m so hm
    exact ⟨d', by simp [NameStore.get_setAfterBothT, hmn, hd'], hlt⟩

theorem transferOwnershipT_inv {s : State} (n : Name) (d : DymName) (b : Acct) (hI : Inv s) :
    Inv (transferOwnershipT s n d b) :=
  setAfterBoth_inv _ (pruneNameT_inv n hI) (pruneNameT_get_self s n) (pruneNameT_so_self s n)

theorem completeNameSOT_inv {s : State} {n : Name} {d : DymName} {so : SellOrder} {b : Bid} (hI : Inv s)
    (hso : AMap.get s.nameSO n = some so) (hb : so.bid = some b) :
    Inv (completeNameSOT s n d b) := by
  have hbid : bidAmt (nameBid s n) = b.price := by simp [nameBid, hso, hb, bidAmt]
  have hle := bid_le_sum s n hI.wfN
  refine { wfN := noDup_del _ _ hI.wfN, wfA := hI.wfA, wfB := hI.wfB, esc := ?_,
           idx := NameStore.idxOK_setAfterBothT _ (NameStore.idxOKBut_befores n hI.idx), ali := hI.ali, so := ?_, boK := hI.boK }
  · have := sum_delNameSO s n hI.wfN
    have e := hI.esc
    simp only [escrowed_def, completeNameSOT, fromModuleT] at this e ⊢
    omega
  · intro m so' hm
    simp only [completeNameSOT, fromModuleT, AMap.get_del] at hm
    split at hm
    · cases hm
    · rename_i hne
      obtain ⟨d', hd', hlt⟩ := hI.so m so' hm
      refine ⟨d', ?_, hlt⟩
      simp only [completeNameSOT, fromModuleT, NameStore.get_setAfterBothT, hne, if_false,
        NameStore.get_beforeConfig, NameStore.get_beforeOwner]
      exact hd'


/-! ### name messages -/

theorem payAndBurnT_inv {s : State} (a : Acct) (amt : Nat) (hI : Inv s) : Inv (payAndBurnT s a amt) :=
  { wfN := hI.wfN, wfA := hI.wfA, wfB := hI.wfB, esc := hI.esc, idx := hI.idx, ali := hI.ali, so := hI.so, boK := hI.boK }

/-- a record update that keeps owner and configs and does not shorten the expiry -/
theorem setName_same_inv {s : State} {n : Name} {d0 d : DymName} (hI : Inv s) (h0 : getName s n = some d0)
    (ho : d.owner = d0.owner) (hc : d.configs = d0.configs) (he : d0.expireAt ≤ d.expireAt) :
    Inv (setName s n d) := by
  refine { wfN := hI.wfN, wfA := hI.wfA, wfB := hI.wfB, esc := hI.esc,
           idx := NameStore.idxOK_set_same hI.idx h0 ho hc, ali := hI.ali, so := ?_, boK := hI.boK }
  intro m so hm
  obtain ⟨d', hd', hlt⟩ := hI.so m so hm
  by_cases hmn : m = n
  · subst hmn
    have : d' = d0 := by rw [getName] at h0; rw [h0] at hd'; exact (Option.some.inj hd').symm
    subst this
    exact ⟨d, by simp [setName, NameStore.get_set], by omega, by rw [ho]; exact hlt.2.1, by rw [ho]; exact hlt.2.2⟩
  · exact ⟨d', by simp [setName, NameStore.get_set, hmn, hd'], hlt⟩

theorem regPlan_keep {s : State} {a : Acct} {n : Name} {dur c : Nat} (h : (regPlan s a n dur c).prune = false) :
    ∃ d, getName s n = some d ∧ d.owner = a ∧ d.expired s.now = false ∧
      (regPlan s a n dur c).record.owner = d.owner ∧ (regPlan s a n dur c).record.configs = d.configs ∧
      (regPlan s a n dur c).record.controller = d.controller ∧
      d.expireAt ≤ (regPlan s a n dur c).record.expireAt := by
  unfold regPlan at h ⊢
  cases hd : getName s n with
  | none => simp [hd] at h
  | some d =>
    simp only [hd] at h ⊢
    by_cases ho : d.owner = a
    · by_cases he : d.expired s.now = true
      · simp [ho, he] at h
      · simp only [ho, he]
        exact ⟨d, rfl, ho, by simpa using he, by simp [ho], rfl, rfl, by simp⟩
    · simp [ho] at h

theorem registerName_inv {s s' : State} {a n dur pay c} (hI : Inv s) (h : registerName s a n dur pay c = .ok s') :
    Inv s' := by
  unfold registerName at h
  mcases' h
  · -- pruned: new registration, renewal, take-over
    rename (payAndBurn s a _ = Except.ok _) => h1
    obtain ⟨rfl, _⟩ := payAndBurn_ok h1
    rename (pruneName _ n = Except.ok _) => hp
    obtain ⟨rfl, _⟩ := pruneName_ok hp
    rw [setNameAfterBoth_ok] at h
    injection h with h; subst h
    exact setAfterBoth_inv _ (pruneNameT_inv n (payAndBurnT_inv a _ hI)) (pruneNameT_get_self _ n) (pruneNameT_so_self _ n)
  · -- extension
    rename (payAndBurn s a _ = Except.ok _) => h1
    obtain ⟨rfl, _⟩ := payAndBurn_ok h1
    injection h with h; subst h
    have hk : ¬ (regPlan s a n dur c).prune = true := by assumption
    obtain ⟨d, hd, _, _, ho, hc, _, he⟩ := regPlan_keep (by simpa using hk)
    exact setName_same_inv (payAndBurnT_inv a _ hI) hd ho hc he

theorem transferName_inv {s s' : State} {a n b} (hI : Inv s) (h : transferName s a n b = .ok s') : Inv s' := by
  unfold transferName at h
  mcases' h
  obtain ⟨rfl, _⟩ := transferOwnership_ok h
  exact transferOwnershipT_inv n _ b hI

theorem setController_inv {s s' : State} {a n c} (hI : Inv s) (h : setController s a n c = .ok s') : Inv s' := by
  unfold setController at h
  mcases' h
  injection h with h; subst h
  rename (getName s n = some _) => h0
  exact setName_same_inv hI h0 rfl rfl (Nat.le_refl _)

/-- a config change (owner and expiry kept) wrapped in the config hooks -/
theorem setConfigChanged_inv {s : State} {n : Name} {d0 d : DymName} (hI : Inv s) (h0 : getName s n = some d0)
    (ho : d.owner = d0.owner) (he : d.expireAt = d0.expireAt) :
    Inv { s with ns := s.ns.setConfigChangedT n d } := by
  refine { wfN := hI.wfN, wfA := hI.wfA, wfB := hI.wfB, esc := hI.esc,
           idx := NameStore.idxOK_setConfigChangedT hI.idx h0 ho, ali := hI.ali, so := ?_, boK := hI.boK }
  intro m so hm
  obtain ⟨d', hd', hlt⟩ := hI.so m so hm
  have hg : ∀ k, (s.ns.setConfigChangedT n d).get k = if k = n then some d else s.ns.get k := by
    intro k
    unfold NameStore.setConfigChangedT
    rw [NameStore.get_afterConfigT, NameStore.get_set, NameStore.get_beforeConfig]
  by_cases hmn : m = n
  · subst hmn
    have : d' = d0 := by rw [getName] at h0; rw [h0] at hd'; exact (Option.some.inj hd').symm
    subst this
    exact ⟨d, by simp [hg], by omega, by rw [ho]; exact hlt.2.1, by rw [ho]; exact hlt.2.2⟩
  · exact ⟨d', by simp [hg, hmn, hd'], hlt⟩

theorem updateResolveAddress_inv {s s' : State} {a n ch e p v} (hI : Inv s)
    (h : updateResolveAddress s a n ch e p v = .ok s') : Inv s' := by
  unfold updateResolveAddress at h
  mcases' h
  all_goals
    rw [setNameConfigChanged_ok] at h
    injection h with h; subst h
    rename (getName s n = some _) => h0
    exact setConfigChanged_inv hI h0 rfl rfl

theorem updateDetails_inv {s s' : State} {a n c cl} (hI : Inv s) (h : updateDetails s a n c cl = .ok s') :
    Inv s' := by
  unfold updateDetails at h
  mcases' h
  all_goals
    rename (getName s n = some _) => h0
    first
    | (rw [setNameConfigChanged_ok] at h
       injection h with h; subst h
       exact setConfigChanged_inv hI h0 rfl rfl)
    | (injection h with h; subst h
       exact setName_same_inv hI h0 rfl rfl (Nat.le_refl _))

end DymVerif.DymNS
