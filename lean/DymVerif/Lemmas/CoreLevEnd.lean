/-
  Lemmas/CoreLevEnd — `endBlock`-level statements about one rollapp: event not due / due, and the
  facts about reachable states the property theorems of C08 are assembled from.
-/
import DymVerif.Lemmas.CoreLevUpdate
namespace DymVerif.Core.LevNs

theorem step_end (s : St) (f : List (Nat × Nat)) : (step s (.end_ f)).1 = endBlock s f := rfl
theorem step_begin (s : St) (dt : Nat) : (step s (.begin_ dt)).1 = beginBlock s dt := rfl

/-- the block end of a height at which the rollapp's event is not due leaves its liveness view
    alone, and (if its proposer proposes for no other rollapp) the proposer's record too -/
theorem endBlock_not_due {s : St} {f : List (Nat × Nat)} {ra : Nat} {r : Rollapp} (hl : Lev s)
    (hg : getRa s ra = some r) (hne : r.evH ≠ s.h) :
    (∃ r', getRa (endBlock s f) ra = some r' ∧ r'.evH = r.evH ∧ r'.cdStart = r.cdStart ∧ r'.proposer = r.proposer) ∧
    (∀ a, Uniq s a ra → getSeq (endBlock s f) a = getSeq s a) := by
  obtain ⟨ff, hf⟩ := finalizeRollappStates_frame s f
  have l2 : Lev (finalizeRollappStates s f) := finalizeRollappStates_cl lev_closed hl
  have ra2 : (getRa (finalizeRollappStates s f) ra).map liv = some (liv r) := ff.getRa (by rw [hg]; rfl)
  obtain ⟨r2, hg2, he2, hcd2, hp2⟩ := map_liv_some ra2
  unfold endBlock
  have hne2 : r2.evH ≠ (finalizeRollappStates s f).h := by rw [he2, hf]; exact hne
  refine ⟨⟨r2, checkLiveness_not_due_ra l2 hg2 hne2, he2, hcd2, hp2⟩, ?_⟩
  intro a hu
  rw [(checkLiveness_not_due l2 (hu.frame ff) hg2 hne2).2, ff.getSeq]

/-- the block end of the height of the rollapp's event reschedules it from the current height;
    an (exclusive) real proposer is slashed once -/
theorem endBlock_due {s : St} {f : List (Nat × Nat)} {ra : Nat} {r : Rollapp} (hl : Lev s) (hc : Cust s)
    (hg : getRa s ra = some r) (hm : (s.h, ra) ∈ s.lev) :
    (∃ r', getRa (endBlock s f) ra = some r' ∧
      r'.evH = nextSlashHeight s.p.lsBlocks s.p.lsInterval s.h r.cdStart ∧ r'.cdStart = r.cdStart ∧
      r'.proposer = r.proposer) ∧
    (∀ a q, Uniq s a ra → r.proposer = some a → getSeq s a = some q →
      getSeq (endBlock s f) a = some (slashOnce s.sqp q)) := by
  obtain ⟨ff, hf⟩ := finalizeRollappStates_frame s f
  have l2 : Lev (finalizeRollappStates s f) := finalizeRollappStates_cl lev_closed hl
  have c2 : Cust (finalizeRollappStates s f) := hc.of_eq ff.seqs ff.modBal
  have ra2 : (getRa (finalizeRollappStates s f) ra).map liv = some (liv r) := ff.getRa (by rw [hg]; rfl)
  obtain ⟨r2, hg2, he2, hcd2, hp2⟩ := map_liv_some ra2
  have hcd2 : r2.cdStart = r.cdStart := hcd2
  have hp2 : r2.proposer = r.proposer := hp2
  have hm2 : ((finalizeRollappStates s f).h, ra) ∈ (finalizeRollappStates s f).lev := by rw [hf, ff.lev]; exact hm
  unfold endBlock
  refine ⟨⟨_, checkLiveness_due_ra l2 c2 hg2 hm2, ?_, hcd2, hp2⟩, ?_⟩
  · show nextSlashHeight _ _ _ r2.cdStart = _
    rw [pp_p ff.p, hf, hcd2]
  · intro a q hu hp hq
    rw [(checkLiveness_due l2 c2 (hu.frame ff) hg2 (hp2.trans hp) (by rw [ff.getSeq]; exact hq) hm2).2, pp_sqp ff.p]

/-- inside the first window after the countdown start the rollapp's event cannot be due -/
theorem Grid.not_due {s : St} (h : Grid s) {ra : Nat} {r : Rollapp} (hg : getRa s ra = some r)
    (hw : s.h < r.cdStart + s.p.lsBlocks) : r.evH ≠ s.h := by
  have := h.hpos
  rcases h.ev r (getRa_mem hg) with h1 | h1 <;> omega

/-- reachable states between blocks carry the invariants the idle-block induction starts from -/
theorem run_between_blocks (p : Params) (hI : 1 ≤ p.lsInterval) (ops : List Op)
    (hph : ops.foldl phaseStep (some false) = some false) :
    Lev (run p ops) ∧ Cust (run p ops) ∧ Fut 0 (run p ops) := by
  have := run_lcf p hI ops
  rw [hph] at this
  exact ⟨this.lev, this.cust, this.fut⟩

theorem run_append (p : Params) (ops ops' : List Op) :
    run p (ops ++ ops') = ops'.foldl (fun s o => (step s o).1) (run p ops) := by
  unfold run; rw [List.foldl_append]

end DymVerif.Core.LevNs
