/-
  Lemmas/CoreForkSpec — post-state of an accepted fork, component by component, and the entry points
  (fraud proposal, kick, rotation to the sentinel, obsolete marking) reduced to `hardFork`.
-/
import DymVerif.Lemmas.CoreForkPlan
import DymVerif.Lemmas.CoreQueue
namespace DymVerif.Core.Fork

-- ---------------------------------------------------------------- the forked rollapp's record

/-- the forked rollapp's record after the whole fork, field by field -/
theorem hardFork_getRa_same {s s' : St} {ra lv keep : Nat} {r : Rollapp} {kst : SInfo} (hg : getRa s ra = some r)
    (hplan : revertPlan r ((lv + 1) % 2 ^ 64) = .ok (keep, kst)) (e : hardFork s ra lv = .ok s') :
    ∃ p', getRa s' ra = some { r with states := r.states.take (keep - 1) ++ [kst],
                                       revs := r.revs ++ [(latestRev r + 1, kst.last + 1)],
                                       evH := 0, cdStart := s.h, proposer := p', successor := none } ∧
      (p' = none ∨ (p' = r.proposer ∧ ∃ a, r.proposer = some a ∧ getSeq s a = none)) := by
  have hs := hardFork_ok_eq hg hplan e
  subst hs
  obtain ⟨p', h1, h2⟩ := seqOnHardFork_getRa_same (forkMid_getRa_same (keep := keep) (kst := kst) hg)
  refine ⟨p', h1, ?_⟩
  rcases h2 with h2 | ⟨h2, a, h3, h4⟩
  · exact Or.inl h2
  · exact Or.inr ⟨h2, a, h3, by rw [forkMid_getSeq] at h4; exact h4⟩

theorem hardFork_getRa_other {s s' : St} {ra lv id : Nat} (e : hardFork s ra lv = .ok s') (hne : id ≠ ra) :
    getRa s' id = getRa s id := by
  obtain ⟨r, keep, kst, hg, _, _, _, _, hs⟩ := hardFork_ok_elim e
  subst hs
  rw [seqOnHardFork_getRa_other hne, forkMid_getRa_other hg hne]

theorem forkMid_rest (s : St) (ra keep : Nat) (r : Rollapp) (kst : SInfo) :
    (forkMid s ra r keep kst).h = s.h ∧ (forkMid s ra r keep kst).t = s.t ∧ (forkMid s ra r keep kst).p = s.p ∧
    (forkMid s ra r keep kst).bal = s.bal ∧ (forkMid s ra r keep kst).modBal = s.modBal ∧
    (forkMid s ra r keep kst).burned = s.burned ∧ (forkMid s ra r keep kst).obsolete = s.obsolete ∧
    (forkMid s ra r keep kst).nq = s.nq ∧ (forkMid s ra r keep kst).seqs = s.seqs :=
  ⟨rfl, rfl, rfl, rfl, rfl, rfl, rfl, rfl, rfl⟩

theorem hardFork_queue {s s' : St} {ra lv keep : Nat} {r : Rollapp} {kst : SInfo} (hg : getRa s ra = some r)
    (hplan : revertPlan r ((lv + 1) % 2 ^ 64) = .ok (keep, kst)) (e : hardFork s ra lv = .ok s') :
    s'.queue = removeIdxAbove s.queue ra keep := by
  have hs := hardFork_ok_eq hg hplan e
  subst hs
  exact (seqOnHardFork_rest _ _).queue

theorem hardFork_seqH {s s' : St} {ra lv keep : Nat} {r : Rollapp} {kst : SInfo} (hg : getRa s ra = some r)
    (hplan : revertPlan r ((lv + 1) % 2 ^ 64) = .ok (keep, kst)) (e : hardFork s ra lv = .ok s') :
    s'.seqH = pruneSeqHeights s.seqH (kst.creator :: (r.states.drop keep).map (·.creator)) kst.last := by
  have hs := hardFork_ok_eq hg hplan e
  subst hs
  exact (seqOnHardFork_rest _ _).seqH

theorem hardFork_lev {s s' : St} {ra lv keep : Nat} {r : Rollapp} {kst : SInfo} (hg : getRa s ra = some r)
    (hplan : revertPlan r ((lv + 1) % 2 ^ 64) = .ok (keep, kst)) (e : hardFork s ra lv = .ok s') :
    s'.lev = delEvent s.lev r.evH ra := by
  have hs := hardFork_ok_eq hg hplan e
  subst hs
  rw [(seqOnHardFork_rest _ _).lev]
  show delEvent s.lev r.evH r.id = _
  rw [getRa_id hg]

theorem hardFork_getSeq {s s' : St} {ra lv : Nat} {r : Rollapp} (hg : getRa s ra = some r)
    (e : hardFork s ra lv = .ok s') (a : Addr) :
    getSeq s' a = (getSeq s a).map (fun q => { q with optedIn := if q.rollapp == ra then false else q.optedIn,
                                                      bonded := if r.proposer = some a then false else q.bonded }) := by
  obtain ⟨r1, keep, kst, hg1, _, _, _, hplan, hs⟩ := hardFork_ok_elim e
  rw [hg] at hg1; injection hg1 with hg1; subst hg1
  subst hs
  have := seqOnHardFork_getSeq (forkMid_getRa_same (keep := keep) (kst := kst) hg) a
  rw [forkMid_getSeq] at this
  exact this

-- ---------------------------------------------------------------- sequencer liabilities

theorem mem_pruneSeqHeights (sh : List (Addr × Nat)) (cs : List Addr) (h : Nat) (p : Addr × Nat) :
    p ∈ pruneSeqHeights sh cs h ↔ p ∈ sh ∧ (p.1 ∈ cs → p.2 ≤ h) := by
  unfold pruneSeqHeights
  rw [List.mem_filter]
  constructor
  · rintro ⟨h1, h2⟩
    refine ⟨h1, fun hc => ?_⟩
    have hcc : cs.contains p.1 = true := by simpa using hc
    rw [hcc] at h2
    simp at h2
    exact h2
  · rintro ⟨h1, h2⟩
    refine ⟨h1, ?_⟩
    by_cases hc : p.1 ∈ cs
    · have := h2 hc
      have hlt : decide (h < p.2) = false := by simp; omega
      rw [hlt]; simp
    · have hcc : cs.contains p.1 = false := by simpa using hc
      rw [hcc]; rfl

theorem pruneSeqHeights_sublist (sh : List (Addr × Nat)) (cs : List Addr) (h : Nat) :
    (pruneSeqHeights sh cs h).Sublist sh := List.filter_sublist

-- ---------------------------------------------------------------- the queue entries of other rollapps

theorem filter_removeIdxAbove_other (q : List QEntry) (ra keep ra' : Nat) (hne : ra' ≠ ra) :
    (removeIdxAbove q ra keep).filter (·.ra == ra') = q.filter (·.ra == ra') := by
  induction q with
  | nil => rfl
  | cons x xs ih =>
    rw [removeIdxAbove_cons]
    by_cases hx : (x.ra == ra) = true
    · have hxr : x.ra = ra := by simpa using hx
      have hx' : (x.ra == ra') = false := by simp [hxr, Ne.symm hne]
      rw [if_pos hx]
      split
      · rw [ih, List.filter_cons, hx']; rfl
      · rw [List.filter_cons, List.filter_cons]
        simp only [hx', Bool.false_eq_true, if_false]
        exact ih
    · rw [if_neg hx, List.filter_cons, List.filter_cons, ih]

-- ---------------------------------------------------------------- revisions

theorem latestRev_append (r : Rollapp) (x : Nat × Nat) (r' : Rollapp) (h : r'.revs = r.revs ++ [x]) :
    latestRev r' = x.1 := by
  unfold latestRev; rw [h]; simp

theorem revForHeight_append (r r' : Rollapp) (x : Nat × Nat) (h : r'.revs = r.revs ++ [x]) (y : Nat) :
    revForHeight r' y = if x.2 ≤ y then x.1 else revForHeight r y := by
  unfold revForHeight
  rw [h, List.reverse_append]
  simp only [List.reverse_cons, List.reverse_nil, List.nil_append, List.cons_append, List.find?_cons]
  by_cases hx : x.2 ≤ y
  · simp [hx]
  · simp [hx]

-- ---------------------------------------------------------------- descriptors of a well-formed state

theorem _root_.DymVerif.Core.SInfo.WF.bd_range {st : SInfo} (hw : st.WF) {b : BD} (hb : b ∈ st.bds) :
    st.start ≤ b.height ∧ b.height ≤ st.last := by
  obtain ⟨i, hi, rfl⟩ := List.mem_iff_getElem.1 hb
  have := hw.bds_seq i st.bds[i] (by simp [hi])
  rw [hw.last_eq, this]
  have := hw.bds_len
  omega

theorem _root_.DymVerif.Core.SInfo.WF.bd_take {st : SInfo} (hw : st.WF) {b : BD} (hb : b ∈ st.bds) (m : Nat) (hm : b.height < st.start + m) :
    b ∈ st.bds.take m := by
  obtain ⟨i, hi, rfl⟩ := List.mem_iff_getElem.1 hb
  have := hw.bds_seq i st.bds[i] (by simp [hi])
  have him : i < m := by omega
  apply List.mem_iff_getElem.2
  refine ⟨i, by rw [List.length_take]; omega, ?_⟩
  simp

-- ---------------------------------------------------------------- accepted update: revision and start height

theorem updateState_ok_elim {s s' : St} {m : UpdMsg} (e : updateState s m = .ok s') :
    ∃ r, getRa s m.ra = some r ∧ r.proposer = some m.sender ∧ latestRev r = m.rev ∧
      (∀ a, r.states.getLast? = some a → m.start = a.start + a.num) := by
  unfold updateState at e
  split at e
  · cases e
  · split at e
    · cases e
    · rename_i r hg
      split at e
      · cases e
      · rename_i hprop
        split at e
        · cases e
        · split at e
          · cases e
          · rename_i hrev
            split at e
            · cases e
            · rename_i hpre
              exact ⟨r, hg, by simpa using hprop, by simpa using hrev, updPre_start hpre⟩

-- ---------------------------------------------------------------- entry points

theorem fraud_ok_elim {s s' : St} {au : Bool} {ra h rev : Nat} {pun rw : Option Addr}
    (e : fraud s au ra h rev pun rw = .ok s') :
    au = true ∧ h ≠ 0 ∧ ∃ r s1, getRa s ra = some r ∧ revForHeight r h = rev ∧
      (match pun with | some a => punish s a rw = .ok s1 | none => s1 = s) ∧ hardFork s1 ra (h - 1) = .ok s' := by
  unfold fraud at e
  split at e
  · cases e
  · rename_i hau
    split at e
    · cases e
    · rename_i hh
      split at e
      · cases e
      · rename_i r hg
        split at e
        · cases e
        · rename_i hrev
          dsimp only at e
          split at e
          · cases e
          · rename_i s1 h1
            refine ⟨by simpa using hau, hh, r, s1, hg, by simpa using hrev, ?_, e⟩
            cases pun with
            | none => injection h1 with h1; exact h1.symm
            | some a => exact h1

theorem punish_getRa {s s' : St} {a : Addr} {rw : Option Addr} (e : punish s a rw = .ok s') (id : Nat) :
    getRa s' id = getRa s id := by
  unfold punish at e
  split at e
  · cases e
  · dsimp only at e
    split at e
    · cases e
    · rename_i s1 q1 hs
      injection e with e; subst e
      exact getRa_congr ((setSeq_ras _ _).trans (slash_ras hs)) id

theorem sendFromModule_seqH {s s1 : St} {q q1 : Seq} {amt : Nat} {to : Addr}
    (e : sendFromModule s q amt to = .ok (s1, q1)) : s1.seqH = s.seqH ∧ s1.queue = s.queue := by
  unfold sendFromModule at e; split at e
  · cases e
  · split at e
    · cases e
    · split at e
      · cases e
      · injection e with e; injection e with e1 _; subst e1; exact ⟨rfl, rfl⟩

theorem burn_seqH {s s1 : St} {q q1 : Seq} {amt : Nat} (e : burn s q amt = .ok (s1, q1)) :
    s1.seqH = s.seqH ∧ s1.queue = s.queue := by
  unfold burn at e; split at e
  · cases e
  · split at e
    · cases e
    · injection e with e; injection e with e1 _; subst e1; exact ⟨rfl, rfl⟩

theorem slash_seqH {s s1 : St} {q q1 : Seq} {amt : Nat} {mul : Dec} {rw : Option Addr}
    (e : slash s q amt mul rw = .ok (s1, q1)) : s1.seqH = s.seqH ∧ s1.queue = s.queue := by
  unfold slash at e
  dsimp only at e
  split at e
  · cases e
  · rename_i s0 q0 h0
    have h0' : s0.seqH = s.seqH ∧ s0.queue = s.queue := by
      split at h0
      · injection h0 with h0; injection h0 with h1 _; subst h1; exact ⟨rfl, rfl⟩
      · split at h0
        · exact sendFromModule_seqH h0
        · cases h0
    have := burn_seqH e
    exact ⟨this.1.trans h0'.1, this.2.trans h0'.2⟩

theorem punish_seqH_queue {s s' : St} {a : Addr} {rw : Option Addr} (e : punish s a rw = .ok s') :
    s'.seqH = s.seqH ∧ s'.queue = s.queue := by
  unfold punish at e
  split at e
  · cases e
  · dsimp only at e
    split at e
    · cases e
    · rename_i s1 q1 hs
      injection e with e; subst e
      have := slash_seqH hs
      exact ⟨this.1, this.2⟩

theorem kick_ok_elim {s s' : St} {a : Addr} (e : kick s a = .ok s') :
    ∃ kicker r pa s3, getSeq s a = some kicker ∧ getRa s kicker.rollapp = some r ∧ r.proposer = some pa ∧ a ≠ pa ∧
      hardForkToLatest (abruptRemoveProposer s r.id) r.id = .ok s3 ∧
      recoverFromSentinel (setSeq s3 { kicker with optedIn := true }) r.id = .ok s' := by
  unfold kick at e
  split at e
  · cases e
  · rename_i kicker hk
    split at e
    · cases e
    · split at e
      · cases e
      · rename_i r hg
        split at e
        · cases e
        · rename_i pa hpa
          split at e
          · cases e
          · split at e
            · cases e
            · rename_i hne
              split at e
              · cases e
              · dsimp only at e
                split at e
                · cases e
                · rename_i s3 h3
                  exact ⟨kicker, r, pa, s3, hk, hg, hpa, hne, h3, e⟩

/-- rotation with no successor: the proposer's last block forks the rollapp at its latest height -/
theorem onProposerLastBlock_sentinel {s : St} {prop : Seq} {r : Rollapp} (hn : noticeElapsed prop s.t = true)
    (hg : getRa s prop.rollapp = some r) (hs : r.successor = none) :
    onProposerLastBlock s prop = hardForkToLatest (setRa s { r with successor := none, proposer := none }) r.id := by
  unfold onProposerLastBlock
  rw [hn, hg]
  dsimp only
  rw [hs]
  rfl

/-- a sequence of accepted forks-to-latest, one per affected rollapp -/
inductive ForkSeq : St → St → Prop
  | refl (s : St) : ForkSeq s s
  | step {a b c : St} (ra : Nat) : ForkSeq a b → hardForkToLatest b ra = .ok c → ForkSeq a c

/-- obsolete marking: the obsolete list is extended, then a sequence of accepted forks-to-latest runs
    (refused ones are dropped) -/
theorem markObsolete_ok_elim {s s' : St} {au : Bool} {vs : List Nat} (e : markObsolete s au vs = .ok s') :
    au = true ∧ vs ≠ [] ∧
      ForkSeq { s with obsolete := vs.foldl (fun acc v => if acc.contains v then acc else acc ++ [v]) s.obsolete } s' := by
  unfold markObsolete at e
  split at e
  · cases e
  · rename_i hvs
    split at e
    · cases e
    · rename_i hau
      dsimp only at e
      injection e with e; subst e
      refine ⟨by simpa using hau, by intro hc; rw [hc] at hvs; simp at hvs, ?_⟩
      apply foldl_inv (ForkSeq _)
      · exact ForkSeq.refl _
      · intro b r0 hb
        split
        · exact hb
        · split
          · exact hb
          · split
            · split
              · rename_i a ha; exact ForkSeq.step _ hb ha
              · exact hb
            · exact hb

end DymVerif.Core.Fork
