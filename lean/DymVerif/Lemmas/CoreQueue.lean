/-
  Lemmas/CoreQueue — pure list facts about the finalization queue: the per-rollapp flattening of the
  globally sorted queue under append (UpdateState), pruning (hard fork) and the two writes of
  FinalizeStates (remove an entry / rewrite it to its unfinalized suffix).
-/
import DymVerif.Lemmas.CoreBasic
namespace DymVerif.Core

def keyLt (a b : QEntry) : Bool := ltPair (a.ch, a.ra) (b.ch, b.ra)

/-- strictly sorted by (creation height, rollapp) — the order of the store iterator -/
def QSorted (q : List QEntry) : Prop := q.Pairwise (fun a b => keyLt a b = true)

/-- the state indices queued for one rollapp, in queue order -/
def flat (q : List QEntry) (ra : Nat) : List Nat := (q.filter (·.ra == ra)).flatMap (·.idx)

theorem keyLt_iff (a b : QEntry) : keyLt a b = true ↔ a.ch < b.ch ∨ (a.ch = b.ch ∧ a.ra < b.ra) := by
  unfold keyLt ltPair; simp

theorem keyLt_trans {a b c : QEntry} (h1 : keyLt a b = true) (h2 : keyLt b c = true) : keyLt a c = true := by
  rw [keyLt_iff] at *; omega

theorem flat_nil (ra : Nat) : flat [] ra = [] := rfl

theorem flat_cons (x : QEntry) (xs : List QEntry) (ra : Nat) :
    flat (x :: xs) ra = (if x.ra == ra then x.idx else []) ++ flat xs ra := by
  unfold flat
  by_cases h : (x.ra == ra) = true
  · simp [List.filter_cons, h]
  · simp [List.filter_cons, h]

/-- no entry of `ra` among entries whose key is above `(h, ra)` while all `ra` entries have ch ≤ h -/
theorem flat_eq_nil_of_above (xs : List QEntry) (ra h : Nat) (x : QEntry)
    (hx : x.ch = h ∧ x.ra = ra ∨ (h < x.ch ∨ (h = x.ch ∧ ra < x.ra)))
    (hs : ∀ y ∈ xs, keyLt x y = true) (hb : ∀ y ∈ xs, y.ra = ra → y.ch ≤ h) : flat xs ra = [] := by
  induction xs with
  | nil => rfl
  | cons y ys ih =>
    rw [flat_cons]
    have hy := hs y (by simp)
    rw [keyLt_iff] at hy
    have hne : (y.ra == ra) = false := by
      cases hc : (y.ra == ra) with
      | false => rfl
      | true =>
        have hra : y.ra = ra := by simpa using hc
        have := hb y (by simp) hra
        omega
    rw [hne]
    simp only [Bool.false_eq_true, if_false, List.nil_append]
    exact ih (fun z hz => hs z (by simp [hz])) (fun z hz => hb z (by simp [hz]))

theorem insertSorted_sorted (x : QEntry) (q : List QEntry) (h : QSorted q) :
    QSorted (insertSorted (fun a b => ltPair (a.ch, a.ra) (b.ch, b.ra)) x q) := by
  unfold QSorted at *
  induction q with
  | nil => simp [insertSorted]
  | cons y ys ih =>
    have hp := List.pairwise_cons.1 h
    unfold insertSorted
    split
    · rename_i hxy
      apply List.pairwise_cons.2
      refine ⟨?_, h⟩
      intro z hz
      rcases List.mem_cons.1 hz with h1 | h1
      · subst h1; exact hxy
      · exact keyLt_trans (show keyLt x y = true from hxy) (hp.1 z h1)
    · split
      · rename_i hyx
        apply List.pairwise_cons.2
        refine ⟨?_, ih hp.2⟩
        intro z hz
        rcases insertSorted_mem' _ _ _ _ hz with h1 | h1
        · subst h1; exact hyx
        · exact hp.1 z h1
      · rename_i h1 h2
        apply List.pairwise_cons.2
        refine ⟨?_, hp.2⟩
        intro z hz
        have hyz := hp.1 z hz
        rw [keyLt_iff] at hyz ⊢
        have e1 : ¬ keyLt x y = true := h1
        have e2 : ¬ keyLt y x = true := h2
        rw [keyLt_iff] at e1 e2
        omega

end DymVerif.Core

namespace DymVerif.Core

theorem QSorted.tail {x : QEntry} {xs : List QEntry} (h : QSorted (x :: xs)) : QSorted xs :=
  (List.pairwise_cons.1 h).2

theorem QSorted.head {x : QEntry} {xs : List QEntry} (h : QSorted (x :: xs)) : ∀ y ∈ xs, keyLt x y = true :=
  (List.pairwise_cons.1 h).1

/-- a map that keeps (ch, ra) keeps the order -/
theorem QSorted.map_keys {q : List QEntry} (h : QSorted q) (f : QEntry → QEntry)
    (hf : ∀ e, (f e).ch = e.ch ∧ (f e).ra = e.ra) : QSorted (q.map f) := by
  unfold QSorted at *
  rw [List.pairwise_map]
  apply h.imp
  intro a b hab
  rw [keyLt_iff] at hab ⊢
  rw [(hf a).1, (hf a).2, (hf b).1, (hf b).2]; exact hab

theorem QSorted.filter {q : List QEntry} (h : QSorted q) (p : QEntry → Bool) : QSorted (q.filter p) :=
  List.Pairwise.filter p h

-- ---------------------------------------------------------------- append (UpdateState)

theorem queueAppend_sorted (q : List QEntry) (h ra idx : Nat) (hs : QSorted q) : QSorted (queueAppend q h ra idx) := by
  unfold queueAppend
  split
  · exact hs.map_keys _ (by intro e; split <;> exact ⟨rfl, rfl⟩)
  · exact insertSorted_sorted _ _ hs

theorem flat_map_other (q : List QEntry) (f : QEntry → QEntry) (ra : Nat)
    (hf : ∀ e, (f e).ra = e.ra) (hra : ∀ e ∈ q, e.ra = ra → f e = e) :
    flat (q.map f) ra = flat q ra := by
  induction q with
  | nil => rfl
  | cons x xs ih =>
    simp only [List.map_cons, flat_cons, hf x]
    rw [ih (fun e he => hra e (by simp [he]))]
    by_cases hx : (x.ra == ra) = true
    · rw [hra x (by simp) (by simpa using hx)]
    · simp [hx]

def qExtend (q : List QEntry) (h ra idx : Nat) : List QEntry :=
  q.map (fun e => if e.ch == h && e.ra == ra then { e with idx := e.idx ++ [idx] } else e)

def qInsert (q : List QEntry) (h ra idx : Nat) : List QEntry :=
  insertSorted (fun a b => ltPair (a.ch, a.ra) (b.ch, b.ra)) { ch := h, ra := ra, idx := [idx] } q

theorem queueAppend_eq (q : List QEntry) (h ra idx : Nat) :
    queueAppend q h ra idx = if q.any (fun e => e.ch == h && e.ra == ra) then qExtend q h ra idx else qInsert q h ra idx := rfl

theorem flat_qExtend_other (q : List QEntry) (h ra idx ra' : Nat) (hne : ra' ≠ ra) :
    flat (qExtend q h ra idx) ra' = flat q ra' := by
  unfold qExtend
  apply flat_map_other
  · intro e; split <;> rfl
  · intro e _ hra
    have : (e.ra == ra) = false := by simp [hra, hne]
    simp [this]

theorem flat_qInsert_other (q : List QEntry) (h ra idx ra' : Nat) (hne : ra' ≠ ra) :
    flat (qInsert q h ra idx) ra' = flat q ra' := by
  unfold qInsert
  have hnew : ∀ l, flat ({ ch := h, ra := ra, idx := [idx] } :: l) ra' = flat l ra' := by
    intro l; rw [flat_cons]; simp [Ne.symm hne]
  induction q with
  | nil => simp [insertSorted, hnew]
  | cons x xs ih =>
    unfold insertSorted
    split
    · rw [hnew]
    · split
      · rw [flat_cons, flat_cons, ih]
      · rename_i h1 h2
        have e1 : ¬ keyLt { ch := h, ra := ra, idx := [idx] } x = true := h1
        have e2 : ¬ keyLt x { ch := h, ra := ra, idx := [idx] } = true := h2
        rw [keyLt_iff] at e1 e2
        have hxr : x.ra = ra := by simp at e1 e2; omega
        rw [hnew, flat_cons]; simp [hxr, Ne.symm hne]

/-- for another rollapp the append changes nothing -/
theorem flat_queueAppend_other (q : List QEntry) (h ra idx ra' : Nat) (hne : ra' ≠ ra) :
    flat (queueAppend q h ra idx) ra' = flat q ra' := by
  rw [queueAppend_eq]
  split
  · exact flat_qExtend_other q h ra idx ra' hne
  · exact flat_qInsert_other q h ra idx ra' hne

theorem flat_qExtend_same (h ra idx : Nat) : ∀ (q : List QEntry), QSorted q → (∀ e ∈ q, e.ra = ra → e.ch ≤ h) →
    q.any (fun e => e.ch == h && e.ra == ra) = true → flat (qExtend q h ra idx) ra = flat q ra ++ [idx] := by
  intro q
  induction q with
  | nil => intro _ _ hany; simp at hany
  | cons x xs ih =>
    intro hs hb hany
    have hcons : qExtend (x :: xs) h ra idx =
        (if (x.ch == h && x.ra == ra) = true then { x with idx := x.idx ++ [idx] } else x) :: qExtend xs h ra idx := rfl
    rw [hcons]
    by_cases hx : (x.ch == h && x.ra == ra) = true
    · have hxx : x.ch = h ∧ x.ra = ra := by simpa using hx
      have hnil : flat xs ra = [] :=
        flat_eq_nil_of_above xs ra h x (Or.inl hxx) hs.head (fun y hy => hb y (by simp [hy]))
      have hmap : flat (qExtend xs h ra idx) ra = flat xs ra := by
        unfold qExtend
        apply flat_map_other
        · intro e; split <;> rfl
        · intro e he hra
          have hk := hs.head e he
          rw [keyLt_iff] at hk
          have : ¬ (e.ch = h) := by omega
          simp [this]
      rw [if_pos hx, flat_cons, flat_cons, hmap, hnil]
      have hr : (x.ra == ra) = true := by simp [hxx.2]
      simp [hr]
    · have hany' : xs.any (fun e => e.ch == h && e.ra == ra) = true := by
        simpa [hx] using hany
      rw [if_neg hx, flat_cons, flat_cons, ih hs.tail (fun e he => hb e (by simp [he])) hany']
      simp [List.append_assoc]

theorem flat_qInsert_same (h ra idx : Nat) : ∀ (q : List QEntry), QSorted q → (∀ e ∈ q, e.ra = ra → e.ch ≤ h) →
    (∀ e ∈ q, ¬ (e.ch = h ∧ e.ra = ra)) → flat (qInsert q h ra idx) ra = flat q ra ++ [idx] := by
  intro q
  induction q with
  | nil => intro _ _ _; simp [qInsert, insertSorted, flat_cons, flat_nil]
  | cons x xs ih =>
    intro hs hb hno
    unfold qInsert insertSorted
    split
    · rename_i hlt
      have hlt' : keyLt { ch := h, ra := ra, idx := [idx] } x = true := hlt
      have hnil : flat (x :: xs) ra = [] := by
        apply flat_eq_nil_of_above (x :: xs) ra h { ch := h, ra := ra, idx := [idx] } (Or.inl ⟨rfl, rfl⟩)
        · intro y hy
          rcases List.mem_cons.1 hy with h1 | h1
          · subst h1; exact hlt'
          · exact keyLt_trans hlt' (hs.head y h1)
        · exact hb
      rw [flat_cons (x := { ch := h, ra := ra, idx := [idx] }), hnil]; simp
    · split
      · have := ih hs.tail (fun e he => hb e (by simp [he])) (fun e he => hno e (by simp [he]))
        unfold qInsert at this
        rw [flat_cons, flat_cons, this]
        simp [List.append_assoc]
      · rename_i h1 h2
        have e1 : ¬ keyLt { ch := h, ra := ra, idx := [idx] } x = true := h1
        have e2 : ¬ keyLt x { ch := h, ra := ra, idx := [idx] } = true := h2
        rw [keyLt_iff] at e1 e2
        exfalso; apply hno x (by simp); simp at e1 e2; omega

/-- for the rollapp itself the new index goes to the very end of its flattened queue -/
theorem flat_queueAppend_same (q : List QEntry) (h ra idx : Nat) (hs : QSorted q)
    (hb : ∀ e ∈ q, e.ra = ra → e.ch ≤ h) : flat (queueAppend q h ra idx) ra = flat q ra ++ [idx] := by
  rw [queueAppend_eq]
  split
  · rename_i hany; exact flat_qExtend_same h ra idx q hs hb hany
  · rename_i hany
    apply flat_qInsert_same h ra idx q hs hb
    intro e he hc
    apply hany
    exact List.any_eq_true.2 ⟨e, he, by simp [hc.1, hc.2]⟩

theorem mem_queueAppend (q : List QEntry) (h ra idx : Nat) (e : QEntry) (he : e ∈ queueAppend q h ra idx) :
    (e.ch = h ∧ e.ra = ra ∧ idx ∈ e.idx ∧ ∀ i ∈ e.idx, i = idx ∨ ∃ e0 ∈ q, e0.ch = e.ch ∧ e0.ra = e.ra ∧ i ∈ e0.idx) ∨ e ∈ q := by
  unfold queueAppend at he
  split at he
  · simp only [List.mem_map] at he
    obtain ⟨e0, he0, rfl⟩ := he
    split
    · rename_i hc
      have hcc : e0.ch = h ∧ e0.ra = ra := by simpa using hc
      left
      refine ⟨hcc.1, hcc.2, by simp, ?_⟩
      intro i hi
      simp at hi
      rcases hi with h1 | h1
      · exact Or.inr ⟨e0, he0, rfl, rfl, h1⟩
      · exact Or.inl h1
    · exact Or.inr he0
  · rcases insertSorted_mem' _ _ _ _ he with h1 | h1
    · subst h1; left; exact ⟨rfl, rfl, by simp, by intro i hi; simp at hi; exact Or.inl hi⟩
    · exact Or.inr h1

-- ---------------------------------------------------------------- pruning (hard fork)

theorem removeIdxAbove_sorted (q : List QEntry) (ra keep : Nat) (hs : QSorted q) : QSorted (removeIdxAbove q ra keep) := by
  unfold removeIdxAbove
  apply QSorted.filter
  exact hs.map_keys _ (by intro e; split <;> exact ⟨rfl, rfl⟩)

theorem removeIdxAbove_cons (x : QEntry) (xs : List QEntry) (ra keep : Nat) :
    removeIdxAbove (x :: xs) ra keep =
      if x.ra == ra then
        (if (x.idx.filter (· ≤ keep)).isEmpty then removeIdxAbove xs ra keep
         else { x with idx := x.idx.filter (· ≤ keep) } :: removeIdxAbove xs ra keep)
      else x :: removeIdxAbove xs ra keep := by
  unfold removeIdxAbove
  by_cases hx : (x.ra == ra) = true
  · simp only [List.map_cons, hx, if_true, List.filter_cons, Bool.true_and]
    cases hemp : (List.filter (fun x => decide (x ≤ keep)) x.idx).isEmpty <;> simp
  · have hx' : (x.ra == ra) = false := by simpa using hx
    simp only [List.map_cons, hx', List.filter_cons]
    simp
    intro hc; exact absurd hc (by simpa using hx')

theorem flat_removeIdxAbove_same (q : List QEntry) (ra keep : Nat) :
    flat (removeIdxAbove q ra keep) ra = (flat q ra).filter (· ≤ keep) := by
  induction q with
  | nil => rfl
  | cons x xs ih =>
    rw [removeIdxAbove_cons]
    by_cases hx : (x.ra == ra) = true
    · rw [if_pos hx, flat_cons, if_pos hx, List.filter_append, ← ih]
      cases hemp : (List.filter (fun x => decide (x ≤ keep)) x.idx).isEmpty with
      | true =>
        have : List.filter (fun x => decide (x ≤ keep)) x.idx = [] := by simpa using hemp
        simp [this]
      | false =>
        simp only [Bool.false_eq_true, if_false]
        rw [flat_cons]
        simp [hx]
    · rw [if_neg hx, flat_cons, flat_cons, ih]
      simp [hx]

theorem flat_removeIdxAbove_other (q : List QEntry) (ra keep ra' : Nat) (hne : ra' ≠ ra) :
    flat (removeIdxAbove q ra keep) ra' = flat q ra' := by
  induction q with
  | nil => rfl
  | cons x xs ih =>
    rw [removeIdxAbove_cons]
    by_cases hx : (x.ra == ra) = true
    · have hxr : x.ra = ra := by simpa using hx
      have hx' : (x.ra == ra') = false := by simp [hxr, Ne.symm hne]
      rw [if_pos hx, flat_cons]
      simp only [hx', Bool.false_eq_true, if_false, List.nil_append]
      split
      · exact ih
      · rw [flat_cons]; simp [hx', ih]
    · rw [if_neg hx, flat_cons, flat_cons, ih]

theorem mem_removeIdxAbove (q : List QEntry) (ra keep : Nat) (e : QEntry) (he : e ∈ removeIdxAbove q ra keep) :
    ∃ e0 ∈ q, e0.ch = e.ch ∧ e0.ra = e.ra ∧ (∀ i ∈ e.idx, i ∈ e0.idx ∧ (e.ra = ra → i ≤ keep)) ∧ (e.ra = ra → e.idx ≠ []) ∧ (e.ra ≠ ra → e = e0) := by
  induction q with
  | nil => simp [removeIdxAbove] at he
  | cons x xs ih =>
    rw [removeIdxAbove_cons] at he
    by_cases hx : (x.ra == ra) = true
    · have hxr : x.ra = ra := by simpa using hx
      rw [if_pos hx] at he
      split at he
      · obtain ⟨e0, h0, h1⟩ := ih he
        exact ⟨e0, by simp [h0], h1⟩
      · rename_i hemp
        rcases List.mem_cons.1 he with h1 | h1
        · subst h1
          refine ⟨x, by simp, rfl, rfl, ?_, ?_, ?_⟩
          · intro i hi
            have : i ∈ x.idx ∧ i ≤ keep := by simpa using hi
            exact ⟨this.1, fun _ => this.2⟩
          · intro _ hc
            apply hemp
            show (List.filter (fun x => decide (x ≤ keep)) x.idx).isEmpty = true
            have : List.filter (fun x => decide (x ≤ keep)) x.idx = [] := hc
            rw [this]; rfl
          · intro hc; exact absurd hxr hc
        · obtain ⟨e0, h0, h2⟩ := ih h1
          exact ⟨e0, by simp [h0], h2⟩
    · have hxr : x.ra ≠ ra := by simpa using hx
      rw [if_neg hx] at he
      rcases List.mem_cons.1 he with h1 | h1
      · subst h1
        exact ⟨e, by simp, rfl, rfl, fun i hi => ⟨hi, fun hc => absurd hc hxr⟩, fun hc => absurd hc hxr, fun _ => rfl⟩
      · obtain ⟨e0, h0, h2⟩ := ih h1
        exact ⟨e0, by simp [h0], h2⟩

-- ---------------------------------------------------------------- the two writes of FinalizeStates

/-- removing the entry with key (ch, ra) -/
def qRemove (q : List QEntry) (ch ra : Nat) : List QEntry := q.filter (fun x => !(x.ch == ch && x.ra == ra))

/-- rewriting the entry with key (ch, ra) to the index list `l` -/
def qRewrite (q : List QEntry) (ch ra : Nat) (l : List Nat) : List QEntry :=
  q.map (fun x => if x.ch == ch && x.ra == ra then { x with idx := l } else x)

theorem qRemove_sorted {q : List QEntry} (hs : QSorted q) (ch ra : Nat) : QSorted (qRemove q ch ra) := hs.filter _

theorem qRewrite_sorted {q : List QEntry} (hs : QSorted q) (ch ra : Nat) (l : List Nat) : QSorted (qRewrite q ch ra l) :=
  hs.map_keys _ (by intro e; split <;> exact ⟨rfl, rfl⟩)

theorem flat_qRemove_other (q : List QEntry) (ch ra ra' : Nat) (hne : ra' ≠ ra) : flat (qRemove q ch ra) ra' = flat q ra' := by
  unfold qRemove
  induction q with
  | nil => rfl
  | cons x xs ih =>
    simp only [List.filter_cons]
    split
    · rw [flat_cons, flat_cons, ih]
    · rename_i hc
      have : x.ch = ch ∧ x.ra = ra := by simpa using hc
      rw [flat_cons, ih]; simp [this.2, Ne.symm hne]

theorem flat_qRewrite_other (q : List QEntry) (ch ra ra' : Nat) (l : List Nat) (hne : ra' ≠ ra) :
    flat (qRewrite q ch ra l) ra' = flat q ra' := by
  unfold qRewrite
  apply flat_map_other
  · intro e; split <;> simp_all
  · intro e _ hra
    have : (e.ra == ra) = false := by simp [hra, hne]
    simp [this]

theorem qRemove_cons (x : QEntry) (xs : List QEntry) (ch ra : Nat) :
    qRemove (x :: xs) ch ra = if (x.ch == ch && x.ra == ra) = true then qRemove xs ch ra else x :: qRemove xs ch ra := by
  unfold qRemove
  simp only [List.filter_cons]
  cases (x.ch == ch && x.ra == ra) <;> simp

theorem qRewrite_cons (x : QEntry) (xs : List QEntry) (ch ra : Nat) (l : List Nat) :
    qRewrite (x :: xs) ch ra l =
      (if (x.ch == ch && x.ra == ra) = true then { x with idx := l } else x) :: qRewrite xs ch ra l := rfl

theorem qRemove_id (xs : List QEntry) (ch ra : Nat) (h : ∀ y ∈ xs, ¬ (y.ch = ch ∧ y.ra = ra)) : qRemove xs ch ra = xs := by
  induction xs with
  | nil => rfl
  | cons y ys ih =>
    have hy : (y.ch == ch && y.ra == ra) = false := by
      cases hc : (y.ch == ch && y.ra == ra) with
      | false => rfl
      | true => exact absurd (by simpa using hc) (h y (by simp))
    rw [qRemove_cons, hy, ih (fun z hz => h z (by simp [hz]))]; simp

theorem qRewrite_id (xs : List QEntry) (ch ra : Nat) (l : List Nat) (h : ∀ y ∈ xs, ¬ (y.ch = ch ∧ y.ra = ra)) :
    qRewrite xs ch ra l = xs := by
  induction xs with
  | nil => rfl
  | cons y ys ih =>
    have hy : (y.ch == ch && y.ra == ra) = false := by
      cases hc : (y.ch == ch && y.ra == ra) with
      | false => rfl
      | true => exact absurd (by simpa using hc) (h y (by simp))
    rw [qRewrite_cons, hy, ih (fun z hz => h z (by simp [hz]))]; simp

/-- if the first entry of `ra` in the sorted queue is `e` (key (ch, ra)), then the flattening splits
    as `e.idx ++ rest`, removing the entry leaves `rest`, rewriting it to `l` gives `l ++ rest` -/
theorem flat_first_entry (q : List QEntry) (hs : QSorted q) (e : QEntry) (he : e ∈ q)
    (hfirst : ∀ y ∈ q, y.ra = e.ra → e.ch ≤ y.ch) :
    ∃ rest, flat q e.ra = e.idx ++ rest ∧ flat (qRemove q e.ch e.ra) e.ra = rest ∧
      ∀ l, flat (qRewrite q e.ch e.ra l) e.ra = l ++ rest := by
  induction q with
  | nil => cases he
  | cons x xs ih =>
    by_cases hx : x.ch = e.ch ∧ x.ra = e.ra
    · -- x has e's key; by strict sortedness e = x
      have hex : e = x := by
        rcases List.mem_cons.1 he with h1 | h1
        · exact h1
        · have := hs.head e h1
          rw [keyLt_iff] at this; omega
      subst hex
      have hrest : ∀ y ∈ xs, ¬ (y.ch = e.ch ∧ y.ra = e.ra) := by
        intro y hy hc
        have := hs.head y hy
        rw [keyLt_iff] at this; omega
      have hk : (e.ch == e.ch && e.ra == e.ra) = true := by simp
      have hr : (e.ra == e.ra) = true := by simp
      refine ⟨flat xs e.ra, ?_, ?_, ?_⟩
      · rw [flat_cons, if_pos hr]
      · rw [qRemove_cons, if_pos hk, qRemove_id xs e.ch e.ra hrest]
      · intro l
        rw [qRewrite_cons, if_pos hk, qRewrite_id xs e.ch e.ra l hrest, flat_cons]
        simp
    · have hxra : ¬ x.ra = e.ra := by
        intro hc
        have h1 := hfirst x (by simp) hc
        rcases List.mem_cons.1 he with h2 | h2
        · subst h2; exact hx ⟨rfl, rfl⟩
        · have := hs.head e h2
          rw [keyLt_iff] at this
          omega
      have hein : e ∈ xs := by
        rcases List.mem_cons.1 he with h2 | h2
        · subst h2; exact absurd rfl hxra
        · exact h2
      obtain ⟨rest, h1, h2, h3⟩ := ih hs.tail hein (fun y hy => hfirst y (by simp [hy]))
      have hk : (x.ch == e.ch && x.ra == e.ra) = false := by
        cases hc : (x.ch == e.ch && x.ra == e.ra) with
        | false => rfl
        | true => exact absurd (by simpa using hc) hx
      have hr : (x.ra == e.ra) = false := by simp [hxra]
      refine ⟨rest, ?_, ?_, ?_⟩
      · rw [flat_cons, hr, h1]; simp
      · rw [qRemove_cons, hk]
        simp only [Bool.false_eq_true, if_false]
        rw [flat_cons, hr, h2]; simp
      · intro l
        rw [qRewrite_cons, hk]
        simp only [Bool.false_eq_true, if_false]
        rw [flat_cons, hr, h3 l]; simp

end DymVerif.Core
