/-
  Lemmas/IncentProp — "rewards in proportion to the locked amounts" as an EXACT statement about amounts:
  what one call of x/incentives `Keeper.Distribute` credits to an account is the sum, over the gauges handed
  in, of `dueG` — for an asset gauge the sum of `lockReward` over the account's qualifying locks, for a
  rollapp gauge the whole remainder if the account owns the (launched) rollapp.  No invariant is needed for
  the kernel (`incDistribute_exact`); `endBlock_pays_exactly` lifts it to the streamer EndBlock.
-/
import DymVerif.Lemmas.IncentInv
namespace DymVerif.Incent
open DymVerif Coins

theorem trFor_addReward (tr : Tracker) (o : Nat) (c : Coins) (a i : Nat) :
    trFor (tr.addReward o c) a i = trFor tr a i + (if o = a then amt c i else 0) := by
  induction tr with
  | nil =>
    by_cases h : o = a
    · simp [Tracker.addReward, trFor, h]
    · simp [Tracker.addReward, trFor, h]
  | cons p rest ih =>
    obtain ⟨o', c'⟩ := p
    unfold Tracker.addReward
    by_cases h : o' = o
    · simp only [h, if_true]
      by_cases ha : o = a
      · simp only [trFor, List.filter_cons, ha, beq_self_eq_true, if_true, List.map_cons, List.sum_cons, amt_add]
        omega
      · have hb : (o == a) = false := by simpa using ha
        simp only [trFor, List.filter_cons, hb, ha, if_false, Bool.false_eq_true, Nat.add_zero]
    · simp only [h, if_false]
      by_cases ha : o' = a
      · simp only [trFor, List.filter_cons, ha, beq_self_eq_true, if_true, List.map_cons, List.sum_cons] at ih ⊢
        omega
      · have hb : (o' == a) = false := by simpa using ha
        simp only [trFor, List.filter_cons, hb, Bool.false_eq_true, if_false] at ih ⊢
        exact ih

/-- what the locks of account `a` among `ls` are due from one distribution of an asset gauge with `remain`
    coins left, qualifying total `L` and `re` remaining epochs: Σ `lockReward` -/
def dueLocks (remain : Coins) (L re : Nat) (ls : List Lock) (a i : Nat) : Nat :=
  ((ls.filter (·.owner == a)).map (fun l => amt (lockReward remain l.amount L re) i)).sum

/-- the same summed over all owners -/
def dueAll (remain : Coins) (L re : Nat) (ls : List Lock) (i : Nat) : Nat :=
  (ls.map (fun l => amt (lockReward remain l.amount L re) i)).sum

theorem dueLocks_cons (remain : Coins) (L re : Nat) (l : Lock) (ls : List Lock) (a i : Nat) :
    dueLocks remain L re (l :: ls) a i =
      (if l.owner = a then amt (lockReward remain l.amount L re) i else 0) + dueLocks remain L re ls a i := by
  unfold dueLocks
  by_cases h : l.owner = a
  · simp [List.filter_cons, h]
  · have hb : (l.owner == a) = false := by simpa using h
    simp [List.filter_cons, hb, h]

theorem assetLoop_exact (remain : Coins) (L re : Nat) (a i : Nat) :
    ∀ (ls : List Lock) (tr : Tracker) (tot : Coins) (tr' : Tracker) (tot' : Coins),
      assetLoop remain L re ls tr tot = (tr', tot') →
      trFor tr' a i = trFor tr a i + dueLocks remain L re ls a i ∧ amt tot' i = amt tot i + dueAll remain L re ls i := by
  intro ls
  induction ls with
  | nil =>
    intro tr tot tr' tot' h
    simp only [assetLoop, Prod.mk.injEq] at h
    obtain ⟨h1, h2⟩ := h; subst h1; subst h2
    simp [dueLocks, dueAll]
  | cons l rest ih =>
    intro tr tot tr' tot' h
    unfold assetLoop at h
    simp only at h
    rw [dueLocks_cons]
    have hall : dueAll remain L re (l :: rest) i = amt (lockReward remain l.amount L re) i + dueAll remain L re rest i := by
      simp [dueAll]
    rw [hall]
    by_cases hz : (lockReward remain l.amount L re).isZero = true
    · rw [if_pos hz] at h
      obtain ⟨r1, r2⟩ := ih _ _ _ _ h
      have h0 := (isZero_iff _).1 hz i
      rw [r1, r2, h0]
      split <;> omega
    · rw [if_neg hz] at h
      obtain ⟨r1, r2⟩ := ih _ _ _ _ h
      rw [r1, r2, trFor_addReward, amt_add]
      split <;> omega

theorem dueLocks_zero (remain : Coins) (L re : Nat) (ls : List Lock) (a i : Nat) (h : amt remain i = 0) :
    dueLocks remain L re ls a i = 0 := by
  unfold dueLocks
  apply sum_zero_of_all_zero
  intro x hx
  obtain ⟨l, _, he⟩ := List.mem_map.1 hx
  rw [← he, amt_lockReward, h]
  simp [lockShare]

theorem dueAll_zero (remain : Coins) (L re : Nat) (ls : List Lock) (i : Nat) (h : amt remain i = 0) :
    dueAll remain L re ls i = 0 := by
  unfold dueAll
  apply sum_zero_of_all_zero
  intro x hx
  obtain ⟨l, _, he⟩ := List.mem_map.1 hx
  rw [← he, amt_lockReward, h]
  simp [lockShare]

/-- what account `a` is due from ONE distribution of gauge `g` (as handed to `Keeper.Distribute`) in state `s`:
    asset gauge — Σ `lockReward` over `a`'s qualifying locks (nothing if no lock qualifies or no epoch remains);
    rollapp gauge — the whole remainder if `a` owns the launched rollapp -/
def dueG (s : State) (g : Gauge) (a i : Nat) : Nat :=
  match g.kind with
  | .asset _ _ =>
    if lockSum (gaugeLocks s g) = 0 ∨ remainEpochs g = 0 then 0
    else dueLocks (Coins.sub g.coins g.distributed) (lockSum (gaugeLocks s g)) (remainEpochs g) (gaugeLocks s g) a i
  | .rollapp r =>
    match s.rollapps[r]? with
    | some ra => if ra.launched = true ∧ ra.owner = a then amt g.coins i - amt g.distributed i else 0
    | none => 0

/-- what gauge `g` hands out in that distribution, to everybody -/
def dueTotal (s : State) (g : Gauge) (i : Nat) : Nat :=
  match g.kind with
  | .asset _ _ =>
    if lockSum (gaugeLocks s g) = 0 ∨ remainEpochs g = 0 then 0
    else dueAll (Coins.sub g.coins g.distributed) (lockSum (gaugeLocks s g)) (remainEpochs g) (gaugeLocks s g) i
  | .rollapp r =>
    match s.rollapps[r]? with
    | some ra => if ra.launched = true then amt g.coins i - amt g.distributed i else 0
    | none => 0

theorem dueG_congr {s s' : State} (h1 : s'.locks = s.locks) (h2 : s'.rollapps = s.rollapps) (g : Gauge) (a i : Nat) :
    dueG s' g a i = dueG s g a i ∧ dueTotal s' g i = dueTotal s g i := by
  have hl : gaugeLocks s' g = gaugeLocks s g := by unfold gaugeLocks; rw [h1]
  unfold dueG dueTotal
  rw [hl, h2]
  exact ⟨rfl, rfl⟩

theorem calcGauge_exact (s : State) (g : Gauge) (tr tr' : Tracker) (c : Coins) (h : calcGauge s g tr = .ok tr' c) (a i : Nat) :
    trFor tr' a i = trFor tr a i + dueG s g a i ∧ amt c i = dueTotal s g i := by
  unfold calcGauge at h
  unfold dueG dueTotal
  cases hk : g.kind with
  | asset d dur =>
    simp only [hk] at h ⊢
    cases hc : calcAsset g (gaugeLocks s g) tr with
    | none => simp [hc] at h
    | some p =>
      obtain ⟨t2, c2⟩ := p
      simp only [hc, CalcRes.ok.injEq] at h
      obtain ⟨e1, e2⟩ := h; subst e1; subst e2
      unfold calcAsset at hc
      by_cases hL : lockSum (gaugeLocks s g) = 0
      · simp only [hL, if_true, Option.some.injEq, Prod.mk.injEq] at hc
        obtain ⟨e1, e2⟩ := hc; subst e1; subst e2
        simp [hL]
      · rw [if_neg hL] at hc
        cases hsub : Coins.sub? g.coins g.distributed with
        | none => simp [hsub] at hc
        | some remain =>
          simp only [hsub] at hc
          obtain ⟨hr, _⟩ := sub?_some hsub
          by_cases hre : remainEpochs g = 0
          · simp only [hre, if_true, Option.some.injEq, Prod.mk.injEq] at hc
            obtain ⟨e1, e2⟩ := hc; subst e1; subst e2
            simp [hre]
          · rw [if_neg hre] at hc
            have hcond : ¬ (lockSum (gaugeLocks s g) = 0 ∨ remainEpochs g = 0) := by
              intro hx; rcases hx with hx | hx
              · exact hL hx
              · exact hre hx
            rw [if_neg hcond, if_neg hcond, ← hr]
            by_cases hz : remain.isZero = true
            · simp only [hz, if_true, Option.some.injEq, Prod.mk.injEq] at hc
              obtain ⟨e1, e2⟩ := hc; subst e1; subst e2
              have h0 := (isZero_iff _).1 hz i
              rw [dueLocks_zero _ _ _ _ _ _ h0, dueAll_zero _ _ _ _ _ h0]
              simp
            · rw [if_neg hz] at hc
              simp only [Option.some.injEq] at hc
              obtain ⟨r1, r2⟩ := assetLoop_exact remain _ _ a i _ _ _ _ _ hc
              rw [r1, r2]; simp
  | rollapp r =>
    simp only [hk] at h ⊢
    unfold calcRollapp at h
    cases hra : s.rollapps[r]? with
    | none => simp [hra] at h
    | some ra =>
      simp only [hra] at h ⊢
      by_cases hex : ra.exists_ = true
      · simp only [hex, Bool.not_true, Bool.false_eq_true, if_false] at h
        by_cases hl : ra.launched = true
        · simp only [hl, Bool.not_true, Bool.false_eq_true, if_false, true_and, if_true] at h ⊢
          cases hsub : Coins.sub? g.coins g.distributed with
          | none => simp [hsub] at h
          | some total =>
            simp only [hsub] at h
            obtain ⟨hr, _⟩ := sub?_some hsub
            have hamt : amt total i = amt g.coins i - amt g.distributed i := by rw [hr, amt_sub]
            by_cases hz : total.isZero = true
            · simp only [hz, if_true, CalcRes.ok.injEq] at h
              obtain ⟨e1, e2⟩ := h; subst e1; subst e2
              have h0 := (isZero_iff _).1 hz i
              rw [← hamt, h0]; simp
            · simp only [hz, Bool.false_eq_true, if_false, CalcRes.ok.injEq] at h
              obtain ⟨e1, e2⟩ := h; subst e1; subst e2
              rw [trFor_addReward, hamt]
              exact ⟨rfl, rfl⟩
        · have hl' : ra.launched = false := by simpa using hl
          simp only [hl', Bool.not_false, if_true, CalcRes.ok.injEq, Bool.false_eq_true, false_and, if_false] at h ⊢
          obtain ⟨e1, e2⟩ := h; subst e1; subst e2
          simp
      · have hex' : ra.exists_ = false := by simpa using hex
        simp [hex'] at h

/-- the gauge loop: the tracker of account `a` grows by exactly what the gauges owe it -/
theorem incLoop_exact (ee : Bool) (a i : Nat) : ∀ (gs : List Gauge) (s : State) (tr : Tracker) (s' : State) (tr' : Tracker),
    incLoop ee gs s tr = .ok (s', tr') → trFor tr' a i = trFor tr a i + (gs.map (dueG s · a i)).sum := by
  intro gs
  induction gs with
  | nil =>
    intro s tr s' tr' h
    simp only [incLoop, Except.ok.injEq, Prod.mk.injEq] at h
    rw [← h.2]; simp
  | cons g rest ih =>
    intro s tr s' tr' h
    unfold incLoop at h
    cases hc : calcGauge s g tr with
    | err => simp [hc] at h
    | panic => simp [hc] at h
    | ok t2 c =>
      simp only [hc] at h
      obtain ⟨e1, _⟩ := calcGauge_exact s g tr t2 c hc a i
      simp only [List.map_cons, List.sum_cons]
      split at h
      · rw [ih _ _ _ _ h, e1]; omega
      · rw [ih _ _ _ _ h, e1]
        have : (rest.map (dueG (setGauge s { g with filled := if ee then g.filled + 1 else g.filled, distributed := Coins.add g.distributed c }) · a i))
            = rest.map (dueG s · a i) :=
          List.map_congr_left (fun x _ => (dueG_congr (s := s) rfl rfl x a i).1)
        rw [this]; omega

theorem incLoop_frame' (ee : Bool) : ∀ (gs : List Gauge) (s : State) (tr : Tracker) (s' : State) (tr' : Tracker),
    incLoop ee gs s tr = .ok (s', tr') → s' = { s with gauges := s'.gauges } := by
  intro gs
  induction gs with
  | nil => intro s tr s' tr' h; simp only [incLoop, Except.ok.injEq, Prod.mk.injEq] at h; rw [← h.1]
  | cons g rest ih =>
    intro s tr s' tr' h
    unfold incLoop at h
    cases hc : calcGauge s g tr with
    | err => simp [hc] at h
    | panic => simp [hc] at h
    | ok t2 c =>
      simp only [hc] at h
      split at h
      · exact ih _ _ _ _ h
      · have := ih _ _ _ _ h
        rw [this]; rfl

/-- **one call of x/incentives `Keeper.Distribute`, any state, any gauge list**: every account other than the
    incentives module account is credited exactly the sum over the gauges of what it is due — for asset gauges
    the `lockReward`s of its qualifying locks — and nothing else -/
theorem incDistribute_exact (s : State) (gs : List Gauge) (ee : Bool) (s' : State) (h : incDistribute s gs ee = .ok s')
    (a : Nat) (ha : a ≠ incAddr) (i : Nat) :
    amt (s'.bank.get a) i = amt (s.bank.get a) i + (gs.map (dueG s · a i)).sum := by
  unfold incDistribute at h
  cases hl : incLoop ee gs s [] with
  | error e => simp [hl] at h
  | ok p =>
    obtain ⟨s1, tr⟩ := p
    simp only [hl] at h
    cases hp : payAll tr s1.bank with
    | none => simp [hp] at h
    | some b =>
      simp only [hp, Except.ok.injEq] at h
      subst h
      have hb : s1.bank = s.bank := by
        have := incLoop_frame' ee gs s [] s1 tr hl
        rw [this]
      obtain ⟨_, p2, _⟩ := payAll_spec tr s1.bank b hp
      have e := incLoop_exact ee a i gs s [] s1 tr hl
      have hnil : trFor ([] : Tracker) a i = 0 := by simp [trFor]
      show amt (b.get a) i = _
      rw [p2 a ha i, hb, e, hnil]; omega

/-! ### the gauge side: the stored gauge's distributed coins grow by exactly what it hands out -/

theorem getG_set_self (gs : List Gauge) (id : Nat) (v : Gauge) (h0 : id ≠ 0) (hk : id - 1 < gs.length) :
    getG (gs.set (id - 1) v) id = some v := by
  unfold getG
  rw [if_neg h0]
  simp [hk]

theorem incLoop_gauges_exact (ee : Bool) : ∀ (gs : List Gauge) (s : State) (tr : Tracker) (s' : State) (tr' : Tracker),
    IdsOK s.gauges → (gs.map (·.id)).Nodup → (∀ g ∈ gs, Coh s.gauges g) → incLoop ee gs s tr = .ok (s', tr') →
    (∀ id, id ∉ gs.map (·.id) → getG s'.gauges id = getG s.gauges id) ∧
    (∀ g ∈ gs, ∃ g', getG s'.gauges g.id = some g' ∧ ∀ i, amt g'.distributed i = amt g.distributed i + dueTotal s g i) := by
  intro gs
  induction gs with
  | nil =>
    intro s tr s' tr' _ _ _ h
    simp only [incLoop, Except.ok.injEq, Prod.mk.injEq] at h
    rw [← h.1]
    exact ⟨fun _ _ => rfl, by simp⟩
  | cons g rest ih =>
    intro s tr s' tr' hid hnd hcoh h
    have hnd0 : (g.id :: rest.map (·.id)).Nodup := hnd
    obtain ⟨hn1, hnd'⟩ := List.nodup_cons.1 hnd0
    have hgnot : ∀ x ∈ rest, x.id ≠ g.id := by
      intro x hx he
      exact hn1 (by rw [← he]; exact List.mem_map_of_mem (f := (·.id)) hx)
    obtain ⟨g0, hg0, hd, _, _⟩ := hcoh g List.mem_cons_self
    obtain ⟨hid1, hk, _, _, _⟩ := getG_some hid hg0
    unfold incLoop at h
    cases hc : calcGauge s g tr with
    | err => simp [hc] at h
    | panic => simp [hc] at h
    | ok t2 c =>
      simp only [hc] at h
      have etot : ∀ i, amt c i = dueTotal s g i := fun i => (calcGauge_exact s g tr t2 c hc 0 i).2
      by_cases hz : c.isZero = true
      · rw [if_pos hz] at h
        obtain ⟨i1, i2⟩ := ih s t2 s' tr' hid hnd' (fun x hx => hcoh x (List.mem_cons_of_mem _ hx)) h
        refine ⟨?_, ?_⟩
        · intro id hnot
          simp only [List.map_cons, List.mem_cons, not_or] at hnot
          exact i1 id hnot.2
        · intro x hx
          rcases List.mem_cons.1 hx with h1 | h1
          · rw [h1]
            refine ⟨g0, by rw [i1 g.id hn1]; exact hg0, ?_⟩
            intro i
            rw [← etot i, (isZero_iff _).1 hz i, ← hd]; omega
          · exact i2 x h1
      · rw [if_neg hz] at h
        generalize hg' : ({ g with filled := if ee then g.filled + 1 else g.filled, distributed := Coins.add g.distributed c } : Gauge) = g' at h
        have hg'id : g'.id = g.id := by rw [← hg']
        have hs1 : setGauge s g' = { s with gauges := s.gauges.set (g.id - 1) g' } := by
          unfold setGauge; rw [hg'id]
        rw [hs1] at h
        have hid' : IdsOK (s.gauges.set (g.id - 1) g') := idsOK_set hid _ _ (by rw [hg'id]; omega)
        have hcoh' : ∀ x ∈ rest, Coh (s.gauges.set (g.id - 1) g') x := by
          intro x hx
          obtain ⟨x0, hx0, r⟩ := hcoh x (List.mem_cons_of_mem _ hx)
          refine ⟨x0, ?_, r⟩
          rw [getG_set_ne _ _ _ _ (by have := hgnot x hx; omega)]
          exact hx0
        obtain ⟨i1, i2⟩ := ih { s with gauges := s.gauges.set (g.id - 1) g' } t2 s' tr' hid' hnd' hcoh' h
        refine ⟨?_, ?_⟩
        · intro id hnot
          simp only [List.map_cons, List.mem_cons, not_or] at hnot
          rw [i1 id hnot.2]
          exact getG_set_ne _ _ _ _ (by have := hnot.1; omega)
        · intro x hx
          rcases List.mem_cons.1 hx with h1 | h1
          · rw [h1]
            refine ⟨g', ?_, ?_⟩
            · rw [i1 g.id hn1]
              exact getG_set_self s.gauges g.id g' (by omega) hk
            · intro i
              rw [← hg', ← etot i]
              simp only [amt_add]
          · obtain ⟨x', a1, a2⟩ := i2 x h1
            refine ⟨x', a1, ?_⟩
            intro i
            rw [a2 i, (dueG_congr (s := s) (s' := { s with gauges := s.gauges.set (g.id - 1) g' }) rfl rfl x 0 i).2]

/-- **every call of x/incentives `Keeper.Distribute`**: every gauge handed in (a copy of a stored gauge) ends up
    stored with distributed coins grown by exactly what it owed -/
theorem incDistribute_gauges_exact (s : State) (gs : List Gauge) (ee : Bool) (s' : State) (hid : IdsOK s.gauges)
    (hnd : (gs.map (·.id)).Nodup) (hcoh : ∀ g ∈ gs, Coh s.gauges g) (h : incDistribute s gs ee = .ok s') :
    ∀ g ∈ gs, ∃ g', getG s'.gauges g.id = some g' ∧ ∀ i, amt g'.distributed i = amt g.distributed i + dueTotal s g i := by
  unfold incDistribute at h
  cases hl : incLoop ee gs s [] with
  | error e => simp [hl] at h
  | ok p =>
    obtain ⟨s1, tr⟩ := p
    simp only [hl] at h
    cases hp : payAll tr s1.bank with
    | none => simp [hp] at h
    | some b =>
      simp only [hp, Except.ok.injEq] at h
      subst h
      exact (incLoop_gauges_exact ee gs s [] s1 tr hid hnd hcoh hl).2

/-- the gauges one pass of x/streamer `Keeper.Distribute` funds and hands to x/incentives `Keeper.Distribute`
    (the gauge cache after the pointer loop), executable: the driver prints `dueG` / `dueTotal` over them -/
def strGauges (s : State) (es : List Nat) (streams : List Stream) (maxOps : Nat) : List Gauge :=
  (ptrLoop s maxOps (sortByDuration es) 0 ⟨sortById streams, [], []⟩ s.ptrs).2.1.gauges

theorem strDistribute_pays_explicit (s : State) (es : List Nat) (streams : List Stream) (maxOps : Nat) (ee : Bool) (s' : State)
    (hg : GInv s) (h : strDistribute s es streams maxOps ee = .ok s') :
    ((strGauges s es streams maxOps).map (·.id)).Nodup ∧ (∀ g ∈ strGauges s es streams maxOps, Coh s.gauges g) ∧
      (∀ a, a ≠ streamerAddr → a ≠ incAddr → ∀ i,
        amt (s'.bank.get a) i = amt (s.bank.get a) i + ((strGauges s es streams maxOps).map (dueG s · a i)).sum) ∧
      (∀ g ∈ strGauges s es streams maxOps, ∃ g', getG s'.gauges g.id = some g' ∧ ∀ i, amt g'.distributed i = amt g.distributed i + dueTotal s g i) := by
  unfold strDistribute at h
  unfold strGauges
  have hci := ptrLoop_CI s hg.ids maxOps (sortByDuration es) 0 ⟨sortById streams, [], []⟩ s.ptrs
    ⟨by simp, by simp, by intro i; simp [extras]⟩
  generalize ptrLoop s maxOps (sortByDuration es) 0 ⟨sortById streams, [], []⟩ s.ptrs = res at h hci ⊢
  obtain ⟨tot, c, ps⟩ := res
  dsimp only at h hci ⊢
  obtain ⟨ci1, ci2, _⟩ := hci
  have hne : streamerAddr ≠ incAddr := by decide
  refine ⟨ci1, ci2, ?_⟩
  have key : ∀ b : Bank, (∀ a, a ≠ streamerAddr → a ≠ incAddr → ∀ i, amt (b.get a) i = amt (s.bank.get a) i) →
      ∀ s2, incDistribute { s with ptrs := ps, bank := b } c.gauges ee = .ok s2 → saveStreams ee c.streams s2 = .ok s' →
      (∀ a, a ≠ streamerAddr → a ≠ incAddr → ∀ i,
        amt (s'.bank.get a) i = amt (s.bank.get a) i + (c.gauges.map (dueG s · a i)).sum) ∧
      (∀ g ∈ c.gauges, ∃ g', getG s'.gauges g.id = some g' ∧ ∀ i, amt g'.distributed i = amt g.distributed i + dueTotal s g i) := by
    intro b hb2 s2 hinc hsave
    have hsame := saveStreams_same ee _ _ _ hsave
    refine ⟨?_, ?_⟩
    · intro a ha hb i
      have e := incDistribute_exact _ _ _ _ hinc a hb i
      rw [hsame.2.1, e]
      simp only
      rw [hb2 a ha hb i]
      have : c.gauges.map (dueG { s with ptrs := ps, bank := b } · a i) = c.gauges.map (dueG s · a i) :=
        List.map_congr_left (fun x _ => (dueG_congr (s := s) (s' := { s with ptrs := ps, bank := b }) rfl rfl x a i).1)
      rw [this]
    · intro g hgm
      obtain ⟨g', a1, a2⟩ := incDistribute_gauges_exact { s with ptrs := ps, bank := b } c.gauges ee s2 hg.ids ci1 ci2 hinc g hgm
      refine ⟨g', by rw [hsame.1]; exact a1, ?_⟩
      intro i
      rw [a2 i, (dueG_congr (s := s) (s' := { s with ptrs := ps, bank := b }) rfl rfl g 0 i).2]
  by_cases hz : c.distributed.isZero = true
  · simp only [hz, if_true] at h
    cases hinc : incDistribute { s with ptrs := ps, bank := s.bank } c.gauges ee with
    | error e => simp [hinc] at h
    | ok s2 =>
      simp only [hinc] at h
      exact key s.bank (by intro a _ _ i; rfl) s2 hinc h
  · rw [if_neg hz] at h
    cases hsend : s.bank.send streamerAddr incAddr c.distributed with
    | none => simp [hsend] at h
    | some b =>
      simp only [hsend] at h
      obtain ⟨_, sb⟩ := Bank.send_some hsend hne
      cases hinc : incDistribute { s with ptrs := ps, bank := b } c.gauges ee with
      | error e => simp [hinc] at h
      | ok s2 =>
        simp only [hinc] at h
        refine key b ?_ s2 hinc h
        intro a ha hb i
        have := sb a i
        rw [if_neg ha, if_neg hb] at this
        exact this

/-- **x/streamer `Keeper.Distribute` (EndBlock and epoch end), state level**: there is a list of gauges — the
    gauges the pass funded, each a copy of a stored gauge (same kind, same distributed coins, coins topped up),
    ids distinct — such that every account other than the two module accounts is credited exactly what those
    gauges owe it -/
theorem strDistribute_pays_exactly (s : State) (es : List Nat) (streams : List Stream) (maxOps : Nat) (ee : Bool) (s' : State)
    (hg : GInv s) (h : strDistribute s es streams maxOps ee = .ok s') :
    ∃ gs : List Gauge, (gs.map (·.id)).Nodup ∧ (∀ g ∈ gs, Coh s.gauges g) ∧
      (∀ a, a ≠ streamerAddr → a ≠ incAddr → ∀ i,
        amt (s'.bank.get a) i = amt (s.bank.get a) i + (gs.map (dueG s · a i)).sum) ∧
      (∀ g ∈ gs, ∃ g', getG s'.gauges g.id = some g' ∧ ∀ i, amt g'.distributed i = amt g.distributed i + dueTotal s g i) :=
  ⟨_, strDistribute_pays_explicit s es streams maxOps ee s' hg h⟩

/-- for an asset gauge `dueG` is the sum of `lockReward` over the account's locks that qualify for the gauge -/
theorem dueG_asset (s : State) (g : Gauge) (d dur : Nat) (hk : g.kind = .asset d dur) (hc : g.coins.isZero = false)
    (hL : lockSum (s.locks.filter (qualifies d dur)) ≠ 0) (hre : remainEpochs g ≠ 0) (a i : Nat) :
    dueG s g a i =
      (((s.locks.filter (qualifies d dur)).filter (·.owner == a)).map (fun l =>
        amt (lockReward (Coins.sub g.coins g.distributed) l.amount (lockSum (s.locks.filter (qualifies d dur))) (remainEpochs g)) i)).sum := by
  have hl : gaugeLocks s g = s.locks.filter (qualifies d dur) := by
    unfold gaugeLocks; rw [hk]; simp [hc]
  unfold dueG
  rw [hk]
  simp only
  rw [hl, if_neg (by intro hx; rcases hx with hx | hx; exact hL hx; exact hre hx)]
  rfl

end DymVerif.Incent
