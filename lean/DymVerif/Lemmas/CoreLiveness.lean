/-
  Lemmas/CoreLiveness — arithmetic of `NextSlashHeight`.
-/
import DymVerif.Model.Core
namespace DymVerif.Core

theorem nextSlashHeight_grid (N I hub last : Nat) :
    ∃ k, nextSlashHeight N I hub last = last + N + k * I := by
  unfold nextSlashHeight
  dsimp only
  split
  · exact ⟨(hub - last - N) / I + 1, by omega⟩
  · exact ⟨0, by omega⟩

theorem nextSlashHeight_future (N I hub last : Nat) (hI : 1 ≤ I) (hl : last ≤ hub) :
    hub < nextSlashHeight N I hub last := by
  unfold nextSlashHeight
  dsimp only
  split
  · rename_i hN
    have h1 := Nat.div_add_mod (hub - last - N) I
    have h2 := Nat.mod_lt (hub - last - N) (by omega : 0 < I)
    have h3 : ((hub - last - N) / I + 1) * I = I * ((hub - last - N) / I) + I := by
      rw [Nat.add_mul, Nat.one_mul, Nat.mul_comm]
    omega
  · omega

theorem nextSlashHeight_least (N I hub last k : Nat) (hI : 1 ≤ I) (hl : last ≤ hub)
    (hk : hub < last + N + k * I) : nextSlashHeight N I hub last ≤ last + N + k * I := by
  unfold nextSlashHeight
  dsimp only
  split
  · rename_i hN
    -- d = hub - last - N < k * I  ⇒  d / I < k  ⇒  (d / I + 1) * I ≤ k * I
    have hd : hub - last - N < k * I := by omega
    have hq : (hub - last - N) / I < k := (Nat.div_lt_iff_lt_mul (by omega)).2 hd
    have : ((hub - last - N) / I + 1) * I ≤ k * I := Nat.mul_le_mul_right I hq
    omega
  · omega

/-- when the rollapp is still inside its first window the event is exactly at `last + N` -/
theorem nextSlashHeight_first (N I hub last : Nat) (h : hub < last + N) (hl : last ≤ hub) :
    nextSlashHeight N I hub last = last + N := by
  unfold nextSlashHeight
  dsimp only
  rw [if_neg (by omega)]

/-- at an event height `last + N + j*I` the next event is exactly one interval later -/
theorem nextSlashHeight_step (N I last j : Nat) (hI : 1 ≤ I) :
    nextSlashHeight N I (last + N + j * I) last = last + N + (j + 1) * I := by
  unfold nextSlashHeight
  dsimp only
  rw [if_pos (by omega)]
  have : last + N + j * I - last - N = j * I := by omega
  rw [this, Nat.mul_div_cancel _ (by omega : 0 < I)]
  omega

end DymVerif.Core
