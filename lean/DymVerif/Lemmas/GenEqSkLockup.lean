/-
  Lemmas/GenEqSkLockup — tie 1 for C14 (M-Lockup, Model/Lockup.lean): the normalised statement listing (translate/skel.go `listing`:
  every `if` / `for` / `switch` header, call, assignment and `return` in source order; comments, logging,
  events and error-message texts dropped) of EVERY function with a body in the files the property is
  anchored in, regenerated from /repo's working tree on every run (Gen/SkLockup.lean), equals the listing
  the model was written and validated against.  A dropped or weakened guard, a reordered effect, a
  changed operand, a new early return, a new or vanished function breaks the corresponding lemma; the
  check then searches for a failing input with the harness' monitors (DESIGN.md §12.2).
-/
import DymVerif.Gen.SkLockup
namespace DymVerif.GenEqSk.Lockup

/-- `AccumulationStoreInvariant` -/
theorem k_AccumulationStoreInvariant_listing : Gen.SkLockup.k_AccumulationStoreInvariant =
  ["func AccumulationStoreInvariant(keeper Keeper) sdk.Invariant",
   "  return func#1",
   "    func#1 (ctx sdk.Context) (string, bool)",
   "      moduleAcc := keeper.ak.GetModuleAccount(ctx, types.ModuleName)",
   "      balances := keeper.bk.GetAllBalances(ctx, moduleAcc.GetAddress())",
   "      durations := []time.Duration{time.Second, time.Hour * 24, time.Hour * 24 * 7, time.Hour * 24 * 14}",
   "      for _, coin := range balances",
   "        denom := coin.Denom",
   "        for _, duration := range durations",
   "          accumulation := keeper.GetPeriodLocksAccumulation(ctx, types.QueryCondition{LockQueryType: types.ByDuration, Denom: denom, Duration: duration})",
   "          locks := keeper.GetLocksLongerThanDurationDenom(ctx, denom, duration)",
   "          lockupSum := math.ZeroInt()",
   "          for _, lock := range locks",
   "            lockupSum = lockupSum.Add(lock.Coins.AmountOf(denom))",
   "          if !accumulation.Equal(lockupSum)",
   "            return sdk.FormatInvariant(types.ModuleName, \"accumulation-store-invariant\", fmt.Sprintf(\"\\taccumulation store value does not fit actual lockup sum: %s != %s\\n\", accumulation.String(), lockupSum.String())), true",
   "      return sdk.FormatInvariant(types.ModuleName, \"accumulation-store-invariant\", \"All lockup accumulation invariant passed\"), false"] := rfl

/-- `AllInvariants` -/
theorem k_AllInvariants_listing : Gen.SkLockup.k_AllInvariants =
  ["func AllInvariants(k Keeper) sdk.Invariant",
   "  return func#1",
   "    func#1 (ctx sdk.Context) (string, bool)",
   "      for _, inv := range []sdk.Invariant{AccumulationStoreInvariant(k), LocksBalancesInvariant(k)}",
   "        res, stop := inv(ctx)",
   "        if stop",
   "          return res, stop",
   "      return \"\", false"] := rfl

/-- `Keeper.AddToExistingLock` -/
theorem k_Keeper_AddToExistingLock_listing : Gen.SkLockup.k_Keeper_AddToExistingLock =
  ["func (k Keeper) AddToExistingLock(ctx sdk.Context, owner sdk.AccAddress, coin sdk.Coin, duration time.Duration) (uint64, error)",
   "  locks := k.GetAccountLockedDurationNotUnlockingOnly(ctx, owner, coin.Denom, duration)",
   "  if len(locks) < 1",
   "    return 0, types.ErrLockupNotFound",
   "  lock := locks[0]",
   "  _, err := k.AddTokensToLockByID(ctx, lock.ID, owner, coin)",
   "  if err != nil",
   "    return 0, sdkerrors.ErrInvalidRequest",
   "  return lock.ID, nil"] := rfl

/-- `Keeper.AddTokensToLockByID` -/
theorem k_Keeper_AddTokensToLockByID_listing : Gen.SkLockup.k_Keeper_AddTokensToLockByID =
  ["func (k Keeper) AddTokensToLockByID(ctx sdk.Context, lockID uint64, owner sdk.AccAddress, tokensToAdd sdk.Coin) (*types.PeriodLock, error)",
   "  lock, err := k.GetLockByID(ctx, lockID)",
   "  if err != nil",
   "    return nil, err",
   "  if lock.GetOwner() != owner.String()",
   "    return nil, types.ErrNotLockOwner",
   "  lock.Coins = lock.Coins.Add(tokensToAdd)",
   "  err = k.lock(ctx, *lock, sdk.NewCoins(tokensToAdd))",
   "  if err != nil",
   "    return nil, err",
   "  if k.hooks == nil",
   "    return lock, nil",
   "  k.hooks.AfterAddTokensToLock(ctx, lock.OwnerAddress(), lock.GetID(), sdk.NewCoins(tokensToAdd))",
   "  return lock, nil"] := rfl

/-- `Keeper.BeginForceUnlockWithEndTime` -/
theorem k_Keeper_BeginForceUnlockWithEndTime_listing : Gen.SkLockup.k_Keeper_BeginForceUnlockWithEndTime =
  ["func (k Keeper) BeginForceUnlockWithEndTime(ctx sdk.Context, lockID uint64, endTime time.Time) error",
   "  lock, err := k.GetLockByID(ctx, lockID)",
   "  if err != nil",
   "    return err",
   "  return k.beginForceUnlockWithEndTime(ctx, *lock, endTime)"] := rfl

/-- `Keeper.BeginUnlock` -/
theorem k_Keeper_BeginUnlock_listing : Gen.SkLockup.k_Keeper_BeginUnlock =
  ["func (k Keeper) BeginUnlock(ctx sdk.Context, lockID uint64, coins sdk.Coins) (uint64, error)",
   "  lock, err := k.GetLockByID(ctx, lockID)",
   "  if err != nil",
   "    return 0, err",
   "  unlockingLock, err := k.beginUnlock(ctx, *lock, coins)",
   "  return unlockingLock, err"] := rfl

/-- `Keeper.BeginUnlockAllNotUnlockings` -/
theorem k_Keeper_BeginUnlockAllNotUnlockings_listing : Gen.SkLockup.k_Keeper_BeginUnlockAllNotUnlockings =
  ["func (k Keeper) BeginUnlockAllNotUnlockings(ctx sdk.Context, account sdk.AccAddress) ([]types.PeriodLock, error)",
   "  locks, err := k.beginUnlockFromIterator(ctx, k.AccountLockIterator(ctx, false, account))",
   "  return locks, err"] := rfl

/-- `Keeper.ChargeLockFee` -/
theorem k_Keeper_ChargeLockFee_listing : Gen.SkLockup.k_Keeper_ChargeLockFee =
  ["func (k Keeper) ChargeLockFee(ctx sdk.Context, payer sdk.AccAddress, fee math.Int, lockCoins sdk.Coins) (err error)",
   "  var feeDenom string",
   "  if k.tk == nil",
   "    feeDenom, err = sdk.GetBaseDenom()",
   "  else",
   "    feeDenom, err = k.tk.GetBaseDenom(ctx)",
   "  if err != nil",
   "    return err",
   "  totalCost := lockCoins.AmountOf(feeDenom).Add(fee)",
   "  accountBalance := k.bk.GetBalance(ctx, payer, feeDenom).Amount",
   "  if accountBalance.LT(totalCost)",
   "    return sdkerrors.ErrInsufficientFunds",
   "  return k.tk.ChargeFeesFromPayer(ctx, payer, sdk.NewCoin(feeDenom, fee), nil)"] := rfl

/-- `Keeper.ClearAccumulationStores` -/
theorem k_Keeper_ClearAccumulationStores_listing : Gen.SkLockup.k_Keeper_ClearAccumulationStores =
  ["func (k Keeper) ClearAccumulationStores(ctx sdk.Context)",
   "  k.clearKeysByPrefix(ctx, types.KeyPrefixLockAccumulation)"] := rfl

/-- `Keeper.CreateLock` -/
theorem k_Keeper_CreateLock_listing : Gen.SkLockup.k_Keeper_CreateLock =
  ["func (k Keeper) CreateLock(ctx sdk.Context, owner sdk.AccAddress, coins sdk.Coins, duration time.Duration) (types.PeriodLock, error)",
   "  ID := k.GetLastLockID(ctx) + 1",
   "  lock := types.NewPeriodLock(ID, owner, duration, time.Time{}, coins)",
   "  err := k.lock(ctx, lock, lock.Coins)",
   "  if err != nil",
   "    return lock, err",
   "  err = k.addLockRefs(ctx, lock)",
   "  if err != nil",
   "    return lock, err",
   "  k.SetLastLockID(ctx, lock.ID)",
   "  return lock, nil"] := rfl

/-- `Keeper.ExtendLockup` -/
theorem k_Keeper_ExtendLockup_listing : Gen.SkLockup.k_Keeper_ExtendLockup =
  ["func (k Keeper) ExtendLockup(ctx sdk.Context, lockID uint64, owner sdk.AccAddress, newDuration time.Duration) error",
   "  lock, err := k.GetLockByID(ctx, lockID)",
   "  if err != nil",
   "    return err",
   "  if lock.GetOwner() != owner.String()",
   "    return types.ErrNotLockOwner",
   "  if lock.IsUnlocking()",
   "    return fmt.Errorf(lock.ID)",
   "  err = k.deleteLockRefs(ctx, unlockingPrefix(lock.IsUnlocking()), *lock)",
   "  if err != nil",
   "    return err",
   "  oldDuration := lock.GetDuration()",
   "  if newDuration != 0",
   "    if newDuration <= oldDuration",
   "      return fmt.Errorf()",
   "    for _, coin := range lock.Coins",
   "      k.accumulationStore(ctx, coin.Denom).Decrease(accumulationKey(lock.Duration), coin.Amount)",
   "      k.accumulationStore(ctx, coin.Denom).Increase(accumulationKey(newDuration), coin.Amount)",
   "    lock.Duration = newDuration",
   "  err = k.addLockRefs(ctx, *lock)",
   "  if err != nil",
   "    return err",
   "  err = k.setLock(ctx, *lock)",
   "  if err != nil",
   "    return err",
   "  k.hooks.OnLockupExtend(ctx, lock.GetID(), oldDuration, lock.GetDuration())",
   "  return nil"] := rfl

/-- `Keeper.ForceUnlock` -/
theorem k_Keeper_ForceUnlock_listing : Gen.SkLockup.k_Keeper_ForceUnlock =
  ["func (k Keeper) ForceUnlock(ctx sdk.Context, lock types.PeriodLock) error",
   "  if !lock.IsUnlocking()",
   "    _, err := k.BeginUnlock(ctx, lock.ID, nil)",
   "    if err != nil",
   "      return err",
   "  lockPtr, err := k.GetLockByID(ctx, lock.ID)",
   "  if err != nil",
   "    return err",
   "  return k.unlockMaturedLockInternalLogic(ctx, *lockPtr)"] := rfl

/-- `Keeper.GetAccountLockedCoins` -/
theorem k_Keeper_GetAccountLockedCoins_listing : Gen.SkLockup.k_Keeper_GetAccountLockedCoins =
  ["func (k Keeper) GetAccountLockedCoins(ctx sdk.Context, addr sdk.AccAddress) sdk.Coins",
   "  notUnlockingCoins := k.getCoinsFromIterator(ctx, k.AccountLockIterator(ctx, false, addr))",
   "  unlockingCoins := k.getCoinsFromIterator(ctx, k.AccountLockIteratorAfterTime(ctx, addr, ctx.BlockTime()))",
   "  return notUnlockingCoins.Add(unlockingCoins...)"] := rfl

/-- `Keeper.GetAccountLockedDuration` -/
theorem k_Keeper_GetAccountLockedDuration_listing : Gen.SkLockup.k_Keeper_GetAccountLockedDuration =
  ["func (k Keeper) GetAccountLockedDuration(ctx sdk.Context, addr sdk.AccAddress, duration time.Duration) []types.PeriodLock",
   "  unlockedLocks := k.getLocksFromIterator(ctx, k.AccountLockIteratorDuration(ctx, true, addr, duration))",
   "  lockedLocks := k.getLocksFromIterator(ctx, k.AccountLockIteratorDuration(ctx, false, addr, duration))",
   "  return combineLocks(unlockedLocks, lockedLocks)"] := rfl

/-- `Keeper.GetAccountLockedDurationNotUnlockingOnly` -/
theorem k_Keeper_GetAccountLockedDurationNotUnlockingOnly_listing : Gen.SkLockup.k_Keeper_GetAccountLockedDurationNotUnlockingOnly =
  ["func (k Keeper) GetAccountLockedDurationNotUnlockingOnly(ctx sdk.Context, addr sdk.AccAddress, denom string, duration time.Duration) []types.PeriodLock",
   "  return k.getLocksFromIterator(ctx, k.AccountLockIteratorDurationDenom(ctx, false, addr, denom, duration))"] := rfl

/-- `Keeper.GetAccountLockedLongerDuration` -/
theorem k_Keeper_GetAccountLockedLongerDuration_listing : Gen.SkLockup.k_Keeper_GetAccountLockedLongerDuration =
  ["func (k Keeper) GetAccountLockedLongerDuration(ctx sdk.Context, addr sdk.AccAddress, duration time.Duration) []types.PeriodLock",
   "  unlockings := k.getLocksFromIterator(ctx, k.AccountLockIteratorLongerDuration(ctx, true, addr, duration))",
   "  notUnlockings := k.getLocksFromIterator(ctx, k.AccountLockIteratorLongerDuration(ctx, false, addr, duration))",
   "  return combineLocks(notUnlockings, unlockings)"] := rfl

/-- `Keeper.GetAccountLockedLongerDurationDenom` -/
theorem k_Keeper_GetAccountLockedLongerDurationDenom_listing : Gen.SkLockup.k_Keeper_GetAccountLockedLongerDurationDenom =
  ["func (k Keeper) GetAccountLockedLongerDurationDenom(ctx sdk.Context, addr sdk.AccAddress, denom string, duration time.Duration) []types.PeriodLock",
   "  unlockings := k.getLocksFromIterator(ctx, k.AccountLockIteratorLongerDurationDenom(ctx, true, addr, denom, duration))",
   "  notUnlockings := k.getLocksFromIterator(ctx, k.AccountLockIteratorLongerDurationDenom(ctx, false, addr, denom, duration))",
   "  return combineLocks(notUnlockings, unlockings)"] := rfl

/-- `Keeper.GetAccountLockedLongerDurationDenomNotUnlockingOnly` -/
theorem k_Keeper_GetAccountLockedLongerDurationDenomNotUnlockingOnly_listing : Gen.SkLockup.k_Keeper_GetAccountLockedLongerDurationDenomNotUnlockingOnly =
  ["func (k Keeper) GetAccountLockedLongerDurationDenomNotUnlockingOnly(ctx sdk.Context, addr sdk.AccAddress, denom string, duration time.Duration) []types.PeriodLock",
   "  return k.getLocksFromIterator(ctx, k.AccountLockIteratorLongerDurationDenom(ctx, false, addr, denom, duration))"] := rfl

/-- `Keeper.GetAccountLockedLongerDurationNotUnlockingOnly` -/
theorem k_Keeper_GetAccountLockedLongerDurationNotUnlockingOnly_listing : Gen.SkLockup.k_Keeper_GetAccountLockedLongerDurationNotUnlockingOnly =
  ["func (k Keeper) GetAccountLockedLongerDurationNotUnlockingOnly(ctx sdk.Context, addr sdk.AccAddress, duration time.Duration) []types.PeriodLock",
   "  return k.getLocksFromIterator(ctx, k.AccountLockIteratorLongerDuration(ctx, false, addr, duration))"] := rfl

/-- `Keeper.GetAccountLockedPastTime` -/
theorem k_Keeper_GetAccountLockedPastTime_listing : Gen.SkLockup.k_Keeper_GetAccountLockedPastTime =
  ["func (k Keeper) GetAccountLockedPastTime(ctx sdk.Context, addr sdk.AccAddress, timestamp time.Time) []types.PeriodLock",
   "  unlockings := k.getLocksFromIterator(ctx, k.AccountLockIteratorAfterTime(ctx, addr, timestamp))",
   "  duration := time.Duration(0)",
   "  if timestamp.After(ctx.BlockTime())",
   "    duration = timestamp.Sub(ctx.BlockTime())",
   "  notUnlockings := k.getLocksFromIterator(ctx, k.AccountLockIteratorLongerDuration(ctx, false, addr, duration))",
   "  return combineLocks(notUnlockings, unlockings)"] := rfl

/-- `Keeper.GetAccountLockedPastTimeDenom` -/
theorem k_Keeper_GetAccountLockedPastTimeDenom_listing : Gen.SkLockup.k_Keeper_GetAccountLockedPastTimeDenom =
  ["func (k Keeper) GetAccountLockedPastTimeDenom(ctx sdk.Context, addr sdk.AccAddress, denom string, timestamp time.Time) []types.PeriodLock",
   "  unlockings := k.getLocksFromIterator(ctx, k.AccountLockIteratorAfterTimeDenom(ctx, addr, denom, timestamp))",
   "  duration := time.Duration(0)",
   "  if timestamp.After(ctx.BlockTime())",
   "    duration = timestamp.Sub(ctx.BlockTime())",
   "  notUnlockings := k.getLocksFromIterator(ctx, k.AccountLockIteratorLongerDurationDenom(ctx, false, addr, denom, duration))",
   "  return combineLocks(notUnlockings, unlockings)"] := rfl

/-- `Keeper.GetAccountLockedPastTimeNotUnlockingOnly` -/
theorem k_Keeper_GetAccountLockedPastTimeNotUnlockingOnly_listing : Gen.SkLockup.k_Keeper_GetAccountLockedPastTimeNotUnlockingOnly =
  ["func (k Keeper) GetAccountLockedPastTimeNotUnlockingOnly(ctx sdk.Context, addr sdk.AccAddress, timestamp time.Time) []types.PeriodLock",
   "  duration := time.Duration(0)",
   "  if timestamp.After(ctx.BlockTime())",
   "    duration = timestamp.Sub(ctx.BlockTime())",
   "  return k.getLocksFromIterator(ctx, k.AccountLockIteratorLongerDuration(ctx, false, addr, duration))"] := rfl

/-- `Keeper.GetAccountPeriodLocks` -/
theorem k_Keeper_GetAccountPeriodLocks_listing : Gen.SkLockup.k_Keeper_GetAccountPeriodLocks =
  ["func (k Keeper) GetAccountPeriodLocks(ctx sdk.Context, addr sdk.AccAddress) []types.PeriodLock",
   "  unlockings := k.getLocksFromIterator(ctx, k.AccountLockIterator(ctx, true, addr))",
   "  notUnlockings := k.getLocksFromIterator(ctx, k.AccountLockIterator(ctx, false, addr))",
   "  return combineLocks(notUnlockings, unlockings)"] := rfl

/-- `Keeper.GetAccountUnlockableCoins` -/
theorem k_Keeper_GetAccountUnlockableCoins_listing : Gen.SkLockup.k_Keeper_GetAccountUnlockableCoins =
  ["func (k Keeper) GetAccountUnlockableCoins(ctx sdk.Context, addr sdk.AccAddress) sdk.Coins",
   "  return k.getCoinsFromIterator(ctx, k.AccountLockIteratorBeforeTime(ctx, addr, ctx.BlockTime()))"] := rfl

/-- `Keeper.GetAccountUnlockedBeforeTime` -/
theorem k_Keeper_GetAccountUnlockedBeforeTime_listing : Gen.SkLockup.k_Keeper_GetAccountUnlockedBeforeTime =
  ["func (k Keeper) GetAccountUnlockedBeforeTime(ctx sdk.Context, addr sdk.AccAddress, timestamp time.Time) []types.PeriodLock",
   "  unlockings := k.getLocksFromIterator(ctx, k.AccountLockIteratorBeforeTime(ctx, addr, timestamp))",
   "  if timestamp.Before(ctx.BlockTime())",
   "    return unlockings",
   "  duration := timestamp.Sub(ctx.BlockTime())",
   "  notUnlockings := k.getLocksFromIterator(ctx, k.AccountLockIteratorShorterThanDuration(ctx, false, addr, duration))",
   "  return combineLocks(notUnlockings, unlockings)"] := rfl

/-- `Keeper.GetAccountUnlockingCoins` -/
theorem k_Keeper_GetAccountUnlockingCoins_listing : Gen.SkLockup.k_Keeper_GetAccountUnlockingCoins =
  ["func (k Keeper) GetAccountUnlockingCoins(ctx sdk.Context, addr sdk.AccAddress) sdk.Coins",
   "  return k.getCoinsFromIterator(ctx, k.AccountLockIteratorAfterTime(ctx, addr, ctx.BlockTime()))"] := rfl

/-- `Keeper.GetLastLockID` -/
theorem k_Keeper_GetLastLockID_listing : Gen.SkLockup.k_Keeper_GetLastLockID =
  ["func (k Keeper) GetLastLockID(ctx sdk.Context) uint64",
   "  store := ctx.KVStore(k.storeKey)",
   "  bz := store.Get(types.KeyLastLockID)",
   "  if bz == nil",
   "    return 0",
   "  return sdk.BigEndianToUint64(bz)"] := rfl

/-- `Keeper.GetLockByID` -/
theorem k_Keeper_GetLockByID_listing : Gen.SkLockup.k_Keeper_GetLockByID =
  ["func (k Keeper) GetLockByID(ctx sdk.Context, lockID uint64) (*types.PeriodLock, error)",
   "  lock := types.PeriodLock{}",
   "  store := ctx.KVStore(k.storeKey)",
   "  lockKey := lockStoreKey(lockID)",
   "  if !store.Has(lockKey)",
   "    return nil, types.ErrLockupNotFound",
   "  bz := store.Get(lockKey)",
   "  err := proto.Unmarshal(bz, &lock)",
   "  return &lock, err"] := rfl

/-- `Keeper.GetLockedDenom` -/
theorem k_Keeper_GetLockedDenom_listing : Gen.SkLockup.k_Keeper_GetLockedDenom =
  ["func (k Keeper) GetLockedDenom(ctx sdk.Context, denom string, duration time.Duration) math.Int",
   "  totalAmtLocked := k.GetPeriodLocksAccumulation(ctx, types.QueryCondition{LockQueryType: types.ByDuration, Denom: denom, Duration: duration})",
   "  return totalAmtLocked"] := rfl

/-- `Keeper.GetLocksDenom` -/
theorem k_Keeper_GetLocksDenom_listing : Gen.SkLockup.k_Keeper_GetLocksDenom =
  ["func (k Keeper) GetLocksDenom(ctx sdk.Context, denom string) []types.PeriodLock",
   "  return k.GetLocksLongerThanDurationDenom(ctx, denom, time.Duration(0))"] := rfl

/-- `Keeper.GetLocksLongerThanDurationDenom` -/
theorem k_Keeper_GetLocksLongerThanDurationDenom_listing : Gen.SkLockup.k_Keeper_GetLocksLongerThanDurationDenom =
  ["func (k Keeper) GetLocksLongerThanDurationDenom(ctx sdk.Context, denom string, duration time.Duration) []types.PeriodLock",
   "  unlockings := k.getLocksFromIterator(ctx, k.LockIteratorLongerThanDurationDenom(ctx, true, denom, duration))",
   "  notUnlockings := k.getLocksFromIterator(ctx, k.LockIteratorLongerThanDurationDenom(ctx, false, denom, duration))",
   "  return combineLocks(notUnlockings, unlockings)"] := rfl

/-- `Keeper.GetLocksPastTimeDenom` -/
theorem k_Keeper_GetLocksPastTimeDenom_listing : Gen.SkLockup.k_Keeper_GetLocksPastTimeDenom =
  ["func (k Keeper) GetLocksPastTimeDenom(ctx sdk.Context, denom string, timestamp time.Time) []types.PeriodLock",
   "  unlockings := k.getLocksFromIterator(ctx, k.LockIteratorAfterTimeDenom(ctx, denom, timestamp))",
   "  duration := time.Duration(0)",
   "  if timestamp.After(ctx.BlockTime())",
   "    duration = timestamp.Sub(ctx.BlockTime())",
   "  notUnlockings := k.getLocksFromIterator(ctx, k.LockIteratorLongerThanDurationDenom(ctx, false, denom, duration))",
   "  return combineLocks(notUnlockings, unlockings)"] := rfl

/-- `Keeper.GetModuleBalance` -/
theorem k_Keeper_GetModuleBalance_listing : Gen.SkLockup.k_Keeper_GetModuleBalance =
  ["func (k Keeper) GetModuleBalance(ctx sdk.Context) sdk.Coins",
   "  acc := k.ak.GetModuleAccount(ctx, types.ModuleName)",
   "  return k.bk.GetAllBalances(ctx, acc.GetAddress())"] := rfl

/-- `Keeper.GetModuleLockedCoins` -/
theorem k_Keeper_GetModuleLockedCoins_listing : Gen.SkLockup.k_Keeper_GetModuleLockedCoins =
  ["func (k Keeper) GetModuleLockedCoins(ctx sdk.Context) sdk.Coins",
   "  notUnlockingCoins := k.getCoinsFromIterator(ctx, k.LockIterator(ctx, false))",
   "  unlockingCoins := k.getCoinsFromIterator(ctx, k.LockIteratorAfterTime(ctx, ctx.BlockTime()))",
   "  return notUnlockingCoins.Add(unlockingCoins...)"] := rfl

/-- `Keeper.GetPeriodLocks` -/
theorem k_Keeper_GetPeriodLocks_listing : Gen.SkLockup.k_Keeper_GetPeriodLocks =
  ["func (k Keeper) GetPeriodLocks(ctx sdk.Context) ([]types.PeriodLock, error)",
   "  unlockings := k.getLocksFromIterator(ctx, k.LockIterator(ctx, true))",
   "  notUnlockings := k.getLocksFromIterator(ctx, k.LockIterator(ctx, false))",
   "  return combineLocks(notUnlockings, unlockings), nil"] := rfl

/-- `Keeper.GetPeriodLocksAccumulation` -/
theorem k_Keeper_GetPeriodLocksAccumulation_listing : Gen.SkLockup.k_Keeper_GetPeriodLocksAccumulation =
  ["func (k Keeper) GetPeriodLocksAccumulation(ctx sdk.Context, query types.QueryCondition) math.Int",
   "  beginKey := accumulationKey(query.Duration)",
   "  return k.accumulationStore(ctx, query.Denom).SubsetAccumulation(beginKey, nil)"] := rfl

/-- `Keeper.HasLock` -/
theorem k_Keeper_HasLock_listing : Gen.SkLockup.k_Keeper_HasLock =
  ["func (k Keeper) HasLock(ctx sdk.Context, owner sdk.AccAddress, denom string, duration time.Duration) bool",
   "  locks := k.GetAccountLockedDurationNotUnlockingOnly(ctx, owner, denom, duration)",
   "  return len(locks) > 0"] := rfl

/-- `Keeper.InitializeAllLocks` -/
theorem k_Keeper_InitializeAllLocks_listing : Gen.SkLockup.k_Keeper_InitializeAllLocks =
  ["func (k Keeper) InitializeAllLocks(ctx sdk.Context, locks []types.PeriodLock) error",
   "  accumulationStoreEntries := make(map[string]map[time.Duration]math.Int)",
   "  denoms := []string{}",
   "  for i, lock := range locks",
   "    if i%25000 == 0",
   "      msg := fmt.Sprintf(\"Reset %d lock refs, cur lock ID %d\", i, lock.ID)",
   "    err := k.setLockAndAddLockRefs(ctx, lock)",
   "    if err != nil",
   "      return err",
   "    for _, coin := range lock.Coins",
   "      var curDurationMap map[time.Duration]math.Int",
   "      durationMap, ok := accumulationStoreEntries[coin.Denom]",
   "      if ok",
   "        curDurationMap = durationMap",
   "        newAmt := coin.Amount",
   "        curAmt, ok := durationMap[lock.Duration]",
   "        if ok",
   "          newAmt = newAmt.Add(curAmt)",
   "        curDurationMap[lock.Duration] = newAmt",
   "      else",
   "        denoms = append(denoms, coin.Denom)",
   "        curDurationMap = map[time.Duration]math.Int{lock.Duration: coin.Amount}",
   "      accumulationStoreEntries[coin.Denom] = curDurationMap",
   "  sort.Strings(denoms)",
   "  for _, denom := range denoms",
   "    curDurationMap := accumulationStoreEntries[denom]",
   "    durations := make([]time.Duration, 0, len(curDurationMap))",
   "    for duration := range curDurationMap",
   "      durations = append(durations, duration)",
   "    sort.Slice(durations, func#1)",
   "      func#1 (i, j int) bool",
   "        return durations[i] < durations[j]",
   "    msg := fmt.Sprintf(\"Setting accumulation entries for locks for %s, there are %d distinct durations\", denom, len(durations))",
   "    for _, d := range durations",
   "      amt := curDurationMap[d]",
   "      k.accumulationStore(ctx, denom).Increase(accumulationKey(d), amt)",
   "  return nil"] := rfl

/-- `Keeper.PartialForceUnlock` -/
theorem k_Keeper_PartialForceUnlock_listing : Gen.SkLockup.k_Keeper_PartialForceUnlock =
  ["func (k Keeper) PartialForceUnlock(ctx sdk.Context, lock types.PeriodLock, coins sdk.Coins) error",
   "  if !coins.IsAllLTE(lock.Coins)",
   "    return fmt.Errorf()",
   "  if len(coins) != 0 && !coins.Equal(lock.Coins)",
   "    splitLock, err := k.splitLock(ctx, lock, coins, true)",
   "    if err != nil",
   "      return err",
   "    lock = splitLock",
   "  return k.ForceUnlock(ctx, lock)"] := rfl

/-- `Keeper.SetLastLockID` -/
theorem k_Keeper_SetLastLockID_listing : Gen.SkLockup.k_Keeper_SetLastLockID =
  ["func (k Keeper) SetLastLockID(ctx sdk.Context, ID uint64)",
   "  store := ctx.KVStore(k.storeKey)",
   "  store.Set(types.KeyLastLockID, sdk.Uint64ToBigEndian(ID))"] := rfl

/-- `Keeper.UnlockMaturedLock` -/
theorem k_Keeper_UnlockMaturedLock_listing : Gen.SkLockup.k_Keeper_UnlockMaturedLock =
  ["func (k Keeper) UnlockMaturedLock(ctx sdk.Context, lockID uint64) error",
   "  lock, err := k.GetLockByID(ctx, lockID)",
   "  if err != nil",
   "    return err",
   "  curTime := ctx.BlockTime()",
   "  if !lock.IsUnlocking()",
   "    return fmt.Errorf()",
   "  if curTime.Before(lock.EndTime)",
   "    return fmt.Errorf(curTime.String(), lock.EndTime.String())",
   "  return k.unlockMaturedLockInternalLogic(ctx, *lock)"] := rfl

/-- `Keeper.WithdrawAllMaturedLocks` -/
theorem k_Keeper_WithdrawAllMaturedLocks_listing : Gen.SkLockup.k_Keeper_WithdrawAllMaturedLocks =
  ["func (k Keeper) WithdrawAllMaturedLocks(ctx sdk.Context)",
   "  k.unlockFromIterator(ctx, k.LockIteratorBeforeTime(ctx, ctx.BlockTime()))"] := rfl

/-- `Keeper.accumulationStore` -/
theorem k_Keeper_accumulationStore_listing : Gen.SkLockup.k_Keeper_accumulationStore =
  ["func (k Keeper) accumulationStore(ctx sdk.Context, denom string) sumtree.Tree",
   "  return sumtree.NewTree(prefix.NewStore(ctx.KVStore(k.storeKey), accumulationStorePrefix(denom)), 10)"] := rfl

/-- `Keeper.addLockRefByKey` -/
theorem k_Keeper_addLockRefByKey_listing : Gen.SkLockup.k_Keeper_addLockRefByKey =
  ["func (k Keeper) addLockRefByKey(ctx sdk.Context, key []byte, lockID uint64) error",
   "  store := ctx.KVStore(k.storeKey)",
   "  lockIDBz := sdk.Uint64ToBigEndian(lockID)",
   "  endKey := combineKeys(key, lockIDBz)",
   "  if store.Has(endKey)",
   "    return fmt.Errorf(lockID)",
   "  store.Set(endKey, lockIDBz)",
   "  return nil"] := rfl

/-- `Keeper.addLockRefs` -/
theorem k_Keeper_addLockRefs_listing : Gen.SkLockup.k_Keeper_addLockRefs =
  ["func (k Keeper) addLockRefs(ctx sdk.Context, lock types.PeriodLock) error",
   "  refKeys, err := durationLockRefKeys(lock)",
   "  if lock.IsUnlocking()",
   "    refKeys, err = lockRefKeys(lock)",
   "  if err != nil",
   "    return err",
   "  lockRefPrefix := unlockingPrefix(lock.IsUnlocking())",
   "  for _, refKey := range refKeys",
   "    err := k.addLockRefByKey(ctx, combineKeys(lockRefPrefix, refKey), lock.ID)",
   "    if err != nil",
   "      return err",
   "  return nil"] := rfl

/-- `Keeper.beginForceUnlockWithEndTime` -/
theorem k_Keeper_beginForceUnlockWithEndTime_listing : Gen.SkLockup.k_Keeper_beginForceUnlockWithEndTime =
  ["func (k Keeper) beginForceUnlockWithEndTime(ctx sdk.Context, lock types.PeriodLock, endTime time.Time) error",
   "  err := k.deleteLockRefs(ctx, types.KeyPrefixNotUnlocking, lock)",
   "  if err != nil",
   "    return err",
   "  lock.EndTime = endTime",
   "  err = k.setLock(ctx, lock)",
   "  if err != nil",
   "    return err",
   "  err = k.addLockRefs(ctx, lock)",
   "  if err != nil",
   "    return err",
   "  if k.hooks != nil",
   "    k.hooks.OnStartUnlock(ctx, lock.OwnerAddress(), lock.ID, lock.Coins, lock.Duration, lock.EndTime)",
   "  return nil"] := rfl

/-- `Keeper.beginUnlock` -/
theorem k_Keeper_beginUnlock_listing : Gen.SkLockup.k_Keeper_beginUnlock =
  ["func (k Keeper) beginUnlock(ctx sdk.Context, lock types.PeriodLock, coins sdk.Coins) (uint64, error)",
   "  if !coins.IsAllLTE(lock.Coins)",
   "    return 0, fmt.Errorf()",
   "  if lock.IsUnlocking()",
   "    return 0, fmt.Errorf()",
   "  if len(coins) != 0 && !coins.Equal(lock.Coins)",
   "    splitLock, err := k.splitLock(ctx, lock, coins, false)",
   "    if err != nil",
   "      return 0, err",
   "    lock = splitLock",
   "  err := k.deleteLockRefs(ctx, types.KeyPrefixNotUnlocking, lock)",
   "  if err != nil",
   "    return 0, err",
   "  lock.EndTime = ctx.BlockTime().Add(lock.Duration)",
   "  err = k.setLock(ctx, lock)",
   "  if err != nil",
   "    return 0, err",
   "  err = k.addLockRefs(ctx, lock)",
   "  if err != nil",
   "    return 0, err",
   "  if k.hooks != nil",
   "    k.hooks.OnStartUnlock(ctx, lock.OwnerAddress(), lock.ID, lock.Coins, lock.Duration, lock.EndTime)",
   "  return lock.ID, nil"] := rfl

/-- `Keeper.clearKeysByPrefix` -/
theorem k_Keeper_clearKeysByPrefix_listing : Gen.SkLockup.k_Keeper_clearKeysByPrefix =
  ["func (k Keeper) clearKeysByPrefix(ctx sdk.Context, prefix []byte)",
   "  store := ctx.KVStore(k.storeKey)",
   "  iterator := storetypes.KVStorePrefixIterator(store, prefix)",
   "  defer iterator.Close()",
   "  for ; iterator.Valid(); iterator.Next()",
   "    store.Delete(iterator.Key())"] := rfl

/-- `Keeper.deleteLock` -/
theorem k_Keeper_deleteLock_listing : Gen.SkLockup.k_Keeper_deleteLock =
  ["func (k Keeper) deleteLock(ctx sdk.Context, id uint64)",
   "  store := ctx.KVStore(k.storeKey)",
   "  store.Delete(lockStoreKey(id))"] := rfl

/-- `Keeper.deleteLockRefByKey` -/
theorem k_Keeper_deleteLockRefByKey_listing : Gen.SkLockup.k_Keeper_deleteLockRefByKey =
  ["func (k Keeper) deleteLockRefByKey(ctx sdk.Context, key []byte, lockID uint64)",
   "  store := ctx.KVStore(k.storeKey)",
   "  lockIDKey := sdk.Uint64ToBigEndian(lockID)",
   "  store.Delete(combineKeys(key, lockIDKey))"] := rfl

/-- `Keeper.deleteLockRefs` -/
theorem k_Keeper_deleteLockRefs_listing : Gen.SkLockup.k_Keeper_deleteLockRefs =
  ["func (k Keeper) deleteLockRefs(ctx sdk.Context, lockRefPrefix []byte, lock types.PeriodLock) error",
   "  refKeys, err := lockRefKeys(lock)",
   "  if err != nil",
   "    return err",
   "  for _, refKey := range refKeys",
   "    k.deleteLockRefByKey(ctx, combineKeys(lockRefPrefix, refKey), lock.ID)",
   "  return nil"] := rfl

/-- `Keeper.getCoinsFromLocks` -/
theorem k_Keeper_getCoinsFromLocks_listing : Gen.SkLockup.k_Keeper_getCoinsFromLocks =
  ["func (k Keeper) getCoinsFromLocks(locks []types.PeriodLock) sdk.Coins",
   "  coins := sdk.Coins{}",
   "  for _, lock := range locks",
   "    coins = coins.Add(lock.Coins...)",
   "  return coins"] := rfl

/-- `Keeper.getLockRefs` -/
theorem k_Keeper_getLockRefs_listing : Gen.SkLockup.k_Keeper_getLockRefs =
  ["func (k Keeper) getLockRefs(ctx sdk.Context, key []byte) []uint64",
   "  store := ctx.KVStore(k.storeKey)",
   "  iterator := storetypes.KVStorePrefixIterator(store, key)",
   "  defer iterator.Close()",
   "  lockIDs := []uint64{}",
   "  for ; iterator.Valid(); iterator.Next()",
   "    lockID := sdk.BigEndianToUint64(iterator.Value())",
   "    lockIDs = append(lockIDs, lockID)",
   "  return lockIDs"] := rfl

/-- `Keeper.lock` -/
theorem k_Keeper_lock_listing : Gen.SkLockup.k_Keeper_lock =
  ["func (k Keeper) lock(ctx sdk.Context, lock types.PeriodLock, tokensToLock sdk.Coins) error",
   "  owner, err := sdk.AccAddressFromBech32(lock.Owner)",
   "  if err != nil",
   "    return err",
   "  err := k.bk.SendCoinsFromAccountToModule(ctx, owner, types.ModuleName, tokensToLock)",
   "  if err != nil",
   "    return err",
   "  err = k.setLock(ctx, lock)",
   "  if err != nil",
   "    return err",
   "  for _, coin := range tokensToLock",
   "    k.accumulationStore(ctx, coin.Denom).Increase(accumulationKey(lock.Duration), coin.Amount)",
   "  k.hooks.OnTokenLocked(ctx, owner, lock.ID, lock.Coins, lock.Duration, lock.EndTime)",
   "  return nil"] := rfl

/-- `Keeper.setLock` -/
theorem k_Keeper_setLock_listing : Gen.SkLockup.k_Keeper_setLock =
  ["func (k Keeper) setLock(ctx sdk.Context, lock types.PeriodLock) error",
   "  store := ctx.KVStore(k.storeKey)",
   "  bz, err := proto.Marshal(&lock)",
   "  if err != nil",
   "    return err",
   "  store.Set(lockStoreKey(lock.ID), bz)",
   "  return nil"] := rfl

/-- `Keeper.setLockAndAddLockRefs` -/
theorem k_Keeper_setLockAndAddLockRefs_listing : Gen.SkLockup.k_Keeper_setLockAndAddLockRefs =
  ["func (k Keeper) setLockAndAddLockRefs(ctx sdk.Context, lock types.PeriodLock) error",
   "  err := k.setLock(ctx, lock)",
   "  if err != nil",
   "    return err",
   "  return k.addLockRefs(ctx, lock)"] := rfl

/-- `Keeper.splitLock` -/
theorem k_Keeper_splitLock_listing : Gen.SkLockup.k_Keeper_splitLock =
  ["func (k Keeper) splitLock(ctx sdk.Context, lock types.PeriodLock, coins sdk.Coins, forceUnlock bool) (types.PeriodLock, error)",
   "  if !forceUnlock && lock.IsUnlocking()",
   "    return types.PeriodLock{}, fmt.Errorf()",
   "  lock.Coins = lock.Coins.Sub(coins...)",
   "  err := k.setLock(ctx, lock)",
   "  if err != nil",
   "    return types.PeriodLock{}, err",
   "  splitLockID := k.GetLastLockID(ctx) + 1",
   "  k.SetLastLockID(ctx, splitLockID)",
   "  splitLock := types.NewPeriodLock(splitLockID, lock.OwnerAddress(), lock.Duration, lock.EndTime, coins)",
   "  err = k.setLock(ctx, splitLock)",
   "  return splitLock, err"] := rfl

/-- `Keeper.unlockMaturedLockInternalLogic` -/
theorem k_Keeper_unlockMaturedLockInternalLogic_listing : Gen.SkLockup.k_Keeper_unlockMaturedLockInternalLogic =
  ["func (k Keeper) unlockMaturedLockInternalLogic(ctx sdk.Context, lock types.PeriodLock) error",
   "  owner, err := sdk.AccAddressFromBech32(lock.Owner)",
   "  if err != nil",
   "    return err",
   "  err := k.bk.SendCoinsFromModuleToAccount(ctx, types.ModuleName, owner, lock.Coins)",
   "  if err != nil",
   "    return err",
   "  k.deleteLock(ctx, lock.ID)",
   "  err = k.deleteLockRefs(ctx, types.KeyPrefixUnlocking, lock)",
   "  if err != nil",
   "    return err",
   "  for _, coin := range lock.Coins",
   "    k.accumulationStore(ctx, coin.Denom).Decrease(accumulationKey(lock.Duration), coin.Amount)",
   "  k.hooks.OnTokenUnlocked(ctx, owner, lock.ID, lock.Coins, lock.Duration, lock.EndTime)",
   "  return nil"] := rfl

/-- `LocksBalancesInvariant` -/
theorem k_LocksBalancesInvariant_listing : Gen.SkLockup.k_LocksBalancesInvariant =
  ["func LocksBalancesInvariant(keeper Keeper) sdk.Invariant",
   "  return func#1",
   "    func#1 (ctx sdk.Context) (string, bool)",
   "      moduleAcc := keeper.ak.GetModuleAccount(ctx, types.ModuleName)",
   "      balances := keeper.bk.GetAllBalances(ctx, moduleAcc.GetAddress())",
   "      for _, coin := range balances",
   "        denom := coin.Denom",
   "        lockedAmount := math.ZeroInt()",
   "        locksByDenom := keeper.GetLocksDenom(ctx, denom)",
   "        for _, lock := range locksByDenom",
   "          lockedAmount = lockedAmount.Add(lock.Coins.AmountOf(denom))",
   "        if !lockedAmount.Equal(coin.Amount)",
   "          return sdk.FormatInvariant(types.ModuleName, \"locks-amount-invariant\", fmt.Sprintf(\"\\tlocks amount of %s does not fit actual module balance: %s != %s\\n\", denom, lockedAmount.String(), coin.Amount.String())), true",
   "      return sdk.FormatInvariant(types.ModuleName, \"locks-amount-invariant\", \"All lockup amount invariant passed\"), false"] := rfl

/-- `NewMsgServerImpl` -/
theorem k_NewMsgServerImpl_listing : Gen.SkLockup.k_NewMsgServerImpl =
  ["func NewMsgServerImpl(keeper *Keeper) types.MsgServer",
   "  return &msgServer{keeper: keeper}"] := rfl

/-- `RegisterInvariants` -/
theorem k_RegisterInvariants_listing : Gen.SkLockup.k_RegisterInvariants =
  ["func RegisterInvariants(ir sdk.InvariantRegistry, keeper Keeper)",
   "  ir.RegisterRoute(types.ModuleName, \"accumulation-store-invariant\", AccumulationStoreInvariant(keeper))",
   "  ir.RegisterRoute(types.ModuleName, \"locks-amount-invariant\", LocksBalancesInvariant(keeper))"] := rfl

/-- `accumulationKey` -/
theorem k_accumulationKey_listing : Gen.SkLockup.k_accumulationKey =
  ["func accumulationKey(duration time.Duration) (res []byte)",
   "  res = make([]byte, 8)",
   "  binary.BigEndian.PutUint64(res[:8], uint64(duration))",
   "  return"] := rfl

/-- `accumulationStorePrefix` -/
theorem k_accumulationStorePrefix_listing : Gen.SkLockup.k_accumulationStorePrefix =
  ["func accumulationStorePrefix(denom string) (res []byte)",
   "  capacity := len(types.KeyPrefixLockAccumulation) + len(denom) + 1",
   "  res = make([]byte, len(types.KeyPrefixLockAccumulation), capacity)",
   "  copy(res, types.KeyPrefixLockAccumulation)",
   "  res = append(res, []byte(denom+\"/\")...)",
   "  return"] := rfl

/-- `createBeginUnlockEvent` -/
theorem k_createBeginUnlockEvent_listing : Gen.SkLockup.k_createBeginUnlockEvent =
  ["func createBeginUnlockEvent(lock *types.PeriodLock) sdk.Event",
   "  return sdk.NewEvent(types.TypeEvtBeginUnlock, sdk.NewAttribute(types.AttributePeriodLockID, osmoutils.Uint64ToString(lock.ID)), sdk.NewAttribute(types.AttributePeriodLockOwner, lock.Owner), sdk.NewAttribute(types.AttributePeriodLockDuration, lock.Duration.String()), sdk.NewAttribute(types.AttributePeriodLockUnlockTime, lock.EndTime.String()))"] := rfl

/-- `lockStoreKey` -/
theorem k_lockStoreKey_listing : Gen.SkLockup.k_lockStoreKey =
  ["func lockStoreKey(ID uint64) []byte",
   "  return combineKeys(types.KeyPrefixPeriodLock, sdk.Uint64ToBigEndian(ID))"] := rfl

/-- `msgServer.BeginUnlocking` -/
theorem k_msgServer_BeginUnlocking_listing : Gen.SkLockup.k_msgServer_BeginUnlocking =
  ["func (server msgServer) BeginUnlocking(goCtx context.Context, msg *types.MsgBeginUnlocking) (*types.MsgBeginUnlockingResponse, error)",
   "  lock, err := server.keeper.GetLockByID(ctx, msg.ID)",
   "  if err != nil",
   "    return nil, sdkerrors.ErrInvalidRequest",
   "  if msg.Owner != lock.Owner",
   "    return nil, types.ErrNotLockOwner",
   "  unlockingLock, err := server.keeper.BeginUnlock(ctx, lock.ID, msg.Coins)",
   "  if err != nil",
   "    return nil, sdkerrors.ErrInvalidRequest",
   "  return &types.MsgBeginUnlockingResponse{Success: true, UnlockingLockID: unlockingLock}, nil"] := rfl

/-- `msgServer.ExtendLockup` -/
theorem k_msgServer_ExtendLockup_listing : Gen.SkLockup.k_msgServer_ExtendLockup =
  ["func (server msgServer) ExtendLockup(goCtx context.Context, msg *types.MsgExtendLockup) (*types.MsgExtendLockupResponse, error)",
   "  owner, err := sdk.AccAddressFromBech32(msg.Owner)",
   "  if err != nil",
   "    return nil, err",
   "  err = server.keeper.ExtendLockup(ctx, msg.ID, owner, msg.Duration)",
   "  if err != nil",
   "    return nil, sdkerrors.ErrInvalidRequest",
   "  lock, err := server.keeper.GetLockByID(ctx, msg.ID)",
   "  if err != nil",
   "    return nil, sdkerrors.ErrInvalidRequest",
   "  return &types.MsgExtendLockupResponse{}, nil"] := rfl

/-- `msgServer.ForceUnlock` -/
theorem k_msgServer_ForceUnlock_listing : Gen.SkLockup.k_msgServer_ForceUnlock =
  ["func (server msgServer) ForceUnlock(goCtx context.Context, msg *types.MsgForceUnlock) (*types.MsgForceUnlockResponse, error)",
   "  lock, err := server.keeper.GetLockByID(ctx, msg.ID)",
   "  if err != nil",
   "    return &types.MsgForceUnlockResponse{Success: false}, sdkerrors.ErrInvalidRequest",
   "  if lock.Owner != msg.Owner",
   "    return &types.MsgForceUnlockResponse{Success: false}, sdkerrors.ErrUnauthorized",
   "  forceUnlockAllowedAddresses := server.keeper.GetParams(ctx).ForceUnlockAllowedAddresses",
   "  found := false",
   "  for _, addr := range forceUnlockAllowedAddresses",
   "    if addr == lock.Owner && addr == msg.Owner",
   "      found = true",
   "      break",
   "  if !found",
   "    return &types.MsgForceUnlockResponse{Success: false}, sdkerrors.ErrUnauthorized",
   "  err = server.keeper.PartialForceUnlock(ctx, *lock, msg.Coins)",
   "  if err != nil",
   "    return &types.MsgForceUnlockResponse{Success: false}, sdkerrors.ErrInvalidRequest",
   "  return &types.MsgForceUnlockResponse{Success: true}, nil"] := rfl

/-- `msgServer.LockTokens` -/
theorem k_msgServer_LockTokens_listing : Gen.SkLockup.k_msgServer_LockTokens =
  ["func (server msgServer) LockTokens(goCtx context.Context, msg *types.MsgLockTokens) (*types.MsgLockTokensResponse, error)",
   "  owner, err := sdk.AccAddressFromBech32(msg.Owner)",
   "  if err != nil",
   "    return nil, err",
   "  minLockDuration := server.keeper.GetParams(ctx).MinLockDuration",
   "  if msg.Duration < minLockDuration",
   "    return nil, sdkerrors.ErrInvalidRequest",
   "  err = server.keeper.ChargeLockFee(ctx, owner, server.keeper.GetLockCreationFee(ctx), msg.Coins)",
   "  if err != nil",
   "    return nil, fmt.Errorf(err)",
   "  lockExists := server.keeper.HasLock(ctx, owner, msg.Coins[0].Denom, msg.Duration)",
   "  if lockExists",
   "    lockID, err := server.keeper.AddToExistingLock(ctx, owner, msg.Coins[0], msg.Duration)",
   "    if err != nil",
   "      return nil, err",
   "    return &types.MsgLockTokensResponse{ID: lockID}, nil",
   "  lock, err := server.keeper.CreateLock(ctx, owner, msg.Coins, msg.Duration)",
   "  if err != nil",
   "    return nil, sdkerrors.ErrInvalidRequest",
   "  return &types.MsgLockTokensResponse{ID: lock.ID}, nil"] := rfl

/-- `NewPeriodLock` -/
theorem t_NewPeriodLock_listing : Gen.SkLockup.t_NewPeriodLock =
  ["func NewPeriodLock(ID uint64, owner sdk.AccAddress, duration time.Duration, endTime time.Time, coins sdk.Coins) PeriodLock",
   "  return PeriodLock{ID: ID, Owner: owner.String(), Duration: duration, EndTime: endTime, Coins: coins}"] := rfl

/-- `PeriodLock.IsUnlocking` -/
theorem t_PeriodLock_IsUnlocking_listing : Gen.SkLockup.t_PeriodLock_IsUnlocking =
  ["func (p PeriodLock) IsUnlocking() bool",
   "  return !p.EndTime.Equal(time.Time{})"] := rfl

/-- `PeriodLock.OwnerAddress` -/
theorem t_PeriodLock_OwnerAddress_listing : Gen.SkLockup.t_PeriodLock_OwnerAddress =
  ["func (p PeriodLock) OwnerAddress() sdk.AccAddress",
   "  addr, err := sdk.AccAddressFromBech32(p.Owner)",
   "  if err != nil",
   "    panic(err)",
   "  return addr"] := rfl

/-- `PeriodLock.SingleCoin` -/
theorem t_PeriodLock_SingleCoin_listing : Gen.SkLockup.t_PeriodLock_SingleCoin =
  ["func (p PeriodLock) SingleCoin() (sdk.Coin, error)",
   "  if len(p.Coins) != 1",
   "    return sdk.Coin{}, fmt.Errorf(p.ID, p.Coins)",
   "  return p.Coins[0], nil"] := rfl

/-- `SumLocksByDenom` -/
theorem t_SumLocksByDenom_listing : Gen.SkLockup.t_SumLocksByDenom =
  ["func SumLocksByDenom(locks []PeriodLock, denom string) math.Int",
   "  sum := math.NewInt(0)",
   "  err := sdk.ValidateDenom(denom)",
   "  if err != nil",
   "    panic()",
   "  for _, lock := range locks",
   "    sum = sum.Add(lock.Coins.AmountOfNoDenomValidation(denom))",
   "  return sum"] := rfl

/-- `EndBlocker` -/
theorem m_EndBlocker_listing : Gen.SkLockup.m_EndBlocker =
  ["func EndBlocker(ctx sdk.Context, k keeper.Keeper) []abci.ValidatorUpdate",
   "  MinBlockHeightToBeginAutoWithdrawing := int64(6)",
   "  if ctx.BlockHeight() < MinBlockHeightToBeginAutoWithdrawing",
   "    return nil",
   "  k.WithdrawAllMaturedLocks(ctx)",
   "  return nil"] := rfl

/-- `every function with a body in the listed files, sorted per package` -/
theorem inventory_listing : Gen.SkLockup.inventory =
  ["k_AccumulationStoreInvariant",
   "k_AllInvariants",
   "k_Keeper_AddToExistingLock",
   "k_Keeper_AddTokensToLockByID",
   "k_Keeper_BeginForceUnlockWithEndTime",
   "k_Keeper_BeginUnlock",
   "k_Keeper_BeginUnlockAllNotUnlockings",
   "k_Keeper_ChargeLockFee",
   "k_Keeper_ClearAccumulationStores",
   "k_Keeper_CreateLock",
   "k_Keeper_ExtendLockup",
   "k_Keeper_ForceUnlock",
   "k_Keeper_GetAccountLockedCoins",
   "k_Keeper_GetAccountLockedDuration",
   "k_Keeper_GetAccountLockedDurationNotUnlockingOnly",
   "k_Keeper_GetAccountLockedLongerDuration",
   "k_Keeper_GetAccountLockedLongerDurationDenom",
   "k_Keeper_GetAccountLockedLongerDurationDenomNotUnlockingOnly",
   "k_Keeper_GetAccountLockedLongerDurationNotUnlockingOnly",
   "k_Keeper_GetAccountLockedPastTime",
   "k_Keeper_GetAccountLockedPastTimeDenom",
   "k_Keeper_GetAccountLockedPastTimeNotUnlockingOnly",
   "k_Keeper_GetAccountPeriodLocks",
   "k_Keeper_GetAccountUnlockableCoins",
   "k_Keeper_GetAccountUnlockedBeforeTime",
   "k_Keeper_GetAccountUnlockingCoins",
   "k_Keeper_GetLastLockID",
   "k_Keeper_GetLockByID",
   "k_Keeper_GetLockedDenom",
   "k_Keeper_GetLocksDenom",
   "k_Keeper_GetLocksLongerThanDurationDenom",
   "k_Keeper_GetLocksPastTimeDenom",
   "k_Keeper_GetModuleBalance",
   "k_Keeper_GetModuleLockedCoins",
   "k_Keeper_GetPeriodLocks",
   "k_Keeper_GetPeriodLocksAccumulation",
   "k_Keeper_HasLock",
   "k_Keeper_InitializeAllLocks",
   "k_Keeper_PartialForceUnlock",
   "k_Keeper_SetLastLockID",
   "k_Keeper_UnlockMaturedLock",
   "k_Keeper_WithdrawAllMaturedLocks",
   "k_Keeper_accumulationStore",
   "k_Keeper_addLockRefByKey",
   "k_Keeper_addLockRefs",
   "k_Keeper_beginForceUnlockWithEndTime",
   "k_Keeper_beginUnlock",
   "k_Keeper_clearKeysByPrefix",
   "k_Keeper_deleteLock",
   "k_Keeper_deleteLockRefByKey",
   "k_Keeper_deleteLockRefs",
   "k_Keeper_getCoinsFromLocks",
   "k_Keeper_getLockRefs",
   "k_Keeper_lock",
   "k_Keeper_setLock",
   "k_Keeper_setLockAndAddLockRefs",
   "k_Keeper_splitLock",
   "k_Keeper_unlockMaturedLockInternalLogic",
   "k_LocksBalancesInvariant",
   "k_NewMsgServerImpl",
   "k_RegisterInvariants",
   "k_accumulationKey",
   "k_accumulationStorePrefix",
   "k_createBeginUnlockEvent",
   "k_lockStoreKey",
   "k_msgServer_BeginUnlocking",
   "k_msgServer_ExtendLockup",
   "k_msgServer_ForceUnlock",
   "k_msgServer_LockTokens",
   "t_NewPeriodLock",
   "t_PeriodLock_IsUnlocking",
   "t_PeriodLock_OwnerAddress",
   "t_PeriodLock_SingleCoin",
   "t_SumLocksByDenom",
   "m_EndBlocker"] := rfl

end DymVerif.GenEqSk.Lockup
