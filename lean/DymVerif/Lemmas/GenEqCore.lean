import DymVerif.Gen.Core
import DymVerif.Model.Core
import DymVerif.Lemmas.GenEqArith
/-
  Lemmas/GenEqCore — tie 1 for M-Core (Model/Core.lean: x/rollapp + x/sequencer; properties C01 C02 C03
  C06 C07 C08 C11 C18).  `Gen/Core.lean` is regenerated from /repo's working tree by translate/core.go
  on every check; this file holds what the model was written against:

  * translations (`…_eq`): the comparisons, guard chains, arithmetic and field updates of the Go code
    that are simple enough to translate (Gen.Core.*) are EQUAL to the expressions the model uses — the
    model function is restated with the translated Go condition in place of its own and proved equal.
    Integers are `Nat` on both sides (the model's `% 2^64` wrap is handled under the explicit
    no-overflow hypothesis that `ValidateBasic` establishes); the zero `time.Time` is `0` and a block
    time `t` is `t + 1` (`encT`); `Sequencer.Status` is the protobuf enum value;
  * operand lists (`…_src_eq`): which Go expression every parameter of a translation stands for;
  * listings (`…_skeleton`): for every Go function the model mirrors step by step, the normalised
    statement listing (signature; every if / else / for / range / switch header, every call with its
    arguments, every assignment, every return with its error sentinel; logging, events, telemetry and
    error message texts removed; indentation = nesting).  A dropped guard, a reordered effect, a new
    early return, a changed operand, a statement moved into a branch: the lemma of that function fails.
-/
namespace DymVerif.GenEq.Core
open DymVerif DymVerif.Core

/-! ### constants -/

theorem defaultDisputePeriodInBlocks_eq : Gen.Core.defaultDisputePeriodInBlocks = 3 := rfl
theorem minDisputePeriodInBlocks_eq : Gen.Core.minDisputePeriodInBlocks = 1 := rfl
theorem defaultLivenessSlashBlocks_eq : Gen.Core.defaultLivenessSlashBlocks = 7200 := rfl
theorem defaultLivenessSlashInterval_eq : Gen.Core.defaultLivenessSlashInterval = 600 := rfl
theorem defaultDishonorStateUpdate_eq : Gen.Core.defaultDishonorStateUpdate = 1 := rfl
theorem defaultDishonorLiveness_eq : Gen.Core.defaultDishonorLiveness = 300 := rfl
theorem defaultDishonorKickThreshold_eq : Gen.Core.defaultDishonorKickThreshold = 900 := rfl
theorem statusUnbonded_eq : Gen.Core.statusUnbonded = 0 := rfl
theorem statusBonded_eq : Gen.Core.statusBonded = 2 := rfl

/-! ### encodings used by the statements below -/

/-- the model's `Seq.bonded` as `Sequencer.Status` -/
def encStatus (b : Bool) : Nat := if b then Gen.Core.statusBonded else Gen.Core.statusUnbonded
/-- the model's `Seq.notice` as `Sequencer.NoticePeriodTime` (zero time = 0, block time t = t + 1) -/
def encNotice : Option Nat → Nat
  | none => 0
  | some t => t + 1
/-- a block time -/
def encT (t : Nat) : Nat := t + 1

/-- error class of the `MsgUpdateState` sentinels (as the correspondence run classifies them) -/
def updErr (s : String) : Err :=
  if s = "ErrInvalidNumBlocks" then .badBlocks
  else if s = "ErrWrongBlockHeight" then .wrongHeight
  else if s = "ErrInvalidBlockSequence" then .badSequence
  else if s = "ErrInvalidStateRoot" then .badRoot
  else if s = "ErrInvalidBlockDescriptorTimestamp" then .noTimestamp
  else .internal

/-- `if decide p then a else b` is `if p then a else b` (same decidability instance) -/
theorem ite_dec {α : Sort _} (p : Prop) [Decidable p] (a b : α) :
    (if decide p = true then a else b) = if p then a else b := by
  by_cases h : p <;> simp [h]

/-! ### x/rollapp/types: state info -/

/-- `StateInfo.GetLatestHeight` = `SInfo.last` -/
theorem getLatestHeight_eq (s : SInfo) : Gen.Core.getLatestHeight s.start s.num = s.last := by
  simp [Gen.Core.getLatestHeight, SInfo.last]

/-- `StateInfo.ContainsHeight` = `SInfo.contains` -/
theorem containsHeight_eq (s : SInfo) (h : Nat) : Gen.Core.containsHeight s.start h s.num = s.contains h := by
  unfold Gen.Core.containsHeight SInfo.contains
  rw [getLatestHeight_eq]

/-- `StateInfo.NextSequencerForHeight`: the creator except at the last height (the shape `LC.nextSeqFor` uses) -/
theorem nextSequencerForHeight_eq (s : SInfo) (h : Nat) :
    Gen.Core.nextSequencerForHeight h s.start s.num (NextP.addr s.creator) s.next
      = if h != s.last then NextP.addr s.creator else s.next := by
  unfold Gen.Core.nextSequencerForHeight
  rw [getLatestHeight_eq]
  by_cases e : h = s.last <;> simp [e]

/-! ### `MsgUpdateState.ValidateBasic` -/

/-- the ordered checks before the loop are the model's, with the model's error classes -/
theorem updValidateBasic_eq (m : UpdMsg) :
    updValidateBasic m =
      match Gen.Core.updateStateValidateBasic false m.num m.start m.bds.length with
      | some e => .error (updErr e)
      | none => validateBDs m.start 0 m.bds := by
  unfold updValidateBasic Gen.Core.updateStateValidateBasic
  by_cases h1 : m.num = 0
  · simp [h1, updErr]
  · by_cases h2 : m.num > 2 ^ 64 - 1 - m.start
    · have h2' : m.num > 18446744073709551615 - m.start := by simpa using h2
      simp [h1, h2, updErr]
    · have h2' : ¬ m.num > 18446744073709551615 - m.start := by simpa using h2
      by_cases h3 : m.bds.length = m.num
      · by_cases h4 : m.start = 0
        · have h5 : ¬ 18446744073709551615 < m.num := by simpa [h4] using h2'
          simp [h1, h3, h4, h5, updErr]
        · simp [h1, h2, h3, h4]
      · simp [h1, h2, h3, updErr]

/-- one iteration of the loop: the Go operands do not wrap (`start + i < 2^64`, which the checks
    before the loop establish for every index below `NumBlocks`) -/
theorem validateBDs_step (start i len : Nat) (b : BD) (bs : List BD)
    (hno : start + i < 2 ^ 64) (hl : len = 32 ↔ b.rootOk = true) :
    validateBDs start i (b :: bs) =
      match Gen.Core.updateStateValidateBD b.height start i len with
      | some e => .error (updErr e)
      | none => validateBDs start (i + 1) bs := by
  unfold Gen.Core.updateStateValidateBD
  rw [validateBDs, Nat.mod_eq_of_lt hno]
  by_cases h1 : b.height = start + i
  · by_cases h2 : b.rootOk = true
    · have : len = 32 := hl.mpr h2
      simp [h1, h2, this]
    · have : ¬ len = 32 := fun e => h2 (hl.mp e)
      simp [h1, h2, this, updErr]
  · simp [h1, updErr]

example : validateBDs 5 0 [⟨5, true, 0, true⟩] = .ok () := by rfl
example : validateBDs 5 0 [⟨6, true, 0, true⟩] = .error .badSequence := by rfl

theorem updateStateValidateBD_header_eq :
    Gen.Core.updateStateValidateBD_header = "for bdIndex := uint64(0); bdIndex < msg.NumBlocks; bdIndex += 1" := rfl

/-- `BlockDescriptor.Validate`: a zero timestamp is the only failure (`BD.hasTs`) -/
theorem blockDescriptorValidate_eq (b : BD) :
    Gen.Core.blockDescriptorValidate (if b.hasTs then 1 else 0) =
      if b.hasTs then none else some "ErrInvalidBlockDescriptorTimestamp" := by
  unfold Gen.Core.blockDescriptorValidate
  cases b.hasTs <;> simp

/-- `MsgMarkObsoleteRollapps.ValidateBasic`: an empty version list is refused (`markObsolete`) -/
theorem markObsoleteValidateBasic_eq (vs : List Nat) :
    (Gen.Core.markObsoleteValidateBasic false vs.length).isSome = vs.isEmpty := by
  unfold Gen.Core.markObsoleteValidateBasic
  cases vs <;> simp

/-! ### `msgServer.UpdateState` -/

/-- revision check of `updateState` -/
theorem updWrongRevision_eq (r : Rollapp) (m : UpdMsg) :
    Gen.Core.updWrongRevision (latestRev r) m.rev = (latestRev r != m.rev) := by
  unfold Gen.Core.updWrongRevision
  by_cases e : latestRev r = m.rev <;> simp [e]

theorem updExpectedStartHeight_eq (l : SInfo) : Gen.Core.updExpectedStartHeight l.start l.num = l.start + l.num := rfl

/-- `updPre` with the translated start-height comparison -/
theorem updPre_eq (r : Rollapp) (m : UpdMsg) :
    updPre r m =
      match r.states.getLast? with
      | some l =>
        if ((l.bds.getLast?.map (·.hasTs)).getD false) && !(m.bds.all (·.hasTs)) then .error .noTimestamp
        else if Gen.Core.updWrongHeight l.start l.num m.start then .error .wrongHeight
        else .ok ()
      | none => if !(m.bds.all (·.hasTs)) then .error .noTimestamp else .ok () := by
  unfold updPre Gen.Core.updWrongHeight
  cases r.states.getLast? with
  | none => rfl
  | some l => simp

/-- the new state index is the successor of the latest one (`r.states.length + 1` in `updateState`) -/
theorem updNewIndex_eq (r : Rollapp) : Gen.Core.updNewIndex r.states.length = r.states.length + 1 := rfl

/-- `AfterUpdateState`: "last block" = the recorded next proposer differs from the creator -/
theorem afterUpdateIsLast_eq (r : Rollapp) (m : UpdMsg) :
    Gen.Core.afterUpdateIsLast (NextP.addr m.sender) (updSucc r m) = (updSucc r m != NextP.addr m.sender) := by
  unfold Gen.Core.afterUpdateIsLast
  by_cases e : updSucc r m = NextP.addr m.sender
  · simp [e]
  · have e' : ¬ NextP.addr m.sender = updSucc r m := fun h => e h.symm
    simp [e, e']

/-- `BeforeUpdateState` guards of `updateState` -/
theorem beforeUpdateNotProposer_eq (r : Rollapp) (m : UpdMsg) :
    Gen.Core.beforeUpdateNotProposer (some m.sender) r.proposer = (r.proposer != some m.sender) := by
  unfold Gen.Core.beforeUpdateNotProposer
  by_cases e : r.proposer = some m.sender
  · simp [e]
  · have e' : ¬ some m.sender = r.proposer := fun h => e h.symm
    simp [e, e']

theorem beforeUpdateBadLast_eq (s : St) (r : Rollapp) (m : UpdMsg) :
    Gen.Core.beforeUpdateBadLast m.last (awaitingLast s r) = (m.last && !awaitingLast s r) := rfl

/-! ### hard fork -/

/-- `ForkAllowed` is the guard of `hardFork` -/
theorem forkAllowed_eq (r : Rollapp) (lastValid : Nat) :
    Gen.Core.forkAllowed r.tph lastValid = (0 < r.tph && r.tph ≤ lastValid) := rfl

/-- `hardFork` restated with the translated guard and revert height (no wrap: `lastValid + 1 < 2^64`) -/
theorem hardFork_eq (s : St) (ra lastValid : Nat) (hno : lastValid + 1 < 2 ^ 64) :
    hardFork s ra lastValid =
      match getRa s ra with
      | none => .error .unknownRollapp
      | some r =>
        if !Gen.Core.forkAllowed r.tph lastValid then .error .forkNotAllowed else
        match revertPlan r (Gen.Core.hardForkRevertHeight lastValid) with
        | .error e => .error e
        | .ok (keep, kst) =>
          let creators := kst.creator :: (r.states.drop keep).map (·.creator)
          let s1 := { s with queue := removeIdxAbove s.queue ra keep, seqH := pruneSeqHeights s.seqH creators kst.last }
          let x := resetClock s1 (forkedRollapp r keep kst)
          .ok (seqOnHardFork (setRa x.1 x.2) ra) := by
  have h0 : ¬ lastValid + 1 = 0 := by omega
  unfold hardFork
  cases getRa s ra with
  | none => rfl
  | some r =>
    simp only [Nat.mod_eq_of_lt hno, if_neg h0]
    rfl

example : (3 : Nat) + 1 < 2 ^ 64 := by decide

/-- the new revision starts right after the kept state (`forkedRollapp`) -/
theorem hardForkNewRevisionHeight_eq (kst : SInfo) : Gen.Core.hardForkNewRevisionHeight kst.last = kst.last + 1 := rfl

/-- a fraud proposal at height `h` forks to `h - 1` (`fraud`) -/
theorem fraudLastValidHeight_eq (h : Nat) : Gen.Core.fraudLastValidHeight h = h - 1 := rfl

/-- `RevertPendingStates` + `UpdateLastStateInfo`: the model's decision with the translated conditions
    (below the start: internal error; at the start: keep the previous state; inside: truncate) -/
theorem revertPlan_eq (r : Rollapp) (newRevH : Nat) :
    revertPlan r newRevH =
      (let found : M Nat :=
        match findByHeight r newRevH with
        | some i =>
          match r.states[i - 1]? with
          | some st => if st.finalized then .error .finalizedHeight else .ok i
          | none => .error .internal
        | none => if r.states.isEmpty then .error .noState else .ok r.states.length
      match found with
      | .error e => .error e
      | .ok i =>
        match r.states[i - 1]? with
        | none => .error .internal
        | some st =>
          bif Gen.Core.ulsiBelowStart newRevH st.start then .error .internal else
          bif Gen.Core.ulsiAtStart st.start newRevH then
            match (if i ≤ 1 then none else r.states[i - 2]?) with
            | none => .error .noState
            | some prev => .ok (i - 1, { prev with next := NextP.empty })
          else bif Gen.Core.ulsiTruncate st.start st.num newRevH then
            .ok (i, { st with num := newRevH - st.start, bds := st.bds.take (newRevH - st.start), next := NextP.empty })
          else .ok (i, { st with next := NextP.empty })) := by
  unfold revertPlan
  simp only [Gen.Core.ulsiBelowStart, Gen.Core.ulsiAtStart, Gen.Core.ulsiTruncate, getLatestHeight_eq, cond_eq_ite, ite_dec, ge_iff_le]
  rfl

/-- the finalization-queue pruning keeps the indices `≤ keep` -/
theorem removeIdxAbove_eq (q : List QEntry) (ra keep : Nat) :
    removeIdxAbove q ra keep =
      (q.map (fun e => if e.ra == ra then { e with idx := e.idx.filter (fun i => Gen.Core.pruneKeepIndex i keep) } else e)).filter
        (fun e => !(e.ra == ra && e.idx.isEmpty)) := rfl

/-- `Rollapp.GetRevisionForHeight`: the newest revision whose start height is `≤ h` -/
theorem revForHeight_eq (r : Rollapp) (h : Nat) :
    revForHeight r h =
      match (r.revs.reverse.find? (fun x => Gen.Core.revisionForHeightCond x.2 h)) with
      | some x => x.1
      | none => 0 := rfl

/-- one step of the binary search of `FindStateInfoByHeight` -/
theorem findByHeightAux_step (states : List SInfo) (h fuel lo hi : Nat) :
    findByHeightAux states h (fuel + 1) lo hi =
      if lo ≤ hi then
        match states[Gen.Core.fsbhMid lo hi - 1]? with
        | none => none
        | some st =>
          bif Gen.Core.containsHeight st.start h st.num then some (Gen.Core.fsbhMid lo hi)
          else bif Gen.Core.fsbhGoLeft h st.start then findByHeightAux states h fuel lo (Gen.Core.fsbhMid lo hi - 1)
          else findByHeightAux states h fuel (Gen.Core.fsbhMid lo hi + 1) hi
      else none := by
  rw [findByHeightAux]
  simp only [Gen.Core.fsbhMid, Gen.Core.fsbhGoLeft, containsHeight_eq, cond_eq_ite, ite_dec]
  rfl

/-- the guards of `FindStateInfoByHeight` -/
theorem findByHeight_eq (r : Rollapp) (h : Nat) :
    findByHeight r h =
      if Gen.Core.fsbhZero h then none else
      match r.states.getLast? with
      | none => none
      | some l => if Gen.Core.fsbhBeyond true h l.last then none
                  else findByHeightAux r.states h (r.states.length + 1) 1 r.states.length := by
  unfold findByHeight
  delta Gen.Core.fsbhZero Gen.Core.fsbhBeyond
  simp only [ite_dec, Bool.not_true, Bool.false_or, gt_iff_lt]
  rfl

/-! ### finalization -/

/-- `FinalizeRollappStates`: nothing before the dispute period has passed; then every queue entry
    created at or before `height - disputePeriod` -/
theorem finalizeRollappStates_eq (s : St) (fails : List (Nat × Nat)) :
    finalizeRollappStates s fails =
      if Gen.Core.finalizeTooEarly s.h s.p.dispute then s else
      finalizeAll s fails (s.queue.filter (fun e => e.ch ≤ Gen.Core.finalizationHeight s.h s.p.dispute)) [] := by
  unfold finalizeRollappStates
  delta Gen.Core.finalizeTooEarly Gen.Core.finalizationHeight
  simp only [ite_dec]

/-! ### liveness -/

/-- `ResetLivenessClock`: the event height is cleared, the countdown restarts at the current height -/
theorem resetClock_eq (s : St) (r : Rollapp) :
    resetClock s r =
      ({ s with lev := delEvent s.lev r.evH r.id },
       { r with evH := Gen.Core.resetClockEventHeight, cdStart := Gen.Core.resetClockCountdownStart s.h }) := rfl

/-- `ScheduleLivenessEvent`: `NextSlashHeight(params.LivenessSlashBlocks, params.LivenessSlashInterval,
    ctx.BlockHeight(), ra.LivenessCountdownStartHeight)` — the argument order is the model's -/
theorem scheduleEvent_eq (s : St) (r : Rollapp) :
    scheduleEvent s r =
      ({ s with lev := insertSorted ltPair (Gen.Core.scheduleNextH s.p.lsBlocks s.p.lsInterval s.h r.cdStart, r.id) s.lev },
       { r with evH := Gen.Core.scheduleNextH s.p.lsBlocks s.p.lsInterval s.h r.cdStart }) := by
  unfold scheduleEvent Gen.Core.scheduleNextH
  rw [GenEq.nextSlashHeight_eq]

/-! ### x/sequencer/types: predicates -/

theorem seqBonded_eq (b : Bool) : Gen.Core.seqBonded (encStatus b) = b := by
  cases b <;> rfl

theorem seqIsPotentialProposer_eq (q : Seq) :
    Gen.Core.seqIsPotentialProposer (encStatus q.bonded) q.optedIn = (q.bonded && q.optedIn) := by
  unfold Gen.Core.seqIsPotentialProposer
  rw [seqBonded_eq]

/-- the sentinel is the model's `none` proposer -/
theorem seqSentinel_eq (p : Option Addr) : Gen.Core.seqSentinel p none = p.isNone := by
  cases p <;> simp [Gen.Core.seqSentinel]

theorem seqNoticeStarted_eq (q : Seq) : Gen.Core.seqNoticeStarted (encNotice q.notice) = q.notice.isSome := by
  cases h : q.notice <;> simp [Gen.Core.seqNoticeStarted, encNotice]

/-- `NoticeElapsed(now)`: started ∧ ¬ now.Before(noticePeriodTime) = the model's `t ≤ now` -/
theorem seqNoticeElapsed_eq (q : Seq) (now : Nat) :
    Gen.Core.seqNoticeElapsed (encNotice q.notice) (encT now) = noticeElapsed q now := by
  unfold Gen.Core.seqNoticeElapsed Gen.Core.seqNoticeStarted noticeElapsed encT
  cases h : q.notice with
  | none => simp [encNotice]
  | some t =>
    by_cases c : t ≤ now
    · have : ¬ now + 1 < t + 1 := by omega
      simp [encNotice, c, this]
    · have : now + 1 < t + 1 := by omega
      simp [encNotice, c, this]

/-- `NoticeInProgress(now)`: started ∧ ¬ elapsed = the model's `now < t` -/
theorem seqNoticeInProgress_eq (q : Seq) (now : Nat) :
    Gen.Core.seqNoticeInProgress (encNotice q.notice) (encT now) = noticeInProgress q now := by
  unfold Gen.Core.seqNoticeInProgress
  rw [seqNoticeElapsed_eq]
  unfold Gen.Core.seqNoticeStarted noticeElapsed noticeInProgress
  cases h : q.notice with
  | none => simp [encNotice]
  | some t =>
    by_cases c : now < t
    · have : ¬ t ≤ now := by omega
      simp [encNotice, c, this]
    · have : t ≤ now := by omega
      simp [encNotice, c, this]

/-- `StartNoticePeriod`: the notice ends at block time + `NoticePeriod` (`unbond`) -/
theorem noticePeriodEnd_eq (s : St) :
    Gen.Core.noticePeriodEnd (encT s.t) s.sqp.noticePeriod = encNotice (some (s.t + s.sqp.noticePeriod)) := by
  simp [Gen.Core.noticePeriodEnd, encT, encNotice]; omega

/-! ### x/sequencer/keeper: bonds -/

theorem isProposer_eq (s : St) (q : Seq) (r : Rollapp) (h : getRa s q.rollapp = some r) :
    Gen.Core.isProposer (some q.addr) r.proposer = isProposer s q := by
  unfold Gen.Core.isProposer isProposer
  rw [h]
  by_cases e : r.proposer = some q.addr
  · simp [e]
  · have e' : ¬ some q.addr = r.proposer := fun x => e x.symm
    simp [e, e']

theorem isSuccessor_eq (s : St) (q : Seq) (r : Rollapp) (h : getRa s q.rollapp = some r) :
    Gen.Core.isSuccessor (some q.addr) r.successor = isSuccessor s q := by
  unfold Gen.Core.isSuccessor isSuccessor
  rw [h]
  by_cases e : r.successor = some q.addr
  · simp [e]
  · have e' : ¬ some q.addr = r.successor := fun x => e x.symm
    simp [e, e']

example : ∃ (s : St) (q : Seq) (r : Rollapp), getRa s q.rollapp = some r :=
  ⟨{ (default : St) with ras := [default] }, default, default, by rfl⟩

/-- `TryUnbond` with the translated conditions: role check, the min-bond check of a partial unbond
    (`isPartial := !amt.IsEqual(bond)`, `maxReduction := bond - minBond` possibly negative,
    refused when `maxReduction < amt`), unbonded when no tokens are left -/
theorem tryUnbond_eq (s : St) (q : Seq) (amt : Nat) :
    tryUnbond s q amt =
      if Gen.Core.tryUnbondIsRole (isProposer s q) (isSuccessor s q) then .error .proposerOrSuccessor else
      if s.seqH.any (·.1 == q.addr) then .error .unbondNotAllowed else
      match getRa s q.rollapp with
      | none => .error .panic
      | some r =>
        if Gen.Core.tryUnbondRefused amt q.tokens r.minBond then .error .unbondNotAllowed else
        match sendFromModule s q amt q.addr with
        | .error e => .error e
        | .ok (s1, q1) => .ok (s1, if Gen.Core.tryUnbondBecomesUnbonded q1.tokens then { q1 with bonded := false } else q1) := by
  unfold tryUnbond
  delta Gen.Core.tryUnbondIsRole Gen.Core.tryUnbondRefused Gen.Core.tryUnbondBecomesUnbonded
  by_cases h1 : (isProposer s q || isSuccessor s q) = true
  · simp [h1]
  · simp only [h1]
    by_cases h2 : (s.seqH.any (·.1 == q.addr)) = true
    · simp [h2]
    · simp only [h2]
      cases getRa s q.rollapp with
      | none => rfl
      | some r =>
        have e : (amt != q.tokens) = !decide (amt = q.tokens) := by
          by_cases c : amt = q.tokens <;> simp [c]
        simp only [e, Int.ofNat_eq_natCast, ite_dec]
        rfl

/-- `sufficientBond` (CreateSequencer): denom first, then `bond < minBond` -/
theorem sufficientBond_eq (denomOk : Bool) (bond minBond : Nat) :
    Gen.Core.sufficientBond (!denomOk) minBond bond =
      if !denomOk then some "err" else if bond < minBond then some "types.ErrInsufficientBond" else none := by
  delta Gen.Core.sufficientBond
  simp only [ite_dec]

theorem unbondRotationGuard_eq (s : St) (q : Seq) (r : Rollapp) :
    Gen.Core.unbondRotationGuard (awaitingLast s r) (isProposer s q) (isSuccessor s q) =
      (awaitingLast s r && (isProposer s q || isSuccessor s q)) := rfl

/-! ### x/sequencer/keeper: kick, slash, dishonor -/

/-- `Kickable`: a real proposer whose dishonor reached the threshold (`kick`) -/
theorem kickable_eq (thr d : Nat) (pa : Addr) : Gen.Core.kickable thr (some pa) none d = decide (thr ≤ d) := by
  simp [Gen.Core.kickable, Gen.Core.seqSentinel]

theorem kickable_sentinel (thr d : Nat) : Gen.Core.kickable thr (none : Option Addr) none d = false := by
  simp [Gen.Core.kickable, Gen.Core.seqSentinel]

theorem kickNotPotential_eq (q : Seq) :
    Gen.Core.kickNotPotential (encStatus q.bonded) q.optedIn = !(q.bonded && q.optedIn) := by
  unfold Gen.Core.kickNotPotential
  rw [seqIsPotentialProposer_eq]

theorem kickSelf_eq (a pa : Addr) : Gen.Core.kickSelf a pa = decide (a = pa) := rfl

/-- the liveness slash amount: min(tokens, max(abs, tokens · mul truncated)) -/
theorem livenessSlashAmt_eq (p : Params) (q : Seq) :
    Gen.Core.livenessSlashAmt q.tokens p.lsAbs p.lsMul =
      min q.tokens (max p.lsAbs ((p.lsMul.mulInt q.tokens).truncateInt).toNat) := rfl

theorem livenessDishonor_eq (p : Params) (d : Nat) : Gen.Core.livenessDishonor p.dishonorL d = d + p.dishonorL := rfl

/-- `SlashLiveness` with the translated amount and dishonor update -/
theorem slashLiveness_eq (s : St) (r : Rollapp) :
    slashLiveness s r =
      match r.proposer with
      | none => .ok s
      | some a =>
        match getSeq s a with
        | none => .ok s
        | some q =>
          match slash s q (Gen.Core.livenessSlashAmt q.tokens s.sqp.lsAbs s.sqp.lsMul) ⟨0⟩ none with
          | .error e => .error e
          | .ok (s1, q1) => .ok (setSeq s1 { q1 with dishonor := Gen.Core.livenessDishonor s1.sqp.dishonorL q1.dishonor }) := rfl

/-- `livenessHonor`: the dishonor decreases by min(DishonorStateUpdate, dishonor) (`seqAfterUpdate`) -/
theorem livenessHonor_eq (p : Params) (d : Nat) : Gen.Core.livenessHonor p.dishonorSU d = d - min p.dishonorSU d := rfl

theorem seqAfterUpdate_eq (s : St) (m : UpdMsg) (isLast : Bool) :
    seqAfterUpdate s m isLast =
      match getSeq s m.sender with
      | none => .error .internal
      | some prop =>
        let prop1 := { prop with dishonor := Gen.Core.livenessHonor s.sqp.dishonorSU prop.dishonor }
        if isLast then onProposerLastBlock (setSeq s prop1) prop1 else .ok (setSeq s prop1) := rfl

/-- `slash`: the reward is the truncated product, the remainder is burned -/
theorem slash_eq (s : St) (q : Seq) (amt : Nat) (rewardMul : Dec) (rewardee : Option Addr) :
    slash s q amt rewardMul rewardee =
      (let r1 : M (St × Seq) :=
        if Gen.Core.slashReward rewardMul amt = 0 then .ok (s, q) else
          match rewardee with
          | some to => sendFromModule s q (Gen.Core.slashReward rewardMul amt) to
          | none => .error .panic
      match r1 with
      | .error e => .error e
      | .ok (s1, q1) => burn s1 q1 (Gen.Core.slashRemainder amt rewardMul)) := rfl

/-- `PunishSequencer`: half of the slashed bond goes to the rewardee when there is one -/
theorem punishRewardMul_eq : Gen.Core.punishRewardMul = (⟨500000000000000000⟩ : Dec) := rfl


theorem noticePeriodEnd_raw (s : St) : Gen.Core.noticePeriodEnd s.t s.sqp.noticePeriod = s.t + s.sqp.noticePeriod := rfl

/-- `ForkLatestAllowed` = `ForkAllowed` at the latest height -/
theorem forkLatestAllowed_eq (r : Rollapp) :
    forkLatestAllowed r =
      match latestHeight r with
      | none => false
      | some lh => Gen.Core.forkAllowed r.tph lh := rfl

/-- `punish` with the translated reward multiplier -/
theorem punish_eq (s : St) (a : Addr) (rewardee : Option Addr) :
    punish s a rewardee =
      match getSeq s a with
      | none => .error .unknownSeq
      | some q =>
        let mul : Dec := match rewardee with | some _ => Gen.Core.punishRewardMul | none => ⟨0⟩
        match slash s q q.tokens mul rewardee with
        | .error e => .error e
        | .ok (s1, q1) => .ok (setSeq s1 q1) := rfl

/-- `fraud` forks to the height before the fraud height -/
theorem fraud_eq (s : St) (authOk : Bool) (ra h rev : Nat) (pun rewardee : Option Addr) :
    fraud s authOk ra h rev pun rewardee =
      if !authOk then .error .unauthorized else
      if h = 0 then .error .invalid else
      match getRa s ra with
      | none => .error .unknownRollapp
      | some r =>
        if revForHeight r h ≠ rev then .error .wrongRevision else
        let s1m : M St := match pun with
          | some a => punish s a rewardee
          | none => .ok s
        match s1m with
        | .error e => .error e
        | .ok s1 => hardFork s1 ra (Gen.Core.fraudLastValidHeight h) := rfl

/-! ### operand lists -/
theorem getLatestHeight_src_eq : Gen.Core.getLatestHeight_src =
  ["startHeight := s.StartHeight",
   "numBlocks := s.NumBlocks"] := rfl

theorem containsHeight_src_eq : Gen.Core.containsHeight_src =
  ["startHeight := s.StartHeight",
   "height := height",
   "numBlocks := s.NumBlocks"] := rfl

theorem nextSequencerForHeight_src_eq : Gen.Core.nextSequencerForHeight_src =
  ["height := height",
   "startHeight := s.StartHeight",
   "numBlocks := s.NumBlocks",
   "sequencer := s.Sequencer",
   "nextProposer := s.NextProposer"] := rfl

theorem updateStateValidateBasic_src_eq : Gen.Core.updateStateValidateBasic_src =
  ["errAccAddressFromBech32 := sdk.AccAddressFromBech32(msg.Creator) fails",
   "numBlocks := msg.NumBlocks",
   "startHeight := msg.StartHeight",
   "lenBDsBD := len(msg.BDs.BD)"] := rfl

theorem updateStateValidateBD_src_eq : Gen.Core.updateStateValidateBD_src =
  ["bDsBDAtHeight := msg.BDs.BD[bdIndex].Height",
   "startHeight := msg.StartHeight",
   "bdIndex := bdIndex",
   "lenBDsBDAtStateRoot := len(msg.BDs.BD[bdIndex].StateRoot)"] := rfl

theorem blockDescriptorValidate_src_eq : Gen.Core.blockDescriptorValidate_src =
  ["timestamp := bd.Timestamp"] := rfl

theorem markObsoleteValidateBasic_src_eq : Gen.Core.markObsoleteValidateBasic_src =
  ["errAccAddressFromBech32 := sdk.AccAddressFromBech32(m.Authority) fails",
   "lenDrsVersions := len(m.DrsVersions)"] := rfl

theorem revisionForHeightCond_src_eq : Gen.Core.revisionForHeightCond_src =
  ["revisionsAtStartHeight := r.Revisions[i].StartHeight",
   "h := h"] := rfl

theorem updWrongRevision_src_eq : Gen.Core.updWrongRevision_src =
  ["rollappLatestRevisionNumber := rollapp.LatestRevision().Number",
   "msgRollappRevision := msg.RollappRevision"] := rfl

theorem updExpectedStartHeight_src_eq : Gen.Core.updExpectedStartHeight_src =
  ["stateInfoStartHeight := stateInfo.StartHeight",
   "stateInfoNumBlocks := stateInfo.NumBlocks"] := rfl

theorem updWrongHeight_src_eq : Gen.Core.updWrongHeight_src =
  ["stateInfoStartHeight := stateInfo.StartHeight",
   "stateInfoNumBlocks := stateInfo.NumBlocks",
   "msgStartHeight := msg.StartHeight"] := rfl

theorem updNewIndex_src_eq : Gen.Core.updNewIndex_src =
  ["latestStateInfoIndexIndex := latestStateInfoIndex.Index"] := rfl

theorem forkAllowed_src_eq : Gen.Core.forkAllowed_src =
  ["raGenesisStateTransferProofHeight := ra.GenesisState.TransferProofHeight",
   "lastValidHeight := lastValidHeight"] := rfl

theorem hardForkNewRevisionHeight_src_eq : Gen.Core.hardForkNewRevisionHeight_src =
  ["lastValidHeight := lastValidHeight"] := rfl

theorem hardForkRevertHeight_src_eq : Gen.Core.hardForkRevertHeight_src =
  ["lastValidHeight := lastValidHeight"] := rfl

theorem fraudLastValidHeight_src_eq : Gen.Core.fraudLastValidHeight_src =
  ["msgFraudHeight := msg.FraudHeight"] := rfl

theorem ulsiBelowStart_src_eq : Gen.Core.ulsiBelowStart_src =
  ["fraudHeight := fraudHeight",
   "stateInfoStartHeight := stateInfo.StartHeight"] := rfl

theorem ulsiAtStart_src_eq : Gen.Core.ulsiAtStart_src =
  ["stateInfoStartHeight := stateInfo.StartHeight",
   "fraudHeight := fraudHeight"] := rfl

theorem ulsiTruncate_src_eq : Gen.Core.ulsiTruncate_src =
  ["stateInfoStartHeight := stateInfo.StartHeight",
   "stateInfoNumBlocks := stateInfo.NumBlocks",
   "fraudHeight := fraudHeight"] := rfl

theorem pruneKeepIndex_src_eq : Gen.Core.pruneKeepIndex_src =
  ["stateInfoIndexIndex := stateInfoIndex.Index",
   "lastStateIdxToKeep := lastStateIdxToKeep"] := rfl

theorem fsbhZero_src_eq : Gen.Core.fsbhZero_src =
  ["height := height"] := rfl

theorem fsbhBeyond_src_eq : Gen.Core.fsbhBeyond_src =
  ["found := found",
   "height := height",
   "ssGetLatestHeight := ss.GetLatestHeight()"] := rfl

theorem fsbhMid_src_eq : Gen.Core.fsbhMid_src =
  ["startInfoIndex := startInfoIndex",
   "endInfoIndex := endInfoIndex"] := rfl

theorem fsbhGoLeft_src_eq : Gen.Core.fsbhGoLeft_src =
  ["height := height",
   "stateGetStartHeight := state.GetStartHeight()"] := rfl

theorem finalizeTooEarly_src_eq : Gen.Core.finalizeTooEarly_src =
  ["blockHeight := ctx.BlockHeight()",
   "disputePeriodInBlocks := k.DisputePeriodInBlocks(ctx)"] := rfl

theorem finalizationHeight_src_eq : Gen.Core.finalizationHeight_src =
  ["blockHeight := ctx.BlockHeight()",
   "disputePeriodInBlocks := k.DisputePeriodInBlocks(ctx)"] := rfl

theorem resetClockEventHeight_src_eq : Gen.Core.resetClockEventHeight_src =
  [] := rfl

theorem resetClockCountdownStart_src_eq : Gen.Core.resetClockCountdownStart_src =
  ["blockHeight := ctx.BlockHeight()"] := rfl

theorem scheduleNextH_src_eq : Gen.Core.scheduleNextH_src =
  ["paramsLivenessSlashBlocks := params.LivenessSlashBlocks",
   "paramsLivenessSlashInterval := params.LivenessSlashInterval",
   "blockHeight := ctx.BlockHeight()",
   "raLivenessCountdownStartHeight := ra.LivenessCountdownStartHeight"] := rfl

theorem seqSentinel_src_eq : Gen.Core.seqSentinel_src =
  ["address := seq.Address",
   "sentinelSeqAddr := SentinelSeqAddr"] := rfl

theorem seqBonded_src_eq : Gen.Core.seqBonded_src =
  ["status := seq.Status"] := rfl

theorem seqIsPotentialProposer_src_eq : Gen.Core.seqIsPotentialProposer_src =
  ["status := seq.Status",
   "optedIn := seq.OptedIn"] := rfl

theorem seqNoticeStarted_src_eq : Gen.Core.seqNoticeStarted_src =
  ["noticePeriodTime := seq.NoticePeriodTime"] := rfl

theorem seqNoticeElapsed_src_eq : Gen.Core.seqNoticeElapsed_src =
  ["noticePeriodTime := seq.NoticePeriodTime",
   "now := now"] := rfl

theorem seqNoticeInProgress_src_eq : Gen.Core.seqNoticeInProgress_src =
  ["noticePeriodTime := seq.NoticePeriodTime",
   "now := now"] := rfl

theorem tryUnbondIsRole_src_eq : Gen.Core.tryUnbondIsRole_src =
  ["isProposer := k.IsProposer(ctx, *seq)",
   "isSuccessor := k.IsSuccessor(ctx, *seq)"] := rfl

theorem tryUnbondRefused_src_eq : Gen.Core.tryUnbondRefused_src =
  ["amt := amt",
   "seqTokensCoin := seq.TokensCoin()",
   "rollappKeeperMinBond := k.rollappKeeper.MinBond(ctx, seq.RollappId)"] := rfl

theorem tryUnbondBecomesUnbonded_src_eq : Gen.Core.tryUnbondBecomesUnbonded_src =
  ["seqTokens := seq.Tokens"] := rfl

theorem validBondDenom_src_eq : Gen.Core.validBondDenom_src =
  ["cDenom := c.Denom",
   "commontypesDYMCoinDenom := commontypes.DYMCoin.Denom"] := rfl

theorem sufficientBond_src_eq : Gen.Core.sufficientBond_src =
  ["errValidBondDenom := validBondDenom(c) fails",
   "rollappKeeperMinBond := k.rollappKeeper.MinBond(ctx, rollapp)",
   "c := c"] := rfl

theorem kickable_src_eq : Gen.Core.kickable_src =
  ["getParamsDishonorKickThreshold := k.GetParams(ctx).DishonorKickThreshold",
   "proposerAddress := proposer.Address",
   "sentinelSeqAddr := SentinelSeqAddr",
   "proposerDishonor := proposer.Dishonor"] := rfl

theorem livenessSlashAmt_src_eq : Gen.Core.livenessSlashAmt_src =
  ["seqTokensCoin := seq.TokensCoin()",
   "getParamsLivenessSlashMinAbsolute := k.GetParams(ctx).LivenessSlashMinAbsolute",
   "getParamsLivenessSlashMinMultiplier := k.GetParams(ctx).LivenessSlashMinMultiplier"] := rfl

theorem livenessHonor_src_eq : Gen.Core.livenessHonor_src =
  ["getParamsDishonorStateUpdate := k.GetParams(ctx).DishonorStateUpdate",
   "seqDishonor := seq.Dishonor"] := rfl

theorem livenessDishonor_src_eq : Gen.Core.livenessDishonor_src =
  ["getParamsDishonorLiveness := k.GetParams(ctx).DishonorLiveness",
   "seqDishonor := seq.Dishonor"] := rfl

theorem slashReward_src_eq : Gen.Core.slashReward_src =
  ["rewardMul := rewardMul",
   "amt := amt"] := rfl

theorem slashRemainder_src_eq : Gen.Core.slashRemainder_src =
  ["amt := amt",
   "rewardMul := rewardMul"] := rfl

theorem punishRewardMul_src_eq : Gen.Core.punishRewardMul_src =
  [] := rfl

theorem noticePeriodEnd_src_eq : Gen.Core.noticePeriodEnd_src =
  ["blockTime := ctx.BlockTime()",
   "getParamsNoticePeriod := k.GetParams(ctx).NoticePeriod"] := rfl

theorem kickNotPotential_src_eq : Gen.Core.kickNotPotential_src =
  ["kickerStatus := kicker.Status",
   "kickerOptedIn := kicker.OptedIn"] := rfl

theorem kickSelf_src_eq : Gen.Core.kickSelf_src =
  ["kickerAddress := kicker.Address",
   "proposerAddress := proposer.Address"] := rfl

theorem unbondRotationGuard_src_eq : Gen.Core.unbondRotationGuard_src =
  ["awaitingLastProposerBlock := k.AwaitingLastProposerBlock(ctx, seq.RollappId)",
   "isProposer := k.IsProposer(ctx, seq)",
   "isSuccessor := k.IsSuccessor(ctx, seq)"] := rfl

theorem isProposer_src_eq : Gen.Core.isProposer_src =
  ["seqAddress := seq.Address",
   "getProposerAddress := k.GetProposer(ctx, seq.RollappId).Address"] := rfl

theorem isSuccessor_src_eq : Gen.Core.isSuccessor_src =
  ["seqAddress := seq.Address",
   "getSuccessorAddress := k.GetSuccessor(ctx, seq.RollappId).Address"] := rfl

theorem beforeUpdateNotProposer_src_eq : Gen.Core.beforeUpdateNotProposer_src =
  ["seqAddr := seqAddr",
   "proposerAddress := proposer.Address"] := rfl

theorem beforeUpdateBadLast_src_eq : Gen.Core.beforeUpdateBadLast_src =
  ["lastStateUpdateBySequencer := lastStateUpdateBySequencer",
   "awaitingLastProposerBlock := hook.k.AwaitingLastProposerBlock(ctx, rollappId)"] := rfl

theorem afterUpdateIsLast_src_eq : Gen.Core.afterUpdateIsLast_src =
  ["stateInfoSequencer := stateInfo.Sequencer",
   "stateInfoNextProposer := stateInfo.NextProposer"] := rfl

/-! ### listings -/

/-- ``DefaultDisputePeriodInBlocks` -/
def defaultDisputePeriodInBlocks : Nat := 3

/-- `MinDisputePeriodInBlocks` -/
def minDisputePeriodInBlocks : Nat := 1

/-- `DefaultLivenessSlashBlocks` -/
def defaultLivenessSlashBlocks : Nat := 7200

/-- `DefaultLivenessSlashInterval` -/
def defaultLivenessSlashInterval : Nat := 600

/-- `DefaultDishonorStateUpdate` -/
def defaultDishonorStateUpdate : Nat := 1

/-- `DefaultDishonorLiveness` -/
def defaultDishonorLiveness : Nat := 300

/-- `DefaultDishonorKickThreshold` -/
def defaultDishonorKickThreshold : Nat := 900

/-- `Unbonded` -/
def statusUnbonded : Nat := 0

/-- `Bonded` -/
def statusBonded : Nat := 2

/-- translated from `StateInfo.GetLatestHeight` -/
def getLatestHeight (startHeight : Nat) (numBlocks : Nat) : Nat :=
  (if decide ((startHeight + numBlocks) > 0) then ((startHeight + numBlocks) - 1) else 0)
def getLatestHeight_src : List String :=
  ["startHeight := s.StartHeight",
   "numBlocks := s.NumBlocks"]

/-- translated from `StateInfo.ContainsHeight` -/
def containsHeight (startHeight : Nat) (height : Nat) (numBlocks : Nat) : Bool :=
  (decide (startHeight ≤ height) && decide (height ≤ (getLatestHeight startHeight numBlocks)))
def containsHeight_src : List String :=
  ["startHeight := s.StartHeight",
   "height := height",
   "numBlocks := s.NumBlocks"]

/-- translated from `StateInfo.NextSequencerForHeight` -/
def nextSequencerForHeight {α : Type} [DecidableEq α] (height : Nat) (startHeight : Nat) (numBlocks : Nat) (sequencer : α) (nextProposer : α) : α :=
  (if decide (height ≠ (getLatestHeight startHeight numBlocks)) then sequencer else nextProposer)
def nextSequencerForHeight_src : List String :=
  ["height := height",
   "startHeight := s.StartHeight",
   "numBlocks := s.NumBlocks",
   "sequencer := s.Sequencer",
   "nextProposer := s.NextProposer"]

/-- guard chain of `MsgUpdateState.ValidateBasic`: the error sentinel of the first failing check -/
def updateStateValidateBasic (errAccAddressFromBech32 : Bool) (numBlocks : Nat) (startHeight : Nat) (lenBDsBD : Nat) : Option String :=
  if errAccAddressFromBech32 then some "ErrInvalidAddress" else
  if decide (numBlocks = 0) then some "ErrInvalidNumBlocks" else
  if decide (numBlocks > (18446744073709551615 - startHeight)) then some "ErrInvalidNumBlocks" else
  if decide (lenBDsBD ≠ numBlocks) then some "ErrInvalidNumBlocks" else
  if decide (startHeight = 0) then some "ErrWrongBlockHeight" else
  none
def updateStateValidateBasic_src : List String :=
  ["errAccAddressFromBech32 := sdk.AccAddressFromBech32(msg.Creator) fails",
   "numBlocks := msg.NumBlocks",
   "startHeight := msg.StartHeight",
   "lenBDsBD := len(msg.BDs.BD)"]

/-- guard chain of the loop body of `MsgUpdateState.ValidateBasic` -/
def updateStateValidateBD (bDsBDAtHeight : Nat) (startHeight : Nat) (bdIndex : Nat) (lenBDsBDAtStateRoot : Nat) : Option String :=
  if decide (bDsBDAtHeight ≠ (startHeight + bdIndex)) then some "ErrInvalidBlockSequence" else
  if decide (lenBDsBDAtStateRoot ≠ 32) then some "ErrInvalidStateRoot" else
  none
def updateStateValidateBD_src : List String :=
  ["bDsBDAtHeight := msg.BDs.BD[bdIndex].Height",
   "startHeight := msg.StartHeight",
   "bdIndex := bdIndex",
   "lenBDsBDAtStateRoot := len(msg.BDs.BD[bdIndex].StateRoot)"]

def updateStateValidateBD_header : String := "for bdIndex := uint64(0); bdIndex < msg.NumBlocks; bdIndex += 1"

/-- guard chain of `BlockDescriptor.Validate`: the error sentinel of the first failing check -/
def blockDescriptorValidate (timestamp : Nat) : Option String :=
  if decide (timestamp = 0) then some "ErrInvalidBlockDescriptorTimestamp" else
  none
def blockDescriptorValidate_src : List String :=
  ["timestamp := bd.Timestamp"]

/-- guard chain of `MsgMarkObsoleteRollapps.ValidateBasic`: the error sentinel of the first failing check -/
def markObsoleteValidateBasic (errAccAddressFromBech32 : Bool) (lenDrsVersions : Nat) : Option String :=
  if errAccAddressFromBech32 then some "errors.Join(gerrc.ErrInvalidArgument, err)" else
  if decide (lenDrsVersions = 0) then some "gerrc.ErrInvalidArgument" else
  none
def markObsoleteValidateBasic_src : List String :=
  ["errAccAddressFromBech32 := sdk.AccAddressFromBech32(m.Authority) fails",
   "lenDrsVersions := len(m.DrsVersions)"]

/-- `Rollapp.GetRevisionForHeight`: condition of `if` #0: `r.Revisions[i].StartHeight <= h` -/
def revisionForHeightCond (revisionsAtStartHeight : Nat) (h : Nat) : Bool :=
  decide (revisionsAtStartHeight ≤ h)
def revisionForHeightCond_src : List String :=
  ["revisionsAtStartHeight := r.Revisions[i].StartHeight",
   "h := h"]

/-- `msgServer.UpdateState`: condition of `if` #2: `rollapp.LatestRevision().Number != msg.RollappRevision` -/
def updWrongRevision {α : Type} [DecidableEq α] (rollappLatestRevisionNumber : α) (msgRollappRevision : α) : Bool :=
  decide (rollappLatestRevisionNumber ≠ msgRollappRevision)
def updWrongRevision_src : List String :=
  ["rollappLatestRevisionNumber := rollapp.LatestRevision().Number",
   "msgRollappRevision := msg.RollappRevision"]

/-- `msgServer.UpdateState`: `expectedStartHeight := stateInfo.StartHeight + stateInfo.NumBlocks` -/
def updExpectedStartHeight (stateInfoStartHeight : Nat) (stateInfoNumBlocks : Nat) : Nat :=
  (stateInfoStartHeight + stateInfoNumBlocks)
def updExpectedStartHeight_src : List String :=
  ["stateInfoStartHeight := stateInfo.StartHeight",
   "stateInfoNumBlocks := stateInfo.NumBlocks"]

/-- `msgServer.UpdateState`: condition of `if` #7: `expectedStartHeight != msg.StartHeight` -/
def updWrongHeight (stateInfoStartHeight : Nat) (stateInfoNumBlocks : Nat) (msgStartHeight : Nat) : Bool :=
  decide ((stateInfoStartHeight + stateInfoNumBlocks) ≠ msgStartHeight)
def updWrongHeight_src : List String :=
  ["stateInfoStartHeight := stateInfo.StartHeight",
   "stateInfoNumBlocks := stateInfo.NumBlocks",
   "msgStartHeight := msg.StartHeight"]

/-- `msgServer.UpdateState`: `newIndex = lastIndex + 1` -/
def updNewIndex (latestStateInfoIndexIndex : Nat) : Nat :=
  (latestStateInfoIndexIndex + 1)
def updNewIndex_src : List String :=
  ["latestStateInfoIndexIndex := latestStateInfoIndex.Index"]

/-- translated from `Keeper.ForkAllowed` -/
def forkAllowed (raGenesisStateTransferProofHeight : Nat) (lastValidHeight : Nat) : Bool :=
  (decide (0 < raGenesisStateTransferProofHeight) && decide (raGenesisStateTransferProofHeight ≤ lastValidHeight))
def forkAllowed_src : List String :=
  ["raGenesisStateTransferProofHeight := ra.GenesisState.TransferProofHeight",
   "lastValidHeight := lastValidHeight"]

/-- `Keeper.HardFork`: `newRevisionHeight := lastValidHeight + 1` -/
def hardForkNewRevisionHeight (lastValidHeight : Nat) : Nat :=
  (lastValidHeight + 1)
def hardForkNewRevisionHeight_src : List String :=
  ["lastValidHeight := lastValidHeight"]

/-- `Keeper.HardFork`: argument 2 of `k.RevertPendingStates(ctx, rollappID, lastValidHeight+1)` -/
def hardForkRevertHeight (lastValidHeight : Nat) : Nat :=
  (lastValidHeight + 1)
def hardForkRevertHeight_src : List String :=
  ["lastValidHeight := lastValidHeight"]

/-- `Keeper.SubmitRollappFraud`: argument 2 of `k.HardFork(ctx, msg.RollappId, msg.FraudHeight-1)` -/
def fraudLastValidHeight (msgFraudHeight : Nat) : Nat :=
  (msgFraudHeight - 1)
def fraudLastValidHeight_src : List String :=
  ["msgFraudHeight := msg.FraudHeight"]

/-- `Keeper.UpdateLastStateInfo`: condition of `if` #0: `fraudHeight < stateInfo.StartHeight` -/
def ulsiBelowStart (fraudHeight : Nat) (stateInfoStartHeight : Nat) : Bool :=
  decide (fraudHeight < stateInfoStartHeight)
def ulsiBelowStart_src : List String :=
  ["fraudHeight := fraudHeight",
   "stateInfoStartHeight := stateInfo.StartHeight"]

/-- `Keeper.UpdateLastStateInfo`: condition of `if` #1: `stateInfo.StartHeight == fraudHeight` -/
def ulsiAtStart {α : Type} [DecidableEq α] (stateInfoStartHeight : α) (fraudHeight : α) : Bool :=
  decide (stateInfoStartHeight = fraudHeight)
def ulsiAtStart_src : List String :=
  ["stateInfoStartHeight := stateInfo.StartHeight",
   "fraudHeight := fraudHeight"]

/-- `Keeper.UpdateLastStateInfo`: condition of `if` #3: `stateInfo.GetLatestHeight() >= fraudHeight` -/
def ulsiTruncate (stateInfoStartHeight : Nat) (stateInfoNumBlocks : Nat) (fraudHeight : Nat) : Bool :=
  decide ((getLatestHeight stateInfoStartHeight stateInfoNumBlocks) ≥ fraudHeight)
def ulsiTruncate_src : List String :=
  ["stateInfoStartHeight := stateInfo.StartHeight",
   "stateInfoNumBlocks := stateInfo.NumBlocks",
   "fraudHeight := fraudHeight"]

/-- `Keeper.pruneFinalizationsAbove`: condition of `if` #1: `stateInfoIndex.Index <= lastStateIdxToKeep` -/
def pruneKeepIndex (stateInfoIndexIndex : Nat) (lastStateIdxToKeep : Nat) : Bool :=
  decide (stateInfoIndexIndex ≤ lastStateIdxToKeep)
def pruneKeepIndex_src : List String :=
  ["stateInfoIndexIndex := stateInfoIndex.Index",
   "lastStateIdxToKeep := lastStateIdxToKeep"]

/-- `Keeper.FindStateInfoByHeight`: condition of `if` #0: `height == 0` -/
def fsbhZero (height : Nat) : Bool :=
  decide (height = 0)
def fsbhZero_src : List String :=
  ["height := height"]

/-- `Keeper.FindStateInfoByHeight`: condition of `if` #2: `!found || height > ss.GetLatestHeight()` -/
def fsbhBeyond (found : Bool) (height : Nat) (ssGetLatestHeight : Nat) : Bool :=
  ((!found) || decide (height > ssGetLatestHeight))
def fsbhBeyond_src : List String :=
  ["found := found",
   "height := height",
   "ssGetLatestHeight := ss.GetLatestHeight()"]

/-- `Keeper.FindStateInfoByHeight`: `midIndex := startInfoIndex + (endInfoIndex-startInfoIndex)/2` -/
def fsbhMid (startInfoIndex : Nat) (endInfoIndex : Nat) : Nat :=
  (startInfoIndex + ((endInfoIndex - startInfoIndex) / 2))
def fsbhMid_src : List String :=
  ["startInfoIndex := startInfoIndex",
   "endInfoIndex := endInfoIndex"]

/-- `Keeper.FindStateInfoByHeight`: condition of `if` #5: `height < state.GetStartHeight()` -/
def fsbhGoLeft (height : Nat) (stateGetStartHeight : Nat) : Bool :=
  decide (height < stateGetStartHeight)
def fsbhGoLeft_src : List String :=
  ["height := height",
   "stateGetStartHeight := state.GetStartHeight()"]

/-- `Keeper.FinalizeRollappStates`: condition of `if` #0: `uint64(ctx.BlockHeight()) < k.DisputePeriodInBlocks(ctx)` -/
def finalizeTooEarly (blockHeight : Nat) (disputePeriodInBlocks : Nat) : Bool :=
  decide (blockHeight < disputePeriodInBlocks)
def finalizeTooEarly_src : List String :=
  ["blockHeight := ctx.BlockHeight()",
   "disputePeriodInBlocks := k.DisputePeriodInBlocks(ctx)"]

/-- `Keeper.FinalizeRollappStates`: `finalizationHeight := uint64(ctx.BlockHeight() - int64(k.DisputePeriodInBlocks(ctx)))` -/
def finalizationHeight (blockHeight : Nat) (disputePeriodInBlocks : Nat) : Nat :=
  (blockHeight - disputePeriodInBlocks)
def finalizationHeight_src : List String :=
  ["blockHeight := ctx.BlockHeight()",
   "disputePeriodInBlocks := k.DisputePeriodInBlocks(ctx)"]

/-- `Keeper.ResetLivenessClock`: `ra.LivenessEventHeight = 0` -/
def resetClockEventHeight : Nat :=
  0
def resetClockEventHeight_src : List String :=
  []

/-- `Keeper.ResetLivenessClock`: `ra.LivenessCountdownStartHeight = ctx.BlockHeight()` -/
def resetClockCountdownStart {α : Type} [DecidableEq α] (blockHeight : α) : α :=
  blockHeight
def resetClockCountdownStart_src : List String :=
  ["blockHeight := ctx.BlockHeight()"]

/-- `Keeper.ScheduleLivenessEvent`: `nextH := NextSlashHeight( params.LivenessSlashBlocks, params.LivenessSlashInterval, ctx.BlockHeight(), ra.LivenessCountdownStartHeight, )` -/
def scheduleNextH (paramsLivenessSlashBlocks : Nat) (paramsLivenessSlashInterval : Nat) (blockHeight : Nat) (raLivenessCountdownStartHeight : Nat) : Nat :=
  (Gen.Arith.nextSlashHeight paramsLivenessSlashBlocks paramsLivenessSlashInterval blockHeight raLivenessCountdownStartHeight)
def scheduleNextH_src : List String :=
  ["paramsLivenessSlashBlocks := params.LivenessSlashBlocks",
   "paramsLivenessSlashInterval := params.LivenessSlashInterval",
   "blockHeight := ctx.BlockHeight()",
   "raLivenessCountdownStartHeight := ra.LivenessCountdownStartHeight"]

/-- translated from `Sequencer.Sentinel` -/
def seqSentinel {α : Type} [DecidableEq α] (address : α) (sentinelSeqAddr : α) : Bool :=
  decide (address = sentinelSeqAddr)
def seqSentinel_src : List String :=
  ["address := seq.Address",
   "sentinelSeqAddr := SentinelSeqAddr"]

/-- translated from `Sequencer.Bonded` -/
def seqBonded (status : Nat) : Bool :=
  decide (status = 2)
def seqBonded_src : List String :=
  ["status := seq.Status"]

/-- translated from `Sequencer.IsPotentialProposer` -/
def seqIsPotentialProposer (status : Nat) (optedIn : Bool) : Bool :=
  ((seqBonded status) && optedIn)
def seqIsPotentialProposer_src : List String :=
  ["status := seq.Status",
   "optedIn := seq.OptedIn"]

/-- translated from `Sequencer.NoticeStarted` -/
def seqNoticeStarted (noticePeriodTime : Nat) : Bool :=
  decide (noticePeriodTime ≠ 0)
def seqNoticeStarted_src : List String :=
  ["noticePeriodTime := seq.NoticePeriodTime"]

/-- translated from `Sequencer.NoticeElapsed` -/
def seqNoticeElapsed (noticePeriodTime : Nat) (now : Nat) : Bool :=
  ((seqNoticeStarted noticePeriodTime) && (!decide (now < noticePeriodTime)))
def seqNoticeElapsed_src : List String :=
  ["noticePeriodTime := seq.NoticePeriodTime",
   "now := now"]

/-- translated from `Sequencer.NoticeInProgress` -/
def seqNoticeInProgress (noticePeriodTime : Nat) (now : Nat) : Bool :=
  ((seqNoticeStarted noticePeriodTime) && (!(seqNoticeElapsed noticePeriodTime now)))
def seqNoticeInProgress_src : List String :=
  ["noticePeriodTime := seq.NoticePeriodTime",
   "now := now"]

/-- `Keeper.TryUnbond`: condition of `if` #0: `k.IsProposer(ctx, *seq) || k.IsSuccessor(ctx, *seq)` -/
def tryUnbondIsRole (isProposer : Bool) (isSuccessor : Bool) : Bool :=
  (isProposer || isSuccessor)
def tryUnbondIsRole_src : List String :=
  ["isProposer := k.IsProposer(ctx, *seq)",
   "isSuccessor := k.IsSuccessor(ctx, *seq)"]

/-- `Keeper.TryUnbond`: condition of `if` #2: `isPartial && maxReduction.IsLT(amt)` -/
def tryUnbondRefused (amt : Nat) (seqTokensCoin : Nat) (rollappKeeperMinBond : Nat) : Bool :=
  ((!decide (amt = seqTokensCoin)) && decide (((Int.ofNat seqTokensCoin) - (Int.ofNat rollappKeeperMinBond)) < (Int.ofNat amt)))
def tryUnbondRefused_src : List String :=
  ["amt := amt",
   "seqTokensCoin := seq.TokensCoin()",
   "rollappKeeperMinBond := k.rollappKeeper.MinBond(ctx, seq.RollappId)"]

/-- `Keeper.TryUnbond`: condition of `if` #4: `seq.Tokens.IsZero()` -/
def tryUnbondBecomesUnbonded (seqTokens : Nat) : Bool :=
  decide (seqTokens = 0)
def tryUnbondBecomesUnbonded_src : List String :=
  ["seqTokens := seq.Tokens"]

/-- guard chain of `validBondDenom`: the error sentinel of the first failing check -/
def validBondDenom {α : Type} [DecidableEq α] (cDenom : α) (commontypesDYMCoinDenom : α) : Option String :=
  if decide (cDenom ≠ commontypesDYMCoinDenom) then some "types.ErrInvalidDenom" else
  none
def validBondDenom_src : List String :=
  ["cDenom := c.Denom",
   "commontypesDYMCoinDenom := commontypes.DYMCoin.Denom"]

/-- guard chain of `Keeper.sufficientBond`: the error sentinel of the first failing check -/
def sufficientBond (errValidBondDenom : Bool) (rollappKeeperMinBond : Nat) (c : Nat) : Option String :=
  if errValidBondDenom then some "err" else
  if decide (c < rollappKeeperMinBond) then some "types.ErrInsufficientBond" else
  none
def sufficientBond_src : List String :=
  ["errValidBondDenom := validBondDenom(c) fails",
   "rollappKeeperMinBond := k.rollappKeeper.MinBond(ctx, rollapp)",
   "c := c"]

/-- translated from `Keeper.Kickable` -/
def kickable {α : Type} [DecidableEq α] (getParamsDishonorKickThreshold : Nat) (proposerAddress : α) (sentinelSeqAddr : α) (proposerDishonor : Nat) : Bool :=
  ((!(seqSentinel proposerAddress sentinelSeqAddr)) && decide (getParamsDishonorKickThreshold ≤ proposerDishonor))
def kickable_src : List String :=
  ["getParamsDishonorKickThreshold := k.GetParams(ctx).DishonorKickThreshold",
   "proposerAddress := proposer.Address",
   "sentinelSeqAddr := SentinelSeqAddr",
   "proposerDishonor := proposer.Dishonor"]

/-- `Keeper.livenessSlash`: `amt := ucoin.SimpleMin(tokens, ucoin.SimpleMax(abs, tokensMul[0]))` -/
def livenessSlashAmt (seqTokensCoin : Nat) (getParamsLivenessSlashMinAbsolute : Nat) (getParamsLivenessSlashMinMultiplier : Dec) : Nat :=
  (min seqTokensCoin (max getParamsLivenessSlashMinAbsolute (((getParamsLivenessSlashMinMultiplier.mulInt seqTokensCoin).truncateInt).toNat)))
def livenessSlashAmt_src : List String :=
  ["seqTokensCoin := seq.TokensCoin()",
   "getParamsLivenessSlashMinAbsolute := k.GetParams(ctx).LivenessSlashMinAbsolute",
   "getParamsLivenessSlashMinMultiplier := k.GetParams(ctx).LivenessSlashMinMultiplier"]

/-- translated from `Keeper.livenessHonor`: the final value of `seq.Dishonor` -/
def livenessHonor (getParamsDishonorStateUpdate : Nat) (seqDishonor : Nat) : Nat :=
  (seqDishonor - (min getParamsDishonorStateUpdate seqDishonor))
def livenessHonor_src : List String :=
  ["getParamsDishonorStateUpdate := k.GetParams(ctx).DishonorStateUpdate",
   "seqDishonor := seq.Dishonor"]

/-- translated from `Keeper.livenessDishonor`: the final value of `seq.Dishonor` -/
def livenessDishonor (getParamsDishonorLiveness : Nat) (seqDishonor : Nat) : Nat :=
  (seqDishonor + getParamsDishonorLiveness)
def livenessDishonor_src : List String :=
  ["getParamsDishonorLiveness := k.GetParams(ctx).DishonorLiveness",
   "seqDishonor := seq.Dishonor"]

/-- `Keeper.slash`: `rewardCoin := ucoin.MulDec(rewardMul, amt)[0]` -/
def slashReward (rewardMul : Dec) (amt : Nat) : Nat :=
  ((rewardMul.mulInt amt).truncateInt).toNat
def slashReward_src : List String :=
  ["rewardMul := rewardMul",
   "amt := amt"]

/-- `Keeper.slash`: `remainder := amt.Sub(rewardCoin)` -/
def slashRemainder (amt : Nat) (rewardMul : Dec) : Nat :=
  (amt - ((rewardMul.mulInt amt).truncateInt).toNat)
def slashRemainder_src : List String :=
  ["amt := amt",
   "rewardMul := rewardMul"]

/-- `Keeper.PunishSequencer`: `rewardMul = math.LegacyMustNewDecFromStr("0.5")` -/
def punishRewardMul : Dec :=
  (⟨500000000000000000⟩ : Dec)
def punishRewardMul_src : List String :=
  []

/-- `Keeper.StartNoticePeriod`: `prop.NoticePeriodTime = ctx.BlockTime().Add(k.GetParams(ctx).NoticePeriod)` -/
def noticePeriodEnd (blockTime : Nat) (getParamsNoticePeriod : Nat) : Nat :=
  (blockTime + getParamsNoticePeriod)
def noticePeriodEnd_src : List String :=
  ["blockTime := ctx.BlockTime()",
   "getParamsNoticePeriod := k.GetParams(ctx).NoticePeriod"]

/-- `Keeper.TryKickProposer`: condition of `if` #0: `!kicker.IsPotentialProposer()` -/
def kickNotPotential (kickerStatus : Nat) (kickerOptedIn : Bool) : Bool :=
  (!(seqIsPotentialProposer kickerStatus kickerOptedIn))
def kickNotPotential_src : List String :=
  ["kickerStatus := kicker.Status",
   "kickerOptedIn := kicker.OptedIn"]

/-- `Keeper.TryKickProposer`: condition of `if` #1: `kicker.Address == proposer.Address` -/
def kickSelf {α : Type} [DecidableEq α] (kickerAddress : α) (proposerAddress : α) : Bool :=
  decide (kickerAddress = proposerAddress)
def kickSelf_src : List String :=
  ["kickerAddress := kicker.Address",
   "proposerAddress := proposer.Address"]

/-- `msgServer.Unbond`: condition of `if` #1: `k.AwaitingLastProposerBlock(ctx, seq.RollappId) && (k.IsProposer(ctx, seq) || k.IsSuccessor(ctx, seq))` -/
def unbondRotationGuard (awaitingLastProposerBlock : Bool) (isProposer : Bool) (isSuccessor : Bool) : Bool :=
  (awaitingLastProposerBlock && (isProposer || isSuccessor))
def unbondRotationGuard_src : List String :=
  ["awaitingLastProposerBlock := k.AwaitingLastProposerBlock(ctx, seq.RollappId)",
   "isProposer := k.IsProposer(ctx, seq)",
   "isSuccessor := k.IsSuccessor(ctx, seq)"]

/-- translated from `Keeper.IsProposer` -/
def isProposer {α : Type} [DecidableEq α] (seqAddress : α) (getProposerAddress : α) : Bool :=
  decide (seqAddress = getProposerAddress)
def isProposer_src : List String :=
  ["seqAddress := seq.Address",
   "getProposerAddress := k.GetProposer(ctx, seq.RollappId).Address"]

/-- translated from `Keeper.IsSuccessor` -/
def isSuccessor {α : Type} [DecidableEq α] (seqAddress : α) (getSuccessorAddress : α) : Bool :=
  decide (seqAddress = getSuccessorAddress)
def isSuccessor_src : List String :=
  ["seqAddress := seq.Address",
   "getSuccessorAddress := k.GetSuccessor(ctx, seq.RollappId).Address"]

/-- `rollappHook.BeforeUpdateState`: condition of `if` #0: `seqAddr != proposer.Address` -/
def beforeUpdateNotProposer {α : Type} [DecidableEq α] (seqAddr : α) (proposerAddress : α) : Bool :=
  decide (seqAddr ≠ proposerAddress)
def beforeUpdateNotProposer_src : List String :=
  ["seqAddr := seqAddr",
   "proposerAddress := proposer.Address"]

/-- `rollappHook.BeforeUpdateState`: condition of `if` #1: `lastStateUpdateBySequencer && !hook.k.AwaitingLastProposerBlock(ctx, rollappId)` -/
def beforeUpdateBadLast (lastStateUpdateBySequencer : Bool) (awaitingLastProposerBlock : Bool) : Bool :=
  (lastStateUpdateBySequencer && (!awaitingLastProposerBlock))
def beforeUpdateBadLast_src : List String :=
  ["lastStateUpdateBySequencer := lastStateUpdateBySequencer",
   "awaitingLastProposerBlock := hook.k.AwaitingLastProposerBlock(ctx, rollappId)"]

/-- `rollappHook.AfterUpdateState`: argument 2 of `hook.k.afterStateUpdate(ctx, proposer, stateInfo.Sequencer != stateInfo.NextProposer)` -/
def afterUpdateIsLast {α : Type} [DecidableEq α] (stateInfoSequencer : α) (stateInfoNextProposer : α) : Bool :=
  decide (stateInfoSequencer ≠ stateInfoNextProposer)
def afterUpdateIsLast_src : List String :=
  ["stateInfoSequencer := stateInfo.Sequencer",
   "stateInfoNextProposer := stateInfo.NextProposer"]

/-! ### listings -/

/-- msgServer.UpdateState` as mirrored by the model -/
theorem updateState_skeleton : Gen.Core.L.updateState =
  ["func (k msgServer) UpdateState(goCtx context.Context, msg *types.MsgUpdateState) (*types.MsgUpdateStateResponse, error)",
   "  rollapp, isFound := k.GetRollapp(ctx, msg.RollappId)",
   "  if !isFound",
   "    return nil, types.ErrUnknownRollappID",
   "  err := k.hooks.BeforeUpdateState(ctx, msg.Creator, msg.RollappId, msg.Last)",
   "  if err != nil",
   "    return nil, err",
   "  if rollapp.LatestRevision().Number != msg.RollappRevision",
   "    return nil, types.ErrWrongRollappRevision",
   "  var newIndex, lastIndex uint64",
   "  latestStateInfoIndex, found := k.GetLatestStateInfoIndex(ctx, msg.RollappId)",
   "  if found",
   "    stateInfo, found := k.GetStateInfo(ctx, msg.RollappId, latestStateInfoIndex.Index)",
   "    if !found",
   "      return nil, types.ErrLogic",
   "    lastBD := stateInfo.GetLatestBlockDescriptor()",
   "    if !lastBD.Timestamp.IsZero()",
   "      err := msg.BDs.Validate()",
   "      if err != nil",
   "        return nil, err",
   "    expectedStartHeight := stateInfo.StartHeight + stateInfo.NumBlocks",
   "    if expectedStartHeight != msg.StartHeight",
   "      return nil, types.ErrWrongBlockHeight",
   "    lastIndex = latestStateInfoIndex.Index",
   "  else",
   "    err := msg.BDs.Validate()",
   "    if err != nil",
   "      return nil, err",
   "  newIndex = lastIndex + 1",
   "  successor := k.SequencerK.GetProposer(ctx, msg.RollappId)",
   "  if msg.Last",
   "    successor = k.SequencerK.GetSuccessor(ctx, msg.RollappId)",
   "  creationHeight := uint64(ctx.BlockHeight())",
   "  blockTime := ctx.BlockTime()",
   "  stateInfo := types.NewStateInfo(msg.RollappId, newIndex, msg.Creator, msg.StartHeight, msg.NumBlocks, msg.DAPath, creationHeight, msg.BDs, blockTime, successor.Address)",
   "  if k.IsStateUpdateObsolete(ctx, stateInfo)",
   "    return nil, gerrc.ErrFailedPrecondition",
   "  k.SetLatestStateInfoIndex(ctx, types.StateInfoIndex{RollappId: msg.RollappId, Index: newIndex})",
   "  k.SetStateInfo(ctx, *stateInfo)",
   "  err = k.hooks.AfterUpdateState(ctx, &types.StateInfoMeta{StateInfo: *stateInfo, Revision: msg.RollappRevision, Rollapp: msg.RollappId})",
   "  if err != nil",
   "    return nil, err",
   "  stateInfoIndex := stateInfo.GetIndex()",
   "  newFinalizationQueue := []types.StateInfoIndex{stateInfoIndex}",
   "  finalizationQueue, found := k.GetFinalizationQueue(ctx, creationHeight, msg.RollappId)",
   "  if found",
   "    newFinalizationQueue = append(finalizationQueue.FinalizationQueue, newFinalizationQueue...)",
   "  err = k.SetFinalizationQueue(ctx, types.BlockHeightToFinalizationQueue{CreationHeight: creationHeight, FinalizationQueue: newFinalizationQueue, RollappId: msg.RollappId})",
   "  if err != nil",
   "    return nil, err",
   "  for _, bd := range msg.BDs.BD",
   "    err := k.SaveSequencerHeight(ctx, stateInfo.Sequencer, bd.Height)",
   "    if err != nil",
   "      return nil, err",
   "  rollapp = k.MustGetRollapp(ctx, msg.RollappId)",
   "  k.IndicateLiveness(ctx, &rollapp)",
   "  k.SetRollapp(ctx, rollapp)",
   "  return &types.MsgUpdateStateResponse{}, nil"] := rfl

/-- `msgServer.IsStateUpdateObsolete` as mirrored by the model -/
theorem isStateUpdateObsolete_skeleton : Gen.Core.L.isStateUpdateObsolete =
  ["func (k msgServer) IsStateUpdateObsolete(ctx sdk.Context, stateInfo *types.StateInfo) bool",
   "  return k.IsDRSVersionObsolete(ctx, stateInfo.GetLatestBlockDescriptor().DrsVersion)"] := rfl

/-- `Keeper.IsDRSVersionObsolete` as mirrored by the model -/
theorem isDRSVersionObsolete_skeleton : Gen.Core.L.isDRSVersionObsolete =
  ["func (k Keeper) IsDRSVersionObsolete(ctx sdk.Context, version uint32) bool",
   "  ok, err := k.obsoleteDRSVersions.Has(ctx, version)",
   "  if err != nil",
   "    panic()",
   "  return ok"] := rfl

/-- `Keeper.HardFork` as mirrored by the model -/
theorem hardFork_skeleton : Gen.Core.L.hardFork =
  ["func (k Keeper) HardFork(ctx sdk.Context, rollappID string, lastValidHeight uint64) error",
   "  rollapp, found := k.GetRollapp(ctx, rollappID)",
   "  if !found",
   "    return gerrc.ErrNotFound",
   "  if !k.ForkAllowed(ctx, rollappID, lastValidHeight)",
   "    return gerrc.ErrFailedPrecondition",
   "  lastValidHeight, err := k.RevertPendingStates(ctx, rollappID, lastValidHeight+1)",
   "  if err != nil",
   "    return err",
   "  newRevisionHeight := lastValidHeight + 1",
   "  rollapp.BumpRevision(newRevisionHeight)",
   "  k.ResetLivenessClock(ctx, &rollapp)",
   "  k.SetRollapp(ctx, rollapp)",
   "  err = k.hooks.OnHardFork(ctx, rollappID, lastValidHeight)",
   "  if err != nil",
   "    return err",
   "  return nil"] := rfl

/-- `Keeper.RevertPendingStates` as mirrored by the model -/
theorem revertPendingStates_skeleton : Gen.Core.L.revertPendingStates =
  ["func (k Keeper) RevertPendingStates(ctx sdk.Context, rollappID string, newRevisionHeight uint64) (uint64, error)",
   "  stateInfo, err := k.FindStateInfoByHeight(ctx, rollappID, newRevisionHeight)",
   "  if err == nil",
   "    if stateInfo.Status == common.Status_FINALIZED",
   "      return 0, types.ErrDisputeAlreadyFinalized",
   "  else",
   "    if errorsmod.IsOf(err, gerrc.ErrNotFound)",
   "      s, ok := k.GetLatestStateInfo(ctx, rollappID)",
   "      if !ok",
   "        return 0, gerrc.ErrFailedPrecondition",
   "      stateInfo = &s",
   "    else",
   "      return 0, err",
   "  stateInfo, err = k.UpdateLastStateInfo(ctx, stateInfo, newRevisionHeight)",
   "  if err != nil",
   "    return 0, err",
   "  lastStateIdxToKeep := stateInfo.StateInfoIndex.Index",
   "  revertedStatesCount := 0",
   "  uniqueProposers := make(map[string]struct{})",
   "  lastIdx, _ := k.GetLatestStateInfoIndex(ctx, rollappID)",
   "  for i := lastStateIdxToKeep + 1; i <= lastIdx.Index; i++",
   "    uniqueProposers[k.MustGetStateInfo(ctx, rollappID, i).Sequencer] = struct{}{}",
   "    k.RemoveStateInfo(ctx, rollappID, i)",
   "    revertedStatesCount++",
   "  k.SetLatestStateInfoIndex(ctx, types.StateInfoIndex{RollappId: rollappID, Index: lastStateIdxToKeep})",
   "  err = k.pruneFinalizationsAbove(ctx, rollappID, lastStateIdxToKeep)",
   "  if err != nil",
   "    return 0, fmt.Errorf(err)",
   "  lastStateInfo := k.MustGetStateInfo(ctx, rollappID, lastStateIdxToKeep)",
   "  uniqueProposers[lastStateInfo.Sequencer] = struct{}{}",
   "  err = k.PruneSequencerHeights(ctx, mapKeysToSlice(uniqueProposers), lastStateInfo.GetLatestHeight())",
   "  if err != nil",
   "    return 0, err",
   "  return lastStateInfo.GetLatestHeight(), nil"] := rfl

/-- `Keeper.UpdateLastStateInfo` as mirrored by the model -/
theorem updateLastStateInfo_skeleton : Gen.Core.L.updateLastStateInfo =
  ["func (k Keeper) UpdateLastStateInfo(ctx sdk.Context, stateInfo *types.StateInfo, fraudHeight uint64) (*types.StateInfo, error)",
   "  if fraudHeight < stateInfo.StartHeight",
   "    return nil, gerrc.ErrInternal",
   "  if stateInfo.StartHeight == fraudHeight",
   "    var ok bool",
   "    *stateInfo, ok = k.GetStateInfo(ctx, stateInfo.StateInfoIndex.RollappId, stateInfo.StateInfoIndex.Index-1)",
   "    if !ok",
   "      return nil, gerrc.ErrFailedPrecondition",
   "  else",
   "    if stateInfo.GetLatestHeight() >= fraudHeight",
   "      truncatedBDs := stateInfo.BDs.BD[:fraudHeight-stateInfo.StartHeight]",
   "      stateInfo.NumBlocks = uint64(len(truncatedBDs))",
   "      stateInfo.BDs.BD = truncatedBDs",
   "  stateInfo.NextProposer = \"\"",
   "  k.SetStateInfo(ctx, *stateInfo)",
   "  return stateInfo, nil"] := rfl

/-- `Keeper.HardForkToLatest` as mirrored by the model -/
theorem hardForkToLatest_skeleton : Gen.Core.L.hardForkToLatest =
  ["func (k Keeper) HardForkToLatest(ctx sdk.Context, rollappID string) error",
   "  lastBatch, ok := k.GetLatestStateInfo(ctx, rollappID)",
   "  if !ok",
   "    return gerrc.ErrFailedPrecondition",
   "  return k.HardFork(ctx, rollappID, lastBatch.GetLatestHeight())"] := rfl

/-- `mapKeysToSlice` as mirrored by the model -/
theorem mapKeysToSlice_skeleton : Gen.Core.L.mapKeysToSlice =
  ["func mapKeysToSlice(m map[string]struct{}) []string",
   "  keys := make([]string, 0, len(m))",
   "  for k := range m",
   "    keys = append(keys, k)",
   "  sort.Strings(keys)",
   "  return keys"] := rfl

/-- `Keeper.pruneFinalizationsAbove` as mirrored by the model -/
theorem pruneFinalizationsAbove_skeleton : Gen.Core.L.pruneFinalizationsAbove =
  ["func (k Keeper) pruneFinalizationsAbove(ctx sdk.Context, rollappID string, lastStateIdxToKeep uint64) error",
   "  queuePerHeight, err := k.GetFinalizationQueueByRollapp(ctx, rollappID)",
   "  if err != nil",
   "    return err",
   "  for _, q := range queuePerHeight",
   "    leftPendingStates := []types.StateInfoIndex{}",
   "    for _, stateInfoIndex := range q.FinalizationQueue",
   "      if stateInfoIndex.Index <= lastStateIdxToKeep",
   "        leftPendingStates = append(leftPendingStates, stateInfoIndex)",
   "        continue",
   "    if len(leftPendingStates) == 0",
   "      err := k.RemoveFinalizationQueue(ctx, q.CreationHeight, rollappID)",
   "      if err != nil",
   "        return err",
   "    else",
   "      err := k.SetFinalizationQueue(ctx, types.BlockHeightToFinalizationQueue{RollappId: rollappID, CreationHeight: q.CreationHeight, FinalizationQueue: leftPendingStates})",
   "      if err != nil",
   "        return err",
   "  return nil"] := rfl

/-- `Keeper.ForkLatestAllowed` as mirrored by the model -/
theorem forkLatestAllowed_skeleton : Gen.Core.L.forkLatestAllowed =
  ["func (k Keeper) ForkLatestAllowed(ctx sdk.Context, rollapp string) bool",
   "  lastHeight, ok := k.GetLatestHeight(ctx, rollapp)",
   "  if !ok",
   "    return false",
   "  return k.ForkAllowed(ctx, rollapp, lastHeight)"] := rfl

/-- `Keeper.ForkAllowed` as mirrored by the model -/
theorem forkAllowedL_skeleton : Gen.Core.L.forkAllowedL =
  ["func (k Keeper) ForkAllowed(ctx sdk.Context, rollapp string, lastValidHeight uint64) bool",
   "  ra := k.MustGetRollapp(ctx, rollapp)",
   "  return 0 < ra.GenesisState.TransferProofHeight && ra.GenesisState.TransferProofHeight <= lastValidHeight"] := rfl

/-- `Keeper.FindStateInfoByHeight` as mirrored by the model -/
theorem findStateInfoByHeight_skeleton : Gen.Core.L.findStateInfoByHeight =
  ["func (k Keeper) FindStateInfoByHeight(ctx sdk.Context, rollappId string, height uint64) (*types.StateInfo, error)",
   "  if height == 0",
   "    return nil, types.ErrInvalidHeight",
   "  _, found := k.GetRollapp(ctx, rollappId)",
   "  if !found",
   "    return nil, types.ErrUnknownRollappID",
   "  ss, found := k.GetLatestStateInfo(ctx, rollappId)",
   "  if !found || height > ss.GetLatestHeight()",
   "    return nil, gerrc.ErrNotFound",
   "  startInfoIndex := uint64(1)",
   "  endInfoIndex := ss.StateInfoIndex.Index",
   "  for startInfoIndex <= endInfoIndex",
   "    midIndex := startInfoIndex + (endInfoIndex-startInfoIndex)/2",
   "    state, ok := k.GetStateInfo(ctx, rollappId, midIndex)",
   "    if !ok",
   "      return nil, types.ErrStateNotExists",
   "    if state.ContainsHeight(height)",
   "      return &state, nil",
   "    if height < state.GetStartHeight()",
   "      endInfoIndex = midIndex - 1",
   "    else",
   "      startInfoIndex = midIndex + 1",
   "  return nil, gerrc.ErrNotFound"] := rfl

/-- `Keeper.GetLatestStateInfo` as mirrored by the model -/
theorem getLatestStateInfo_skeleton : Gen.Core.L.getLatestStateInfo =
  ["func (k Keeper) GetLatestStateInfo(ctx sdk.Context, rollappId string) (types.StateInfo, bool)",
   "  ix, ok := k.GetLatestStateInfoIndex(ctx, rollappId)",
   "  if !ok",
   "    return types.StateInfo{}, false",
   "  return k.GetStateInfo(ctx, rollappId, ix.GetIndex())"] := rfl

/-- `Keeper.GetLatestHeight` as mirrored by the model -/
theorem getLatestHeightK_skeleton : Gen.Core.L.getLatestHeightK =
  ["func (k Keeper) GetLatestHeight(ctx sdk.Context, rollappId string) (uint64, bool)",
   "  info, ok := k.GetLatestStateInfo(ctx, rollappId)",
   "  if !ok",
   "    return 0, false",
   "  return info.GetLatestHeight(), true"] := rfl

/-- `Keeper.MustGetStateInfo` as mirrored by the model -/
theorem mustGetStateInfo_skeleton : Gen.Core.L.mustGetStateInfo =
  ["func (k Keeper) MustGetStateInfo(ctx sdk.Context, rollappId string, index uint64) (val types.StateInfo)",
   "  val, found := k.GetStateInfo(ctx, rollappId, index)",
   "  if !found",
   "    panic()",
   "  return"] := rfl

/-- `Keeper.CheckLiveness` as mirrored by the model -/
theorem checkLiveness_skeleton : Gen.Core.L.checkLiveness =
  ["func (k Keeper) CheckLiveness(ctx sdk.Context)",
   "  h := ctx.BlockHeight()",
   "  events := k.GetLivenessEvents(ctx, &h)",
   "  for _, e := range events",
   "    err := osmoutils.ApplyFuncIfNoError(ctx, func#1)",
   "      func#1 (ctx sdk.Context) error",
   "        return k.HandleLivenessEvent(ctx, e)",
   "    if err != nil"] := rfl

/-- `Keeper.HandleLivenessEvent` as mirrored by the model -/
theorem handleLivenessEvent_skeleton : Gen.Core.L.handleLivenessEvent =
  ["func (k Keeper) HandleLivenessEvent(ctx sdk.Context, e types.LivenessEvent) error",
   "  err := k.SequencerK.SlashLiveness(ctx, e.RollappId)",
   "  if err != nil",
   "    return err",
   "  ra := k.MustGetRollapp(ctx, e.RollappId)",
   "  k.DelLivenessEvents(ctx, e.HubHeight, e.RollappId)",
   "  k.ScheduleLivenessEvent(ctx, &ra)",
   "  k.SetRollapp(ctx, ra)",
   "  return nil"] := rfl

/-- `Keeper.IndicateLiveness` as mirrored by the model -/
theorem indicateLiveness_skeleton : Gen.Core.L.indicateLiveness =
  ["func (k Keeper) IndicateLiveness(ctx sdk.Context, ra *types.Rollapp)",
   "  k.ResetLivenessClock(ctx, ra)",
   "  k.ScheduleLivenessEvent(ctx, ra)"] := rfl

/-- `Keeper.ResetLivenessClock` as mirrored by the model -/
theorem resetLivenessClock_skeleton : Gen.Core.L.resetLivenessClock =
  ["func (k Keeper) ResetLivenessClock(ctx sdk.Context, ra *types.Rollapp)",
   "  k.DelLivenessEvents(ctx, ra.LivenessEventHeight, ra.RollappId)",
   "  ra.LivenessEventHeight = 0",
   "  ra.LivenessCountdownStartHeight = ctx.BlockHeight()"] := rfl

/-- `Keeper.ScheduleLivenessEvent` as mirrored by the model -/
theorem scheduleLivenessEvent_skeleton : Gen.Core.L.scheduleLivenessEvent =
  ["func (k Keeper) ScheduleLivenessEvent(ctx sdk.Context, ra *types.Rollapp)",
   "  params := k.GetParams(ctx)",
   "  nextH := NextSlashHeight(params.LivenessSlashBlocks, params.LivenessSlashInterval, ctx.BlockHeight(), ra.LivenessCountdownStartHeight)",
   "  ra.LivenessEventHeight = nextH",
   "  k.PutLivenessEvent(ctx, types.LivenessEvent{RollappId: ra.RollappId, HubHeight: nextH})"] := rfl

/-- `Keeper.GetLivenessEvents` as mirrored by the model -/
theorem getLivenessEvents_skeleton : Gen.Core.L.getLivenessEvents =
  ["func (k Keeper) GetLivenessEvents(ctx sdk.Context, height *int64) []types.LivenessEvent",
   "  store := ctx.KVStore(k.storeKey)",
   "  key := types.LivenessEventQueueKeyPrefix",
   "  if height != nil",
   "    key = types.LivenessEventQueueIterHeightKey(*height)",
   "  iterator := storetypes.KVStorePrefixIterator(store, key)",
   "  defer iterator.Close()",
   "  ret := []types.LivenessEvent{}",
   "  for ; iterator.Valid(); iterator.Next()",
   "    e := types.LivenessEventQueueKeyToEvent(iterator.Key())",
   "    if height != nil && *height < e.HubHeight",
   "      break",
   "    ret = append(ret, e)",
   "  return ret"] := rfl

/-- `Keeper.PutLivenessEvent` as mirrored by the model -/
theorem putLivenessEvent_skeleton : Gen.Core.L.putLivenessEvent =
  ["func (k Keeper) PutLivenessEvent(ctx sdk.Context, e types.LivenessEvent)",
   "  store := ctx.KVStore(k.storeKey)",
   "  key := types.LivenessEventQueueKey(e)",
   "  store.Set(key, []byte{})"] := rfl

/-- `Keeper.DelLivenessEvents` as mirrored by the model -/
theorem delLivenessEvents_skeleton : Gen.Core.L.delLivenessEvents =
  ["func (k Keeper) DelLivenessEvents(ctx sdk.Context, height int64, rollappID string)",
   "  store := ctx.KVStore(k.storeKey)",
   "  key := types.LivenessEventQueueKey(types.LivenessEvent{RollappId: rollappID, HubHeight: height})",
   "  store.Delete(key)"] := rfl

/-- `Keeper.CanUnbond` as mirrored by the model -/
theorem canUnbond_skeleton : Gen.Core.L.canUnbond =
  ["func (k Keeper) CanUnbond(ctx sdk.Context, seq sequencertypes.Sequencer) error",
   "  rng := collections.NewPrefixedPairRange[string, uint64](seq.Address)",
   "  return k.seqToUnfinalizedHeight.Walk(ctx, rng, func#1)",
   "    func#1 (key collections.Pair[string, uint64]) (stop bool, err error)",
   "      return true, sequencertypes.ErrUnbondNotAllowed"] := rfl

/-- `Keeper.PruneSequencerHeights` as mirrored by the model -/
theorem pruneSequencerHeights_skeleton : Gen.Core.L.pruneSequencerHeights =
  ["func (k Keeper) PruneSequencerHeights(ctx sdk.Context, sequencers []string, h uint64) error",
   "  for _, seqAddr := range sequencers",
   "    rng := collections.NewPrefixedPairRange[string, uint64](seqAddr).StartExclusive(h)",
   "    err := k.seqToUnfinalizedHeight.Clear(ctx, rng)",
   "    if err != nil",
   "      return err",
   "  return nil"] := rfl

/-- `Keeper.SaveSequencerHeight` as mirrored by the model -/
theorem saveSequencerHeight_skeleton : Gen.Core.L.saveSequencerHeight =
  ["func (k Keeper) SaveSequencerHeight(ctx sdk.Context, seqAddr string, height uint64) error",
   "  return k.seqToUnfinalizedHeight.Set(ctx, collections.Join(seqAddr, height))"] := rfl

/-- `Keeper.DelSequencerHeight` as mirrored by the model -/
theorem delSequencerHeight_skeleton : Gen.Core.L.delSequencerHeight =
  ["func (k Keeper) DelSequencerHeight(ctx sdk.Context, seqAddr string, height uint64) error",
   "  return k.seqToUnfinalizedHeight.Remove(ctx, collections.Join(seqAddr, height))"] := rfl

/-- `Keeper.FinalizeRollappStates` as mirrored by the model -/
theorem finalizeRollappStates_skeleton : Gen.Core.L.finalizeRollappStates =
  ["func (k Keeper) FinalizeRollappStates(ctx sdk.Context)",
   "  if uint64(ctx.BlockHeight()) < k.DisputePeriodInBlocks(ctx)",
   "    return",
   "  finalizationHeight := uint64(ctx.BlockHeight() - int64(k.DisputePeriodInBlocks(ctx)))",
   "  queue, err := k.GetFinalizationQueueUntilHeightInclusive(ctx, finalizationHeight)",
   "  if err != nil",
   "    return",
   "  k.FinalizeAllPending(ctx, queue)"] := rfl

/-- `Keeper.FinalizeAllPending` as mirrored by the model -/
theorem finalizeAllPending_skeleton : Gen.Core.L.finalizeAllPending =
  ["func (k Keeper) FinalizeAllPending(ctx sdk.Context, pendingQueues []types.BlockHeightToFinalizationQueue)",
   "  failedRollapps := make(map[string]struct{})",
   "  for _, queue := range pendingQueues",
   "    _, failed := failedRollapps[queue.RollappId]",
   "    if failed",
   "      continue",
   "    finalized := k.FinalizeStates(ctx, queue)",
   "    if !finalized",
   "      failedRollapps[queue.RollappId] = struct{}{}"] := rfl

/-- `Keeper.FinalizeStates` as mirrored by the model -/
theorem finalizeStates_skeleton : Gen.Core.L.finalizeStates =
  ["func (k Keeper) FinalizeStates(ctx sdk.Context, queue types.BlockHeightToFinalizationQueue) bool",
   "  for i, stateInfoIndex := range queue.FinalizationQueue",
   "    err := osmoutils.ApplyFuncIfNoError(ctx, func#1)",
   "      func#1 (ctx sdk.Context) error",
   "        return k.finalizePending(ctx, stateInfoIndex)",
   "    if err != nil",
   "      queue.FinalizationQueue = slices.Delete(queue.FinalizationQueue, 0, i)",
   "      k.MustSetFinalizationQueue(ctx, queue)",
   "      return false",
   "  k.MustRemoveFinalizationQueue(ctx, queue.CreationHeight, queue.RollappId)",
   "  return true"] := rfl

/-- `Keeper.finalizePendingState` as mirrored by the model -/
theorem finalizePendingState_skeleton : Gen.Core.L.finalizePendingState =
  ["func (k *Keeper) finalizePendingState(ctx sdk.Context, stateInfoIndex types.StateInfoIndex) error",
   "  stateInfo := k.MustGetStateInfo(ctx, stateInfoIndex.RollappId, stateInfoIndex.Index)",
   "  if stateInfo.Status != common.Status_PENDING",
   "    panic()",
   "  stateInfo.Finalize()",
   "  k.SetStateInfo(ctx, stateInfo)",
   "  k.SetLatestFinalizedStateIndex(ctx, stateInfoIndex)",
   "  for _, bd := range stateInfo.BDs.BD",
   "    err := k.DelSequencerHeight(ctx, stateInfo.Sequencer, bd.Height)",
   "    if err != nil",
   "      return err",
   "  err := k.GetHooks().AfterStateFinalized(ctx, stateInfoIndex.RollappId, &stateInfo)",
   "  if err != nil",
   "    return fmt.Errorf(err)",
   "  return nil"] := rfl

/-- `Keeper.SetFinalizationQueue` as mirrored by the model -/
theorem setFinalizationQueue_skeleton : Gen.Core.L.setFinalizationQueue =
  ["func (k Keeper) SetFinalizationQueue(ctx sdk.Context, queue types.BlockHeightToFinalizationQueue) error",
   "  return k.finalizationQueue.Set(ctx, collections.Join(queue.CreationHeight, queue.RollappId), queue)"] := rfl

/-- `Keeper.GetFinalizationQueue` as mirrored by the model -/
theorem getFinalizationQueue_skeleton : Gen.Core.L.getFinalizationQueue =
  ["func (k Keeper) GetFinalizationQueue(ctx sdk.Context, height uint64, rollappID string) (types.BlockHeightToFinalizationQueue, bool)",
   "  queue, err := k.finalizationQueue.Get(ctx, collections.Join(height, rollappID))",
   "  if err != nil && !errors.Is(err, collections.ErrNotFound)",
   "    panic(err)",
   "  found := err == nil",
   "  return queue, found"] := rfl

/-- `Keeper.RemoveFinalizationQueue` as mirrored by the model -/
theorem removeFinalizationQueue_skeleton : Gen.Core.L.removeFinalizationQueue =
  ["func (k Keeper) RemoveFinalizationQueue(ctx sdk.Context, height uint64, rollappID string) error",
   "  return k.finalizationQueue.Remove(ctx, collections.Join(height, rollappID))"] := rfl

/-- `Keeper.GetFinalizationQueueUntilHeightInclusive` as mirrored by the model -/
theorem getFinalizationQueueUntilHeightInclusive_skeleton : Gen.Core.L.getFinalizationQueueUntilHeightInclusive =
  ["func (k Keeper) GetFinalizationQueueUntilHeightInclusive(ctx sdk.Context, height uint64) ([]types.BlockHeightToFinalizationQueue, error)",
   "  rng := collections.NewPrefixUntilPairRange[uint64, string](height)",
   "  iter, err := k.finalizationQueue.Iterate(ctx, rng)",
   "  if err != nil",
   "    return nil, err",
   "  defer iter.Close()",
   "  return iter.Values()"] := rfl

/-- `Keeper.GetFinalizationQueueByRollapp` as mirrored by the model -/
theorem getFinalizationQueueByRollapp_skeleton : Gen.Core.L.getFinalizationQueueByRollapp =
  ["func (k Keeper) GetFinalizationQueueByRollapp(ctx sdk.Context, rollapp string) ([]types.BlockHeightToFinalizationQueue, error)",
   "  iter, err := k.finalizationQueue.Indexes.RollappIDReverseLookup.MatchExact(ctx, rollapp)",
   "  if err != nil",
   "    return nil, err",
   "  defer iter.Close()",
   "  var res []types.BlockHeightToFinalizationQueue",
   "  for ; iter.Valid(); iter.Next()",
   "    key, err := iter.PrimaryKey()",
   "    if err != nil",
   "      return nil, err",
   "    queue, err := k.finalizationQueue.Get(ctx, key)",
   "    if err != nil",
   "      return nil, err",
   "    res = append(res, queue)",
   "  return res, nil"] := rfl

/-- `Keeper.SubmitRollappFraud` as mirrored by the model -/
theorem submitRollappFraud_skeleton : Gen.Core.L.submitRollappFraud =
  ["func (k Keeper) SubmitRollappFraud(goCtx context.Context, msg *types.MsgRollappFraudProposal) (*types.MsgRollappFraudProposalResponse, error)",
   "  if msg.Authority != k.authority",
   "    err := gerrc.ErrUnauthenticated",
   "    return nil, err",
   "  err := msg.ValidateBasic()",
   "  if err != nil",
   "    err = gerrc.ErrInvalidArgument",
   "    return nil, err",
   "  rollapp, found := k.GetRollapp(ctx, msg.RollappId)",
   "  if !found",
   "    err := gerrc.ErrNotFound",
   "    return nil, err",
   "  if rollapp.GetRevisionForHeight(msg.FraudHeight).Number != msg.FraudRevision",
   "    err := gerrc.ErrFailedPrecondition",
   "    return nil, err",
   "  if msg.PunishSequencerAddress != \"\"",
   "    err := k.SequencerK.PunishSequencer(ctx, msg.PunishSequencerAddress, msg.MustRewardee())",
   "    if err != nil",
   "      return nil, err",
   "  err := k.HardFork(ctx, msg.RollappId, msg.FraudHeight-1)",
   "  if err != nil",
   "    return nil, err",
   "  return &types.MsgRollappFraudProposalResponse{}, nil"] := rfl

/-- `msgServer.MarkObsoleteRollapps` as mirrored by the model -/
theorem msgMarkObsoleteRollapps_skeleton : Gen.Core.L.msgMarkObsoleteRollapps =
  ["func (k msgServer) MarkObsoleteRollapps(goCtx context.Context, msg *types.MsgMarkObsoleteRollapps) (*types.MsgMarkObsoleteRollappsResponse, error)",
   "  err := msg.ValidateBasic()",
   "  if err != nil",
   "    return nil, err",
   "  if msg.Authority != k.authority",
   "    return nil, gerrc.ErrInvalidArgument",
   "  obsoleteNum, err := k.Keeper.MarkObsoleteRollapps(ctx, msg.DrsVersions)",
   "  if err != nil",
   "    return nil, fmt.Errorf(err)",
   "  return &types.MsgMarkObsoleteRollappsResponse{}, nil"] := rfl

/-- `Keeper.MarkObsoleteRollapps` as mirrored by the model -/
theorem markObsoleteRollapps_skeleton : Gen.Core.L.markObsoleteRollapps =
  ["func (k Keeper) MarkObsoleteRollapps(ctx sdk.Context, drsVersions []uint32) (int, error)",
   "  obsoleteVersions := make(map[uint32]struct{})",
   "  for _, v := range drsVersions",
   "    obsoleteVersions[v] = struct{}{}",
   "    err := k.SetObsoleteDRSVersion(ctx, v)",
   "    if err != nil",
   "      return 0, fmt.Errorf(err)",
   "  var obsoleteNum int",
   "  for _, rollapp := range k.GetAllRollapps(ctx)",
   "    info, found := k.GetLatestStateInfo(ctx, rollapp.RollappId)",
   "    if !found",
   "      continue",
   "    bd := info.BDs.BD[len(info.BDs.BD)-1]",
   "    _, obsolete := obsoleteVersions[bd.DrsVersion]",
   "    if obsolete",
   "      err := osmoutils.ApplyFuncIfNoError(ctx, func#1)",
   "        func#1 (ctx sdk.Context) error",
   "          return k.HardForkToLatest(ctx, rollapp.RollappId)",
   "      if err != nil",
   "      obsoleteNum++",
   "  return obsoleteNum, nil"] := rfl

/-- `msgServer.TransferOwnership` as mirrored by the model -/
theorem transferOwnership_skeleton : Gen.Core.L.transferOwnership =
  ["func (k msgServer) TransferOwnership(goCtx context.Context, msg *types.MsgTransferOwnership) (*types.MsgTransferOwnershipResponse, error)",
   "  err := msg.ValidateBasic()",
   "  if err != nil",
   "    return nil, types.ErrInvalidRequest",
   "  rollapp, ok := k.GetRollapp(ctx, msg.RollappId)",
   "  if !ok",
   "    return nil, types.ErrUnknownRollappID",
   "  if rollapp.Owner != msg.CurrentOwner",
   "    return nil, types.ErrUnauthorizedSigner",
   "  if rollapp.Owner == msg.NewOwner",
   "    return nil, types.ErrSameOwner",
   "  bk, ok := k.bankKeeper.(interface{BlockedAddr(sdk.AccAddress) bool})",
   "  if ok",
   "    newOwner, err := sdk.AccAddressFromBech32(msg.NewOwner)",
   "    if err != nil || bk.BlockedAddr(newOwner)",
   "      return nil, types.ErrInvalidRequest",
   "  rollapp.Owner = msg.NewOwner",
   "  k.SetRollapp(ctx, rollapp)",
   "  return &types.MsgTransferOwnershipResponse{}, nil"] := rfl

/-- `SequencerHooks.AfterSetRealProposer` as mirrored by the model -/
theorem afterSetRealProposer_skeleton : Gen.Core.L.afterSetRealProposer =
  ["func (h SequencerHooks) AfterSetRealProposer(ctx sdk.Context, rollapp string, newSeq sequencertypes.Sequencer) error",
   "  ra := h.Keeper.MustGetRollapp(ctx, rollapp)",
   "  h.Keeper.IndicateLiveness(ctx, &ra)",
   "  h.Keeper.SetRollapp(ctx, ra)",
   "  sInfo, ok := h.Keeper.GetLatestStateInfo(ctx, rollapp)",
   "  if !ok",
   "    return nil",
   "  sInfo.NextProposer = newSeq.Address",
   "  h.Keeper.SetStateInfo(ctx, sInfo)",
   "  return nil"] := rfl

/-- `SequencerHooks.AfterKickProposer` as mirrored by the model -/
theorem afterKickProposer_skeleton : Gen.Core.L.afterKickProposer =
  ["func (h SequencerHooks) AfterKickProposer(ctx sdk.Context, kicked sequencertypes.Sequencer) error",
   "  err := h.Keeper.HardForkToLatest(ctx, kicked.RollappId)",
   "  if err != nil",
   "    return err",
   "  return nil"] := rfl

/-- `Keeper.SetRollappAsLaunched` as mirrored by the model -/
theorem setRollappAsLaunched_skeleton : Gen.Core.L.setRollappAsLaunched =
  ["func (k Keeper) SetRollappAsLaunched(ctx sdk.Context, rollapp *types.Rollapp) error",
   "  if !rollapp.AllImmutableFieldsAreSet()",
   "    return gerrc.ErrFailedPrecondition",
   "  rollapp.GenesisInfo.Sealed = true",
   "  rollapp.Launched = true",
   "  k.SetRollapp(ctx, *rollapp)",
   "  return nil"] := rfl

/-- `Keeper.MinBond` as mirrored by the model -/
theorem minBond_skeleton : Gen.Core.L.minBond =
  ["func (k *Keeper) MinBond(ctx sdk.Context, rollappID string) sdk.Coin",
   "  ra := k.MustGetRollapp(ctx, rollappID)",
   "  return ra.MinSequencerBond[0]"] := rfl

/-- `AppModule.EndBlock` as mirrored by the model -/
theorem rollappEndBlock_skeleton : Gen.Core.L.rollappEndBlock =
  ["func (am AppModule) EndBlock(goCtx context.Context) error",
   "  am.keeper.FinalizeRollappStates(ctx)",
   "  am.keeper.CheckLiveness(ctx)",
   "  return nil"] := rfl

/-- `NewStateInfo` as mirrored by the model -/
theorem newStateInfo_skeleton : Gen.Core.L.newStateInfo =
  ["func NewStateInfo(rollappId string, newIndex uint64, creator string, startHeight uint64, numBlocks uint64, daPath string, height uint64, BDs BlockDescriptors, createdAt time.Time, nextProposer string) *StateInfo",
   "  stateInfoIndex := StateInfoIndex{RollappId: rollappId, Index: newIndex}",
   "  status := common.Status_PENDING",
   "  return &StateInfo{StateInfoIndex: stateInfoIndex, Sequencer: creator, StartHeight: startHeight, NumBlocks: numBlocks, DAPath: daPath, CreationHeight: height, Status: status, BDs: BDs, CreatedAt: createdAt, NextProposer: nextProposer}"] := rfl

/-- `StateInfo.Finalize` as mirrored by the model -/
theorem stateInfoFinalize_skeleton : Gen.Core.L.stateInfoFinalize =
  ["func (s *StateInfo) Finalize()",
   "  s.Status = common.Status_FINALIZED"] := rfl

/-- `StateInfo.GetLatestHeight` as mirrored by the model -/
theorem stateInfoGetLatestHeight_skeleton : Gen.Core.L.stateInfoGetLatestHeight =
  ["func (s *StateInfo) GetLatestHeight() uint64",
   "  if s.StartHeight+s.NumBlocks > 0",
   "    return s.StartHeight + s.NumBlocks - 1",
   "  return 0"] := rfl

/-- `StateInfo.ContainsHeight` as mirrored by the model -/
theorem stateInfoContainsHeight_skeleton : Gen.Core.L.stateInfoContainsHeight =
  ["func (s *StateInfo) ContainsHeight(height uint64) bool",
   "  return s.StartHeight <= height && height <= s.GetLatestHeight()"] := rfl

/-- `StateInfo.GetLatestBlockDescriptor` as mirrored by the model -/
theorem stateInfoGetLatestBlockDescriptor_skeleton : Gen.Core.L.stateInfoGetLatestBlockDescriptor =
  ["func (s *StateInfo) GetLatestBlockDescriptor() BlockDescriptor",
   "  return s.BDs.BD[len(s.BDs.BD)-1]"] := rfl

/-- `StateInfo.NextSequencerForHeight` as mirrored by the model -/
theorem stateInfoNextSequencerForHeight_skeleton : Gen.Core.L.stateInfoNextSequencerForHeight =
  ["func (s *StateInfo) NextSequencerForHeight(height uint64) string",
   "  if height != s.GetLatestHeight()",
   "    return s.Sequencer",
   "  return s.NextProposer"] := rfl

/-- `MsgUpdateState.ValidateBasic` as mirrored by the model -/
theorem msgUpdateStateValidateBasic_skeleton : Gen.Core.L.msgUpdateStateValidateBasic =
  ["func (msg *MsgUpdateState) ValidateBasic() error",
   "  _, err := sdk.AccAddressFromBech32(msg.Creator)",
   "  if err != nil",
   "    return ErrInvalidAddress",
   "  if msg.NumBlocks == uint64(0)",
   "    return ErrInvalidNumBlocks",
   "  if msg.NumBlocks > math.MaxUint64-msg.StartHeight",
   "    return ErrInvalidNumBlocks",
   "  if len(msg.BDs.BD) != int(msg.NumBlocks)",
   "    return ErrInvalidNumBlocks",
   "  if msg.StartHeight == 0",
   "    return ErrWrongBlockHeight",
   "  for bdIndex := uint64(0); bdIndex < msg.NumBlocks; bdIndex += 1",
   "    if msg.BDs.BD[bdIndex].Height != msg.StartHeight+bdIndex",
   "      return ErrInvalidBlockSequence",
   "    if len(msg.BDs.BD[bdIndex].StateRoot) != 32",
   "      return ErrInvalidStateRoot",
   "  return nil"] := rfl

/-- `BlockDescriptors.Validate` as mirrored by the model -/
theorem blockDescriptorsValidate_skeleton : Gen.Core.L.blockDescriptorsValidate =
  ["func (bds BlockDescriptors) Validate() error",
   "  for _, bd := range bds.BD",
   "    err := bd.Validate()",
   "    if err != nil",
   "      return err",
   "  return nil"] := rfl

/-- `BlockDescriptor.Validate` as mirrored by the model -/
theorem blockDescriptorValidateL_skeleton : Gen.Core.L.blockDescriptorValidateL =
  ["func (bd BlockDescriptor) Validate() error",
   "  if bd.Timestamp.IsZero()",
   "    return ErrInvalidBlockDescriptorTimestamp",
   "  return nil"] := rfl

/-- `Rollapp.LatestRevision` as mirrored by the model -/
theorem rollappLatestRevision_skeleton : Gen.Core.L.rollappLatestRevision =
  ["func (r Rollapp) LatestRevision() Revision",
   "  if len(r.Revisions) == 0",
   "    return Revision{}",
   "  return r.Revisions[len(r.Revisions)-1]"] := rfl

/-- `Rollapp.GetRevisionForHeight` as mirrored by the model -/
theorem rollappGetRevisionForHeight_skeleton : Gen.Core.L.rollappGetRevisionForHeight =
  ["func (r Rollapp) GetRevisionForHeight(h uint64) Revision",
   "  for i := len(r.Revisions) - 1; i >= 0; i--",
   "    if r.Revisions[i].StartHeight <= h",
   "      return r.Revisions[i]",
   "  return Revision{}"] := rfl

/-- `Rollapp.BumpRevision` as mirrored by the model -/
theorem rollappBumpRevision_skeleton : Gen.Core.L.rollappBumpRevision =
  ["func (r *Rollapp) BumpRevision(nextRevisionStartHeight uint64)",
   "  r.Revisions = append(r.Revisions, Revision{Number: r.LatestRevision().Number + 1, StartHeight: nextRevisionStartHeight})"] := rfl

/-- `MsgRollappFraudProposal.ValidateBasic` as mirrored by the model -/
theorem fraudProposalValidateBasic_skeleton : Gen.Core.L.fraudProposalValidateBasic =
  ["func (m *MsgRollappFraudProposal) ValidateBasic() error",
   "  _, err := sdk.AccAddressFromBech32(m.Authority)",
   "  if err != nil",
   "    return errors.Join(gerrc.ErrInvalidArgument, err)",
   "  if m.Rewardee != \"\"",
   "    _, err := sdk.AccAddressFromBech32(m.Rewardee)",
   "    if err != nil",
   "      return errors.Join(gerrc.ErrInvalidArgument, err)",
   "  return nil"] := rfl

/-- `MsgRollappFraudProposal.MustRewardee` as mirrored by the model -/
theorem fraudProposalMustRewardee_skeleton : Gen.Core.L.fraudProposalMustRewardee =
  ["func (m *MsgRollappFraudProposal) MustRewardee() *sdk.AccAddress",
   "  if m.Rewardee == \"\"",
   "    return nil",
   "  rewardee, _ := sdk.AccAddressFromBech32(m.Rewardee)",
   "  return &rewardee"] := rfl

/-- `MsgMarkObsoleteRollapps.ValidateBasic` as mirrored by the model -/
theorem markObsoleteValidateBasicL_skeleton : Gen.Core.L.markObsoleteValidateBasicL =
  ["func (m MsgMarkObsoleteRollapps) ValidateBasic() error",
   "  _, err := sdk.AccAddressFromBech32(m.Authority)",
   "  if err != nil",
   "    return errors.Join(gerrc.ErrInvalidArgument, err)",
   "  if len(m.DrsVersions) == 0",
   "    return gerrc.ErrInvalidArgument",
   "  return nil"] := rfl

/-- `Keeper.TryUnbond` as mirrored by the model -/
theorem tryUnbond_skeleton : Gen.Core.L.tryUnbond =
  ["func (k Keeper) TryUnbond(ctx sdk.Context, seq *types.Sequencer, amt sdk.Coin) error",
   "  if k.IsProposer(ctx, *seq) || k.IsSuccessor(ctx, *seq)",
   "    return types.ErrUnbondProposerOrSuccessor",
   "  for _, c := range k.unbondBlockers",
   "    err := c.CanUnbond(ctx, *seq)",
   "    if err != nil",
   "      return err",
   "  bond := seq.TokensCoin()",
   "  minBond := k.rollappKeeper.MinBond(ctx, seq.RollappId)",
   "  maxReduction, _ := bond.SafeSub(minBond)",
   "  isPartial := !amt.IsEqual(bond)",
   "  if isPartial && maxReduction.IsLT(amt)",
   "    return types.ErrUnbondNotAllowed",
   "  err := k.refund(ctx, seq, amt)",
   "  if err != nil",
   "    return err",
   "  if seq.Tokens.IsZero()",
   "    k.unbond(ctx, seq)",
   "  return nil"] := rfl

/-- `Keeper.unbond` as mirrored by the model -/
theorem unbondInternal_skeleton : Gen.Core.L.unbondInternal =
  ["func (k Keeper) unbond(ctx sdk.Context, seq *types.Sequencer)",
   "  seq.Status = types.Unbonded"] := rfl

/-- `validBondDenom` as mirrored by the model -/
theorem validBondDenomL_skeleton : Gen.Core.L.validBondDenomL =
  ["func validBondDenom(c sdk.Coin) error",
   "  if c.Denom != commontypes.DYMCoin.Denom",
   "    return types.ErrInvalidDenom",
   "  return nil"] := rfl

/-- `Keeper.sufficientBond` as mirrored by the model -/
theorem sufficientBondL_skeleton : Gen.Core.L.sufficientBondL =
  ["func (k Keeper) sufficientBond(ctx sdk.Context, rollapp string, c sdk.Coin) error",
   "  err := validBondDenom(c)",
   "  if err != nil",
   "    return err",
   "  minBond := k.rollappKeeper.MinBond(ctx, rollapp)",
   "  if c.IsLT(minBond)",
   "    return types.ErrInsufficientBond",
   "  return nil"] := rfl

/-- `Keeper.Kickable` as mirrored by the model -/
theorem kickableL_skeleton : Gen.Core.L.kickableL =
  ["func (k Keeper) Kickable(ctx sdk.Context, proposer types.Sequencer) bool",
   "  kickThreshold := k.GetParams(ctx).DishonorKickThreshold",
   "  return !proposer.Sentinel() && kickThreshold <= proposer.Dishonor"] := rfl

/-- `Keeper.burn` as mirrored by the model -/
theorem burn_skeleton : Gen.Core.L.burn =
  ["func (k Keeper) burn(ctx sdk.Context, seq *types.Sequencer, amt sdk.Coin) error",
   "  seq.SetTokensCoin(seq.TokensCoin().Sub(amt))",
   "  return k.bankKeeper.BurnCoins(ctx, types.ModuleName, sdk.NewCoins(amt))"] := rfl

/-- `Keeper.refund` as mirrored by the model -/
theorem refund_skeleton : Gen.Core.L.refund =
  ["func (k Keeper) refund(ctx sdk.Context, seq *types.Sequencer, amt sdk.Coin) error",
   "  return k.sendFromModule(ctx, seq, amt, seq.AccAddr())"] := rfl

/-- `Keeper.sendFromModule` as mirrored by the model -/
theorem sendFromModule_skeleton : Gen.Core.L.sendFromModule =
  ["func (k Keeper) sendFromModule(ctx sdk.Context, seq *types.Sequencer, amt sdk.Coin, recipient sdk.AccAddress) error",
   "  seq.SetTokensCoin(seq.TokensCoin().Sub(amt))",
   "  return k.bankKeeper.SendCoinsFromModuleToAccount(ctx, types.ModuleName, recipient, sdk.NewCoins(amt))"] := rfl

/-- `Keeper.sendToModule` as mirrored by the model -/
theorem sendToModule_skeleton : Gen.Core.L.sendToModule =
  ["func (k Keeper) sendToModule(ctx sdk.Context, seq *types.Sequencer, amt sdk.Coin) error",
   "  seq.SetTokensCoin(seq.TokensCoin().Add(amt))",
   "  return k.bankKeeper.SendCoinsFromAccountToModule(ctx, seq.AccAddr(), types.ModuleName, sdk.NewCoins(amt))"] := rfl

/-- `Keeper.TryKickProposer` as mirrored by the model -/
theorem tryKickProposer_skeleton : Gen.Core.L.tryKickProposer =
  ["func (k Keeper) TryKickProposer(ctx sdk.Context, kicker types.Sequencer) error",
   "  if !kicker.IsPotentialProposer()",
   "    return gerrc.ErrFailedPrecondition",
   "  ra := kicker.RollappId",
   "  proposer := k.GetProposer(ctx, ra)",
   "  if kicker.Address == proposer.Address",
   "    return gerrc.ErrFailedPrecondition",
   "  if !k.Kickable(ctx, proposer)",
   "    return gerrc.ErrFailedPrecondition",
   "  k.abruptRemoveProposer(ctx, ra)",
   "  err := k.hooks.AfterKickProposer(ctx, proposer)",
   "  if err != nil",
   "    return err",
   "  err := kicker.SetOptedIn(ctx, true)",
   "  if err != nil",
   "    return err",
   "  k.SetSequencer(ctx, kicker)",
   "  err := k.RecoverFromSentinel(ctx, ra)",
   "  if err != nil",
   "    return err",
   "  return nil"] := rfl

/-- `Keeper.SlashLiveness` as mirrored by the model -/
theorem slashLiveness_skeleton : Gen.Core.L.slashLiveness =
  ["func (k Keeper) SlashLiveness(ctx sdk.Context, rollappID string) error",
   "  seq := k.GetProposer(ctx, rollappID)",
   "  if seq.Sentinel()",
   "    return nil",
   "  err := k.livenessSlash(ctx, &seq)",
   "  if err != nil",
   "    return err",
   "  k.livenessDishonor(ctx, &seq)",
   "  k.SetSequencer(ctx, seq)",
   "  return nil"] := rfl

/-- `Keeper.livenessSlash` as mirrored by the model -/
theorem livenessSlash_skeleton : Gen.Core.L.livenessSlash =
  ["func (k Keeper) livenessSlash(ctx sdk.Context, seq *types.Sequencer) error",
   "  mul := k.GetParams(ctx).LivenessSlashMinMultiplier",
   "  abs := k.GetParams(ctx).LivenessSlashMinAbsolute",
   "  tokens := seq.TokensCoin()",
   "  tokensMul := ucoin.MulDec(mul, tokens)",
   "  amt := ucoin.SimpleMin(tokens, ucoin.SimpleMax(abs, tokensMul[0]))",
   "  return k.slash(ctx, seq, amt, math.LegacyZeroDec(), nil)"] := rfl

/-- `Keeper.livenessHonor` as mirrored by the model -/
theorem livenessHonorL_skeleton : Gen.Core.L.livenessHonorL =
  ["func (k Keeper) livenessHonor(ctx sdk.Context, seq *types.Sequencer)",
   "  reward := k.GetParams(ctx).DishonorStateUpdate",
   "  reward = min(reward, seq.Dishonor)",
   "  seq.Dishonor -= reward"] := rfl

/-- `Keeper.livenessDishonor` as mirrored by the model -/
theorem livenessDishonorL_skeleton : Gen.Core.L.livenessDishonorL =
  ["func (k Keeper) livenessDishonor(ctx sdk.Context, seq *types.Sequencer)",
   "  penalty := k.GetParams(ctx).DishonorLiveness",
   "  seq.Dishonor += penalty"] := rfl

/-- `Keeper.PunishSequencer` as mirrored by the model -/
theorem punishSequencer_skeleton : Gen.Core.L.punishSequencer =
  ["func (k Keeper) PunishSequencer(ctx sdk.Context, seqAddr string, rewardee *sdk.AccAddress) error",
   "  var rewardMul = math.LegacyZeroDec()",
   "  var addr = []byte(nil)",
   "  seq, err := k.RealSequencer(ctx, seqAddr)",
   "  if err != nil",
   "    return err",
   "  if rewardee != nil",
   "    rewardMul = math.LegacyMustNewDecFromStr(\"0.5\")",
   "    addr = *rewardee",
   "  err = k.slash(ctx, &seq, seq.TokensCoin(), rewardMul, addr)",
   "  if err != nil",
   "    return err",
   "  k.SetSequencer(ctx, seq)",
   "  return nil"] := rfl

/-- `NewSequencerProposalHandler` (the legacy gov route of x/sequencer): the only content type it serves
    is the punish proposal — `Core.Op.punish` -/
theorem newSequencerProposalHandler_skeleton : Gen.Core.L.newSequencerProposalHandler =
  ["func NewSequencerProposalHandler(k keeper.Keeper) govtypes.Handler",
   "  return func#1",
   "    func#1 (ctx sdk.Context, content govtypes.Content) error",
   "      switch c := content.(type)",
   "        case *types.PunishSequencerProposal",
   "          return HandlePunishSequencerProposal(ctx, k, c)",
   "        default",
   "          return types.ErrUnknownRequest"] := rfl

/-- `HandlePunishSequencerProposal` as mirrored by `Core.punishProposal`: `PunishSequencer` and nothing
    else (no fork, no role change) -/
theorem handlePunishSequencerProposal_skeleton : Gen.Core.L.handlePunishSequencerProposal =
  ["func HandlePunishSequencerProposal(ctx sdk.Context, k keeper.Keeper, p *types.PunishSequencerProposal) error",
   "  err := k.PunishSequencer(ctx, p.PunishSequencerAddress, p.MustRewardee())",
   "  if err != nil",
   "    return err",
   "  return nil"] := rfl

/-- x/sequencer `msgServer.UpdateParams` as mirrored by `Core.setSeqParams` -/
theorem msgUpdateSeqParams_skeleton : Gen.Core.L.msgUpdateSeqParams =
  ["func (k msgServer) UpdateParams(goCtx context.Context, msg *types.MsgUpdateParams) (*types.MsgUpdateParamsResponse, error)",
   "  if k.authority != msg.Authority",
   "    return nil, sdkerrors.ErrInvalidRequest",
   "  err := k.ValidateParams(ctx, msg.Params)",
   "  if err != nil",
   "    return nil, err",
   "  k.SetParams(ctx, msg.Params)",
   "  return &types.MsgUpdateParamsResponse{}, nil"] := rfl

/-- `Keeper.ValidateParams`: the kick threshold must not be 0 -/
theorem validateSeqParams_skeleton : Gen.Core.L.validateSeqParams =
  ["func (k Keeper) ValidateParams(_ sdk.Context, params types.Params) error",
   "  if params.DishonorKickThreshold == 0",
   "    return gerrc.ErrOutOfRange",
   "  return nil"] := rfl

/-- `Keeper.SetParams`: the whole set is replaced -/
theorem setSeqParamsK_skeleton : Gen.Core.L.setSeqParamsK =
  ["func (k Keeper) SetParams(ctx sdk.Context, params types.Params)",
   "  store := ctx.KVStore(k.storeKey)",
   "  bz := k.cdc.MustMarshal(&params)",
   "  store.Set(types.ParamsKey, bz)"] := rfl

/-- x/sequencer `Params.ValidateBasic` (run by `MsgUpdateParams.ValidateBasic`) -/
theorem seqParamsValidateBasic_skeleton : Gen.Core.L.seqParamsValidateBasic =
  ["func (p Params) ValidateBasic() error",
   "  err := validateTime(p.NoticePeriod)",
   "  if err != nil",
   "    return err",
   "  err := validateLivenessSlashMultiplier(p.LivenessSlashMinMultiplier)",
   "  if err != nil",
   "    return err",
   "  err := uparam.ValidateCoin(p.LivenessSlashMinAbsolute)",
   "  if err != nil",
   "    return err",
   "  err := uparam.ValidateUint64(p.DishonorKickThreshold)",
   "  if err != nil",
   "    return err",
   "  err := uparam.ValidateUint64(p.DishonorLiveness)",
   "  if err != nil",
   "    return err",
   "  err := uparam.ValidateUint64(p.DishonorKickThreshold)",
   "  if err != nil",
   "    return err",
   "  return nil"] := rfl

/-- `validateTime`: the notice period must be positive -/
theorem seqParamsValidateTime_skeleton : Gen.Core.L.seqParamsValidateTime =
  ["func validateTime(i interface{}) error",
   "  v, ok := i.(time.Duration)",
   "  if !ok",
   "    return fmt.Errorf(i)",
   "  if v <= 0",
   "    return fmt.Errorf(v)",
   "  return nil"] := rfl

/-- `validateLivenessSlashMultiplier`: within [0, 1] -/
theorem seqParamsValidateMultiplier_skeleton : Gen.Core.L.seqParamsValidateMultiplier =
  ["func validateLivenessSlashMultiplier(i interface{}) error",
   "  return uparam.ValidateZeroToOneDec(i)"] := rfl

/-- `PunishSequencerProposal.ProposalRoute` -/
theorem punishProposalRoute_skeleton : Gen.Core.L.punishProposalRoute =
  ["func (csp *PunishSequencerProposal) ProposalRoute() string",
   "  return RouterKey"] := rfl

/-- `PunishSequencerProposal.ValidateBasic` (only the v1beta1 submission path calls it; x/gov's
    `ExecLegacyContent` does not: a proposal without a rewardee is executable) -/
theorem punishProposalValidateBasic_skeleton : Gen.Core.L.punishProposalValidateBasic =
  ["func (csp *PunishSequencerProposal) ValidateBasic() error",
   "  err := govtypes.ValidateAbstract(csp)",
   "  if err != nil",
   "    return err",
   "  if len(csp.PunishSequencerAddress) == 0",
   "    return fmt.Errorf()",
   "  if len(csp.Rewardee) == 0",
   "    return fmt.Errorf()",
   "  return nil"] := rfl

/-- `PunishSequencerProposal.MustRewardee` as mirrored by the model (`rewardee : Option Addr`) -/
theorem punishProposalMustRewardee_skeleton : Gen.Core.L.punishProposalMustRewardee =
  ["func (csp PunishSequencerProposal) MustRewardee() *sdk.AccAddress",
   "  if csp.Rewardee == \"\"",
   "    return nil",
   "  rewardee, _ := sdk.AccAddressFromBech32(csp.Rewardee)",
   "  return &rewardee"] := rfl

/-- `Keeper.slash` as mirrored by the model -/
theorem slash_skeleton : Gen.Core.L.slash =
  ["func (k Keeper) slash(ctx sdk.Context, seq *types.Sequencer, amt sdk.Coin, rewardMul math.LegacyDec, rewardee sdk.AccAddress) error",
   "  rewardCoin := ucoin.MulDec(rewardMul, amt)[0]",
   "  if !rewardCoin.IsZero()",
   "    err := k.sendFromModule(ctx, seq, rewardCoin, rewardee)",
   "    if err != nil",
   "      return err",
   "  remainder := amt.Sub(rewardCoin)",
   "  err := k.burn(ctx, seq, remainder)",
   "  return err"] := rfl

/-- `Keeper.StartNoticePeriod` as mirrored by the model -/
theorem startNoticePeriod_skeleton : Gen.Core.L.startNoticePeriod =
  ["func (k Keeper) StartNoticePeriod(ctx sdk.Context, prop *types.Sequencer)",
   "  prop.NoticePeriodTime = ctx.BlockTime().Add(k.GetParams(ctx).NoticePeriod)",
   "  k.AddToNoticeQueue(ctx, *prop)"] := rfl

/-- `Keeper.NoticeElapsedProposers` as mirrored by the model -/
theorem noticeElapsedProposers_skeleton : Gen.Core.L.noticeElapsedProposers =
  ["func (k Keeper) NoticeElapsedProposers(ctx sdk.Context, endTime time.Time) ([]types.Sequencer, error)",
   "  return k.NoticeQueue(ctx, &endTime)"] := rfl

/-- `Keeper.ChooseSuccessorForFinishedNotices` as mirrored by the model -/
theorem chooseSuccessorForFinishedNotices_skeleton : Gen.Core.L.chooseSuccessorForFinishedNotices =
  ["func (k Keeper) ChooseSuccessorForFinishedNotices(ctx sdk.Context, now time.Time) error",
   "  seqs, err := k.NoticeElapsedProposers(ctx, now)",
   "  if err != nil",
   "    return err",
   "  for _, seq := range seqs",
   "    k.removeFromNoticeQueue(ctx, seq)",
   "    err := k.setSuccessorForRotatingRollapp(ctx, seq.RollappId)",
   "    if err != nil",
   "      return err",
   "    successor := k.GetSuccessor(ctx, seq.RollappId)",
   "  return nil"] := rfl

/-- `Keeper.RotationInProgress` as mirrored by the model -/
theorem rotationInProgress_skeleton : Gen.Core.L.rotationInProgress =
  ["func (k Keeper) RotationInProgress(ctx sdk.Context, rollapp string) bool",
   "  prop := k.GetProposer(ctx, rollapp)",
   "  return prop.NoticeInProgress(ctx.BlockTime()) || k.AwaitingLastProposerBlock(ctx, rollapp)"] := rfl

/-- `Keeper.AwaitingLastProposerBlock` as mirrored by the model -/
theorem awaitingLastProposerBlock_skeleton : Gen.Core.L.awaitingLastProposerBlock =
  ["func (k Keeper) AwaitingLastProposerBlock(ctx sdk.Context, rollapp string) bool",
   "  proposer := k.GetProposer(ctx, rollapp)",
   "  return proposer.NoticeElapsed(ctx.BlockTime())"] := rfl

/-- `Keeper.OnProposerLastBlock` as mirrored by the model -/
theorem onProposerLastBlock_skeleton : Gen.Core.L.onProposerLastBlock =
  ["func (k Keeper) OnProposerLastBlock(ctx sdk.Context, proposer types.Sequencer) error",
   "  allowLastBlock := proposer.NoticeElapsed(ctx.BlockTime())",
   "  if !allowLastBlock",
   "    return gerrc.ErrFault",
   "  rollapp := proposer.RollappId",
   "  successor := k.GetSuccessor(ctx, rollapp)",
   "  k.SetSuccessor(ctx, rollapp, types.SentinelSeqAddr)",
   "  k.SetProposer(ctx, rollapp, successor.Address)",
   "  if successor.Sentinel()",
   "    err := k.rollappKeeper.HardForkToLatest(ctx, rollapp)",
   "    if err != nil",
   "      return err",
   "  else",
   "    err := k.hooks.AfterSetRealProposer(ctx, rollapp, successor)",
   "    if err != nil",
   "      return err",
   "  return nil"] := rfl

/-- `Keeper.setSuccessorForRotatingRollapp` as mirrored by the model -/
theorem setSuccessorForRotatingRollapp_skeleton : Gen.Core.L.setSuccessorForRotatingRollapp =
  ["func (k Keeper) setSuccessorForRotatingRollapp(ctx sdk.Context, rollapp string) error",
   "  seqs := k.RollappPotentialProposers(ctx, rollapp)",
   "  successor, err := ProposerChoiceAlgo(seqs)",
   "  if err != nil",
   "    return err",
   "  k.SetSuccessor(ctx, rollapp, successor.Address)",
   "  return nil"] := rfl

/-- `ProposerChoiceAlgo` as mirrored by the model -/
theorem proposerChoiceAlgo_skeleton : Gen.Core.L.proposerChoiceAlgo =
  ["func ProposerChoiceAlgo(seqs []types.Sequencer) (types.Sequencer, error)",
   "  if len(seqs) == 0",
   "    return types.Sequencer{}, gerrc.ErrInternal",
   "  slices.SortStableFunc(seqs, func#1)",
   "    func#1 (a, b types.Sequencer) int",
   "      ca := a.TokensCoin()",
   "      cb := b.TokensCoin()",
   "      if ca.IsEqual(cb)",
   "        return 0",
   "      if ca.IsLT(cb)",
   "        return 1",
   "      return -1",
   "  return seqs[0], nil"] := rfl

/-- `Keeper.afterStateUpdate` as mirrored by the model -/
theorem afterStateUpdate_skeleton : Gen.Core.L.afterStateUpdate =
  ["func (k Keeper) afterStateUpdate(ctx sdk.Context, prop types.Sequencer, last bool) error",
   "  k.livenessHonor(ctx, &prop)",
   "  k.SetSequencer(ctx, prop)",
   "  if last",
   "    return k.OnProposerLastBlock(ctx, prop)",
   "  return nil"] := rfl

/-- `Keeper.abruptRemoveProposer` as mirrored by the model -/
theorem abruptRemoveProposer_skeleton : Gen.Core.L.abruptRemoveProposer =
  ["func (k Keeper) abruptRemoveProposer(ctx sdk.Context, rollapp string)",
   "  proposer := k.GetProposer(ctx, rollapp)",
   "  if proposer.Sentinel()",
   "    return",
   "  k.removeFromNoticeQueue(ctx, proposer)",
   "  k.unbond(ctx, &proposer)",
   "  k.SetSequencer(ctx, proposer)",
   "  k.SetProposer(ctx, rollapp, types.SentinelSeqAddr)"] := rfl

/-- `Keeper.optOutAllSequencers` as mirrored by the model -/
theorem optOutAllSequencers_skeleton : Gen.Core.L.optOutAllSequencers =
  ["func (k Keeper) optOutAllSequencers(ctx sdk.Context, rollapp string) error",
   "  seqs := k.RollappSequencers(ctx, rollapp)",
   "  for _, seq := range seqs",
   "    err := seq.SetOptedIn(ctx, false)",
   "    if err != nil",
   "      return err",
   "    k.SetSequencer(ctx, seq)",
   "  return nil"] := rfl

/-- `Keeper.RollappPotentialProposers` as mirrored by the model -/
theorem rollappPotentialProposers_skeleton : Gen.Core.L.rollappPotentialProposers =
  ["func (k Keeper) RollappPotentialProposers(ctx sdk.Context, rollappId string) []types.Sequencer",
   "  seqs := k.RollappBondedSequencers(ctx, rollappId)",
   "  seqs = slices.DeleteFunc(seqs, func#1)",
   "    func#1 (seq types.Sequencer) bool",
   "      return !seq.IsPotentialProposer()",
   "  return append(seqs, k.SentinelSequencer(ctx))"] := rfl

/-- `Keeper.RecoverFromSentinel` as mirrored by the model -/
theorem recoverFromSentinel_skeleton : Gen.Core.L.recoverFromSentinel =
  ["func (k Keeper) RecoverFromSentinel(ctx sdk.Context, rollapp string) error",
   "  proposer := k.GetProposer(ctx, rollapp)",
   "  if !proposer.Sentinel()",
   "    return gerrc.ErrFailedPrecondition",
   "  successor, err := ProposerChoiceAlgo(k.RollappPotentialProposers(ctx, rollapp))",
   "  if err != nil",
   "    return err",
   "  if successor.Sentinel()",
   "    return gerrc.ErrFailedPrecondition",
   "  k.SetProposer(ctx, rollapp, successor.Address)",
   "  err = k.hooks.AfterSetRealProposer(ctx, rollapp, successor)",
   "  if err != nil",
   "    return err",
   "  return nil"] := rfl

/-- `Keeper.IsProposer` as mirrored by the model -/
theorem isProposerL_skeleton : Gen.Core.L.isProposerL =
  ["func (k Keeper) IsProposer(ctx sdk.Context, seq types.Sequencer) bool",
   "  return seq.Address == k.GetProposer(ctx, seq.RollappId).Address"] := rfl

/-- `Keeper.IsSuccessor` as mirrored by the model -/
theorem isSuccessorL_skeleton : Gen.Core.L.isSuccessorL =
  ["func (k Keeper) IsSuccessor(ctx sdk.Context, seq types.Sequencer) bool",
   "  return seq.Address == k.GetSuccessor(ctx, seq.RollappId).Address"] := rfl

/-- `rollappHook.BeforeUpdateState` as mirrored by the model -/
theorem hookBeforeUpdateState_skeleton : Gen.Core.L.hookBeforeUpdateState =
  ["func (hook rollappHook) BeforeUpdateState(ctx sdk.Context, seqAddr, rollappId string, lastStateUpdateBySequencer bool) error",
   "  proposer := hook.k.GetProposer(ctx, rollappId)",
   "  if seqAddr != proposer.Address",
   "    return types.ErrNotProposer",
   "  if lastStateUpdateBySequencer && !hook.k.AwaitingLastProposerBlock(ctx, rollappId)",
   "    return gerrc.ErrInvalidArgument",
   "  return nil"] := rfl

/-- `rollappHook.AfterUpdateState` as mirrored by the model -/
theorem hookAfterUpdateState_skeleton : Gen.Core.L.hookAfterUpdateState =
  ["func (hook rollappHook) AfterUpdateState(ctx sdk.Context, stateInfo *rollapptypes.StateInfoMeta) error",
   "  proposer := hook.k.GetProposer(ctx, stateInfo.Rollapp)",
   "  return hook.k.afterStateUpdate(ctx, proposer, stateInfo.Sequencer != stateInfo.NextProposer)"] := rfl

/-- `rollappHook.OnHardFork` as mirrored by the model -/
theorem hookOnHardFork_skeleton : Gen.Core.L.hookOnHardFork =
  ["func (hook rollappHook) OnHardFork(ctx sdk.Context, rollappID string, _ uint64) error",
   "  err := hook.k.optOutAllSequencers(ctx, rollappID)",
   "  if err != nil",
   "    return err",
   "  hook.k.abruptRemoveProposer(ctx, rollappID)",
   "  hook.k.SetSuccessor(ctx, rollappID, types.SentinelSeqAddr)",
   "  return nil"] := rfl

/-- `msgServer.IncreaseBond` as mirrored by the model -/
theorem msgIncreaseBond_skeleton : Gen.Core.L.msgIncreaseBond =
  ["func (k msgServer) IncreaseBond(goCtx context.Context, msg *types.MsgIncreaseBond) (*types.MsgIncreaseBondResponse, error)",
   "  seq, err := k.RealSequencer(ctx, msg.GetCreator())",
   "  if err != nil",
   "    return nil, err",
   "  err := validBondDenom(msg.AddAmount)",
   "  if err != nil",
   "    return nil, err",
   "  err := k.sendToModule(ctx, &seq, msg.AddAmount)",
   "  if err != nil",
   "    return nil, err",
   "  k.SetSequencer(ctx, seq)",
   "  return &types.MsgIncreaseBondResponse{}, <noise>"] := rfl

/-- `msgServer.DecreaseBond` as mirrored by the model -/
theorem msgDecreaseBond_skeleton : Gen.Core.L.msgDecreaseBond =
  ["func (k msgServer) DecreaseBond(goCtx context.Context, msg *types.MsgDecreaseBond) (*types.MsgDecreaseBondResponse, error)",
   "  seq, err := k.RealSequencer(ctx, msg.GetCreator())",
   "  if err != nil",
   "    return nil, err",
   "  err := k.TryUnbond(ctx, &seq, msg.GetDecreaseAmount())",
   "  if err != nil",
   "    return nil, err",
   "  k.SetSequencer(ctx, seq)",
   "  return &types.MsgDecreaseBondResponse{}, nil"] := rfl

/-- `msgServer.Unbond` as mirrored by the model -/
theorem msgUnbond_skeleton : Gen.Core.L.msgUnbond =
  ["func (k msgServer) Unbond(goCtx context.Context, msg *types.MsgUnbond) (*types.MsgUnbondResponse, error)",
   "  seq, err := k.RealSequencer(ctx, msg.Creator)",
   "  if err != nil",
   "    return nil, err",
   "  if k.AwaitingLastProposerBlock(ctx, seq.RollappId) && (k.IsProposer(ctx, seq) || k.IsSuccessor(ctx, seq))",
   "    return nil, gerrc.ErrFailedPrecondition",
   "  err := seq.SetOptedIn(ctx, false)",
   "  if err != nil",
   "    return nil, err",
   "  if k.IsProposer(ctx, seq)",
   "    if !k.rollappKeeper.ForkLatestAllowed(ctx, seq.RollappId)",
   "      return nil, gerrc.ErrFailedPrecondition",
   "    if seq.NoticeInProgress(ctx.BlockTime())",
   "      return nil, gerrc.ErrFailedPrecondition",
   "    k.StartNoticePeriod(ctx, &seq)",
   "    k.SetSequencer(ctx, seq)",
   "    return &types.MsgUnbondResponse{CompletionTime: &types.MsgUnbondResponse_NoticePeriodCompletionTime{NoticePeriodCompletionTime: &seq.NoticePeriodTime}}, nil",
   "  err = k.TryUnbond(ctx, &seq, seq.TokensCoin())",
   "  if err != nil",
   "    return nil, err",
   "  k.SetSequencer(ctx, seq)",
   "  return &types.MsgUnbondResponse{}, nil"] := rfl

/-- `msgServer.CreateSequencer` as mirrored by the model -/
theorem msgCreateSequencer_skeleton : Gen.Core.L.msgCreateSequencer =
  ["func (k msgServer) CreateSequencer(goCtx context.Context, msg *types.MsgCreateSequencer) (*types.MsgCreateSequencerResponse, error)",
   "  rollapp, found := k.rollappKeeper.GetRollapp(ctx, msg.RollappId)",
   "  if !found",
   "    return nil, rollapptypes.ErrRollappNotFound",
   "  _, err := k.RealSequencer(ctx, msg.Creator)",
   "  if err == nil",
   "    return nil, types.ErrSequencerAlreadyExists",
   "  pkAddr, err := types.PubKeyAddr(msg.DymintPubKey)",
   "  if err != nil",
   "    return nil, err",
   "  _, err := k.SequencerByDymintAddr(ctx, pkAddr)",
   "  if err == nil",
   "    return nil, gerrc.ErrAlreadyExists",
   "  err := k.sufficientBond(ctx, msg.RollappId, msg.Bond)",
   "  if err != nil",
   "    return nil, err",
   "  err := msg.VMSpecificValidate(rollapp.VmType)",
   "  if err != nil",
   "    return nil, err",
   "  if !rollapp.Launched",
   "    isInitialSeq := slices.Contains(strings.Split(rollapp.InitialSequencer, \",\"), msg.Creator)",
   "    anyAllowed := rollapp.InitialSequencer == \"*\"",
   "    if !anyAllowed && !isInitialSeq",
   "      return nil, types.ErrNotInitialSequencer",
   "    if rollapp.PreLaunchTime != nil && rollapp.PreLaunchTime.After(ctx.BlockTime())",
   "      return nil, types.ErrBeforePreLaunchTime",
   "    err := k.rollappKeeper.SetRollappAsLaunched(ctx, &rollapp)",
   "    if err != nil",
   "      return nil, err",
   "  seq := k.NewSequencer(ctx, msg.RollappId)",
   "  rewardAddr := msg.RewardAddr",
   "  if msg.RewardAddr == \"\"",
   "    rewardAddr = msg.Creator",
   "  seq.RewardAddr = rewardAddr",
   "  seq.DymintPubKey = msg.DymintPubKey",
   "  seq.Address = msg.Creator",
   "  seq.Status = types.Bonded",
   "  seq.Metadata = msg.Metadata",
   "  seq.OptedIn = true",
   "  seq.SetWhitelistedRelayers(msg.WhitelistedRelayers)",
   "  err := k.sendToModule(ctx, seq, msg.Bond)",
   "  if err != nil",
   "    return nil, err",
   "  k.SetSequencer(ctx, *seq)",
   "  err := k.SetSequencerByDymintAddr(ctx, pkAddr, seq.Address)",
   "  if err != nil",
   "    return nil, err",
   "  proposer := k.GetProposer(ctx, msg.RollappId)",
   "  if proposer.Sentinel()",
   "    err := k.RecoverFromSentinel(ctx, msg.RollappId)",
   "    if err != nil",
   "      return nil, err",
   "  return &types.MsgCreateSequencerResponse{}, nil"] := rfl

/-- `msgServer.KickProposer` as mirrored by the model -/
theorem msgKickProposer_skeleton : Gen.Core.L.msgKickProposer =
  ["func (k msgServer) KickProposer(goCtx context.Context, msg *types.MsgKickProposer) (*types.MsgKickProposerResponse, error)",
   "  kicker, err := k.RealSequencer(ctx, msg.GetCreator())",
   "  if err != nil",
   "    return nil, err",
   "  err := k.Keeper.TryKickProposer(ctx, kicker)",
   "  if err != nil",
   "    return nil, err",
   "  return &types.MsgKickProposerResponse{}, nil"] := rfl

/-- `msgServer.UpdateOptInStatus` as mirrored by the model -/
theorem msgUpdateOptInStatus_skeleton : Gen.Core.L.msgUpdateOptInStatus =
  ["func (k msgServer) UpdateOptInStatus(goCtx context.Context, msg *types.MsgUpdateOptInStatus) (*types.MsgUpdateOptInStatus, error)",
   "  seq, err := k.RealSequencer(ctx, msg.Creator)",
   "  if err != nil",
   "    return nil, err",
   "  if seq.NoticeStarted()",
   "    return nil, gerrc.ErrFailedPrecondition",
   "  err := seq.SetOptedIn(ctx, msg.OptedIn)",
   "  if err != nil",
   "    return nil, err",
   "  k.SetSequencer(ctx, seq)",
   "  proposer := k.GetProposer(ctx, seq.RollappId)",
   "  if proposer.Sentinel()",
   "    err := k.RecoverFromSentinel(ctx, seq.RollappId)",
   "    if err != nil",
   "      return nil, err",
   "  return &types.MsgUpdateOptInStatus{}, nil"] := rfl

/-- `Keeper.SetSequencer` as mirrored by the model -/
theorem setSequencer_skeleton : Gen.Core.L.setSequencer =
  ["func (k Keeper) SetSequencer(ctx sdk.Context, seq types.Sequencer)",
   "  store := ctx.KVStore(k.storeKey)",
   "  b := k.cdc.MustMarshal(&seq)",
   "  store.Set(types.SequencerKey(seq.Address), b)",
   "  for _, status := range types.AllStatus",
   "    oldKey := types.SequencerByRollappByStatusKey(seq.RollappId, seq.Address, status)",
   "    ctx.KVStore(k.storeKey).Delete(oldKey)",
   "  seqByRollappKey := types.SequencerByRollappByStatusKey(seq.RollappId, seq.Address, seq.Status)",
   "  store.Set(seqByRollappKey, b)"] := rfl

/-- `Keeper.SetProposer` as mirrored by the model -/
theorem setProposer_skeleton : Gen.Core.L.setProposer =
  ["func (k Keeper) SetProposer(ctx sdk.Context, rollapp, seqAddr string)",
   "  store := ctx.KVStore(k.storeKey)",
   "  addressBytes := []byte(seqAddr)",
   "  activeKey := types.ProposerByRollappKey(rollapp)",
   "  store.Set(activeKey, addressBytes)"] := rfl

/-- `Keeper.SetSuccessor` as mirrored by the model -/
theorem setSuccessor_skeleton : Gen.Core.L.setSuccessor =
  ["func (k Keeper) SetSuccessor(ctx sdk.Context, rollapp, seqAddr string)",
   "  store := ctx.KVStore(k.storeKey)",
   "  addressBytes := []byte(seqAddr)",
   "  nextProposerKey := types.SuccessorByRollappKey(rollapp)",
   "  store.Set(nextProposerKey, addressBytes)"] := rfl

/-- `Keeper.AddToNoticeQueue` as mirrored by the model -/
theorem addToNoticeQueue_skeleton : Gen.Core.L.addToNoticeQueue =
  ["func (k Keeper) AddToNoticeQueue(ctx sdk.Context, seq types.Sequencer)",
   "  store := ctx.KVStore(k.storeKey)",
   "  noticePeriodKey := types.NoticeQueueBySeqTimeKey(seq.Address, seq.NoticePeriodTime)",
   "  store.Set(noticePeriodKey, []byte(seq.Address))"] := rfl

/-- `Keeper.removeFromNoticeQueue` as mirrored by the model -/
theorem removeFromNoticeQueue_skeleton : Gen.Core.L.removeFromNoticeQueue =
  ["func (k Keeper) removeFromNoticeQueue(ctx sdk.Context, seq types.Sequencer)",
   "  store := ctx.KVStore(k.storeKey)",
   "  noticePeriodKey := types.NoticeQueueBySeqTimeKey(seq.Address, seq.NoticePeriodTime)",
   "  store.Delete(noticePeriodKey)"] := rfl

/-- `Keeper.RollappSequencers` as mirrored by the model -/
theorem rollappSequencers_skeleton : Gen.Core.L.rollappSequencers =
  ["func (k Keeper) RollappSequencers(ctx sdk.Context, rollappId string) []types.Sequencer",
   "  return k.prefixSequencers(ctx, types.SequencersByRollappKey(rollappId))"] := rfl

/-- `Keeper.RollappBondedSequencers` as mirrored by the model -/
theorem rollappBondedSequencers_skeleton : Gen.Core.L.rollappBondedSequencers =
  ["func (k Keeper) RollappBondedSequencers(ctx sdk.Context, rollappId string) []types.Sequencer",
   "  return k.RollappSequencersByStatus(ctx, rollappId, types.Bonded)"] := rfl

/-- `Keeper.GetSequencer` as mirrored by the model -/
theorem getSequencer_skeleton : Gen.Core.L.getSequencer =
  ["func (k Keeper) GetSequencer(ctx sdk.Context, addr string) types.Sequencer",
   "  seq, err := k.RealSequencer(ctx, addr)",
   "  if err != nil",
   "    return k.SentinelSequencer(ctx)",
   "  return seq"] := rfl

/-- `Keeper.RealSequencer` as mirrored by the model -/
theorem realSequencer_skeleton : Gen.Core.L.realSequencer =
  ["func (k Keeper) RealSequencer(ctx sdk.Context, addr string) (types.Sequencer, error)",
   "  store := ctx.KVStore(k.storeKey)",
   "  b := store.Get(types.SequencerKey(addr))",
   "  if b == nil",
   "    return types.Sequencer{}, types.ErrSequencerNotFound",
   "  ret := types.Sequencer{}",
   "  k.cdc.MustUnmarshal(b, &ret)",
   "  return ret, nil"] := rfl

/-- `Keeper.GetProposer` as mirrored by the model -/
theorem getProposer_skeleton : Gen.Core.L.getProposer =
  ["func (k Keeper) GetProposer(ctx sdk.Context, rollapp string) types.Sequencer",
   "  store := ctx.KVStore(k.storeKey)",
   "  bz := store.Get(types.ProposerByRollappKey(rollapp))",
   "  if bz == nil",
   "    return k.SentinelSequencer(ctx)",
   "  return k.GetSequencer(ctx, string(bz))"] := rfl

/-- `Keeper.GetSuccessor` as mirrored by the model -/
theorem getSuccessor_skeleton : Gen.Core.L.getSuccessor =
  ["func (k Keeper) GetSuccessor(ctx sdk.Context, rollapp string) types.Sequencer",
   "  store := ctx.KVStore(k.storeKey)",
   "  bz := store.Get(types.SuccessorByRollappKey(rollapp))",
   "  if bz == nil",
   "    return k.SentinelSequencer(ctx)",
   "  return k.GetSequencer(ctx, string(bz))"] := rfl

/-- `Keeper.NoticeQueue` as mirrored by the model -/
theorem noticeQueue_skeleton : Gen.Core.L.noticeQueue =
  ["func (k Keeper) NoticeQueue(ctx sdk.Context, endTime *time.Time) ([]types.Sequencer, error)",
   "  ret := []types.Sequencer{}",
   "  store := ctx.KVStore(k.storeKey)",
   "  prefix := types.NoticePeriodQueueKey",
   "  if endTime != nil",
   "    prefix = types.NoticeQueueByTimeKey(*endTime)",
   "  iterator := store.Iterator(types.NoticePeriodQueueKey, storetypes.PrefixEndBytes(prefix))",
   "  defer iterator.Close()",
   "  for ; iterator.Valid(); iterator.Next()",
   "    addr := string(iterator.Value())",
   "    seq, err := k.RealSequencer(ctx, string(iterator.Value()))",
   "    if err != nil",
   "      return nil, gerrc.ErrInternal",
   "    ret = append(ret, seq)",
   "  return ret, nil"] := rfl

/-- `Keeper.SentinelSequencer` as mirrored by the model -/
theorem sentinelSequencer_skeleton : Gen.Core.L.sentinelSequencer =
  ["func (k Keeper) SentinelSequencer(ctx sdk.Context) types.Sequencer",
   "  s := k.NewSequencer(ctx, \"\")",
   "  s.Status = types.Bonded",
   "  s.Address = types.SentinelSeqAddr",
   "  s.OptedIn = true",
   "  return *s"] := rfl

/-- `Keeper.NewSequencer` as mirrored by the model -/
theorem newSequencer_skeleton : Gen.Core.L.newSequencer =
  ["func (k Keeper) NewSequencer(ctx sdk.Context, rollapp string) *types.Sequencer",
   "  return &types.Sequencer{RollappId: rollapp, Tokens: sdk.Coins{sdk.NewCoin(commontypes.DYMCoin.Denom, math.NewInt(0))}}"] := rfl

/-- `AppModule.BeginBlock` as mirrored by the model -/
theorem sequencerBeginBlock_skeleton : Gen.Core.L.sequencerBeginBlock =
  ["func (am AppModule) BeginBlock(goCtx context.Context) error",
   "  err := am.keeper.ChooseSuccessorForFinishedNotices(ctx, ctx.BlockTime())",
   "  if err != nil",
   "    return err",
   "  return nil"] := rfl

/-- `Sequencer.SetOptedIn` as mirrored by the model -/
theorem seqSetOptedIn_skeleton : Gen.Core.L.seqSetOptedIn =
  ["func (seq *Sequencer) SetOptedIn(ctx sdk.Context, x bool) error",
   "  seq.OptedIn = x",
   "  return nil"] := rfl

/-- `Sequencer.Sentinel` as mirrored by the model -/
theorem seqSentinelL_skeleton : Gen.Core.L.seqSentinelL =
  ["func (seq Sequencer) Sentinel() bool",
   "  return seq.Address == SentinelSeqAddr"] := rfl

/-- `Sequencer.Bonded` as mirrored by the model -/
theorem seqBondedL_skeleton : Gen.Core.L.seqBondedL =
  ["func (seq Sequencer) Bonded() bool",
   "  return seq.Status == Bonded"] := rfl

/-- `Sequencer.IsPotentialProposer` as mirrored by the model -/
theorem seqIsPotentialProposerL_skeleton : Gen.Core.L.seqIsPotentialProposerL =
  ["func (seq Sequencer) IsPotentialProposer() bool",
   "  return seq.Bonded() && seq.OptedIn"] := rfl

/-- `Sequencer.TokensCoin` as mirrored by the model -/
theorem seqTokensCoin_skeleton : Gen.Core.L.seqTokensCoin =
  ["func (seq Sequencer) TokensCoin() sdk.Coin",
   "  return seq.Tokens[0]"] := rfl

/-- `Sequencer.SetTokensCoin` as mirrored by the model -/
theorem seqSetTokensCoin_skeleton : Gen.Core.L.seqSetTokensCoin =
  ["func (seq Sequencer) SetTokensCoin(c sdk.Coin)",
   "  seq.Tokens[0] = c"] := rfl

/-- `Sequencer.NoticeInProgress` as mirrored by the model -/
theorem seqNoticeInProgressL_skeleton : Gen.Core.L.seqNoticeInProgressL =
  ["func (seq Sequencer) NoticeInProgress(now time.Time) bool",
   "  return seq.NoticeStarted() && !seq.NoticeElapsed(now)"] := rfl

/-- `Sequencer.NoticeElapsed` as mirrored by the model -/
theorem seqNoticeElapsedL_skeleton : Gen.Core.L.seqNoticeElapsedL =
  ["func (seq Sequencer) NoticeElapsed(now time.Time) bool",
   "  return seq.NoticeStarted() && !now.Before(seq.NoticePeriodTime)"] := rfl

/-- `Sequencer.NoticeStarted` as mirrored by the model -/
theorem seqNoticeStartedL_skeleton : Gen.Core.L.seqNoticeStartedL =
  ["func (seq Sequencer) NoticeStarted() bool",
   "  return seq.NoticePeriodTime != time.Time{}"] := rfl

/-- `MsgCreateSequencer.ValidateBasic` as mirrored by the model -/
theorem msgCreateSequencerValidateBasic_skeleton : Gen.Core.L.msgCreateSequencerValidateBasic =
  ["func (msg *MsgCreateSequencer) ValidateBasic() error",
   "  _, err := sdk.AccAddressFromBech32(msg.Creator)",
   "  if err != nil",
   "    return ErrInvalidAddr",
   "  if msg.DymintPubKey == nil",
   "    return ErrInvalidPubKey",
   "  _, err = codectypes.NewAnyWithValue(msg.DymintPubKey)",
   "  if err != nil",
   "    return ErrInvalidPubKey",
   "  pk, ok := msg.DymintPubKey.GetCachedValue().(cryptotypes.PubKey)",
   "  if !ok",
   "    return errorsmod.WithType(ErrInvalidPubKey, pk)",
   "  _, err = edwards.ParsePubKey(edwards.Edwards(), pk.Bytes())",
   "  if err != nil",
   "    return ErrInvalidPubKey",
   "  err = msg.Metadata.Validate()",
   "  if err != nil",
   "    return ErrInvalidMetadata",
   "  if !msg.Bond.IsValid() || msg.Bond.IsZero()",
   "    return ErrInvalidCoins",
   "  if msg.RewardAddr != \"\"",
   "    _, err = sdk.AccAddressFromBech32(msg.RewardAddr)",
   "    if err != nil",
   "      return errors.Join(gerrc.ErrInvalidArgument, err)",
   "  err = ValidateWhitelistedRelayers(msg.WhitelistedRelayers)",
   "  if err != nil",
   "    return errors.Join(gerrc.ErrInvalidArgument, err)",
   "  return nil"] := rfl

/-- `MsgIncreaseBond.ValidateBasic` as mirrored by the model -/
theorem msgIncreaseBondValidateBasic_skeleton : Gen.Core.L.msgIncreaseBondValidateBasic =
  ["func (msg *MsgIncreaseBond) ValidateBasic() error",
   "  _, err := sdk.AccAddressFromBech32(msg.Creator)",
   "  if err != nil",
   "    return ErrInvalidAddr",
   "  if !(msg.AddAmount.IsValid() && msg.AddAmount.IsPositive())",
   "    return ErrInvalidCoins",
   "  return nil"] := rfl

/-- `MsgDecreaseBond.ValidateBasic` as mirrored by the model -/
theorem msgDecreaseBondValidateBasic_skeleton : Gen.Core.L.msgDecreaseBondValidateBasic =
  ["func (msg *MsgDecreaseBond) ValidateBasic() error",
   "  _, err := sdk.AccAddressFromBech32(msg.Creator)",
   "  if err != nil",
   "    return ErrInvalidAddr",
   "  if !(msg.DecreaseAmount.IsValid() && msg.DecreaseAmount.IsPositive())",
   "    return ErrInvalidCoins",
   "  return nil"] := rfl

end DymVerif.GenEq.Core
