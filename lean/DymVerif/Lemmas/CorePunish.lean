/-
  Lemmas/CorePunish — the exact effect of `PunishSequencer` (the standalone governance
  `PunishSequencerProposal`, `Core.Op.punish`, and the punishment inside a fraud proposal): only the
  punished record's `tokens` field changes (to 0), the money leaves the module account, every other
  component of the state — rollapps (roles included), parameters, queues, clocks — is untouched.
  And what the liveness slash does with the zero bond that is left.
-/
import DymVerif.Lemmas.CoreCustody4
namespace DymVerif.Core

/-- the state components a slash never writes -/
structure SlashFrame (s s1 : St) : Prop where
  ras : s1.ras = s.ras
  seqs : s1.seqs = s.seqs
  p : s1.p = s.p
  lev : s1.lev = s.lev
  queue : s1.queue = s.queue
  seqH : s1.seqH = s.seqH
  nq : s1.nq = s.nq
  h : s1.h = s.h
  t : s1.t = s.t
  obsolete : s1.obsolete = s.obsolete

theorem SlashFrame.refl (s : St) : SlashFrame s s := ⟨rfl, rfl, rfl, rfl, rfl, rfl, rfl, rfl, rfl, rfl⟩

theorem SlashFrame.trans {a b c : St} (x : SlashFrame a b) (y : SlashFrame b c) : SlashFrame a c :=
  ⟨y.ras.trans x.ras, y.seqs.trans x.seqs, y.p.trans x.p, y.lev.trans x.lev, y.queue.trans x.queue,
   y.seqH.trans x.seqH, y.nq.trans x.nq, y.h.trans x.h, y.t.trans x.t, y.obsolete.trans x.obsolete⟩

theorem sendFromModule_rec {s s1 : St} {q q1 : Seq} {amt : Nat} {to : Addr}
    (e : sendFromModule s q amt to = .ok (s1, q1)) :
    SlashFrame s s1 ∧ q1 = { q with tokens := q.tokens - amt } := by
  unfold sendFromModule at e
  split at e
  · cases e
  · split at e
    · cases e
    · split at e
      · cases e
      · injection e with e; injection e with e1 e2; subst e1; subst e2
        exact ⟨⟨rfl, rfl, rfl, rfl, rfl, rfl, rfl, rfl, rfl, rfl⟩, rfl⟩

theorem burn_rec {s s1 : St} {q q1 : Seq} {amt : Nat} (e : burn s q amt = .ok (s1, q1)) :
    SlashFrame s s1 ∧ q1 = { q with tokens := q.tokens - amt } := by
  unfold burn at e
  split at e
  · cases e
  · split at e
    · cases e
    · injection e with e; injection e with e1 e2; subst e1; subst e2
      exact ⟨⟨rfl, rfl, rfl, rfl, rfl, rfl, rfl, rfl, rfl, rfl⟩, rfl⟩

/-- a slash rewrites nothing but the `tokens` field of the record it is handed (and the bank) -/
theorem slash_rec {s s1 : St} {q q1 : Seq} {amt : Nat} {mul : Dec} {rw : Option Addr}
    (e : slash s q amt mul rw = .ok (s1, q1)) :
    SlashFrame s s1 ∧ q1 = { q with tokens := q1.tokens } := by
  unfold slash at e
  dsimp only at e
  split at e
  · cases e
  · rename_i s0 q0 h0
    obtain ⟨fb, hb⟩ := burn_rec e
    split at h0
    · injection h0 with h0; injection h0 with e1 e2; subst e1; subst e2
      exact ⟨fb, by rw [hb]⟩
    · split at h0
      · obtain ⟨fs, hs⟩ := sendFromModule_rec h0
        exact ⟨fs.trans fb, by rw [hb, hs]⟩
      · cases h0

/-- **the exact effect of `PunishSequencer`**: the punished record keeps every field except `tokens`,
    which becomes 0; no other record, no rollapp (so no proposer / successor slot), no queue, no clock
    and no parameter changes. -/
theorem punish_exact {s s' : St} {a : Addr} {rw : Option Addr} (e : punish s a rw = .ok s') :
    ∃ q, getSeq s a = some q ∧ SlashFrame s { s' with seqs := s.seqs } ∧
      s'.seqs = s.seqs.map (fun x => if x.addr == a then { q with tokens := 0 } else x) := by
  have pp := punish_punished e
  unfold punish at e
  split at e
  · cases e
  · rename_i q hg
    dsimp only at e
    split at e
    · cases e
    · rename_i s1 q1 hs
      obtain ⟨fr, hq1⟩ := slash_rec hs
      obtain ⟨paid, hp, _, _, htok, _, _, _⟩ := slash_money hs
      have hple : paid * 2 ≤ q.tokens := by
        rcases hp with h | h
        · omega
        · rw [h]; exact punishShare_le rw q.tokens
      have hz : q1.tokens = 0 := by omega
      injection e with e; subst e
      have hqa : q.addr = a := getSeq_addr hg
      refine ⟨q, hg, ⟨fr.ras, rfl, fr.p, fr.lev, fr.queue, fr.seqH, fr.nq, fr.h, fr.t, fr.obsolete⟩, ?_⟩
      show (setSeq s1 q1).seqs = _
      unfold setSeq
      dsimp only
      rw [fr.seqs, hq1, hz]
      show s.seqs.map (fun x => if x.addr == q.addr then { q with tokens := 0 } else x) = _
      rw [hqa]

/-- the punished record afterwards: the same record with bond 0 -/
theorem punish_record {s s' : St} {a : Addr} {rw : Option Addr} (e : punish s a rw = .ok s') :
    ∃ q, getSeq s a = some q ∧ getSeq s' a = some { q with tokens := 0 } := by
  obtain ⟨q, hg, _, hseqs⟩ := punish_exact e
  refine ⟨q, hg, ?_⟩
  have hqa : q.addr = a := getSeq_addr hg
  unfold getSeq at hg ⊢
  rw [hseqs]
  generalize s.seqs = l at hg
  induction l with
  | nil => simp at hg
  | cons x xs ih =>
    simp only [List.map_cons, List.find?_cons] at hg ⊢
    by_cases hx : (x.addr == a) = true
    · simp only [hx] at hg ⊢
      injection hg with hg; subst hg
      simp [hqa]
    · have hx' : (x.addr == a) = false := by simpa using hx
      simp only [hx'] at hg ⊢
      simp only [Bool.false_eq_true, if_false, hx']
      exact ih hg

/-- every other record is literally unchanged -/
theorem punish_others {s s' : St} {a : Addr} {rw : Option Addr} (e : punish s a rw = .ok s') (b : Addr)
    (hb : b ≠ a) : getSeq s' b = getSeq s b := by
  obtain ⟨q, hg, _, hseqs⟩ := punish_exact e
  unfold getSeq
  rw [hseqs]
  generalize s.seqs = l
  induction l with
  | nil => rfl
  | cons x xs ih =>
    simp only [List.map_cons, List.find?_cons]
    by_cases hx : (x.addr == a) = true
    · have hxa : x.addr = a := by simpa using hx
      have hqa : q.addr = a := getSeq_addr hg
      have h1 : (x.addr == b) = false := by simp [hxa, Ne.symm hb]
      have h2 : (q.addr == b) = false := by simp [hqa, Ne.symm hb]
      simp only [hx, if_true, h1, h2]
      exact ih
    · have hx' : (x.addr == a) = false := by simpa using hx
      simp only [hx', Bool.false_eq_true, if_false]
      cases hxb : (x.addr == b) with
      | true => rfl
      | false => exact ih

-- ---------------------------------------------------------------- a zero-bond proposer and the liveness slash

/-- **the liveness slash of a proposer whose bond is 0** (e.g. after a `PunishSequencerProposal`, which
    leaves it proposer): it never fails, moves no money, and only adds the liveness dishonor — so an idle
    zero-bond proposer keeps collecting dishonor until it is kickable (`kick` needs
    `kickThr ≤ dishonor`), the only way it loses the slot without cooperating. -/
theorem slashLiveness_zero_bond (s : St) (r : Rollapp) (a : Addr) (q : Seq) (hp : r.proposer = some a)
    (hg : getSeq s a = some q) (hz : q.tokens = 0) :
    ∃ s1, slashLiveness s r = .ok s1 ∧ s1.ras = s.ras ∧ s1.bal = s.bal ∧ s1.modBal = s.modBal ∧
      s1.burned = s.burned ∧
      s1.seqs = s.seqs.map (fun x => if x.addr == a then { q with dishonor := q.dishonor + s.sqp.dishonorL } else x) := by
  unfold slashLiveness
  rw [hp]
  dsimp only
  rw [hg]
  dsimp only
  have h0 : min q.tokens (max s.sqp.lsAbs ((s.sqp.lsMul.mulInt q.tokens).truncateInt).toNat) = 0 := by
    rw [hz]; exact Nat.zero_min _
  rw [h0]
  have hsl : slash s q 0 ⟨0⟩ none =
      .ok ({ s with modBal := s.modBal - 0, burned := s.burned + 0 }, { q with tokens := q.tokens - 0 }) := by
    unfold slash
    have hr : (((⟨0⟩ : Dec).mulInt ((0 : Nat) : Int)).truncateInt).toNat = 0 := by
      unfold Dec.mulInt Dec.truncateInt chopTrunc decP
      simp
    simp only [hr, if_true]
    unfold burn
    simp
  rw [hsl]
  dsimp only
  have hqa : q.addr = a := getSeq_addr hg
  refine ⟨_, rfl, rfl, rfl, rfl, rfl, ?_⟩
  unfold setSeq
  dsimp only
  rw [hqa]
  simp only [Nat.sub_zero]

end DymVerif.Core
