/-
  Lemmas/GenesisIro — x/iro: the store invariant of the plan sections (`IroInv`), its preservation by
  the write paths (`iroStep`: CreatePlan with the id counter, any later SetPlan of a stored plan),
  and the genesis round trip under it.
-/
import DymVerif.Lemmas.GenesisKV
namespace DymVerif.Genesis
open DymVerif

theorem planKey_inj {a b : Nat} (h : planKey a = planKey b) : a = b :=
  decKey_inj (List.append_cancel_left h)

theorem plansByRollappKey_inj {a b : Bytes} (h : plansByRollappKey a = plansByRollappKey b) : a = b :=
  List.append_cancel_left h

/-- the counter loop computes the maximum -/
theorem iroInitLastPlanId_eq_maxId (ids : List Nat) : iroInitLastPlanId ids = maxId ids := by
  unfold iroInitLastPlanId maxId
  have : (fun acc id : Nat => if id > acc then id else acc) = Nat.max := by
    funext a b
    show (if b > a then b else a) = max a b
    split <;> omega
  rw [this]

structure IroInv (s : IroState) : Prop where
  sp : Sorted lexLt s.plans
  kp : Keyed (fun p => planKey p.id) s.plans
  sr : Sorted lexLt s.byRollapp
  /-- the by-rollapp section holds exactly one entry per plan -/
  idx : ∀ e, e ∈ s.byRollapp ↔ ∃ x ∈ s.plans, e = (plansByRollappKey x.2.rollapp, x.2.id)
  /-- one plan per rollapp -/
  uniq : ∀ x ∈ s.plans, ∀ y ∈ s.plans, x.2.rollapp = y.2.rollapp → x = y
  /-- the counter is the largest id handed out -/
  ub : ∀ x ∈ s.plans, x.2.id ≤ s.lastPlanId
  att : s.lastPlanId = 0 ∨ ∃ x ∈ s.plans, x.2.id = s.lastPlanId

theorem IroInv.last_eq {s : IroState} (h : IroInv s) : s.lastPlanId = maxId ((exportVals s.plans).map (·.id)) := by
  symm
  apply maxId_eq_of
  · intro id hid
    obtain ⟨p, hp, rfl⟩ := List.mem_map.1 hid
    obtain ⟨e, he, rfl⟩ := List.mem_map.1 hp
    exact h.ub e he
  · rcases h.att with h0 | ⟨x, hx, hxe⟩
    · exact Or.inl h0
    · exact Or.inr (List.mem_map.2 ⟨x.2, List.mem_map.2 ⟨x, hx, rfl⟩, hxe⟩)

theorem foldl_setPlan_plans (l : List Plan) (s : IroState) :
    (l.foldl setPlan s).plans = l.foldl (fun m p => kvSet lexLt (planKey p.id) (id p) m) s.plans :=
  foldl_proj setPlan (·.plans) _ (fun _ _ => rfl) l s

theorem foldl_setPlan_byRollapp (l : List Plan) (s : IroState) :
    (l.foldl setPlan s).byRollapp = l.foldl (fun m p => kvSet lexLt (plansByRollappKey p.rollapp) p.id m) s.byRollapp :=
  foldl_proj setPlan (·.byRollapp) _ (fun _ _ => rfl) l s

theorem foldl_setPlan_params (l : List Plan) (s : IroState) : (l.foldl setPlan s).params = s.params :=
  foldl_proj setPlan (·.params) (fun p _ => p) (fun _ _ => rfl) l s |>.trans (by induction l <;> simp_all)

/-- **import of ANY permutation of the exported plan list rebuilds the state** -/
theorem iro_import_perm {s : IroState} (h : IroInv s) {l : List Plan} (hp : l.Perm (exportVals s.plans)) :
    importIro { params := s.params, plans := l } = s := by
  have hplans : (l.foldl setPlan { params := s.params, plans := [], byRollapp := [], lastPlanId := 0 }).plans = s.plans := by
    rw [foldl_setPlan_plans]
    exact importVals_perm soBytes h.sp h.kp hp
  have hidx : (l.foldl setPlan { params := s.params, plans := [], byRollapp := [], lastPlanId := 0 }).byRollapp = s.byRollapp := by
    rw [foldl_setPlan_byRollapp]
    apply importWith_eq soBytes h.sr
    · rw [(hp.map _).nodup_iff]
      have hn := exportVals_nodup soBytes h.sp h.kp
      apply nodup_map_on hn
      intro x hx y hy hxy
      have hx' := (mem_exportVals h.kp x).1 hx
      have hy' := (mem_exportVals h.kp y).1 hy
      exact (Prod.mk.inj (h.uniq _ hx' _ hy' (plansByRollappKey_inj hxy))).2
    · intro e
      rw [h.idx e]
      constructor
      · rintro ⟨x, hx, rfl⟩
        exact ⟨x.2, hp.mem_iff.2 (List.mem_map.2 ⟨x, hx, rfl⟩), rfl⟩
      · rintro ⟨p, hpl, rfl⟩
        obtain ⟨x, hx, rfl⟩ := List.mem_map.1 (hp.mem_iff.1 hpl)
        exact ⟨x, hx, rfl⟩
  have hpar := foldl_setPlan_params l { params := s.params, plans := [], byRollapp := [], lastPlanId := 0 }
  have hlast : iroInitLastPlanId (l.map (·.id)) = s.lastPlanId := by
    rw [iroInitLastPlanId_eq_maxId, maxId_perm (hp.map _), ← h.last_eq]
  unfold importIro
  simp only
  rw [hlast]
  cases s with
  | mk params plans byRollapp lastPlanId =>
    simp only at hplans hidx hpar ⊢
    generalize (l.foldl setPlan _) = t at hplans hidx hpar
    cases t; simp_all

theorem iro_import_export {s : IroState} (h : IroInv s) : importIro (exportIro s) = s :=
  iro_import_perm h (List.Perm.refl _)

/-! ### the invariant holds in every reachable state -/

theorem iroInv_init : IroInv iroInit where
  sp := sorted_nil
  kp := fun _ h => by cases h
  sr := sorted_nil
  idx := fun e => by simp [iroInit]
  uniq := fun _ h => by cases h
  ub := fun _ h => by cases h
  att := Or.inl rfl

theorem iroInv_create {s : IroState} (h : IroInv s) (r : Bytes) (b : Nat)
    (hf : kvHas (plansByRollappKey r) s.byRollapp = false) :
    IroInv (setPlan { s with lastPlanId := nextPlanId s } ⟨nextPlanId s, r, b⟩) := by
  have hfreshKey : ∀ x ∈ s.plans, x.1 ≠ planKey (nextPlanId s) := by
    intro x hx he
    rw [h.kp x hx] at he
    have := planKey_inj he
    have := h.ub x hx
    unfold nextPlanId at *; omega
  have hfreshR : ∀ x ∈ s.plans, x.2.rollapp ≠ r := by
    intro x hx he
    exact kvHas_false hf _ ((h.idx _).2 ⟨x, hx, rfl⟩) (by rw [he])
  have hmemP := mem_kvSet (β := Plan) soBytes (planKey (nextPlanId s)) ⟨nextPlanId s, r, b⟩ h.sp
  have hmemR := mem_kvSet (β := Nat) soBytes (plansByRollappKey r) (nextPlanId s) h.sr
  constructor
  · exact sorted_kvSet soBytes _ _ h.sp
  · exact keyed_kvSet (key := fun p : Plan => planKey p.id) soBytes h.sp h.kp ⟨nextPlanId s, r, b⟩
  · exact sorted_kvSet soBytes _ _ h.sr
  · intro e
    show e ∈ kvSet lexLt (plansByRollappKey r) (nextPlanId s) s.byRollapp ↔
      ∃ x ∈ kvSet lexLt (planKey (nextPlanId s)) ⟨nextPlanId s, r, b⟩ s.plans, e = (plansByRollappKey x.2.rollapp, x.2.id)
    rw [hmemR e]
    constructor
    · rintro (rfl | ⟨he, _⟩)
      · exact ⟨_, (hmemP _).2 (Or.inl rfl), rfl⟩
      · obtain ⟨x, hx, rfl⟩ := (h.idx e).1 he
        exact ⟨x, (hmemP _).2 (Or.inr ⟨hx, hfreshKey x hx⟩), rfl⟩
    · rintro ⟨x, hx, rfl⟩
      rcases (hmemP x).1 hx with rfl | ⟨hx', _⟩
      · exact Or.inl rfl
      · refine Or.inr ⟨(h.idx _).2 ⟨x, hx', rfl⟩, ?_⟩
        intro he; exact hfreshR x hx' (plansByRollappKey_inj he)
  · intro x hx y hy hxy
    rcases (hmemP x).1 hx with rfl | ⟨hx', _⟩ <;> rcases (hmemP y).1 hy with rfl | ⟨hy', _⟩
    · rfl
    · exact absurd hxy.symm (hfreshR y hy')
    · exact absurd hxy (hfreshR x hx')
    · exact h.uniq x hx' y hy' hxy
  · intro x hx
    rcases (hmemP x).1 hx with rfl | ⟨hx', _⟩
    · exact Nat.le_refl _
    · have := h.ub x hx'; show x.2.id ≤ nextPlanId s; unfold nextPlanId; omega
  · exact Or.inr ⟨_, (hmemP _).2 (Or.inl rfl), rfl⟩

theorem iroInv_update {s : IroState} (h : IroInv s) (id b : Nat) (p : Plan)
    (hg : kvGet (planKey id) s.plans = some p) : IroInv (setPlan s { p with body := b }) := by
  have hp : (planKey id, p) ∈ s.plans := kvGet_some hg
  have hid : p.id = id := (planKey_inj (h.kp _ hp)).symm
  have hmemP := mem_kvSet (β := Plan) soBytes (planKey p.id) { p with body := b } h.sp
  have hmemR := mem_kvSet (β := Nat) soBytes (plansByRollappKey p.rollapp) p.id h.sr
  have hold : (plansByRollappKey p.rollapp, p.id) ∈ s.byRollapp := (h.idx _).2 ⟨_, hp, rfl⟩
  -- every other plan has another key and another rollapp
  have hother : ∀ x ∈ s.plans, x.1 ≠ planKey p.id → x.2.rollapp ≠ p.rollapp := by
    intro x hx hne he
    have := h.uniq x hx _ hp he
    rw [this, hid] at hne; exact hne rfl
  constructor
  · exact sorted_kvSet soBytes _ _ h.sp
  · exact keyed_kvSet (key := fun p : Plan => planKey p.id) soBytes h.sp h.kp { p with body := b }
  · exact sorted_kvSet soBytes _ _ h.sr
  · intro e
    show e ∈ kvSet lexLt (plansByRollappKey p.rollapp) p.id s.byRollapp ↔
      ∃ x ∈ kvSet lexLt (planKey p.id) { p with body := b } s.plans, e = (plansByRollappKey x.2.rollapp, x.2.id)
    rw [hmemR e]
    constructor
    · rintro (rfl | ⟨he, hne⟩)
      · exact ⟨_, (hmemP _).2 (Or.inl rfl), rfl⟩
      · obtain ⟨x, hx, rfl⟩ := (h.idx e).1 he
        refine ⟨x, (hmemP _).2 (Or.inr ⟨hx, ?_⟩), rfl⟩
        intro hk
        have : x = (planKey id, p) := h.sp.eq_of_key soBytes hx hp (by rw [hk, hid])
        rw [this] at hne; exact hne rfl
    · rintro ⟨x, hx, rfl⟩
      rcases (hmemP x).1 hx with rfl | ⟨hx', hne⟩
      · exact Or.inl rfl
      · refine Or.inr ⟨(h.idx _).2 ⟨x, hx', rfl⟩, ?_⟩
        intro he; exact hother x hx' hne (plansByRollappKey_inj he)
  · intro x hx y hy hxy
    rcases (hmemP x).1 hx with rfl | ⟨hx', hnx⟩ <;> rcases (hmemP y).1 hy with rfl | ⟨hy', hny⟩
    · rfl
    · exact absurd hxy.symm (hother y hy' hny)
    · exact absurd hxy (hother x hx' hnx)
    · exact h.uniq x hx' y hy' hxy
  · intro x hx
    rcases (hmemP x).1 hx with rfl | ⟨hx', _⟩
    · exact h.ub (planKey id, p) hp
    · exact h.ub x hx'
  · rcases h.att with h0 | ⟨x, hx, hxe⟩
    · exact Or.inl h0
    · right
      by_cases hk : x.1 = planKey p.id
      · have : x = (planKey id, p) := h.sp.eq_of_key soBytes hx hp (by rw [hk, hid])
        subst this
        exact ⟨_, (hmemP _).2 (Or.inl rfl), hxe⟩
      · exact ⟨x, (hmemP _).2 (Or.inr ⟨hx, hk⟩), hxe⟩

theorem iroInv_step {s : IroState} (h : IroInv s) (op : IroOp) : IroInv (iroStep s op) := by
  cases op with
  | create r b =>
    simp only [iroStep]
    split
    · exact h
    · rename_i hf
      exact iroInv_create h r b (by simpa using hf)
  | update id b =>
    simp only [iroStep]
    split
    · exact iroInv_update h id b _ ‹_›
    · exact h
  | setParams p => exact ⟨h.sp, h.kp, h.sr, h.idx, h.uniq, h.ub, h.att⟩

theorem iroInv_run (ops : List IroOp) : IroInv (iroRun ops) := by
  unfold iroRun
  suffices ∀ s, IroInv s → IroInv (ops.foldl iroStep s) from this _ iroInv_init
  induction ops with
  | nil => exact fun _ h => h
  | cons o os ih => exact fun s h => ih _ (iroInv_step h o)

end DymVerif.Genesis
