/-
  Lemmas/GenEqSkAuth — tie 1 for C20 (M-Ante / guard table, Model/Ante.lean): the normalised statement listing (translate/skel.go `listing`:
  every `if` / `for` / `switch` header, call, assignment and `return` in source order; comments, logging,
  events and error-message texts dropped) of EVERY function with a body in the files the property is
  anchored in, regenerated from /repo's working tree on every run (Gen/SkAuth.lean), equals the listing
  the model was written and validated against.  A dropped or weakened guard, a reordered effect, a
  changed operand, a new early return, a new or vanished function breaks the corresponding lemma; the
  check then searches for a failing input with the harness' monitors (DESIGN.md §12.2).
-/
import DymVerif.Gen.SkAuth
namespace DymVerif.GenEqSk.Auth

/-- `HandlePunishSequencerProposal` -/
theorem sqp_HandlePunishSequencerProposal_listing : Gen.SkAuth.sqp_HandlePunishSequencerProposal =
  ["func HandlePunishSequencerProposal(ctx sdk.Context, k keeper.Keeper, p *types.PunishSequencerProposal) error",
   "  err := k.PunishSequencer(ctx, p.PunishSequencerAddress, p.MustRewardee())",
   "  if err != nil",
   "    return err",
   "  return nil"] := rfl

/-- `NewSequencerProposalHandler` -/
theorem sqp_NewSequencerProposalHandler_listing : Gen.SkAuth.sqp_NewSequencerProposalHandler =
  ["func NewSequencerProposalHandler(k keeper.Keeper) govtypes.Handler",
   "  return func#1",
   "    func#1 (ctx sdk.Context, content govtypes.Content) error",
   "      switch c := content.(type)",
   "        case *types.PunishSequencerProposal",
   "          return HandlePunishSequencerProposal(ctx, k, c)",
   "        default",
   "          return types.ErrUnknownRequest"] := rfl

/-- `msgServer.UpdateParams` -/
theorem sqk_msgServer_UpdateParams_listing : Gen.SkAuth.sqk_msgServer_UpdateParams =
  ["func (k msgServer) UpdateParams(goCtx context.Context, msg *types.MsgUpdateParams) (*types.MsgUpdateParamsResponse, error)",
   "  if k.authority != msg.Authority",
   "    return nil, sdkerrors.ErrInvalidRequest",
   "  err := k.ValidateParams(ctx, msg.Params)",
   "  if err != nil",
   "    return nil, err",
   "  k.SetParams(ctx, msg.Params)",
   "  return &types.MsgUpdateParamsResponse{}, nil"] := rfl

/-- `HandleCreateStreamProposal` -/
theorem strp_HandleCreateStreamProposal_listing : Gen.SkAuth.strp_HandleCreateStreamProposal =
  ["func HandleCreateStreamProposal(ctx sdk.Context, k keeper.Keeper, p *types.CreateStreamProposal) error",
   "  _, err := k.CreateStream(ctx, p.Coins, p.DistributeToRecords, p.StartTime, p.DistrEpochIdentifier, p.NumEpochsPaidOver, p.Sponsored)",
   "  if err != nil",
   "    return err",
   "  return nil"] := rfl

/-- `HandleReplaceStreamDistributionProposal` -/
theorem strp_HandleReplaceStreamDistributionProposal_listing : Gen.SkAuth.strp_HandleReplaceStreamDistributionProposal =
  ["func HandleReplaceStreamDistributionProposal(ctx sdk.Context, k keeper.Keeper, p *types.ReplaceStreamDistributionProposal) error",
   "  stream, err := k.GetStreamByID(ctx, p.StreamId)",
   "  if err != nil",
   "    return err",
   "  if stream.IsFinishedStream(ctx.BlockTime())",
   "    return types.ErrInvalidStreamStatus",
   "  return k.ReplaceDistrRecords(ctx, p.StreamId, p.Records)"] := rfl

/-- `HandleTerminateStreamProposal` -/
theorem strp_HandleTerminateStreamProposal_listing : Gen.SkAuth.strp_HandleTerminateStreamProposal =
  ["func HandleTerminateStreamProposal(ctx sdk.Context, k keeper.Keeper, p *types.TerminateStreamProposal) error",
   "  stream, err := k.GetStreamByID(ctx, p.StreamId)",
   "  if err != nil",
   "    return err",
   "  if stream.IsFinishedStream(ctx.BlockTime())",
   "    return types.ErrInvalidStreamStatus",
   "  return k.TerminateStream(ctx, p.StreamId)"] := rfl

/-- `HandleUpdateStreamDistributionProposal` -/
theorem strp_HandleUpdateStreamDistributionProposal_listing : Gen.SkAuth.strp_HandleUpdateStreamDistributionProposal =
  ["func HandleUpdateStreamDistributionProposal(ctx sdk.Context, k keeper.Keeper, p *types.UpdateStreamDistributionProposal) error",
   "  stream, err := k.GetStreamByID(ctx, p.StreamId)",
   "  if err != nil",
   "    return err",
   "  if stream.IsFinishedStream(ctx.BlockTime())",
   "    return types.ErrInvalidStreamStatus",
   "  return k.UpdateDistrRecords(ctx, p.StreamId, p.Records)"] := rfl

/-- `NewStreamerProposalHandler` -/
theorem strp_NewStreamerProposalHandler_listing : Gen.SkAuth.strp_NewStreamerProposalHandler =
  ["func NewStreamerProposalHandler(k keeper.Keeper) govtypes.Handler",
   "  return func#1",
   "    func#1 (ctx sdk.Context, content govtypes.Content) error",
   "      switch c := content.(type)",
   "        case *types.CreateStreamProposal",
   "          return HandleCreateStreamProposal(ctx, k, c)",
   "        case *types.TerminateStreamProposal",
   "          return HandleTerminateStreamProposal(ctx, k, c)",
   "        case *types.ReplaceStreamDistributionProposal",
   "          return HandleReplaceStreamDistributionProposal(ctx, k, c)",
   "        case *types.UpdateStreamDistributionProposal",
   "          return HandleUpdateStreamDistributionProposal(ctx, k, c)",
   "        default",
   "          return types.ErrUnknownRequest"] := rfl

/-- `NewDymNsProposalHandler` -/
theorem dnp_NewDymNsProposalHandler_listing : Gen.SkAuth.dnp_NewDymNsProposalHandler =
  ["func NewDymNsProposalHandler(dk dymnskeeper.Keeper) govv1beta1.Handler",
   "  return func#1",
   "    func#1 (ctx sdk.Context, content govv1beta1.Content) error",
   "      switch c := content.(type)",
   "        case *dymnstypes.MigrateChainIdsProposal",
   "          return handleMigrateChainIdsProposal(ctx, dk, c)",
   "        case *dymnstypes.UpdateAliasesProposal",
   "          return handleUpdateAliasesProposal(ctx, dk, c)",
   "        default",
   "          return errortypes.ErrUnknownRequest"] := rfl

/-- `handleMigrateChainIdsProposal` -/
theorem dnp_handleMigrateChainIdsProposal_listing : Gen.SkAuth.dnp_handleMigrateChainIdsProposal =
  ["func handleMigrateChainIdsProposal(ctx sdk.Context, dk dymnskeeper.Keeper, p *dymnstypes.MigrateChainIdsProposal) error",
   "  err := p.ValidateBasic()",
   "  if err != nil",
   "    return err",
   "  err := dk.MigrateChainIds(ctx, p.Replacement)",
   "  if err != nil",
   "    return err",
   "  return nil"] := rfl

/-- `handleUpdateAliasesProposal` -/
theorem dnp_handleUpdateAliasesProposal_listing : Gen.SkAuth.dnp_handleUpdateAliasesProposal =
  ["func handleUpdateAliasesProposal(ctx sdk.Context, dk dymnskeeper.Keeper, p *dymnstypes.UpdateAliasesProposal) error",
   "  err := p.ValidateBasic()",
   "  if err != nil",
   "    return err",
   "  err := dk.UpdateAliases(ctx, p.Add, p.Remove)",
   "  if err != nil",
   "    return err",
   "  return nil"] := rfl

/-- `Keeper.MigrateChainIds` -/
theorem dnk_Keeper_MigrateChainIds_listing : Gen.SkAuth.dnk_Keeper_MigrateChainIds =
  ["func (k Keeper) MigrateChainIds(ctx sdk.Context, replacement []dymnstypes.MigrateChainId) error",
   "  previousChainIdsToNewChainId := make(map[string]string)",
   "  for _, r := range replacement",
   "    previousChainIdsToNewChainId[r.PreviousChainId] = r.NewChainId",
   "  err := k.migrateChainIdsInParams(ctx, previousChainIdsToNewChainId)",
   "  if err != nil",
   "    return err",
   "  err := k.migrateChainIdsInDymNames(ctx, previousChainIdsToNewChainId)",
   "  if err != nil",
   "    return err",
   "  return nil"] := rfl

/-- `Keeper.UpdateAliases` -/
theorem dnk_Keeper_UpdateAliases_listing : Gen.SkAuth.dnk_Keeper_UpdateAliases =
  ["func (k Keeper) UpdateAliases(ctx sdk.Context, add, remove []dymnstypes.UpdateAlias) error",
   "  params := k.GetParams(ctx)",
   "  chainIdToAliasConfig := make(map[string]map[string]bool)",
   "  for _, record := range params.Chains.AliasesOfChainIds",
   "    aliasesPerChainId := make(map[string]bool)",
   "    for _, alias := range record.Aliases",
   "      aliasesPerChainId[alias] = true",
   "    chainIdToAliasConfig[record.ChainId] = aliasesPerChainId",
   "  if len(add) > 0",
   "    for _, record := range add",
   "      chainId := record.ChainId",
   "      alias := record.Alias",
   "      existingAliases, foundExistingChainId := chainIdToAliasConfig[chainId]",
   "      if !foundExistingChainId",
   "        existingAliases = make(map[string]bool)",
   "      _, foundAlias := existingAliases[alias]",
   "      if foundAlias",
   "        return gerrc.ErrAlreadyExists",
   "      existingAliases[alias] = true",
   "      chainIdToAliasConfig[chainId] = existingAliases",
   "  if len(remove) > 0",
   "    for _, record := range remove",
   "      chainId := record.ChainId",
   "      alias := record.Alias",
   "      aliasesPerChainId, foundExistingChainId := chainIdToAliasConfig[chainId]",
   "      if !foundExistingChainId",
   "        return gerrc.ErrNotFound",
   "      _, foundAlias := aliasesPerChainId[alias]",
   "      if !foundAlias",
   "        return gerrc.ErrNotFound",
   "      delete(aliasesPerChainId, alias)",
   "      if len(aliasesPerChainId) == 0",
   "        delete(chainIdToAliasConfig, chainId)",
   "  sortedChainIds := dymnsutils.GetSortedStringKeys(chainIdToAliasConfig)",
   "  var newAliasesOfChainIds []dymnstypes.AliasesOfChainId",
   "  for _, chainId := range sortedChainIds",
   "    newAliasesOfChainIds = append(newAliasesOfChainIds, dymnstypes.AliasesOfChainId{ChainId: chainId, Aliases: dymnsutils.GetSortedStringKeys(chainIdToAliasConfig[chainId])})",
   "  params.Chains.AliasesOfChainIds = newAliasesOfChainIds",
   "  err := k.SetParams(ctx, params)",
   "  if err != nil",
   "    return errors.Join(gerrc.ErrUnknown, err)",
   "  return nil"] := rfl

/-- `Keeper.migrateChainIdsInDymNames` -/
theorem dnk_Keeper_migrateChainIdsInDymNames_listing : Gen.SkAuth.dnk_Keeper_migrateChainIdsInDymNames =
  ["func (k Keeper) migrateChainIdsInDymNames(ctx sdk.Context, previousChainIdsToNewChainId map[string]string) error",
   "  nonExpiredDymNames := k.GetAllNonExpiredDymNames(ctx)",
   "  for _, dymName := range nonExpiredDymNames",
   "    newConfigs := make([]dymnstypes.DymNameConfig, len(dymName.Configs))",
   "    var anyConfigUpdated bool",
   "    for i, config := range dymName.Configs",
   "      if config.ChainId != \"\"",
   "        newChainId, isPreviousChainId := previousChainIdsToNewChainId[config.ChainId]",
   "        if isPreviousChainId",
   "          config.ChainId = newChainId",
   "          anyConfigUpdated = true",
   "      newConfigs[i] = config",
   "    if !anyConfigUpdated",
   "      continue",
   "    dymName.Configs = newConfigs",
   "    err := dymName.Validate()",
   "    if err != nil",
   "      continue",
   "    err := k.SetDymName(ctx, dymName)",
   "    if err != nil",
   "      return errors.Join(gerrc.ErrUnknown, err)",
   "  return nil"] := rfl

/-- `Keeper.migrateChainIdsInParams` -/
theorem dnk_Keeper_migrateChainIdsInParams_listing : Gen.SkAuth.dnk_Keeper_migrateChainIdsInParams =
  ["func (k Keeper) migrateChainIdsInParams(ctx sdk.Context, previousChainIdsToNewChainId map[string]string) error",
   "  params := k.GetParams(ctx)",
   "  if len(params.Chains.AliasesOfChainIds) > 0",
   "    existingAliasesOfChainIds := make(map[string]dymnstypes.AliasesOfChainId)",
   "    for _, record := range params.Chains.AliasesOfChainIds",
   "      existingAliasesOfChainIds[record.ChainId] = record",
   "    newAliasesByChainId := make([]dymnstypes.AliasesOfChainId, 0)",
   "    for _, record := range params.Chains.AliasesOfChainIds",
   "      chainId := record.ChainId",
   "      aliases := record.Aliases",
   "      newChainId, isPreviousChainId := previousChainIdsToNewChainId[chainId]",
   "      if isPreviousChainId",
   "        _, foundDeclared := existingAliasesOfChainIds[newChainId]",
   "        if foundDeclared",
   "        else",
   "          newAliasesByChainId = append(newAliasesByChainId, dymnstypes.AliasesOfChainId{ChainId: newChainId, Aliases: aliases})",
   "      else",
   "        newAliasesByChainId = append(newAliasesByChainId, dymnstypes.AliasesOfChainId{ChainId: chainId, Aliases: aliases})",
   "    params.Chains.AliasesOfChainIds = newAliasesByChainId",
   "  err := k.SetParams(ctx, params)",
   "  if err != nil",
   "    return errors.Join(gerrc.ErrUnknown, err)",
   "  return nil"] := rfl

/-- `msgServer.UpdateParams` -/
theorem dnk_msgServer_UpdateParams_listing : Gen.SkAuth.dnk_msgServer_UpdateParams =
  ["func (k msgServer) UpdateParams(goCtx context.Context, msg *dymnstypes.MsgUpdateParams) (*dymnstypes.MsgUpdateParamsResponse, error)",
   "  err := msg.ValidateBasic()",
   "  if err != nil",
   "    return nil, err",
   "  if msg.Authority != k.authority",
   "    return nil, gerrc.ErrUnauthenticated",
   "  moduleParams := k.GetParams(ctx)",
   "  if msg.NewPriceParams != nil",
   "    moduleParams.Price = *msg.NewPriceParams",
   "  if msg.NewChainsParams != nil",
   "    moduleParams.Chains = *msg.NewChainsParams",
   "  if msg.NewMiscParams != nil",
   "    moduleParams.Misc = *msg.NewMiscParams",
   "  err = k.SetParams(ctx, moduleParams)",
   "  if err != nil",
   "    return nil, err",
   "  return &dymnstypes.MsgUpdateParamsResponse{}, nil"] := rfl

/-- `Keeper.ChargeGaugesFee` -/
theorem inc_Keeper_ChargeGaugesFee_listing : Gen.SkAuth.inc_Keeper_ChargeGaugesFee =
  ["func (k Keeper) ChargeGaugesFee(ctx sdk.Context, payer sdk.AccAddress, fee math.Int, gaugeCoins sdk.Coins) (err error)",
   "  var feeDenom string",
   "  if k.tk == nil",
   "    feeDenom, err = sdk.GetBaseDenom()",
   "  else",
   "    feeDenom, err = k.tk.GetBaseDenom(ctx)",
   "  if err != nil",
   "    return err",
   "  totalCost := gaugeCoins.AmountOf(feeDenom).Add(fee)",
   "  accountBalance := k.bk.GetBalance(ctx, payer, feeDenom).Amount",
   "  if accountBalance.LT(totalCost)",
   "    return sdkerrors.ErrInsufficientFunds",
   "  return k.tk.ChargeFeesFromPayer(ctx, payer, sdk.NewCoin(feeDenom, fee), nil)"] := rfl

/-- `NewMsgServerImpl` -/
theorem inc_NewMsgServerImpl_listing : Gen.SkAuth.inc_NewMsgServerImpl =
  ["func NewMsgServerImpl(keeper *Keeper) types.MsgServer",
   "  return &msgServer{keeper: keeper}"] := rfl

/-- `msgServer.AddToGauge` -/
theorem inc_msgServer_AddToGauge_listing : Gen.SkAuth.inc_msgServer_AddToGauge =
  ["func (server msgServer) AddToGauge(goCtx context.Context, msg *types.MsgAddToGauge) (*types.MsgAddToGaugeResponse, error)",
   "  owner, err := sdk.AccAddressFromBech32(msg.Owner)",
   "  if err != nil",
   "    return nil, err",
   "  gauge, err := server.keeper.GetGaugeByID(ctx, msg.GaugeId)",
   "  if err != nil",
   "    return nil, err",
   "  params := server.keeper.GetParams(ctx)",
   "  fee := params.AddToGaugeBaseFee.Add(params.AddDenomFee.MulRaw(int64(len(msg.Rewards) + len(gauge.Coins))))",
   "  err = server.keeper.ChargeGaugesFee(ctx, owner, fee, msg.Rewards)",
   "  if err != nil",
   "    return nil, fmt.Errorf(err)",
   "  err = server.keeper.AddToGaugeRewards(ctx, owner, msg.Rewards, gauge)",
   "  if err != nil",
   "    return nil, fmt.Errorf(err)",
   "  return &types.MsgAddToGaugeResponse{}, nil"] := rfl

/-- `msgServer.CreateGauge` -/
theorem inc_msgServer_CreateGauge_listing : Gen.SkAuth.inc_msgServer_CreateGauge =
  ["func (server msgServer) CreateGauge(goCtx context.Context, msg *types.MsgCreateGauge) (*types.MsgCreateGaugeResponse, error)",
   "  owner, err := sdk.AccAddressFromBech32(msg.Owner)",
   "  if err != nil",
   "    return nil, err",
   "  params := server.keeper.GetParams(ctx)",
   "  fee := params.CreateGaugeBaseFee.Add(params.AddDenomFee.MulRaw(int64(len(msg.Coins))))",
   "  err = server.keeper.ChargeGaugesFee(ctx, owner, fee, msg.Coins)",
   "  if err != nil",
   "    return nil, fmt.Errorf(err)",
   "  var gaugeID uint64",
   "  switch distr := msg.DistributeTo.(type)",
   "    case *types.MsgCreateGauge_Asset",
   "      gaugeID, err = server.keeper.CreateAssetGauge(ctx, msg.IsPerpetual, owner, msg.Coins, *distr.Asset, msg.StartTime, msg.NumEpochsPaidOver)",
   "      if err != nil",
   "        return nil, fmt.Errorf(err)",
   "    case *types.MsgCreateGauge_Endorsement",
   "      gaugeID, err = server.keeper.CreateEndorsementGauge(ctx, msg.IsPerpetual, owner, msg.Coins, *distr.Endorsement, msg.StartTime, msg.NumEpochsPaidOver)",
   "      if err != nil",
   "        return nil, fmt.Errorf(err)",
   "  return &types.MsgCreateGaugeResponse{}, nil"] := rfl

/-- `NewMsgServerImpl` -/
theorem lc_NewMsgServerImpl_listing : Gen.SkAuth.lc_NewMsgServerImpl =
  ["func NewMsgServerImpl(keeper *Keeper) types.MsgServer",
   "  return &msgServer{Keeper: keeper}"] := rfl

/-- `msgServer.SetCanonicalClient` -/
theorem lc_msgServer_SetCanonicalClient_listing : Gen.SkAuth.lc_msgServer_SetCanonicalClient =
  ["func (m msgServer) SetCanonicalClient(goCtx context.Context, msg *types.MsgSetCanonicalClient) (*types.MsgSetCanonicalClientResponse, error)",
   "  err := m.Keeper.TrySetCanonicalClient(ctx, msg.ClientId)",
   "  if err != nil",
   "    return nil, err",
   "  return &types.MsgSetCanonicalClientResponse{}, nil"] := rfl

/-- `Keeper.ForceGenesisInfoChange` -/
theorem rak_Keeper_ForceGenesisInfoChange_listing : Gen.SkAuth.rak_Keeper_ForceGenesisInfoChange =
  ["func (k Keeper) ForceGenesisInfoChange(goCtx context.Context, msg *types.MsgForceGenesisInfoChange) (*types.MsgForceGenesisInfoChangeResponse, error)",
   "  if msg.Authority != k.authority",
   "    err := gerrc.ErrUnauthenticated",
   "    return nil, err",
   "  err := msg.ValidateBasic()",
   "  if err != nil",
   "    err = errors.Join(gerrc.ErrInvalidArgument, err)",
   "    return nil, err",
   "  rollapp, found := k.GetRollapp(ctx, msg.RollappId)",
   "  if !found",
   "    err := types.ErrRollappNotFound",
   "    return nil, err",
   "  rollapp.GenesisInfo = msg.NewGenesisInfo",
   "  rollapp.GenesisInfo.Sealed = true",
   "  k.SetRollapp(ctx, rollapp)",
   "  return &types.MsgForceGenesisInfoChangeResponse{}, nil"] := rfl

/-- `Keeper.MarkObsoleteRollapps` -/
theorem rak_Keeper_MarkObsoleteRollapps_listing : Gen.SkAuth.rak_Keeper_MarkObsoleteRollapps =
  ["func (k Keeper) MarkObsoleteRollapps(ctx sdk.Context, drsVersions []uint32) (int, error)",
   "  obsoleteVersions := make(map[uint32]struct{})",
   "  for _, v := range drsVersions",
   "    obsoleteVersions[v] = struct{}{}",
   "    err := k.SetObsoleteDRSVersion(ctx, v)",
   "    if err != nil",
   "      return 0, fmt.Errorf(err)",
   "  var obsoleteNum int",
   "  for _, rollapp := range k.GetAllRollapps(ctx)",
   "    info, found := k.GetLatestStateInfo(ctx, rollapp.RollappId)",
   "    if !found",
   "      continue",
   "    bd := info.BDs.BD[len(info.BDs.BD)-1]",
   "    _, obsolete := obsoleteVersions[bd.DrsVersion]",
   "    if obsolete",
   "      err := osmoutils.ApplyFuncIfNoError(ctx, func#1)",
   "        func#1 (ctx sdk.Context) error",
   "          return k.HardForkToLatest(ctx, rollapp.RollappId)",
   "      if err != nil",
   "      obsoleteNum++",
   "  return obsoleteNum, nil"] := rfl

/-- `Keeper.SubmitRollappFraud` -/
theorem rak_Keeper_SubmitRollappFraud_listing : Gen.SkAuth.rak_Keeper_SubmitRollappFraud =
  ["func (k Keeper) SubmitRollappFraud(goCtx context.Context, msg *types.MsgRollappFraudProposal) (*types.MsgRollappFraudProposalResponse, error)",
   "  if msg.Authority != k.authority",
   "    err := gerrc.ErrUnauthenticated",
   "    return nil, err",
   "  err := msg.ValidateBasic()",
   "  if err != nil",
   "    err = gerrc.ErrInvalidArgument",
   "    return nil, err",
   "  rollapp, found := k.GetRollapp(ctx, msg.RollappId)",
   "  if !found",
   "    err := gerrc.ErrNotFound",
   "    return nil, err",
   "  if rollapp.GetRevisionForHeight(msg.FraudHeight).Number != msg.FraudRevision",
   "    err := gerrc.ErrFailedPrecondition",
   "    return nil, err",
   "  if msg.PunishSequencerAddress != \"\"",
   "    err := k.SequencerK.PunishSequencer(ctx, msg.PunishSequencerAddress, msg.MustRewardee())",
   "    if err != nil",
   "      return nil, err",
   "  err := k.HardFork(ctx, msg.RollappId, msg.FraudHeight-1)",
   "  if err != nil",
   "    return nil, err",
   "  return &types.MsgRollappFraudProposalResponse{}, nil"] := rfl

/-- `msgServer.AddApp` -/
theorem rak_msgServer_AddApp_listing : Gen.SkAuth.rak_msgServer_AddApp =
  ["func (k msgServer) AddApp(goCtx context.Context, msg *types.MsgAddApp) (*types.MsgAddAppResponse, error)",
   "  err := k.checkInputs(ctx, msg)",
   "  if err != nil",
   "    return nil, err",
   "  creator := sdk.MustAccAddressFromBech32(msg.Creator)",
   "  appFee := sdk.NewCoins(k.AppRegistrationFee(ctx))",
   "  err := k.bankKeeper.SendCoinsFromAccountToModule(ctx, creator, types.ModuleName, appFee)",
   "  if err != nil",
   "    return nil, types.ErrAppRegistrationFeePayment",
   "  err := k.bankKeeper.BurnCoins(ctx, types.ModuleName, appFee)",
   "  if err != nil",
   "    return nil, types.ErrAppRegistrationFeePayment",
   "  app := msg.GetApp()",
   "  app.Id = k.GenerateNextAppID(ctx, app.RollappId)",
   "  k.SetApp(ctx, app)",
   "  return &types.MsgAddAppResponse{}, nil"] := rfl

/-- `msgServer.MarkObsoleteRollapps` -/
theorem rak_msgServer_MarkObsoleteRollapps_listing : Gen.SkAuth.rak_msgServer_MarkObsoleteRollapps =
  ["func (k msgServer) MarkObsoleteRollapps(goCtx context.Context, msg *types.MsgMarkObsoleteRollapps) (*types.MsgMarkObsoleteRollappsResponse, error)",
   "  err := msg.ValidateBasic()",
   "  if err != nil",
   "    return nil, err",
   "  if msg.Authority != k.authority",
   "    return nil, gerrc.ErrInvalidArgument",
   "  obsoleteNum, err := k.Keeper.MarkObsoleteRollapps(ctx, msg.DrsVersions)",
   "  if err != nil",
   "    return nil, fmt.Errorf(err)",
   "  return &types.MsgMarkObsoleteRollappsResponse{}, nil"] := rfl

/-- `msgServer.RemoveApp` -/
theorem rak_msgServer_RemoveApp_listing : Gen.SkAuth.rak_msgServer_RemoveApp =
  ["func (k msgServer) RemoveApp(goCtx context.Context, msg *types.MsgRemoveApp) (*types.MsgRemoveAppResponse, error)",
   "  err := k.checkInputs(ctx, msg)",
   "  if err != nil",
   "    return nil, err",
   "  app := msg.GetApp()",
   "  k.DeleteApp(ctx, app)",
   "  return &types.MsgRemoveAppResponse{}, nil"] := rfl

/-- `msgServer.TransferOwnership` -/
theorem rak_msgServer_TransferOwnership_listing : Gen.SkAuth.rak_msgServer_TransferOwnership =
  ["func (k msgServer) TransferOwnership(goCtx context.Context, msg *types.MsgTransferOwnership) (*types.MsgTransferOwnershipResponse, error)",
   "  err := msg.ValidateBasic()",
   "  if err != nil",
   "    return nil, types.ErrInvalidRequest",
   "  rollapp, ok := k.GetRollapp(ctx, msg.RollappId)",
   "  if !ok",
   "    return nil, types.ErrUnknownRollappID",
   "  if rollapp.Owner != msg.CurrentOwner",
   "    return nil, types.ErrUnauthorizedSigner",
   "  if rollapp.Owner == msg.NewOwner",
   "    return nil, types.ErrSameOwner",
   "  bk, ok := k.bankKeeper.(interface{BlockedAddr(sdk.AccAddress) bool})",
   "  if ok",
   "    newOwner, err := sdk.AccAddressFromBech32(msg.NewOwner)",
   "    if err != nil || bk.BlockedAddr(newOwner)",
   "      return nil, types.ErrInvalidRequest",
   "  rollapp.Owner = msg.NewOwner",
   "  k.SetRollapp(ctx, rollapp)",
   "  return &types.MsgTransferOwnershipResponse{}, nil"] := rfl

/-- `msgServer.UpdateApp` -/
theorem rak_msgServer_UpdateApp_listing : Gen.SkAuth.rak_msgServer_UpdateApp =
  ["func (k msgServer) UpdateApp(goCtx context.Context, msg *types.MsgUpdateApp) (*types.MsgUpdateAppResponse, error)",
   "  err := k.checkInputs(ctx, msg)",
   "  if err != nil",
   "    return nil, err",
   "  app := msg.GetApp()",
   "  k.SetApp(ctx, app)",
   "  return &types.MsgUpdateAppResponse{}, nil"] := rfl

/-- `msgServer.UpdateRollappInformation` -/
theorem rak_msgServer_UpdateRollappInformation_listing : Gen.SkAuth.rak_msgServer_UpdateRollappInformation =
  ["func (k msgServer) UpdateRollappInformation(goCtx context.Context, msg *types.MsgUpdateRollappInformation) (*types.MsgUpdateRollappInformationResponse, error)",
   "  updated, err := k.CheckAndUpdateRollappFields(ctx, msg)",
   "  if err != nil",
   "    return nil, err",
   "  k.SetRollapp(ctx, updated)",
   "  return &types.MsgUpdateRollappInformationResponse{}, nil"] := rfl

/-- `msgServer.appIDExists` -/
theorem rak_msgServer_appIDExists_listing : Gen.SkAuth.rak_msgServer_appIDExists =
  ["func (k msgServer) appIDExists(ctx sdk.Context, app types.App) bool",
   "  _, foundApp := k.GetApp(ctx, app.GetId(), app.GetRollappId())",
   "  return foundApp"] := rfl

/-- `msgServer.appNameExists` -/
theorem rak_msgServer_appNameExists_listing : Gen.SkAuth.rak_msgServer_appNameExists =
  ["func (k msgServer) appNameExists(apps []*types.App, app types.App) bool",
   "  for _, a := range apps",
   "    if (app.GetId() == 0 || a.Id != app.GetId()) && a.Name == app.GetName()",
   "      return true",
   "  return false"] := rfl

/-- `msgServer.checkInputs` -/
theorem rak_msgServer_checkInputs_listing : Gen.SkAuth.rak_msgServer_checkInputs =
  ["func (k msgServer) checkInputs(ctx sdk.Context, msg appMsg) error",
   "  app := msg.GetApp()",
   "  rollapp, foundRollapp := k.GetRollapp(ctx, app.GetRollappId())",
   "  if !foundRollapp",
   "    return gerrc.ErrNotFound",
   "  if msg.GetCreator() != rollapp.Owner",
   "    return gerrc.ErrPermissionDenied",
   "  switch msg.(type)",
   "    case *types.MsgRemoveApp, *types.MsgUpdateApp",
   "      idExists := k.appIDExists(ctx, app)",
   "      if !idExists",
   "        return gerrc.ErrNotFound",
   "  switch msg.(type)",
   "    case *types.MsgAddApp, *types.MsgUpdateApp",
   "      orderMsg, ok := msg.(appOrderMsg)",
   "      if ok",
   "        if orderMsg.GetOrder() == 0",
   "          orderMsg.SetOrder(-1)",
   "      apps := k.GetRollappApps(ctx, app.GetRollappId())",
   "      nameExists := k.appNameExists(apps, app)",
   "      if nameExists",
   "        return gerrc.ErrAlreadyExists",
   "  return nil"] := rfl

/-- `BlockTypeUrls` -/
theorem ante_BlockTypeUrls_listing : Gen.SkAuth.ante_BlockTypeUrls =
  ["func BlockTypeUrls(depthMax int, typeUrls ...string) Predicate",
   "  block := make(map[string]struct{})",
   "  for _, url := range typeUrls",
   "    block[url] = struct{}{}",
   "  return func#1",
   "    func#1 (url string, depth int) bool",
   "      _, ok := block[url]",
   "      return ok && depthMax <= depth"] := rfl

/-- `NewAnteHandler` -/
theorem ante_NewAnteHandler_listing : Gen.SkAuth.ante_NewAnteHandler =
  ["func NewAnteHandler(options HandlerOptions) (sdk.AnteHandler, error)",
   "  err := options.validate()",
   "  if err != nil",
   "    return nil, err",
   "  return func#1, nil",
   "    func#1 (ctx sdk.Context, tx sdk.Tx, sim bool) (newCtx sdk.Context, err error)",
   "      var anteHandler sdk.AnteHandler",
   "      defer Recover(<noise>, &err)",
   "      txWithExtensions, ok := tx.(authante.HasExtensionOptionsTx)",
   "      if ok",
   "        opts := txWithExtensions.GetExtensionOptions()",
   "        if len(opts) > 0",
   "          typeURL := opts[0].GetTypeUrl()",
   "          switch typeURL",
   "            case \"/ethermint.evm.v1.ExtensionOptionsEthereumTx\"",
   "              anteHandler = newEthAnteHandler(options)",
   "            default",
   "              return ctx, errortypes.ErrUnknownExtensionOptions",
   "          return anteHandler(ctx, tx, sim)",
   "      switch tx.(type)",
   "        case sdk.Tx",
   "          anteHandler = newCosmosAnteHandler(options)",
   "        default",
   "          return ctx, errortypes.ErrUnknownRequest",
   "      return anteHandler(ctx, tx, sim)"] := rfl

/-- `NewRejectMessagesDecorator` -/
theorem ante_NewRejectMessagesDecorator_listing : Gen.SkAuth.ante_NewRejectMessagesDecorator =
  ["func NewRejectMessagesDecorator() *RejectMessagesDecorator",
   "  return &RejectMessagesDecorator{predicates: []Predicate{}}"] := rfl

/-- `Recover` -/
theorem ante_Recover_listing : Gen.SkAuth.ante_Recover =
  ["func Recover(logger cometbftlog.Logger, err *error)",
   "  r := recover()",
   "  if r != nil",
   "    *err = errortypes.ErrPanic",
   "    e, ok := r.(error)",
   "    if ok",
   "    else"] := rfl

/-- `RejectMessagesDecorator.AnteHandle` -/
theorem ante_RejectMessagesDecorator_AnteHandle_listing : Gen.SkAuth.ante_RejectMessagesDecorator_AnteHandle =
  ["func (rmd RejectMessagesDecorator) AnteHandle(ctx sdk.Context, tx sdk.Tx, simulate bool, next sdk.AnteHandler) (sdk.Context, error)",
   "  err := rmd.checkMsgs(ctx, tx.GetMsgs(), 0)",
   "  if err != nil",
   "    return ctx, errors.Join(sdkerrors.ErrUnauthorized, err)",
   "  return next(ctx, tx, simulate)"] := rfl

/-- `RejectMessagesDecorator.WithPredicate` -/
theorem ante_RejectMessagesDecorator_WithPredicate_listing : Gen.SkAuth.ante_RejectMessagesDecorator_WithPredicate =
  ["func (rmd *RejectMessagesDecorator) WithPredicate(p Predicate) *RejectMessagesDecorator",
   "  rmd.predicates = append(rmd.predicates, p)",
   "  return rmd"] := rfl

/-- `RejectMessagesDecorator.checkMsg` -/
theorem ante_RejectMessagesDecorator_checkMsg_listing : Gen.SkAuth.ante_RejectMessagesDecorator_checkMsg =
  ["func (rmd RejectMessagesDecorator) checkMsg(ctx sdk.Context, msg sdk.Msg, depth int) error",
   "  if depth >= maxDepth",
   "    return fmt.Errorf(maxDepth)",
   "  _, ok := msg.(*evmtypes.MsgEthereumTx)",
   "  if ok",
   "    return sdkerrors.ErrInvalidType",
   "  typeURL := sdk.MsgTypeURL(msg)",
   "  for _, pred := range rmd.predicates",
   "    if pred(typeURL, depth)",
   "      return gerrc.ErrInvalidArgument",
   "  var err error",
   "  var inner []sdk.Msg",
   "  switch m := msg.(type)",
   "    case *authz.MsgExec",
   "      inner, err = m.GetMessages()",
   "    case *govtypesv1.MsgSubmitProposal",
   "      inner, err = m.GetMsgs()",
   "    case *group.MsgSubmitProposal",
   "      inner, err = m.GetMsgs()",
   "    case *authz.MsgGrant",
   "      authorization, err := m.GetAuthorization()",
   "      if err != nil",
   "        return err",
   "      typeURL = authorization.MsgTypeURL()",
   "      for _, pred := range rmd.predicates",
   "        if pred(typeURL, depth)",
   "          return gerrc.ErrInvalidArgument",
   "    default",
   "  if err != nil",
   "    return err",
   "  return rmd.checkMsgs(ctx, inner, depth+1)"] := rfl

/-- `RejectMessagesDecorator.checkMsgs` -/
theorem ante_RejectMessagesDecorator_checkMsgs_listing : Gen.SkAuth.ante_RejectMessagesDecorator_checkMsgs =
  ["func (rmd RejectMessagesDecorator) checkMsgs(ctx sdk.Context, msgs []sdk.Msg, depth int) error",
   "  for _, msg := range msgs",
   "    err := rmd.checkMsg(ctx, msg, depth)",
   "    if err != nil",
   "      return err",
   "  return nil"] := rfl

/-- `newCosmosAnteHandler` -/
theorem ante_newCosmosAnteHandler_listing : Gen.SkAuth.ante_newCosmosAnteHandler =
  ["func newCosmosAnteHandler(options HandlerOptions) sdk.AnteHandler",
   "  mempoolFeeDecorator := txfeesante.NewMempoolFeeDecorator(*options.TxFeesKeeper, options.FeeMarketKeeper)",
   "  deductFeeDecorator := txfeesante.NewDeductFeeDecorator(*options.TxFeesKeeper, options.AccountKeeper, options.BankKeeper, options.FeegrantKeeper)",
   "  anteDecorators := []sdk.AnteDecorator{ante.NewSetUpContextDecorator(), NewRejectMessagesDecorator().WithPredicate(BlockTypeUrls(1, sdk.MsgTypeURL(&ibcclienttypes.MsgUpdateClient{}), sdk.MsgTypeURL(&ibcclienttypes.MsgSubmitMisbehaviour{}))). WithPredicate(BlockTypeUrls(0, sdk.MsgTypeURL(&evmtypes.MsgEthereumTx{}), sdk.MsgTypeURL(&vestingtypes.MsgCreateVestingAccount{}), sdk.MsgTypeURL(&vestingtypes.MsgCreatePeriodicVestingAccount{}), sdk.MsgTypeURL(&vestingtypes.MsgCreatePermanentLockedAccount{}))), ante.NewExtensionOptionsDecorator(options.ExtensionOptionChecker), mempoolFeeDecorator, deductFeeDecorator, ante.NewValidateBasicDecorator(), ante.NewTxTimeoutHeightDecorator(), ante.NewValidateMemoDecorator(options.AccountKeeper), ante.NewConsumeGasForTxSizeDecorator(options.AccountKeeper), ante.NewSetPubKeyDecorator(options.AccountKeeper), ante.NewValidateSigCountDecorator(options.AccountKeeper), ante.NewSigGasConsumeDecorator(options.AccountKeeper, ethante.DefaultSigVerificationGasConsumer), ante.NewSigVerificationDecorator(options.AccountKeeper, options.SignModeHandler), ante.NewIncrementSequenceDecorator(options.AccountKeeper), types.NewIBCProofHeightDecorator(), lightclientkeeper.NewIBCMessagesDecorator(*options.LightClientKeeper, options.IBCKeeper.ClientKeeper, options.IBCKeeper.ChannelKeeper, options.RollappKeeper), ibcante.NewRedundantRelayDecorator(options.IBCKeeper), ethante.NewGasWantedDecorator(options.EvmKeeper, options.FeeMarketKeeper)}",
   "  return sdk.ChainAnteDecorators(anteDecorators...)"] := rfl

/-- `every function with a body in the listed files, sorted per package` -/
theorem inventory_listing : Gen.SkAuth.inventory =
  ["sqp_HandlePunishSequencerProposal",
   "sqp_NewSequencerProposalHandler",
   "sqk_msgServer_UpdateParams",
   "strp_HandleCreateStreamProposal",
   "strp_HandleReplaceStreamDistributionProposal",
   "strp_HandleTerminateStreamProposal",
   "strp_HandleUpdateStreamDistributionProposal",
   "strp_NewStreamerProposalHandler",
   "dnp_NewDymNsProposalHandler",
   "dnp_handleMigrateChainIdsProposal",
   "dnp_handleUpdateAliasesProposal",
   "dnk_Keeper_MigrateChainIds",
   "dnk_Keeper_UpdateAliases",
   "dnk_Keeper_migrateChainIdsInDymNames",
   "dnk_Keeper_migrateChainIdsInParams",
   "dnk_msgServer_UpdateParams",
   "inc_Keeper_ChargeGaugesFee",
   "inc_NewMsgServerImpl",
   "inc_msgServer_AddToGauge",
   "inc_msgServer_CreateGauge",
   "lc_NewMsgServerImpl",
   "lc_msgServer_SetCanonicalClient",
   "rak_Keeper_ForceGenesisInfoChange",
   "rak_Keeper_MarkObsoleteRollapps",
   "rak_Keeper_SubmitRollappFraud",
   "rak_msgServer_AddApp",
   "rak_msgServer_MarkObsoleteRollapps",
   "rak_msgServer_RemoveApp",
   "rak_msgServer_TransferOwnership",
   "rak_msgServer_UpdateApp",
   "rak_msgServer_UpdateRollappInformation",
   "rak_msgServer_appIDExists",
   "rak_msgServer_appNameExists",
   "rak_msgServer_checkInputs",
   "ante_BlockTypeUrls",
   "ante_NewAnteHandler",
   "ante_NewRejectMessagesDecorator",
   "ante_Recover",
   "ante_RejectMessagesDecorator_AnteHandle",
   "ante_RejectMessagesDecorator_WithPredicate",
   "ante_RejectMessagesDecorator_checkMsg",
   "ante_RejectMessagesDecorator_checkMsgs",
   "ante_newCosmosAnteHandler"] := rfl

end DymVerif.GenEqSk.Auth
