/-
  Lemmas/GenesisKV — the keyed-collection lemmas behind every module's genesis round trip:
  a KV section (strictly sorted list) is determined by its set of entries (`sorted_ext`); `kvSet`
  keeps it sorted and has the expected membership; importing the exported values one by one, in ANY
  order, rebuilds the section (`importVals_perm`); a derived index rebuilt by a loop of `Set`s equals
  any sorted section with the same entries (`importWith_eq`).  Id counters: `maxId` is permutation
  invariant and bounds every id.
-/
import DymVerif.Model.Genesis
import DymVerif.Lemmas.Bytes
namespace DymVerif.Genesis
open DymVerif

/-! ### the byte order is a strict total order -/

theorem lexLt_trans : ∀ (a b c : Bytes), lexLt a b = true → lexLt b c = true → lexLt a c = true
  | [], [], _, h, _ => by simp [lexLt] at h
  | [], _ :: _, [], _, h => by simp [lexLt] at h
  | [], _ :: _, _ :: _, _, _ => by simp [lexLt]
  | _ :: _, [], _, h, _ => by simp [lexLt] at h
  | _ :: _, _ :: _, [], _, h => by simp [lexLt] at h
  | x :: xs, y :: ys, z :: zs, h1, h2 => by
    simp only [lexLt] at h1 h2 ⊢
    split at h1
    · split at h2
      · rw [if_pos (by omega)]
      · split at h2
        · cases h2
        · have : y = z := by omega
          subst this; rw [if_pos (by assumption)]
    · split at h1
      · cases h1
      · have : x = y := by omega
        subst this
        split at h2
        · rw [if_pos (by assumption)]
        · split at h2
          · cases h2
          · rw [if_neg (by assumption), if_neg (by assumption)]; exact lexLt_trans xs ys zs h1 h2

theorem lexLt_tri : ∀ (a b : Bytes), lexLt a b = false → lexLt b a = false → a = b
  | [], [], _, _ => rfl
  | [], _ :: _, h, _ => by simp [lexLt] at h
  | _ :: _, [], _, h => by simp [lexLt] at h
  | x :: xs, y :: ys, h1, h2 => by
    simp only [lexLt] at h1 h2
    split at h1
    · cases h1
    · split at h1
      · split at h2
        · cases h2
        · omega
      · have : x = y := by omega
        subst this
        rw [if_neg (by assumption), if_neg (by assumption)] at h2
        rw [lexLt_tri xs ys h1 h2]

theorem soBytes : StrictOrder lexLt := ⟨lexLt_irrefl, lexLt_trans, lexLt_tri⟩

theorem soNat : StrictOrder ltNat :=
  ⟨fun a => by simp [ltNat], fun a b c h1 h2 => by simp [ltNat] at *; omega,
   fun a b h1 h2 => by simp [ltNat] at *; omega⟩

theorem soPair {κ₁ κ₂ : Type} [DecidableEq κ₁] {lt₁ : κ₁ → κ₁ → Bool} {lt₂ : κ₂ → κ₂ → Bool}
    (h₁ : StrictOrder lt₁) (h₂ : StrictOrder lt₂) : StrictOrder (ltPair lt₁ lt₂) where
  irrefl a := by simp [ltPair, h₁.irrefl, h₂.irrefl]
  trans a b c hab hbc := by
    simp only [ltPair, Bool.or_eq_true, Bool.and_eq_true, decide_eq_true_eq] at *
    rcases hab with hab | ⟨e1, hab⟩
    · rcases hbc with hbc | ⟨e2, _⟩
      · exact Or.inl (h₁.trans _ _ _ hab hbc)
      · exact Or.inl (e2 ▸ hab)
    · rcases hbc with hbc | ⟨e2, hbc⟩
      · exact Or.inl (e1 ▸ hbc)
      · exact Or.inr ⟨e1.trans e2, h₂.trans _ _ _ hab hbc⟩
  tri a b hab hba := by
    simp only [ltPair, Bool.or_eq_false_iff, Bool.and_eq_false_iff, decide_eq_false_iff_not] at *
    have e1 : a.1 = b.1 := h₁.tri _ _ hab.1 hba.1
    have e2 : a.2 = b.2 := by
      apply h₂.tri
      · rcases hab.2 with h | h
        · exact absurd e1 h
        · exact h
      · rcases hba.2 with h | h
        · exact absurd e1.symm h
        · exact h
    exact Prod.ext e1 e2

/-! ### sorted sections -/

section kv
variable {κ β : Type} {lt : κ → κ → Bool}

theorem StrictOrder.ne_of_lt (so : StrictOrder lt) {a b : κ} (h : lt a b = true) : a ≠ b := by
  intro e; subst e; rw [so.irrefl] at h; cases h

theorem StrictOrder.asymm (so : StrictOrder lt) {a b : κ} (h : lt a b = true) : lt b a = false := by
  cases h' : lt b a with
  | false => rfl
  | true => have := so.trans _ _ _ h h'; rw [so.irrefl] at this; cases this

theorem sorted_nil : Sorted lt ([] : KV κ β) := List.Pairwise.nil

theorem sorted_cons {e : κ × β} {s : KV κ β} :
    Sorted lt (e :: s) ↔ (∀ a ∈ s, lt e.1 a.1 = true) ∧ Sorted lt s := List.pairwise_cons

theorem Sorted.keys_nodup (so : StrictOrder lt) {s : KV κ β} (h : Sorted lt s) : (s.map (·.1)).Nodup := by
  unfold List.Nodup
  rw [List.pairwise_map]
  exact List.Pairwise.imp (fun hab => so.ne_of_lt hab) h

theorem Sorted.eq_of_key (so : StrictOrder lt) {s : KV κ β} (h : Sorted lt s) {a b : κ × β}
    (ha : a ∈ s) (hb : b ∈ s) (hk : a.1 = b.1) : a = b := by
  induction s with
  | nil => cases ha
  | cons e s ih =>
    rw [sorted_cons] at h
    rcases List.mem_cons.1 ha with rfl | ha' <;> rcases List.mem_cons.1 hb with rfl | hb'
    · rfl
    · exact absurd hk (so.ne_of_lt (h.1 _ hb'))
    · exact absurd hk.symm (so.ne_of_lt (h.1 _ ha'))
    · exact ih h.2 ha' hb'

theorem mem_kvSet (so : StrictOrder lt) (k : κ) (v : β) :
    ∀ {s : KV κ β}, Sorted lt s → ∀ e, e ∈ kvSet lt k v s ↔ e = (k, v) ∨ (e ∈ s ∧ e.1 ≠ k)
  | [], _, e => by simp [kvSet]
  | e0 :: rest, hs, e => by
    rw [sorted_cons] at hs
    unfold kvSet
    by_cases h1 : lt k e0.1 = true
    · rw [if_pos h1]
      constructor
      · intro h
        rcases List.mem_cons.1 h with rfl | h
        · exact Or.inl rfl
        · right; refine ⟨h, ?_⟩
          rcases List.mem_cons.1 h with rfl | h'
          · exact (so.ne_of_lt h1).symm
          · exact (so.ne_of_lt (so.trans _ _ _ h1 (hs.1 _ h'))).symm
      · rintro (rfl | ⟨h, _⟩)
        · exact List.mem_cons_self
        · exact List.mem_cons_of_mem _ h
    · rw [if_neg h1]
      by_cases h2 : lt e0.1 k = true
      · rw [if_pos h2]
        have ih := mem_kvSet so k v hs.2 e
        constructor
        · intro h
          rcases List.mem_cons.1 h with rfl | h
          · exact Or.inr ⟨List.mem_cons_self, so.ne_of_lt h2⟩
          · rcases ih.1 h with rfl | ⟨h', hne⟩
            · exact Or.inl rfl
            · exact Or.inr ⟨List.mem_cons_of_mem _ h', hne⟩
        · rintro (rfl | ⟨h, hne⟩)
          · exact List.mem_cons_of_mem _ (ih.2 (Or.inl rfl))
          · rcases List.mem_cons.1 h with rfl | h'
            · exact List.mem_cons_self
            · exact List.mem_cons_of_mem _ (ih.2 (Or.inr ⟨h', hne⟩))
      · rw [if_neg h2]
        have hk : k = e0.1 := so.tri _ _ (by simpa using h1) (by simpa using h2)
        constructor
        · intro h
          rcases List.mem_cons.1 h with rfl | h
          · exact Or.inl rfl
          · exact Or.inr ⟨List.mem_cons_of_mem _ h, by rw [hk]; exact (so.ne_of_lt (hs.1 _ h)).symm⟩
        · rintro (rfl | ⟨h, hne⟩)
          · exact List.mem_cons_self
          · rcases List.mem_cons.1 h with rfl | h'
            · exact absurd hk.symm hne
            · exact List.mem_cons_of_mem _ h'

theorem sorted_kvSet (so : StrictOrder lt) (k : κ) (v : β) :
    ∀ {s : KV κ β}, Sorted lt s → Sorted lt (kvSet lt k v s)
  | [], _ => by simp [kvSet, Sorted]
  | e0 :: rest, hs => by
    have hs' := sorted_cons.1 hs
    unfold kvSet
    by_cases h1 : lt k e0.1 = true
    · rw [if_pos h1]
      refine sorted_cons.2 ⟨?_, hs⟩
      intro a ha
      rcases List.mem_cons.1 ha with rfl | ha'
      · exact h1
      · exact so.trans _ _ _ h1 (hs'.1 _ ha')
    · rw [if_neg h1]
      by_cases h2 : lt e0.1 k = true
      · rw [if_pos h2]
        refine sorted_cons.2 ⟨?_, sorted_kvSet so k v hs'.2⟩
        intro a ha
        rcases (mem_kvSet so k v hs'.2 a).1 ha with rfl | ⟨ha', _⟩
        · exact h2
        · exact hs'.1 _ ha'
      · rw [if_neg h2]
        have hk : k = e0.1 := so.tri _ _ (by simpa using h1) (by simpa using h2)
        refine sorted_cons.2 ⟨?_, hs'.2⟩
        intro a ha
        show lt k a.1 = true
        rw [hk]; exact hs'.1 _ ha

theorem sorted_kvDel [DecidableEq κ] (k : κ) {s : KV κ β} (h : Sorted lt s) : Sorted lt (kvDel k s) :=
  List.Pairwise.filter _ h

theorem mem_kvDel [DecidableEq κ] (k : κ) {s : KV κ β} (e : κ × β) : e ∈ kvDel k s ↔ e ∈ s ∧ e.1 ≠ k := by
  simp [kvDel]

/-- a sorted section is determined by its set of entries -/
theorem sorted_ext (so : StrictOrder lt) :
    ∀ {s t : KV κ β}, Sorted lt s → Sorted lt t → (∀ e, e ∈ s ↔ e ∈ t) → s = t
  | [], [], _, _, _ => rfl
  | [], b :: _, _, _, h => absurd ((h b).2 List.mem_cons_self) (by simp)
  | a :: _, [], _, _, h => absurd ((h a).1 List.mem_cons_self) (by simp)
  | a :: s, b :: t, hs, ht, h => by
    rw [sorted_cons] at hs ht
    have hab : a = b := by
      rcases List.mem_cons.1 ((h a).1 List.mem_cons_self) with e | ha
      · exact e
      · rcases List.mem_cons.1 ((h b).2 List.mem_cons_self) with e | hb
        · exact e.symm
        · have := so.trans _ _ _ (hs.1 _ hb) (ht.1 _ ha)
          rw [so.irrefl] at this; cases this
    subst hab
    congr 1
    apply sorted_ext so hs.2 ht.2
    intro e
    constructor
    · intro he
      rcases List.mem_cons.1 ((h e).1 (List.mem_cons_of_mem _ he)) with rfl | h'
      · have := hs.1 _ he; rw [so.irrefl] at this; cases this
      · exact h'
    · intro he
      rcases List.mem_cons.1 ((h e).2 (List.mem_cons_of_mem _ he)) with rfl | h'
      · have := ht.1 _ he; rw [so.irrefl] at this; cases this
      · exact h'

/-- a loop of `Set`s over items with pairwise distinct keys: sorted, and exactly the old entries not
    overwritten plus one entry per item -/
theorem foldl_kvSet_spec (so : StrictOrder lt) {γ : Type} (kf : γ → κ) (vf : γ → β) :
    ∀ (items : List γ) (acc : KV κ β), Sorted lt acc → (items.map kf).Nodup →
      Sorted lt (items.foldl (fun s x => kvSet lt (kf x) (vf x) s) acc) ∧
      ∀ e, e ∈ items.foldl (fun s x => kvSet lt (kf x) (vf x) s) acc ↔
        (e ∈ acc ∧ e.1 ∉ items.map kf) ∨ ∃ x ∈ items, e = (kf x, vf x)
  | [], acc, ha, _ => ⟨ha, fun e => by simp⟩
  | x :: rest, acc, ha, hn => by
    rw [List.map_cons, List.nodup_cons] at hn
    have ih := foldl_kvSet_spec so kf vf rest (kvSet lt (kf x) (vf x) acc) (sorted_kvSet so _ _ ha) hn.2
    refine ⟨ih.1, fun e => ?_⟩
    rw [List.foldl_cons, ih.2 e, mem_kvSet so _ _ ha]
    constructor
    · rintro (⟨rfl | ⟨h1, h2⟩, h3⟩ | ⟨y, hy, rfl⟩)
      · exact Or.inr ⟨x, List.mem_cons_self, rfl⟩
      · refine Or.inl ⟨h1, ?_⟩
        rw [List.map_cons, List.mem_cons]; rintro (h | h)
        · exact h2 h
        · exact h3 h
      · exact Or.inr ⟨y, List.mem_cons_of_mem _ hy, rfl⟩
    · rintro (⟨h1, h2⟩ | ⟨y, hy, rfl⟩)
      · rw [List.map_cons, List.mem_cons, not_or] at h2
        exact Or.inl ⟨Or.inr ⟨h1, h2.1⟩, h2.2⟩
      · rcases List.mem_cons.1 hy with rfl | hy'
        · exact Or.inl ⟨Or.inl rfl, hn.1⟩
        · exact Or.inr ⟨y, hy', rfl⟩

theorem sorted_importWith (so : StrictOrder lt) {γ : Type} (kf : γ → κ) (vf : γ → β) (items : List γ)
    (hn : (items.map kf).Nodup) : Sorted lt (importWith lt kf vf items) :=
  (foldl_kvSet_spec so kf vf items [] sorted_nil hn).1

theorem mem_importWith (so : StrictOrder lt) {γ : Type} (kf : γ → κ) (vf : γ → β) (items : List γ)
    (hn : (items.map kf).Nodup) (e : κ × β) :
    e ∈ importWith lt kf vf items ↔ ∃ x ∈ items, e = (kf x, vf x) := by
  unfold importWith
  rw [(foldl_kvSet_spec so kf vf items [] sorted_nil hn).2 e]
  simp

/-- **an index rebuilt by a loop of `Set`s** over items with distinct keys equals any sorted section
    holding exactly one entry per item -/
theorem importWith_eq (so : StrictOrder lt) {γ : Type} {kf : γ → κ} {vf : γ → β} {items : List γ}
    {t : KV κ β} (ht : Sorted lt t) (hn : (items.map kf).Nodup)
    (hm : ∀ e, e ∈ t ↔ ∃ x ∈ items, e = (kf x, vf x)) : importWith lt kf vf items = t :=
  sorted_ext so (sorted_importWith so kf vf items hn) ht
    (fun e => by rw [mem_importWith so kf vf items hn e, hm e])

/-- **import ∘ export on one section, for any order of the exported list**: setting the exported
    values one by one, each under the key computed from it, rebuilds the section -/
theorem importVals_perm (so : StrictOrder lt) {s : KV κ β} {key : β → κ} (hs : Sorted lt s)
    (hk : Keyed key s) {l : List β} (hp : l.Perm (exportVals s)) : importVals lt key l = s := by
  have hkeys : (exportVals s).map key = s.map (·.1) := by
    unfold exportVals; rw [List.map_map]
    apply List.map_congr_left
    intro e he; exact (hk e he).symm
  apply importWith_eq so hs
  · rw [(hp.map key).nodup_iff, hkeys]; exact hs.keys_nodup so
  · intro e
    constructor
    · intro he
      refine ⟨e.2, hp.mem_iff.2 (List.mem_map.2 ⟨e, he, rfl⟩), ?_⟩
      rw [← hk e he]; rfl
    · rintro ⟨x, hx, rfl⟩
      obtain ⟨e', he', rfl⟩ := List.mem_map.1 (hp.mem_iff.1 hx)
      rw [← hk e' he']; exact he'

theorem importVals_export (so : StrictOrder lt) {s : KV κ β} {key : β → κ} (hs : Sorted lt s)
    (hk : Keyed key s) : importVals lt key (exportVals s) = s :=
  importVals_perm so hs hk (List.Perm.refl _)

theorem keyed_kvSet (so : StrictOrder lt) {key : β → κ} {s : KV κ β} (hs : Sorted lt s) (hk : Keyed key s) (v : β) :
    Keyed key (kvSet lt (key v) v s) := by
  intro e he
  rcases (mem_kvSet so _ _ hs e).1 he with rfl | ⟨h, _⟩
  · rfl
  · exact hk e h

theorem keyed_kvDel [DecidableEq κ] {key : β → κ} {s : KV κ β} (hk : Keyed key s) (k : κ) : Keyed key (kvDel k s) :=
  fun e he => hk e ((mem_kvDel k e).1 he).1

theorem kvGet_some [DecidableEq κ] {k : κ} {s : KV κ β} {v : β} (h : kvGet k s = some v) : (k, v) ∈ s := by
  unfold kvGet at h
  cases hf : s.find? (fun e => decide (e.1 = k)) with
  | none => rw [hf] at h; cases h
  | some e =>
    rw [hf] at h
    have h1 := List.find?_some hf
    have h2 := List.mem_of_find?_eq_some hf
    simp only [Option.map_some, Option.some.injEq] at h
    simp only [decide_eq_true_eq] at h1
    rw [← h1, ← h]; exact h2

theorem kvGet_none [DecidableEq κ] {k : κ} {s : KV κ β} (h : kvGet k s = none) : ∀ e ∈ s, e.1 ≠ k := by
  unfold kvGet at h
  intro e he hk
  cases hf : s.find? (fun e => decide (e.1 = k)) with
  | none =>
    rw [List.find?_eq_none] at hf
    exact hf e he (by simpa using hk)
  | some e' => rw [hf] at h; cases h

end kv


/-! ### further store lemmas -/

section kv2
variable {κ β : Type} {lt : κ → κ → Bool}

theorem foldl_proj {σ τ α : Type} (f : σ → α → σ) (π : σ → τ) (g : τ → α → τ)
    (h : ∀ s a, π (f s a) = g (π s) a) (l : List α) (s : σ) : π (l.foldl f s) = l.foldl g (π s) := by
  induction l generalizing s with
  | nil => rfl
  | cons a l ih => rw [List.foldl_cons, List.foldl_cons, ih, h]

theorem kvGet_eq_some_iff [DecidableEq κ] (so : StrictOrder lt) {s : KV κ β} (hs : Sorted lt s) (k : κ) (v : β) :
    kvGet k s = some v ↔ (k, v) ∈ s := by
  constructor
  · exact kvGet_some
  · intro hm
    cases hg : kvGet k s with
    | none => exact absurd rfl (kvGet_none hg _ hm)
    | some v' =>
      have := hs.eq_of_key so (kvGet_some hg) hm rfl
      rw [(Prod.mk.inj this).2]

theorem kvGet_kvSet_self [DecidableEq κ] (so : StrictOrder lt) {s : KV κ β} (hs : Sorted lt s) (k : κ) (v : β) :
    kvGet k (kvSet lt k v s) = some v :=
  (kvGet_eq_some_iff so (sorted_kvSet so k v hs) k v).2 ((mem_kvSet so k v hs _).2 (Or.inl rfl))

theorem kvGet_kvSet_ne [DecidableEq κ] (so : StrictOrder lt) {s : KV κ β} (hs : Sorted lt s) {k k' : κ} (v : β)
    (hne : k' ≠ k) : kvGet k' (kvSet lt k v s) = kvGet k' s := by
  have hs' := sorted_kvSet so k v hs
  cases hg : kvGet k' s with
  | none =>
    cases hg' : kvGet k' (kvSet lt k v s) with
    | none => rfl
    | some w =>
      rcases (mem_kvSet so k v hs _).1 (kvGet_some hg') with h | ⟨h, _⟩
      · exact absurd (Prod.mk.inj h).1 hne
      · exact absurd rfl (kvGet_none hg _ h)
  | some w =>
    exact (kvGet_eq_some_iff so hs' k' w).2 ((mem_kvSet so k v hs _).2 (Or.inr ⟨kvGet_some hg, hne⟩))

theorem kvHas_iff [DecidableEq κ] (k : κ) (s : KV κ β) : kvHas k s = true ↔ ∃ e ∈ s, e.1 = k := by
  simp [kvHas]

theorem kvHas_false [DecidableEq κ] {k : κ} {s : KV κ β} (h : kvHas k s = false) : ∀ e ∈ s, e.1 ≠ k := by
  intro e he hk
  have := (kvHas_iff k s).2 ⟨e, he, hk⟩
  rw [h] at this; cases this

/-- a loop of `Set`s keeps a section sorted whatever the keys -/
theorem sorted_foldl_kvSet (so : StrictOrder lt) {γ : Type} (kf : γ → κ) (vf : γ → β) (items : List γ)
    {acc : KV κ β} (h : Sorted lt acc) : Sorted lt (items.foldl (fun s x => kvSet lt (kf x) (vf x) s) acc) := by
  induction items generalizing acc with
  | nil => exact h
  | cons x xs ih => exact ih (sorted_kvSet so _ _ h)

theorem nodup_map_on {α γ : Type} {f : α → γ} {l : List α} (hn : l.Nodup)
    (hi : ∀ x ∈ l, ∀ y ∈ l, f x = f y → x = y) : (l.map f).Nodup := by
  induction l with
  | nil => exact List.nodup_nil
  | cons a l ih =>
    rw [List.nodup_cons] at hn
    rw [List.map_cons, List.nodup_cons]
    refine ⟨?_, ih hn.2 (fun x hx y hy => hi x (List.mem_cons_of_mem _ hx) y (List.mem_cons_of_mem _ hy))⟩
    intro hm
    obtain ⟨y, hy, hfy⟩ := List.mem_map.1 hm
    have := hi y (List.mem_cons_of_mem _ hy) a List.mem_cons_self hfy
    subst this; exact hn.1 hy

/-- the exported values of a keyed sorted section are pairwise distinct -/
theorem exportVals_nodup (so : StrictOrder lt) {s : KV κ β} {key : β → κ} (hs : Sorted lt s) (hk : Keyed key s) :
    (exportVals s).Nodup := by
  unfold exportVals
  have hn : s.Nodup := List.Pairwise.imp (fun hab e => so.ne_of_lt hab (congrArg Prod.fst e)) hs
  apply nodup_map_on hn
  intro x hx y hy h
  apply hs.eq_of_key so hx hy
  rw [hk x hx, hk y hy, h]

theorem mem_exportVals {s : KV κ β} {key : β → κ} (hk : Keyed key s) (v : β) :
    v ∈ exportVals s ↔ (key v, v) ∈ s := by
  unfold exportVals
  constructor
  · intro h
    obtain ⟨e, he, rfl⟩ := List.mem_map.1 h
    rw [← hk e he]; exact he
  · intro h; exact List.mem_map.2 ⟨_, h, rfl⟩

end kv2

/-! ### sets of composite keys (`Unit`-valued sections) -/

section sets
variable {κ : Type} {lt : κ → κ → Bool}

theorem mem_setInsU (so : StrictOrder lt) (k : κ) {s : KV κ Unit} (hs : Sorted lt s) (e : κ × Unit) :
    e ∈ kvSet lt k () s ↔ e.1 = k ∨ e ∈ s := by
  rw [mem_kvSet so k () hs]
  constructor
  · rintro (rfl | ⟨h, _⟩)
    · exact Or.inl rfl
    · exact Or.inr h
  · rintro (h | h)
    · left; cases e; simp at h; simp [h]
    · by_cases hk : e.1 = k
      · left; cases e; simp at hk; simp [hk]
      · exact Or.inr ⟨h, hk⟩

/-- a loop of set insertions: sorted, and exactly the old members plus the inserted keys -/
theorem foldl_setIns_spec (so : StrictOrder lt) {γ : Type} (kf : γ → κ) :
    ∀ (items : List γ) (acc : KV κ Unit), Sorted lt acc →
      Sorted lt (items.foldl (fun s x => kvSet lt (kf x) () s) acc) ∧
      ∀ e, e ∈ items.foldl (fun s x => kvSet lt (kf x) () s) acc ↔ e ∈ acc ∨ ∃ x ∈ items, e.1 = kf x
  | [], acc, ha => ⟨ha, fun e => by simp⟩
  | x :: rest, acc, ha => by
    have ih := foldl_setIns_spec so kf rest (kvSet lt (kf x) () acc) (sorted_kvSet so _ _ ha)
    refine ⟨ih.1, fun e => ?_⟩
    rw [List.foldl_cons, ih.2 e, mem_setInsU so _ ha]
    constructor
    · rintro ((h | h) | ⟨y, hy, h⟩)
      · exact Or.inr ⟨x, List.mem_cons_self, h⟩
      · exact Or.inl h
      · exact Or.inr ⟨y, List.mem_cons_of_mem _ hy, h⟩
    · rintro (h | ⟨y, hy, h⟩)
      · exact Or.inl (Or.inr h)
      · rcases List.mem_cons.1 hy with rfl | hy'
        · exact Or.inl (Or.inl h)
        · exact Or.inr ⟨y, hy', h⟩

/-- **a set rebuilt by a loop of insertions** equals any sorted set with exactly those members -/
theorem setRebuild_eq (so : StrictOrder lt) {γ : Type} {kf : γ → κ} {items : List γ} {t : KV κ Unit}
    (ht : Sorted lt t) (hm : ∀ e, e ∈ t ↔ ∃ x ∈ items, e.1 = kf x) :
    items.foldl (fun s x => kvSet lt (kf x) () s) [] = t := by
  have sp := foldl_setIns_spec so kf items [] sorted_nil
  apply sorted_ext so sp.1 ht
  intro e; rw [sp.2 e, hm e]; simp

end sets

/-! ### id counters -/

theorem foldl_max_ge_init (ids : List Nat) (a : Nat) : a ≤ ids.foldl Nat.max a := by
  induction ids generalizing a with
  | nil => exact Nat.le_refl _
  | cons x xs ih => exact Nat.le_trans (Nat.le_max_left a x) (ih _)

theorem foldl_max_ge (ids : List Nat) (a : Nat) : ∀ id ∈ ids, id ≤ ids.foldl Nat.max a := by
  induction ids generalizing a with
  | nil => intro _ h; cases h
  | cons x xs ih =>
    intro id h
    rcases List.mem_cons.1 h with rfl | h'
    · exact Nat.le_trans (Nat.le_max_right a id) (foldl_max_ge_init xs _)
    · exact ih _ id h'

/-- the maximum bounds every id … -/
theorem maxId_ge (ids : List Nat) : ∀ id ∈ ids, id ≤ maxId ids := foldl_max_ge ids 0

/-- … and does not depend on the order of the list -/
theorem maxId_perm {l₁ l₂ : List Nat} (h : l₁.Perm l₂) : maxId l₁ = maxId l₂ := by
  unfold maxId
  apply h.foldl_eq'
  intro x _ y _ z
  show max (max z x) y = max (max z y) x
  omega

theorem maxId_append_singleton (l : List Nat) (x : Nat) : maxId (l ++ [x]) = Nat.max (maxId l) x := by
  unfold maxId; rw [List.foldl_append]; rfl

theorem maxId_cons (x : Nat) (l : List Nat) : maxId (x :: l) = Nat.max x (maxId l) := by
  have : (x :: l).Perm (l ++ [x]) := by
    have := (List.perm_append_comm (l₁ := [x]) (l₂ := l)); simpa using this
  rw [maxId_perm this, maxId_append_singleton]
  show max (maxId l) x = max x (maxId l)
  omega

theorem foldl_max_mem (ids : List Nat) (a : Nat) : ids.foldl Nat.max a = a ∨ ids.foldl Nat.max a ∈ ids := by
  induction ids generalizing a with
  | nil => exact Or.inl rfl
  | cons x xs ih =>
    rw [List.foldl_cons]
    rcases ih (Nat.max a x) with h | h
    · rw [h]
      show max a x = a ∨ max a x ∈ x :: xs
      by_cases hax : a ≤ x
      · right; rw [Nat.max_eq_right hax]; exact List.mem_cons_self
      · left; exact Nat.max_eq_left (by omega)
    · exact Or.inr (List.mem_cons_of_mem _ h)

/-- characterisation: an upper bound that is attained (or 0) is the maximum -/
theorem maxId_eq_of {ids : List Nat} {m : Nat} (hub : ∀ id ∈ ids, id ≤ m) (hat : m = 0 ∨ m ∈ ids) : maxId ids = m := by
  apply Nat.le_antisymm
  · rcases foldl_max_mem ids 0 with h | h
    · unfold maxId; rw [h]; exact Nat.zero_le _
    · exact hub _ h
  · rcases hat with rfl | h
    · exact Nat.zero_le _
    · exact maxId_ge ids m h

/-- `fmt.Sprintf("%d", n)` parses back: decimal keys are injective -/
theorem decVal_aux (fuel n : Nat) (acc : Bytes) (h : n < fuel) :
    (decDigitsAux fuel n acc).foldl (fun a d => a * 10 + (d - 48)) 0 = acc.foldl (fun a d => a * 10 + (d - 48)) n := by
  induction fuel generalizing n acc with
  | zero => omega
  | succ f ih =>
    unfold decDigitsAux
    split
    · simp [List.foldl_cons]
    · rw [ih _ _ (by omega)]
      simp only [List.foldl_cons]
      congr 1; omega

theorem decVal_decKey (n : Nat) : decVal (decKey n) = n := by
  unfold decVal decKey; rw [decVal_aux _ _ _ (by omega)]; rfl

theorem decKey_inj {a b : Nat} (h : decKey a = decKey b) : a = b := by
  have := congrArg decVal h; rwa [decVal_decKey, decVal_decKey] at this

/-! ### sorting by insertion is a permutation -/

theorem insertBy_perm {β : Type} (lt : β → β → Bool) (x : β) (l : List β) : (insertBy lt x l).Perm (x :: l) := by
  induction l with
  | nil => exact List.Perm.refl _
  | cons y ys ih =>
    unfold insertBy
    split
    · exact (List.Perm.cons y ih).trans (List.Perm.swap x y ys)
    · exact List.Perm.refl _

theorem sortBy_perm {β : Type} (lt : β → β → Bool) (l : List β) : (sortBy lt l).Perm l := by
  induction l with
  | nil => exact List.Perm.refl _
  | cons x xs ih => exact (insertBy_perm lt x _).trans (List.Perm.cons x ih)

end DymVerif.Genesis
