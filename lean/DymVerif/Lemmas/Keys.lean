import DymVerif.Model.Keys
import DymVerif.Lemmas.Bytes
import DymVerif.Lemmas.Base64
namespace DymVerif.Keys
open DymVerif

theorem statusBytes_length (st : Status) : (statusBytes st).length = 2 := by cases st <;> rfl

theorem statusBytes_inj (a b : Status) (h : statusBytes a = statusBytes b) : a = b := by
  cases a <;> cases b <;> simp [statusBytes] at h <;> rfl

theorem ptypeStr_no_sep (t : PType) : sep ∉ ptypeStr t := by
  cases t <;> decide

theorem ptypeStr_inj (a b : PType) (h : ptypeStr a = ptypeStr b) : a = b := by
  cases a <;> cases b <;> first | rfl | (exfalso; revert h; decide)

theorem statusStr_no_sep (t : Status) : sep ∉ statusStr t := by
  cases t <;> decide

/-- a key that does not carry the prefix `P` is outside every range `[P ++ a, P ++ b)` -/
theorem not_prefix_not_inRange (P a b K : Bytes) (h : isPrefix P K = false) :
    inRange (P ++ a) (P ++ b) K = false := by
  induction P generalizing K with
  | nil => simp [isPrefix] at h
  | cons p ps ih =>
    cases K with
    | nil => simp [inRange, lexLe, lexLt]
    | cons k ks =>
      simp only [isPrefix, Bool.and_eq_false_iff, beq_eq_false_iff_ne] at h
      simp only [inRange, lexLe, List.cons_append, lexLt]
      by_cases h1 : k < p
      · simp [h1]
      · by_cases h2 : p < k
        · simp [h1, h2]
        · have : p = k := by omega
          subst this
          have := ih ks (by rcases h with h | h; exact absurd rfl h; exact h)
          simpa [inRange, lexLe] using this

theorem inRange_prefix (P a b r : Bytes) :
    inRange (P ++ a) (P ++ b) (P ++ r) = inRange a b r := by
  simp [inRange, lexLe, lexLt_append_left]

/-- equal-length heads decide range membership -/
theorem inRange_head (a b x r : Bytes) (ha : a.length = x.length) (hb : b.length = x.length) :
    inRange a b (x ++ r) = (lexLe a x && lexLt x b) := by
  have key : ∀ (u v s t : Bytes), u.length = v.length →
      lexLt (u ++ s) (v ++ t) = (lexLt u v || (u == v && lexLt s t)) := by
    intro u
    induction u with
    | nil => intro v s t hl; cases v with
      | nil => simp [lexLt]
      | cons _ _ => simp at hl
    | cons p ps ih =>
      intro v s t hl
      cases v with
      | nil => simp at hl
      | cons q qs =>
        simp only [List.cons_append, lexLt]
        by_cases h1 : p < q
        · simp [h1]
        · by_cases h2 : q < p
          · have : p ≠ q := by omega
            simp [h1, h2, this]
          · have : p = q := by omega
            subst this
            simp [h1, ih qs s t (by simpa using hl)]
  have e1 := key x a r [] (by omega)
  have e2 := key x b r [] (by omega)
  have hnil : ∀ s : Bytes, lexLt s [] = false := by intro s; cases s <;> rfl
  simp only [List.append_nil, hnil, Bool.and_false, Bool.or_false] at e1 e2
  simp [inRange, lexLe, e1, e2]

end DymVerif.Keys
